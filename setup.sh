#!/bin/bash
# Offline setup: build every Lean property module and model driver, and the native code from /repo.
set -e
cd "$(dirname "$0")"
cd lean
mods=$(ls HydroVerif/Props/*.lean | sed 's#/#.#g; s#\.lean$##')
drivers=$(ls Drivers/*.lean | sed 's#Drivers/#driver_#; s#\.lean$##')
lake build $mods $drivers
cd ..
/venv/bin/python -c "
import sys; sys.path.insert(0, '.')
from harness import common as C
print(C.native_build())
"
