#!/bin/bash
# Offline setup: build the Lean property modules and model drivers of every claimed check, and the native code from /repo.
# A module that fails to build is reported by its own check (exit 1/2), so setup goes on.
cd "$(dirname "$0")"
ids=$(python3 -c "import json; print(' '.join(c['property_id'] for c in json.load(open('MANIFEST.json'))['checks']))")
cd lean
for id in $ids; do
  lake build HydroVerif.Props.$id driver_$id || echo "setup: build of $id failed"
done
cd ..
/venv/bin/python -c "
import sys; sys.path.insert(0, '.')
from harness import common as C
print(C.native_build())
" || echo "setup: native build failed"
exit 0
