import Mathlib.Data.List.Basic
import Mathlib.Data.List.Nodup
import Mathlib.Tactic.Linarith

/-! C06 spike: breadth-first layers over an abstract upstream/downstream pair.
`up d` lists the cells draining into `d`, `down u` is the cell `u` drains into. -/
namespace Hv
variable {C : Type} [DecidableEq C]

/-- k-th BFS layer from the outlet -/
def layer (up : C → List C) (o : C) : Nat → List C
  | 0 => [o]
  | k+1 => (layer up o k).flatMap up

/-- k-fold downstream walk -/
def walk (down : C → Option C) : Nat → C → Option C
  | 0, c => some c
  | k+1, c => (down c).bind (walk down k)

/-- membership in a layer = the downstream walk of that length ends at the outlet -/
theorem mem_layer_iff (up : C → List C) (down : C → Option C)
    (inv : ∀ u d, u ∈ up d ↔ down u = some d) (o : C) :
    ∀ k c, c ∈ layer up o k ↔ walk down k c = some o := by
  intro k
  induction k with
  | zero => intro c; simp [layer, walk, eq_comm]
  | succ k ih =>
    intro c
    simp only [layer, List.mem_flatMap, walk]
    constructor
    · rintro ⟨d, hd, hc⟩
      rw [(inv c d).1 hc]
      simpa using (ih d).1 hd
    · intro h
      cases hd : down c with
      | none => simp [hd] at h
      | some d =>
        refine ⟨d, (ih d).2 ?_, (inv c d).2 hd⟩
        simpa [hd] using h

/-- each layer is duplicate free when upstream lists are -/
theorem layer_nodup (up : C → List C) (down : C → Option C)
    (inv : ∀ u d, u ∈ up d ↔ down u = some d) (hup : ∀ d, (up d).Nodup) (o : C) :
    ∀ k, (layer up o k).Nodup := by
  intro k
  induction k with
  | zero => simp [layer]
  | succ k ih =>
    simp only [layer]
    rw [List.nodup_flatMap]
    refine ⟨fun d _ => hup d, ?_⟩
    refine List.Pairwise.imp_of_mem ?_ (List.Pairwise.and_mem.1 ih)
    intro d e _ _ hne
    obtain ⟨_, _, hne⟩ := hne
    simp only [Function.onFun, List.disjoint_left]
    intro c hc1 hc2
    have h1 := (inv c d).1 hc1
    have h2 := (inv c e).1 hc2
    rw [h1] at h2
    exact hne (Option.some.inj h2)

/-- walks compose -/
theorem walk_add (down : C → Option C) (j k : Nat) (c : C) :
    walk down (j + k) c = (walk down j c).bind (walk down k) := by
  induction j generalizing c with
  | zero => simp [walk]
  | succ j ih =>
    have : j + 1 + k = (j + k) + 1 := by omega
    rw [this]
    show (down c).bind (walk down (j+k)) = ((down c).bind (walk down j)).bind (walk down k)
    cases h : down c with
    | none => simp
    | some d => simpa using ih d

/-- if the search stops (some layer is empty) two different layers never share a cell -/
theorem layers_disjoint_of_stop (up : C → List C) (down : C → Option C)
    (inv : ∀ u d, u ∈ up d ↔ down u = some d) (o : C) (n : Nat)
    (hstop : layer up o n = []) (j k : Nat) (hjk : j < k) (c : C)
    (hj : c ∈ layer up o j) (hk : c ∈ layer up o k) : False := by
  have wj := (mem_layer_iff up down inv o j c).1 hj
  have wk := (mem_layer_iff up down inv o k c).1 hk
  -- the outlet lies on a cycle of length p = k - j
  obtain ⟨p, rfl⟩ : ∃ p, k = j + p := ⟨k - j, by omega⟩
  have hp : 0 < p := by omega
  rw [walk_add, wj] at wk
  have cyc : walk down p o = some o := by simpa using wk
  -- hence the outlet is in every layer t*p, and no layer is ever empty
  have hmul : ∀ t, walk down (t * p) o = some o := by
    intro t; induction t with
    | zero => simp [walk]
    | succ t ih =>
      have : (t + 1) * p = t * p + p := Nat.succ_mul t p
      rw [this, walk_add, ih]; simpa using cyc
  -- layers are monotone in emptiness: an empty layer stays empty
  have hempty : ∀ m, n ≤ m → layer up o m = [] := by
    intro m hm
    induction m, hm using Nat.le_induction with
    | base => exact hstop
    | succ m _ ih => simp [layer, ih]
  have : o ∈ layer up o (n * p) := (mem_layer_iff up down inv o (n * p) o).2 (hmul n)
  rw [hempty (n * p) (Nat.le_mul_of_pos_right n hp)] at this
  simp at this

#print axioms layers_disjoint_of_stop
end Hv
