import sys
sys.path.insert(0, "/tmp/lt/asan/ext")
import c_hydrodiy_data
print(c_hydrodiy_data.__file__)
import numpy as np
from hydrodiy.data import dutils
print(dutils.aggregate(np.array([1,1,2,2]), np.array([-1.,-2.,3.,np.nan]), operator=2, maxnan=1))
print(dutils.aggregate(np.array([1,1,2,2]), np.array([-1.,-2.,3.,np.nan]), operator=3, maxnan=1))
sys.stdout.flush()
print(dutils.aggregate(np.array([]), np.array([]), operator=0))
