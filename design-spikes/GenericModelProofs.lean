import Hv.Basic
import Mathlib.Algebra.Order.Field.Basic
import Mathlib.Tactic.Linarith
import Mathlib.Tactic.Ring

namespace Hv
variable {α : Type} [Field α] [LinearOrder α] [IsStrictOrderedRing α]

theorem alpha_beta_sum (l r y : α) : alphaBin l r y + betaBin l r y = r - l := by
  unfold alphaBin betaBin; ring

theorem alpha_nonneg (l r y : α) (h : l ≤ r) : 0 ≤ alphaBin l r y := by
  unfold alphaBin clip
  split_ifs <;> linarith

example : alphaBin (1:ℚ) 3 2 = 1 := by decide +kernel
#eval alphaBin (1.0:Float) 3.0 2.0
#print axioms alpha_nonneg
end Hv
