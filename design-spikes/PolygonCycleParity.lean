import Mathlib.Tactic.Linarith
import Mathlib.Data.List.Basic

/-! C15 spike: around a closed vertex cycle the number of edges whose endpoints lie on
different sides of the horizontal line through the query point is even. -/
namespace Hv

/-- number of adjacent changes along a list of booleans -/
def chg : List Bool → Nat
  | a :: b :: t => (xor a b).toNat + chg (b :: t)
  | _ => 0

/-- last element of `a :: l` -/
def lastOf (a : Bool) : List Bool → Bool
  | [] => a
  | b :: t => lastOf b t

theorem chg_parity (l : List Bool) : ∀ a, chg (a :: l) % 2 = (xor a (lastOf a l)).toNat := by
  induction l with
  | nil => intro a; simp [chg, lastOf]
  | cons b t ih =>
    intro a
    have h := ih b
    show ((xor a b).toNat + chg (b :: t)) % 2 = (xor a (lastOf b t)).toNat
    revert h
    generalize lastOf b t = z
    generalize chg (b :: t) = c
    cases a <;> cases b <;> cases z <;> simp <;> omega

theorem lastOf_append (a : Bool) : ∀ (l : List Bool) (b : Bool), lastOf b (l ++ [a]) = a := by
  intro l; induction l with
  | nil => intro b; simp [lastOf]
  | cons c t ih => intro b; simpa [lastOf] using ih c

/-- closing the cycle (`vs ++ [first]`) gives an even number of side changes -/
theorem closed_cycle_even (a : Bool) (l : List Bool) : chg (a :: (l ++ [a])) % 2 = 0 := by
  rw [chg_parity, lastOf_append]; simp

#print axioms closed_cycle_even
end Hv
