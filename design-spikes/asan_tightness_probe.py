import ctypes, sys, numpy as np
libc = ctypes.CDLL(None); libc.malloc.restype = ctypes.c_void_p; libc.malloc.argtypes=[ctypes.c_size_t]; libc.free.argtypes=[ctypes.c_void_p]
k = ctypes.CDLL("./libk_asan.so")
def buf(n, ct):
    p = libc.malloc(max(n,0)*ctypes.sizeof(ct)); return p
def fill(p, vals, ct):
    arr = (ct*len(vals)).from_address(p); arr[:] = vals
# aggregate: nval=4, 2 groups -> outputs footprint = 2 elements (model prediction), outputs allocated exactly 2, then 1
idx=[1,1,2,2]; x=[1.,2.,3.,4.]
for nout in (2,1):
    pi=buf(4,ctypes.c_int); fill(pi,idx,ctypes.c_int); px=buf(4,ctypes.c_double); fill(px,x,ctypes.c_double)
    po=buf(nout,ctypes.c_double); pe=buf(1,ctypes.c_int)
    print(f"PROBE outputs_extent={nout}", file=sys.stderr); sys.stderr.flush()
    k.c_aggregate.argtypes=[ctypes.c_int]*3+[ctypes.c_void_p]*4
    r=k.c_aggregate(4,0,0,pi,px,po,pe); print("ret",r, file=sys.stderr)
