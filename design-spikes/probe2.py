import numpy as np, warnings, os, tempfile
warnings.simplefilter("ignore")
from hydrodiy.gis.grid import Grid, Catchment, accumulate, voronoi
def tr(f):
    try: return f()
    except Exception as e: return f"EXC {type(e).__name__}: {e}"
g = Grid("g", 4, 3, cellsize=1., xllcorner=10, yllcorner=20)
print("coord2cell left-outside", g.coord2cell([[9.5, 21.5]]), "below-outside", g.coord2cell([[10.5,19.5]]), "right", g.coord2cell([[14.5,21.5]]), "above", g.coord2cell([[10.5, 23.5]]))
# accumulate non uniform
fd = Grid("fd", 3, 1, dtype=np.int64); fd.data = [[1,1,0]]   # 0 ->1 ->2(sink)
ta = Grid("ta", 3, 1, dtype=np.float64); ta.data=[[5.,1.,7.]]
import io, contextlib
acc = accumulate(fd, ta)
print("acc", acc.data, "expected cell1 = 1+5 = 6")
# save/load
d = tempfile.mkdtemp()
g2 = Grid("gg", 2, 2, dtype=np.int64, nodata=-99); g2.data = np.array([[2**62+1, 3],[4,5]])
print("data int64", g2.data)
g2.save(os.path.join(d, "a.bil")); g3 = Grid.from_header(os.path.join(d,"a.hdr")); print("reload nodata", g3.nodata, g3.dtype, g3.data, open(os.path.join(d,"a.hdr")).read())
# big endian
hdr = open(os.path.join(d,"a.hdr")).read().replace("BYTEORDER      I","BYTEORDER      M")
open(os.path.join(d,"b.hdr"),"w").write(hdr); np.array([[2,3],[4,5]],dtype=">i8").tofile(os.path.join(d,"b.bil"))
print("big endian", tr(lambda: Grid.from_header(os.path.join(d,"b.hdr")).data))
# catchment dict
fd = Grid("fd", 3, 3, dtype=np.int64); fd.data = [[4,4,4],[4,4,4],[0,0,0]]
c = Catchment("c", fd); c.delineate_area(7, idxinlets=[1]); print("area", c.idxcells_area, "inlets", c.idxinlets)
c2 = Catchment.from_dict(c.to_dict()); print("inlets after dict", c2.idxinlets)
