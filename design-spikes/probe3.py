import numpy as np, pandas as pd, warnings, os, tempfile
warnings.simplefilter("ignore")
from hydrodiy.data import dutils
from hydrodiy.io import csv
def tr(f):
    try: return f()
    except Exception as e: return f"EXC {type(e).__name__}: {e}"
t = pd.date_range("2001-01-01 00:10", periods=40, freq="15min")
se = pd.Series(np.arange(40.), index=t)
print(t.dtype)
print("var2h", tr(lambda: dutils.var2h(se).head(4).values))
for unit in ["s","ms","us","ns"]:
    se2 = pd.Series(np.arange(40.), index=t.as_unit(unit))
    print(unit, tr(lambda: dutils.var2h(se2).head(3).values))
d = tempfile.mkdtemp(); src = os.path.join(d,"s.py"); open(src,"w").close()
df = pd.DataFrame({"a b":[1.5,2.5],"t":["x,1",'q"z']})
for nm in ["f.csv","g.zip","h"]:
    p = os.path.join(d,nm)
    csv.write_csv(df, p, {"my key":"v: 1 # x"}, src, compress=True)
    print(nm, os.listdir(d), tr(lambda: csv.read_csv(p)[0].to_dict("list")))
p = os.path.join(d,"plain.csv"); csv.write_csv(df, p, {"my key":"v: 1 # x", "k2":"a"}, src, compress=False, write_sys_info=False)
print(csv.read_csv(p))
