/-! generic numeric model experiment -/
namespace Hv

variable {α : Type} [Add α] [Sub α] [Mul α] [Div α] [LT α] [DecidableLT α] [LE α] [DecidableLE α]

def clip (x lo hi : α) : α := if x < lo then lo else if hi < x then hi else x

/-- bin contribution of Hersbach alpha/beta for one bin [l,r] and obs y -/
def alphaBin (l r y : α) : α := clip y l r - l
def betaBin (l r y : α) : α := r - clip y l r

def sumL [OfNat α 0] : List α → α
  | [] => 0
  | x :: xs => x + sumL xs

end Hv
