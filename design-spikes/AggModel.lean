/-! aggregate kernel model experiment (operator 0 = sum), NaN as none -/
namespace Hv

variable {α : Type} [Add α] [OfNat α 0]

structure AggSt (α : Type) where
  prev : Int
  agg : α
  nnan : Nat
  out : List (Option α)   -- reversed outputs

def flush (maxnan : Nat) (s : AggSt α) : Option α :=
  if s.nnan > maxnan then none else some s.agg

/-- one loop iteration of c_aggregate (operator 0); returns none on decreasing index -/
def aggStep (maxnan : Nat) (s : AggSt α) (ia : Int) (x : Option α) : Option (AggSt α) :=
  if ia < s.prev then none else
  let s1 : AggSt α := if ia ≠ s.prev then
      { prev := ia, agg := 0, nnan := 0, out := flush maxnan s :: s.out } else s
  match x with
  | none => some { s1 with nnan := s1.nnan + 1 }
  | some v => some { s1 with agg := s1.agg + v }

def aggLoop (maxnan : Nat) : AggSt α → List (Int × Option α) → Option (AggSt α)
  | s, [] => some s
  | s, (ia, x) :: rest =>
    match aggStep maxnan s ia x with
    | none => none
    | some s' => aggLoop maxnan s' rest

/-- c_aggregate for nval ≥ 1 -/
def aggregate (maxnan : Nat) : List (Int × Option α) → Option (List (Option α))
  | [] => none   -- the C code reads aggindex[0]: out of contract
  | (i0, x0) :: rest =>
    match aggLoop maxnan ({ prev := i0, agg := (0:α), nnan := 0, out := [] } : AggSt α) ((i0, x0) :: rest) with
    | none => none
    | some s => some ((flush maxnan s :: s.out).reverse)

#eval aggregate (α := Float) 0 [(1, some 1.0), (1, some 2.0), (2, none), (3, some 5.0)]
end Hv
