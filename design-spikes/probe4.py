import numpy as np, pandas as pd, warnings
warnings.simplefilter("ignore")
from hydrodiy.data import dutils
from hydrodiy.gis.grid import Grid, Catchment
# var2h half-hourly overshoot: constant series value 10 from 00:00:01, 3 hours, 10-min stamps (ns index)
t = pd.date_range("2001-01-01 00:00:01", periods=19, freq="10min").as_unit("ns")
se = pd.Series(10.0*np.ones(len(t)), index=t)
h = dutils.var2h(se, nbsec_per_period=1800)
print("last stamp", t[-1]); print(h.tail(4))
# flow path lengths on a 2-column grid with a diagonal step: cell1 (r0,c1) -> cell2 (r1,c0): code 8 (SW)
fd = Grid("fd", 2, 2, dtype=np.int64); fd.data = [[0, 8],[4, 0]]   # cell1 -> SW -> cell2 ; cell2 -> S off grid
c = Catchment("c", fd); c.delineate_area(2); print("area", c.idxcells_area)
c.compute_flowpathlengths(); print(c.flowpathlengths)
