import Hv.Agg
import Mathlib.Tactic.Linarith
import Mathlib.Data.List.Basic

namespace Hv
variable {α : Type} [Add α] [OfNat α 0]

/-- spec: continue a group (key k, accumulated sum a, nan count n) through the list -/
def specGo (maxnan : Nat) (k : Int) (a : α) (n : Nat) : List (Int × Option α) → List (Option α)
  | [] => [if n > maxnan then none else some a]
  | (i, x) :: rest =>
    if i = k then
      match x with
      | none => specGo maxnan k a (n+1) rest
      | some v => specGo maxnan k (a + v) n rest
    else
      (if n > maxnan then none else some a) ::
      match x with
      | none => specGo maxnan i 0 1 rest
      | some v => specGo maxnan i (0 + v) 0 rest

def nondecr : Int → List (Int × Option α) → Prop
  | _, [] => True
  | k, (i, _) :: rest => k ≤ i ∧ nondecr i rest

theorem aggLoop_spec (maxnan : Nat) (l : List (Int × Option α)) :
    ∀ (s : AggSt α), nondecr s.prev l →
      ∃ s', aggLoop maxnan s l = some s' ∧
        (flush maxnan s' :: s'.out).reverse = s.out.reverse ++ specGo maxnan s.prev s.agg s.nnan l := by
  induction l with
  | nil =>
    intro s _
    refine ⟨s, rfl, ?_⟩
    simp [specGo, flush]
  | cons hd tl ih =>
    intro s h
    obtain ⟨i, x⟩ := hd
    obtain ⟨hle, htl⟩ := h
    have hnlt : ¬ i < s.prev := not_lt.mpr hle
    by_cases hik : i = s.prev
    · subst hik
      cases x with
      | none =>
        obtain ⟨s', h1, h2⟩ := ih { s with nnan := s.nnan + 1 } (by simpa using htl)
        refine ⟨s', ?_, ?_⟩
        · simp [aggLoop, aggStep, h1]
        · simpa [specGo] using h2
      | some v =>
        obtain ⟨s', h1, h2⟩ := ih { s with agg := s.agg + v } (by simpa using htl)
        refine ⟨s', ?_, ?_⟩
        · simp [aggLoop, aggStep, h1]
        · simpa [specGo] using h2
    · cases x with
      | none =>
        obtain ⟨s', h1, h2⟩ := ih { prev := i, agg := 0, nnan := 0 + 1, out := flush maxnan s :: s.out } (by simpa using htl)
        refine ⟨s', ?_, ?_⟩
        · simp [aggLoop, aggStep, hnlt, hik, h1]
        · simp [specGo, hik, flush] at h2 ⊢
          simpa [flush] using h2
      | some v =>
        obtain ⟨s', h1, h2⟩ := ih { prev := i, agg := 0 + v, nnan := 0, out := flush maxnan s :: s.out } (by simpa using htl)
        refine ⟨s', ?_, ?_⟩
        · simp [aggLoop, aggStep, hnlt, hik, h1]
        · simp [specGo, hik, flush] at h2 ⊢
          simpa [flush] using h2

#print axioms aggLoop_spec
end Hv
