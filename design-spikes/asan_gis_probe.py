import sys
sys.path.insert(0, "/tmp/lt/asan/ext")
import numpy as np, warnings
warnings.simplefilter("ignore")
from hydrodiy.gis.grid import Grid, Catchment, voronoi
import c_hydrodiy_gis; print(c_hydrodiy_gis.__file__, file=sys.stderr)
g = Grid("g", 3, 3)
print("PROBE coord2cell_n1", file=sys.stderr); g.coord2cell(np.array([[0.5],[1.5],[2.5]]))
fd = Grid("fd", 3, 3, dtype=np.int64); fd.data = [[4,4,4],[4,4,4],[0,0,0]]
c = Catchment("c", fd); c.delineate_area(7)
print("area", c.idxcells_area, file=sys.stderr)
print("PROBE voronoi_cells_gt_points", file=sys.stderr); print(voronoi(c, np.array([[1.5,1.5]])), file=sys.stderr)
fd2 = Grid("fd", 3, 3, dtype=np.int64); fd2.data = [[0,0,0],[0,4,0],[0,0,0]]
c2 = Catchment("c2", fd2); c2.delineate_area(7); print("area2", c2.idxcells_area, c2.idxcells_area_filled, file=sys.stderr)
c2._idxcells_area = np.array([4]); c2._idxcells_area_filled = np.array([4])
print("PROBE boundary_onecell", file=sys.stderr); c2.delineate_boundary(); print(c2.idxcells_boundary, file=sys.stderr)
