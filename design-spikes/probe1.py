import numpy as np, warnings, traceback
warnings.simplefilter("ignore")
from hydrodiy.stat import transform, metrics
from hydrodiy.data.containers import Vector
def tr(f):
    try: return f()
    except Exception as e: return f"EXC {type(e).__name__}: {e}"
# Manly
m = transform.Manly(); m.xmax = 2.0
m.lam = 0.0
print("Manly lam=0 fwd", tr(lambda: m.forward(np.array([0.5,1.0]))))
m.lam = 1e-10
print("Manly lam=EPS fwd", tr(lambda: m.forward(np.array([0.5,1.0]))))
print("Manly lam=EPS jac", tr(lambda: m.jacobian(np.array([0.5,1.0]))))
# Vector clone
v = Vector(["a","b"],[0,0],[-1,-1],[1,1],check_hitbounds=True)
c = v.clone(); print("clone check_hitbounds", v.check_hitbounds, c.check_hitbounds)
v2 = Vector(["a"],[np.nan],[0],[1],accept_nan=True)
print("clone accept_nan", tr(lambda: v2.clone().accept_nan))
# from_dict hitbounds
v.values=[2,0]; print("hit", v.hitbounds, "after dict", Vector.from_dict(v.to_dict()).hitbounds)
# params_sample mutates bounds
yj = transform.YeoJohnson(); print("before", yj.params.mins, yj.params.maxs); yj.params_sample(5); print("after", yj.params.mins, yj.params.maxs)
# ORSS
print("ORSS theta>1", metrics.binary([[50,10],[5,35]])[0]["ORSS"], "theta<1", metrics.binary([[10,50],[35,5]])[0]["ORSS"])
# confusion matrix
print(tr(lambda: metrics.confusion_matrix([0,2,2,0],[0,0,0,0]).values))
print(tr(lambda: metrics.confusion_matrix([0,1,1,0],[0,0,1,1], ncat=3).values))
