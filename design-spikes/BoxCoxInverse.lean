import Mathlib.Analysis.SpecialFunctions.Pow.Real
import Mathlib.Analysis.SpecialFunctions.Pow.Deriv
import Mathlib.Analysis.SpecialFunctions.Arsinh
import Mathlib.Analysis.SpecialFunctions.Log.Deriv

open Real

-- BoxCox2 forward/backward over ℝ
noncomputable def bcF (nu lam x : ℝ) : ℝ := if |lam| > 1e-10 then ((x+nu)^lam - 1)/lam else Real.log (x+nu)
noncomputable def bcB (nu lam y : ℝ) : ℝ := if |lam| > 1e-10 then (lam*y+1)^(1/lam) - nu else Real.exp y - nu

theorem bc_back_fwd (nu lam x : ℝ) (hx : 0 < x + nu) : bcB nu lam (bcF nu lam x) = x := by
  unfold bcB bcF
  split_ifs with h
  · have hl : lam ≠ 0 := by
      intro h0; rw [h0] at h; norm_num at h
    have : lam * (((x + nu) ^ lam - 1) / lam) + 1 = (x+nu)^lam := by field_simp; ring
    rw [this, one_div, Real.rpow_rpow_inv hx.le hl]; ring
  · rw [Real.exp_log hx]; ring

#check @Real.sinh_arsinh
#check @Real.arsinh_sinh
#check @Real.hasDerivAt_arsinh
#check @HasDerivAt.rpow_const
#check @Real.hasDerivAt_log
#print axioms bc_back_fwd
