/-! Vector state machine over an explicit array store (aliasing visible) — spike -/
namespace Hv

/-- extended values: NaN, -inf, finite (scaled integer), +inf -/
inductive XR | nan | ninf | fin (q : Int) | pinf
deriving DecidableEq, Repr

namespace XR
/-- IEEE `<` : false when a NaN is involved -/
def lt : XR → XR → Bool
  | nan, _ => false | _, nan => false
  | ninf, ninf => false | ninf, _ => true
  | _, ninf => false
  | pinf, _ => false
  | fin _, pinf => true
  | fin a, fin b => a < b
def isNaN : XR → Bool | nan => true | _ => false
/-- python `min(max(v, lo), hi)` : NaN passes through -/
def clip (v lo hi : XR) : XR :=
  let m := if lt v lo then lo else v          -- max(v, lo) = lo if lo > v else v
  if lt hi m then hi else m                   -- min(m, hi) = hi if hi < m else m
def within (v lo hi : XR) : Bool := !(lt v lo) && !(lt hi v) && !v.isNaN
end XR

abbrev Ref := Nat
abbrev Store := List (List XR)

structure Vec where
  n : Nat
  values : Ref
  mins : Ref
  maxs : Ref
  defaults : Ref
  hit : Bool
  checkHit : Bool
  acceptNan : Bool
deriving Repr

def Store.get (s : Store) (r : Ref) : List XR := s.getD r []
def Store.alloc (s : Store) (a : List XR) : Store × Ref := (s ++ [a], s.length)
def Store.setAt (s : Store) (r : Ref) (i : Nat) (v : XR) : Store :=
  s.modify r (fun a => a.set i v)

inductive Out | ok | rejected deriving DecidableEq, Repr

/-- `__setattr__` on a named element: in-place write into the values array -/
def setAttr (s : Store) (v : Vec) (i : Nat) (x : XR) : (Store × Vec) × Out :=
  if i ≥ v.n then ((s, v), .rejected) else
  if x.isNaN && !v.acceptNan then ((s, v), .rejected) else
  let lo := (s.get v.mins).getD i .ninf
  let hi := (s.get v.maxs).getD i .pinf
  let hit := if v.checkHit then (XR.lt x lo || XR.lt hi x) else v.hit
  ((s.setAt v.values i (XR.clip x lo hi), { v with hit := hit }), .ok)

/-- `values` setter: checks, clips into a FRESH array and rebinds -/
def setAll (s : Store) (v : Vec) (xs : List XR) : (Store × Vec) × Out :=
  if xs.length ≠ v.n then ((s, v), .rejected) else
  if xs.any XR.isNaN && !v.acceptNan then ((s, v), .rejected) else
  let lo := s.get v.mins
  let hi := s.get v.maxs
  let hit := v.checkHit && (List.range v.n).any (fun i =>
    XR.lt (xs.getD i .nan) (lo.getD i .ninf) || XR.lt (hi.getD i .pinf) (xs.getD i .nan))
  let clipped := (List.range v.n).map (fun i => XR.clip (xs.getD i .nan) (lo.getD i .ninf) (hi.getD i .pinf))
  let (s', r) := s.alloc clipped
  ((s', { v with values := r, hit := hit }), .ok)

/-- invariant: each stored value is NaN-with-permission or within its bounds -/
def Inv (s : Store) (v : Vec) : Prop :=
  ∀ i, i < v.n →
    let x := (s.get v.values).getD i .nan
    (x.isNaN = true ∧ v.acceptNan = true) ∨
    XR.within x ((s.get v.mins).getD i .ninf) ((s.get v.maxs).getD i .pinf) = true

#eval (setAll [[.fin 0], [.fin (-1)], [.fin 1], [.fin 0]] ⟨1, 0, 1, 2, 3, false, true, false⟩ [.fin 5])
end Hv
