import Hv.Vec
import Mathlib.Tactic.Linarith
import Mathlib.Data.List.Basic

namespace Hv
open XR

theorem clip_within (x lo hi : XR) (hx : x.isNaN = false) (hlo : lo.isNaN = false)
    (hhi : hi.isNaN = false) (hb : XR.lt hi lo = false) :
    XR.within (XR.clip x lo hi) lo hi = true := by
  cases x <;> cases lo <;> cases hi <;>
    simp_all [XR.clip, XR.within, XR.lt, XR.isNaN] <;>
    (try split_ifs) <;> simp_all [XR.lt, XR.isNaN] <;> omega

theorem clip_nan (lo hi : XR) (hlo : lo.isNaN = false) (hhi : hi.isNaN = false) :
    (XR.clip .nan lo hi).isNaN = true := by
  cases lo <;> cases hi <;> simp_all [XR.clip, XR.lt, XR.isNaN]

/-- well-formed vector in a store: refs in range, pairwise distinct, bounds arrays
    NaN-free of length n with min ≤ max -/
structure WF (s : Store) (v : Vec) : Prop where
  rv : v.values < s.length
  rm : v.mins < s.length
  rM : v.maxs < s.length
  dvm : v.values ≠ v.mins
  dvM : v.values ≠ v.maxs
  bounds : ∀ i, i < v.n →
    ((s.get v.mins).getD i .ninf).isNaN = false ∧ ((s.get v.maxs).getD i .pinf).isNaN = false ∧
    XR.lt ((s.get v.maxs).getD i .pinf) ((s.get v.mins).getD i .ninf) = false

theorem get_alloc_old (s : Store) (a : List XR) (r : Ref) (h : r < s.length) :
    (s.alloc a).1.get r = s.get r := by
  simp [Store.alloc, Store.get, List.getD_eq_getElem?_getD, List.getElem?_append_left h]

theorem get_alloc_new (s : Store) (a : List XR) :
    (s.alloc a).1.get (s.alloc a).2 = a := by
  simp [Store.alloc, Store.get, List.getD_eq_getElem?_getD]

/-- the whole-vector assignment re-establishes the invariant from nothing but WF -/
theorem setAll_inv (s : Store) (v : Vec) (xs : List XR) (wf : WF s v) (hinv : Inv s v) :
    Inv (setAll s v xs).1.1 (setAll s v xs).1.2 := by
  unfold setAll
  split_ifs with h1 h2
  · exact hinv
  · exact hinv
  · intro i hi
    have hi : i < v.n := hi
    simp only
    rw [get_alloc_new, get_alloc_old _ _ _ wf.rm, get_alloc_old _ _ _ wf.rM]
    obtain ⟨b1, b2, b3⟩ := wf.bounds i hi
    have hlen : i < (List.range v.n).length := by simpa using hi
    simp only [List.getD_eq_getElem?_getD, List.getElem?_map, List.getElem?_range hi, Option.map_some, Option.getD_some]
    by_cases hx : (xs[i]?.getD XR.nan).isNaN = true
    · left
      constructor
      · have : xs[i]?.getD XR.nan = .nan := by
          cases h : xs[i]?.getD XR.nan <;> simp_all [XR.isNaN]
        rw [this]
        simpa [List.getD_eq_getElem?_getD] using clip_nan _ _ b1 b2
      · -- a NaN among xs is only accepted when acceptNan
        have hlen' : i < xs.length := by
          have : xs.length = v.n := by simpa using h1
          omega
        have hany : xs.any XR.isNaN = true := by
          rw [List.any_eq_true]
          refine ⟨xs[i], List.getElem_mem hlen', ?_⟩
          simpa [List.getElem?_eq_getElem hlen'] using hx
        cases hacc : v.acceptNan
        · simp [hany, hacc] at h2
        · rfl
    · right
      have hx' : (xs[i]?.getD XR.nan).isNaN = false := by simpa using hx
      simpa [List.getD_eq_getElem?_getD] using clip_within _ _ _ hx' b1 b2 b3
end Hv
