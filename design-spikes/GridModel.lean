/-! grid index model experiment -/
namespace Hv

/-- c_neighbours: neighbour k (0..8) of cell idx on an nrows x ncols grid; -1 if off-grid or centre -/
def neighbour (nrows ncols : Int) (idx : Int) (k : Nat) : Int :=
  let nx0 := idx % ncols
  let ny0 := (idx - nx0) / ncols
  let ix : Int := (k % 3 : Nat) - 1
  let iy : Int := (k / 3 : Nat) - 1
  if k = 4 then -1 else
  let nx := nx0 + ix
  let ny := ny0 + iy
  if nx < 0 ∨ nx > ncols - 1 ∨ ny < 0 ∨ ny > nrows - 1 then -1 else ny * ncols + nx

def codes : List Int := [32, 64, 128, 16, 0, 1, 8, 4, 2]

/-- c_downstream for one cell (valid idx) -/
def downstream (nrows ncols : Int) (fd : Int → Int) (idx : Int) : Int :=
  let f := fd idx
  if f = 0 then -2 else
  (List.range 9).foldl (fun acc j => if f = codes[j]! then neighbour nrows ncols idx j else acc) (-1)

/-- c_upstream for one cell: list of upstream cells -/
def upstream (nrows ncols : Int) (fd : Int → Int) (idx : Int) : List Int :=
  (List.range 9).filterMap (fun j =>
    let n := neighbour nrows ncols idx j
    if n = -1 then none else
    if fd n = 0 then none else
    if fd n = codes[8 - j]! then some n else none)

#eval downstream 3 3 (fun _ => 4) 4
#eval upstream 3 3 (fun _ => 4) 7
end Hv
