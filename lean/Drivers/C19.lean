import HydroVerif.Proto
import HydroVerif.Model.C19
open HydroVerif HydroVerif.C19

/-! Line protocol of the C19 model driver. Values cross as typed tokens: `i12`, `i-3`, `sabc`, `f0.5`, `oNone`.
An option row of the value matrix is `v,v,v`, `!v` (a scalar given bare), `-` (an empty iterable) or `?` (neither a
scalar nor iterable). -/

def errName : Err → String
  | .nelemLt1 => "nelemLt1" | .nelemLtNbatch => "nelemLtNbatch" | .ibatchRange => "ibatchRange"
  | .numpy => "numpy" | .indexError => "indexError"

def fmtMat (rows : List (List String)) : String :=
  "[" ++ ";".intercalate (rows.map fun r => ",".intercalate r) ++ "]"

def valTok? (s : String) : Option Val :=
  let body := (s.drop 1).toString
  if s.startsWith "i" then body.toInt?.map Val.int
  else if s.startsWith "s" then some (.str body)
  else if s.startsWith "f" then some (.flt body)
  else if s.startsWith "o" then some (.other body)
  else none

def fmtVal : Val → String
  | .int i => "i" ++ toString i
  | .str s => "s" ++ s
  | .flt r => "f" ++ r
  | .other r => "o" ++ r

def toArg? (row : List String) : Option OptArg :=
  match row with
  | ["?"] => some .notIterable
  | ["-"] => some (.many [])
  | [s] => if s.startsWith "!" then (valTok? (s.drop 1).toString).map OptArg.bare
           else (valTok? s).map fun v => OptArg.many [v]
  | _ => (HydroVerif.allSome (row.map valTok?)).map OptArg.many

def args? (keys : String) (vals : String) : Option (List (String × OptArg)) :=
  (HydroVerif.allSome ((matToks vals).map toArg?)).map fun as => (listToks keys).zip as

def dict? (keys : String) (vals : String) : Option Dict :=
  (HydroVerif.allSome ((listToks vals).map valTok?)).map fun vs => (listToks keys).zip vs

def fmtDict (d : Dict) : String := fmtList (d.map fun kv => kv.1 ++ "=" ++ fmtVal kv.2)

def fmtOut (cur : Manager) : Out → String
  | .ok => "ok"
  | .err => "err"
  | .ids l => "ids" ++ fmtNatList l
  | .task t => s!"task:{t.taskid}:{fmtDict t.context}:{fmtDict t.options}"
  | .mgr m' =>
    -- `==` between managers that differ is not constrained by the property: only the outcome on equal managers is compared
    if m' = cur then s!"mgr:{mEq cur m'}:{mEq m' cur}:true:{m'.tasks.length}" else s!"mgr:differs:{m'.tasks.length}"

/-- one operation of a history, as one token -/
def op? (tok : String) : Option Op :=
  match tok.splitOn ":" with
  | ["K", key, name] => some (.setKey key name)
  | ["R"] => some .resetKeys
  | ["C", keys, vals] => (args? keys vals).map Op.cartesian
  | ["F", keys, vals] => (dict? keys vals).map Op.find
  | ["T", id] => id.toInt?.map Op.getTask
  | ["E"] => some .exp
  | ["J"] => some .jsn
  | ["I"] => some .imp
  | ["S", path, ow] => some (.save path (ow == "1"))
  | ["L", path] => some (.load path)
  | _ => none

/-- replies of a history, each formatted against the manager held when the operation is made; the last token says
whether the final world is the one `run` computes (the same fold, so always `true`: it ties `run` to this loop) -/
def runFmt (w : World) (ops : List Op) : List String :=
  let rec go (w : World) : List Op → List String
    | [] => []
    | op :: rest =>
      let (w1, o) := step w op
      fmtOut w.mgr o :: go w1 rest
  let outs := go w ops
  let (wf, os) := run w ops
  outs ++ [s!"n={os.length},ntasks={wf.mgr.tasks.length},files={wf.files.length},knok={decide wf.kn.ok}"]

def handle (toks : List String) : String :=
  match toks with
  | ["batch", n, k, i] =>
    match n.toInt?, k.toInt?, i.toInt? with
    | some n, some k, some i =>
      match getBatch n k i with
      | .ok l => "ok " ++ fmtNatList l
      | .error e => "err " ++ errName e
    | _, _, _ => "bad-op"
  | ["split", n, k] =>
    match n.toNat?, k.toNat? with
    | some n, some k =>
      match HydroVerif.C19.allSome (arraySplit (List.range n) k) with
      | some parts =>
        let closed := (List.range k).map (batch n k)
        let sizes := (List.range k).map (bsize n k)
        let starts := (List.range (k + 1)).map (bstart n k)
        s!"{fmtMat (parts.map fun p => p.map toString)} sizes={fmtNatList (sectionSizes n k)} points={fmtNatList (divPoints n k)} closed={decide (parts = closed)} bsize={decide (sizes = sectionSizes n k)} bstart={decide (starts = divPoints n k)}"
      | none => "err numpy"
    | _, _ => "bad-op"
  | ["search", n, k, s] =>
    match n.toNat?, k.toNat?, s.toNat? with
    | some n, some k, some s => match search n k s with | some i => s!"some {i}" | none => "none"
    | _, _, _ => "bad-op"
  | ["sbitem", ids, k, i] =>
    match k.toInt?, i.toInt? with
    | some k, some i =>
      match SiteBatch.mk? (listToks ids) k with
      | none => "err nonUnique"
      | some sb => match sb.getItem i with
        | .ok l => "ok " ++ fmtList l
        | .error e => "err " ++ errName e
    | _, _ => "bad-op"
  | ["sbsearch", ids, k, id] =>
    match k.toInt? with
    | some k =>
      match SiteBatch.mk? (listToks ids) k with
      | none => "err nonUnique"
      | some sb => match sb.search id with
        | .ok (some i) => s!"some {i}"
        | .ok none => "none"
        | .error e => "err " ++ errName e
    | none => "bad-op"
  | ["product", keys, vals] =>
    match args? keys vals with
    | some args =>
      match (Manager.new "m" []).cartesian args with
      | (m, true) =>
        -- the accepted manager is `fromCartesian` of the dictionary of value lists (theorem `fromCartesianArgs_eq`)
        let lists := args.filterMap fun kv => kv.2.toList?
        let fc := decide (m = fromCartesian "m" (dictOf []) (dictOf ((args.map (·.1)).zip lists)))
        s!"n={m.tasks.length} " ++ fmtMat (m.tasks.map fun t => t.map fun kv => fmtVal kv.2) ++ s!" fc={fc}"
      | (m, false) => "err typeError " ++ fmtList (m.options.map (·.1))
    | none => "bad-op"
  | ["find", keys, vals, ck, cv] =>
    match args? keys vals, dict? ck cv with
    | some args, some crit =>
      let m := fromCartesianArgs "m" [] args
      let plain := crit.all (·.2.plain) && m.options.all fun kv => kv.2.all Val.plain
      let quant := crit.all (·.2.quant) && m.options.all fun kv => kv.2.all Val.quant
      match find m crit with
      | .ok l => s!"ok {fmtNatList l} plain={plain} quant={quant}"
      | .error .unknownKey => "err unknownKey"
      | .error .keyError => "err keyError"
    | _, _ => "bad-op"
  | ["gettask", ctxK, ctxV, keys, vals, id, key] =>
    match dict? ctxK ctxV, args? keys vals, id.toInt? with
    | some ctx, some args, some id =>
      let m := fromCartesianArgs "m" ctx args
      match getTask m id with
      | some t =>
        let got := match t.get key with | some v => fmtVal v | none => "err"
        let exported := match (toDict KeyNames.default m).lookup "tasks" with | some (.tasks ts) => ts[t.taskid]? | _ => none
        let same := reprStr (some (t.toDict KeyNames.default)) == reprStr exported
        s!"task:{t.taskid}:{fmtDict t.context}:{fmtDict t.options} get={got} todict={same}"
      | none => "err"
    | _, _, _ => "bad-op"
  | ["roundtrip", kc, kt, km, name, ctxK, ctxV, keys, vals] =>
    let kn : KeyNames := ⟨kc, kt, km⟩
    match dict? ctxK ctxV, args? keys vals with
    | some ctx, some args =>
      let m := fromCartesianArgs name ctx args
      match fromDict kn (toDict kn m) with
      | some m' => s!"some {mEq m m'} {mEq m' m} {decide (m' = m)} {m'.tasks.length} knok={decide kn.ok} okeq={decide kn.okEq}"
      | none => s!"none knok={decide kn.ok} okeq={decide kn.okEq}"
    | _, _ => "bad-op"
  | "hist" :: name :: ctxK :: ctxV :: ops =>
    match dict? ctxK ctxV, HydroVerif.allSome (ops.map op?) with
    | some ctx, some ops => " ".intercalate (runFmt (World.init name ctx) ops)
    | _, _ => "bad-op"
  | _ => "bad-op"

def main : IO Unit := serve handle
