import HydroVerif.Proto
import HydroVerif.Model.C19
open HydroVerif HydroVerif.C19

def errName : Err → String
  | .nelemLt1 => "nelemLt1" | .nelemLtNbatch => "nelemLtNbatch" | .ibatchRange => "ibatchRange"

def fmtMat (rows : List (List String)) : String :=
  "[" ++ ";".intercalate (rows.map fun r => ",".intercalate r) ++ "]"

/-- a row `!v` of the value matrix is a scalar given bare -/
def toArg (row : List String) : OptArg :=
  match row with
  | [s] => if s.startsWith "!" then .bare (s.drop 1).toString else .many [s]
  | _ => .many row

def mkManager (name : String) (ctxK ctxV keys : List String) (vals : List (List String)) : Manager :=
  fromCartesianArgs name (ctxK.zip ctxV) (keys.zip (vals.map toArg))

def handle (toks : List String) : String :=
  match toks with
  | ["batch", n, k, i] =>
    match n.toInt?, k.toInt?, i.toInt? with
    | some n, some k, some i =>
      match getBatch n k i with
      | .ok l => "ok " ++ fmtNatList l
      | .error e => "err " ++ errName e
    | _, _, _ => "bad-op"
  | ["search", n, k, s] =>
    match n.toNat?, k.toNat?, s.toNat? with
    | some n, some k, some s => match search n k s with | some i => s!"some {i}" | none => "none"
    | _, _, _ => "bad-op"
  | ["product", keys, vals] =>
    let m := mkManager "m" [] [] (listToks keys) (matToks vals)
    fmtMat (m.tasks.map fun t => t.map (·.2))
  | ["find", keys, vals, key, val] =>
    let m := mkManager "m" [] [] (listToks keys) (matToks vals)
    match find m key val with
    | some l => "ok " ++ fmtNatList l
    | none => "err unknownKey"
  | ["roundtrip", kc, kt, km, name, ctxK, ctxV, keys, vals] =>
    let kn : KeyNames := ⟨kc, kt, km⟩
    let m := mkManager name (listToks ctxK) (listToks ctxV) (listToks keys) (matToks vals)
    match fromDict kn (toDict kn m) with
    | some m' => s!"some {mEq m m'} {mEq m' m} {decide (m' = m)} {m'.tasks.length}"
    | none => "none"
  | _ => "bad-op"

def main : IO Unit := serve handle
