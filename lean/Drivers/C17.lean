import HydroVerif.Proto
import HydroVerif.Model.C17
import HydroVerif.Model.C17Spec
import HydroVerif.Model.C17Hist
import HydroVerif.Model.C17Round
open HydroVerif HydroVerif.C17

/-
Line protocol of the C17 model driver.

  sim   <params> <mean> <ini> <innov>                      kernel model at Float
  res   <params> <mean> <ini> <inputs>
  pysim <params> <innov> <meanArg> <iniArg>                wrapper model at Float; `none` = argument left at its default
  pyres <params> <inputs> <nanmean> <meanArg> <iniArg>     `nanmean` = numpy.nanmean(inputs) (external)
  simq / resq  <params> <mean> <ini> <series>              kernel model at Rat (exact), tokens `p/q`, `nan`
  pyresd  <params> <inputs> <meanArg> <iniArg>             wrapper model with the data mean computed in the model
  pyresdq <params> <inputs> <meanArg> <iniArg>             the same at Rat
  nanmean <xs> / nanmeanq <xs>                             the model's data mean (`nan` when no value is present)
  simcut / rescut <params> <mean> <ini> <series> <n>       Float: the run on the first n values, then resumed on the
                                                           rest from the lag buffer `simBuf` / `resBuf` left by them
  hist <params> <series> <op> ...                          Float: a history of operations on one set of argument objects
        sp:<k>:<v>  ss:<i>:<v>  sl:<i>:<v>  np:<list>  ns:<list>  fb  sim:<m>:<i>  res:<nanmean>:<m>:<i>
        reply: the replies of the calls, `;`-separated, then `;end <params> <series>` (the contents `exec` ends with)
  simr / resr <params> <mean> <ini> <series>               Rat with every operation ROUNDED to a 53-bit significand
        (`Fl rnd53`, the arithmetic of the rounding theorems); reply `ok <f> [..]`, f = 1 when the run with
        IEEE subnormals (`Fl rndD`) gives the same values (nothing entered the subnormal range)
  boundr <params> <mean> <ini> <innov>                     evaluates the conclusions of kernel_residual_sim_rounded and
        kernel_recursion_rounded on the `Fl rnd53` run (S = largest magnitude in sight): `ok true true`
  linq <params> <mean> <ini> <series> <c> <d>              Rat: evaluates the statements of sim_homogeneous, residual_homogeneous,
        sim_shift_invariant, residual_shift_invariant, kernel_sim_additive (`scaleOpt`, `shiftOpt`, `addInnov`): `ok true true`
  `<params>` of pysim / pyres is a list token or `s<float>` for a python scalar (`paramsOf`, np.atleast_1d)
  specq <params> <mean> <ini> <innov>                      Rat: evaluates the statements of sim_recursion (`past`,
        `zeroNaN`) and kernel_buffer_holds_centred_past (`simBuf`, `glag`) on the model's run: `ok true true`

Float tokens are 16 hex digits or `nan`; replies are `ok [..]` or `err <kind>`.
-/

instance : NatCast Float := ⟨Nat.toFloat⟩

def errName : Err → String
  | .badOrder => "badOrder" | .nanParam => "nanParam" | .nanMean => "nanMean" | .nanIni => "nanIni"

def optF (x : Float) : Option Float := if x.isNaN then none else some x

def fmtF : Except Err (List Float) → String
  | .ok l => "ok " ++ fmtFloatList l
  | .error e => "err " ++ errName e

def fmtQ : Except Err (List Rat) → String
  | .ok l => "ok " ++ fmtRatList l
  | .error e => "err " ++ errName e

/-- `none` (python default) | float token -/
def argTok? (s : String) : Option (Option (Option Float)) :=
  if s = "none" then some none else (floatTok? s).map fun x => some (optF x)

def ratOptTok? (s : String) : Option (Option Rat) :=
  if s = "nan" then some none else (ratTok? s).map some

def parseRatOptList? (s : String) : Option (List (Option Rat)) := HydroVerif.allSome ((listToks s).map ratOptTok?)

/-! ### histories -/

def opTok? (s : String) : Option (Op Float) :=
  match s.splitOn ":" with
  | ["fb"] => some .feedBack
  | ["sp", k, v] => match k.toNat?, floatTok? v with
    | some k, some v => some (.setParam k (optF v))
    | _, _ => none
  | ["ss", i, v] => match i.toNat?, floatTok? v with
    | some i, some v => some (.setSeries i (optF v))
    | _, _ => none
  | ["sl", i, v] => match i.toNat?, floatTok? v with
    | some i, some v => some (.setLast i (optF v))
    | _, _ => none
  | ["np", l] => (parseFloatList? l).map fun l => .newParams (l.map optF)
  | ["ns", l] => (parseFloatList? l).map fun l => .newSeries (l.map optF)
  | ["sim", m, i] => match argTok? m, argTok? i with
    | some m, some i => some (.callSim m i)
    | _, _ => none
  | ["res", nm, m, i] => match floatTok? nm, argTok? m, argTok? i with
    | some nm, some m, some i => some (.callRes (optF nm) m i)
    | _, _, _ => none
  | _ => none

def fmtOptList (l : List (Option Float)) : String := fmtList (l.map fmtOptFloat)

/-- replies of the calls (`run`), then the contents of the coefficient array and of the series the history
ends with (`exec`) -/
def histReply (ps xs : List Float) (ops : List (Op Float)) : String :=
  let s0 : St Float := { params := ps.map optF, series := xs.map optF, last := none }
  let rs := (run Float.isNaN s0 ops).filterMap id
  let fin := exec Float.isNaN s0 ops
  ";".intercalate (rs.map fmtF) ++ ";end " ++ fmtOptList fin.params ++ " " ++ fmtOptList fin.series

/-- the `params` argument: a list token, or `s<float>` for a python scalar -/
def paramArg? (s : String) : Option (List (Option Float)) :=
  if s.startsWith "s" then (floatTok? (s.drop 1).toString).map fun x => paramsOf (.scalar (optF x))
  else (parseFloatList? s).map fun l => paramsOf (.array (l.map optF))

/-- the statements of `sim_homogeneous`, `residual_homogeneous`, `sim_shift_invariant`,
`residual_shift_invariant` and `kernel_sim_additive` (second run: the same innovations reversed), at Rat -/
def linCheck (ps : List (Option Rat)) (m i : Rat) (es : List (Option Rat)) (c d : Rat) : Bool :=
  let nan : Rat → Bool := fun _ => false
  let eqE (a b : Except Err (List Rat)) : Bool := match a, b with
    | .ok x, .ok y => x == y
    | .error e, .error f => e == f
    | _, _ => false
  let h1 := eqE (sim nan ps (scaleOpt c (some m)) (scaleOpt c (some i)) (es.map (scaleOpt c)))
    ((sim nan ps (some m) (some i) es).map (List.map (c * ·)))
  let h2 := eqE (residual nan ps (scaleOpt c (some m)) (scaleOpt c (some i)) (es.map (scaleOpt c)))
    ((residual nan ps (some m) (some i) es).map (List.map (c * ·)))
  let h3 := eqE (sim nan ps (some (m + d)) (some (i + d)) es) ((sim nan ps (some m) (some i) es).map (List.map (· + d)))
  let h4 := eqE (residual nan ps (some (m + d)) (some (i + d)) (es.map (shiftOpt d))) (residual nan ps (some m) (some i) es)
  let h5 := match HydroVerif.C17.allSome ps with
    | none => true
    | some pl =>
      let psv := toVec pl
      let b1 : Vector Rat pl.length := Vector.replicate pl.length (i - m)
      let b2 : Vector Rat pl.length := Vector.replicate pl.length d
      simRun nan psv (m + c) (Vector.zipWith (· + ·) b1 b2) (addInnov es es.reverse) ==
        List.zipWith (· + ·) (simRun nan psv m b1 es) (simRun nan psv c b2 es.reverse)
  h1 && h2 && h3 && h4 && h5

/-! ### the rounding arithmetic -/

def flOpt {rnd : Rat → Rat} (x : Option Rat) : Option (Fl rnd) := x.map fun v => ⟨v⟩

def runRounded (rnd : Rat → Rat) (isSim : Bool) (ps : List (Option Rat)) (m i : Option Rat)
    (xs : List (Option Rat)) : Except Err (List Rat) :=
  let nan : Fl rnd → Bool := fun _ => false
  let r := if isSim then sim nan (ps.map flOpt) (flOpt m) (flOpt i) (xs.map flOpt)
           else residual nan (ps.map flOpt) (flOpt m) (flOpt i) (xs.map flOpt)
  r.map fun l => l.map Fl.val

def rabs (x : Rat) : Rat := if x < 0 then -x else x
def rmax (xs : List Rat) : Rat := xs.foldl (fun a x => if a < rabs x then rabs x else a) 0

/-- the conclusions of the two rounding theorems, evaluated on the `Fl rnd53` run of the kernels
(`u = 2^-53`, `S` = the largest magnitude among mean, innovations and every lag buffer entry of every prefix) -/
def boundCheck (ps : List Rat) (m i : Rat) (es : List (Option Rat)) : Bool × Bool :=
  let nan : Fl rnd53 → Bool := fun _ => false
  let psv : Vector (Fl rnd53) ps.length := toVec (ps.map fun v => (⟨v⟩ : Fl rnd53))|>.cast (by simp)
  let mF : Fl rnd53 := ⟨m⟩
  let iF : Fl rnd53 := ⟨i⟩
  let buf0 : Vector (Fl rnd53) ps.length := Vector.replicate ps.length (iF - mF)
  let esF : List (Option (Fl rnd53)) := es.map flOpt
  let ys := simRun nan psv mF buf0 esF
  let rs := resRun nan psv mF buf0 (ys.map some)
  let e0 : List Rat := es.map fun e => match e with | none => 0 | some v => v
  let bufs : List Rat := (List.range (es.length + 1)).flatMap fun n =>
    (simBuf nan psv buf0 (esF.take n)).toList.map Fl.val
  let S := rmax (m :: (e0 ++ bufs))
  let u : Rat := pow2 (-53)
  let Φ : Rat := (ps.map rabs).foldl (· + ·) 0
  let p := ps.length
  let b1 := 2 * (1 + Φ) * ((1 + u) ^ (2 * p + 2) - 1) * S
  let ok1 := (rs.zip e0).all fun (r, e) => rabs (r.val - e) ≤ b1
  -- recursion defects of the outputs, exact lags before the start = the starting buffer
  let b2 := (1 + Φ) * ((1 + u) ^ (2 * p) - 1 + 2 * u) * S
  let rec go (w : List Rat) (es : List Rat) (ys : List Rat) : Bool :=
    match es, ys with
    | e :: es, y :: ys =>
      let d := (y - m) - (((ps.zip w).map fun (a, b) => a * b).foldl (· + ·) 0 + e)
      rabs d ≤ b2 && go ((y - m) :: w.dropLast) es ys
    | _, _ => true
  (ok1, go (buf0.toList.map Fl.val) e0 (ys.map Fl.val))

/-- the statements of `sim_recursion` and `kernel_buffer_holds_centred_past`, evaluated at Rat -/
def specCheck (ps : List Rat) (m i : Rat) (es : List (Option Rat)) : Bool × Bool :=
  let nan : Rat → Bool := fun _ => false
  match sim nan (ps.map some) (some m) (some i) es with
  | .error _ => (false, false)
  | .ok ys =>
    let ok1 := (List.range ys.length).all fun t =>
      ys.getD t 0 - m ==
        ((List.range ps.length).map fun k => ps.getD k 0 * (past ys i t k - m)).foldl (· + ·) 0
          + zeroNaN (es.getD t none)
    let psv := toVec ps
    let buf0 : Vector Rat ps.length := Vector.replicate ps.length (i - m)
    let run := simRun nan psv m buf0 es
    let fin := simBuf nan psv buf0 es
    let ok2 := (List.range ps.length).all fun k =>
      if h : k < ps.length then fin[k] == glag run buf0 m es.length k h else true
    (ok1, ok2)

def handle (toks : List String) : String :=
  match toks with
  | "hist" :: ps :: xs :: ops =>
    match parseFloatList? ps, parseFloatList? xs, HydroVerif.allSome (ops.map opTok?) with
    | some ps, some xs, some ops => histReply ps xs ops
    | _, _, _ => "bad-op"
  | ["pyres", ps, xs, nm, m, i] =>
    match paramArg? ps, parseFloatList? xs, floatTok? nm, argTok? m, argTok? i with
    | some ps, some xs, some nm, some meanArg, some iniArg =>
      fmtF (pyResidual Float.isNaN ps (xs.map optF) (optF nm) meanArg iniArg)
    | _, _, _, _, _ => "bad-op"
  | ["linq", ps, m, i, xs, c, d] =>
    match parseRatOptList? ps, ratTok? m, ratTok? i, parseRatOptList? xs, ratTok? c, ratTok? d with
    | some ps, some m, some i, some xs, some c, some d => s!"ok {linCheck ps m i xs c d} true"
    | _, _, _, _, _, _ => "bad-op"
  | [op, ps, m, i, xs, n] =>
    if op = "simcut" || op = "rescut" then
      match parseFloatList? ps, floatTok? m, floatTok? i, parseFloatList? xs, n.toNat? with
      | some ps, some m, some i, some xs, some n =>
        match validate (ps.map optF) (optF m) (optF i) with
        | .error e => "err " ++ errName e
        | .ok (ps, m, i) =>
          let xs := xs.map optF
          let psv := toVec ps
          let buf0 : Vector Float ps.length := Vector.replicate ps.length (i - m)
          if op = "simcut" then
            fmtF (.ok (simRun Float.isNaN psv m buf0 (xs.take n) ++
              simRun Float.isNaN psv m (simBuf Float.isNaN psv buf0 (xs.take n)) (xs.drop n)))
          else
            fmtF (.ok (resRun Float.isNaN psv m buf0 (xs.take n) ++
              resRun Float.isNaN psv m (resBuf Float.isNaN psv m buf0 (xs.take n)) (xs.drop n)))
      | _, _, _, _, _ => "bad-op"
    else "bad-op"
  | ["pyresd", ps, xs, m, i] =>
    -- armodel_residual with the data mean computed in the model (sequential sum)
    match parseFloatList? ps, parseFloatList? xs, argTok? m, argTok? i with
    | some ps, some xs, some meanArg, some iniArg =>
      fmtF (pyResidualD Float.isNaN (ps.map optF) (xs.map optF) meanArg iniArg)
    | _, _, _, _ => "bad-op"
  | ["pyresdq", ps, xs, m, i] =>
    -- exact instance; meanArg / iniArg: `none` | `nan` | p/q
    let arg (s : String) : Option (Option (Option Rat)) :=
      if s = "none" then some none else (ratOptTok? s).map some
    match parseRatOptList? ps, parseRatOptList? xs, arg m, arg i with
    | some ps, some xs, some meanArg, some iniArg =>
      fmtQ (pyResidualD (fun _ => false) ps xs meanArg iniArg)
    | _, _, _, _ => "bad-op"
  | [op, ps, m, i, xs] =>
    if op = "sim" || op = "res" then
      match parseFloatList? ps, floatTok? m, floatTok? i, parseFloatList? xs with
      | some ps, some m, some i, some xs =>
        let ps := ps.map optF
        let xs := xs.map optF
        if op = "sim" then fmtF (sim Float.isNaN ps (optF m) (optF i) xs)
        else fmtF (residual Float.isNaN ps (optF m) (optF i) xs)
      | _, _, _, _ => "bad-op"
    else if op = "simq" || op = "resq" then
      match parseRatOptList? ps, ratOptTok? m, ratOptTok? i, parseRatOptList? xs with
      | some ps, some m, some i, some xs =>
        if op = "simq" then fmtQ (sim (fun _ => false) ps m i xs)
        else fmtQ (residual (fun _ => false) ps m i xs)
      | _, _, _, _ => "bad-op"
    else if op = "simr" || op = "resr" then
      match parseRatOptList? ps, ratOptTok? m, ratOptTok? i, parseRatOptList? xs with
      | some ps, some m, some i, some xs =>
        match runRounded rnd53 (op = "simr") ps m i xs, runRounded rndD (op = "simr") ps m i xs with
        | .ok a, .ok b => "ok " ++ (if a == b then "1 " else "0 ") ++ fmtRatList a
        | .error e, _ => "err " ++ errName e
        | _, .error e => "err " ++ errName e
      | _, _, _, _ => "bad-op"
    else if op = "boundr" || op = "specq" then
      match parseRatList? ps, ratTok? m, ratTok? i, parseRatOptList? xs with
      | some ps, some m, some i, some xs =>
        let r := if op = "boundr" then boundCheck ps m i xs else specCheck ps m i xs
        s!"ok {r.1} {r.2}"
      | _, _, _, _ => "bad-op"
    else if op = "pysim" then
      -- pysim <params> <innov> <meanArg> <iniArg>
      match paramArg? ps, parseFloatList? m, argTok? i, argTok? xs with
      | some ps, some innov, some meanArg, some iniArg =>
        fmtF (pySim Float.isNaN ps (innov.map optF) meanArg iniArg)
      | _, _, _, _ => "bad-op"
    else "bad-op"
  | ["nanmean", xs] =>
    match parseFloatList? xs with
    | some xs => fmtOptFloat (dataMean Float.isNaN (xs.map optF))
    | none => "bad-op"
  | ["nanmeanq", xs] =>
    match parseRatOptList? xs with
    | some xs => match dataMean (fun _ => false) xs with
      | some v => fmtRat v
      | none => "nan"
    | none => "bad-op"
  | _ => "bad-op"

def main : IO Unit := serve handle
