import HydroVerif.Proto
import HydroVerif.Model.C17
open HydroVerif HydroVerif.C17

/-
Line protocol of the C17 model driver.

  sim   <params> <mean> <ini> <innov>                      kernel model at Float
  res   <params> <mean> <ini> <inputs>
  pysim <params> <innov> <meanArg> <iniArg>                wrapper model at Float; `none` = argument left at its default
  pyres <params> <inputs> <nanmean> <meanArg> <iniArg>     `nanmean` = numpy.nanmean(inputs) (external)
  simq / resq  <params> <mean> <ini> <series>              kernel model at Rat (exact), tokens `p/q`, `nan`
  pyresd  <params> <inputs> <meanArg> <iniArg>             wrapper model with the data mean computed in the model
  pyresdq <params> <inputs> <meanArg> <iniArg>             the same at Rat
  nanmean <xs> / nanmeanq <xs>                             the model's data mean (`nan` when no value is present)

Float tokens are 16 hex digits or `nan`; replies are `ok [..]` or `err <kind>`.
-/

instance : NatCast Float := ⟨Nat.toFloat⟩

def errName : Err → String
  | .badOrder => "badOrder" | .nanParam => "nanParam" | .nanMean => "nanMean" | .nanIni => "nanIni"

def optF (x : Float) : Option Float := if x.isNaN then none else some x

def fmtF : Except Err (List Float) → String
  | .ok l => "ok " ++ fmtFloatList l
  | .error e => "err " ++ errName e

def fmtQ : Except Err (List Rat) → String
  | .ok l => "ok " ++ fmtRatList l
  | .error e => "err " ++ errName e

/-- `none` (python default) | float token -/
def argTok? (s : String) : Option (Option (Option Float)) :=
  if s = "none" then some none else (floatTok? s).map fun x => some (optF x)

def ratOptTok? (s : String) : Option (Option Rat) :=
  if s = "nan" then some none else (ratTok? s).map some

def parseRatOptList? (s : String) : Option (List (Option Rat)) := HydroVerif.allSome ((listToks s).map ratOptTok?)

def handle (toks : List String) : String :=
  match toks with
  | ["pyresd", ps, xs, m, i] =>
    -- armodel_residual with the data mean computed in the model (sequential sum)
    match parseFloatList? ps, parseFloatList? xs, argTok? m, argTok? i with
    | some ps, some xs, some meanArg, some iniArg =>
      fmtF (pyResidualD Float.isNaN (ps.map optF) (xs.map optF) meanArg iniArg)
    | _, _, _, _ => "bad-op"
  | ["pyresdq", ps, xs, m, i] =>
    -- exact instance; meanArg / iniArg: `none` | `nan` | p/q
    let arg (s : String) : Option (Option (Option Rat)) :=
      if s = "none" then some none else (ratOptTok? s).map some
    match parseRatOptList? ps, parseRatOptList? xs, arg m, arg i with
    | some ps, some xs, some meanArg, some iniArg =>
      fmtQ (pyResidualD (fun _ => false) ps xs meanArg iniArg)
    | _, _, _, _ => "bad-op"
  | [op, ps, m, i, xs] =>
    if op = "sim" || op = "res" then
      match parseFloatList? ps, floatTok? m, floatTok? i, parseFloatList? xs with
      | some ps, some m, some i, some xs =>
        let ps := ps.map optF
        let xs := xs.map optF
        if op = "sim" then fmtF (sim Float.isNaN ps (optF m) (optF i) xs)
        else fmtF (residual Float.isNaN ps (optF m) (optF i) xs)
      | _, _, _, _ => "bad-op"
    else if op = "simq" || op = "resq" then
      match parseRatOptList? ps, ratOptTok? m, ratOptTok? i, parseRatOptList? xs with
      | some ps, some m, some i, some xs =>
        if op = "simq" then fmtQ (sim (fun _ => false) ps m i xs)
        else fmtQ (residual (fun _ => false) ps m i xs)
      | _, _, _, _ => "bad-op"
    else if op = "pysim" then
      -- pysim <params> <innov> <meanArg> <iniArg>
      match parseFloatList? ps, parseFloatList? m, argTok? i, argTok? xs with
      | some ps, some innov, some meanArg, some iniArg =>
        fmtF (pySim Float.isNaN (ps.map optF) (innov.map optF) meanArg iniArg)
      | _, _, _, _ => "bad-op"
    else "bad-op"
  | ["pyres", ps, xs, nm, m, i] =>
    match parseFloatList? ps, parseFloatList? xs, floatTok? nm, argTok? m, argTok? i with
    | some ps, some xs, some nm, some meanArg, some iniArg =>
      fmtF (pyResidual Float.isNaN (ps.map optF) (xs.map optF) (optF nm) meanArg iniArg)
    | _, _, _, _, _ => "bad-op"
  | ["nanmean", xs] =>
    match parseFloatList? xs with
    | some xs => fmtOptFloat (dataMean Float.isNaN (xs.map optF))
    | none => "bad-op"
  | ["nanmeanq", xs] =>
    match parseRatOptList? xs with
    | some xs => match dataMean (fun _ => false) xs with
      | some v => fmtRat v
      | none => "nan"
    | none => "bad-op"
  | _ => "bad-op"

def main : IO Unit := serve handle
