import HydroVerif.Proto
import HydroVerif.Model.C16
open HydroVerif HydroVerif.C07 HydroVerif.C16

/-
requests (floats as 16 hex digits or `nan`, rationals as p/q; G = `nrows ncols xll yll csz`):
  kern  G csz_area [x,y;...]     -> [cells] [weights]          c_intersect on raw points (`nan,nan` = NaN row)
  isect G Gfine [cells]          -> ok [cells] [weights] rs re cs ce axll ayll anrows ancols [data] | err:noOverlap
  vor   G [cells] [x,y;...]      -> ok [weights] | err:noPoints  dist = sqrt(dx*dx+dy*dy)
  kernQ / isectQ / vorQ          the same at exact rationals (vorQ: dist = dx*dx+dy*dy, same arg-min)
  isectc G Gfine area filled flag -> as isect | err:cellsNone   Catchment.intersect; area / filled = [cells] | none, flag 0|1
  vorpy G area scalar x | flat [xs] | rows w [r;r;...]  -> ok [weights] | err:notDelineated | err:badShape | err:noPoints | err:badGrid
-/

def optCells? (s : String) : Option (Option (List Int)) :=
  if s = "none" then some none else (parseIntList? s).map some

def fmtOptW (w : List (Option Float)) : String := "ok " ++ fmtList (w.map fmtOptFloat)

def geomF? (nr nc xll yll csz : String) : Option (Geom Float) :=
  match nr.toInt?, nc.toInt?, floatTok? xll, floatTok? yll, floatTok? csz with
  | some nr, some nc, some xll, some yll, some csz => some ⟨nr, nc, xll, yll, csz⟩
  | _, _, _, _, _ => none

def geomQ? (nr nc xll yll csz : String) : Option (Geom Rat) :=
  match nr.toInt?, nc.toInt?, ratTok? xll, ratTok? yll, ratTok? csz with
  | some nr, some nc, some xll, some yll, some csz => some ⟨nr, nc, xll, yll, csz⟩
  | _, _, _, _, _ => none

def pairs? {β} (f : String → Option β) (s : String) : Option (List (β × β)) :=
  HydroVerif.allSome ((matToks s).map fun r =>
    match r with
    | [a, b] => match f a, f b with
      | some a, some b => some (a, b)
      | _, _ => none
    | _ => none)

/-- a NaN coordinate makes the row a `none` (the only NaN rows the code produces are `(NaN, NaN)`) -/
def optPt (p : Float × Float) : Option (Float × Float) :=
  if p.1.isNaN || p.2.isNaN then none else some p

def fmtMatS (rows : List (List String)) : String :=
  "[" ++ ";".intercalate (rows.map fun r => ",".intercalate r) ++ "]"

def fmtArea {β} (fmt : β → String) (a : AreaGrid β) : String :=
  s!"ok {fmtIntList a.keys} {fmtList (a.weights.map fmt)} {a.rowStart} {a.rowEnd} {a.colStart} {a.colEnd} " ++
  s!"{fmt a.xll} {fmt a.yll} {a.nrows} {a.ncols} {fmtMatS (a.data.map fun r => r.map fmt)}"

def errName : C16.Err → String
  | .noOverlap => "err:noOverlap"
  | .noPoints => "err:noPoints"
  | .badGrid => "err:badGrid"
  | .notDelineated => "err:notDelineated"
  | .cellsNone => "err:cellsNone"
  | .badShape => "err:badShape"

def distF (dx dy : Float) : Float := Float.sqrt (dx * dx + dy * dy)
def distQ (dx dy : Rat) : Rat := dx * dx + dy * dy

def handle (toks : List String) : String :=
  match toks with
  | ["kern", nr, nc, xll, yll, csz, ca, pts] =>
    match geomF? nr nc xll yll csz, floatTok? ca, pairs? floatTok? pts with
    | some g, some ca, some ps =>
      let r := cIntersect g ca (ps.map optPt)
      fmtIntList (r.map (·.1)) ++ " " ++ fmtFloatList (r.map (·.2))
    | _, _, _ => "bad-op"
  | ["kernQ", nr, nc, xll, yll, csz, ca, pts] =>
    match geomQ? nr nc xll yll csz, ratTok? ca, pairs? ratTok? pts with
    | some g, some ca, some ps =>
      if g.csz = 0 then "err:csz0" else
      let r := cIntersect g ca (ps.map some)
      fmtIntList (r.map (·.1)) ++ " " ++ fmtRatList (r.map (·.2))
    | _, _, _ => "bad-op"
  | ["isect", nr, nc, xll, yll, csz, fnr, fnc, fxll, fyll, fcsz, cells] =>
    match geomF? nr nc xll yll csz, geomF? fnr fnc fxll fyll fcsz, parseIntList? cells with
    | some g, some f, some cs =>
      match intersect g f cs with
      | .ok a => fmtArea hexOfFloat a
      | .error e => errName e
    | _, _, _ => "bad-op"
  | ["isectQ", nr, nc, xll, yll, csz, fnr, fnc, fxll, fyll, fcsz, cells] =>
    match geomQ? nr nc xll yll csz, geomQ? fnr fnc fxll fyll fcsz, parseIntList? cells with
    | some g, some f, some cs =>
      if g.csz = 0 then "err:csz0" else
      match intersect g f cs with
      | .ok a => fmtArea fmtRat a
      | .error e => errName e
    | _, _, _ => "bad-op"
  | ["vor", nr, nc, xll, yll, csz, cells, pts] =>
    match geomF? nr nc xll yll csz, parseIntList? cells, pairs? floatTok? pts with
    | some g, some cs, some ps =>
      match cVoronoi distF g cs ps with
      | .ok w => "ok " ++ fmtList (w.map fmtOptFloat)
      | .error e => errName e
    | _, _, _ => "bad-op"
  | ["vorQ", nr, nc, xll, yll, csz, cells, pts] =>
    match geomQ? nr nc xll yll csz, parseIntList? cells, pairs? ratTok? pts with
    | some g, some cs, some ps =>
      match cVoronoi distQ g cs ps with
      | .ok w => "ok " ++ fmtList (w.map fun o => match o with | some r => fmtRat r | none => "nan")
      | .error e => errName e
    | _, _, _ => "bad-op"
  | ["isectc", nr, nc, xll, yll, csz, fnr, fnc, fxll, fyll, fcsz, area, filled, flag] =>
    match geomF? nr nc xll yll csz, geomF? fnr fnc fxll fyll fcsz, optCells? area, optCells? filled with
    | some g, some f, some a, some fl =>
      match Catchment.intersect ⟨f, a, fl⟩ g (flag = "1") with
      | .ok a => fmtArea hexOfFloat a
      | .error e => errName e
    | _, _, _, _ => "bad-op"
  | ["vorpy", nr, nc, xll, yll, csz, area, kind, a1] =>
    match geomF? nr nc xll yll csz, optCells? area with
    | some g, some a =>
      let arg? : Option (PtsArg Float) :=
        if kind = "scalar" then (floatTok? a1).map PtsArg.scalar
        else if kind = "flat" then (parseFloatList? a1).map PtsArg.flat
        else none
      match arg? with
      | some arg => match voronoiPy distF g a arg with
        | .ok w => fmtOptW w
        | .error e => errName e
      | none => "bad-op"
    | _, _ => "bad-op"
  | ["vorpy", nr, nc, xll, yll, csz, area, "rows", w, rs] =>
    match geomF? nr nc xll yll csz, optCells? area, w.toNat?, parseFloatMat? rs with
    | some g, some a, some w, some rs =>
      if rs.any (fun r => r.length ≠ w) then "bad-op" else
      match voronoiPy distF g a (PtsArg.rows w rs) with
      | .ok w => fmtOptW w
      | .error e => errName e
    | _, _, _, _ => "bad-op"
  | _ => "bad-op"

def main : IO Unit := serve handle
