import HydroVerif.Proto
import HydroVerif.Model.C16
import HydroVerif.Model.C16Hist
open HydroVerif HydroVerif.C07 HydroVerif.C16

/-
requests (floats as 16 hex digits or `nan`, rationals as p/q; G = `nrows ncols xll yll csz`):
  kern  G csz_area [x,y;...]     -> [cells] [weights]          c_intersect on raw points (`nan,nan` = NaN row)
  isect G Gfine [cells]          -> ok [cells] [weights] rs re cs ce axll ayll anrows ancols [data] acsz pnrows pncols pcsz pxll pyll
                                    | err:noOverlap | err:badBuffer
  vor   G [cells] [x,y;...]      -> ok [weights] | err:noPoints  dist = sqrt(dx*dx+dy*dy)
  kernQ / isectQ / vorQ          the same at exact rationals (vorQ: dist = dx*dx+dy*dy, same arg-min)
  isectc G Gfine area filled flag -> as isect | err:cellsNone   Catchment.intersect; area / filled = [cells] | none, flag 0|1|d
                                    (d = the argument `filled` left at its default)
  vorpy G area scalar x | flat [xs] | rows w [r;r;...]  -> ok [weights] | err:notDelineated | err:badShape | err:noPoints | err:badGrid
  repadd af [n1,n2,...]          -> [repAdd af (n1-1), ...]     the accumulate loop's value for a cell met n times (Float)
  specQ G Gfine [cells]          -> [cells] [specWeight] specInside specArea sum(w*csz^2)   the property's executable statement
                                    next to the model's listing (Rat)
  hist nc ng (Gfine area filled)*nc (G)*ng [pts] op*   -> reply | reply | ...   a history on live objects (`hrun`), ops:
       sg j G | sf i G | sc i area filled | cc i | cg j | add i k | sub i k | sp [pts] | er | is i j flag | vo i
       replies: done | rej:<why> | <as isect> | <as vor>, then `final nc ng cats grids [pts]` = the objects at the end
-/

def optCells? (s : String) : Option (Option (List Int)) :=
  if s = "none" then some none else (parseIntList? s).map some

def fmtOptW (w : List (Option Float)) : String := "ok " ++ fmtList (w.map fmtOptFloat)

def geomF? (nr nc xll yll csz : String) : Option (Geom Float) :=
  match nr.toInt?, nc.toInt?, floatTok? xll, floatTok? yll, floatTok? csz with
  | some nr, some nc, some xll, some yll, some csz => some ⟨nr, nc, xll, yll, csz⟩
  | _, _, _, _, _ => none

def geomQ? (nr nc xll yll csz : String) : Option (Geom Rat) :=
  match nr.toInt?, nc.toInt?, ratTok? xll, ratTok? yll, ratTok? csz with
  | some nr, some nc, some xll, some yll, some csz => some ⟨nr, nc, xll, yll, csz⟩
  | _, _, _, _, _ => none

def pairs? {β} (f : String → Option β) (s : String) : Option (List (β × β)) :=
  HydroVerif.allSome ((matToks s).map fun r =>
    match r with
    | [a, b] => match f a, f b with
      | some a, some b => some (a, b)
      | _, _ => none
    | _ => none)

/-- a NaN coordinate makes the row a `none` (the only NaN rows the code produces are `(NaN, NaN)`) -/
def optPt (p : Float × Float) : Option (Float × Float) :=
  if p.1.isNaN || p.2.isNaN then none else some p

def fmtMatS (rows : List (List String)) : String :=
  "[" ++ ";".intercalate (rows.map fun r => ",".intercalate r) ++ "]"

def fmtArea {β} (fmt : β → String) (a : AreaGrid β) : String :=
  s!"ok {fmtIntList a.keys} {fmtList (a.weights.map fmt)} {a.rowStart} {a.rowEnd} {a.colStart} {a.colEnd} " ++
  s!"{fmt a.xll} {fmt a.yll} {a.nrows} {a.ncols} {fmtMatS (a.data.map fun r => r.map fmt)} " ++
  s!"{fmt a.csz} {a.parent.nrows} {a.parent.ncols} {fmt a.parent.csz} {fmt a.parent.xll} {fmt a.parent.yll}"

def errName : C16.Err → String
  | .noOverlap => "err:noOverlap"
  | .noPoints => "err:noPoints"
  | .badGrid => "err:badGrid"
  | .notDelineated => "err:notDelineated"
  | .cellsNone => "err:cellsNone"
  | .badShape => "err:badShape"
  | .badBuffer => "err:badBuffer"
  | .bufferOverflow => "err:bufferOverflow"
  | .badData => "err:badData"

def distF (dx dy : Float) : Float := Float.sqrt (dx * dx + dy * dy)
def distQ (dx dy : Rat) : Rat := dx * dx + dy * dy

/-! ### histories -/

def parseCats : Nat → List String → Option (List (Catchment Float) × List String)
  | 0, toks => some ([], toks)
  | n + 1, nr :: nc :: xll :: yll :: csz :: area :: filled :: rest =>
    match geomF? nr nc xll yll csz, optCells? area, optCells? filled, parseCats n rest with
    | some g, some a, some f, some (cs, rest') => some (⟨g, a, f⟩ :: cs, rest')
    | _, _, _, _ => none
  | _, _ => none

def parseGrids : Nat → List String → Option (List (Geom Float) × List String)
  | 0, toks => some ([], toks)
  | n + 1, nr :: nc :: xll :: yll :: csz :: rest =>
    match geomF? nr nc xll yll csz, parseGrids n rest with
    | some g, some (gs, rest') => some (g :: gs, rest')
    | _, _ => none
  | _, _ => none

def parseOps : List String → Option (List (Op Float))
  | [] => some []
  | "sg" :: j :: nr :: nc :: xll :: yll :: csz :: rest =>
    match j.toNat?, geomF? nr nc xll yll csz, parseOps rest with
    | some j, some g, some ops => some (.setGrid j g :: ops)
    | _, _, _ => none
  | "sf" :: i :: nr :: nc :: xll :: yll :: csz :: rest =>
    match i.toNat?, geomF? nr nc xll yll csz, parseOps rest with
    | some i, some g, some ops => some (.setFlowdir i g :: ops)
    | _, _, _ => none
  | "sc" :: i :: area :: filled :: rest =>
    match i.toNat?, optCells? area, optCells? filled, parseOps rest with
    | some i, some a, some f, some ops => some (.setCells i a f :: ops)
    | _, _, _, _ => none
  | "cc" :: i :: rest =>
    match i.toNat?, parseOps rest with
    | some i, some ops => some (.cloneCat i :: ops)
    | _, _ => none
  | "cg" :: j :: rest =>
    match j.toNat?, parseOps rest with
    | some j, some ops => some (.cloneGrid j :: ops)
    | _, _ => none
  | "add" :: i :: k :: rest =>
    match i.toNat?, k.toNat?, parseOps rest with
    | some i, some k, some ops => some (.addCat i k :: ops)
    | _, _, _ => none
  | "sub" :: i :: k :: rest =>
    match i.toNat?, k.toNat?, parseOps rest with
    | some i, some k, some ops => some (.subCat i k :: ops)
    | _, _, _ => none
  | "sp" :: pts :: rest =>
    match pairs? floatTok? pts, parseOps rest with
    | some ps, some ops => some (.setPts ps :: ops)
    | _, _ => none
  | "er" :: rest => (parseOps rest).map (Op.editReturned :: ·)
  | "is" :: i :: j :: flag :: rest =>
    match i.toNat?, j.toNat?, parseOps rest with
    | some i, some j, some ops => some (.intersect i j (flag = "1") :: ops)
    | _, _, _ => none
  | "vo" :: i :: rest =>
    match i.toNat?, parseOps rest with
    | some i, some ops => some (.voronoi i :: ops)
    | _, _ => none
  | _ => none

def fmtReply : Reply Float → String
  | .done => "done"
  | .rejected .noSuchObject => "rej:noSuchObject"
  | .rejected .notDelineated => "rej:notDelineated"
  | .isect (.ok a) => fmtArea hexOfFloat a
  | .isect (.error e) => errName e
  | .vor (.ok w) => fmtOptW w
  | .vor (.error e) => errName e

def fmtOptCells : Option (List Int) → String
  | none => "none"
  | some l => fmtIntList l

def fmtGeomF (g : Geom Float) : String :=
  s!"{g.nrows} {g.ncols} {hexOfFloat g.xll} {hexOfFloat g.yll} {hexOfFloat g.csz}"

def fmtWorld (w : World Float) : String :=
  s!"{w.cats.length} {w.grids.length} " ++
  " ".intercalate ((w.cats.map fun c => s!"{fmtGeomF c.fine} {fmtOptCells c.area} {fmtOptCells c.filled}") ++
    w.grids.map fmtGeomF ++ [fmtMatS (w.pts.map fun p => [hexOfFloat p.1, hexOfFloat p.2])])

def handleHist (toks : List String) : String :=
  match toks with
  | nc :: ng :: rest =>
    match nc.toNat?, ng.toNat? with
    | some nc, some ng =>
      match parseCats nc rest with
      | some (cats, rest1) =>
        match parseGrids ng rest1 with
        | some (grids, pts :: rest2) =>
          match pairs? floatTok? pts, parseOps rest2 with
          | some ps, some ops =>
            -- the objects at the end, computed from the mutators alone (`hfinal_eq_filter`)
            let wf := hfinal distF ⟨cats, grids, ps⟩ (ops.filter Op.isMutator)
            " | ".intercalate ((hrun distF ⟨cats, grids, ps⟩ ops).map fmtReply ++ ["final " ++ fmtWorld wf])
          | _, _ => "bad-op"
        | _ => "bad-op"
      | none => "bad-op"
    | _, _ => "bad-op"
  | _ => "bad-op"

def handle (toks : List String) : String :=
  match toks with
  | "hist" :: rest => handleHist rest
  | ["repadd", af, ns] =>
    match floatTok? af, parseNatList? ns with
    | some af, some ns => fmtFloatList (ns.map fun n => repAdd af (n - 1))
    | _, _ => "bad-op"
  | ["specQ", nr, nc, xll, yll, csz, fnr, fnc, fxll, fyll, fcsz, cells] =>
    match geomQ? nr nc xll yll csz, geomQ? fnr fnc fxll fyll fcsz, parseIntList? cells with
    | some g, some f, some cs =>
      if g.csz = 0 then "err:csz0" else
      let kws := cIntersect g f.csz (cs.map (cell2coord f))
      let ks := kws.map (·.1)
      let lhs := (kws.map fun kw => kw.2 * (g.csz * g.csz)).foldl (· + ·) 0
      s!"{fmtIntList ks} {fmtRatList (ks.map fun k => specWeight g f cs k)} {specInside g f cs} " ++
      s!"{fmtRat (specArea g f cs)} {fmtRat lhs}"
    | _, _, _ => "bad-op"
  | ["kern", nr, nc, xll, yll, csz, ca, pts] =>
    match geomF? nr nc xll yll csz, floatTok? ca, pairs? floatTok? pts with
    | some g, some ca, some ps =>
      let r := cIntersect g ca (ps.map optPt)
      fmtIntList (r.map (·.1)) ++ " " ++ fmtFloatList (r.map (·.2))
    | _, _, _ => "bad-op"
  | ["kernQ", nr, nc, xll, yll, csz, ca, pts] =>
    match geomQ? nr nc xll yll csz, ratTok? ca, pairs? ratTok? pts with
    | some g, some ca, some ps =>
      if g.csz = 0 then "err:csz0" else
      let r := cIntersect g ca (ps.map some)
      fmtIntList (r.map (·.1)) ++ " " ++ fmtRatList (r.map (·.2))
    | _, _, _ => "bad-op"
  | ["isect", nr, nc, xll, yll, csz, fnr, fnc, fxll, fyll, fcsz, cells] =>
    match geomF? nr nc xll yll csz, geomF? fnr fnc fxll fyll fcsz, parseIntList? cells with
    | some g, some f, some cs =>
      match intersect g f cs with
      | .ok a => fmtArea hexOfFloat a
      | .error e => errName e
    | _, _, _ => "bad-op"
  | ["isectQ", nr, nc, xll, yll, csz, fnr, fnc, fxll, fyll, fcsz, cells] =>
    match geomQ? nr nc xll yll csz, geomQ? fnr fnc fxll fyll fcsz, parseIntList? cells with
    | some g, some f, some cs =>
      if g.csz = 0 then "err:csz0" else
      match intersect g f cs with
      | .ok a => fmtArea fmtRat a
      | .error e => errName e
    | _, _, _ => "bad-op"
  | ["vor", nr, nc, xll, yll, csz, cells, pts] =>
    match geomF? nr nc xll yll csz, parseIntList? cells, pairs? floatTok? pts with
    | some g, some cs, some ps =>
      match cVoronoi distF g cs ps with
      | .ok w => "ok " ++ fmtList (w.map fmtOptFloat)
      | .error e => errName e
    | _, _, _ => "bad-op"
  | ["vorQ", nr, nc, xll, yll, csz, cells, pts] =>
    match geomQ? nr nc xll yll csz, parseIntList? cells, pairs? ratTok? pts with
    | some g, some cs, some ps =>
      match cVoronoi distQ g cs ps with
      | .ok w => "ok " ++ fmtList (w.map fun o => match o with | some r => fmtRat r | none => "nan")
      | .error e => errName e
    | _, _, _ => "bad-op"
  | ["isectc", nr, nc, xll, yll, csz, fnr, fnc, fxll, fyll, fcsz, area, filled, flag] =>
    match geomF? nr nc xll yll csz, geomF? fnr fnc fxll fyll fcsz, optCells? area, optCells? filled with
    | some g, some f, some a, some fl =>
      match (if flag = "d" then Catchment.intersectDefault ⟨f, a, fl⟩ g else Catchment.intersect ⟨f, a, fl⟩ g (flag = "1")) with
      | .ok a => fmtArea hexOfFloat a
      | .error e => errName e
    | _, _, _, _ => "bad-op"
  | ["vorpy", nr, nc, xll, yll, csz, area, kind, a1] =>
    match geomF? nr nc xll yll csz, optCells? area with
    | some g, some a =>
      let arg? : Option (PtsArg Float) :=
        if kind = "scalar" then (floatTok? a1).map PtsArg.scalar
        else if kind = "flat" then (parseFloatList? a1).map PtsArg.flat
        else none
      match arg? with
      | some arg => match voronoiPy distF g a arg with
        | .ok w => fmtOptW w
        | .error e => errName e
      | none => "bad-op"
    | _, _ => "bad-op"
  | ["vorpy", nr, nc, xll, yll, csz, area, "rows", w, rs] =>
    match geomF? nr nc xll yll csz, optCells? area, w.toNat?, parseFloatMat? rs with
    | some g, some a, some w, some rs =>
      if rs.any (fun r => r.length ≠ w) then "bad-op" else
      match voronoiPy distF g a (PtsArg.rows w rs) with
      | .ok w => fmtOptW w
      | .error e => errName e
    | _, _, _, _ => "bad-op"
  | _ => "bad-op"

def main : IO Unit := serve handle
