import HydroVerif.Proto
import HydroVerif.Model.C11
open HydroVerif HydroVerif.C11

/-
requests (floats as 16 hex digits or `nan`; `codes` = FLOWDIRCODE.ravel() read from grid.py by the harness):
  acc     nrows ncols [codes] [flowdir] maxcells nodata [field]          -> ok:[acc] [order-sensitive cells] | err:<kind>   grid.accumulate(flowdir, field, max_accumulated_cells=maxcells)
  accunit nrows ncols [codes] [flowdir] maxcells nodata                  -> ok:[acc] | err:<kind>   grid.accumulate(flowdir, None, ...)
  cacc    nrows ncols [codes] [flowdir] maxcells nodata [field] [acc0]   -> ok:[acc] | err:<kind>   c_accumulate on given buffers (no default cap)
  accpin / caccpin : same with the pinned (pre-fix) kernel                (diagnostics)
  down    nrows ncols [codes] [flowdir] [cells]                          -> [d or E]                one entry of c_downstream per cell
  gacc    nrows ncols [codes] [flowdir] maxcells fdnodata none                      -> ok:[acc] [sens] nodata nrows ncols [field memory after] T1|T0 | err:<kind>   (T1: every walk ends before the limit — the region where the property fixes the values)
  gacc    nrows ncols [codes] [flowdir] maxcells fdnodata fnrows fncols fnodata [fdata]   (grid.accumulate on grid objects: shapes, result no-data, field memory)
  caccs   nrows ncols [codes] [flowdir] maxcells nodata [field] [acc0] alias(0|1)     -> ok:[field memory after] [accumulation memory after] [sens] T1|T0 | err:<kind>
  clo     nrows ncols [codes] [flowdir] fuel                                        -> [closure of cell 0;closure of cell 1;...] [direct upstream of 0;...]
  spec    nrows ncols [codes] [flowdir] fuel                             -> allTerminate(0/1) [endsAt per cell, -9 = none]
-/

def errName : Err → String
  | .badMaxCells => "badMaxCells"
  | .badDims => "badDims"
  | .downstream => "downstream"
  | .oob => "oob"
  | .shape => "shape"

/-- reply: the values, then the cells whose value depends on the visiting order of the outer loop
(terminal cells incremented by a capped walk; none when every walk ends) -/
def fmtRes (g : FlowGrid) (cap : Int) : Except Err (Array Float) → String
  | .ok a => "ok:" ++ fmtFloatList a.toList ++ " " ++ fmtIntList (orderSensitive g (fuelOf cap))
  | .error e => "err:" ++ errName e

def grid? (nr nc codes fd : String) : Option FlowGrid :=
  match nr.toInt?, nc.toInt?, parseIntList? codes, parseIntList? fd with
  | some nr, some nc, some codes, some fd =>
    -- the wrapper asserts a 3x3 code table; a request with another length is not a call the code accepts
    if codes.length = 9 then some ⟨nr, nc, codes, fd.toArray⟩ else none
  | _, _, _, _ => none

def fmtNatMat (rows : List (List Nat)) : String :=
  "[" ++ ";".intercalate (rows.map fun r => ",".intercalate (r.map toString)) ++ "]"

def fmtGrid (g : FlowGrid) (mc : Int) : Except Err (Store Float × FieldGrid Float) → String
  | .ok (s, r) => "ok:" ++ fmtFloatList r.data.toList ++ " " ++ fmtIntList (orderSensitive g (fuelOf (capOf g mc)))
      ++ " " ++ hexOfFloat r.nodata ++ " " ++ toString r.nrows ++ " " ++ toString r.ncols ++ " " ++ fmtFloatList s.field.toList
      ++ (if allTerminateB g (fuelOf (capOf g mc)) then " T1" else " T0")
  | .error e => "err:" ++ errName e

def handle (toks : List String) : String :=
  match toks with
  | ["gacc", nr, nc, codes, fd, mc, fdnd, "none"] =>
    match grid? nr nc codes fd, mc.toInt?, floatTok? fdnd with
    | some g, some mc, some fdnd => fmtGrid g mc (gridAccumulate g fdnd none mc)
    | _, _, _ => "bad-op"
  | ["gacc", nr, nc, codes, fd, mc, fdnd, fnr, fnc, fnd, fdata] =>
    match grid? nr nc codes fd, mc.toInt?, floatTok? fdnd, fnr.toInt?, fnc.toInt?, floatTok? fnd, parseFloatList? fdata with
    | some g, some mc, some fdnd, some fnr, some fnc, some fnd, some fdata =>
      fmtGrid g mc (gridAccumulate g fdnd (some ⟨fnr, fnc, fdata.toArray, fnd⟩) mc)
    | _, _, _, _, _, _, _ => "bad-op"
  | ["caccs", nr, nc, codes, fd, mc, nodata, field, acc0, alias] =>
    match grid? nr nc codes fd, mc.toInt?, floatTok? nodata, parseFloatList? field, parseFloatList? acc0 with
    | some g, some mc, some nodata, some field, some acc0 =>
      match cAccumulateS g mc nodata ⟨field.toArray, acc0.toArray, alias == "1"⟩ with
      | .ok s => "ok:" ++ fmtFloatList s.field.toList ++ " " ++ fmtFloatList s.accArr.toList ++ " " ++
          fmtIntList (orderSensitive g (fuelOf mc)) ++ (if allTerminateB g (fuelOf mc) then " T1" else " T0")
      | .error e => "err:" ++ errName e
    | _, _, _, _, _ => "bad-op"
  | ["clo", nr, nc, codes, fd, fuel] =>
    match grid? nr nc codes fd, fuel.toNat? with
    | some g, some fuel =>
      let cells := List.range g.ntot.toNat
      fmtNatMat (cells.map fun (c : Nat) => upClosure g fuel (c : Int)) ++ " " ++
        fmtNatMat (cells.map fun (c : Nat) => directUpList g (c : Int))
    | _, _ => "bad-op"
  | [op, nr, nc, codes, fd, mc, nodata, field] =>
    match grid? nr nc codes fd, mc.toInt?, floatTok? nodata, parseFloatList? field with
    | some g, some mc, some nodata, some field =>
      if op = "acc" then fmtRes g (capOf g mc) (accumulate g mc nodata field.toArray)
      else if op = "accpin" then fmtRes g (capOf g mc) (cAccumulatePinned g (capOf g mc) nodata field.toArray field.toArray)
      else "bad-op"
    | _, _, _, _ => "bad-op"
  | ["accunit", nr, nc, codes, fd, mc, nodata] =>
    match grid? nr nc codes fd, mc.toInt?, floatTok? nodata with
    | some g, some mc, some nodata => fmtRes g (capOf g mc) (accumulateUnit g mc nodata)
    | _, _, _ => "bad-op"
  | [op, nr, nc, codes, fd, mc, nodata, field, acc0] =>
    match grid? nr nc codes fd, mc.toInt?, floatTok? nodata, parseFloatList? field, parseFloatList? acc0 with
    | some g, some mc, some nodata, some field, some acc0 =>
      if op = "cacc" then fmtRes g mc (cAccumulate g mc nodata field.toArray acc0.toArray)
      else if op = "caccpin" then fmtRes g mc (cAccumulatePinned g mc nodata field.toArray acc0.toArray)
      else "bad-op"
    | _, _, _, _, _ => "bad-op"
  | ["down", nr, nc, codes, fd, cells] =>
    match grid? nr nc codes fd, parseIntList? cells with
    | some g, some cs =>
      fmtList (cs.map fun c => match downstream g c with
        | .ok d => toString d
        | .error e => "E" ++ errName e)
    | _, _ => "bad-op"
  | ["spec", nr, nc, codes, fd, fuel] =>
    match grid? nr nc codes fd, fuel.toNat? with
    | some g, some fuel =>
      (if allTerminateB g fuel then "1" else "0") ++ " " ++
        fmtIntList ((List.range g.ntot.toNat).map fun (i : Nat) => (endsAt g fuel (i : Int)).getD (-9))
    | _, _ => "bad-op"
  | _ => "bad-op"

def main : IO Unit := serve handle
