import HydroVerif.Proto
import HydroVerif.Model.C11
open HydroVerif HydroVerif.C11

/-
requests (floats as 16 hex digits or `nan`; `codes` = FLOWDIRCODE.ravel() read from grid.py by the harness):
  acc     nrows ncols [codes] [flowdir] maxcells nodata [field]          -> ok:[acc] [order-sensitive cells] | err:<kind>   grid.accumulate(flowdir, field, max_accumulated_cells=maxcells)
  accunit nrows ncols [codes] [flowdir] maxcells nodata                  -> ok:[acc] | err:<kind>   grid.accumulate(flowdir, None, ...)
  cacc    nrows ncols [codes] [flowdir] maxcells nodata [field] [acc0]   -> ok:[acc] | err:<kind>   c_accumulate on given buffers (no default cap)
  accpin / caccpin : same with the pinned (pre-fix) kernel                (diagnostics)
  down    nrows ncols [codes] [flowdir] [cells]                          -> [d or E]                one entry of c_downstream per cell
  gacc    nrows ncols [codes] [flowdir] maxcells fdnodata none                      -> ok:[acc] [sens] nodata nrows ncols [field memory after] T1|T0 | err:<kind>   (T1: every walk ends before the limit — the region where the property fixes the values)
  gacc    nrows ncols [codes] [flowdir] maxcells fdnodata fnrows fncols fnodata [fdata]   (grid.accumulate on grid objects: shapes, result no-data, field memory)
  caccs   nrows ncols [codes] [flowdir] maxcells nodata [field] [acc0] alias(0|1)     -> ok:[field memory after] [accumulation memory after] [sens] T1|T0 | err:<kind>
  clo     nrows ncols [codes] [flowdir] fuel                                        -> [closure of cell 0;closure of cell 1;...] [direct upstream of 0;...]
  spec    nrows ncols [codes] [flowdir] fuel                             -> allTerminate(0/1) [endsAt per cell, -9 = none]
  caccp   nrows ncols [codes] [flowdir] nprint maxcells nodata [field] [acc0]       -> ok:[acc] lines same(1|0: equal to cAccumulate without nprint) | err:<kind>
  acci    nrows ncols [codes] [flowdir] maxcells nodata(int) [field ints]           -> ok:[acc as integers] F1|F0 (F1: the Float instance on the same integers gives exactly these values) | err:<kind>
  accr    nrows ncols [codes] [flowdir] maxcells nodata [field]                     -> R1|R0|skip  (R1: the Float instance equals, bit for bit, the kernel on exact rationals rounded to 53 bits after every addition; skip: a non-finite input)
  pin     nrows ncols [codes] [flowdir] maxcells nodata [field]                     -> eq|ne   (pinned kernel vs repaired kernel, accumulation = copy of the field)
  hist    nrows ncols [codes] [flowdir] fdnodata maxcells <none | fnr:fnc:fnd:[fdata]> op ...   -> reply|reply|...|final:<field>;<result>;[flowdir]
          ops: call cap:m fdset:i:code fdassign:nr:nc:[..] fdnd:x fdclone fset:i:x fassign:nr:nc:[..] fnd:x fnew:nr:nc:nd:[..] fdrop fclone
               rset:i:x rfill:x rnd:x feedback ; replies: done | rej | <the gacc reply of the call>
          grid in `final`: none | nr:nc:nd:[data]
-/

def errName : Err → String
  | .badMaxCells => "badMaxCells"
  | .badDims => "badDims"
  | .downstream => "downstream"
  | .oob => "oob"
  | .shape => "shape"

/-- reply: the values, then the cells whose value depends on the visiting order of the outer loop
(terminal cells incremented by a capped walk; none when every walk ends) -/
def fmtRes (g : FlowGrid) (cap : Int) : Except Err (Array Float) → String
  | .ok a => "ok:" ++ fmtFloatList a.toList ++ " " ++ fmtIntList (orderSensitive g (fuelOf cap))
  | .error e => "err:" ++ errName e

def grid? (nr nc codes fd : String) : Option FlowGrid :=
  match nr.toInt?, nc.toInt?, parseIntList? codes, parseIntList? fd with
  | some nr, some nc, some codes, some fd =>
    -- the wrapper asserts a 3x3 code table; a request with another length is not a call the code accepts
    if codes.length = 9 then some ⟨nr, nc, codes, fd.toArray⟩ else none
  | _, _, _, _ => none

def fmtNatMat (rows : List (List Nat)) : String :=
  "[" ++ ";".intercalate (rows.map fun r => ",".intercalate (r.map toString)) ++ "]"

def fmtGrid (g : FlowGrid) (mc : Int) : Except Err (Store Float × FieldGrid Float) → String
  | .ok (s, r) => "ok:" ++ fmtFloatList r.data.toList ++ " " ++ fmtIntList (orderSensitive g (fuelOf (capOf g mc)))
      ++ " " ++ hexOfFloat r.nodata ++ " " ++ toString r.nrows ++ " " ++ toString r.ncols ++ " " ++ fmtFloatList s.field.toList
      ++ (if allTerminateB g (fuelOf (capOf g mc)) then " T1" else " T0")
  | .error e => "err:" ++ errName e


/-! histories -/

def fieldTok? (t : String) : Option (Option (FieldGrid Float)) :=
  if t = "none" then some none
  else match t.splitOn ":" with
    | [nr, nc, nd, data] =>
      match nr.toInt?, nc.toInt?, floatTok? nd, parseFloatList? data with
      | some nr, some nc, some nd, some data => some (some ⟨nr, nc, data.toArray, nd⟩)
      | _, _, _, _ => none
    | _ => none

def opTok? (t : String) : Option (Op Float) :=
  match t.splitOn ":" with
  | ["call"] => some .call
  | ["cap", m] => m.toInt?.map .setCap
  | ["fdset", i, c] => match i.toInt?, c.toInt? with
    | some i, some c => some (.fdSetCell i c)
    | _, _ => none
  | ["fdassign", nr, nc, d] => match nr.toInt?, nc.toInt?, parseIntList? d with
    | some nr, some nc, some d => some (.fdAssign nr nc d.toArray)
    | _, _, _ => none
  | ["fdnd", x] => (floatTok? x).map .fdSetNodata
  | ["fdclone"] => some .fdClone
  | ["fset", i, x] => match i.toInt?, floatTok? x with
    | some i, some x => some (.fSetCell i x)
    | _, _ => none
  | ["fassign", nr, nc, d] => match nr.toInt?, nc.toInt?, parseFloatList? d with
    | some nr, some nc, some d => some (.fAssign nr nc d.toArray)
    | _, _, _ => none
  | ["fnd", x] => (floatTok? x).map .fSetNodata
  | ["fnew", nr, nc, nd, d] => match nr.toInt?, nc.toInt?, floatTok? nd, parseFloatList? d with
    | some nr, some nc, some nd, some d => some (.fNew ⟨nr, nc, d.toArray, nd⟩)
    | _, _, _, _ => none
  | ["fdrop"] => some .fDrop
  | ["fclone"] => some .fClone
  | ["rset", i, x] => match i.toInt?, floatTok? x with
    | some i, some x => some (.rSetCell i x)
    | _, _ => none
  | ["rfill", x] => (floatTok? x).map .rFill
  | ["rnd", x] => (floatTok? x).map .rSetNodata
  | ["feedback"] => some .feedBack
  | _ => none

def fmtFieldGrid : Option (FieldGrid Float) → String
  | none => "none"
  | some f => toString f.nrows ++ ":" ++ toString f.ncols ++ ":" ++ hexOfFloat f.nodata ++ ":" ++ fmtFloatList f.data.toList

/-- the reply of a call in the format of `gacc`: values, order-sensitive cells, no-data value and shape of the result,
the memory of the field after the call (what `Sess.input` is in the state after the call), region flag -/
def fmtCallReply (s s' : Sess Float) : Reply Float → String
  | .result r =>
    let fuel := fuelOf (capOf s.fd s.cap)
    "ok:" ++ fmtFloatList r.data.toList ++ " " ++ fmtIntList (orderSensitive s.fd fuel) ++ " " ++ hexOfFloat r.nodata ++ " " ++
      toString r.nrows ++ " " ++ toString r.ncols ++ " " ++ fmtFloatList s'.input.1.toList ++
      (if allTerminateB s.fd fuel then " T1" else " T0")
  | .rejected => "err:rejected"
  | .done => "done"

def runHist (s : Sess Float) : List (Op Float) → List String → Sess Float × List String
  | [], out => (s, out.reverse)
  | op :: rest, out =>
    let (s', r) := step s op
    let txt := match op, r with
      | .call, r => fmtCallReply s s' r
      | _, .rejected => "rej"
      | _, _ => "done"
    runHist s' rest (txt :: out)

def handle (toks : List String) : String :=
  match toks with
  | ["gacc", nr, nc, codes, fd, mc, fdnd, "none"] =>
    match grid? nr nc codes fd, mc.toInt?, floatTok? fdnd with
    | some g, some mc, some fdnd => fmtGrid g mc (gridAccumulate g fdnd none mc)
    | _, _, _ => "bad-op"
  | ["gacc", nr, nc, codes, fd, mc, fdnd, fnr, fnc, fnd, fdata] =>
    match grid? nr nc codes fd, mc.toInt?, floatTok? fdnd, fnr.toInt?, fnc.toInt?, floatTok? fnd, parseFloatList? fdata with
    | some g, some mc, some fdnd, some fnr, some fnc, some fnd, some fdata =>
      fmtGrid g mc (gridAccumulate g fdnd (some ⟨fnr, fnc, fdata.toArray, fnd⟩) mc)
    | _, _, _, _, _, _, _ => "bad-op"
  | ["caccs", nr, nc, codes, fd, mc, nodata, field, acc0, alias] =>
    match grid? nr nc codes fd, mc.toInt?, floatTok? nodata, parseFloatList? field, parseFloatList? acc0 with
    | some g, some mc, some nodata, some field, some acc0 =>
      match cAccumulateS g mc nodata ⟨field.toArray, acc0.toArray, alias == "1"⟩ with
      | .ok s => "ok:" ++ fmtFloatList s.field.toList ++ " " ++ fmtFloatList s.accArr.toList ++ " " ++
          fmtIntList (orderSensitive g (fuelOf mc)) ++ (if allTerminateB g (fuelOf mc) then " T1" else " T0")
      | .error e => "err:" ++ errName e
    | _, _, _, _, _ => "bad-op"
  | "hist" :: nr :: nc :: codes :: fd :: fdnd :: mc :: ftok :: ops =>
    match grid? nr nc codes fd, floatTok? fdnd, mc.toInt?, fieldTok? ftok, allSome (ops.map opTok?) with
    | some g, some fdnd, some mc, some f0, some ops =>
      let s0 : Sess Float := match f0 with
        | some f => ⟨g, fdnd, #[f], some 0, none, mc⟩
        | none => ⟨g, fdnd, #[], none, none, mc⟩
      let (_, out) := runHist s0 ops []
      -- the objects at the end: the model's `run` itself
      let s := (run s0 ops).1
      "|".intercalate out ++ "|final:" ++ fmtFieldGrid s.fieldGrid ++ ";" ++ fmtFieldGrid s.resGrid ++ ";" ++
        fmtIntList s.fd.flowdir.toList
    | _, _, _, _, _ => "bad-op"
  | ["caccp", nr, nc, codes, fd, np, mc, nodata, field, acc0] =>
    match grid? nr nc codes fd, np.toInt?, mc.toInt?, floatTok? nodata, parseFloatList? field, parseFloatList? acc0 with
    | some g, some np, some mc, some nodata, some field, some acc0 =>
      match cAccumulateP g np mc nodata field.toArray acc0.toArray with
      | .ok (a, lines) =>
        let same := match cAccumulate g mc nodata field.toArray acc0.toArray with
          | .ok b => fmtFloatList a.toList == fmtFloatList b.toList
          | .error _ => false
        "ok:" ++ fmtFloatList a.toList ++ " " ++ toString lines ++ (if same then " 1" else " 0")
      | .error e => "err:" ++ errName e
    | _, _, _, _, _, _ => "bad-op"
  | ["acci", nr, nc, codes, fd, mc, nodata, field] =>
    match grid? nr nc codes fd, mc.toInt?, nodata.toInt?, parseIntList? field with
    | some g, some mc, some nodata, some field =>
      match accumulate g mc nodata field.toArray with
      | .ok a =>
        let fl := match accumulate g mc (Float.ofInt nodata) (field.map Float.ofInt).toArray with
          | .ok b => b.toList == a.toList.map Float.ofInt
          | .error _ => false
        -- the same kernel at `Rounded Float id`: IEEE addition followed by the identity "rounding" is IEEE addition
        let rd := match accumulate g mc (⟨Float.ofInt nodata⟩ : Rounded Float (fun x => x))
            (field.map fun z => (⟨Float.ofInt z⟩ : Rounded Float (fun x => x))).toArray with
          | .ok b => b.toList.map (·.val) == a.toList.map Float.ofInt
          | .error _ => false
        "ok:" ++ fmtIntList a.toList ++ (if fl && rd then " F1" else " F0")
      | .error e => "err:" ++ errName e
    | _, _, _, _ => "bad-op"
  | ["accr", nr, nc, codes, fd, mc, nodata, field] =>
    match grid? nr nc codes fd, mc.toInt?, floatTok? nodata, parseFloatList? field with
    | some g, some mc, some nodata, some field =>
      match ratOfFloat? nodata, allSome (field.map ratOfFloat?) with
      | some ndR, some fR =>
        let a := accumulate g mc nodata field.toArray
        let b := accumulate g mc (⟨ndR⟩ : Rounded Rat (rndBits 53)) (fR.map fun x => (⟨x⟩ : Rounded Rat (rndBits 53))).toArray
        match a, b with
        | .ok a, .ok b =>
          -- the Float instance (IEEE addition) against exact rationals rounded to 53 bits after every addition
          if a.toList.map ratOfFloat? == b.toList.map (fun x => some x.val) then "R1" else "R0"
        | .error _, .error _ => "R1"
        | _, _ => "R0"
      | _, _ => "skip"
    | _, _, _, _ => "bad-op"
  | ["pin", nr, nc, codes, fd, mc, nodata, field] =>
    match grid? nr nc codes fd, mc.toInt?, floatTok? nodata, parseFloatList? field with
    | some g, some mc, some nodata, some field =>
      let a := cAccumulatePinned g (capOf g mc) nodata field.toArray field.toArray
      let b := cAccumulate g (capOf g mc) nodata field.toArray field.toArray
      let str : Except Err (Array Float) → String := fun r => match r with
        | .ok x => fmtFloatList x.toList
        | .error e => errName e
      if str a == str b then "eq" else "ne"
    | _, _, _, _ => "bad-op"
  | ["clo", nr, nc, codes, fd, fuel] =>
    match grid? nr nc codes fd, fuel.toNat? with
    | some g, some fuel =>
      let cells := List.range g.ntot.toNat
      fmtNatMat (cells.map fun (c : Nat) => upClosure g fuel (c : Int)) ++ " " ++
        fmtNatMat (cells.map fun (c : Nat) => directUpList g (c : Int))
    | _, _ => "bad-op"
  | [op, nr, nc, codes, fd, mc, nodata, field] =>
    match grid? nr nc codes fd, mc.toInt?, floatTok? nodata, parseFloatList? field with
    | some g, some mc, some nodata, some field =>
      if op = "acc" then fmtRes g (capOf g mc) (accumulate g mc nodata field.toArray)
      else if op = "accpin" then fmtRes g (capOf g mc) (cAccumulatePinned g (capOf g mc) nodata field.toArray field.toArray)
      else "bad-op"
    | _, _, _, _ => "bad-op"
  | ["accunit", nr, nc, codes, fd, mc, nodata] =>
    match grid? nr nc codes fd, mc.toInt?, floatTok? nodata with
    | some g, some mc, some nodata => fmtRes g (capOf g mc) (accumulateUnit g mc nodata)
    | _, _, _ => "bad-op"
  | [op, nr, nc, codes, fd, mc, nodata, field, acc0] =>
    match grid? nr nc codes fd, mc.toInt?, floatTok? nodata, parseFloatList? field, parseFloatList? acc0 with
    | some g, some mc, some nodata, some field, some acc0 =>
      if op = "cacc" then fmtRes g mc (cAccumulate g mc nodata field.toArray acc0.toArray)
      else if op = "caccpin" then fmtRes g mc (cAccumulatePinned g mc nodata field.toArray acc0.toArray)
      else "bad-op"
    | _, _, _, _, _ => "bad-op"
  | ["down", nr, nc, codes, fd, cells] =>
    match grid? nr nc codes fd, parseIntList? cells with
    | some g, some cs =>
      fmtList (cs.map fun c => match downstream g c with
        | .ok d => toString d
        | .error e => "E" ++ errName e)
    | _, _ => "bad-op"
  | ["spec", nr, nc, codes, fd, fuel] =>
    match grid? nr nc codes fd, fuel.toNat? with
    | some g, some fuel =>
      (if allTerminateB g fuel then "1" else "0") ++ " " ++
        fmtIntList ((List.range g.ntot.toNat).map fun (i : Nat) => (endsAt g fuel (i : Int)).getD (-9))
    | _, _ => "bad-op"
  | _ => "bad-op"

def main : IO Unit := serve handle
