import HydroVerif.Proto
import HydroVerif.Model.C12
open HydroVerif HydroVerif.C12

/-! line protocol of the C12 model driver (α = Float, EPS = 1e-10)

request  `V <spec> <op>*`                         vector state machine
         `T <kind> <pspec> <cspec> <bspec|-> <top>*`   transform (params, constants, inner BoxCox2 params)
         `eps`                                     the EPS constant as hex
spec     `names/defaults/mins/maxs/cb/ch/an`       lists `[..]` or `-` (argument not given), flags 0/1
op       `sa:k:name:x` `sk:k:name:x` `sv:k:[xs]` `rs:k` `cl:k` `dr:k` `gk:k:name` `ga:k:name` `rd:k` `sb:k` `pc:k:0|1`
top      `fw` `bw` `jc` `sm` `lp` `pr` `ti:name:x` `ta:name:x` `tr` `pv:[xs]` `cv:[xs]`
reply    observation after construction and after every op, joined by ` | `
-/

abbrev X := XR Float
def epsF : Float := 1e-10

def xOfFloat (f : Float) : X :=
  if f.isNaN then .nan else if f.isInf then (if f < 0 then .ninf else .pinf) else .fin f

def xTok? (s : String) : Option X := (floatTok? s).map xOfFloat
def xList? (s : String) : Option (List X) := allSome ((listToks s).map xTok?)
def optList? (s : String) : Option (Option (List X)) :=
  if s = "-" then some none else (xList? s).map some

def fmtX : X → String
  | .nan => "nan"
  | .ninf => hexOfFloat (-1.0 / 0.0)
  | .pinf => hexOfFloat (1.0 / 0.0)
  | .fin a => hexOfFloat a
def fmtXs (xs : List X) : String := fmtList (xs.map fmtX)
def b01 (b : Bool) : String := if b then "1" else "0"
def flag? (s : String) : Option Bool := if s = "1" then some true else if s = "0" then some false else none

def errName : Err → String
  | .flagConflict => "flagConflict" | .dupNames => "dupNames" | .badLength => "badLength"
  | .nanValue => "nanValue" | .maxsOutside => "maxsOutside" | .defaultsOutside => "defaultsOutside"
  | .unknownKey => "unknownKey" | .index => "index"
  | .noAttr => "noAttr" | .notNumber => "notNumber" | .copyProtocol => "copyProtocol"

def fmtOut : Out → String
  | .ok => "ok -"
  | .rejected e => "rej " ++ errName e

def spec? (s : String) : Option (Spec Float) :=
  match s.splitOn "/" with
  | [nm, d, lo, hi, cb, ch, an] =>
    match optList? d, optList? lo, optList? hi, flag? cb, flag? ch, flag? an with
    | some d, some lo, some hi, some cb, some ch, some an => some ⟨listToks nm, d, lo, hi, cb, ch, an⟩
    | _, _, _, _, _, _ => none
  | _ => none

def fmtView (v : View Float) : String :=
  ":".intercalate [fmtList v.names, fmtXs v.values, fmtXs v.mins, fmtXs v.maxs, fmtXs v.defaults,
    b01 v.hit, b01 v.checkBounds, b01 v.checkHit, b01 v.acceptNan]

def fmtDict (d : Dict Float) : String :=
  ":".intercalate ["D", toString d.nval, b01 d.hit, b01 d.checkBounds, b01 d.checkHit, b01 d.acceptNan,
    fmtList (d.data.map fun it => "=".intercalate [it.name, fmtX it.value, fmtX it.min, fmtX it.max, fmtX it.default])]

/-- alias classes: for every array (vector order, then values/mins/maxs/defaults) the first array with the same reference -/
def aliasClasses (w : World Float) : List Nat :=
  let refs := w.vecs.flatMap Vec.refs
  refs.map fun r => (refs.findIdx? (· == r)).getD 0

/-- reply tokens: out, kind, G + region flag of the op (1, 0 or dash), R: + value read by the op (or dash), the vectors, A + alias classes -/
def observe (w : World Float) (o : Out) (g : String := "-") (r : String := "-") : String :=
  let vs := w.vecs.map fun v =>
    let vw := view w.store v
    fmtView vw ++ " " ++ fmtDict (toDict w.store v) ++ " " ++ b01 vw.ok
  " ".intercalate ([fmtOut o, "G" ++ g, "R:" ++ r] ++ vs ++ ["A" ++ fmtNatList (aliasClasses w)])

/-- the model's evaluation of the theorems' conditioning for a whole-vector assignment -/
def regionFlag (w : World Float) : Op Float → String
  | .setAll k xs => match w.vecs[k]? with
    | some v => b01 (all3 (XR.inRegion epsF) xs (w.store.cells v.mins) (w.store.cells v.maxs))
    | none => "-"
  | _ => "-"

def readFlag (w : World Float) : Op Float → String
  | .getKey k nm | .getAttr k nm => match readItem w k nm with
    | some x => fmtX x
    | none => "-"
  | _ => "-"

def op? (s : String) : Option (Op Float) :=
  match s.splitOn ":" with
  | ["sa", k, nm, x] => match k.toNat?, xTok? x with
    | some k, some x => some (.setAttr k nm x) | _, _ => none
  | ["sk", k, nm, x] => match k.toNat?, xTok? x with
    | some k, some x => some (.setKey k nm x) | _, _ => none
  | ["sv", k, xs] => match k.toNat?, xList? xs with
    | some k, some xs => some (.setAll k xs) | _, _ => none
  | ["rs", k] => k.toNat?.map .reset
  | ["cl", k] => k.toNat?.map .clone
  | ["dr", k] => k.toNat?.map .dictRT
  | ["gk", k, nm] => k.toNat?.map (.getKey · nm)
  | ["ga", k, nm] => k.toNat?.map (.getAttr · nm)
  | ["rd", k] => k.toNat?.map .read
  | ["sb", k] => k.toNat?.map .setBad
  | ["pc", k, b] => match k.toNat?, flag? b with
    | some k, some b => some (.pyCopy k b) | _, _ => none
  | _ => none

def top? (s : String) : Option (TOp Float) :=
  match s.splitOn ":" with
  | ["fw"] => some .forward | ["bw"] => some .backward | ["jc"] => some .jacobian
  | ["sm"] => some .sample | ["lp"] => some .logprior | ["pr"] => some .print
  | ["tr"] => some .reset
  | ["ti", nm, x] => (xTok? x).map (.setItem nm)
  | ["ta", nm, x] => (xTok? x).map (.setAttr nm)
  | ["pv", xs] => (xList? xs).map .setParams
  | ["cv", xs] => (xList? xs).map .setConstants
  | _ => none

def kind? : String → Option TKind
  | "plain" => some .plain | "bc1lam" => some .bc1lam | "bc1nu" => some .bc1nu | "bc2sym" => some .bc2sym
  | _ => none

def runV (w : World Float) (ops : List (Op Float)) : List String :=
  match ops with
  | [] => []
  | op :: rest =>
    let (w', o) := step epsF w op
    observe w' o (regionFlag w op) (readFlag w op) :: runV w' rest

def runT (w : World Float) (t : Trans) (ops : List (TOp Float)) : List String :=
  match ops with
  | [] => []
  | op :: rest =>
    let (w', o) := tstep epsF w t op
    observe w' o :: runT w' t rest

/-- several transform instances in one world: `new:kind:pspec:cspec:bspec|-` constructs one, `i.top` operates on the
i-th; one observation (all vectors of all instances) per op -/
def runM (m : MWorld Float) (ops : List String) : List String :=
  match ops with
  | [] => []
  | o :: rest =>
    match o.splitOn ":" with
    | ["new", kd, ps, cs, bs] =>
      match kind? kd, spec? ps, spec? cs with
      | some kd, some ps, some cs =>
        let b : Option (Option (Spec Float)) := if bs = "-" then some none else (spec? bs).map some
        match b with
        | none => ["bad-op"]
        | some b => match madd epsF m kd ps cs b with
          | .error e => (observe m.world (.rejected e)) :: runM m rest
          | .ok m' => observe m'.world .ok :: runM m' rest
      | _, _, _ => ["bad-op"]
    | _ =>
      match o.splitOn "." with
      | [i, t] => match i.toNat?, top? t with
        | some i, some op =>
          let (m', out) := mstep epsF m i op
          observe m'.world out :: runM m' rest
        | _, _ => ["bad-op"]
      | _ => ["bad-op"]

def handle (toks : List String) : String :=
  match toks with
  | ["eps"] => hexOfFloat epsF
  | "M" :: ops => " | ".intercalate (runM MWorld.empty ops)
  | "V" :: sp :: ops =>
    match spec? sp, allSome (ops.map op?) with
    | some sp, some ops =>
      match init epsF sp.names sp.defaults sp.mins sp.maxs sp.checkBounds sp.checkHit sp.acceptNan with
      | .error e => "rej " ++ errName e
      | .ok w => " | ".intercalate (observe w .ok :: runV w ops)
    | _, _ => "bad-op"
  | "T" :: kd :: ps :: cs :: bs :: ops =>
    match kind? kd, spec? ps, spec? cs, allSome (ops.map top?) with
    | some kd, some ps, some cs, some ops =>
      let built : Except Err (World Float) :=
        if bs = "-" then tinit epsF ps cs none
        else match spec? bs with
          | none => .error .index
          | some bsp => tinit epsF ps cs (some bsp)
      match built with
      | .error e => "rej " ++ errName e
      | .ok w =>
        let t : Trans := ⟨kd, 0, 1, 2⟩
        " | ".intercalate (observe w .ok :: runT w t ops)
    | _, _, _, _ => "bad-op"
  | _ => "bad-op"

def main : IO Unit := serve handle
