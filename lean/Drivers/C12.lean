import HydroVerif.Proto
import HydroVerif.Model.C12
import HydroVerif.Model.C12T
open HydroVerif HydroVerif.C12

/-! line protocol of the C12 model driver (α = Float, EPS = 1e-10)

request  `V <spec> <op>*`                         vector state machine
         `T <kind> <pspec> <cspec> <bspec|-> <top>*`   transform (params, constants, inner BoxCox2 params) from given specs
         `C <Class> <mininu|-> <minilam|-> <top>*`     transform built by the MODEL's class table (`cinit`)
         `G <name> <key=x;key=x|-> <top>*`             `get_transform(name, **kw)` (`getTransform`)
         `M <mop>*`  mop = `new:kind:pspec:cspec:bspec|-` | `newc:Class:mininu|-:minilam|-` | `i.top`   several instances
         `eps`                                     the EPS constant as hex
spec     `names/defaults/mins/maxs/cb/ch/an`       lists `[..]` or `-` (argument not given), flags 0/1
op       `sa:k:name:x` `sk:k:name:x` `sv:k:[xs]` `rs:k` `cl:k` `dr:k` `gk:k:name` `ga:k:name` `rd:k` `sb:k` `pc:k:0|1`
top      `fw` `bw` `jc` `sm` `lp` `pr` `ti:name:x` `ta:name:x` `tr` `pv:[xs]` `cv:[xs]` `tgi:name` `tga:name`
reply    observation after construction and after every op, joined by ` | `; an observation is
         `out kind G<region> R:<value read> F<frozen bits> E<0|1> <view> <dict> <ok>... A[alias classes]`
         (F: one bit per vector alive before the op — names / bounds / defaults / flags unchanged by it;
          E: `EpsOk` holds at Float on every bound of every live vector: b - EPS <= b <= b + EPS)
-/

abbrev X := XR Float
def epsF : Float := 1e-10
/-- the literals of transform.py -/
def kF : TConsts Float :=
  { eps := 1e-10, em5 := 1e-5, tenth := 0.1, zero := 0.0, one := 1.0, three := 3.0, five := 5.0, ten := 10.0,
    n1 := -1.0, n3 := -3.0, n5 := -5.0, n10 := -10.0, n20 := -20.0 }

def xOfFloat (f : Float) : X :=
  if f.isNaN then .nan else if f.isInf then (if f < 0 then .ninf else .pinf) else .fin f

def xTok? (s : String) : Option X := (floatTok? s).map xOfFloat
def xList? (s : String) : Option (List X) := allSome ((listToks s).map xTok?)
def optList? (s : String) : Option (Option (List X)) :=
  if s = "-" then some none else (xList? s).map some

def fmtX : X → String
  | .nan => "nan"
  | .ninf => hexOfFloat (-1.0 / 0.0)
  | .pinf => hexOfFloat (1.0 / 0.0)
  | .fin a => hexOfFloat a
def fmtXs (xs : List X) : String := fmtList (xs.map fmtX)
def b01 (b : Bool) : String := if b then "1" else "0"
def flag? (s : String) : Option Bool := if s = "1" then some true else if s = "0" then some false else none

def errName : Err → String
  | .flagConflict => "flagConflict" | .dupNames => "dupNames" | .badLength => "badLength"
  | .nanValue => "nanValue" | .maxsOutside => "maxsOutside" | .defaultsOutside => "defaultsOutside"
  | .unknownKey => "unknownKey" | .index => "index"
  | .noAttr => "noAttr" | .notNumber => "notNumber" | .copyProtocol => "copyProtocol"
  | .ctorGuard => "ctorGuard" | .unknownClass => "unknownClass"

def fmtOut : Out → String
  | .ok => "ok -"
  | .rejected e => "rej " ++ errName e

def spec? (s : String) : Option (Spec Float) :=
  match s.splitOn "/" with
  | [nm, d, lo, hi, cb, ch, an] =>
    match optList? d, optList? lo, optList? hi, flag? cb, flag? ch, flag? an with
    | some d, some lo, some hi, some cb, some ch, some an => some ⟨listToks nm, d, lo, hi, cb, ch, an⟩
    | _, _, _, _, _, _ => none
  | _ => none

def fmtView (v : View Float) : String :=
  ":".intercalate [fmtList v.names, fmtXs v.values, fmtXs v.mins, fmtXs v.maxs, fmtXs v.defaults,
    b01 v.hit, b01 v.checkBounds, b01 v.checkHit, b01 v.acceptNan]

def fmtDict (d : Dict Float) : String :=
  ":".intercalate ["D", toString d.nval, b01 d.hit, b01 d.checkBounds, b01 d.checkHit, b01 d.acceptNan,
    fmtList (d.data.map fun it => "=".intercalate [it.name, fmtX it.value, fmtX it.min, fmtX it.max, fmtX it.default])]

/-- alias classes: for every array (vector order, then values/mins/maxs/defaults) the first array with the same reference -/
def aliasClasses (w : World Float) : List Nat :=
  let refs := w.vecs.flatMap Vec.refs
  refs.map fun r => (refs.findIdx? (· == r)).getD 0

def fmtFrozen (f : Option (Frozen Float)) : String :=
  match f with
  | none => "-"
  | some f => ":".intercalate [fmtList f.names, fmtXs f.mins, fmtXs f.maxs, fmtXs f.defaults, b01 f.checkBounds,
      b01 f.checkHit, b01 f.acceptNan]

/-- one bit per vector of the world BEFORE the operation: `World.frozen` unchanged (bit patterns compared) -/
def frozenBits (prev : Option (World Float)) (w : World Float) : String :=
  match prev with
  | none => "-"
  | some p => String.join ((List.range p.vecs.length).map fun j => b01 (fmtFrozen (w.frozen j) == fmtFrozen (p.frozen j)))

/-- reply tokens: out, kind, G + region flag of the op (1, 0 or dash), R: + value read by the op (or dash), F + frozen
bits, the vectors, A + alias classes -/
def observe (w : World Float) (o : Out) (g : String := "-") (r : String := "-") (prev : Option (World Float) := none) :
    String :=
  let vs := w.vecs.map fun v =>
    let vw := view w.store v
    fmtView vw ++ " " ++ fmtDict (toDict w.store v) ++ " " ++ b01 vw.ok
  let e := w.vecs.all fun v => (view w.store v).epsOk epsF
  " ".intercalate ([fmtOut o, "G" ++ g, "R:" ++ r, "F" ++ frozenBits prev w, "E" ++ b01 e] ++ vs
    ++ ["A" ++ fmtNatList (aliasClasses w)])

/-- the model's evaluation of the theorems' conditioning for a whole-vector assignment -/
def regionFlag (w : World Float) : Op Float → String
  | .setAll k xs => match w.vecs[k]? with
    | some v => b01 (all3 (XR.inRegion epsF) xs (w.store.cells v.mins) (w.store.cells v.maxs))
    | none => "-"
  | _ => "-"

def readFlag (w : World Float) : Op Float → String
  | .getKey k nm | .getAttr k nm => match readItem w k nm with
    | some x => fmtX x
    | none => "-"
  | _ => "-"

def op? (s : String) : Option (Op Float) :=
  match s.splitOn ":" with
  | ["sa", k, nm, x] => match k.toNat?, xTok? x with
    | some k, some x => some (.setAttr k nm x) | _, _ => none
  | ["sk", k, nm, x] => match k.toNat?, xTok? x with
    | some k, some x => some (.setKey k nm x) | _, _ => none
  | ["sv", k, xs] => match k.toNat?, xList? xs with
    | some k, some xs => some (.setAll k xs) | _, _ => none
  | ["rs", k] => k.toNat?.map .reset
  | ["cl", k] => k.toNat?.map .clone
  | ["dr", k] => k.toNat?.map .dictRT
  | ["gk", k, nm] => k.toNat?.map (.getKey · nm)
  | ["ga", k, nm] => k.toNat?.map (.getAttr · nm)
  | ["rd", k] => k.toNat?.map .read
  | ["sb", k] => k.toNat?.map .setBad
  | ["pc", k, b] => match k.toNat?, flag? b with
    | some k, some b => some (.pyCopy k b) | _, _ => none
  | _ => none

def top? (s : String) : Option (TOp Float) :=
  match s.splitOn ":" with
  | ["fw"] => some .forward | ["bw"] => some .backward | ["jc"] => some .jacobian
  | ["sm"] => some .sample | ["lp"] => some .logprior | ["pr"] => some .print
  | ["tr"] => some .reset
  | ["ti", nm, x] => (xTok? x).map (.setItem nm)
  | ["ta", nm, x] => (xTok? x).map (.setAttr nm)
  | ["pv", xs] => (xList? xs).map .setParams
  | ["cv", xs] => (xList? xs).map .setConstants
  | ["tgi", nm] => some (.getItem nm)
  | ["tga", nm] => some (.getAttr nm)
  | _ => none

def treadFlag (w : World Float) (t : Trans) : TOp Float → Out → String
  | .getItem nm, .ok | .getAttr nm, .ok => match treadItem w t nm with
    | some x => fmtX x
    | none => "-"
  | _, _ => "-"

def class? (s : String) : Option TClass := TClass.ofName? s
def argTok? (dflt : X) (s : String) : Option X := if s = "-" then some dflt else xTok? s
def cargs? (mn ml : String) : Option (CArgs Float) :=
  match argTok? (CArgs.default kF).mininu mn, argTok? (CArgs.default kF).minilam ml with
  | some a, some b => some ⟨a, b⟩
  | _, _ => none
def kw? (s : String) : Option (List (String × X)) :=
  if s = "-" then some [] else
    allSome ((s.splitOn ";").map fun kv => match kv.splitOn "=" with
      | [k, x] => (xTok? x).map fun x => (k, x)
      | _ => none)

def kind? : String → Option TKind
  | "plain" => some .plain | "bc1lam" => some .bc1lam | "bc1nu" => some .bc1nu | "bc2sym" => some .bc2sym
  | _ => none

def runV (w : World Float) (ops : List (Op Float)) : List String :=
  match ops with
  | [] => []
  | op :: rest =>
    let (w', o) := step epsF w op
    observe w' o (regionFlag w op) (readFlag w op) (some w) :: runV w' rest

def runT (w : World Float) (t : Trans) (ops : List (TOp Float)) : List String :=
  match ops with
  | [] => []
  | op :: rest =>
    let (w', o) := tstep epsF w t op
    observe w' o "-" (treadFlag w t op o) (some w) :: runT w' t rest

/-- several transform instances in one world: `new:kind:pspec:cspec:bspec|-` constructs one, `i.top` operates on the
i-th; one observation (all vectors of all instances) per op -/
def runM (m : MWorld Float) (ops : List String) : List String :=
  match ops with
  | [] => []
  | o :: rest =>
    match o.splitOn ":" with
    | ["new", kd, ps, cs, bs] =>
      match kind? kd, spec? ps, spec? cs with
      | some kd, some ps, some cs =>
        let b : Option (Option (Spec Float)) := if bs = "-" then some none else (spec? bs).map some
        match b with
        | none => ["bad-op"]
        | some b => match madd epsF m kd ps cs b with
          | .error e => (observe m.world (.rejected e) "-" "-" (some m.world)) :: runM m rest
          | .ok m' => observe m'.world .ok "-" "-" (some m.world) :: runM m' rest
      | _, _, _ => ["bad-op"]
    | ["newc", cl, mn, ml] =>
      match class? cl, cargs? mn ml with
      | some cl, some a =>
        let (m', out) := mstepC epsF kF m (.new cl a)
        observe m'.world out "-" "-" (some m.world) :: runM m' rest
      | _, _ => ["bad-op"]
    | _ =>
      match o.splitOn "." with
      | [i, t] => match i.toNat?, top? t with
        | some i, some op =>
          let (m', out) := mstepC epsF kF m (.at i op)
          let r := match m.insts[i]? with
            | some tr => treadFlag m.world tr op out
            | none => "-"
          observe m'.world out "-" r (some m.world) :: runM m' rest
        | _, _ => ["bad-op"]
      | _ => ["bad-op"]

def handle (toks : List String) : String :=
  match toks with
  | ["eps"] => hexOfFloat epsF
  | "M" :: ops => " | ".intercalate (runM MWorld.empty ops)
  | "V" :: sp :: ops =>
    match spec? sp, allSome (ops.map op?) with
    | some sp, some ops =>
      match init epsF sp.names sp.defaults sp.mins sp.maxs sp.checkBounds sp.checkHit sp.acceptNan with
      | .error e => "rej " ++ errName e
      | .ok w => " | ".intercalate (observe w .ok :: runV w ops)
    | _, _ => "bad-op"
  | "T" :: kd :: ps :: cs :: bs :: ops =>
    match kind? kd, spec? ps, spec? cs, allSome (ops.map top?) with
    | some kd, some ps, some cs, some ops =>
      let built : Except Err (World Float) :=
        if bs = "-" then tinit epsF ps cs none
        else match spec? bs with
          | none => .error .index
          | some bsp => tinit epsF ps cs (some bsp)
      match built with
      | .error e => "rej " ++ errName e
      | .ok w =>
        let t : Trans := ⟨kd, 0, 1, 2⟩
        " | ".intercalate (observe w .ok :: runT w t ops)
    | _, _, _, _ => "bad-op"
  | "C" :: cl :: mn :: ml :: ops =>
    match class? cl, cargs? mn ml, allSome (ops.map top?) with
    | some cl, some a, some ops =>
      match cinit epsF kF cl a with
      | .error e => "rej " ++ errName e
      | .ok w => " | ".intercalate (observe w .ok :: runT w cl.trans ops)
    | _, _, _ => "bad-op"
  | "G" :: nm :: kw :: ops =>
    match kw? kw, allSome (ops.map top?) with
    | some kw, some ops =>
      match getTransform epsF kF nm kw with
      | .error e => "rej " ++ errName e
      | .ok (cl, w) => " | ".intercalate (observe w .ok :: runT w cl.trans ops)
    | _, _ => "bad-op"
  | _ => "bad-op"

def main : IO Unit := serve handle
