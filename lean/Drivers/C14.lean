import HydroVerif.Proto
import HydroVerif.Model.C14
open HydroVerif HydroVerif.C14

/-
requests (floats as 16 hex digits / `nan`, rationals as `p/q` / `nan`):
  kernel  P rain maxgap eps hstart nvalh [secs] [vals]   -> `ok [h0,...]` | `err <guard>`
  kernelq P rain maxgap eps hstart nvalh [secs] [vals]   (exact rationals)
  wrapper P rain maxgap eps [secs] [vals]                -> `ok hstart [h0,...] [label0,...]` | `err <guard>`
                                                            (values and labels are those of `wrapperSeries`)
  wrapperarg P rain maxgap(p/q) eps [secs] [vals]        -> as `wrapper`, maxgapsec as the Python number passed (np.int32 cast)
  pyx P rain maxgap eps hstart [secs] [vals] [hvalues]   -> `ok [buffer]` | `err <guard> [buffer]` (Cython entry point)
  hist [secs] [vals] [hvalues] op;op;...                 -> `[buffer] [code,...]` with op = S:k:t | V:k:hex | X:hex |
                                                            C:P:rain:maxgap:eps:hstart (history on one set of buffers)
  wrapperidx P rain maxgap eps unit [raw] [utcoffset] [vals] -> `ok hstart [h0,...] [labels] [wallsecs]` (index as stored)
  kmiss P rain maxgap eps hstart nvalh [secs] [vals]     -> `ok [m0,...] [m0,...] [m0,...]` | `err <guard>`: missing pattern
                                                            (1 = missing) of the control skeleton on the marks, of the Float
                                                            kernel, of the exact-rational kernel on the stand-in series
  scan hstart [secs]                                     -> index of `varindex` after the start scan | `none`
-/

def optF (x : Float) : Option Float := if x.isNaN then none else some x

def errName : Err → String
  | .badRainfall => "badRainfall"
  | .badPeriod => "badPeriod"
  | .startBeforeData => "startBeforeData"
  | .decreasing => "decreasing"
  | .emptyWalk => "emptyWalk"
  | .noInterval => "noInterval"
  | .badMaxgap => "badMaxgap"
  | .tooShort => "tooShort"
  | .lengthMismatch => "lengthMismatch"

def opTok? (s : String) : Option (Op Float) :=
  match s.splitOn ":" with
  | ["S", k, t] => match k.toNat?, t.toInt? with
    | some k, some t => some (.setSec k t)
    | _, _ => none
  | ["V", k, v] => match k.toNat?, floatTok? v with
    | some k, some v => some (.setVal k (optF v))
    | _, _ => none
  | ["X", v] => (floatTok? v).map fun v => .scribble (optF v)
  | ["C", p, rain, mg, eps, hs] => match p.toInt?, rain.toInt?, mg.toInt?, floatTok? eps, hs.toInt? with
    | some p, some rain, some mg, some eps, some hs => some (.call ⟨p, rain, mg, eps⟩ hs)
    | _, _, _, _, _ => none
  | _ => none

def fmtOF : Option Float → String
  | none => "nan"
  | some x => hexOfFloat x

def fmtOQ : Option Rat → String
  | none => "nan"
  | some x => fmtRat x

def ratOptTok? (s : String) : Option (Option Rat) :=
  if s = "nan" then some none else (ratTok? s).map some

def parseRatOptList? (s : String) : Option (List (Option Rat)) := allSome ((listToks s).map ratOptTok?)

def unitTok? : String → Option TUnit
  | "s" => some .s
  | "ms" => some .ms
  | "us" => some .us
  | "ns" => some .ns
  | _ => none

def mkObs {α : Type} (secs : List Int) (vals : List (Option α)) : List (Obs α) := secs.zip vals

def handle (toks : List String) : String :=
  match toks with
  | ["kernel", p, rain, mg, eps, hs, nh, secs, vals] =>
    match p.toInt?, rain.toInt?, mg.toInt?, floatTok? eps, hs.toInt?, nh.toInt?, parseIntList? secs, parseFloatList? vals with
    | some p, some rain, some mg, some eps, some hs, some nh, some secs, some vals =>
      if secs.length ≠ vals.length then "bad-op" else
      match kernel (α := Float) ⟨p, rain, mg, eps⟩ hs nh (mkObs secs (vals.map optF)) with
      | .ok r => "ok " ++ fmtList (r.map fmtOF)
      | .error e => "err " ++ errName e
    | _, _, _, _, _, _, _, _ => "bad-op"
  | ["kmiss", p, rain, mg, eps, hs, nh, secs, vals] =>
    match p.toInt?, rain.toInt?, mg.toInt?, floatTok? eps, hs.toInt?, nh.toInt?, parseIntList? secs, parseFloatList? vals with
    | some p, some rain, some mg, some eps, some hs, some nh, some secs, some vals =>
      if secs.length ≠ vals.length then "bad-op" else
      let c : Cfg Float := ⟨p, rain, mg, eps⟩
      let obs := mkObs secs (vals.map optF)
      let bits (l : List Bool) := fmtList (l.map fun b => if b then "1" else "0")
      match kernelMiss c.P c.rain hs nh (marks c obs), kernel c hs nh obs, kernel (cfgQ c) hs nh (obs.map (toQ c)) with
      | .ok m1, .ok o2, .ok o3 => "ok " ++ bits m1 ++ " " ++ bits (o2.map Option.isNone) ++ " " ++ bits (o3.map Option.isNone)
      | .error e1, .error e2, .error e3 =>
        if e1 = e2 ∧ e2 = e3 then "err " ++ errName e1 else "differ " ++ errName e1 ++ " " ++ errName e2 ++ " " ++ errName e3
      | _, _, _ => "differ"
    | _, _, _, _, _, _, _, _ => "bad-op"
  | ["kernelq", p, rain, mg, eps, hs, nh, secs, vals] =>
    match p.toInt?, rain.toInt?, mg.toInt?, ratTok? eps, hs.toInt?, nh.toInt?, parseIntList? secs, parseRatOptList? vals with
    | some p, some rain, some mg, some eps, some hs, some nh, some secs, some vals =>
      if secs.length ≠ vals.length then "bad-op" else
      match kernel (α := Rat) ⟨p, rain, mg, eps⟩ hs nh (mkObs secs vals) with
      | .ok r => "ok " ++ fmtList (r.map fmtOQ)
      | .error e => "err " ++ errName e
    | _, _, _, _, _, _, _, _ => "bad-op"
  | ["wrapper", p, rain, mg, eps, secs, vals] =>
    match p.toInt?, rain.toInt?, mg.toInt?, floatTok? eps, parseIntList? secs, parseFloatList? vals with
    | some p, some rain, some mg, some eps, some secs, some vals =>
      if secs.length ≠ vals.length then "bad-op" else
      match wrapper (α := Float) ⟨p, rain, mg, eps⟩ (mkObs secs (vals.map optF)),
          wrapperSeries (α := Float) ⟨p, rain, mg, eps⟩ (mkObs secs (vals.map optF)) with
      | .ok (hs, _), .ok ser => s!"ok {hs} " ++ fmtList (ser.map fun x => fmtOF x.2) ++ " " ++ fmtIntList (ser.map (·.1))
      | .error e, _ => "err " ++ errName e
      | _, .error e => "err " ++ errName e
    | _, _, _, _, _, _ => "bad-op"
  | ["wrapperarg", p, rain, mgq, eps, secs, vals] =>
    match p.toInt?, rain.toInt?, ratTok? mgq, floatTok? eps, parseIntList? secs, parseFloatList? vals with
    | some p, some rain, some mgq, some eps, some secs, some vals =>
      if secs.length ≠ vals.length then "bad-op" else
      let obs := mkObs secs (vals.map optF)
      match wrapperArg (α := Float) p rain mgq eps obs,
          wrapperSeries (α := Float) ⟨p, rain, maxgapOfArg mgq, eps⟩ obs with
      | .ok (hs, _), .ok ser => s!"ok {hs} " ++ fmtList (ser.map fun x => fmtOF x.2) ++ " " ++ fmtIntList (ser.map (·.1))
      | .error e, _ => "err " ++ errName e
      | _, .error e => "err " ++ errName e
    | _, _, _, _, _, _ => "bad-op"
  | ["pyx", p, rain, mg, eps, hs, secs, vals, hv] =>
    match p.toInt?, rain.toInt?, mg.toInt?, floatTok? eps, hs.toInt?, parseIntList? secs, parseFloatList? vals,
        parseFloatList? hv with
    | some p, some rain, some mg, some eps, some hs, some secs, some vals, some hv =>
      match pyxVar2h (α := Float) ⟨p, rain, mg, eps⟩ hs secs (vals.map optF) (hv.map optF) with
      | (buf, none) => "ok " ++ fmtList (buf.map fmtOF)
      | (buf, some e) => "err " ++ errName e ++ " " ++ fmtList (buf.map fmtOF)
    | _, _, _, _, _, _, _, _ => "bad-op"
  | ["hist", secs, vals, hv, ops] =>
    match parseIntList? secs, parseFloatList? vals, parseFloatList? hv, allSome ((ops.splitOn ";").map opTok?) with
    | some secs, some vals, some hv, some ops =>
      let r := run (α := Float) ⟨secs, vals.map optF, hv.map optF⟩ ops
      fmtList (r.1.hvalues.map fmtOF) ++ " " ++
        fmtList (r.2.map fun | none => "0" | some e => errName e)
    | _, _, _, _ => "bad-op"
  | ["wrapperidx", p, rain, mg, eps, unit, raws, offs, vals] =>
    match p.toInt?, rain.toInt?, mg.toInt?, floatTok? eps, unitTok? unit, parseIntList? raws, parseIntList? offs,
        parseFloatList? vals with
    | some p, some rain, some mg, some eps, some u, some raws, some offs, some vals =>
      if raws.length ≠ vals.length ∨ raws.length ≠ offs.length then "bad-op" else
      let stamps : List (Stamp Float) := (raws.zip (offs.zip (vals.map optF)))
      let secs := (obsOfIndex u stamps).map (·.1)
      match wrapperIdx (α := Float) ⟨p, rain, mg, eps⟩ u stamps, seriesIdx (α := Float) ⟨p, rain, mg, eps⟩ u stamps with
      | .ok (hs, _), .ok ser =>
        s!"ok {hs} " ++ fmtList (ser.map fun x => fmtOF x.2) ++ " " ++ fmtIntList (ser.map (·.1)) ++ " " ++ fmtIntList secs
      | .error e, _ => "err " ++ errName e ++ " " ++ fmtIntList secs
      | _, .error e => "err " ++ errName e ++ " " ++ fmtIntList secs
    | _, _, _, _, _, _, _, _ => "bad-op"
  | ["scan", hs, secs] =>
    match hs.toInt?, parseIntList? secs with
    | some hs, some secs =>
      match startScan (α := Float) hs (mkObs secs (secs.map fun _ => none)) with
      | none => "none"
      | some suf => toString (secs.length - (suf.2.length + 1))
    | _, _ => "bad-op"
  | _ => "bad-op"

def main : IO Unit := serve handle
