import HydroVerif.Proto
import HydroVerif.Model.C14
open HydroVerif HydroVerif.C14

/-
requests (floats as 16 hex digits / `nan`, rationals as `p/q` / `nan`):
  kernel  P rain maxgap eps hstart nvalh [secs] [vals]   -> `ok [h0,...]` | `err <guard>`
  kernelq P rain maxgap eps hstart nvalh [secs] [vals]   (exact rationals)
  wrapper P rain maxgap eps [secs] [vals]                -> `ok hstart [h0,...]` | `err <guard>`
  wrapperidx P rain maxgap eps unit [raw] [utcoffset] [vals] -> `ok hstart [h0,...] [wallsecs]` (index as stored)
  scan hstart [secs]                                     -> index of `varindex` after the start scan | `none`
-/

def optF (x : Float) : Option Float := if x.isNaN then none else some x

def errName : Err → String
  | .badRainfall => "badRainfall"
  | .badPeriod => "badPeriod"
  | .startBeforeData => "startBeforeData"
  | .decreasing => "decreasing"
  | .emptyWalk => "emptyWalk"
  | .noInterval => "noInterval"
  | .badMaxgap => "badMaxgap"
  | .tooShort => "tooShort"

def fmtOF : Option Float → String
  | none => "nan"
  | some x => hexOfFloat x

def fmtOQ : Option Rat → String
  | none => "nan"
  | some x => fmtRat x

def ratOptTok? (s : String) : Option (Option Rat) :=
  if s = "nan" then some none else (ratTok? s).map some

def parseRatOptList? (s : String) : Option (List (Option Rat)) := allSome ((listToks s).map ratOptTok?)

def unitTok? : String → Option TUnit
  | "s" => some .s
  | "ms" => some .ms
  | "us" => some .us
  | "ns" => some .ns
  | _ => none

def mkObs {α : Type} (secs : List Int) (vals : List (Option α)) : List (Obs α) := secs.zip vals

def handle (toks : List String) : String :=
  match toks with
  | ["kernel", p, rain, mg, eps, hs, nh, secs, vals] =>
    match p.toInt?, rain.toInt?, mg.toInt?, floatTok? eps, hs.toInt?, nh.toInt?, parseIntList? secs, parseFloatList? vals with
    | some p, some rain, some mg, some eps, some hs, some nh, some secs, some vals =>
      if secs.length ≠ vals.length then "bad-op" else
      match kernel (α := Float) ⟨p, rain, mg, eps⟩ hs nh (mkObs secs (vals.map optF)) with
      | .ok r => "ok " ++ fmtList (r.map fmtOF)
      | .error e => "err " ++ errName e
    | _, _, _, _, _, _, _, _ => "bad-op"
  | ["kernelq", p, rain, mg, eps, hs, nh, secs, vals] =>
    match p.toInt?, rain.toInt?, mg.toInt?, ratTok? eps, hs.toInt?, nh.toInt?, parseIntList? secs, parseRatOptList? vals with
    | some p, some rain, some mg, some eps, some hs, some nh, some secs, some vals =>
      if secs.length ≠ vals.length then "bad-op" else
      match kernel (α := Rat) ⟨p, rain, mg, eps⟩ hs nh (mkObs secs vals) with
      | .ok r => "ok " ++ fmtList (r.map fmtOQ)
      | .error e => "err " ++ errName e
    | _, _, _, _, _, _, _, _ => "bad-op"
  | ["wrapper", p, rain, mg, eps, secs, vals] =>
    match p.toInt?, rain.toInt?, mg.toInt?, floatTok? eps, parseIntList? secs, parseFloatList? vals with
    | some p, some rain, some mg, some eps, some secs, some vals =>
      if secs.length ≠ vals.length then "bad-op" else
      match wrapper (α := Float) ⟨p, rain, mg, eps⟩ (mkObs secs (vals.map optF)) with
      | .ok (hs, r) => s!"ok {hs} " ++ fmtList (r.map fmtOF)
      | .error e => "err " ++ errName e
    | _, _, _, _, _, _ => "bad-op"
  | ["wrapperidx", p, rain, mg, eps, unit, raws, offs, vals] =>
    match p.toInt?, rain.toInt?, mg.toInt?, floatTok? eps, unitTok? unit, parseIntList? raws, parseIntList? offs,
        parseFloatList? vals with
    | some p, some rain, some mg, some eps, some u, some raws, some offs, some vals =>
      if raws.length ≠ vals.length ∨ raws.length ≠ offs.length then "bad-op" else
      let stamps : List (Stamp Float) := (raws.zip (offs.zip (vals.map optF)))
      let secs := (obsOfIndex u stamps).map (·.1)
      match wrapperIdx (α := Float) ⟨p, rain, mg, eps⟩ u stamps with
      | .ok (hs, r) => s!"ok {hs} " ++ fmtList (r.map fmtOF) ++ " " ++ fmtIntList secs
      | .error e => "err " ++ errName e ++ " " ++ fmtIntList secs
    | _, _, _, _, _, _, _, _ => "bad-op"
  | ["scan", hs, secs] =>
    match hs.toInt?, parseIntList? secs with
    | some hs, some secs =>
      match startScan (α := Float) hs (mkObs secs (secs.map fun _ => none)) with
      | none => "none"
      | some suf => toString (secs.length - (suf.2.length + 1))
    | _, _ => "bad-op"
  | _ => "bad-op"

def main : IO Unit := serve handle
