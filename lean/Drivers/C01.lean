/-
C01 / C02 driver: runs the transform model at `Float` and, in parallel, at the error-tracking pair type
`EF` (value + first-order bound on how far an implementation that differs only in the last bits of its
transcendental functions / rounding of each operation can be from the model value: the "condition
estimate" that scales the correspondence tolerance).

request : `<op> <Class> [params] [xs] (<censor>)`      op ∈ fwd | bwd | jac | cens
          Softmax: `<op> Softmax [] [row;row;…]`
reply   : `ok [state] [values] [bounds]`  |  `err <name>`  |  `bad-op`
          (`state` = inner BoxCox2 `nu,lam` after the call for the delegating classes, `[]` otherwise)

history : `hist <Class> <mininu> <minilam> <base|nan> <op> <op> …` runs `mkObj` then `TObj.run` (Model/C01Obj) on the
          operations  `sa:k:v` (t.k = v)  `si:k:v` (t[k] = v)  `sp:k:v` (t.params[k] = v)  `sc:k:v` (t.constants[k] = v)
          `pv:[…]` (t.params.values = …)  `cv:[…]`  `rs` (t.reset())  `f:[xs]` `b:[ys]` `j:[xs]` `c:censor:[ys]`
reply   : `ok <r> <r> …`, one token per operation: `d;S` accepted · `r:<err>;S` rejected · `e:<err>;S` the call raised ·
          `v;S;[values];[bounds]` — `S = [p];[c];[i];[g]` = parameter, constant and inner-BoxCox2 values AFTER the
          operation and `t[k]` (`TObj.getItem`) for every parameter / constant name (the first token is the freshly
          constructed object, the last one `R;S;n` the end state of `TObj.run` on the whole list); `ctor-err <name>`
          when the constructor rejects
getkw   : `getkw <Class> <mininu> <minilam> <base|nan> k:v k:v …` = `getTransform` → `ok S` | `ctor-err <name>`
-/
import HydroVerif.Proto
import HydroVerif.Model.C01
import HydroVerif.Model.C01Obj
open HydroVerif HydroVerif.C01

/-- value and absolute error bound -/
structure EF where
  v : Float
  e : Float

namespace EF
/-- unit roundoff budget per arithmetic operation -/
def u : Float := 2.3e-16
/-- relative budget per transcendental call (numpy's SIMD loops vs libm) -/
def tolT : Float := 1e-13
def ofF (x : Float) : EF := ⟨x, 0.0⟩
def mk' (v e : Float) : EF := ⟨v, e + u * v.abs⟩
def safeDiv (a b : Float) : Float := if b > 0.0 then a / b else (1.0 / 0.0)

instance : Add EF := ⟨fun a b => mk' (a.v + b.v) (a.e + b.e)⟩
instance : Sub EF := ⟨fun a b => mk' (a.v - b.v) (a.e + b.e)⟩
instance : Neg EF := ⟨fun a => ⟨-a.v, a.e⟩⟩
instance : Mul EF := ⟨fun a b => mk' (a.v * b.v) (a.v.abs * b.e + b.v.abs * a.e + a.e * b.e)⟩
instance : Div EF := ⟨fun a b =>
  let v := a.v / b.v
  mk' v (if a.e == 0.0 && b.e == 0.0 then 0.0 else safeDiv (a.e + v.abs * b.e) (b.v.abs - b.e))⟩
instance : LT EF := ⟨fun a b => a.v < b.v⟩
instance : LE EF := ⟨fun a b => a.v ≤ b.v⟩
instance : DecidableLT EF := fun a b => inferInstanceAs (Decidable (a.v < b.v))
instance : DecidableLE EF := fun a b => inferInstanceAs (Decidable (a.v ≤ b.v))
instance (n : Nat) : OfNat EF n := ⟨ofF n.toFloat⟩
instance : OfScientific EF := ⟨fun m s e => ofF (OfScientific.ofScientific m s e)⟩
instance : NanTest EF := ⟨fun a => a.v.isNaN⟩

def tr (v e : Float) : EF := ⟨v, e + tolT * v.abs⟩

instance : Transc EF where
  exp a := let v := Float.exp a.v; tr v (v * a.e)
  log a := let v := Float.log a.v; tr v (if a.e == 0.0 then 0.0 else safeDiv a.e (a.v.abs - a.e))
  sqrt a := let v := Float.sqrt a.v; mk' v (if a.e == 0.0 then 0.0 else safeDiv a.e (2.0 * v))
  sinh a := let v := Float.sinh a.v; tr v (Float.cosh a.v * a.e)
  cosh a := let v := Float.cosh a.v; tr v ((Float.sinh a.v).abs * a.e)
  tanh a := let v := Float.tanh a.v; tr v ((1.0 - v * v).abs * a.e + u)
  asinh a := let v := Float.asinh a.v; tr v (a.e / Float.sqrt (1.0 + a.v * a.v))
  pow a b :=
    let v := Float.pow a.v b.v
    let ea := if a.e == 0.0 then 0.0 else safeDiv (b.v.abs * a.e) (a.v.abs - a.e)
    let eb := if b.e == 0.0 then 0.0 else (Float.log a.v).abs * b.e
    tr v (v.abs * (ea + eb))
end EF

section
variable {α : Type} [Add α] [Sub α] [Mul α] [Div α] [Neg α] [LT α] [DecidableLT α] [LE α] [DecidableLE α]
  [OfNat α 0] [OfNat α 1] [OfNat α 2] [OfScientific α] [Transc α] [NanTest α]

def errName : Err → String
  | .nuUnset => "nuUnset" | .lamUnset => "lamUnset" | .xmaxUnset => "xmaxUnset"
  | .negative => "negative" | .sumGe1 => "sumGe1" | .ndimGt2 => "ndimGt2" | .unknownName => "unknownName"

/-- what one request evaluates to: new inner state and one `Option α` per input -/
abbrev Out (α : Type) := Except String (List α × List (Option α))

/-- how `backward_censored` is evaluated at the carrier: the model's own definitions at `Float`
(`useModel = true`: `backwardCensored`, `State.censoredArr`); at `EF` the same values with the bound of a continuous
`max` (the larger of the two operands' bounds, whichever is selected) -/
class Cens (α : Type) where
  useModel : Bool
  cens : (α → Option α) → (α → Option α) → α → α → Option α

variable [Cens α]

/-- a class without object state: the method on the array is `onArray` of the model -/
def stateless (op : String) (f b j : α → Option α) (censor : Option α) (xs : List α) : Out α :=
  match op, censor with
  | "fwd", _ => .ok ([], onArray f xs)
  | "bwd", _ => .ok ([], onArray b xs)
  | "jac", _ => .ok ([], onArray j xs)
  | "cens", some c =>
    if Cens.useModel α then .ok ([], onArray (fun y => backwardCensored f b y c) xs)
    else .ok ([], onArray (fun y => Cens.cens f b y c) xs)
  | _, _ => .error "bad-op"

def ofBC (r : Except Err (BoxCox2.Params α × List (Option α))) : Out α :=
  match r with
  | .ok (bc, vs) => .ok ([bc.nu, bc.lam], vs)
  | .error e => .error (errName e)

def ofPlain (r : Except Err (List (Option α))) : Out α :=
  match r with
  | .ok vs => .ok ([], vs)
  | .error e => .error (errName e)

def run (op cls : String) (ps : List (Option α)) (censor : Option α) (xs : List α) : Out α :=
  match cls, ps with
  | "Identity", [] =>
    let p : Identity.Params α := {}
    stateless op (Identity.forward p) (Identity.backward p) (Identity.jacobian p) censor xs
  | "Logit", [some lower, some logdelta] =>
    let p : Logit.Params α := ⟨lower, logdelta⟩
    stateless op (Logit.forward p) (Logit.backward p) (Logit.jacobian p) censor xs
  | "Log", [some nu, base, some mininu] =>
    let p : Log.Params α := ⟨nu, base, mininu⟩
    stateless op (Log.forward p) (Log.backward p) (Log.jacobian p) censor xs
  | "BoxCox2", [some nu, some lam, some mininu] =>
    let p : BoxCox2.Params α := ⟨nu, lam, mininu⟩
    stateless op (BoxCox2.forward p) (BoxCox2.backward p) (BoxCox2.jacobian p) censor xs
  | "BoxCox1lam", [some lam, nu, some mininu, some bnu, some blam] =>
    let s : BoxCox1lam.State α := ⟨lam, nu, ⟨bnu, blam, mininu⟩⟩
    let fin := fun (r : Except Err (BoxCox1lam.State α × List (Option α))) => ofBC (r.map fun (s', vs) => (s'.bc, vs))
    match op, censor with
    | "fwd", _ => fin (BoxCox1lam.State.forwardArr s xs)
    | "bwd", _ => fin (BoxCox1lam.State.backwardArr s xs)
    | "jac", _ => fin (BoxCox1lam.State.jacobianArr s xs)
    | "cens", some c =>
      if Cens.useModel α then fin (BoxCox1lam.State.censoredArr s xs c)
      else fin ((BoxCox1lam.State.sync s).map fun s' =>
        (s', onArray (fun y => Cens.cens (BoxCox2.forward s'.bc) (BoxCox2.backward s'.bc) y c) xs))
    | _, _ => .error "bad-op"
  | "BoxCox1nu", [some nu, lam, some mininu, some bnu, some blam] =>
    let s : BoxCox1nu.State α := ⟨nu, lam, ⟨bnu, blam, mininu⟩⟩
    let fin := fun (r : Except Err (BoxCox1nu.State α × List (Option α))) => ofBC (r.map fun (s', vs) => (s'.bc, vs))
    match op, censor with
    | "fwd", _ => fin (BoxCox1nu.State.forwardArr s xs)
    | "bwd", _ => fin (BoxCox1nu.State.backwardArr s xs)
    | "jac", _ => fin (BoxCox1nu.State.jacobianArr s xs)
    | "cens", some c =>
      if Cens.useModel α then fin (BoxCox1nu.State.censoredArr s xs c)
      else fin ((BoxCox1nu.State.sync s).map fun s' =>
        (s', onArray (fun y => Cens.cens (BoxCox2.forward s'.bc) (BoxCox2.backward s'.bc) y c) xs))
    | _, _ => .error "bad-op"
  | "BoxCox2sym", [some nu, some lam, some mininu, some bnu, some blam] =>
    let s : BoxCox2sym.State α := ⟨nu, lam, ⟨bnu, blam, mininu⟩⟩
    let fin := fun (r : BoxCox2sym.State α × List (Option α)) => (.ok ([r.1.bc.nu, r.1.bc.lam], r.2) : Out α)
    match op, censor with
    | "fwd", _ => fin (BoxCox2sym.State.forwardArr s xs)
    | "bwd", _ => fin (BoxCox2sym.State.backwardArr s xs)
    | "jac", _ => fin (BoxCox2sym.State.jacobianArr s xs)
    | "cens", some c =>
      if Cens.useModel α then fin (BoxCox2sym.State.censoredArr s xs c)
      else
        let s' := BoxCox2sym.State.sync s
        let p := BoxCox2sym.State.params s'
        fin (s', onArray (fun y => Cens.cens (BoxCox2sym.forward p) (BoxCox2sym.backward p) y c) xs)
    | _, _ => .error "bad-op"
  | "YeoJohnson", [some nu, some scale, some lam] =>
    let p : YeoJohnson.Params α := ⟨nu, scale, lam⟩
    stateless op (YeoJohnson.forward p) (YeoJohnson.backward p) (YeoJohnson.jacobian p) censor xs
  | "LogSinh", [some loga, some logb, xmax] =>
    let s : LogSinh.State α := ⟨loga, logb, xmax⟩
    match op, censor with
    | "fwd", _ => ofPlain (LogSinh.State.forwardArr s xs)
    | "bwd", _ => ofPlain (LogSinh.State.backwardArr s xs)
    | "jac", _ => ofPlain (LogSinh.State.jacobianArr s xs)
    | "cens", some c =>
      if Cens.useModel α then ofPlain (LogSinh.State.censoredArr s xs c)
      else ofPlain ((LogSinh.State.params s).map fun p =>
        onArray (fun y => Cens.cens (LogSinh.forward p) (LogSinh.backward p) y c) xs)
    | _, _ => .error "bad-op"
  | "Reciprocal", [some nu, some mininu] =>
    let p : Reciprocal.Params α := ⟨nu, mininu⟩
    stateless op (Reciprocal.forward p) (Reciprocal.backward p) (Reciprocal.jacobian p) censor xs
  | "Sinh", [some nu, some scale] =>
    let p : Sinh.Params α := ⟨nu, scale⟩
    stateless op (Sinh.forward p) (Sinh.backward p) (Sinh.jacobian p) censor xs
  | "Manly", [some lam, xmax] =>
    let s : Manly.State α := ⟨lam, xmax⟩
    match op, censor with
    | "fwd", _ => ofPlain (Manly.State.forwardArr s xs)
    | "bwd", _ => ofPlain (Manly.State.backwardArr s xs)
    | "jac", _ => ofPlain (Manly.State.jacobianArr s xs)
    | "cens", some c =>
      if Cens.useModel α then ofPlain (Manly.State.censoredArr s xs c)
      else ofPlain ((Manly.State.params s).map fun p =>
        onArray (fun y => Cens.cens (Manly.forward p) (Manly.backward p) y c) xs)
    | _, _ => .error "bad-op"
  | _, _ => .error "bad-op"

/-- Softmax on an array of `ndim` dimensions with the given rows (jacobian: one value per row, returned as a
one-column matrix); a 1-D input (`ndim = 1`, one row) goes through the row-level functions of the model -/
def runSoftmax (op : String) (ndim : Nat) (rows : List (List α)) : Except String (List (List α)) :=
  let lift := fun {β : Type} (r : Except Err β) (k : β → List (List α)) => match r with
    | .ok v => (.ok (k v) : Except String (List (List α)))
    | .error e => .error (errName e)
  match ndim, rows, op with
  | 1, [row], "fwd" => lift (Softmax.forward row) fun r => [r]
  | 1, [row], "bwd" => lift (Softmax.backward row) fun r => [r]
  | 1, [row], "jac" => lift (Softmax.jacobian row) fun v => [[v]]
  | _, _, "fwd" => lift (Softmax.forwardND ndim rows) id
  | _, _, "bwd" => lift (Softmax.backwardND ndim rows) id
  | _, _, "jac" => lift (Softmax.jacobianND ndim rows) fun r => r.map fun v => [v]
  | _, _, _ => .error "bad-op"
end

instance : Cens Float := ⟨true, fun f b y c => backwardCensored f b y c⟩

/-- maximum of two bounds; an undefined bound (NaN) means "no bound" -/
def fmax (a b : Float) : Float := if a.isNaN || b.isNaN then (1.0 / 0.0) else if a < b then b else a

instance : Cens EF := ⟨false, fun f b y c =>
  let te : Float := match f c with
    | some t => if t.v.isNaN then 0.0 else t.e
    | none => 0.0
  let yc : EF := match f c with
    | none => y
    | some t => if t.v.isNaN then y else maxv y t
  let ye : Float := fmax yc.e te
  let yc' : EF := ⟨yc.v, ye⟩
  (b yc').map fun (r : EF) =>
    -- `backward` may branch on its argument (sign, `y >= EPS`): probe both ends of the argument's error interval
    let probe (d : Float) : Float := match b ⟨yc.v + d, 0.0⟩ with
      | some r' => if r'.v.isNaN then 0.0 else (r'.v - r.v).abs + r'.e
      | none => 0.0
    let p1 : Float := probe ye
    let p2 : Float := probe (-ye)
    let re : Float := fmax (fmax r.e p1) p2
    let m : EF := maxv r c
    ⟨m.v, fmax m.e re⟩⟩

def optF (x : Float) : Option Float := if x.isNaN then none else some x
def optEF (x : Float) : Option EF := if x.isNaN then none else some (EF.ofF x)

def fmtVals (l : List (Option Float)) : String := fmtList (l.map fmtOptFloat)

def fmtMatF (rows : List (List Float)) : String :=
  "[" ++ ";".intercalate (rows.map fun r => ",".intercalate (r.map hexOfFloat)) ++ "]"

def handleScalar (op cls ps xs : String) (censor : Option String) : String :=
  match parseFloatList? ps, parseFloatList? xs, (censor.map floatTok?) with
  | some ps, some xs, c =>
    let c : Option Float := c.join
    if censor.isSome && c.isNone then "bad-op" else
    let rF : Out Float := run op cls (ps.map optF) c xs
    let rE : Out EF := run op cls (ps.map optEF) (c.map EF.ofF) (xs.map EF.ofF)
    match rF, rE with
    | .ok (st, vs), .ok (_, es) =>
      let bounds := es.map fun o => match o with
        | none => 0.0
        | some (e : EF) => e.e
      let same := (vs.zip es).all fun (a, b) => match a, b with
        | none, none => true
        | some a, some b => hexOfFloat a == hexOfFloat b.v
        | _, _ => false
      if same then s!"ok {fmtFloatList st} {fmtVals vs} {fmtFloatList bounds}" else "err ef-mismatch"
    | .error e, _ => if e == "bad-op" then e else "err " ++ e
    | _, .error e => "err " ++ e
  | _, _, _ => "bad-op"

def handleSoftmax (op nd rows : String) : String :=
  let ndim : Nat := if nd == "[]" then 2 else ((nd.drop 2).toString.toNat?).getD 2
  match parseFloatMat? rows with
  | some rows =>
    let rF := runSoftmax (α := Float) op ndim rows
    let rE := runSoftmax (α := EF) op ndim (rows.map fun r => r.map EF.ofF)
    match rF, rE with
    | .ok vs, .ok es => s!"ok [] {fmtMatF vs} {fmtMatF (es.map fun r => r.map (·.e))}"
    | .error e, _ => if e == "bad-op" then e else "err " ++ e
    | _, .error e => "err " ++ e
  | none => "bad-op"

/-! ### histories on the object model (Model/C01Obj) -/

def setErrName : SetErr → String
  | .nanValue => "nanValue" | .badLength => "badLength" | .unknownKey => "unknownKey" | .badCtor => "badCtor"

def optTok? (s : String) : Option (Option Float) := (floatTok? s).map optF
def optList? (s : String) : Option (List (Option Float)) := (parseFloatList? s).map fun l => l.map optF

/-- one operation token -/
def parseOp? (tok : String) : Option (TOp Float) :=
  match tok.splitOn ":" with
  | ["sa", k, v] => (optTok? v).map (TOp.setAttr k)
  | ["si", k, v] => (optTok? v).map (TOp.setItem k)
  | ["sp", k, v] => (optTok? v).map (TOp.setPItem k)
  | ["sc", k, v] => (optTok? v).map (TOp.setCItem k)
  | ["pv", l] => (optList? l).map TOp.setPValues
  | ["cv", l] => (optList? l).map TOp.setCValues
  | ["rs"] => some TOp.reset
  | ["f", l] => (parseFloatList? l).map (TOp.call .fwd 0.0)
  | ["b", l] => (parseFloatList? l).map (TOp.call .bwd 0.0)
  | ["j", l] => (parseFloatList? l).map (TOp.call .jac 0.0)
  | ["c", c, l] => match floatTok? c, parseFloatList? l with
    | some c, some l => some (TOp.call .cens c l)
    | _, _ => none
  | _ => none

def opToEF : TOp Float → TOp EF
  | .setAttr k v => .setAttr k (v.map EF.ofF)
  | .setItem k v => .setItem k (v.map EF.ofF)
  | .setPItem k v => .setPItem k (v.map EF.ofF)
  | .setCItem k v => .setCItem k (v.map EF.ofF)
  | .setPValues vs => .setPValues (vs.map fun v => v.map EF.ofF)
  | .setCValues vs => .setCValues (vs.map fun v => v.map EF.ofF)
  | .reset => .reset
  | .call m c xs => .call m (EF.ofF c) (xs.map EF.ofF)

/-- parameter, constant and inner values, then `t[k]` (`TObj.getItem`) for every parameter and constant name -/
def fmtState (o : TObj Float) : String :=
  let reads := (o.pspec.names ++ o.cspec.names).map fun k => match o.getItem k with
    | .ok v => fmtOptFloat v
    | .error e => setErrName e
  s!"{fmtVals o.pvals};{fmtVals o.cvals};{fmtVals o.ivals};{fmtList reads}"

def sameVals (a : List (Option Float)) (b : List (Option EF)) : Bool :=
  a.length == b.length && (a.zip b).all fun (x, y) => match x, y with
    | none, none => true
    | some x, some y => hexOfFloat x == hexOfFloat y.v
    | _, _ => false

/-- the history at `Float` (values, states) and at `EF` (bounds), operation by operation -/
def histLoop : TObj Float → TObj EF → List (TOp Float) → List String → List String
  | _, _, [], acc => acc.reverse
  | o, oe, op :: ops, acc =>
    let (o1, r) := o.step op
    let (oe1, re) := oe.stepWith Cens.cens (opToEF op)
    let st := fmtState o1
    let same := sameVals o1.pvals oe1.pvals && sameVals o1.cvals oe1.cvals && sameVals o1.ivals oe1.ivals
    let tok := if !same then "ef-mismatch" else match r, re with
      | .done, .done => s!"d;{st}"
      | .rejected e, .rejected _ => s!"r:{setErrName e};{st}"
      | .raised e, .raised _ => s!"e:{errName e};{st}"
      | .values vs, .values es =>
        if sameVals vs es then
          let bounds := es.map fun o => match o with
            | none => 0.0
            | some (e : EF) => e.e
          s!"v;{st};{fmtVals vs};{fmtFloatList bounds}"
        else "ef-mismatch"
      | _, _ => "ef-mismatch"
    histLoop o1 oe1 ops (tok :: acc)

def handleHist (cls mininu minilam base : String) (ops : List String) : String :=
  match Cls.ofName? cls, floatTok? mininu, floatTok? minilam, floatTok? base, allSome (ops.map parseOp?) with
  | some c, some mn, some ml, some b, some ops =>
    match mkObj c mn ml (optF b), mkObj c (EF.ofF mn) (EF.ofF ml) (optEF b) with
    | .ok o, .ok oe =>
      -- `TObj.run` (the whole history at once) must end where the step-by-step loop ends
      let fin := TObj.run o ops
      "ok " ++ " ".intercalate (s!"d;{fmtState o}" :: histLoop o oe ops [] ++ [s!"R;{fmtState fin.1};{fin.2.length}"])
    | .error e, _ => "ctor-err " ++ setErrName e
    | _, .error e => "ctor-err " ++ setErrName e
  | _, _, _, _, _ => "bad-op"

def parseKw? (tok : String) : Option (String × Option Float) :=
  match tok.splitOn ":" with
  | [k, v] => (optTok? v).map fun v => (k, v)
  | _ => none

def handleGetKw (cls mininu minilam base : String) (kws : List String) : String :=
  match floatTok? mininu, floatTok? minilam, floatTok? base, allSome (kws.map parseKw?) with
  | some mn, some ml, some b, some kws =>
    match getTransform cls mn ml (optF b) kws with
    | .ok o => "ok " ++ fmtState o
    | .error e => "ctor-err " ++ setErrName e
  | _, _, _, _ => "bad-op"

def handle (toks : List String) : String :=
  match toks with
  | "hist" :: cls :: mininu :: minilam :: base :: ops => handleHist cls mininu minilam base ops
  | "getkw" :: cls :: mininu :: minilam :: base :: kws => handleGetKw cls mininu minilam base kws
  | [op, "Softmax", nd, rows] => handleSoftmax op nd rows
  | ["lookup", name] => (match lookupClass name with
    | .ok c => s!"ok {fmtList c.ctorArgs} {fmtList c.params} {fmtList c.constants}"
    | .error e => "err " ++ errName e)
  | ["route", name, key] => (match lookupClass name with
    | .ok c => (match route c key with
      | .ctor => "ctor" | .param => "param" | .const => "const" | .ignored => "ignored")
    | .error e => "err " ++ errName e)
  | ["catalogue"] => fmtList (catalogue.map (·.name))
  | [op, cls, ps, xs] => handleScalar op cls ps xs none
  | ["cens", cls, ps, xs, c] => handleScalar "cens" cls ps xs (some c)
  | _ => "bad-op"

def main : IO Unit := serve handle
