/-
C01 / C02 driver: runs the transform model at `Float` and, in parallel, at the error-tracking pair type
`EF` (value + first-order bound on how far an implementation that differs only in the last bits of its
transcendental functions / rounding of each operation can be from the model value: the "condition
estimate" that scales the correspondence tolerance).

request : `<op> <Class> [params] [xs] (<censor>)`      op ∈ fwd | bwd | jac | cens
          Softmax: `<op> Softmax [] [row;row;…]`
reply   : `ok [state] [values] [bounds]`  |  `err <name>`  |  `bad-op`
          (`state` = inner BoxCox2 `nu,lam` after the call for the delegating classes, `[]` otherwise)
-/
import HydroVerif.Proto
import HydroVerif.Model.C01
open HydroVerif HydroVerif.C01

/-- value and absolute error bound -/
structure EF where
  v : Float
  e : Float

namespace EF
/-- unit roundoff budget per arithmetic operation -/
def u : Float := 2.3e-16
/-- relative budget per transcendental call (numpy's SIMD loops vs libm) -/
def tolT : Float := 1e-13
def ofF (x : Float) : EF := ⟨x, 0.0⟩
def mk' (v e : Float) : EF := ⟨v, e + u * v.abs⟩
def safeDiv (a b : Float) : Float := if b > 0.0 then a / b else (1.0 / 0.0)

instance : Add EF := ⟨fun a b => mk' (a.v + b.v) (a.e + b.e)⟩
instance : Sub EF := ⟨fun a b => mk' (a.v - b.v) (a.e + b.e)⟩
instance : Neg EF := ⟨fun a => ⟨-a.v, a.e⟩⟩
instance : Mul EF := ⟨fun a b => mk' (a.v * b.v) (a.v.abs * b.e + b.v.abs * a.e + a.e * b.e)⟩
instance : Div EF := ⟨fun a b =>
  let v := a.v / b.v
  mk' v (if a.e == 0.0 && b.e == 0.0 then 0.0 else safeDiv (a.e + v.abs * b.e) (b.v.abs - b.e))⟩
instance : LT EF := ⟨fun a b => a.v < b.v⟩
instance : LE EF := ⟨fun a b => a.v ≤ b.v⟩
instance : DecidableLT EF := fun a b => inferInstanceAs (Decidable (a.v < b.v))
instance : DecidableLE EF := fun a b => inferInstanceAs (Decidable (a.v ≤ b.v))
instance (n : Nat) : OfNat EF n := ⟨ofF n.toFloat⟩
instance : OfScientific EF := ⟨fun m s e => ofF (OfScientific.ofScientific m s e)⟩
instance : NanTest EF := ⟨fun a => a.v.isNaN⟩

def tr (v e : Float) : EF := ⟨v, e + tolT * v.abs⟩

instance : Transc EF where
  exp a := let v := Float.exp a.v; tr v (v * a.e)
  log a := let v := Float.log a.v; tr v (if a.e == 0.0 then 0.0 else safeDiv a.e (a.v.abs - a.e))
  sqrt a := let v := Float.sqrt a.v; mk' v (if a.e == 0.0 then 0.0 else safeDiv a.e (2.0 * v))
  sinh a := let v := Float.sinh a.v; tr v (Float.cosh a.v * a.e)
  cosh a := let v := Float.cosh a.v; tr v ((Float.sinh a.v).abs * a.e)
  tanh a := let v := Float.tanh a.v; tr v ((1.0 - v * v).abs * a.e + u)
  asinh a := let v := Float.asinh a.v; tr v (a.e / Float.sqrt (1.0 + a.v * a.v))
  pow a b :=
    let v := Float.pow a.v b.v
    let ea := if a.e == 0.0 then 0.0 else safeDiv (b.v.abs * a.e) (a.v.abs - a.e)
    let eb := if b.e == 0.0 then 0.0 else (Float.log a.v).abs * b.e
    tr v (v.abs * (ea + eb))
end EF

section
variable {α : Type} [Add α] [Sub α] [Mul α] [Div α] [Neg α] [LT α] [DecidableLT α] [LE α] [DecidableLE α]
  [OfNat α 0] [OfNat α 1] [OfNat α 2] [OfScientific α] [Transc α] [NanTest α]

def errName : Err → String
  | .nuUnset => "nuUnset" | .lamUnset => "lamUnset" | .xmaxUnset => "xmaxUnset"
  | .negative => "negative" | .sumGe1 => "sumGe1"

/-- what one request evaluates to: new inner state and one `Option α` per input -/
abbrev Out (α : Type) := Except String (List α × List (Option α))

/-- how `backward_censored` is evaluated at the carrier: the model's definition at `Float`; at `EF` the same
values with the bound of a continuous `max` (the larger of the two operands' bounds, whichever is selected) -/
class Cens (α : Type) where
  cens : (α → Option α) → (α → Option α) → α → α → Option α

def pick [Cens α] (op : String) (f b j : α → Option α) (censor : Option α) : Option (α → Option α) :=
  match op, censor with
  | "fwd", _ => some f
  | "bwd", _ => some b
  | "jac", _ => some j
  | "cens", some c => some fun y => Cens.cens f b y c
  | _, _ => none

variable [Cens α]

def stateless (op : String) (f b j : α → Option α) (censor : Option α) (xs : List α) : Out α :=
  match pick op f b j censor with
  | some g => .ok ([], xs.map g)
  | none => .error "bad-op"

def withBC (op : String) (bc : BoxCox2.Params α) (f b j : α → Option α) (censor : Option α) (xs : List α) : Out α :=
  match pick op f b j censor with
  | some g => .ok ([bc.nu, bc.lam], xs.map g)
  | none => .error "bad-op"

def run (op cls : String) (ps : List (Option α)) (censor : Option α) (xs : List α) : Out α :=
  match cls, ps with
  | "Identity", [] =>
    let p : Identity.Params α := {}
    stateless op (Identity.forward p) (Identity.backward p) (Identity.jacobian p) censor xs
  | "Logit", [some lower, some logdelta] =>
    let p : Logit.Params α := ⟨lower, logdelta⟩
    stateless op (Logit.forward p) (Logit.backward p) (Logit.jacobian p) censor xs
  | "Log", [some nu, base, some mininu] =>
    let p : Log.Params α := ⟨nu, base, mininu⟩
    stateless op (Log.forward p) (Log.backward p) (Log.jacobian p) censor xs
  | "BoxCox2", [some nu, some lam, some mininu] =>
    let p : BoxCox2.Params α := ⟨nu, lam, mininu⟩
    stateless op (BoxCox2.forward p) (BoxCox2.backward p) (BoxCox2.jacobian p) censor xs
  | "BoxCox1lam", [some lam, nu, some mininu, some bnu, some blam] =>
    let s : BoxCox1lam.State α := ⟨lam, nu, ⟨bnu, blam, mininu⟩⟩
    match BoxCox1lam.State.sync s with
    | .error e => .error (errName e)
    | .ok s' => withBC op s'.bc (BoxCox2.forward s'.bc) (BoxCox2.backward s'.bc) (BoxCox2.jacobian s'.bc) censor xs
  | "BoxCox1nu", [some nu, lam, some mininu, some bnu, some blam] =>
    let s : BoxCox1nu.State α := ⟨nu, lam, ⟨bnu, blam, mininu⟩⟩
    match BoxCox1nu.State.sync s with
    | .error e => .error (errName e)
    | .ok s' => withBC op s'.bc (BoxCox2.forward s'.bc) (BoxCox2.backward s'.bc) (BoxCox2.jacobian s'.bc) censor xs
  | "BoxCox2sym", [some nu, some lam, some mininu, some bnu, some blam] =>
    let s : BoxCox2sym.State α := ⟨nu, lam, ⟨bnu, blam, mininu⟩⟩
    let s' := BoxCox2sym.State.sync s
    let p := BoxCox2sym.State.params s'
    withBC op s'.bc (BoxCox2sym.forward p) (BoxCox2sym.backward p) (BoxCox2sym.jacobian p) censor xs
  | "YeoJohnson", [some nu, some scale, some lam] =>
    let p : YeoJohnson.Params α := ⟨nu, scale, lam⟩
    stateless op (YeoJohnson.forward p) (YeoJohnson.backward p) (YeoJohnson.jacobian p) censor xs
  | "LogSinh", [some loga, some logb, xmax] =>
    match LogSinh.State.params (⟨loga, logb, xmax⟩ : LogSinh.State α) with
    | .error e => .error (errName e)
    | .ok p => stateless op (LogSinh.forward p) (LogSinh.backward p) (LogSinh.jacobian p) censor xs
  | "Reciprocal", [some nu, some mininu] =>
    let p : Reciprocal.Params α := ⟨nu, mininu⟩
    stateless op (Reciprocal.forward p) (Reciprocal.backward p) (Reciprocal.jacobian p) censor xs
  | "Sinh", [some nu, some scale] =>
    let p : Sinh.Params α := ⟨nu, scale⟩
    stateless op (Sinh.forward p) (Sinh.backward p) (Sinh.jacobian p) censor xs
  | "Manly", [some lam, xmax] =>
    match Manly.State.params (⟨lam, xmax⟩ : Manly.State α) with
    | .error e => .error (errName e)
    | .ok p => stateless op (Manly.forward p) (Manly.backward p) (Manly.jacobian p) censor xs
  | _, _ => .error "bad-op"

/-- Softmax on a 2-D array: rows of results (jacobian: one value per row, returned as a one-column matrix) -/
def runSoftmax (op : String) (rows : List (List α)) : Except String (List (List α)) :=
  match op with
  | "fwd" => match Softmax.forwardM rows with
    | .ok r => .ok r
    | .error e => .error (errName e)
  | "bwd" => match Softmax.backwardM rows with
    | .ok r => .ok r
    | .error e => .error (errName e)
  | "jac" => match Softmax.jacobianM rows with
    | .ok r => .ok (r.map fun v => [v])
    | .error e => .error (errName e)
  | _ => .error "bad-op"
end

instance : Cens Float := ⟨fun f b y c => backwardCensored f b y c⟩

/-- maximum of two bounds; an undefined bound (NaN) means "no bound" -/
def fmax (a b : Float) : Float := if a.isNaN || b.isNaN then (1.0 / 0.0) else if a < b then b else a

instance : Cens EF := ⟨fun f b y c =>
  let te : Float := match f c with
    | some t => if t.v.isNaN then 0.0 else t.e
    | none => 0.0
  let yc : EF := match f c with
    | none => y
    | some t => if t.v.isNaN then y else maxv y t
  let ye : Float := fmax yc.e te
  let yc' : EF := ⟨yc.v, ye⟩
  (b yc').map fun (r : EF) =>
    -- `backward` may branch on its argument (sign, `y >= EPS`): probe both ends of the argument's error interval
    let probe (d : Float) : Float := match b ⟨yc.v + d, 0.0⟩ with
      | some r' => if r'.v.isNaN then 0.0 else (r'.v - r.v).abs + r'.e
      | none => 0.0
    let p1 : Float := probe ye
    let p2 : Float := probe (-ye)
    let re : Float := fmax (fmax r.e p1) p2
    let m : EF := maxv r c
    ⟨m.v, fmax m.e re⟩⟩

def optF (x : Float) : Option Float := if x.isNaN then none else some x
def optEF (x : Float) : Option EF := if x.isNaN then none else some (EF.ofF x)

def fmtVals (l : List (Option Float)) : String := fmtList (l.map fmtOptFloat)

def fmtMatF (rows : List (List Float)) : String :=
  "[" ++ ";".intercalate (rows.map fun r => ",".intercalate (r.map hexOfFloat)) ++ "]"

def handleScalar (op cls ps xs : String) (censor : Option String) : String :=
  match parseFloatList? ps, parseFloatList? xs, (censor.map floatTok?) with
  | some ps, some xs, c =>
    let c : Option Float := c.join
    if censor.isSome && c.isNone then "bad-op" else
    let rF : Out Float := run op cls (ps.map optF) c xs
    let rE : Out EF := run op cls (ps.map optEF) (c.map EF.ofF) (xs.map EF.ofF)
    match rF, rE with
    | .ok (st, vs), .ok (_, es) =>
      let bounds := es.map fun o => match o with
        | none => 0.0
        | some (e : EF) => e.e
      let same := (vs.zip es).all fun (a, b) => match a, b with
        | none, none => true
        | some a, some b => hexOfFloat a == hexOfFloat b.v
        | _, _ => false
      if same then s!"ok {fmtFloatList st} {fmtVals vs} {fmtFloatList bounds}" else "err ef-mismatch"
    | .error e, _ => if e == "bad-op" then e else "err " ++ e
    | _, .error e => "err " ++ e
  | _, _, _ => "bad-op"

def handleSoftmax (op rows : String) : String :=
  match parseFloatMat? rows with
  | some rows =>
    let rF := runSoftmax (α := Float) op rows
    let rE := runSoftmax (α := EF) op (rows.map fun r => r.map EF.ofF)
    match rF, rE with
    | .ok vs, .ok es => s!"ok [] {fmtMatF vs} {fmtMatF (es.map fun r => r.map (·.e))}"
    | .error e, _ => if e == "bad-op" then e else "err " ++ e
    | _, .error e => "err " ++ e
  | none => "bad-op"

def handle (toks : List String) : String :=
  match toks with
  | [op, "Softmax", _, rows] => handleSoftmax op rows
  | [op, cls, ps, xs] => handleScalar op cls ps xs none
  | ["cens", cls, ps, xs, c] => handleScalar "cens" cls ps xs (some c)
  | _ => "bad-op"

def main : IO Unit := serve handle
