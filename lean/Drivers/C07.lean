import HydroVerif.Proto
import HydroVerif.Model.C07
import HydroVerif.Model.C07Kernel
import HydroVerif.Model.C07Round
import HydroVerif.Model.C07State
open HydroVerif HydroVerif.C07

/-
requests (floats as 16 hex digits, rationals as p/q):
  rowcol nrows ncols [cells]                    -> [r,c;r,c;...]
  getnxy ncols [cells]                          -> [col,row;...]   (raw helper, any sign; ncols=0 -> err:div0)
  nb nrows ncols [cells]                        -> ok:[9 ints] | err:badCell , separated by ';'
  c2c nrows ncols xll yll csz [cells]           -> [x,y;...]  (nan,nan for an invalid cell)
  xy2c nrows ncols xll yll csz [x,y;...]        -> [cells]   kernel as written (extent test on floored doubles, then casts)
  xy2c_cast ...                                 -> [cells]   cast-first form `C07.coord2cell` (imported by C05/C13/C16)
  quot nrows ncols xll yll csz [x,y;...]        -> [qx,qy;...] the two quotients the kernel floors
  xy2c_trunc ... (pinned variant, diagnostics)  -> [cells]
  xy2cQ nrows ncols xll yll csz [x,y;...]       -> [cells]   exact rationals
  c2cQ nrows ncols xll yll csz [cells]          -> [x,y;...] exact rationals (none for invalid)
  axes nrows ncols xll yll csz                  -> [xvalues] [yvalues] [xlim0,xlim1,ylim0,ylim1]
  xy2cR nrows ncols xll yll csz [x,y;...]       -> [cells]   exact rationals, every arithmetic result rounded by round53
  xy2cRid nrows ncols xll yll csz [x,y;...]     -> [cells]   Float, coord2cellR with the identity (= the kernel)
  c2cR nrows ncols xll yll csz [cells]          -> [x,y;...] exact rationals with round53 (none for invalid)
  round53 [rationals]                           -> [rationals]
  mk ncols nrows|- csz|- xll|- yll|-            -> ok nrows ncols xll yll csz | err:ValueError     (Grid.__init__)
  shape rc|cc|xy nrows ncols xll yll csz [shape] [flat data]  -> answer as rowcol / c2c / xy2c | err:ValueError
  hist nrows ncols xll yll csz op op ...        -> answers joined by '|', then 'G' + the final attributes; ops: sr:n sc:n sx:f sy:f sz:f cl rc:[..] cc:[..]
                                                   xy:[x,y;..] nb:n ax  (answer of a mutator / clone: '-')
-/

def fmtPairs (rows : List (String × String)) : String :=
  "[" ++ ";".intercalate (rows.map fun r => r.1 ++ "," ++ r.2) ++ "]"

def geomF? (nr nc xll yll csz : String) : Option (Geom Float) :=
  match nr.toInt?, nc.toInt?, floatTok? xll, floatTok? yll, floatTok? csz with
  | some nr, some nc, some xll, some yll, some csz => some ⟨nr, nc, xll, yll, csz⟩
  | _, _, _, _, _ => none

def geomQ? (nr nc xll yll csz : String) : Option (Geom Rat) :=
  match nr.toInt?, nc.toInt?, ratTok? xll, ratTok? yll, ratTok? csz with
  | some nr, some nc, some xll, some yll, some csz => some ⟨nr, nc, xll, yll, csz⟩
  | _, _, _, _, _ => none

def pairs? {β} (f : String → Option β) (s : String) : Option (List (β × β)) :=
  HydroVerif.allSome ((matToks s).map fun r =>
    match r with
    | [a, b] => match f a, f b with
      | some a, some b => some (a, b)
      | _, _ => none
    | _ => none)

def fmtCoordsF (rows : List (Option (Float × Float))) : String :=
  fmtPairs (rows.map fun r =>
    match r with
    | some (x, y) => (hexOfFloat x, hexOfFloat y)
    | none => ("nan", "nan"))

def fmtRowcol (rows : List (Int × Int)) : String := fmtPairs (rows.map fun rc => (toString rc.1, toString rc.2))

def fmtNb (r : Except Err (List Int)) : String :=
  match r with
  | .ok l => "ok:" ++ fmtIntList l
  | .error .badCell => "err:badCell"

def fmtAxes (xv yv : List (Option Float)) (xl yl : Float × Float) : String :=
  fmtList (xv.map fmtOptFloat) ++ " " ++ fmtList (yv.map fmtOptFloat) ++ " " ++ fmtFloatList [xl.1, xl.2, yl.1, yl.2]

def fmtAns : Ans Float → String
  | .unit => "-"
  | .rowcol l => fmtRowcol l
  | .coords l => fmtCoordsF l
  | .cells l => fmtIntList l
  | .nb r => fmtNb r
  | .axes xv yv xl yl => fmtAxes xv yv xl yl

/-- one operation token of a `hist` request -/
def opTok? (t : String) : Option (Op Float) :=
  match t.splitOn ":" with
  | ["cl"] => some .clone
  | ["ax"] => some .axes
  | ["sr", v] => v.toInt?.map .setNrows
  | ["sc", v] => v.toInt?.map .setNcols
  | ["sx", v] => (floatTok? v).map .setXll
  | ["sy", v] => (floatTok? v).map .setYll
  | ["sz", v] => (floatTok? v).map .setCsz
  | ["rc", l] => (parseIntList? l).map .rowcol
  | ["cc", l] => (parseIntList? l).map .c2c
  | ["xy", l] => (pairs? floatTok? l).map .xy2c
  | ["nb", v] => v.toInt?.map .nb
  | _ => none

def optTok? {β} (f : String → Option β) (t : String) : Option (Option β) :=
  if t = "-" then some none else (f t).map some

def handle (toks : List String) : String :=
  match toks with
  | "hist" :: nr :: nc :: xll :: yll :: csz :: ops =>
    match geomF? nr nc xll yll csz, allSome (ops.map opTok?) with
    | some g, some ops =>
      let f := finalGeom g ops
      "|".intercalate ((run g ops).map fmtAns ++ [s!"G {f.nrows} {f.ncols} {hexOfFloat f.xll} {hexOfFloat f.yll} {hexOfFloat f.csz}"])
    | _, _ => "bad-op"
  | ["mk", nc, nr, csz, xll, yll] =>
    match nc.toInt?, optTok? String.toInt? nr, optTok? floatTok? csz, optTok? floatTok? xll, optTok? floatTok? yll with
    | some nc, some nr, some csz, some xll, some yll =>
      match mkGrid nc nr csz xll yll with
      | .ok g => s!"ok {g.nrows} {g.ncols} {hexOfFloat g.xll} {hexOfFloat g.yll} {hexOfFloat g.csz}"
      | .error .valueError => "err:ValueError"
    | _, _, _, _, _ => "bad-op"
  | ["shape", fn, nr, nc, xll, yll, csz, shape, data] =>
    match geomF? nr nc xll yll csz, parseNatList? shape with
    | some g, some sh =>
      if fn = "xy" then
        match parseFloatList? data with
        | some d =>
          match gridCoord2cellReq g sh d with
          | .ok l => fmtIntList l
          | .error .valueError => "err:ValueError"
        | none => "bad-op"
      else
        match parseIntList? data with
        | some d =>
          if fn = "rc" then
            match gridCell2rowcolReq g.nrows g.ncols sh d with
            | .ok l => fmtRowcol l
            | .error .valueError => "err:ValueError"
          else
            match gridCell2coordReq g sh d with
            | .ok l => fmtCoordsF l
            | .error .valueError => "err:ValueError"
        | none => "bad-op"
    | _, _ => "bad-op"
  | ["xy2cR", nr, nc, xll, yll, csz, pts] =>
    match geomQ? nr nc xll yll csz, pairs? ratTok? pts with
    | some g, some ps =>
      if g.csz = 0 then "err:csz0" else fmtIntList (ps.map fun p => coord2cellR round53 g p.1 p.2)
    | _, _ => "bad-op"
  | ["xy2cRid", nr, nc, xll, yll, csz, pts] =>
    match geomF? nr nc xll yll csz, pairs? floatTok? pts with
    | some g, some ps => fmtIntList (ps.map fun p => coord2cellR (fun t => t) g p.1 p.2)
    | _, _ => "bad-op"
  | ["c2cR", nr, nc, xll, yll, csz, cells] =>
    match geomQ? nr nc xll yll csz, parseIntList? cells with
    | some g, some cs =>
      fmtPairs (cs.map fun c =>
        match cell2coordR round53 g c with
        | some (x, y) => (fmtRat x, fmtRat y)
        | none => ("none", "none"))
    | _, _ => "bad-op"
  | ["round53", xs] =>
    match parseRatList? xs with
    | some l => fmtRatList (l.map round53)
    | none => "bad-op"
  | ["rowcol", nr, nc, cells] =>
    match nr.toInt?, nc.toInt?, parseIntList? cells with
    | some nr, some nc, some cs =>
      fmtPairs ((gridCell2rowcol nr nc cs).map fun rc => (toString rc.1, toString rc.2))
    | _, _, _ => "bad-op"
  | ["getnxy", nc, cells] =>
    match nc.toInt?, parseIntList? cells with
    | some nc, some cs =>
      if nc = 0 then "err:div0"
      else fmtPairs (cs.map fun c => let p := getnxy nc c; (toString p.1, toString p.2))
    | _, _ => "bad-op"
  | ["nb", nr, nc, cells] =>
    match nr.toInt?, nc.toInt?, parseIntList? cells with
    | some nr, some nc, some cs =>
      ";".intercalate (cs.map fun c =>
        match cNeighbours nr nc c with
        | .ok l => "ok:" ++ fmtIntList l
        | .error .badCell => "err:badCell")
    | _, _, _ => "bad-op"
  | ["c2c", nr, nc, xll, yll, csz, cells] =>
    match geomF? nr nc xll yll csz, parseIntList? cells with
    | some g, some cs =>
      fmtPairs ((gridCell2coord g cs).map fun r =>
        match r with
        | some (x, y) => (hexOfFloat x, hexOfFloat y)
        | none => ("nan", "nan"))
    | _, _ => "bad-op"
  | ["xy2c", nr, nc, xll, yll, csz, pts] =>
    match geomF? nr nc xll yll csz, pairs? floatTok? pts with
    | some g, some ps => fmtIntList (gridCoord2cell g ps)
    | _, _ => "bad-op"
  | ["xy2c_cast", nr, nc, xll, yll, csz, pts] =>
    match geomF? nr nc xll yll csz, pairs? floatTok? pts with
    | some g, some ps => fmtIntList (ps.map fun p => coord2cell g p.1 p.2)
    | _, _ => "bad-op"
  | ["quot", nr, nc, xll, yll, csz, pts] =>
    match geomF? nr nc xll yll csz, pairs? floatTok? pts with
    | some g, some ps =>
      fmtPairs (ps.map fun p => let q := quotients g p.1 p.2; (hexOfFloat q.1, hexOfFloat q.2))
    | _, _ => "bad-op"
  | ["xy2c_trunc", nr, nc, xll, yll, csz, pts] =>
    match geomF? nr nc xll yll csz, pairs? floatTok? pts with
    | some g, some ps => fmtIntList (ps.map fun p => coord2cellTrunc g p.1 p.2)
    | _, _ => "bad-op"
  | ["xy2cQ", nr, nc, xll, yll, csz, pts] =>
    match geomQ? nr nc xll yll csz, pairs? ratTok? pts with
    | some g, some ps =>
      if g.csz = 0 then "err:csz0" else fmtIntList (gridCoord2cell g ps)
    | _, _ => "bad-op"
  | ["c2cQ", nr, nc, xll, yll, csz, cells] =>
    match geomQ? nr nc xll yll csz, parseIntList? cells with
    | some g, some cs =>
      fmtPairs ((gridCell2coord g cs).map fun r =>
        match r with
        | some (x, y) => (fmtRat x, fmtRat y)
        | none => ("none", "none"))
    | _, _ => "bad-op"
  | ["axes", nr, nc, xll, yll, csz] =>
    match geomF? nr nc xll yll csz with
    | some g =>
      let xl := xlim g
      let yl := ylim g
      fmtList ((xvalues g).map fmtOptFloat) ++ " " ++ fmtList ((yvalues g).map fmtOptFloat) ++ " "
        ++ fmtFloatList [xl.1, xl.2, yl.1, yl.2]
    | none => "bad-op"
  | _ => "bad-op"

def main : IO Unit := serve handle
