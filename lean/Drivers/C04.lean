import HydroVerif.Proto
import HydroVerif.Model.C04
open HydroVerif HydroVerif.C04

/-- entries that are not finite are "null" (the code filters with `np.isfinite`) -/
def optF (x : Float) : Option Float := if x.isFinite then some x else none

/-- NaN entries are `none` for the ensemble statistic (`nanmean` / `nanmedian`) -/
def optNaN (x : Float) : Option Float := if x.isNaN then none else some x

def statOf (s : String) : Option Stat :=
  if s = "mean" then some .mean else if s = "median" then some .median else none

def fmtO : Option Float → String
  | none => "none"
  | some x => "some " ++ hexOfFloat x

def fmtNatMat (rows : List (List Nat)) : String :=
  "[" ++ ";".intercalate (rows.map fun r => ",".intercalate (r.map toString)) ++ "]"

def handle (toks : List String) : String :=
  match toks with
  | ["bias", ty, eps, o, s] =>
    match floatTok? eps, parseFloatList? o, parseFloatList? s with
    | some eps, some o, some s =>
      if ty = "std" then fmtO (biasStd eps o s)
      else if ty = "norm" then fmtO (biasNorm eps o s)
      else if ty = "log" then fmtO (biasLog eps o s)
      else "bad-op"
    | _, _, _ => "bad-op"
  | ["nse", o, s] =>
    match parseFloatList? o, parseFloatList? s with
    | some o, some s => hexOfFloat (nse o s)
    | _, _ => "bad-op"
  | ["nseq", o, s] =>
    match parseRatList? o, parseRatList? s with
    | some o, some s =>
      if ssd (mean o) o = 0 then "degenerate" else fmtRat (nse o s)
    | _, _ => "bad-op"
  | ["biasq", ty, eps, o, s] =>
    match ratTok? eps, parseRatList? o, parseRatList? s with
    | some eps, some o, some s =>
      let r := if ty = "std" then biasStd eps o s else biasNorm eps o s
      match r with | some v => "some " ++ fmtRat v | none => "none"
    | _, _, _ => "bad-op"
  | ["kge", eps, o, s] =>
    match floatTok? eps, parseFloatList? o, parseFloatList? s with
    | some eps, some o, some s => fmtO (kge eps o s)
    | _, _, _ => "bad-op"
  | ["corr", eps, o, s] =>
    match floatTok? eps, parseFloatList? o, parseFloatList? s with
    | some eps, some o, some s => fmtO (corrPearson eps o s)
    | _, _, _ => "bad-op"
  | ["spearman", eps, o, s] =>
    match floatTok? eps, parseFloatList? o, parseFloatList? s with
    | some eps, some o, some s => fmtO (corrSpearman eps o s)
    | _, _, _ => "bad-op"
  | ["ensstat", st, row] =>
    match statOf st, parseFloatList? row with
    | some st, some row => fmtO ((ensStat st (row.map optNaN)).bind optNaN)   -- inf - inf: a NaN value is NaN
    | _, _ => "bad-op"
  | ["corrfull", eps, ty, st, excl, tobs, tens] =>
    match floatTok? eps, statOf st, parseFloatList? tobs, parseFloatMat? tens with
    | some eps, some st, some tobs, some tens =>
      match corrFull (fun x : Float => x.isFinite) eps (ty == "Spearman") st (excl == "1")
          (tobs.map optNaN) (tens.map fun r => r.map optNaN) with
      | .value v => if v.isNaN then "none" else "some " ++ hexOfFloat v   -- a NaN value is the NaN result
      | .nan => "none"
      | .noValidData => "err noValidData"
    | _, _, _, _ => "bad-op"
  | ["nonull", o, s] =>
    match parseFloatList? o, parseFloatList? s with
    | some o, some s =>
      let r := nonull (o.map optF) (s.map optF)
      fmtFloatList r.1 ++ " " ++ fmtFloatList r.2
    | _, _ => "bad-op"
  | ["conf", obs, sim, ncat] =>
    match parseIntList? obs, parseIntList? sim with
    | some obs, some sim =>
      let n := match ncat.toNat? with | some n => n | none => inferNcat obs sim
      let r := confusion obs sim n
      s!"{n} {fmtIntList r.1} {fmtIntList r.2.1} {fmtNatMat r.2.2}"
    | _, _ => "bad-op"
  | ["binary", tn, fp, fn, tp] =>
    match floatTok? tn, floatTok? fp, floatTok? fn, floatTok? tp with
    | some tn, some fp, some fn, some tp =>
      let b := binary tn fp fn tp
      let mcc := b.mccNum / Float.sqrt b.mccDen2
      let lor := if b.lorDefined then Float.log b.theta else (0.0/0.0)
      let orss := match b.orss with | some v => v | none => (0.0/0.0)
      " ".intercalate ([b.bias, b.hitrate, b.precision, b.falsealarm, b.accuracy, b.f1, mcc, lor, orss].map hexOfFloat)
    | _, _, _, _ => "bad-op"
  | _ => "bad-op"

def main : IO Unit := serve handle
