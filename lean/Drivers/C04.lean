import HydroVerif.Proto
import HydroVerif.Model.C04
import HydroVerif.Model.C01
open HydroVerif HydroVerif.C04

/-- entries that are not finite are "null" (the code filters with `np.isfinite`) -/
def optF (x : Float) : Option Float := if x.isFinite then some x else none

/-- NaN entries are `none` for the ensemble statistic (`nanmean` / `nanmedian`) -/
def optNaN (x : Float) : Option Float := if x.isNaN then none else some x

def statOf (s : String) : Option Stat :=
  if s = "mean" then some .mean else if s = "median" then some .median else none

def fmtO : Option Float → String
  | none => "none"
  | some x => "some " ++ hexOfFloat x

def fmtNatMat (rows : List (List Nat)) : String :=
  "[" ++ ";".intercalate (rows.map fun r => ",".intercalate (r.map toString)) ++ "]"

/-- `trans.forward` on one value, from the transform model of C01/C02 (`Identity`, `Log:nu`, `BoxCox2:nu:lam`,
`Reciprocal:nu`, `Sinh:nu:scale`); a NaN value is `none` -/
def transOf (s : String) : Option (Float → Option Float) :=
  let norm (g : Float → Option Float) : Float → Option Float := fun x => (g x).bind optNaN
  match s.splitOn ":" with
  | ["Identity"] => some (norm (C01.Identity.forward ({} : C01.Identity.Params Float)))
  | ["Log", nu] => (floatTok? nu).map fun nu => norm (C01.Log.forward { nu := nu, base := none, mininu := 1e-10 })
  | ["BoxCox2", nu, lam] =>
    match floatTok? nu, floatTok? lam with
    | some nu, some lam => some (norm (C01.BoxCox2.forward { nu := nu, lam := lam, mininu := 1e-10 }))
    | _, _ => none
  | ["Reciprocal", nu] => (floatTok? nu).map fun nu => norm (C01.Reciprocal.forward { nu := nu, mininu := 1e-10 })
  | ["Sinh", nu, sc] =>
    match floatTok? nu, floatTok? sc with
    | some nu, some sc => some (norm (C01.Sinh.forward { nu := nu, scale := sc }))
    | _, _ => none
  | _ => none

def fmtRes : Res Float → String
  | .value v => if v.isNaN then "nan" else "value " ++ hexOfFloat v
  | .nan => "nan"
  | .errShape => "err shape"
  | .errNoValid => "err novalid"
  | .errType => "err type"
  | .errStat => "err stat"

def biasTypeOf (s : String) : Option BiasType :=
  if s = "standard" then some .standard else if s = "normalised" then some .normalised
  else if s = "log" then some .log else none

def corrTypeOf (s : String) : Option CorrType :=
  if s = "Pearson" then some .pearson else if s = "Spearman" then some .spearman
  else if s = "censored" then some .censored else none

def fmtTable (t : Table) : String := s!"{fmtIntList t.1} {fmtIntList t.2.1} {fmtNatMat t.2.2}"

def hopOf (s : String) : Option HOp :=
  match s.splitOn ":" with
  | ["S", obs, sim, ncat] =>
    match parseIntList? obs, parseIntList? sim with
    | some obs, some sim => some (.score obs sim ncat.toNat?)
    | _, _ => none
  | ["E", k, i, j, v] =>
    match k.toNat?, i.toNat?, j.toNat?, v.toNat? with
    | some k, some i, some j, some v => some (.setCell k i j v)
    | _, _, _, _ => none
  | ["F", k, v] =>
    match k.toNat?, v.toNat? with
    | some k, some v => some (.fill k v)
    | _, _ => none
  | _ => none

def fmtBin : BinRes Float → String
  | .errShape => "err shape"
  | .errZeroDiv => "err zerodiv"
  | .ok b =>
    let mcc := b.mccNum / Float.sqrt b.mccDen2
    let lor := if b.lorDefined then Float.log b.theta else (0.0/0.0)
    let orss := match b.orss with | some v => v | none => (0.0/0.0)
    " ".intercalate ([b.bias, b.hitrate, b.precision, b.falsealarm, b.accuracy, b.f1, mcc, lor, orss].map hexOfFloat)

/-- rounding to single precision: `Rnd Float r32` is float32 arithmetic (every operation is computed in double, which holds
the exact sum / product / correctly rounded quotient of two singles to more than twice their precision, then rounded) -/
def r32 (x : Float) : Float := x.toFloat32.toFloat
def toR32 (x : Float) : Rnd Float r32 := ⟨r32 x⟩

def handle (toks : List String) : String :=
  match toks with
  | ["nse32", o, s] =>
    match parseFloatList? o, parseFloatList? s with
    | some o, some s => hexOfFloat (nse (o.map toR32) (s.map toR32)).val
    | _, _ => "bad-op"
  | ["kge32", eps, o, s] =>
    match floatTok? eps, parseFloatList? o, parseFloatList? s with
    | some eps, some o, some s => fmtO ((kge (toR32 eps) (o.map toR32) (s.map toR32)).map fun v => v.val)
    | _, _, _ => "bad-op"
  | ["bias32", ty, eps, o, s] =>
    match floatTok? eps, parseFloatList? o, parseFloatList? s with
    | some eps, some o, some s =>
      let r := if ty = "std" then biasStd (toR32 eps) (o.map toR32) (s.map toR32)
        else biasNorm (toR32 eps) (o.map toR32) (s.map toR32)
      fmtO (r.map fun v => v.val)
    | _, _, _ => "bad-op"
  | ["binary32", tn, fp, fn, tp] =>
    match floatTok? tn, floatTok? fp, floatTok? fn, floatTok? tp with
    | some tn, some fp, some fn, some tp =>
      let b := binary (toR32 tn) (toR32 fp) (toR32 fn) (toR32 tp)
      let orss := match b.orss with | some v => v.val | none => (0.0/0.0)
      " ".intercalate ([b.hitrate.val, b.falsealarm.val, b.precision.val, orss].map hexOfFloat)
    | _, _, _, _ => "bad-op"
  | "hist" :: ops =>
    match allSome (ops.map hopOf) with
    | some ops => " ".intercalate (fmtNatList (untouched ops) :: (hrun ops).map fmtTable)
    | none => "bad-op"
  | ["biasfull", ty, eps, tr, excl, o, s] =>
    match floatTok? eps, transOf tr, parseFloatList? o, parseFloatList? s with
    | some eps, some f, some o, some s =>
      fmtRes (biasFull (fun x : Float => x.isFinite) eps f (biasTypeOf ty) (excl == "1") (o.map optNaN) (s.map optNaN))
    | _, _, _, _ => "bad-op"
  | ["nsefull", tr, excl, o, s] =>
    match transOf tr, parseFloatList? o, parseFloatList? s with
    | some f, some o, some s =>
      fmtRes (nseFull (fun x : Float => x.isFinite) f (excl == "1") (o.map optNaN) (s.map optNaN))
    | _, _, _ => "bad-op"
  | ["kgefull", eps, tr, excl, o, s] =>
    match floatTok? eps, transOf tr, parseFloatList? o, parseFloatList? s with
    | some eps, some f, some o, some s =>
      fmtRes (kgeFull (fun x : Float => x.isFinite) eps f (excl == "1") (o.map optNaN) (s.map optNaN))
    | _, _, _, _ => "bad-op"
  | ["corrraw", eps, tr, ty, st, excl, o, ens] =>
    match floatTok? eps, transOf tr, parseFloatList? o, parseFloatMat? ens with
    | some eps, some f, some o, some ens =>
      fmtRes (corrRaw (fun x : Float => x.isFinite) Float.isNaN eps f (corrTypeOf ty) (statOf st) (excl == "1")
        (o.map optNaN) (ens.map fun r => r.map optNaN))
    | _, _, _, _ => "bad-op"
  | ["exclremoved", eps, tr, o, s] =>
    -- the statement of biasFull_excl / nseFull_excl / kgeFull_excl on this input: the removed series, then each score with
    -- excludenull on the full series and without excludenull on the removed series
    match floatTok? eps, transOf tr, parseFloatList? o, parseFloatList? s with
    | some eps, some f, some o, some s =>
      let fin := fun x : Float => x.isFinite
      let (o, s) := (o.map optNaN, s.map optNaN)
      let R := removedRaw fin f o s
      let raw (l : List (Option Float)) : String := fmtFloatList (l.map fun x => match x with | some v => v | none => 0.0/0.0)
      " | ".intercalate [raw R.1, raw R.2,
        fmtRes (biasFull fin eps f (some .standard) true o s), fmtRes (biasFull fin eps f (some .standard) false R.1 R.2),
        fmtRes (nseFull fin f true o s), fmtRes (nseFull fin f false R.1 R.2),
        fmtRes (kgeFull fin eps f true o s), fmtRes (kgeFull fin eps f false R.1 R.2)]
    | _, _, _, _ => "bad-op"
  | ["binaryof", t] =>
    match parseFloatMat? t with
    | some t => fmtBin (binaryOf t)
    | none => "bad-op"
  | ["binseries", o, s] =>
    match parseIntList? o, parseIntList? s with
    | some o, some s => fmtBin (binarySeries o s)
    | _, _ => "bad-op"
  | ["bias", ty, eps, o, s] =>
    match floatTok? eps, parseFloatList? o, parseFloatList? s with
    | some eps, some o, some s =>
      if ty = "std" then fmtO (biasStd eps o s)
      else if ty = "norm" then fmtO (biasNorm eps o s)
      else if ty = "log" then fmtO (biasLog eps o s)
      else "bad-op"
    | _, _, _ => "bad-op"
  | ["nse", o, s] =>
    match parseFloatList? o, parseFloatList? s with
    | some o, some s => hexOfFloat (nse o s)
    | _, _ => "bad-op"
  | ["nseq", o, s] =>
    match parseRatList? o, parseRatList? s with
    | some o, some s =>
      if ssd (mean o) o = 0 then "degenerate" else fmtRat (nse o s)
    | _, _ => "bad-op"
  | ["biasq", ty, eps, o, s] =>
    match ratTok? eps, parseRatList? o, parseRatList? s with
    | some eps, some o, some s =>
      let r := if ty = "std" then biasStd eps o s else biasNorm eps o s
      match r with | some v => "some " ++ fmtRat v | none => "none"
    | _, _, _ => "bad-op"
  | ["kge", eps, o, s] =>
    match floatTok? eps, parseFloatList? o, parseFloatList? s with
    | some eps, some o, some s => fmtO (kge eps o s)
    | _, _, _ => "bad-op"
  | ["corr", eps, o, s] =>
    match floatTok? eps, parseFloatList? o, parseFloatList? s with
    | some eps, some o, some s => fmtO (corrPearson eps o s)
    | _, _, _ => "bad-op"
  | ["spearman", eps, o, s] =>
    match floatTok? eps, parseFloatList? o, parseFloatList? s with
    | some eps, some o, some s => fmtO (corrSpearman eps o s)
    | _, _, _ => "bad-op"
  | ["ensstat", st, row] =>
    match statOf st, parseFloatList? row with
    | some st, some row => fmtO (nanOpt Float.isNaN (ensStat st (row.map optNaN)))   -- inf - inf: a NaN value is NaN
    | _, _ => "bad-op"
  | ["corrfull", eps, ty, st, excl, tobs, tens] =>
    match floatTok? eps, statOf st, parseFloatList? tobs, parseFloatMat? tens with
    | some eps, some st, some tobs, some tens =>
      match corrFull (fun x : Float => x.isFinite) Float.isNaN eps (ty == "Spearman") st (excl == "1")
          (tobs.map optNaN) (tens.map fun r => r.map optNaN) with
      | .value v => if v.isNaN then "none" else "some " ++ hexOfFloat v   -- a NaN value is the NaN result
      | .nan => "none"
      | .noValidData => "err noValidData"
    | _, _, _, _ => "bad-op"
  | ["nonull", o, s] =>
    match parseFloatList? o, parseFloatList? s with
    | some o, some s =>
      let r := nonull (o.map optF) (s.map optF)
      fmtFloatList r.1 ++ " " ++ fmtFloatList r.2
    | _, _ => "bad-op"
  | ["conf", obs, sim, ncat] =>
    match parseIntList? obs, parseIntList? sim with
    | some obs, some sim =>
      let n := match ncat.toNat? with | some n => n | none => inferNcat obs sim
      let r := confusion obs sim n
      s!"{n} {fmtIntList r.1} {fmtIntList r.2.1} {fmtNatMat r.2.2}"
    | _, _ => "bad-op"
  | ["binary", tn, fp, fn, tp] =>
    match floatTok? tn, floatTok? fp, floatTok? fn, floatTok? tp with
    | some tn, some fp, some fn, some tp =>
      let b := binary tn fp fn tp
      let mcc := b.mccNum / Float.sqrt b.mccDen2
      let lor := if b.lorDefined then Float.log b.theta else (0.0/0.0)
      let orss := match b.orss with | some v => v | none => (0.0/0.0)
      " ".intercalate ([b.bias, b.hitrate, b.precision, b.falsealarm, b.accuracy, b.f1, mcc, lor, orss].map hexOfFloat)
    | _, _, _, _ => "bad-op"
  | _ => "bad-op"

def main : IO Unit := serve handle
