import HydroVerif.Proto
import HydroVerif.Model.C08Spec
open HydroVerif HydroVerif.C08

/-- C `(double) n` -/
instance : NatCast Float := ⟨Float.ofNat⟩

def fmtOptList' (xs : List (Option Float)) : String := fmtList (xs.map fmtOptFloat)

def errName : Err → String
  | .emptyInput => "emptyInput" | .decreasingIndex => "decreasingIndex"
  | .bufferFull => "bufferFull" | .badMonth => "badMonth"
  | .lengthMismatch => "lengthMismatch" | .intOverflow => "intOverflow"
  | .badInterpolation => "badInterpolation" | .badTimestep => "badTimestep"
  | .assertFailed => "assertFailed"

def fmtKOut (k : KOut Float) : String :=
  (match k.ierr with | none => "0" | some e => errName e) ++ " " ++ fmtOptList' k.outputs ++ " " ++ toString k.iend

def fmtHOut (k : Option Err × List (Option Float)) : String :=
  (match k.1 with | none => "0" | some e => errName e) ++ " " ++ fmtOptList' k.2

def dateCode (t : Date) : Int := t.y * 10000 + (t.m : Int) * 100 + (t.d : Int)

/-- `nan` ↔ `none` -/
def optOfFloat (x : Float) : Option Float := if x.isNaN then none else some x

def fmtOptList (xs : List (Option Float)) : String := fmtList (xs.map fmtOptFloat)

def pairs (idx : List Int) (vals : List Float) : List (Int × Option Float) :=
  idx.zip (vals.map optOfFloat)

def fmtRatOpt : Option Rat → String
  | none => "nan"
  | some r => fmtRat r

def ratOptTok? (s : String) : Option (Option Rat) :=
  if s = "nan" then some none else (ratTok? s).map some

/-- one operation of a history: `sv:i:x` `si:i:k` `sc:r:x` `ca:op:maxnan` `ch:maxnan` -/
def histOp? (s : String) : Option (HOp Float) :=
  match s.splitOn ":" with
  | ["sv", i, x] => match i.toNat?, floatTok? x with
    | some i, some x => some (.setVal i (optOfFloat x)) | _, _ => none
  | ["si", i, k] => match i.toNat?, k.toInt? with
    | some i, some k => some (.setIdx i k) | _, _ => none
  | ["sc", r, x] => match r.toNat?, floatTok? x with
    | some r, some x => some (.scribble r (optOfFloat x)) | _, _ => none
  | ["ca", op, mx] => match op.toInt?, mx.toInt? with
    | some op, some mx => some (.callAgg op mx) | _, _ => none
  | ["ch", mx] => mx.toInt?.map .callHomog
  | _ => none

def fmtAnswer : Except Err (List (Option Float)) → String
  | .ok out => "ok " ++ fmtOptList out
  | .error e => "err " ++ errName e

def handle (toks : List String) : String :=
  match toks with
  | ["agg", op, maxnan, idx, vals] =>
    match op.toInt?, maxnan.toInt?, parseIntList? idx, parseFloatList? vals with
    | some op, some mx, some idx, some vals =>
      if idx.length ≠ vals.length then "bad-op" else
      match aggregate op mx (pairs idx vals) with
      | .ok out => "ok " ++ fmtOptList out
      | .error e => "err " ++ errName e
    | _, _, _, _ => "bad-op"
  | ["aggq", op, maxnan, idx, vals] =>
    match op.toInt?, maxnan.toInt?, parseIntList? idx, allSome ((listToks vals).map ratOptTok?) with
    | some op, some mx, some idx, some vals =>
      if idx.length ≠ vals.length then "bad-op" else
      match aggregate (α := Rat) op mx (idx.zip vals) with
      | .ok out => "ok " ++ fmtList (out.map fmtRatOpt)
      | .error e => "err " ++ errName e
    | _, _, _, _ => "bad-op"
  | ["homog", maxnan, idx, vals] =>
    match maxnan.toInt?, parseIntList? idx, parseFloatList? vals with
    | some mx, some idx, some vals =>
      if idx.length ≠ vals.length then "bad-op" else
      match flathomogen mx (pairs idx vals) with
      | .ok out => "ok " ++ fmtOptList out
      | .error e => "err " ++ errName e
    | _, _, _ => "bad-op"
  | ["m2dflat", y0, m0, minthr, vals] =>
    match y0.toInt?, m0.toNat?, floatTok? minthr, parseFloatList? vals with
    | some y0, some m0, some thr, some vals =>
      match m2dFlat y0 m0 thr (vals.map optOfFloat) with
      | .ok months => "ok " ++ fmtNatList (months.map List.length) ++ " " ++ fmtOptList months.flatten
      | .error e => "err " ++ errName e
    | _, _, _, _ => "bad-op"
  | ["aggw", op, maxnan, idx, vals] =>
    match op.toInt?, maxnan.toInt?, parseIntList? idx, parseFloatList? vals with
    | some op, some mx, some idx, some vals =>
      match aggregateW op mx idx (vals.map optOfFloat) with
      | .ok out => "ok " ++ fmtOptList out
      | .error e => "err " ++ errName e
    | _, _, _, _ => "bad-op"
  | ["homogw", maxnan, idx, vals] =>
    match maxnan.toInt?, parseIntList? idx, parseFloatList? vals with
    | some mx, some idx, some vals =>
      match flathomogenW mx idx (vals.map optOfFloat) with
      | .ok out => "ok " ++ fmtOptList out
      | .error e => "err " ++ errName e
    | _, _, _ => "bad-op"
  | ["aggindex", step, ys, ms, ds, hs] =>
    match parseIntList? ys, parseNatList? ms, parseNatList? ds, parseNatList? hs with
    | some ys, some ms, some ds, some hs =>
      let stamps := (ys.zip (ms.zip (ds.zip hs))).map fun t => ({ y := t.1, m := t.2.1, d := t.2.2.1, h := t.2.2.2 } : Stamp)
      match computeAggindex step.toList stamps with
      | .ok out => "ok " ++ fmtIntList out
      | .error e => "err " ++ errName e
    | _, _, _, _ => "bad-op"
  | ["m2d", interp, y0, m0, minthr, vals] =>
    match y0.toInt?, m0.toNat?, floatTok? minthr, parseFloatList? vals with
    | some y0, some m0, some thr, some vals =>
      match m2d interp y0 m0 thr (vals.map optOfFloat) with
      | .ok months => "ok " ++ fmtNatList (months.map List.length) ++ " " ++
          fmtOptList (months.flatten.map fun o => o.bind optOfFloat)
      | .error e => "err " ++ errName e
    | _, _, _, _ => "bad-op"
  | ["m2dcubic", y0, m0, vals] =>
    match y0.toInt?, m0.toNat?, parseFloatList? vals with
    | some y0, some m0, some vals =>
      match m2dCubic y0 m0 (0 : Float) (vals.map optOfFloat) with
      | .ok months => "ok " ++ fmtNatList (months.map List.length) ++ " " ++ fmtFloatList months.flatten
      | .error e => "err " ++ errName e
    | _, _, _ => "bad-op"
  | ["aggspec", op, maxnan, idx, vals] =>
    -- the SPECIFICATION side of `aggregate_spec` / `aggregate_per_group_any_carrier`, evaluated in Float
    match op.toInt?, maxnan.toInt?, parseIntList? idx, parseFloatList? vals with
    | some op, some mx, some idx, some vals =>
      if idx.length ≠ vals.length then "bad-op" else
      if !(nondecreasing idx) || idx.isEmpty then "err decreasingIndex" else
      let spec := fmtOptList (aggregateSpec op mx (pairs idx vals))
      let pg := fmtOptList (aggregatePerGroup op mx (pairs idx vals))
      let ker := match aggregate op mx (pairs idx vals) with
        | .ok out => fmtOptList out
        | .error e => "err " ++ errName e
      -- `aggregate_per_group_any_carrier` and `aggregate_spec_of_add_zero` executed in Float
      "ok " ++ spec ++ " " ++ pg ++ (if ker = pg then " kernel=same" else " kernel=diff") ++
        (if spec = pg then " spec=same" else " spec=diff")
    | _, _, _, _ => "bad-op"
  | ["homogspec", maxnan, idx, vals] =>
    match maxnan.toInt?, parseIntList? idx, parseFloatList? vals with
    | some mx, some idx, some vals =>
      if idx.length ≠ vals.length then "bad-op" else
      if !(nondecreasing idx) || idx.isEmpty then "err decreasingIndex" else
      let spec := fmtOptList (flathomogenSpec mx (pairs idx vals))
      let pg := fmtOptList (flathomogenPerGroup mx (pairs idx vals))
      let ker := match flathomogen mx (pairs idx vals) with
        | .ok out => fmtOptList out
        | .error e => "err " ++ errName e
      "ok " ++ spec ++ " " ++ pg ++ (if ker = pg then " kernel=same" else " kernel=diff") ++
        (if spec = pg then " spec=same" else " spec=diff")
    | _, _, _ => "bad-op"
  | ["aggbuf", op, maxnan, idx, vals, buf, iend0] =>
    match op.toInt?, maxnan.toInt?, parseIntList? idx, parseFloatList? vals, parseFloatList? buf, iend0.toInt? with
    | some op, some mx, some idx, some vals, some buf, some i0 =>
      if idx.length ≠ vals.length then "bad-op" else
      fmtKOut (cAggregate op mx (pairs idx vals) (buf.map optOfFloat) i0)
    | _, _, _, _, _, _ => "bad-op"
  | ["homogbuf", maxnan, idx, vals, buf] =>
    match maxnan.toInt?, parseIntList? idx, parseFloatList? vals, parseFloatList? buf with
    | some mx, some idx, some vals, some buf =>
      if idx.length ≠ vals.length then "bad-op" else
      fmtHOut (cFlathomogen mx (pairs idx vals) (buf.map optOfFloat))
    | _, _, _, _ => "bad-op"
  | ["pyxagg", op, maxnan, idx, vals, buf, iend] =>
    match op.toInt?, maxnan.toInt?, parseIntList? idx, parseFloatList? vals, parseFloatList? buf, parseIntList? iend with
    | some op, some mx, some idx, some vals, some buf, some iend =>
      match pyxAggregate op mx idx (vals.map optOfFloat) (buf.map optOfFloat) iend with
      | .ok k => fmtKOut k
      | .error e => "err " ++ errName e
    | _, _, _, _, _, _ => "bad-op"
  | ["pyxhomog", maxnan, idx, vals, buf] =>
    match maxnan.toInt?, parseIntList? idx, parseFloatList? vals, parseFloatList? buf with
    | some mx, some idx, some vals, some buf =>
      match pyxFlathomogen mx idx (vals.map optOfFloat) (buf.map optOfFloat) with
      | .ok k => fmtHOut k
      | .error e => "err " ++ errName e
    | _, _, _, _ => "bad-op"
  | ["aggwb", op, maxnan, idx, vals] =>
    match op.toInt?, maxnan.toInt?, parseIntList? idx, parseFloatList? vals with
    | some op, some mx, some idx, some vals =>
      match aggregateWB op mx idx (vals.map optOfFloat) with
      | .ok out => "ok " ++ fmtOptList (out.map fun o => o.bind optOfFloat)
      | .error e => "err " ++ errName e
    | _, _, _, _ => "bad-op"
  | ["homogwb", maxnan, idx, vals] =>
    match maxnan.toInt?, parseIntList? idx, parseFloatList? vals with
    | some mx, some idx, some vals =>
      match flathomogenWB mx idx (vals.map optOfFloat) with
      | .ok out => "ok " ++ fmtOptList (out.map fun o => o.bind optOfFloat)
      | .error e => "err " ++ errName e
    | _, _, _ => "bad-op"
  | ["m2ds", interp, y0, m0, minthr, vals] =>
    -- the returned daily Series: calendar-day stamps (yyyymmdd) and values
    match y0.toInt?, m0.toNat?, floatTok? minthr, parseFloatList? vals with
    | some y0, some m0, some thr, some vals =>
      let fmtSer := fun (out : List (Date × Option Float)) =>
        fmtIntList (out.map fun p => dateCode p.1) ++ " " ++ fmtOptList (out.map fun p => p.2.bind optOfFloat)
      match m2dSeries Float.isNaN interp y0 m0 thr (vals.map optOfFloat) with
      | .ok out =>
        -- `m2dSeries_eq_stamped` executed in Float: the Series = the per-month lists of `m2d` stamped by `stampMonths`
        let st := match m2d interp y0 m0 thr (vals.map optOfFloat) with
          | .ok months => fmtSer (stampMonths y0 m0 months)
          | .error e => "err " ++ errName e
        "ok " ++ fmtSer out ++ (if st = fmtSer out then " stamped=same" else " stamped=diff")
      | .error e => "err " ++ errName e
    | _, _, _, _ => "bad-op"
  | ["stampinfo", ys, ms, ds, hs] =>
    match parseIntList? ys, parseNatList? ms, parseNatList? ds, parseNatList? hs with
    | some ys, some ms, some ds, some hs =>
      let stamps := (ys.zip (ms.zip (ds.zip hs))).map fun t => ({ y := t.1, m := t.2.1, d := t.2.2.1, h := t.2.2.2 } : Stamp)
      s!"valid={decide (∀ t ∈ stamps, t.valid)} chrono={chrono stamps}"
    | _, _, _, _ => "bad-op"
  | ["aggwf", op, maxnan, idx, vals] =>
    -- float64 aggregation index, given exactly as rationals (`nan` for NaN / inf)
    match op.toInt?, maxnan.toInt?, allSome ((listToks idx).map ratOptTok?), parseFloatList? vals with
    | some op, some mx, some idx, some vals =>
      match aggregateWF op mx idx (vals.map optOfFloat) with
      | .ok out => "ok " ++ fmtOptList out ++ " " ++ fmtIntList (idx.map castIdx)
      | .error e => "err " ++ errName e
    | _, _, _, _ => "bad-op"
  | ["hist", idx, vals, ops] =>
    -- a whole history on one set of arrays: the answers of the calls, then the final state
    match parseIntList? idx, parseFloatList? vals, allSome ((listToks ops).map histOp?) with
    | some idx, some vals, some ops =>
      let r := histRun ({ idx := idx, vals := vals.map optOfFloat, outs := [] } : Hist Float) ops
      "|".intercalate (r.2.map fmtAnswer) ++ " ;idx=" ++ fmtIntList r.1.idx ++ " ;vals=" ++ fmtOptList r.1.vals ++
        " ;outs=" ++ "|".intercalate (r.1.outs.map fmtOptList)
    | _, _, _ => "bad-op"
  | ["ndays", y, m] =>
    match y.toInt?, m.toNat? with
    | some y, some m => toString (daysInMonth y m)
    | _, _ => "bad-op"
  | _ => "bad-op"

def main : IO Unit := serve handle
