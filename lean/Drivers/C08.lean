import HydroVerif.Proto
import HydroVerif.Model.C08
open HydroVerif HydroVerif.C08

/-- C `(double) n` -/
instance : NatCast Float := ⟨Float.ofNat⟩

def errName : Err → String
  | .emptyInput => "emptyInput" | .decreasingIndex => "decreasingIndex"
  | .bufferFull => "bufferFull" | .badMonth => "badMonth"
  | .lengthMismatch => "lengthMismatch" | .intOverflow => "intOverflow"
  | .badInterpolation => "badInterpolation" | .badTimestep => "badTimestep"

/-- `nan` ↔ `none` -/
def optOfFloat (x : Float) : Option Float := if x.isNaN then none else some x

def fmtOptList (xs : List (Option Float)) : String := fmtList (xs.map fmtOptFloat)

def pairs (idx : List Int) (vals : List Float) : List (Int × Option Float) :=
  idx.zip (vals.map optOfFloat)

def fmtRatOpt : Option Rat → String
  | none => "nan"
  | some r => fmtRat r

def ratOptTok? (s : String) : Option (Option Rat) :=
  if s = "nan" then some none else (ratTok? s).map some

def handle (toks : List String) : String :=
  match toks with
  | ["agg", op, maxnan, idx, vals] =>
    match op.toInt?, maxnan.toInt?, parseIntList? idx, parseFloatList? vals with
    | some op, some mx, some idx, some vals =>
      if idx.length ≠ vals.length then "bad-op" else
      match aggregate op mx (pairs idx vals) with
      | .ok out => "ok " ++ fmtOptList out
      | .error e => "err " ++ errName e
    | _, _, _, _ => "bad-op"
  | ["aggq", op, maxnan, idx, vals] =>
    match op.toInt?, maxnan.toInt?, parseIntList? idx, allSome ((listToks vals).map ratOptTok?) with
    | some op, some mx, some idx, some vals =>
      if idx.length ≠ vals.length then "bad-op" else
      match aggregate (α := Rat) op mx (idx.zip vals) with
      | .ok out => "ok " ++ fmtList (out.map fmtRatOpt)
      | .error e => "err " ++ errName e
    | _, _, _, _ => "bad-op"
  | ["homog", maxnan, idx, vals] =>
    match maxnan.toInt?, parseIntList? idx, parseFloatList? vals with
    | some mx, some idx, some vals =>
      if idx.length ≠ vals.length then "bad-op" else
      match flathomogen mx (pairs idx vals) with
      | .ok out => "ok " ++ fmtOptList out
      | .error e => "err " ++ errName e
    | _, _, _ => "bad-op"
  | ["m2dflat", y0, m0, minthr, vals] =>
    match y0.toInt?, m0.toNat?, floatTok? minthr, parseFloatList? vals with
    | some y0, some m0, some thr, some vals =>
      match m2dFlat y0 m0 thr (vals.map optOfFloat) with
      | .ok months => "ok " ++ fmtNatList (months.map List.length) ++ " " ++ fmtOptList months.flatten
      | .error e => "err " ++ errName e
    | _, _, _, _ => "bad-op"
  | ["aggw", op, maxnan, idx, vals] =>
    match op.toInt?, maxnan.toInt?, parseIntList? idx, parseFloatList? vals with
    | some op, some mx, some idx, some vals =>
      match aggregateW op mx idx (vals.map optOfFloat) with
      | .ok out => "ok " ++ fmtOptList out
      | .error e => "err " ++ errName e
    | _, _, _, _ => "bad-op"
  | ["homogw", maxnan, idx, vals] =>
    match maxnan.toInt?, parseIntList? idx, parseFloatList? vals with
    | some mx, some idx, some vals =>
      match flathomogenW mx idx (vals.map optOfFloat) with
      | .ok out => "ok " ++ fmtOptList out
      | .error e => "err " ++ errName e
    | _, _, _ => "bad-op"
  | ["aggindex", step, ys, ms, ds, hs] =>
    match parseIntList? ys, parseNatList? ms, parseNatList? ds, parseNatList? hs with
    | some ys, some ms, some ds, some hs =>
      let stamps := (ys.zip (ms.zip (ds.zip hs))).map fun t => ({ y := t.1, m := t.2.1, d := t.2.2.1, h := t.2.2.2 } : Stamp)
      match computeAggindex step.toList stamps with
      | .ok out => "ok " ++ fmtIntList out
      | .error e => "err " ++ errName e
    | _, _, _, _ => "bad-op"
  | ["m2d", interp, y0, m0, minthr, vals] =>
    match y0.toInt?, m0.toNat?, floatTok? minthr, parseFloatList? vals with
    | some y0, some m0, some thr, some vals =>
      match m2d interp y0 m0 thr (vals.map optOfFloat) with
      | .ok months => "ok " ++ fmtNatList (months.map List.length) ++ " " ++
          fmtOptList (months.flatten.map fun o => o.bind optOfFloat)
      | .error e => "err " ++ errName e
    | _, _, _, _ => "bad-op"
  | ["m2dcubic", y0, m0, vals] =>
    match y0.toInt?, m0.toNat?, parseFloatList? vals with
    | some y0, some m0, some vals =>
      match m2dCubic y0 m0 (0 : Float) (vals.map optOfFloat) with
      | .ok months => "ok " ++ fmtNatList (months.map List.length) ++ " " ++ fmtFloatList months.flatten
      | .error e => "err " ++ errName e
    | _, _, _ => "bad-op"
  | ["ndays", y, m] =>
    match y.toInt?, m.toNat? with
    | some y, some m => toString (daysInMonth y m)
    | _, _ => "bad-op"
  | _ => "bad-op"

def main : IO Unit := serve handle
