import HydroVerif.Proto
import HydroVerif.Model.C10
open HydroVerif HydroVerif.C10

/-- stable merge sort driven by the tolerant comparator of c_dscore.c (eps = 1e-8 there) -/
def sortPool (l : List (Float × Nat)) : List (Float × Nat) := l.mergeSort (leTol (1e-8 : Float))

/-- `np.sort` on finite data -/
def sortF (l : List Float) : List Float := l.mergeSort (fun a b => decide (a ≤ b))
def sortQ (l : List Rat) : List Rat := l.mergeSort (fun a b => decide (a ≤ b))

/-- the comparator of c_andersondarling.c: 1 if a>b, 0 if a==b, -1 if a<b, else 0 -/
def sortAD (l : List (Option Float)) : List (Option Float) :=
  l.mergeSort fun a b => match a, b with
    | some x, some y => !decide (y < x)
    | _, _ => true

def optNaN (x : Float) : Option Float := if x.isNaN then none else some x

def fmtO : Option Float → String
  | none => "none"
  | some x => "some " ++ hexOfFloat x

def fmtMatF (rows : List (List Float)) : String :=
  "[" ++ ";".intercalate (rows.map fun r => ",".intercalate (r.map hexOfFloat)) ++ "]"

def epsMin : Float := 1e-20

def handle (toks : List String) : String :=
  match toks with
  | ["ensrank", eps, ncol, mat] =>
    match floatTok? eps, ncol.toNat?, parseFloatMat? mat with
    | some eps, some ncol, some rows =>
      match ensrank sortPool epsMin eps ncol rows with
      | .ok (f, r) => "ok " ++ fmtMatF f ++ " " ++ fmtFloatList r
      | .error .evalue => "err evalue"
      | .error .esize => "err esize"
    | _, _, _ => "bad-op"
  | ["fpair", eps, e1, e2] =>
    match floatTok? eps, parseFloatList? e1, parseFloatList? e2 with
    | some eps, some e1, some e2 => hexOfFloat (fpair sortPool eps e1 e2)
    | _, _, _ => "bad-op"
  | ["dscore", eps, ncol, obs, mat] =>
    match floatTok? eps, ncol.toNat?, parseFloatList? obs, parseFloatMat? mat with
    | some eps, some ncol, some obs, some rows => fmtO (dscore sortPool epsMin eps ncol obs rows)
    | _, _, _, _ => "bad-op"
  | ["dscorer", eps, ncol, oranks, mat] =>
    match floatTok? eps, ncol.toNat?, parseNatList? oranks, parseFloatMat? mat with
    | some eps, some ncol, some oranks, some rows => fmtO (dscoreWith sortPool epsMin eps ncol oranks rows)
    | _, _, _, _ => "bad-op"
  | ["oranks", obs] =>
    match parseFloatList? obs with
    | some obs => fmtNatList (stableRanks obs)
    | none => "bad-op"
  | ["pitr", cst, obs, dobs, ens, dens] =>
    match floatTok? cst, floatTok? obs, floatTok? dobs, parseFloatList? ens, parseFloatList? dens with
    | some cst, some obs, some dobs, some ens, some dens => hexOfFloat (pitRandom cst obs dobs ens dens)
    | _, _, _, _, _ => "bad-op"
  | ["pitk", obs, ens] =>
    match floatTok? obs, parseFloatList? ens with
    | some obs, some ens => hexOfFloat (pitRank obs ens)
    | _, _ => "bad-op"
  | ["sudo", eps, censor, obs, ens] =>
    match floatTok? eps, floatTok? censor, floatTok? obs, parseFloatList? ens with
    | some eps, some censor, some obs, some ens => toString (isSudo eps censor obs ens)
    | _, _, _, _ => "bad-op"
  | ["cvm", data] =>
    match parseFloatList? data with
    | some data => hexOfFloat (cvmStat sortF data)
    | none => "bad-op"
  | ["cvmq", data] =>
    match parseRatList? data with
    | some data => fmtRat (cvmStat sortQ data)
    | none => "bad-op"
  | ["ad", data] =>
    match parseFloatList? data with
    | some data =>
      match adTest sortAD (-1e-300 : Float) (data.map optNaN) with
      | .ok s => "ok " ++ hexOfFloat s ++ " " ++ hexOfFloat (adPvalue data.length s)
      | .error .range => "err range"
      | .error .nan => "err nan"
      | .error .unsorted => "err unsorted"
    | none => "bad-op"
  | ["cvmp", stat, qq, cdf] =>
    match floatTok? stat, parseFloatList? qq, parseFloatList? cdf with
    | some stat, some qq, some cdf => fmtO (interp stat qq cdf)
    | _, _, _ => "bad-op"
  | ["alpha", typ, obs, dobs, ens, dens] =>
    match parseFloatList? obs, parseFloatList? dobs, parseFloatMat? ens, parseFloatMat? dens with
    | some obs, some dobs, some ens, some dens =>
      if typ = "CV" then
        let r := alphaCV sortF (0.3 : Float) obs dobs ens dens
        hexOfFloat r.1 ++ " " ++ fmtO r.2
      else if typ = "AD" then
        match alphaAD sortAD (-1e-300 : Float) (0.3 : Float) obs dobs ens dens with
        | .ok r => "ok " ++ hexOfFloat r.1 ++ " " ++ hexOfFloat r.2
        | .error _ => "err"
      else "bad-op"
    | _, _, _, _ => "bad-op"
  | ["checkens", obs, ens] =>
    match parseFloatList? obs, parseFloatMat? ens with
    | some obs, some ens =>
      match checkEnsemble (obs.map optNaN) (ens.map fun r => r.map optNaN) with
      | .ok k => "ok " ++ fmtFloatList (k.map (·.1)) ++ " " ++ toString k.length
      | .error .lengthMismatch => "err lengthMismatch"
      | .error .noValidData => "err noValidData"
    | _, _ => "bad-op"
  | ["cvmpg", n, stat] =>
    match n.toNat?, floatTok? stat with
    | some n, some stat => fmtO (cvmPvalue n stat)
    | _, _ => "bad-op"
  | ["cvmidx", n, sizes] =>
    match n.toNat?, parseNatList? sizes with
    | some n, some sizes => match closestIdx n sizes with | some i => s!"some {i}" | none => "none"
    | _, _ => "bad-op"
  | _ => "bad-op"

def main : IO Unit := serve handle
