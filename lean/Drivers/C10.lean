import HydroVerif.Proto
import HydroVerif.Model.C10Entry
open HydroVerif HydroVerif.C10

/-- stable merge sort driven by the tolerant comparator of c_dscore.c (eps = 1e-8 there) -/
def sortPool (l : List (Float × Nat)) : List (Float × Nat) := l.mergeSort (leTol (1e-8 : Float))

/-- `np.sort` on finite data: the model's `sortAsc` -/
def sortF (l : List Float) : List Float := sortAsc l
def sortQ (l : List Rat) : List Rat := sortAsc l

/-- the `qsort` of `c_ad_test`: the model's `sortADm` (comparator of c_andersondarling.c) -/
def sortAD (l : List (Option Float)) : List (Option Float) := sortADm l

def optNaN (x : Float) : Option Float := if x.isNaN then none else some x

def fmtO : Option Float → String
  | none => "none"
  | some x => "some " ++ hexOfFloat x

def fmtMatF (rows : List (List Float)) : String :=
  "[" ++ ";".intercalate (rows.map fun r => ",".intercalate (r.map hexOfFloat)) ++ "]"

def epsMin : Float := 1e-20

def kindTok? (s : String) : Option PctKind :=
  if s = "rank" then some .rank else if s = "weak" then some .weak else if s = "strict" then some .strict
  else if s = "mean" then some .mean else none

def fmtEnsErr : EnsErr → String
  | .lengthMismatch => "lengthMismatch"
  | .noValidData => "noValidData"
  | .obsNotOneD => "obsNotOneD"

/-- layout token `vec`, `scalar` or `mat:<ncol>`, then the data (list / one-element list / matrix; NaN = missing) -/
def arrTok? (lay data : String) : Option (ArrIn (Option Float)) :=
  if lay = "vec" then (parseFloatList? data).map fun l => .vec (l.map optNaN)
  else if lay = "scalar" then
    match parseFloatList? data with
    | some [a] => some (.scalar (optNaN a))
    | _ => none
  else match lay.splitOn ":" with
    | ["mat", c] =>
      match c.toNat?, parseFloatMat? data with
      | some c, some rows => some (.mat c (rows.map fun r => r.map optNaN))
      | _, _ => none
    | _ => none

def simTok? (lay data : String) : Option (SimIn Float) :=
  if lay = "vec" then (parseFloatList? data).map .vec
  else match lay.splitOn ":" with
    | ["mat", c] =>
      match c.toNat?, parseFloatMat? data with
      | some c, some rows => some (.mat c rows)
      | _, _ => none
    | _ => none

/-- operations of a buffer history: `call <eps> <ncol> <mat>`, `scr <k> <fval> <rval>` (the caller replaces its buffers
by k x k / k arrays filled with the two values) -/
def parseOps? : List String → Option (List (BufOp Float))
  | [] => some []
  | "call" :: eps :: ncol :: mat :: rest =>
    match floatTok? eps, ncol.toNat?, parseFloatMat? mat, parseOps? rest with
    | some eps, some ncol, some rows, some ops => some (.call eps ncol rows :: ops)
    | _, _, _, _ => none
  | "scr" :: k :: fv :: rv :: rest =>
    match k.toNat?, floatTok? fv, floatTok? rv, parseOps? rest with
    | some k, some fv, some rv, some ops =>
      some (.scribble (List.replicate k (List.replicate k fv)) (List.replicate k rv) :: ops)
    | _, _, _, _ => none
  | _ => none

def fmtReply : BufReply Float → String
  | .done => "done"
  | .assertion => "assert"
  | .code .evalue => "code:evalue"
  | .code .esize => "code:esize"
  | .ok up rk => "ok:" ++ fmtMatF up ++ ":" ++ fmtFloatList rk

def handle (toks : List String) : String :=
  match toks with
  | ["ensrank", eps, ncol, mat] =>
    match floatTok? eps, ncol.toNat?, parseFloatMat? mat with
    | some eps, some ncol, some rows =>
      match ensrank sortPool epsMin eps ncol rows with
      | .ok (f, r) => "ok " ++ fmtMatF f ++ " " ++ fmtFloatList r
      | .error .evalue => "err evalue"
      | .error .esize => "err esize"
    | _, _, _ => "bad-op"
  | ["fpair", eps, e1, e2] =>
    match floatTok? eps, parseFloatList? e1, parseFloatList? e2 with
    | some eps, some e1, some e2 => hexOfFloat (fpair sortPool eps e1 e2)
    | _, _, _ => "bad-op"
  | ["dscore", eps, ncol, obs, mat] =>
    match floatTok? eps, ncol.toNat?, parseFloatList? obs, parseFloatMat? mat with
    | some eps, some ncol, some obs, some rows => fmtO (dscore sortPool epsMin eps ncol obs rows)
    | _, _, _, _ => "bad-op"
  | ["dscorer", eps, ncol, oranks, mat] =>
    match floatTok? eps, ncol.toNat?, parseNatList? oranks, parseFloatMat? mat with
    | some eps, some ncol, some oranks, some rows => fmtO (dscoreWith sortPool epsMin eps ncol oranks rows)
    | _, _, _, _ => "bad-op"
  | ["oranks", obs] =>
    match parseFloatList? obs with
    | some obs => fmtNatList (stableRanks obs)
    | none => "bad-op"
  | ["pitr", cst, obs, dobs, ens, dens] =>
    match floatTok? cst, floatTok? obs, floatTok? dobs, parseFloatList? ens, parseFloatList? dens with
    | some cst, some obs, some dobs, some ens, some dens => hexOfFloat (pitRandom cst obs dobs ens dens)
    | _, _, _, _, _ => "bad-op"
  | ["pitk", obs, ens] =>
    match floatTok? obs, parseFloatList? ens with
    | some obs, some ens => hexOfFloat (pitRank obs ens)
    | _, _ => "bad-op"
  | ["sudo", eps, censor, obs, ens] =>
    match floatTok? eps, floatTok? censor, floatTok? obs, parseFloatList? ens with
    | some eps, some censor, some obs, some ens => toString (isSudo eps censor obs ens)
    | _, _, _, _ => "bad-op"
  | ["cvm", data] =>
    match parseFloatList? data with
    | some data => hexOfFloat (cvmStat sortF data)
    | none => "bad-op"
  | ["cvmq", data] =>
    match parseRatList? data with
    | some data => fmtRat (cvmStat sortQ data)
    | none => "bad-op"
  | ["ad", data] =>
    match parseFloatList? data with
    | some data =>
      match adTest sortAD (-1e-300 : Float) (data.map optNaN) with
      | .ok s => "ok " ++ hexOfFloat s ++ " " ++ hexOfFloat (adPvalue data.length s)
      | .error .range => "err range"
      | .error .nan => "err nan"
      | .error .unsorted => "err unsorted"
    | none => "bad-op"
  | ["cvmp", stat, qq, cdf] =>
    match floatTok? stat, parseFloatList? qq, parseFloatList? cdf with
    | some stat, some qq, some cdf => fmtO (interp stat qq cdf)
    | _, _, _ => "bad-op"
  | ["alpha", typ, obs, dobs, ens, dens] =>
    match parseFloatList? obs, parseFloatList? dobs, parseFloatMat? ens, parseFloatMat? dens with
    | some obs, some dobs, some ens, some dens =>
      if typ = "CV" then
        let r := alphaCV sortF (0.3 : Float) obs dobs ens dens
        hexOfFloat r.1 ++ " " ++ fmtO r.2
      else if typ = "AD" then
        match alphaAD sortAD (-1e-300 : Float) (0.3 : Float) obs dobs ens dens with
        | .ok r => "ok " ++ hexOfFloat r.1 ++ " " ++ hexOfFloat r.2
        | .error _ => "err"
      else "bad-op"
    | _, _, _, _ => "bad-op"
  | ["checkens", obs, ens] =>
    match parseFloatList? obs, parseFloatMat? ens with
    | some obs, some ens =>
      match checkEnsemble (obs.map optNaN) (ens.map fun r => r.map optNaN) with
      | .ok k => "ok " ++ fmtFloatList (k.map (·.1)) ++ " " ++ toString k.length
      | .error e => "err " ++ fmtEnsErr e
    | _, _ => "bad-op"
  | ["cvmpg", n, stat] =>
    match n.toNat?, floatTok? stat with
    | some n, some stat => fmtO (cvmPvalue n stat)
    | _, _ => "bad-op"
  | ["cvmidx", n, sizes] =>
    match n.toNat?, parseNatList? sizes with
    | some n, some sizes => match closestIdx n sizes with | some i => s!"some {i}" | none => "none"
    | _, _ => "bad-op"
  | ["pitkind", kind, obs, ens] =>
    match kindTok? kind, floatTok? obs, parseFloatList? ens with
    | some k, some obs, some ens => hexOfFloat (pitKind k obs ens)
    | _, _, _ => "bad-op"
  | ["pitfr", cst, cnt, nens] =>
    match floatTok? cst, cnt.toNat?, nens.toNat? with
    | some cst, some cnt, some nens => hexOfFloat (pitFormulaR id (clampCst cst) cnt nens)
    | _, _, _ => "bad-op"
  | ["sudor", eps, censor, obs, ens] =>
    match floatTok? eps, floatTok? censor, floatTok? obs, parseFloatList? ens with
    | some eps, some censor, some obs, some ens => toString (isSudoR id eps censor obs ens)
    | _, _, _, _ => "bad-op"
  | ["pitentry", random, kind, cst, censor, olay, obs, elay, ens, dobs, dens] =>
    match kindTok? kind, floatTok? cst, floatTok? censor, arrTok? olay obs, arrTok? elay ens, parseFloatList? dobs,
      parseFloatMat? dens with
    | some k, some cst, some censor, some obs, some ens, some dobs, some dens =>
      match pitEntry (random = "1") k (1e-10 : Float) cst censor obs ens dobs dens with
      | .ok r => "ok " ++ fmtList (r.map fun q => fmtOptFloat q.1) ++ " " ++ fmtList (r.map fun q => toString q.2)
      | .error e => "err " ++ fmtEnsErr e
    | _, _, _, _, _, _, _ => "bad-op"
  | ["alphaentry", typ, olay, obs, elay, ens, dobs, dens] =>
    match arrTok? olay obs, arrTok? elay ens, parseFloatList? dobs, parseFloatMat? dens with
    | some obs, some ens, some dobs, some dens =>
      let t : AlphaType := if typ = "CV" then .cv else if typ = "AD" then .ad else if typ = "KS" then .ks else .other
      -- `ks` (scipy) is external: the statistic and p-value of type KS are not compared
      match alphaEntry sortF sortAD (fun _ => (0, 0)) t (1e-10 : Float) (-1e-300 : Float) (0.3 : Float) obs ens dobs dens with
      | .ok (st, pv, flags) => "ok " ++ hexOfFloat st ++ " " ++ fmtOptFloat pv ++ " " ++ fmtList (flags.map toString)
      | .error (.ens e) => "err " ++ fmtEnsErr e
      | .error .badType => "err badType"
      | .error (.adTest _) => "err adTest"
    | _, _, _, _ => "bad-op"
  | ["dscoreentry", eps, obs, slay, sim] =>
    match floatTok? eps, parseFloatList? obs, simTok? slay sim with
    | some eps, some obs, some sim =>
      match dscoreEntry sortPool epsMin eps obs sim with
      | .ok d => "ok " ++ fmtO d
      | .error .lengthMismatch => "err lengthMismatch"
    | _, _, _ => "bad-op"
  | ["dscoref", eps, ncol, obs, mat] =>
    match floatTok? eps, ncol.toNat?, parseFloatList? obs, parseFloatMat? mat with
    | some eps, some ncol, some obs, some rows =>
      fmtO (dscoreOfFin ((stableRanks obs).map fun (r : Nat) => (Nat.cast r : Float)) (franksOf sortPool epsMin eps ncol rows))
    | _, _, _, _ => "bad-op"
  | "bufrun" :: n :: opsToks =>
    match n.toNat?, parseOps? opsToks with
    | some n, some ops =>
      let b0 : Bufs Float := ⟨List.replicate n (List.replicate n 0), List.replicate n 0⟩
      let r := bufRun sortPool epsMin b0 ops
      let rep := "|".intercalate (r.2.map fmtReply)
      let fresh := "|".intercalate (ops.map fun op => fmtReply (replyOf sortPool epsMin op))
      rep ++ " final " ++ fmtMatF r.1.fmat ++ " " ++ fmtFloatList r.1.ranks ++ (if rep = fresh then " hf=1" else " hf=0")
    | _, _ => "bad-op"
  | _ => "bad-op"

def main : IO Unit := serve handle
