import HydroVerif.Proto
import HydroVerif.Model.C03
open HydroVerif HydroVerif.C03

/-- `(double)n` -/
local instance : NatCast Float := ⟨Float.ofNat⟩

def errName : Err → String
  | .shape => "shape" | .noValidData => "noValidData" | .nanMember => "nanMember" | .edom => "edom"
  | .obsNot1D => "obsNot1D" | .ensNot2D => "ensNot2D" | .assertion => "assertion" | .weightsLen => "weightsLen"

/-- stable merge sort (glibc's `qsort` is one too; the kernel only needs sorted + permutation) -/
def sortF (l : List Float) : List Float := l.mergeSort fun a b => decide (a ≤ b)
def sortQ (l : List Rat) : List Rat := l.mergeSort fun a b => decide (a ≤ b)

def optF (x : Float) : Option Float := if x.isNaN then none else some x

def ratOptTok? (s : String) : Option (Option Rat) :=
  if s = "nan" then some none else (ratTok? s).map some

def fmtOptRat : Option Rat → String
  | none => "nan"
  | some r => fmtRat r

def fmtResult {β : Type} (f : β → String) (fo : Option β → String) (r : Result β) : String :=
  let rows := r.table.map fun t => [f t.p, f t.a, f t.b, f t.g, fo t.o, fo t.r, fo t.c]
  s!"ok {f r.crps} {fo r.reli} {fo r.resol} {f r.unc} {fo r.pot} " ++ fmtList rows.flatten

/-- split a token list at the `|` tokens -/
def splitBar : List String → List (List String)
  | [] => [[]]
  | "|" :: t => [] :: splitBar t
  | x :: t => match splitBar t with
    | [] => [[x]]
    | g :: gs => (x :: g) :: gs

/-- one operation of a `pyxrun` history: `fill v` | `call useW isSorted n cols obs sim weights` -/
def parseOp? : List String → Option (Op Float)
  | ["fill", v] => (floatTok? v).map Op.fill
  | ["call", uw, is, n, cols, obs, sim, w] =>
    match uw.toInt?, is.toInt?, n.toNat?, cols.toNat?, parseFloatList? obs, parseFloatList? sim, parseFloatList? w with
    | some uw, some is, some n, some cols, some obs, some sim, some w =>
      if sim.length ≠ n * cols then none else some (Op.call uw is obs cols (reshape cols n sim) w)
    | _, _, _, _, _, _, _ => none
  | _ => none

/-- the history run through `runOps` (final content and outcomes), and the content after every prefix -/
def runHistory (m : Nat) (ops : List (Op Float)) : String :=
  let (fin, errs) := runOps sortF m (filled m 0) ops
  let states := (List.range ops.length).map fun k => (runOps sortF m (filled m 0) (ops.take (k + 1))).1
  let parts := (errs.zip states).map fun (e, st) =>
    match e with
    | some e => "err " ++ errName e ++ " " ++ fmtResult hexOfFloat fmtOptFloat st
    | none => fmtResult hexOfFloat fmtOptFloat st
  " | ".intercalate parts ++ " | final " ++ fmtResult hexOfFloat fmtOptFloat fin

def handle (toks : List String) : String :=
  match toks with
  | "pyxrun" :: m :: "|" :: rest =>
    match m.toNat?, allSome ((splitBar rest).map parseOp?) with
    | some m, some ops => runHistory m ops
    | _, _ => "bad-op"
  | ["crpsdef", n, m, obs, ens] =>
    match n.toNat?, m.toNat?, allSome ((listToks obs).map ratOptTok?), parseRatList? ens with
    | some n, some m, some obs, some ens =>
      if ens.length ≠ n * m ∨ obs.length ≠ n then "bad-op" else
      "ok " ++ fmtRat (definitionCrps obs (reshape m n ens))
    | _, _, _, _ => "bad-op"
  | ["crpsf", n, m, obs, ens] =>
    match n.toNat?, m.toNat?, parseFloatList? obs, parseFloatList? ens with
    | some n, some m, some obs, some ens =>
      if ens.length ≠ n * m then "bad-op" else
      match wrapper sortF m (obs.map optF) ((reshape m n ens).map (·.map optF)) with
      | .ok r => fmtResult hexOfFloat fmtOptFloat r
      | .error e => "err " ++ errName e
    | _, _, _, _ => "bad-op"
  | ["crpsq", n, m, obs, ens] =>
    match n.toNat?, m.toNat?, allSome ((listToks obs).map ratOptTok?), allSome ((listToks ens).map ratOptTok?) with
    | some n, some m, some obs, some ens =>
      if ens.length ≠ n * m then "bad-op" else
      match wrapper sortQ m obs (reshape m n ens) with
      | .ok r => fmtResult fmtRat fmtOptRat r
      | .error e => "err " ++ errName e
    | _, _, _, _ => "bad-op"
  | ["crpsnd", oshape, obs, eshape, ens] =>
    match parseNatList? oshape, parseNatList? eshape, parseFloatList? obs, parseFloatList? ens with
    | some oshape, some eshape, some obs, some ens =>
      if obs.length ≠ oshape.foldl (· * ·) 1 ∨ ens.length ≠ eshape.foldl (· * ·) 1 then "bad-op" else
      match wrapperNd sortF oshape (obs.map optF) eshape (ens.map optF) with
      | .ok r => fmtResult hexOfFloat fmtOptFloat r
      | .error e => "err " ++ errName e
    | _, _, _, _ => "bad-op"
  | _ => "bad-op"

def main : IO Unit := serve handle
