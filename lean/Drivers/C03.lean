import HydroVerif.Proto
import HydroVerif.Model.C03
open HydroVerif HydroVerif.C03

/-- `(double)n` -/
local instance : NatCast Float := ⟨Float.ofNat⟩

def errName : Err → String
  | .shape => "shape" | .noValidData => "noValidData" | .nanMember => "nanMember" | .edom => "edom"
  | .obsNot1D => "obsNot1D" | .ensNot2D => "ensNot2D"

/-- stable merge sort (glibc's `qsort` is one too; the kernel only needs sorted + permutation) -/
def sortF (l : List Float) : List Float := l.mergeSort fun a b => decide (a ≤ b)
def sortQ (l : List Rat) : List Rat := l.mergeSort fun a b => decide (a ≤ b)

def optF (x : Float) : Option Float := if x.isNaN then none else some x

def ratOptTok? (s : String) : Option (Option Rat) :=
  if s = "nan" then some none else (ratTok? s).map some

def fmtOptRat : Option Rat → String
  | none => "nan"
  | some r => fmtRat r

def fmtResult {β : Type} (f : β → String) (fo : Option β → String) (r : Result β) : String :=
  let rows := r.table.map fun t => [f t.p, f t.a, f t.b, f t.g, fo t.o, fo t.r, fo t.c]
  s!"ok {f r.crps} {fo r.reli} {fo r.resol} {f r.unc} {fo r.pot} " ++ fmtList rows.flatten

def handle (toks : List String) : String :=
  match toks with
  | ["crpsf", n, m, obs, ens] =>
    match n.toNat?, m.toNat?, parseFloatList? obs, parseFloatList? ens with
    | some n, some m, some obs, some ens =>
      if ens.length ≠ n * m then "bad-op" else
      match wrapper sortF m (obs.map optF) ((reshape m n ens).map (·.map optF)) with
      | .ok r => fmtResult hexOfFloat fmtOptFloat r
      | .error e => "err " ++ errName e
    | _, _, _, _ => "bad-op"
  | ["crpsq", n, m, obs, ens] =>
    match n.toNat?, m.toNat?, allSome ((listToks obs).map ratOptTok?), allSome ((listToks ens).map ratOptTok?) with
    | some n, some m, some obs, some ens =>
      if ens.length ≠ n * m then "bad-op" else
      match wrapper sortQ m obs (reshape m n ens) with
      | .ok r => fmtResult fmtRat fmtOptRat r
      | .error e => "err " ++ errName e
    | _, _, _, _ => "bad-op"
  | ["crpsnd", oshape, obs, eshape, ens] =>
    match parseNatList? oshape, parseNatList? eshape, parseFloatList? obs, parseFloatList? ens with
    | some oshape, some eshape, some obs, some ens =>
      if obs.length ≠ oshape.foldl (· * ·) 1 ∨ ens.length ≠ eshape.foldl (· * ·) 1 then "bad-op" else
      match wrapperNd sortF oshape (obs.map optF) eshape (ens.map optF) with
      | .ok r => fmtResult hexOfFloat fmtOptFloat r
      | .error e => "err " ++ errName e
    | _, _, _, _ => "bad-op"
  | _ => "bad-op"

def main : IO Unit := serve handle
