import HydroVerif.Proto
import HydroVerif.Model.C05
import HydroVerif.Generated.CKernels
open HydroVerif HydroVerif.C05

/-! Line protocol of the C05 footprint models.

`<kernel> <extents> <args…>`        → `ok <code>` | `oob <buf> <idx>` | `div0` | `ovf` | `fuel`
`need <kernel> <buffers> <args…>`   → `need b=n,…` the smallest extents with which the model runs without an
                                       out-of-bounds fault (found by growing the extent named in each fault),
                                       or `fault …` when the run ends with another fault / a negative index.
`<extents>` = `name=n,name=n,…` (missing buffers have extent 0); `<buffers>` = `name,name,…`.
Integer lists `[a,b,c]`; Boolean oracles as 0/1 lists; matrices `[a,b;c,d]`; `x` in a list of integer parts of
doubles = NaN/inf.

`cgen <function> <scalars> <buffer>…` → `ok <value> <written buffer>…` | `oob arg<k>|loc<k> <idx>` | `div0` | `ovf`
                                       runs the definition GENERATED from the C text (`Generated/CKernels.lean`,
                                       `CGen.run`): scalar arguments as one list, every pointer argument as its
                                       own list, in parameter order; uninitialised local arrays hold `CSem.driverJunk`. -/

def bufTable : List (String × Buf) := [
  ("aggindex", .aggindex), ("inputs", .inputs), ("outputs", .outputs), ("iend", .iend), ("data", .data),
  ("islin", .islin), ("varsec", .varsec), ("varvalues", .varvalues), ("hvalues", .hvalues), ("date", .date),
  ("date1", .date1), ("date2", .date2), ("daysInMonth", .daysInMonth), ("dayOfYear", .dayOfYear),
  ("params", .params), ("innov", .innov), ("prev", .prev), ("residuals", .residuals), ("obs", .obs),
  ("sim", .sim), ("weights", .weights), ("table", .table), ("decompos", .decompos), ("ensemb", .ensemb),
  ("work", .work), ("fmat", .fmat), ("ranks", .ranks), ("unifdata", .unifdata),
  ("isdominated", .isdominated), ("predictors", .predictors), ("tXXinv", .tXXinv), ("leverages", .leverages),
  ("xycoords", .xycoords), ("idxcell", .idxcell), ("rowcols", .rowcols), ("neighbours", .neighbours),
  ("nbloc", .nbloc), ("zslice", .zslice), ("xyslice", .xyslice), ("flowdircode", .flowdircode),
  ("flowdir", .flowdir), ("idxdown", .idxdown), ("idxup", .idxup), ("toacc", .toacc),
  ("accumulation", .accumulation), ("xyarea", .xyarea), ("npoints", .npoints), ("idxcells", .idxcells),
  ("idxcellsArea", .idxcellsArea), ("xypoints", .xypoints), ("altitude", .altitude), ("slopeval", .slopeval),
  ("points", .points), ("polygon", .polygon), ("xlim", .xlim), ("ylim", .ylim), ("inside", .inside),
  ("idxinlets", .idxinlets), ("buffer1", .buffer1), ("buffer2", .buffer2), ("buffer", .buffer), ("mask", .mask),
  ("idxboundary", .idxboundary), ("idxok", .idxok), ("rivdata", .rivdata), ("flowpaths", .flowpaths)]

def bufName (b : Buf) : String :=
  match b with
  | .arg k => s!"arg{k}"
  | .loc k => s!"loc{k}"
  | _ =>
    match bufTable.find? (fun p => p.2 == b) with
    | some p => p.1
    | none => "?"

def bufOf? (s : String) : Option Buf := (bufTable.find? (fun p => p.1 == s)).map (·.2)

/-- extents as an association list -/
abbrev EL := List (Buf × Nat)

def extOf (l : EL) : Ext := fun b => match l.find? (fun p => p.1 == b) with
  | some p => p.2
  | none => 0

def parseExt? (s : String) : Option EL :=
  if s = "-" then some [] else
  allSome ((s.splitOn ",").map fun t =>
    match t.splitOn "=" with
    | [n, v] => match bufOf? n, v.toNat? with
        | some b, some k => some (b, k)
        | _, _ => none
    | [n] => (bufOf? n).map fun b => (b, 0)
    | _ => none)

def fmtFault : Fault → String
  | .oob b i => s!"oob {bufName b} {i}"
  | .div0 => "div0"
  | .ovf => "ovf"
  | .fuel => "fuel"

def fmtR : R Int → String
  | .ok c => s!"ok {c}"
  | .error f => fmtFault f

def intsF (l : List Int) : Nat → Int := fun i => l.getD i 0
def boolF (l : List Int) : Nat → Bool := fun i => l.getD i 0 != 0
def bool2F (m : List (List Int)) : Nat → Nat → Bool := fun i j => (m.getD i []).getD j 0 != 0

def xint? (s : String) : Option XInt := if s = "x" then some none else s.toInt?.map some
def parseXList? (s : String) : Option (List XInt) := allSome ((listToks s).map xint?)
def xF (l : List XInt) : Nat → XInt := fun i => l.getD i none
def pairF (a b : List XInt) : Nat → XInt × XInt := fun i => (a.getD i none, b.getD i none)
def parseIntMat? (s : String) : Option (List (List Int)) :=
  allSome ((matToks s).map fun r => allSome (r.map String.toInt?))

/-- the model of one kernel as a function of the extents; `none` = malformed request -/
def kernel? (toks : List String) : Option (Ext → R Int) :=
  let I := String.toInt?
  let L := parseIntList?
  match toks with
  | ["aggregate", nval, idx] => do let n ← I nval; let l ← L idx; pure fun e => aggregate e n (intsF l)
  | ["flathomogen", nval, idx] => do let n ← I nval; let l ← L idx; pure fun e => flathomogen e n (intsF l)
  | ["islin", nval, np, lin] => do
      let n ← I nval; let p ← I np; let l ← L lin; pure fun e => islin e n p (boolF l)
  | ["eckhardt", nval, bad] => do let n ← I nval; let b ← I bad; pure fun e => eckhardt e n (b != 0)
  | ["var2h", nvalvar, nvalh, nbsec, rain, hstart, sec] => do
      let a ← I nvalvar; let b ← I nvalh; let c ← I nbsec; let d ← I rain; let h ← I hstart; let l ← L sec
      pure fun e => var2h e a b c d h (intsF l)
  | ["isleapyear", y] => do let y ← I y; pure fun _ => isleapyear y
  | ["daysinmonth", m] => do let m ← I m; pure fun _ => daysinmonth m
  | ["dayofyear", m, d] => do let m ← I m; let d ← I d; pure fun _ => dayofyear m d
  | ["add1month", d] => do let l ← L d; pure fun e => add1month e (intsF l)
  | ["add1day", d] => do let l ← L d; pure fun e => add1day e (intsF l)
  | ["getdate", inr, d4, d2, d0] => do
      let r ← I inr; let a ← xint? d4; let b ← xint? d2; let c ← xint? d0
      pure fun e => getdate e (r != 0) a b c
  | ["comparedates", a, b] => do let x ← L a; let y ← L b; pure fun e => comparedates e (intsF x) (intsF y)
  | ["combi", n, k] => do let n ← I n; let k ← I k; pure fun _ => combi n k
  | ["armodelsim", nval, np, pnan, bad] => do
      let n ← I nval; let p ← I np; let l ← L pnan; let b ← I bad
      pure fun e => armodelSim e n p (boolF l) (b != 0)
  | ["armodelres", nval, np, pnan, bad, xnan] => do
      let n ← I nval; let p ← I np; let l ← L pnan; let b ← I bad; let x ← L xnan
      pure fun e => armodelResidual e n p (boolF l) (b != 0) (boolF x)
  | ["crps", nval, ncol, usew, uns] => do
      let n ← I nval; let c ← I ncol; let w ← I usew; let m ← parseIntMat? uns
      pure fun e => crps e n c w (bool2F m)
  | ["ensrank", nval, ncol, bad] => do
      let n ← I nval; let c ← I ncol; let b ← I bad; pure fun e => ensrank e n c (b != 0)
  | ["adtest", nval, bad] => do let n ← I nval; let l ← L bad; pure fun e => adTest e n (boolF l)
  | ["pareto", nval, ncol, dom] => do
      let n ← I nval; let c ← I ncol; let m ← parseIntMat? dom; pure fun e => paretofront e n c (bool2F m)
  | ["ols", nval, np] => do let n ← I nval; let p ← I np; pure fun e => olsleverage e n p
  | ["coord2cell", nr, nc, nval, fx, fy] => do
      let r ← I nr; let c ← I nc; let n ← I nval; let x ← parseXList? fx; let y ← parseXList? fy
      pure fun e => coord2cell e r c n (xF x) (xF y)
  | ["cell2rowcol", nr, nc, nval, cells] => do
      let r ← I nr; let c ← I nc; let n ← I nval; let l ← L cells; pure fun e => cell2rowcol e r c n (intsF l)
  | ["cell2coord", nr, nc, nval, cells] => do
      let r ← I nr; let c ← I nc; let n ← I nval; let l ← L cells; pure fun e => cell2coord e r c n (intsF l)
  | ["neighbours", nr, nc, idx] => do
      let r ← I nr; let c ← I nc; let i ← I idx; pure fun e => neighbours e r c i
  | ["upstream", nr, nc, nval, code, fdir, cells] => do
      let r ← I nr; let c ← I nc; let n ← I nval; let cd ← L code; let fd ← L fdir; let l ← L cells
      pure fun e => upstream e r c n (intsF cd) (intsF fd) (intsF l)
  | ["downstream", nr, nc, nval, code, fdir, cells] => do
      let r ← I nr; let c ← I nc; let n ← I nval; let cd ← L code; let fd ← L fdir; let l ← L cells
      pure fun e => downstream e r c n (intsF cd) (intsF fd) (intsF l)
  | ["accumulate", nr, nc, nprint, maxc, code, fdir] => do
      let r ← I nr; let c ← I nc; let p ← I nprint; let m ← I maxc; let cd ← L code; let fd ← L fdir
      pure fun e => accumulate e r c p m (intsF cd) (intsF fd)
  | ["slope", nr, nc, nprint, code, fdir] => do
      let r ← I nr; let c ← I nc; let p ← I nprint; let cd ← L code; let fd ← L fdir
      pure fun e => slope e r c p (intsF cd) (intsF fd)
  | ["slice", nr, nc, nval, x1, y1, x2, y2, x3, y3] => do
      let r ← I nr; let c ← I nc; let n ← I nval
      let a1 ← parseXList? x1; let b1 ← parseXList? y1; let a2 ← parseXList? x2; let b2 ← parseXList? y2
      let a3 ← parseXList? x3; let b3 ← parseXList? y3
      pure fun e => slice e r c n (pairF a1 b1) (pairF a2 b2) (pairF a3 b3)
  | ["intersect", nr, nc, nval, fx, fy] => do
      let r ← I nr; let c ← I nc; let n ← I nval; let x ← parseXList? fx; let y ← parseXList? fy
      pure fun e => intersect e r c n (pairF x y)
  | ["voronoi", nr, nc, ncells, npts, cells, closer] => do
      let r ← I nr; let c ← I nc; let n ← I ncells; let p ← I npts; let l ← L cells; let m ← parseIntMat? closer
      pure fun e => voronoi e r c n p (intsF l) (bool2F m)
  | ["inside", nprint, npts, nvert, outbox] => do
      let p ← I nprint; let n ← I npts; let v ← I nvert; let l ← L outbox
      pure fun e => inside e p n v (boolF l)
  | ["exclzero", nval] => do let n ← I nval; pure fun e => excludeZeroArea e n
  | ["river", nr, nc, nval, idx, code, fdir] => do
      let r ← I nr; let c ← I nc; let n ← I nval; let i ← I idx; let cd ← L code; let fd ← L fdir
      pure fun e => delineateRiver e r c n i (intsF cd) (intsF fd)
  | ["flowpath", nr, nc, nval, outlet, code, fdir, cells] => do
      let r ← I nr; let c ← I nc; let n ← I nval; let o ← I outlet; let cd ← L code; let fd ← L fdir
      let l ← L cells
      pure fun e => flowpathlengths e r c n o (intsF cd) (intsF fd) (intsF l)
  | ["boundary", nr, nc, nval, cells, mask] => do
      let r ← I nr; let c ← I nc; let n ← I nval; let l ← L cells; let m ← L mask
      pure fun e => delineateBoundary e r c n (intsF l) (intsF m)
  | ["area", nr, nc, nval, ninl, outlet, code, fdir, inlets] => do
      let r ← I nr; let c ← I nc; let n ← I nval; let k ← I ninl; let o ← I outlet
      let cd ← L code; let fd ← L fdir; let il ← L inlets
      pure fun e => delineateArea e r c n k o (intsF cd) (intsF fd) (intsF il)
  | _ => none

/-- grow the extent named by each out-of-bounds fault until the run is free of them -/
def needLoop (run : Ext → R Int) : Nat → EL → String
  | 0, _ => "fault nofixpoint"
  | fuel + 1, l =>
    match run (extOf l) with
    | .ok c =>
      s!"need {",".intercalate (l.map fun p => s!"{bufName p.1}={p.2}")} ok {c}"
    | .error (.oob b i) =>
      if i < 0 then s!"fault oob {bufName b} {i}"
      else if l.any (fun p => p.1 == b) then
        needLoop run fuel (l.map fun p => if p.1 == b then (p.1, i.toNat + 1) else p)
      else s!"fault oob {bufName b} {i}"
    | .error f => "fault " ++ fmtFault f

def fmtCG : R (Int × List (List Int)) → String
  | .ok (c, bs) => " ".intercalate (s!"ok {c}" :: bs.map fmtIntList)
  | .error f => fmtFault f

def handle (toks : List String) : String :=
  match toks with
  | "cgen" :: name :: xs :: bufs =>
    match parseIntList? xs, allSome (bufs.map parseIntList?) with
    | some xs, some bs =>
      match HydroVerif.CGen.run HydroVerif.CSem.driverJunk name xs bs with
      | some r => fmtCG r
      | none => "bad-op"
    | _, _ => "bad-op"
  | "need" :: name :: bufs :: args =>
    match parseExt? bufs, kernel? (name :: args) with
    | some l, some run => needLoop run 100000 l
    | _, _ => "bad-op"
  | name :: ext :: args =>
    match parseExt? ext, kernel? (name :: args) with
    | some l, some run => fmtR (run (extOf l))
    | _, _ => "bad-op"
  | _ => "bad-op"

def main : IO Unit := serve handle
