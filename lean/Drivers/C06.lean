import HydroVerif.Proto
import HydroVerif.Model.C06
import HydroVerif.Lemmas.C06Table
open HydroVerif HydroVerif.C06

/-
requests (integers in decimal, floats as 16 hex digits); `[fd]` is `flowdir.data.ravel()`; the direction-code
table is the generated `HydroVerif.Generated.FlowDir.codes`:
  codes                                              -> [9 ints]
  down nrows ncols [fd] [cells]                      -> ok:[cells] | err:badCell
  up nrows ncols [fd] [cells]                        -> ok:[9 ints;9 ints;...] | err:badCell
  area nrows ncols [fd] outlet [inlets]|none nval|none -> ok:[cells in storage order] | err:<kind>, then ` cyc` / ` acyc`
                                                        (cycleThroughOutlet: the property leaves error-or-bounded open)
  fillmask nrows ncols [area]                        -> none | i0 j0 nr nc [0/1,...;...]
  filled nrows ncols [area] [0/1,...;...]            -> [cells]   (2nd list = the mask returned by binary_fill_holes)
  river nrows ncols [fd] xll yll csz start nval      -> ok:[cell,dist,dx,dy,x,y;...] cyc|acyc (chainCyclic) | err:badCell
  fpath nrows ncols [fd] outlet [cells]              -> [end,length,nsteps,ndiag,capped;...]   (nval = number of cells)
  fpath_pinned ...                                   -> same with the step classification of the pinned kernel
  hist nrows ncols [fd] op;op;...                    -> reply|reply|...   one object, calls in order:
       D:outlet:[inlets]:nval  (ok:[area] | err:kind)     F  (ok:[start,end,length,capped,nsteps;...] | err:noArea)
       S:cell:code  (-)   G:[fd]  (-)   U:[cells] / W:[cells]  (as up / down on the current grid)
       R:start:nval  (ok:[cell,dist,dx,dy;...] | err:badCell on the current grid)
       A  (the accessor idxcells_area: ok:[area] | err:noArea)   I:cell  (isin: ok:1 | ok:0 | err:noArea)
       — run through `callRun` (interleaved state machine of the model)
  chain nrows ncols [fd] outlet start n              -> [chainCells n start] [0/1 chainSteps] lastcell goesOnCount length
  reach nrows ncols [fd] outlet [inlets]             -> [reachArea]   (brute-force reachability set, grid order)
  count n                                            -> countBy 1 n, countBy (1+1) n  (Float)
  esri                                               -> [m,dx,dy,pos,code at pos,code at 8-pos;...]  (esriDx/esriDy/esriPos of the table theorem)
-/

def codes : List Int := HydroVerif.Generated.FlowDir.codes

def mkGrid (nr nc : Int) (fd : List Int) : FlowGrid :=
  let arr := fd.toArray
  { nrows := nr, ncols := nc, fd := fun i => if i < 0 then 0 else arr.getD i.toNat 0 }

def errName : Err → String
  | .badCell => "badCell"
  | .badNval => "badNval"
  | .badOutlet => "badOutlet"
  | .badInlet => "badInlet"
  | .areaFull => "areaFull"
  | .bufferFull => "bufferFull"
  | .outletFull => "outletFull"
  | .noArea => "noArea"
  | .fuel => "fuel"

def fmtRows (rows : List (List String)) : String :=
  "[" ++ ";".intercalate (rows.map fun r => ",".intercalate r) ++ "]"

def fpathReply (g : FlowGrid) (diag : Int → Int → Bool) (outlet : Int) (cells : List Int) : String :=
  let nval := cells.length
  fmtRows (cells.map fun c =>
    let r := flowPathWith codes g outlet diag nval c
    let len : Float := pathLength r.2
    [toString r.1, hexOfFloat len, toString r.2.length, toString (r.2.filter id).length,
     if flowPathCapped codes g outlet nval c then "1" else "0"])

def tableReply (g : FlowGrid) (outlet : Int) (rows : List (Int × Int × List Bool)) : String :=
  fmtRows (rows.map fun r =>
    let len : Float := pathLength r.2.2
    [toString r.1, toString r.2.1, hexOfFloat len,
     if flowPathCapped codes g outlet rows.length r.1 then "1" else "0", toString r.2.2.length])

def cycTag (b : Bool) : String := if b then " cyc" else " acyc"

/-- one token of a history as a call of the model's interleaved state machine -/
def parseCall (g : FlowGrid) (tok : String) : Option HistCall :=
  match tok.splitOn ":" with
  | ["D", o, inl, nval] =>
    match o.toInt?, parseIntList? inl, nval.toInt? with
    | some o, some inl, some nval => some (.op (.delineate o inl nval))
    | _, _, _ => none
  | ["F"] => some (.op .flowpaths)
  | ["S", c, v] =>
    match c.toInt?, v.toInt? with
    | some c, some v => some (.op (.setCell c v))
    | _, _ => none
  | ["G", fd] =>
    match parseIntList? fd with
    | some fd => some (.op (.setGrid (mkGrid g.nrows g.ncols fd).fd))
    | none => none
  | ["U", cells] => (parseIntList? cells).map fun cs => .query (.upstream cs)
  | ["W", cells] => (parseIntList? cells).map fun cs => .query (.downstream cs)
  | ["R", start, nval] =>
    match start.toInt?, nval.toInt? with
    | some start, some nval => some (.query (.river start nval))
    | _, _ => none
  | ["A"] => some (.query .area)
  | ["I", c] => c.toInt?.map fun c => .query (.isin c)
  | _ => none

/-- the reply to one call; `s` is the state the call was made in (for the open-outcome flags only) -/
def fmtObs (s : CatchState) (g' : FlowGrid) (call : HistCall) (obs : CallObs Float) : String :=
  match call, obs with
  | .op (.delineate o inl _), .op (.area r) =>
    let tag := cycTag (cycleThroughOutlet codes g' o inl)
    match r with
    | .ok a => "ok:" ++ fmtIntList a ++ tag
    | .error e => "err:" ++ errName e ++ tag
  | _, .op (.table (.ok rows)) => "ok:" ++ tableReply g' (s.outlet.getD (-1)) rows
  | _, .op (.table (.error e)) => "err:" ++ errName e
  | _, .op .nothing => "-"
  | _, .query (.rows (.ok l)) => "ok:" ++ fmtRows (l.map fun r => r.map toString)
  | _, .query (.rows (.error e)) => "err:" ++ errName e
  | _, .query (.cells (.ok l)) => "ok:" ++ fmtIntList l
  | _, .query (.cells (.error e)) => "err:" ++ errName e
  | .query (.river start _), .query (.river (.ok rows)) =>
    "ok:" ++ fmtRows (rows.map fun r =>
      [toString r.cell, hexOfFloat r.dist, toString r.dx, toString r.dy]) ++ cycTag (chainCyclic codes g' start)
  | _, .query (.river (.error e)) => "err:" ++ errName e
  | _, .query (.flag (.ok b)) => if b then "ok:1" else "ok:0"
  | _, .query (.flag (.error e)) => "err:" ++ errName e
  | _, _ => "bad-op"

/-- a whole history through `callRun`; the state each call was made in is recomputed from the state-changing calls
before it (`histRun`, `opsOf`, `gridAfter` — the functions the history theorems are stated with) -/
def histReply (s0 : CatchState) (toks : List String) : String :=
  match toks.mapM (parseCall s0.grid) with
  | none => "bad-op"
  | some calls =>
    let obs := (callRun (α := Float) codes s0 calls).2
    let replies := (List.range calls.length).map fun i =>
      match calls[i]?, obs[i]? with
      | some c, some o =>
        let before := opsOf (calls.take i)
        fmtObs (histRun codes s0 before).1 (gridAfter s0.grid before) c o
      | _, _ => "bad-op"
    "|".intercalate replies

def handle (toks : List String) : String :=
  match toks with
  | ["codes"] => fmtIntList codes
  | ["down", nr, nc, fd, cells] =>
    match nr.toInt?, nc.toInt?, parseIntList? fd, parseIntList? cells with
    | some nr, some nc, some fd, some cs =>
      match mapCells (downstream codes (mkGrid nr nc fd)) cs with
      | .ok l => "ok:" ++ fmtIntList l
      | .error e => "err:" ++ errName e
    | _, _, _, _ => "bad-op"
  | ["up", nr, nc, fd, cells] =>
    match nr.toInt?, nc.toInt?, parseIntList? fd, parseIntList? cells with
    | some nr, some nc, some fd, some cs =>
      match mapCells (upstream codes (mkGrid nr nc fd)) cs with
      | .ok l => "ok:" ++ fmtRows (l.map fun r => (upstreamRow r).map toString)
      | .error e => "err:" ++ errName e
    | _, _, _, _ => "bad-op"
  | ["area", nr, nc, fd, outlet, inlets, nval] =>
    -- `none` for inlets / nval: the argument left at its default (delineateAreaPy)
    let inl? : Option (Option (List Int)) := if inlets == "none" then some none else (parseIntList? inlets).map some
    let nval? : Option (Option Int) := if nval == "none" then some none else nval.toInt?.map some
    match nr.toInt?, nc.toInt?, parseIntList? fd, outlet.toInt?, inl?, nval? with
    | some nr, some nc, some fd, some o, some inl, some nval =>
      let tag := cycTag (cycleThroughOutlet codes (mkGrid nr nc fd) o (inl.getD []))
      match delineateAreaPy codes (mkGrid nr nc fd) o inl nval with
      | .ok l => "ok:" ++ fmtIntList l ++ tag
      | .error e => "err:" ++ errName e ++ tag
    | _, _, _, _, _, _ => "bad-op"
  | ["fillmask", nr, nc, area] =>
    match nr.toInt?, nc.toInt?, parseIntList? area with
    | some nr, some nc, some area =>
      let g := mkGrid nr nc []
      match bbox g area with
      | none => "none"
      | some b =>
        let rows := (List.range b.nr).map fun r => (List.range b.nc).map fun c =>
          if areaMask g b area r c then "1" else "0"
        s!"{b.i0} {b.j0} {b.nr} {b.nc} {fmtRows rows}"
    | _, _, _ => "bad-op"
  | ["filled", nr, nc, area, mask] =>
    match nr.toInt?, nc.toInt?, parseIntList? area with
    | some nr, some nc, some area =>
      let rows := ((matToks mask).map fun r => (r.map fun t => t == "1").toArray).toArray
      let fill : Nat → Nat → (Nat → Nat → Bool) → (Nat → Nat → Bool) :=
        fun _ _ _ r c => (rows.getD r #[]).getD c false
      fmtIntList (areaFilled (mkGrid nr nc []) fill area)
    | _, _, _ => "bad-op"
  | ["river", nr, nc, fd, xll, yll, csz, start, nval] =>
    match nr.toInt?, nc.toInt?, parseIntList? fd, floatTok? xll, floatTok? yll, floatTok? csz,
          start.toInt?, nval.toInt? with
    | some nr, some nc, some fd, some xll, some yll, some csz, some start, some nval =>
      let g := mkGrid nr nc fd
      let geom : HydroVerif.C07.Geom Float := ⟨nr, nc, xll, yll, csz⟩
      match (delineateRiver codes g start nval : Except Err (List (RiverRow Float))) with
      | .ok rows => "ok:" ++ fmtRows (rows.map fun r =>
          let xy := HydroVerif.C07.getcoord geom r.cell
          [toString r.cell, hexOfFloat r.dist, toString r.dx, toString r.dy, hexOfFloat xy.1, hexOfFloat xy.2])
          ++ cycTag (chainCyclic codes g start)
      | .error e => "err:" ++ errName e
    | _, _, _, _, _, _, _, _ => "bad-op"
  | ["chain", nr, nc, fd, outlet, start, n] =>
    -- the spec-side chain functions: cells of the chain (cut at the first sink / exit), classification of its steps,
    -- the cell n steps down, how many of the first n flow-path iterations go on
    match nr.toInt?, nc.toInt?, parseIntList? fd, outlet.toInt?, start.toInt?, n.toNat? with
    | some nr, some nc, some fd, some o, some start, some n =>
      let g := mkGrid nr nc fd
      let cells := chainCells codes g n start
      let steps := chainSteps codes g (isDiag g.ncols) (cells.length - 1) start
      let len : Float := pathLength steps
      s!"{fmtIntList cells} {fmtIntList (steps.map fun b => if b then 1 else 0)} {chainCell codes g (cells.length - 1) start} {goesOnCount codes g o start n} {hexOfFloat len}"
    | _, _, _, _, _, _ => "bad-op"
  | ["reach", nr, nc, fd, outlet, inlets] =>
    match nr.toInt?, nc.toInt?, parseIntList? fd, outlet.toInt?, parseIntList? inlets with
    | some nr, some nc, some fd, some o, some inl => fmtIntList (reachArea codes (mkGrid nr nc fd) o inl)
    | _, _, _, _, _ => "bad-op"
  | ["esri"] =>
    -- the ESRI layout the table theorem is stated with: direction m, offsets, position, and the code found there
    fmtRows ((List.range 8).map fun m =>
      [toString m, toString (esriDx m), toString (esriDy m), toString (esriPos m),
       toString (codes.getD (esriPos m) (-1)), toString (codes.getD (8 - esriPos m) (-1))])
  | ["count", n] =>
    match n.toNat? with
    | some n => s!"{hexOfFloat (countBy (1 : Float) n)} {hexOfFloat (countBy (1 + 1 : Float) n)}"
    | none => "bad-op"
  | ["hist", nr, nc, fd, ops] =>
    match nr.toInt?, nc.toInt?, parseIntList? fd with
    | some nr, some nc, some fd => histReply (CatchState.init (mkGrid nr nc fd)) (ops.splitOn ";")
    | _, _, _ => "bad-op"
  | ["fpath", nr, nc, fd, outlet, cells] =>
    match nr.toInt?, nc.toInt?, parseIntList? fd, outlet.toInt?, parseIntList? cells with
    | some nr, some nc, some fd, some o, some cs =>
      let g := mkGrid nr nc fd
      fpathReply g (isDiag g.ncols) o cs
    | _, _, _, _, _ => "bad-op"
  | ["fpath_pinned", nr, nc, fd, outlet, cells] =>
    match nr.toInt?, nc.toInt?, parseIntList? fd, outlet.toInt?, parseIntList? cells with
    | some nr, some nc, some fd, some o, some cs =>
      let g := mkGrid nr nc fd
      fpathReply g (isDiagPinned g.ncols) o cs
    | _, _, _, _, _ => "bad-op"
  | _ => "bad-op"

def main : IO Unit := serve handle
