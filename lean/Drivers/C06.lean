import HydroVerif.Proto
import HydroVerif.Model.C06
open HydroVerif HydroVerif.C06

/-
requests (integers in decimal, floats as 16 hex digits); `[fd]` is `flowdir.data.ravel()`; the direction-code
table is the generated `HydroVerif.Generated.FlowDir.codes`:
  codes                                              -> [9 ints]
  down nrows ncols [fd] [cells]                      -> ok:[cells] | err:badCell
  up nrows ncols [fd] [cells]                        -> ok:[9 ints;9 ints;...] | err:badCell
  area nrows ncols [fd] outlet [inlets] nval         -> ok:[cells in storage order] | err:<kind>, then ` cyc` / ` acyc`
                                                        (cycleThroughOutlet: the property leaves error-or-bounded open)
  fillmask nrows ncols [area]                        -> none | i0 j0 nr nc [0/1,...;...]
  filled nrows ncols [area] [0/1,...;...]            -> [cells]   (2nd list = the mask returned by binary_fill_holes)
  river nrows ncols [fd] xll yll csz start nval      -> ok:[cell,dist,dx,dy,x,y;...] cyc|acyc (chainCyclic) | err:badCell
  fpath nrows ncols [fd] outlet [cells]              -> [end,length,nsteps,ndiag,capped;...]   (nval = number of cells)
  fpath_pinned ...                                   -> same with the step classification of the pinned kernel
  hist nrows ncols [fd] op;op;...                    -> reply|reply|...   one object, calls in order:
       D:outlet:[inlets]:nval  (ok:[area] | err:kind)     F  (ok:[start,end,length;...] | err:noArea)
       S:cell:code  (-)   G:[fd]  (-)   U:[cells] / W:[cells]  (as up / down on the current grid)
       R:start:nval  (ok:[cell,dist,dx,dy;...] | err:badCell on the current grid)
-/

def codes : List Int := HydroVerif.Generated.FlowDir.codes

def mkGrid (nr nc : Int) (fd : List Int) : FlowGrid :=
  let arr := fd.toArray
  { nrows := nr, ncols := nc, fd := fun i => if i < 0 then 0 else arr.getD i.toNat 0 }

def errName : Err → String
  | .badCell => "badCell"
  | .badNval => "badNval"
  | .badOutlet => "badOutlet"
  | .badInlet => "badInlet"
  | .areaFull => "areaFull"
  | .bufferFull => "bufferFull"
  | .outletFull => "outletFull"
  | .noArea => "noArea"
  | .fuel => "fuel"

def fmtRows (rows : List (List String)) : String :=
  "[" ++ ";".intercalate (rows.map fun r => ",".intercalate r) ++ "]"

def fpathReply (g : FlowGrid) (diag : Int → Int → Bool) (outlet : Int) (cells : List Int) : String :=
  let nval := cells.length
  fmtRows (cells.map fun c =>
    let r := flowPathWith codes g outlet diag nval c
    let len : Float := pathLength r.2
    [toString r.1, hexOfFloat len, toString r.2.length, toString (r.2.filter id).length,
     if flowPathCapped codes g outlet nval c then "1" else "0"])

def tableReply (g : FlowGrid) (outlet : Int) (rows : List (Int × Int × List Bool)) : String :=
  fmtRows (rows.map fun r =>
    let len : Float := pathLength r.2.2
    [toString r.1, toString r.2.1, hexOfFloat len,
     if flowPathCapped codes g outlet rows.length r.1 then "1" else "0"])

def cycTag (b : Bool) : String := if b then " cyc" else " acyc"

/-- one call of a history; queries (`U`, `W`, `R`) are evaluated on the grid the object holds now -/
def histOne (s : CatchState) (tok : String) : CatchState × String :=
  match tok.splitOn ":" with
  | ["D", o, inl, nval] =>
    match o.toInt?, parseIntList? inl, nval.toInt? with
    | some o, some inl, some nval =>
      let tag := cycTag (cycleThroughOutlet codes s.grid o inl)
      match histStep codes s (.delineate o inl nval) with
      | (s', .area (.ok a)) => (s', "ok:" ++ fmtIntList a ++ tag)
      | (s', .area (.error e)) => (s', "err:" ++ errName e ++ tag)
      | (s', _) => (s', "bad-op")
    | _, _, _ => (s, "bad-op")
  | ["F"] =>
    match histStep codes s .flowpaths with
    | (s', .table (.ok rows)) => (s', "ok:" ++ tableReply s.grid (s.outlet.getD (-1)) rows)
    | (s', .table (.error e)) => (s', "err:" ++ errName e)
    | (s', _) => (s', "bad-op")
  | ["S", c, v] =>
    match c.toInt?, v.toInt? with
    | some c, some v => ((histStep codes s (.setCell c v)).1, "-")
    | _, _ => (s, "bad-op")
  | ["G", fd] =>
    match parseIntList? fd with
    | some fd => ((histStep codes s (.setGrid (mkGrid s.grid.nrows s.grid.ncols fd).fd)).1, "-")
    | none => (s, "bad-op")
  | ["U", cells] =>
    match parseIntList? cells with
    | some cs =>
      match mapCells (upstream codes s.grid) cs with
      | .ok l => (s, "ok:" ++ fmtRows (l.map fun r => (upstreamRow r).map toString))
      | .error e => (s, "err:" ++ errName e)
    | none => (s, "bad-op")
  | ["W", cells] =>
    match parseIntList? cells with
    | some cs =>
      match mapCells (downstream codes s.grid) cs with
      | .ok l => (s, "ok:" ++ fmtIntList l)
      | .error e => (s, "err:" ++ errName e)
    | none => (s, "bad-op")
  | ["R", start, nval] =>
    match start.toInt?, nval.toInt? with
    | some start, some nval =>
      match (delineateRiver codes s.grid start nval : Except Err (List (RiverRow Float))) with
      | .ok rows => (s, "ok:" ++ fmtRows (rows.map fun r =>
          [toString r.cell, hexOfFloat r.dist, toString r.dx, toString r.dy]) ++ cycTag (chainCyclic codes s.grid start))
      | .error e => (s, "err:" ++ errName e)
    | _, _ => (s, "bad-op")
  | _ => (s, "bad-op")

def histReply (s : CatchState) (toks : List String) : String :=
  let r := toks.foldl (fun (acc : CatchState × List String) tok =>
    let r := histOne acc.1 tok
    (r.1, r.2 :: acc.2)) (s, [])
  "|".intercalate r.2.reverse

def handle (toks : List String) : String :=
  match toks with
  | ["codes"] => fmtIntList codes
  | ["down", nr, nc, fd, cells] =>
    match nr.toInt?, nc.toInt?, parseIntList? fd, parseIntList? cells with
    | some nr, some nc, some fd, some cs =>
      match mapCells (downstream codes (mkGrid nr nc fd)) cs with
      | .ok l => "ok:" ++ fmtIntList l
      | .error e => "err:" ++ errName e
    | _, _, _, _ => "bad-op"
  | ["up", nr, nc, fd, cells] =>
    match nr.toInt?, nc.toInt?, parseIntList? fd, parseIntList? cells with
    | some nr, some nc, some fd, some cs =>
      match mapCells (upstream codes (mkGrid nr nc fd)) cs with
      | .ok l => "ok:" ++ fmtRows (l.map fun r => (upstreamRow r).map toString)
      | .error e => "err:" ++ errName e
    | _, _, _, _ => "bad-op"
  | ["area", nr, nc, fd, outlet, inlets, nval] =>
    match nr.toInt?, nc.toInt?, parseIntList? fd, outlet.toInt?, parseIntList? inlets, nval.toInt? with
    | some nr, some nc, some fd, some o, some inl, some nval =>
      let tag := cycTag (cycleThroughOutlet codes (mkGrid nr nc fd) o inl)
      match wrapperArea codes (mkGrid nr nc fd) o inl nval with
      | .ok l => "ok:" ++ fmtIntList l ++ tag
      | .error e => "err:" ++ errName e ++ tag
    | _, _, _, _, _, _ => "bad-op"
  | ["fillmask", nr, nc, area] =>
    match nr.toInt?, nc.toInt?, parseIntList? area with
    | some nr, some nc, some area =>
      let g := mkGrid nr nc []
      match bbox g area with
      | none => "none"
      | some b =>
        let rows := (List.range b.nr).map fun r => (List.range b.nc).map fun c =>
          if areaMask g b area r c then "1" else "0"
        s!"{b.i0} {b.j0} {b.nr} {b.nc} {fmtRows rows}"
    | _, _, _ => "bad-op"
  | ["filled", nr, nc, area, mask] =>
    match nr.toInt?, nc.toInt?, parseIntList? area with
    | some nr, some nc, some area =>
      let rows := ((matToks mask).map fun r => (r.map fun t => t == "1").toArray).toArray
      let fill : Nat → Nat → (Nat → Nat → Bool) → (Nat → Nat → Bool) :=
        fun _ _ _ r c => (rows.getD r #[]).getD c false
      fmtIntList (areaFilled (mkGrid nr nc []) fill area)
    | _, _, _ => "bad-op"
  | ["river", nr, nc, fd, xll, yll, csz, start, nval] =>
    match nr.toInt?, nc.toInt?, parseIntList? fd, floatTok? xll, floatTok? yll, floatTok? csz,
          start.toInt?, nval.toInt? with
    | some nr, some nc, some fd, some xll, some yll, some csz, some start, some nval =>
      let g := mkGrid nr nc fd
      let geom : HydroVerif.C07.Geom Float := ⟨nr, nc, xll, yll, csz⟩
      match (delineateRiver codes g start nval : Except Err (List (RiverRow Float))) with
      | .ok rows => "ok:" ++ fmtRows (rows.map fun r =>
          let xy := HydroVerif.C07.getcoord geom r.cell
          [toString r.cell, hexOfFloat r.dist, toString r.dx, toString r.dy, hexOfFloat xy.1, hexOfFloat xy.2])
          ++ cycTag (chainCyclic codes g start)
      | .error e => "err:" ++ errName e
    | _, _, _, _, _, _, _, _ => "bad-op"
  | ["hist", nr, nc, fd, ops] =>
    match nr.toInt?, nc.toInt?, parseIntList? fd with
    | some nr, some nc, some fd => histReply (CatchState.init (mkGrid nr nc fd)) (ops.splitOn ";")
    | _, _, _ => "bad-op"
  | ["fpath", nr, nc, fd, outlet, cells] =>
    match nr.toInt?, nc.toInt?, parseIntList? fd, outlet.toInt?, parseIntList? cells with
    | some nr, some nc, some fd, some o, some cs =>
      let g := mkGrid nr nc fd
      fpathReply g (isDiag g.ncols) o cs
    | _, _, _, _, _ => "bad-op"
  | ["fpath_pinned", nr, nc, fd, outlet, cells] =>
    match nr.toInt?, nc.toInt?, parseIntList? fd, outlet.toInt?, parseIntList? cells with
    | some nr, some nc, some fd, some o, some cs =>
      let g := mkGrid nr nc fd
      fpathReply g (isDiagPinned g.ncols) o cs
    | _, _, _, _, _ => "bad-op"
  | _ => "bad-op"

def main : IO Unit := serve handle
