import HydroVerif.Proto
import HydroVerif.Model.C09
open HydroVerif HydroVerif.C09

/-- strings cross the protocol as lists of code points -/
def strOfToks (ts : List String) : Str := ts.filterMap fun t => t.toNat?.map Char.ofNat
def parseStr (tok : String) : Str := strOfToks (listToks tok)
def parseStrs (tok : String) : List Str := (matToks tok).map strOfToks
def fmtStr (s : Str) : String := ",".intercalate ("x" :: s.map fun c => toString c.toNat)
def fmtStrs (l : List Str) : String := "[" ++ ";".intercalate (l.map fmtStr) ++ "]"

def fmtOpened : Option Opened → String
  | none => "none"
  | some (.gz f) => s!"gz [{fmtStr f}]"
  | some (.plain f) => s!"plain [{fmtStr f}]"
  | some (.zipMember f m) => s!"zip [{fmtStr f}] [{fmtStr m}]"

def handle (toks : List String) : String :=
  match toks with
  | ["hdr", nrow, ncol, keys, vals, system] =>
    match nrow.toNat?, ncol.toNat? with
    | some nrow, some ncol =>
      let lines := csvhead nrow ncol ((parseStrs keys).zip (parseStrs vals)) (parseStrs system)
      let d := readHeader (lines.map (· ++ ['\n']))
      fmtStrs lines ++ " " ++ fmtStrs (d.map (·.1)) ++ " " ++ fmtStrs (d.map (·.2))
    | _, _ => "bad-op"
  | ["h2c", lines] =>
    let d := header2comment (parseStrs lines)
    fmtStrs (d.map (·.1)) ++ " " ++ fmtStrs (d.map (·.2))
  | ["name", name, compress] =>
    let nm := parseStr name
    let (full, member) := writeTarget nm (compress == "1")
    let rd := readTarget (fun f => f == full) nm
    s!"[{fmtStr full}] " ++ (match member with | some m => s!"[{fmtStr m}]" | none => "-") ++ " " ++ fmtOpened rd
  | ["check", name, files] =>
    let fs := parseStrs files
    match checkName (fun f => fs.contains f) (parseStr name) with
    | some f => s!"some [{fmtStr f}]"
    | none => "none"
  | ["row", fields] => "[" ++ fmtStr (writeRow (parseStrs fields)) ++ "]"
  | ["parse", line] => fmtStrs (parseRow (parseStr line))
  | ["cols", line] => fmtStrs (splitCols (parseStr line))
  | _ => "bad-op"

def main : IO Unit := serve handle
