import HydroVerif.Proto
import HydroVerif.Model.C09
import HydroVerif.Model.C09Num
import HydroVerif.Model.C09Fs
open HydroVerif HydroVerif.C09

/-- strings cross the protocol as lists of code points -/
def strOfToks (ts : List String) : Str := ts.filterMap fun t => t.toNat?.map Char.ofNat
def parseStr (tok : String) : Str := strOfToks (listToks tok)
def parseStrs (tok : String) : List Str := (matToks tok).map strOfToks
def fmtStr (s : Str) : String := ",".intercalate ("x" :: s.map fun c => toString c.toNat)
def fmtStrs (l : List Str) : String := "[" ++ ";".intercalate (l.map fmtStr) ++ "]"

def fmtOpened : Option Opened → String
  | none => "none"
  | some (.gz f) => s!"gz [{fmtStr f}]"
  | some (.plain f) => s!"plain [{fmtStr f}]"
  | some (.zipMember f m) => s!"zip [{fmtStr f}] [{fmtStr m}]"

def optStr (tok : String) : Option Str := if tok == "-" then none else some (parseStr tok)

def fmtOutcome : ReadOutcome → String
  | .text t => s!"t[{fmtStr t}]"
  | .notFound => "notFound"
  | .noMember => "noMember"
  | .wrongKind => "wrongKind"

def parseOp (tok : String) : Option Op :=
  match parseStrs tok with
  | [k, name, c, s, text] =>
    if k == ['w'] then some (.write name (c == ['1']) (s == ['1']) text) else none
  | [k, name] => if k == ['r'] then some (.read name) else none
  | _ => none

def parseAOp (tok : String) : Option AOp :=
  match parseStrs tok with
  | [k, m, text] => if k == ['w'] then some (.write m text) else none
  | [k, m] => if k == ['r'] then some (.read m) else none
  | _ => none

def fmtStored : Str × Stored → String
  | (f, .plain _) => s!"p[{fmtStr f}]"
  | (f, .zip ms) => s!"z[{fmtStr f}]" ++ fmtStrs (ms.map (·.1))

def ratOf (num den : String) : Option Rat :=
  match num.toInt?, den.toNat? with
  | some n, some d => if d = 0 then none else some ((n : Rat) / (d : Rat))
  | _, _ => none

def handle (toks : List String) : String :=
  match toks with
  | ["hdr", nrow, ncol, keys, vals, system] =>
    match nrow.toNat?, ncol.toNat? with
    | some nrow, some ncol =>
      let lines := csvhead nrow ncol ((parseStrs keys).zip (parseStrs vals)) (parseStrs system)
      let d := readHeader (lines.map (· ++ ['\n']))
      fmtStrs lines ++ " " ++ fmtStrs (d.map (·.1)) ++ " " ++ fmtStrs (d.map (·.2))
    | _, _ => "bad-op"
  | ["hdrf", nrow, ncol, kind, keys, vals, time, author, writeSys, getuser, path, name, sysvals] =>
    match nrow.toNat?, ncol.toNat? with
    | some nrow, some ncol =>
      let arg : CommentArg :=
        if kind == "str" then .str ((parseStrs vals).headD [])
        else if kind == "list" then .list (parseStrs vals)
        else .dict ((parseStrs keys).zip (parseStrs vals))
      let ws := writeSys == "1"
      let sys : Option SysInfo :=
        if ws then
          match parseStrs sysvals with
          | [wd, os, pv, pdv, npv] => some ⟨wd, os, pv, pdv, npv, none⟩
          | [wd, os, pv, pdv, npv, inc, lib] => some ⟨wd, os, pv, pdv, npv, some (inc, lib)⟩
          | _ => none
        else none
      let auth := resolveAuthor (optStr author) ws (optStr getuser)
      let lines := csvheadFull nrow ncol arg (systemPairs (parseStr time) auth (parseStr path) (parseStr name) sys)
      let d := readHeader (lines.map (· ++ ['\n']))
      fmtStrs lines ++ " " ++ fmtStrs (d.map (·.1)) ++ " " ++ fmtStrs (d.map (·.2))
    | _, _ => "bad-op"
  | ["h2c", lines] =>
    let d := header2comment (parseStrs lines)
    fmtStrs (d.map (·.1)) ++ " " ++ fmtStrs (d.map (·.2))
  | ["name", name, compress] =>
    let nm := parseStr name
    let (full, member) := writeTarget nm (compress == "1")
    let rd := readTarget (fun f => f == full) nm
    s!"[{fmtStr full}] " ++ (match member with | some m => s!"[{fmtStr m}]" | none => "-") ++ " " ++ fmtOpened rd
  | ["check", name, files] =>
    let fs := parseStrs files
    match checkName (fun f => fs.contains f) (parseStr name) with
    | some f => s!"some [{fmtStr f}]"
    | none => "none"
  | ["row", fields] => "[" ++ fmtStr (writeRow (parseStrs fields)) ++ "]"
  | ["parse", line] => fmtStrs (parseRow (parseStr line))
  | ["cols", line] => fmtStrs (splitCols (parseStr line))
  | "wfile" :: head :: names :: rows =>
    "[" ++ fmtStr (writeFile (parseStrs head) ⟨parseStrs names, rows.map parseStrs⟩) ++ "]"
  | ["rfile", text] =>
    match readFile (parseStr text) with
    | none => "none"
    | some r => " ".intercalate ([fmtStrs (r.comment.map (·.1)), fmtStrs (r.comment.map (·.2)), fmtStrs r.table.names]
        ++ r.table.rows.map fmtStrs)
  | ["fmtf", d, neg, num, den] =>
    match d.toNat?, ratOf num den with
    | some d, some q => "[" ++ fmtStr (fmtFixed d (neg == "1") q) ++ "]"
    | _, _ => "bad-op"
  | ["fmte", d, neg, num, den] =>
    match d.toNat?, ratOf num den with
    | some d, some q => "[" ++ fmtStr (fmtExp d (neg == "1") q) ++ "]"
    | _, _ => "bad-op"
  | ["fmti", z] =>
    match z.toInt? with
    | some z => "[" ++ fmtStr (fmtInt z) ++ "]"
    | none => "bad-op"
  | ["pnum", text] =>
    match parseSci (parseStr text) with
    | some q => fmtRat q
    | none => "none"
  | ["pint", text] =>
    match parseInt (parseStr text) with
    | some z => toString z
    | none => "none"
  | "fs" :: ops =>
    match allSome (ops.map parseOp) with
    | none => "bad-op"
    | some ops =>
      let (d, outs) := run [] ops
      " ".intercalate (("[" ++ ";".intercalate (d.map fmtStored) ++ "]") :: outs.map fmtOutcome)
  | "arc" :: ops =>
    match allSome (ops.map parseAOp) with
    | none => "bad-op"
    | some ops =>
      let (a, outs) := arun [] ops
      -- members, what each member reads as by the specification `firstWrite`, then the outcome of every operation
      " ".intercalate (fmtStrs (a.map (·.1)) :: fmtStrs (a.map fun e => (firstWrite ops e.1).getD ['?'])
        :: outs.map fun o => match o with | some t => s!"[{fmtStr t}]" | none => "none")
  | _ => "bad-op"

def main : IO Unit := serve handle
