import HydroVerif.Proto
import HydroVerif.Model.C20
import HydroVerif.Model.C20X
open HydroVerif HydroVerif.C20

instance : IntCast Float := ⟨Float.ofInt⟩

/-- a double as `c_paretofront` distinguishes it -/
def xOfFloat (x : Float) : XVal Float :=
  if x.isInf then (if x > 0 then .pinf else .ninf) else xOfOpt (if x.isNaN then none else some x)

/-- exact token: `nan`, `inf`, `-inf` or a rational -/
def xTok? (s : String) : Option (XVal Rat) :=
  if s = "nan" then some .nan else if s = "inf" then some .pinf else if s = "-inf" then some .ninf
  else (ratTok? s).map .fin

def boxOp? (s : String) : Option BoxOp :=
  if s = "draw" then some (.draw true true) else if s = "draw_empty" then some (.draw true false)
  else if s = "draw_fail" then some (.draw false true) else if s = "draw_fail_early" then some (.draw false false)
  else if s = "show_count" then some .showCount else if s = "set_ylim" then some .setYlim
  else if s = "set_color" then some .setColor else if s = "items" then some .setItems
  else if s = "hide_count" then some .hideCount else none

def errName : Err → String
  | .pmaxLength => "pmaxLength" | .pmaxLePmin => "pmaxLePmin" | .zeroSamples => "zeroSamples"
  | .drawsShape => "drawsShape" | .cstRange => "cstRange" | .hasNan => "hasNan"
  | .percentileRange => "percentileRange" | .boxCoverage => "boxCoverage"
  | .whiskersCoverage => "whiskersCoverage" | .oneCategory => "oneCategory" | .empty => "empty" | .ndim => "ndim"

/-- entries the code masks with `isnan | isinf` / `isfinite` -/
def optFinite (x : Float) : Option Float := if x.isFinite then some x else none
/-- entries the code tests with `isnan` only -/
def optNan (x : Float) : Option Float := if x.isNaN then none else some x

def fmtFloatMat (rows : List (List Float)) : String :=
  "[" ++ ";".intercalate (rows.map fun r => ",".intercalate (r.map hexOfFloat)) ++ "]"

def parseNatMat? (s : String) : Option (List (List Nat)) :=
  allSome ((matToks s).map fun r => allSome (r.map String.toNat?))

def fmtBoxVals (v : Option (BoxVals Float)) : String :=
  match v with
  | none => "nan"
  | some b => ",".intercalate ([b.w1, b.b1, b.med, b.b2, b.w2, b.mean, b.max, b.min].map hexOfFloat)

def fmtStatsList (l : List (Nat × Option (BoxVals Float))) : String :=
  ";".intercalate (l.map fun g => s!"{g.1}:{fmtBoxVals g.2}")

def rankMethod? (s : String) : Option RankMethod :=
  if s = "average" then some .average else if s = "min" then some .min else if s = "max" then some .max else none

def rankMethodX? (s : String) : Option RankMethodX :=
  if s = "first" then some .first else if s = "dense" then some .dense else (rankMethod? s).map .std

def handle (toks : List String) : String :=
  match toks with
  | ["lhs", n, pmin, pmax, perms, rs] =>
    match n.toNat?, parseFloatList? pmin, parseFloatList? pmax, parseNatMat? perms, parseFloatMat? rs with
    | some n, some pmin, some pmax, some perms, some rs =>
      match lhs n pmin pmax perms rs with
      | .ok cols => "ok " ++ fmtFloatMat cols
      | .error e => "err " ++ errName e
    | _, _, _, _, _ => "bad-op"
  | ["lhsq", n, pmin, pmax, perm, r] =>
    match n.toNat?, ratTok? pmin, ratTok? pmax, parseNatList? perm, parseRatList? r with
    | some n, some pmin, some pmax, some perm, some r =>
      match lhsColumn n pmin pmax perm r with
      | .ok col => "ok " ++ fmtRatList col
      | .error e => "err " ++ errName e
    | _, _, _, _, _ => "bad-op"
  | ["ppos", n, cst] =>
    match n.toNat?, floatTok? cst with
    | some n, some cst =>
      match ppos n cst with
      | .ok l => "ok " ++ fmtFloatList l
      | .error e => "err " ++ errName e
    | _, _ => "bad-op"
  | ["pposq", n, cst] =>
    match n.toNat?, ratTok? cst with
    | some n, some cst =>
      match ppos n cst with
      | .ok l => "ok " ++ fmtRatList l
      | .error e => "err " ++ errName e
    | _, _ => "bad-op"
  | ["snorm", meth, cst, x] =>
    match floatTok? cst, parseFloatList? x with
    | some cst, some x =>
      let x := x.map optNan
      let r := if meth = "sorted" then some (standardNormalSorted cst x)
               else if meth = "first" ∨ meth = "dense" then (rankMethodX? meth).map fun m => standardNormalX m cst x
               else (rankMethod? meth).map fun m => standardNormal m cst x
      match r with
      | some (.ok (u, ranks)) => "ok " ++ fmtFloatList u ++ " " ++ fmtFloatList ranks
      | some (.error e) => "err " ++ errName e
      | none => "bad-op"
    | _, _ => "bad-op"
  | ["snormq", meth, cst, x] =>
    -- exact-rational instance: integer data (any magnitude) are ranked as given
    match ratTok? cst, parseRatList? x with
    | some cst, some x =>
      let x := x.map some
      let r := if meth = "sorted" then some (standardNormalSorted cst x)
               else (rankMethodX? meth).map fun m => standardNormalX m cst x
      match r with
      | some (.ok (u, ranks)) => "ok " ++ fmtRatList u ++ " " ++ fmtRatList ranks
      | some (.error e) => "err " ++ errName e
      | none => "bad-op"
    | _, _ => "bad-op"
  | ["paretox", o, d] =>
    -- the kernel on any doubles (NaN, ±inf, finite); Float arithmetic is the rounding
    match o.toInt?, parseFloatMat? d with
    | some o, some d => fmtNatList (paretoFrontX id (Float.ofInt o) (d.map fun r => r.map xOfFloat))
    | _, _ => "bad-op"
  | ["paretoxq", o, d] =>
    -- the same kernel on exact rationals with IEEE rounding to 53 bits after the subtraction and the product
    match o.toInt?, allSome ((matToks d).map fun r => allSome (r.map xTok?)) with
    | some o, some d => fmtNatList (paretoFrontX rnd53 ((o : Int) : Rat) d)
    | _, _ => "bad-op"
  | ["paretow", nd, o, d] =>
    match nd.toNat?, o.toInt?, parseFloatMat? d with
    | some nd, some o, some d =>
      match paretoFrontWrap nd o (d.map fun r => r.map optNan) with
      | .ok l => "ok " ++ fmtNatList l
      | .error e => "err " ++ errName e
    | _, _, _ => "bad-op"
  | ["pposr", n, cst] =>
    -- exact rationals, every operation rounded to 53 bits: the doubles numpy computes
    match n.toNat?, ratTok? cst with
    | some n, some cst =>
      match pposR rnd53 n cst with
      | .ok l => "ok " ++ fmtRatList l
      | .error e => "err " ++ errName e
    | _, _ => "bad-op"
  | ["lhsunit", n, nvars, perms, rs] =>
    match n.toNat?, nvars.toNat?, parseNatMat? perms, parseFloatMat? rs with
    | some n, some nvars, some perms, some rs =>
      match lhsUnit n nvars perms rs with
      | .ok cols => "ok " ++ fmtFloatMat cols
      | .error e => "err " ++ errName e
    | _, _, _, _ => "bad-op"
  | ["boxdf", bcov, wcov, ncol, d] =>
    match floatTok? bcov, floatTok? wcov, ncol.toNat?, parseFloatMat? d with
    | some bcov, some wcov, some ncol, some d =>
      let cols := if d.isEmpty then List.replicate ncol [] else d
      match boxStatsCols (cols.map fun c => c.map optFinite) bcov wcov with
      | .ok l => "ok " ++ fmtStatsList l
      | .error e => "err " ++ errName e
    | _, _, _, _ => "bad-op"
  | ["boxhist", drawn, countText, strNames, ops] =>
    match allSome ((listToks ops).map boxOp?) with
    | some ops =>
      let s : BoxObj Unit := { stats := (), drawn := drawn = "1", elems := false, countText := countText = "1", strNames := strNames = "1" }
      let r := boxRun s ops
      fmtNatList (r.2.map fun b => if b then 1 else 0) ++ s!" {if r.1.drawn then 1 else 0} {if r.1.countText then 1 else 0}"
    | none => "bad-op"
  | ["vnpts", given, nrows] =>
    match nrows.toNat? with
    | some nrows => toString (violinNpts given.toNat? nrows)
    | none => "bad-op"
  | ["pareto", o, d] =>
    match o.toInt?, parseFloatMat? d with
    | some o, some d => fmtNatList (paretoFront (Float.ofInt o) (d.map fun r => r.map optNan))
    | _, _ => "bad-op"
  | ["paretond", nd, o, d] =>
    match nd.toNat?, o.toInt?, parseFloatMat? d with
    | some nd, some o, some d =>
      match paretoFrontNd nd (Float.ofInt o) (d.map fun r => r.map optNan) with
      | .ok l => "ok " ++ fmtNatList l
      | .error e => "err " ++ errName e
    | _, _, _ => "bad-op"
  | ["paretoneg", o, d] =>
    -- the right-hand side of `paretoFront_orientation_neg`: orientation `o` on the negated data
    match o.toInt?, parseFloatMat? d with
    | some o, some d => fmtNatList (paretoFront (Float.ofInt o) (negRows (d.map fun r => r.map optNan)))
    | _, _ => "bad-op"
  | ["pct", p, s] =>
    match floatTok? p, parseFloatList? s with
    | some p, some s =>
      match percentile (sortL s) p with
      | .ok v => "ok " ++ hexOfFloat v
      | .error e => "err " ++ errName e
    | _, _ => "bad-op"
  | ["pctq", p, s] =>
    match ratTok? p, parseRatList? s with
    | some p, some s =>
      match percentile (sortL s) p with
      | .ok v => "ok " ++ fmtRat v
      | .error e => "err " ++ errName e
    | _, _ => "bad-op"
  | ["box", bcov, wcov, d] =>
    match floatTok? bcov, floatTok? wcov, parseFloatList? d with
    | some bcov, some wcov, some d =>
      match boxStats (d.map optFinite) bcov wcov with
      | .ok (n, v) => s!"ok {n} {fmtBoxVals v}"
      | .error e => "err " ++ errName e
    | _, _, _ => "bad-op"
  | ["boxby", bcov, wcov, cats, d] =>
    match floatTok? bcov, floatTok? wcov, parseIntList? cats, parseFloatList? d with
    | some bcov, some wcov, some cats, some d =>
      match boxStatsBy cats (d.map optFinite) bcov wcov with
      | .ok gs => "ok " ++ ";".intercalate (gs.map fun g => s!"{g.1}:{g.2.1}:{fmtBoxVals g.2.2}")
      | .error e => "err " ++ errName e
    | _, _, _, _ => "bad-op"
  | ["boxcheck", bcov, wcov] =>
    match floatTok? bcov, floatTok? wcov with
    | some bcov, some wcov =>
      match boxplotCheck bcov wcov with
      | .ok _ => "ok"
      | .error e => "err " ++ errName e
    | _, _ => "bad-op"
  | ["vstats", d] =>
    match parseFloatList? d with
    | some d =>
      match violinStats (d.map optFinite) with
      | .ok none => "ok nan"
      | .ok (some v) => "ok " ++ ",".intercalate ([v.q0, v.q25, v.med, v.q75, v.q100].map hexOfFloat)
      | .error e => "err " ++ errName e
    | none => "bad-op"
  | ["vgrid", eps, npts, err, d] =>
    match floatTok? eps, npts.toNat?, parseFloatList? err, parseFloatList? d with
    | some eps, some npts, some err, some d =>
      match violinGrid eps (d.map optFinite) npts err with
      | .ok none => "ok none"
      | .ok (some (sel, x)) => "ok " ++ fmtFloatList sel ++ " " ++ fmtFloatList x
      | .error e => "err " ++ errName e
    | _, _, _, _ => "bad-op"
  | ["normr", y] =>
    -- exact rationals, the three operations rounded to 53 bits
    match parseRatList? y with
    | some y => match normaliseR rnd53 y with
      | some l => "ok " ++ fmtRatList l
      | none => "none"
    | none => "bad-op"
  | ["norm", y] =>
    match parseFloatList? y with
    | some y => match normalise y with
      | some l => "ok " ++ fmtFloatList l
      | none => "none"
    | none => "bad-op"
  | _ => "bad-op"

def main : IO Unit := serve handle
