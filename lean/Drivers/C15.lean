/-
C15 driver. Requests (floats as 16 hex digits, matrices `[x,y;x,y;…]`):
  pipf  <atol> <polygon> <points> <insideLen | -1>   Float model of gutils.points_inside_polygon
        -> `ok 0110…` | `err <name>`
  pipcall <atol> <polyWidth> <polygon> <ptsWidth> <points> <insideLen | -1> <insideIsInt32 0|1>
        the whole call with its shape / dtype guards (pairs = first two columns) -> as pipf
  pipq  <atol> <polygon> <points> <dx> <dy>          the same inputs converted exactly to Rat, (dx, dy) an integer ray direction:
        -> `ok <model> <evenOdd> <evenOddLeft> <evenOddLe> <evenOddDir (dx,dy)>` (five 0/1 strings) | `err <name>`
  cells <nrows> <ncols> <xll> <yll> <csz> <atolDefault> <polygon>   Float model of Grid.cells_inside_polygon
        -> `ok [cells] [x:y:cell,…]` (cell list and returned table) | `err <name>`
  centres <nrows> <ncols> <xll> <yll> <csz>          Float cell centres -> `[x,y;…]`
  pipcalln <nprint> <atol> <polyWidth> <polygon> <ptsWidth> <points> <insideLen | -1> <insideIsInt32 0|1>
        pipcall with the `nprint` argument (int32 conversion first) -> as pipf
  pipr  <atol> <polygon> <points>    inputs converted exactly to Rat; the model run in SIMULATED binary64 arithmetic
        (`Rd Rat rnd53`: every + - * / rounded to 53 bits, ties to even) and the decided hypotheses of the rounding theorems
        -> `ok <rounded answers> <sepRb 0|1> <gapRb per point> <rectb && repb 0|1> <evenOdd> <evenOddLe> <abscissaOkb, all points 0|1>`
  piphist <atol> <points> <polygon> <buffer [..] | -> op …   a whole history on one set of argument arrays (Float):
        ops `P:<mat>` `Y:<mat>` `A:<atol>` `B:<ints>` `D` `S:<int>` `Cn` `Cb` `Cf:<isInt32 0|1>:<len>`
        -> `<outcome|outcome|…> <final buffer | -> <outcomes of the memoryless specification>`, outcome = `ok:0110` / `err:<name>`
  gridhist <atolDefault> <nrows> <ncols> <xll> <yll> <csz> op …   a whole history on Grid objects (Float):
        ops `X:<i>:<v>` `Yl:<i>:<v>` `Z:<i>:<v>` `K:<i>` `Q:<i>:<polyWidth>:<polygon>`
        -> `<outcome|…> <number of objects>`, outcome = `ok/[cells]/[x:y:cell,…]` / `err/<name>`
-/
import HydroVerif.Proto
import HydroVerif.Model.C15
import HydroVerif.Model.C15Round
import HydroVerif.Model.C15Hist
open HydroVerif HydroVerif.C15

local instance : NatCast Float := ⟨Float.ofNat⟩

def errName : Err → String
  | .emptyPolygon => "emptyPolygon" | .insideLength => "insideLength"
  | .insideDtype => "insideDtype" | .shapeAssert => "shapeAssert" | .nprintRange => "nprintRange"

/-- exact value of a finite double -/
def ratOfFloat (f : Float) : Rat :=
  let b := f.toBits.toNat
  let neg := b / 2 ^ 63 == 1
  let e : Nat := (b / 2 ^ 52) % 2048
  let m : Nat := b % 2 ^ 52
  let mant : Nat := if e == 0 then m else 2 ^ 52 + m
  let ex : Int := (if e == 0 then 1 else (e : Int)) - 1075
  let mag : Rat := if ex ≥ 0 then ((mant * 2 ^ ex.toNat : Nat) : Rat) else mkRat mant (2 ^ (-ex).toNat)
  if neg then -mag else mag

def pairs? {β : Type} (rows : List (List β)) : Option (List (β × β)) :=
  allSome (rows.map fun r => match r with | [a, b] => some (a, b) | _ => none)

def bits (l : List Bool) : String := String.ofList (l.map fun b => if b then '1' else '0')

def fmtPairs (l : List (Float × Float)) : String :=
  "[" ++ ";".intercalate (l.map fun p => hexOfFloat p.1 ++ "," ++ hexOfFloat p.2) ++ "]"

def toQ (l : List (Float × Float)) : List (Rat × Rat) := l.map fun p => (ratOfFloat p.1, ratOfFloat p.2)

def fmtOutcome (r : Except Err (List Bool)) : String :=
  match r with
  | .ok l => "ok:" ++ bits l
  | .error e => "err:" ++ errName e

def fmtTable (r : Except Err (List (Float × Float × Nat))) : String :=
  match r with
  | .ok tb => "ok/" ++ fmtNatList (tb.map (·.2.2)) ++ "/" ++
      fmtList (tb.map fun r => hexOfFloat r.1 ++ ":" ++ hexOfFloat r.2.1 ++ ":" ++ toString r.2.2)
  | .error e => "err/" ++ errName e

def joinBar (l : List String) : String := if l.isEmpty then "-" else "|".intercalate l

def pipOp? (tok : String) : Option (PipOp Float) :=
  match tok.splitOn ":" with
  | ["P", m] => ((parseFloatMat? m).bind pairs?).map .setPoints
  | ["Y", m] => ((parseFloatMat? m).bind pairs?).map .setPolygon
  | ["A", a] => (floatTok? a).map .setAtol
  | ["B", l] => (parseIntList? l).map .newBuffer
  | ["D"] => some .dropBuffer
  | ["S", v] => v.toInt?.map .scribble
  | ["Cn"] => some (.call .none)
  | ["Cb"] => some (.call .buffer)
  | ["Cf", i, n] => n.toNat?.map fun n => .call (.foreign (i == "1") n)
  | _ => none

def gridOp? (tok : String) : Option (GridOp Float) :=
  match tok.splitOn ":" with
  | ["X", i, v] => match i.toNat?, floatTok? v with | some i, some v => some (.setXll i v) | _, _ => none
  | ["Yl", i, v] => match i.toNat?, floatTok? v with | some i, some v => some (.setYll i v) | _, _ => none
  | ["Z", i, v] => match i.toNat?, floatTok? v with | some i, some v => some (.setCsz i v) | _, _ => none
  | ["K", i] => i.toNat?.map .clone
  | ["Q", i, w, m] =>
    match i.toNat?, w.toNat?, (parseFloatMat? m).bind pairs? with
    | some i, some w, some poly => some (.query i w poly)
    | _, _, _ => none
  | _ => none

def handleHist (toks : List String) : Option String :=
  match toks with
  | "piphist" :: atol :: pts :: poly :: buf :: ops =>
    match floatTok? atol, (parseFloatMat? pts).bind pairs?, (parseFloatMat? poly).bind pairs?,
        (if buf == "-" then some none else (parseIntList? buf).map some), allSome (ops.map pipOp?) with
    | some atol, some pts, some poly, some buf, some ops =>
      let w : PipWorld Float := ⟨pts, poly, atol, buf⟩
      let r := pipRun w ops
      let a := pipAbsRun w.abs ops
      let fb := match r.2.buf with | some b => fmtIntList b | none => "-"
      some s!"{joinBar (r.1.map fmtOutcome)} {fb} {joinBar (a.1.map fmtOutcome)}"
    | _, _, _, _, _ => some "bad-op"
  | "gridhist" :: atol :: nrows :: ncols :: xll :: yll :: csz :: ops =>
    match floatTok? atol, nrows.toNat?, ncols.toNat?, floatTok? xll, floatTok? yll, floatTok? csz,
        allSome (ops.map gridOp?) with
    | some atol, some nrows, some ncols, some xll, some yll, some csz, some ops =>
      let r := gridRun atol [⟨nrows, ncols, xll, yll, csz⟩] ops
      some s!"{joinBar (r.1.map fmtTable)} {r.2.length}"
    | _, _, _, _, _, _, _ => some "bad-op"
  | _ => none

def handle (toks : List String) : String :=
  match handleHist toks with
  | some r => r
  | none =>
  match toks with
  | ["pipcalln", nprint, atol, pw, poly, tw, pts, ilen, i32] =>
    match nprint.toInt?, floatTok? atol, pw.toNat?, (parseFloatMat? poly).bind pairs?, tw.toNat?,
        (parseFloatMat? pts).bind pairs?, ilen.toInt? with
    | some nprint, some atol, some pw, some poly, some tw, some pts, some ilen =>
      match pointsInsidePolygonCallN nprint atol tw pts pw poly
          (if ilen < 0 then none else some (i32 == "1", ilen.toNat)) with
      | .ok l => "ok " ++ bits l
      | .error e => "err " ++ errName e
    | _, _, _, _, _, _, _ => "bad-op"
  | ["pipr", atol, poly, pts] =>
    match floatTok? atol, (parseFloatMat? poly).bind pairs?, (parseFloatMat? pts).bind pairs? with
    | some atol, some poly, some pts =>
      let a := ratOfFloat atol
      let pq := toQ poly
      let tq := toQ pts
      let b1 := fun (b : Bool) => if b then "1" else "0"
      s!"ok {bits (tq.map (pointInsideRounded rnd53 a pq))} {b1 (sepRb u53 a pq)} {bits (tq.map (gapRb u53 pq))} {b1 (rectb pq && repb pq)} {bits (tq.map (evenOdd pq))} {bits (tq.map (evenOddLe pq))} {b1 (tq.all (abscissaOkb pq))}"
    | _, _, _ => "bad-op"
  | ["pipf", atol, poly, pts, ilen] =>
    match floatTok? atol, (parseFloatMat? poly).bind pairs?, (parseFloatMat? pts).bind pairs?, ilen.toInt? with
    | some atol, some poly, some pts, some ilen =>
      match pointsInsidePolygonCall atol 2 pts 2 poly (if ilen < 0 then none else some (true, ilen.toNat)) with
      | .ok l => "ok " ++ bits l
      | .error e => "err " ++ errName e
    | _, _, _, _ => "bad-op"
  | ["pipcall", atol, pw, poly, tw, pts, ilen, i32] =>
    match floatTok? atol, pw.toNat?, (parseFloatMat? poly).bind pairs?, tw.toNat?, (parseFloatMat? pts).bind pairs?,
        ilen.toInt? with
    | some atol, some pw, some poly, some tw, some pts, some ilen =>
      match pointsInsidePolygonCall atol tw pts pw poly (if ilen < 0 then none else some (i32 == "1", ilen.toNat)) with
      | .ok l => "ok " ++ bits l
      | .error e => "err " ++ errName e
    | _, _, _, _, _, _ => "bad-op"
  | ["pipq", atol, poly, pts, dx, dy] =>
    match floatTok? atol, (parseFloatMat? poly).bind pairs?, (parseFloatMat? pts).bind pairs?, dx.toInt?, dy.toInt? with
    | some atol, some poly, some pts, some dx, some dy =>
      let a := ratOfFloat atol
      let pq := toQ poly
      let tq := toQ pts
      let d : Rat × Rat := ((dx : Rat), (dy : Rat))
      match pointsInsidePolygon a tq pq none with
      | .ok l => s!"ok {bits l} {bits (tq.map (evenOdd pq))} {bits (tq.map (evenOddLeft pq))} {bits (tq.map (evenOddLe pq))} {bits (tq.map (evenOddDir d pq))}"
      | .error e => "err " ++ errName e
    | _, _, _, _, _ => "bad-op"
  | ["cells", nrows, ncols, xll, yll, csz, atol, poly] =>
    match nrows.toNat?, ncols.toNat?, floatTok? xll, floatTok? yll, floatTok? csz, floatTok? atol,
        (parseFloatMat? poly).bind pairs? with
    | some nrows, some ncols, some xll, some yll, some csz, some atol, some poly =>
      match cellsInside nrows ncols xll yll csz atol poly, cellsInsideTable nrows ncols xll yll csz atol poly with
      | .ok l, .ok tb => "ok " ++ fmtNatList l ++ " " ++
          fmtList (tb.map fun r => hexOfFloat r.1 ++ ":" ++ hexOfFloat r.2.1 ++ ":" ++ toString r.2.2)
      | .error e, _ => "err " ++ errName e
      | _, .error e => "err " ++ errName e
    | _, _, _, _, _, _, _ => "bad-op"
  | ["centres", nrows, ncols, xll, yll, csz] =>
    match nrows.toNat?, ncols.toNat?, floatTok? xll, floatTok? yll, floatTok? csz with
    | some nrows, some ncols, some xll, some yll, some csz =>
      fmtPairs ((List.range (nrows * ncols)).map (cellCentre nrows ncols xll yll csz))
    | _, _, _, _, _ => "bad-op"
  | _ => "bad-op"

def main : IO Unit := serve handle
