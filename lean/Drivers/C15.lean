/-
C15 driver. Requests (floats as 16 hex digits, matrices `[x,y;x,y;…]`):
  pipf  <atol> <polygon> <points> <insideLen | -1>   Float model of gutils.points_inside_polygon
        -> `ok 0110…` | `err <name>`
  pipcall <atol> <polyWidth> <polygon> <ptsWidth> <points> <insideLen | -1> <insideIsInt32 0|1>
        the whole call with its shape / dtype guards (pairs = first two columns) -> as pipf
  pipq  <atol> <polygon> <points> <dx> <dy>          the same inputs converted exactly to Rat, (dx, dy) an integer ray direction:
        -> `ok <model> <evenOdd> <evenOddLeft> <evenOddLe> <evenOddDir (dx,dy)>` (five 0/1 strings) | `err <name>`
  cells <nrows> <ncols> <xll> <yll> <csz> <atolDefault> <polygon>   Float model of Grid.cells_inside_polygon
        -> `ok [cells] [x:y:cell,…]` (cell list and returned table) | `err <name>`
  centres <nrows> <ncols> <xll> <yll> <csz>          Float cell centres -> `[x,y;…]`
-/
import HydroVerif.Proto
import HydroVerif.Model.C15
open HydroVerif HydroVerif.C15

local instance : NatCast Float := ⟨Float.ofNat⟩

def errName : Err → String
  | .emptyPolygon => "emptyPolygon" | .insideLength => "insideLength"
  | .insideDtype => "insideDtype" | .shapeAssert => "shapeAssert"

/-- exact value of a finite double -/
def ratOfFloat (f : Float) : Rat :=
  let b := f.toBits.toNat
  let neg := b / 2 ^ 63 == 1
  let e : Nat := (b / 2 ^ 52) % 2048
  let m : Nat := b % 2 ^ 52
  let mant : Nat := if e == 0 then m else 2 ^ 52 + m
  let ex : Int := (if e == 0 then 1 else (e : Int)) - 1075
  let mag : Rat := if ex ≥ 0 then ((mant * 2 ^ ex.toNat : Nat) : Rat) else mkRat mant (2 ^ (-ex).toNat)
  if neg then -mag else mag

def pairs? {β : Type} (rows : List (List β)) : Option (List (β × β)) :=
  allSome (rows.map fun r => match r with | [a, b] => some (a, b) | _ => none)

def bits (l : List Bool) : String := String.ofList (l.map fun b => if b then '1' else '0')

def fmtPairs (l : List (Float × Float)) : String :=
  "[" ++ ";".intercalate (l.map fun p => hexOfFloat p.1 ++ "," ++ hexOfFloat p.2) ++ "]"

def toQ (l : List (Float × Float)) : List (Rat × Rat) := l.map fun p => (ratOfFloat p.1, ratOfFloat p.2)

def handle (toks : List String) : String :=
  match toks with
  | ["pipf", atol, poly, pts, ilen] =>
    match floatTok? atol, (parseFloatMat? poly).bind pairs?, (parseFloatMat? pts).bind pairs?, ilen.toInt? with
    | some atol, some poly, some pts, some ilen =>
      match pointsInsidePolygonCall atol 2 pts 2 poly (if ilen < 0 then none else some (true, ilen.toNat)) with
      | .ok l => "ok " ++ bits l
      | .error e => "err " ++ errName e
    | _, _, _, _ => "bad-op"
  | ["pipcall", atol, pw, poly, tw, pts, ilen, i32] =>
    match floatTok? atol, pw.toNat?, (parseFloatMat? poly).bind pairs?, tw.toNat?, (parseFloatMat? pts).bind pairs?,
        ilen.toInt? with
    | some atol, some pw, some poly, some tw, some pts, some ilen =>
      match pointsInsidePolygonCall atol tw pts pw poly (if ilen < 0 then none else some (i32 == "1", ilen.toNat)) with
      | .ok l => "ok " ++ bits l
      | .error e => "err " ++ errName e
    | _, _, _, _, _, _ => "bad-op"
  | ["pipq", atol, poly, pts, dx, dy] =>
    match floatTok? atol, (parseFloatMat? poly).bind pairs?, (parseFloatMat? pts).bind pairs?, dx.toInt?, dy.toInt? with
    | some atol, some poly, some pts, some dx, some dy =>
      let a := ratOfFloat atol
      let pq := toQ poly
      let tq := toQ pts
      let d : Rat × Rat := ((dx : Rat), (dy : Rat))
      match pointsInsidePolygon a tq pq none with
      | .ok l => s!"ok {bits l} {bits (tq.map (evenOdd pq))} {bits (tq.map (evenOddLeft pq))} {bits (tq.map (evenOddLe pq))} {bits (tq.map (evenOddDir d pq))}"
      | .error e => "err " ++ errName e
    | _, _, _, _, _ => "bad-op"
  | ["cells", nrows, ncols, xll, yll, csz, atol, poly] =>
    match nrows.toNat?, ncols.toNat?, floatTok? xll, floatTok? yll, floatTok? csz, floatTok? atol,
        (parseFloatMat? poly).bind pairs? with
    | some nrows, some ncols, some xll, some yll, some csz, some atol, some poly =>
      match cellsInside nrows ncols xll yll csz atol poly, cellsInsideTable nrows ncols xll yll csz atol poly with
      | .ok l, .ok tb => "ok " ++ fmtNatList l ++ " " ++
          fmtList (tb.map fun r => hexOfFloat r.1 ++ ":" ++ hexOfFloat r.2.1 ++ ":" ++ toString r.2.2)
      | .error e, _ => "err " ++ errName e
      | _, .error e => "err " ++ errName e
    | _, _, _, _, _, _, _ => "bad-op"
  | ["centres", nrows, ncols, xll, yll, csz] =>
    match nrows.toNat?, ncols.toNat?, floatTok? xll, floatTok? yll, floatTok? csz with
    | some nrows, some ncols, some xll, some yll, some csz =>
      fmtPairs ((List.range (nrows * ncols)).map (cellCentre nrows ncols xll yll csz))
    | _, _, _, _, _ => "bad-op"
  | _ => "bad-op"

def main : IO Unit := serve handle
