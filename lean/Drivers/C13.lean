import HydroVerif.Proto
import HydroVerif.Model.C13
open HydroVerif HydroVerif.C13

/-! ### IEEE binary formats by exact rational arithmetic (executable instance of the external `NumIO`) -/

/-- bit pattern (without sign handling of zero: sign bit is added) of the value `num/den ≥ 0` rounded to
nearest-even in the binary format with `ebits` exponent bits and `mbits` fraction bits -/
def ratToBits (ebits mbits : Nat) (neg : Bool) (num den : Nat) : Nat :=
  let bias : Int := (2 ^ (ebits - 1) - 1 : Nat)
  let signBit := if neg then 2 ^ (ebits + mbits) else 0
  if num = 0 ∨ den = 0 then signBit else
  let e0 : Int := (Nat.log2 num : Int) - (Nat.log2 den : Int)
  let ge (e : Int) : Bool := if e ≥ 0 then decide (num ≥ den * 2 ^ e.toNat) else decide (num * 2 ^ (-e).toNat ≥ den)
  let e : Int := if ge e0 then (if ge (e0 + 1) then e0 + 1 else e0) else e0 - 1
  let emin : Int := 1 - bias
  let e' : Int := if e < emin then emin else e
  let sh : Int := (mbits : Int) - e'
  let n2 := if sh ≥ 0 then num * 2 ^ sh.toNat else num
  let d2 := if sh ≥ 0 then den else den * 2 ^ (-sh).toNat
  let q := n2 / d2
  let r := n2 % d2
  let m := if 2 * r > d2 ∨ (2 * r = d2 ∧ q % 2 = 1) then q + 1 else q
  let bits := if m < 2 ^ mbits then m else (e' + bias).toNat * 2 ^ mbits + (m - 2 ^ mbits)
  let inf := (2 ^ ebits - 1) * 2 ^ mbits
  signBit + (if bits ≥ inf then inf else bits)

/-- classification of a double: `(neg, kind)` with kind = nan | inf | finite num den -/
inductive FVal | nan (neg : Bool) | inf (neg : Bool) | fin (neg : Bool) (num den : Nat)

def fvalOfBits (ebits mbits : Nat) (b : Nat) : FVal :=
  let neg := decide (b / 2 ^ (ebits + mbits) % 2 = 1)
  let e := b / 2 ^ mbits % 2 ^ ebits
  let m := b % 2 ^ mbits
  let bias := 2 ^ (ebits - 1) - 1
  if e = 2 ^ ebits - 1 then (if m = 0 then .inf neg else .nan neg)
  else if e = 0 then .fin neg m (2 ^ (bias - 1 + mbits))
  else
    let sig := 2 ^ mbits + m
    -- value = sig * 2^(e - bias - mbits)
    if e ≥ bias + mbits then .fin neg (sig * 2 ^ (e - bias - mbits)) 1
    else .fin neg sig (2 ^ (bias + mbits - e))

def fmtBits (t : DType) : Nat × Nat := if t.bytes = 2 then (5, 10) else if t.bytes = 4 then (8, 23) else (11, 52)

/-- bits of the format-`t` float nearest to the given value -/
def fvalToBits (t : DType) : FVal → Nat
  | .nan neg => let (eb, mb) := fmtBits t; (if neg then 2 ^ (eb + mb) else 0) + (2 ^ eb - 1) * 2 ^ mb + 2 ^ (mb - 1)
  | .inf neg => let (eb, mb) := fmtBits t; (if neg then 2 ^ (eb + mb) else 0) + (2 ^ eb - 1) * 2 ^ mb
  | .fin neg n d => let (eb, mb) := fmtBits t; ratToBits eb mb neg n d

def floatFVal (x : Float) : FVal := fvalOfBits 11 52 x.toBits.toNat
def floatOfFVal (v : FVal) : Float := Float.ofBits (fvalToBits ⟨.float, 8⟩ v).toUInt64

/-! ### python `float(token)` -/

def takeDigits (s : Str) : Str × Str := (s.takeWhile Char.isDigit, s.dropWhile Char.isDigit)

/-- `[eE][+-]?digits` at the end of a literal; `none` = malformed; `some 0` when absent -/
def parseExp (s : Str) : Option Int :=
  match s with
  | [] => some 0
  | c :: r =>
    if c == 'e' || c == 'E' then
      let (neg, r) := match r with
        | '-' :: r => (true, r)
        | '+' :: r => (false, r)
        | r => (false, r)
      match parseNat? r with
      | some n => some (if neg then -(n : Int) else (n : Int))
      | none => none
    else none

/-- the driver's own spelling of a float (`ioFloat.showF / showW`): `x` and the 4, 8 or 16 hex digits of the float16 /
float32 / float64 bit pattern. Only the text the MODEL writes uses it (ops that load what the model saved). -/
def hexFloat? (s : Str) : Option Float :=
  match s with
  | 'x' :: ds =>
    if ds.length = 4 ∨ ds.length = 8 ∨ ds.length = 16 then
      match allSome (ds.map hexDigit?) with
      | some vs =>
        let n := vs.foldl (fun acc d => 16 * acc + d) 0
        let (eb, mb) := if ds.length = 4 then (5, 10) else if ds.length = 8 then (8, 23) else (11, 52)
        some (floatOfFVal (fvalOfBits eb mb n))
      | none => none
    else none
  | _ => none

def pyFloat (s : Str) : Option Float :=
  if let some x := hexFloat? s then some x else
  let (neg, body) := match s with
    | '-' :: r => (true, r)
    | '+' :: r => (false, r)
    | r => (false, r)
  let low := lower body
  if low = "inf".toList ∨ low = "infinity".toList then some (floatOfFVal (.inf neg))
  else if low = "nan".toList then some (floatOfFVal (.nan neg))
  else
    let (ip, rest) := takeDigits body
    let (fp, rest, hadDot) := match rest with
      | '.' :: r => let (f, r') := takeDigits r; (f, r', true)
      | r => ([], r, false)
    let _ := hadDot
    if ip = [] ∧ fp = [] then none else
    match parseExp rest with
    | none => none
    | some e =>
      let mant := Nat.ofDigitChars 10 (ip ++ fp) 0
      let e10 : Int := e - (fp.length : Int)
      let (num, den) := if e10 ≥ 0 then (mant * 10 ^ e10.toNat, 1) else (mant, 10 ^ (-e10).toNat)
      some (floatOfFVal (.fin neg num den))

def hexStr (n width : Nat) : Str := (hexOfNat n width).toList

def truncInt : FVal → Option Int
  | .fin neg n d => some (if neg then -((n / d : Nat) : Int) else ((n / d : Nat) : Int))
  | _ => none

def ioFloat : NumIO Float where
  showF x := 'x' :: hexStr x.toBits.toNat 16
  readF := pyFloat
  showW t w := 'x' :: hexStr w (2 * t.bytes)
  castW t x :=
    match t.kind with
    | .float => some (fvalToBits t (floatFVal x))
    | _ => match truncInt (floatFVal x) with
      | some i => if intInRange t i then some (ofInt t i) else none
      | none => none
  ofIntW t i :=
    let d := floatOfFVal (.fin (decide (i < 0)) i.natAbs 1)
    some (fvalToBits t (floatFVal d))
  convW src dst w :=
    match src.kind with
    | .float =>
      let (eb, mb) := fmtBits src
      let v := fvalOfBits eb mb w
      match dst.kind with
      | .float => fvalToBits dst v
      | _ => match truncInt v with
        | some i => ofInt dst i     -- out-of-range / NaN sources are undefined in C and never requested
        | none => 0
    | _ =>
      let i := toInt src w
      fvalToBits dst (.fin (decide (i < 0)) i.natAbs 1)
  ofInt i := Float.ofInt i
  sub a b := a - b
  mul a b := a * b
  dimsDiffer yd xd := (yd - xd).abs > 1e-10

/-! ### protocol -/

def strOfToks (ts : List String) : Str := ts.filterMap fun t => t.toNat?.map Char.ofNat
def parseStr (tok : String) : Str := strOfToks (listToks tok)
def fmtStr (s : Str) : String := ",".intercalate ("x" :: s.map fun c => toString c.toNat)

def parseOptInt (tok : String) : Option (Option Int) :=
  if tok = "-" then some none else tok.toInt?.map some

def fmtOptInt : Option Int → String
  | none => "-"
  | some i => toString i

def parseMat? (tok : String) : Option (List (List Nat)) :=
  allSome ((matToks tok).map fun r => allSome (r.map String.toNat?))
def fmtMat (rows : List (List Nat)) : String :=
  "[" ++ ";".intercalate (rows.map fun r => ",".intercalate (r.map toString)) ++ "]"

def parseIntListOpt (tok : String) : Option (Option (List Int)) :=
  if tok = "-" then some none else (parseIntList? tok).map some
def fmtIntListOpt : Option (List Int) → String
  | none => "-"
  | some l => fmtIntList l

def parseHexBytes (tok : String) : Option (List UInt8) :=
  let cs := (tok.toList.drop 1)
  let rec go : List Char → Option (List UInt8)
    | [] => some []
    | [_] => none
    | a :: b :: r => match hexDigit? a, hexDigit? b, go r with
      | some x, some y, some t => some (UInt8.ofNat (16 * x + y) :: t)
      | _, _, _ => none
  go cs
def fmtHexBytes (bs : List UInt8) : String :=
  "h" ++ String.ofList (bs.flatMap fun b => [Nat.digitChar (b.toNat / 16), Nat.digitChar (b.toNat % 16)])

def kindTok : Kind → String | .int => "i" | .uint => "u" | .float => "f"
def parseKind (s : String) : Option Kind :=
  if s = "i" then some .int else if s = "u" then some .uint else if s = "f" then some .float else none

/-- parent attributes: keys as a matrix of code points, values as a matrix `tag,payload…`
(tag 0 = int (sign, magnitude), 1 = float (bits), 2 = text (code points)) -/
def parsePVal (r : List String) : Option (PVal Float) :=
  match r with
  | "0" :: sgn :: [m] => match m.toNat? with
    | some m => some (.int (if sgn = "1" then -(m : Int) else (m : Int)))
    | none => none
  | "1" :: [b] => b.toNat?.map fun b => .num (Float.ofBits b.toUInt64)
  | "2" :: cs => some (.text (strOfToks cs))
  | _ => none
def fmtPVal : PVal Float → String
  | .int n => s!"0,{if n < 0 then 1 else 0},{n.natAbs}"
  | .num x => s!"1,{x.toBits.toNat}"
  | .text s => ",".intercalate ("2" :: s.map fun c => toString c.toNat)

def parseParent (keys vals : String) : Option (List (Str × PVal Float)) :=
  let ks := (matToks keys).map strOfToks
  match allSome ((matToks vals).map parsePVal) with
  | some vs => if ks.length = vs.length then some (ks.zip vs) else none
  | none => none
def fmtParent (p : List (Str × PVal Float)) : String :=
  "[" ++ ";".intercalate (p.map fun kv => fmtStr kv.1) ++ "] [" ++ ";".intercalate (p.map fun kv => fmtPVal kv.2) ++ "]"

/-- a grid is 15 tokens: name comment nrows ncols xll yll csz kind bytes nodata lo hi data pkeys pvals -/
def parseGrid (ts : List String) : Option (Grid Float) :=
  match ts with
  | [name, comment, nrows, ncols, xll, yll, csz, kind, bytes, nodata, lo, hi, data, pk, pv] =>
    match nrows.toInt?, ncols.toInt?, floatTok? xll, floatTok? yll, floatTok? csz, parseKind kind, bytes.toNat?,
          nodata.toNat?, parseOptInt lo, parseOptInt hi, parseMat? data, parseParent pk pv with
    | some nrows, some ncols, some xll, some yll, some csz, some kind, some bytes, some nodata, some lo, some hi,
      some data, some parent =>
      some { name := parseStr name, comment := parseStr comment, nrows, ncols, xll, yll, csz,
             dtype := ⟨kind, bytes⟩, nodata, lo, hi, data, parent }
    | _, _, _, _, _, _, _, _, _, _, _, _ => none
  | _ => none

def rawHex (x : Float) : String := hexOfNat x.toBits.toNat 16

def fmtGrid (g : Grid Float) : String :=
  " ".intercalate [fmtStr g.name, fmtStr g.comment, toString g.nrows, toString g.ncols, rawHex g.xll, rawHex g.yll,
    rawHex g.csz, kindTok g.dtype.kind, toString g.dtype.bytes, toString g.nodata, fmtOptInt g.lo, fmtOptInt g.hi,
    fmtMat g.data, fmtParent g.parent]

def errName : Err → String
  | .malformedLine => "malformedLine" | .badByteorder => "badByteorder" | .badDtype => "badDtype"
  | .xdimYdim => "xdimYdim" | .missingKey => "missingKey" | .missingDims => "missingDims"
  | .badNodata => "badNodata" | .badShape => "badShape" | .wrongCount => "wrongCount"
  | .pixelUnrecognised => "pixelUnrecognised" | .notDelineated => "notDelineated"
  | .cornerOutside => "cornerOutside" | .badIndex => "badIndex" | .badBounds => "badBounds"
  | .badFilename => "badFilename" | .delineationFailed => "delineationFailed" | .missingFile => "missingFile"

def replyGrid : Except Err (Grid Float) → String
  | .ok g => "ok " ++ fmtGrid g
  | .error e => "err " ++ errName e

def fmtDict (d : GridDict Float) : String :=
  " ".intercalate [fmtStr d.name, toString d.ncols, toString d.nrows, rawHex d.csz, rawHex d.xll, rawHex d.yll,
    fmtStr d.dtype, fmtStr d.nodata, fmtStr d.comment, fmtParent d.parent]

def parseDict (ts : List String) : Option (GridDict Float) :=
  match ts with
  | [name, ncols, nrows, csz, xll, yll, dtype, nodata, comment, pk, pv] =>
    match ncols.toInt?, nrows.toInt?, floatTok? csz, floatTok? xll, floatTok? yll, parseParent pk pv with
    | some ncols, some nrows, some csz, some xll, some yll, some parent =>
      some { name := parseStr name, ncols, nrows, csz, xll, yll, dtype := parseStr dtype, nodata := parseStr nodata,
             comment := parseStr comment, parent }
    | _, _, _, _, _, _ => none
  | _ => none

def parseSOp (tok : String) : Option (Bool × SOp) :=
  match tok.splitOn ":" with
  | [who, "i", idx, w] => match idx.toNat?, w.toNat? with
    | some idx, some w => some (who = "B", .setItem idx w)
    | _, _ => none
  | [who, "f", w] => w.toNat?.map fun w => (who = "B", .fill w)
  | [who, "d", m] => (parseMat? m).map fun rows => (who = "B", .setData rows)
  | _ => none

def parseDotStr (tok : String) : Str := strOfToks (tok.splitOn ".")

def parseEdit (tok : String) : Option (Edit Float) :=
  match tok.splitOn ":" with
  | ["i", idx, w] => match idx.toNat?, w.toNat? with
    | some idx, some w => some (.item idx w)
    | _, _ => none
  | ["f", w] => w.toNat?.map .fill
  | ["d", m] => (parseMat? m).map .data
  | ["n", str] => some (.name (parseDotStr str))
  | ["c", str] => some (.comment (parseDotStr str))
  | ["g", x, y, c] => match floatTok? x, floatTok? y, floatTok? c with
    | some x, some y, some c => some (.georef x y c)
    | _, _, _ => none
  | ["v", w] => w.toNat?.map .nodata
  | _ => none

/-- a value offered to `dtype(value)`: `i:<int>` python int, `x:<float bits>` python float, `t:<code points>` text,
`w:<word>` a scalar of the grid's dtype -/
def parseNVal (fs : List String) : Option (NVal Float) :=
  match fs with
  | ["i", n] => n.toInt?.map .int
  | ["x", h] => (floatTok? h).map .num
  | ["t", str] => some (.text (parseDotStr str))
  | ["w", w] => w.toNat?.map .word
  | _ => none

/-- an operation of the grid state machine: the edit tokens, plus `I:idx:w` (any python index), `F:<value>` (fill),
`D3` (array with more than two dimensions), `V:<value>` (no-data), `m:<value>` / `M:<value>` (mindata / maxdata),
`L:<I|M>:h<hex bytes>` (load) -/
def parseOp (tok : String) : Option (Op Float) :=
  match tok.splitOn ":" with
  | ["I", idx, w] => match idx.toInt?, w.toNat? with
    | some idx, some w => some (.itemAt idx w)
    | _, _ => none
  | "F" :: v => (parseNVal v).map .fillVal
  | ["D3"] => some .dataND
  | "V" :: v => (parseNVal v).map .nodataVal
  | "m" :: v => (parseNVal v).map .mindata
  | "M" :: v => (parseNVal v).map .maxdata
  | ["L", bo, bytes] => (parseHexBytes bytes).map fun b => .load (if bo = "M" then .big else .little) b
  | _ => (parseEdit tok).map .edit

def fmtFlags (rs : List (Option Err)) : String :=
  "[" ++ ",".intercalate (rs.map fun r => match r with | none => "-" | some e => errName e) ++ "]"

/-- `o;inlets;area;filled` (`-` for no inlets, `!` in the place of the area when the kernel fails) -/
def parseCOp (tok : String) : Option COp :=
  match tok.splitOn ";" with
  | [o, inl, area, filled] =>
    match o.toInt?, parseIntListOpt inl with
    | some o, some inl =>
      if area = "!" then some (.delineate o inl none)
      else match parseIntList? area, parseIntList? filled with
        | some a, some f => some (.delineate o inl (some (a, f)))
        | _, _ => none
    | _, _ => none
  | _ => none

def optTok {β : Type} (f : String → Option β) (tok : String) : Option (Option β) :=
  if tok = "-" then some none else (f tok).map some

/-- three handles: the original (0), its clone (1), the clone of the clone (2) -/
def runStore3 (s : Store) (hs : List Handle) : List (Nat × SOp) → Store × List Handle
  | [] => (s, hs)
  | (k, op) :: ops =>
    match hs[k]? with
    | none => (s, hs)
    | some h => let (s', h') := op.apply s h; runStore3 s' (hs.set k h') ops

def parseSOp3 (tok : String) : Option (Nat × SOp) :=
  match parseSOp tok with
  | none => none
  | some (_, op) =>
    let who := (tok.splitOn ":").headD ""
    some ((if who = "A" then 0 else if who = "B" then 1 else 2), op)

/-- run a sequence of operations addressed to the original (A) or to its clone (B) -/
def runStore (s : Store) (a b : Handle) : List (Bool × SOp) → Store × Handle × Handle
  | [] => (s, a, b)
  | (onB, op) :: ops =>
    if onB then let (s', b') := op.apply s b; runStore s' a b' ops
    else let (s', a') := op.apply s a; runStore s' a' b ops

def handle (toks : List String) : String :=
  match toks with
  | "save" :: g =>
    match parseGrid g with
    | none => "bad-op"
    | some g => match save ioFloat g with
      | .ok (h, bytes) => s!"ok {fmtStr h} {fmtHexBytes bytes}"
      | .error e => "err " ++ errName e
  | ["load", defName, header, bytes] =>
    let data? : Option (Option (List UInt8)) := if bytes = "-" then some none else (parseHexBytes bytes).map some
    match data? with
    | none => "bad-op"
    | some data =>
      match fromStream ioFloat (parseStr defName) (parseStr header) data, parseHeader ioFloat (parseStr defName) (parseStr header) with
      | .ok g, .ok hi => "ok " ++ (if hi.byteorder = .big then "M " else "I ") ++ fmtGrid g
      | .error e, _ => "err " ++ errName e
      | _, .error e => "err " ++ errName e
  | "setdata" :: rest =>
    match rest.reverse with
    | data :: grev => match parseGrid grev.reverse, parseMat? data with
      | some g, some rows => replyGrid (setData g rows)
      | _, _ => "bad-op"
    | [] => "bad-op"
  | "todict" :: g =>
    match parseGrid g with
    | none => "bad-op"
    | some g => "ok " ++ fmtDict (toDict ioFloat g)
  | "fromdict" :: d =>
    match parseDict d with
    | none => "bad-op"
    | some d =>
      -- the same dictionary through the optional-key reader (`fromDictP_full`)
      let r1 := replyGrid (fromDict ioFloat d)
      let r2 := replyGrid (fromDictP ioFloat d.full)
      if r1 = r2 then r1 else "model-inconsistent"
  | "clone" :: g =>
    match parseGrid g with
    | none => "bad-op"
    | some g => "ok " ++ fmtGrid (clone g)
  | "cloneas" :: k :: b :: g =>
    match parseGrid g, parseKind k, b.toNat? with
    | some g, some k, some b => "ok " ++ fmtGrid (cloneAs ioFloat g ⟨k, b⟩)
    | _, _, _ => "bad-op"
  | "storeas" :: sk :: sb :: dk :: db :: data :: ops =>
    match parseKind sk, sb.toNat?, parseKind dk, db.toNat?, parseMat? data, allSome (ops.map parseSOp) with
    | some sk, some sb, some dk, some db, some rows, some ops =>
      let s0 : Store := [rows]
      let a : Handle := ⟨0⟩
      let (s1, b) := Store.cloneMap s0 a (astypeWord ioFloat ⟨sk, sb⟩ ⟨dk, db⟩)
      let (s, a', b') := runStore s1 a b ops
      s!"{fmtMat (s.read a')} {fmtMat (s.read b')}"
    | _, _, _, _, _, _ => "bad-op"
  | "savebo" :: bo :: g =>
    match parseGrid g with
    | none => "bad-op"
    | some g => match writeHeaderBO ioFloat (if bo = "M" then .big else .little) g with
      | .ok h => s!"ok {fmtStr h} {fmtHexBytes ((g.data.flatten.flatMap (encode (if bo = "M" then .big else .little) g.dtype.bytes)))}"
      | .error e => "err " ++ errName e
  | "edits" :: rest =>
    -- 15 grid tokens, then the edits
    match parseGrid (rest.take 15), allSome ((rest.drop 15).map parseEdit) with
    | some g, some es => replyGrid (applyEdits g es)
    | _, _ => "bad-op"
  | "getitem" :: idx :: g =>
    match parseGrid g, idx.toInt? with
    | some g, some idx => (match getItem g idx with | .ok w => s!"ok {w}" | .error e => "err " ++ errName e)
    | _, _ => "bad-op"
  | "run" :: rest =>
    match parseGrid (rest.take 15), allSome ((rest.drop 15).map parseOp) with
    | some g, some ops => let (g', rs) := run ioFloat g ops; s!"ok {fmtFlags rs} {fmtGrid g'}"
    | _, _ => "bad-op"
  | "crun" :: name :: rest =>
    match parseGrid (rest.take 15), allSome ((rest.drop 15).map parseCOp) with
    | some g, some ops =>
      let c0 : Catchment Float := { name := parseStr name, flowdir := g, outlet := none, inlets := none, area := none, filled := none }
      let c := crun c0 ops
      match catchToDict ioFloat c with
      | .error e => "err " ++ errName e
      | .ok d =>
        match catchFromDict ioFloat d with
        | .error e => "err " ++ errName e
        | .ok c' => s!"ok {fmtStr c'.name} {fmtOptInt c'.outlet} {fmtIntListOpt c'.inlets} {fmtIntListOpt c'.area} {fmtIntListOpt c'.filled} "
            ++ fmtGrid c'.flowdir
    | _, _ => "bad-op"
  | ["fromdictp", name, ncols, nrows, csz, xll, yll, dtype, nodata, comment] =>
    match optTok (fun t => some (parseStr t)) name, optTok String.toInt? ncols, optTok String.toInt? nrows, optTok floatTok? csz,
          optTok floatTok? xll, optTok floatTok? yll, optTok (fun t => some (parseStr t)) dtype,
          optTok (fun t => parseNVal (t.splitOn ":")) nodata, optTok (fun t => some (parseStr t)) comment with
    | some name, some ncols, some nrows, some csz, some xll, some yll, some dtype, some nodata, some comment =>
      replyGrid (fromDictP ioFloat { name, ncols, nrows, csz, xll, yll, dtype, nodata, comment })
    | _, _, _, _, _, _, _, _, _ => "bad-op"
  | ["clipword", k, b, lo, hi, w] =>
    match parseKind k, b.toNat?, parseOptInt lo, parseOptInt hi, w.toNat? with
    | some k, some b, some lo, some hi, some w => toString (clipWord ⟨k, b⟩ lo hi w)
    | _, _, _, _, _ => "bad-op"
  | "files" :: how :: name :: probe :: g =>
    -- save(d/name) into an empty file system, then from_header(d/probe) or from_zip(archive of d, d/probe)
    match parseGrid g with
    | none => "bad-op"
    | some g =>
      match saveFS ioFloat [] "d".toList (parseStr name) g with
      | .error e => "err " ++ errName e
      | .ok fs =>
        let names := ";".intercalate (fs.map fun e => fmtStr e.1)
        let r := if how = "zip" then fromZipFS ioFloat fs "d".toList (parseStr probe)
                 else fromHeaderFS ioFloat fs "d".toList (parseStr probe)
        s!"saved [{names}] " ++ replyGrid r
  | "store3" :: data :: ops =>
    match parseMat? data, allSome (ops.map parseSOp3) with
    | some rows, some ops =>
      let s0 : Store := [rows]
      let a : Handle := ⟨0⟩
      let (s1, b) := Store.clone s0 a
      let (s2, c) := Store.clone s1 b
      let (s, hs) := runStore3 s2 [a, b, c] ops
      " ".intercalate (hs.map fun h => fmtMat (s.read h))
    | _, _ => "bad-op"
  | "clip" :: x0 :: y0 :: x1 :: y1 :: g =>
    match parseGrid g, floatTok? x0, floatTok? y0, floatTok? x1, floatTok? y1 with
    | some g, some x0, some y0, some x1, some y1 => replyGrid (clip ioFloat g x0 y0 x1 y1)
    | _, _, _, _, _ => "bad-op"
  | "catch" :: name :: outlet :: inlets :: area :: filled :: g =>
    match parseGrid g, parseOptInt outlet, parseIntListOpt inlets, parseIntListOpt area, parseIntListOpt filled with
    | some g, some outlet, some inlets, some area, some filled =>
      let c : Catchment Float := { name := parseStr name, flowdir := g, outlet, inlets, area, filled }
      match catchToDict ioFloat c with
      | .error e => "err " ++ errName e
      | .ok d =>
        match catchFromDict ioFloat d with
        | .error e => "err " ++ errName e
        | .ok c' => s!"ok {fmtStr c'.name} {fmtOptInt c'.outlet} {fmtIntListOpt c'.inlets} {fmtIntListOpt c'.area} {fmtIntListOpt c'.filled} "
            ++ fmtGrid c'.flowdir
    | _, _, _, _, _ => "bad-op"
  | ["dtype", s] =>
    match dtypeOfStr (parseStr s) with
    | some (bo, t) => s!"some {if bo = .big then "M" else "I"} {kindTok t.kind} {t.bytes}"
    | none => "none"
  | ["pix", s] => fmtStr (pixelSub (parseStr s))
  | "store" :: data :: ops =>
    match parseMat? data, allSome (ops.map parseSOp) with
    | some rows, some ops =>
      let s0 : Store := [rows]
      let a : Handle := ⟨0⟩
      let (s1, b) := Store.clone s0 a
      let (s, a', b') := runStore s1 a b ops
      s!"{fmtMat (s.read a')} {fmtMat (s.read b')}"
    | _, _ => "bad-op"
  | ["float", s] =>
    match pyFloat (parseStr s) with
    | some x => rawHex x
    | none => "none"
  | ["cast", kind, bytes, x] =>
    match parseKind kind, bytes.toNat?, floatTok? x with
    | some k, some b, some x => match ioFloat.castW ⟨k, b⟩ x with | some w => toString w | none => "none"
    | _, _, _ => "bad-op"
  | _ => "bad-op"

def main : IO Unit := serve handle
