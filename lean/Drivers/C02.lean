/-
C02 driver: runs the Jacobian of the transform model (`X.jacobian` of Model/C01, through the re-synchronising
`State` of the delegating classes) at `Float` and, in parallel, at the error-tracking pair type `EF`
(value + first-order bound on how far an implementation that differs only in the last bits of its
transcendental functions / rounding of each operation can be from the model value: the condition estimate
that scales the correspondence tolerance; same construction as in the C01 driver).

request : `jac|fwd <Class> [params] [xs]`              (same parameter layout as the C01 driver)
          `jac|fwd Softmax [] [row;row;…]`   (`[k]` instead of `[]`: the array has k > 2 dimensions)
          `pd Softmax [] [row]`                          matrix of partial derivatives of one row
          `hist <Class> [mininu,minilam,base] direct|via:<k>=<v>,… <op> <op> …`   one object and a history (Model/C02Hist):
               ops `A:<name>=<v>` (t.name = v)  `I:<name>=<v>` (t[name] = v)  `V:[v,…]` (t.params.values = …)  `R` (reset)
               `J:[xs]` / `F:[xs]` (jacobian / forward); reply `ok <step> <step> …`, one step per op after the
               construction: `<done|values|rej:<err>>;[params];[consts];[inner BC params]|-;[returned values]`,
               or `err <name>` when the constructor (or an assignment inside get_transform) rejects
          `cast <kind> <ydt> [shape of y] [ys]`          dutils.cast on an argument of kind f64|f32|i64|float
reply   : `ok [state] [values] [bounds]`  |  `err <name>`  |  `bad-op`
          (`state` = inner BoxCox2 `nu,lam` after the call for the delegating classes, `[]` otherwise)
          pd: `ok [matrix rows] [determinant by Laplace expansion] [jacRow]`
-/
import HydroVerif.Proto
import HydroVerif.Model.C02
import HydroVerif.Model.C02Hist
open HydroVerif HydroVerif.C01

/-- value and absolute error bound -/
structure EF where
  v : Float
  e : Float

namespace EF
/-- unit roundoff budget per arithmetic operation -/
def u : Float := 2.3e-16
/-- relative budget per transcendental call (numpy's SIMD loops vs libm) -/
def tolT : Float := 1e-13
def ofF (x : Float) : EF := ⟨x, 0.0⟩
def mk' (v e : Float) : EF := ⟨v, e + u * v.abs⟩
def safeDiv (a b : Float) : Float := if b > 0.0 then a / b else (1.0 / 0.0)

instance : Add EF := ⟨fun a b => mk' (a.v + b.v) (a.e + b.e)⟩
instance : Sub EF := ⟨fun a b => mk' (a.v - b.v) (a.e + b.e)⟩
instance : Neg EF := ⟨fun a => ⟨-a.v, a.e⟩⟩
instance : Mul EF := ⟨fun a b => mk' (a.v * b.v) (a.v.abs * b.e + b.v.abs * a.e + a.e * b.e)⟩
instance : Div EF := ⟨fun a b =>
  let v := a.v / b.v
  mk' v (if a.e == 0.0 && b.e == 0.0 then 0.0 else safeDiv (a.e + v.abs * b.e) (b.v.abs - b.e))⟩
instance : LT EF := ⟨fun a b => a.v < b.v⟩
instance : LE EF := ⟨fun a b => a.v ≤ b.v⟩
instance : DecidableLT EF := fun a b => inferInstanceAs (Decidable (a.v < b.v))
instance : DecidableLE EF := fun a b => inferInstanceAs (Decidable (a.v ≤ b.v))
instance (n : Nat) : OfNat EF n := ⟨ofF n.toFloat⟩
instance : OfScientific EF := ⟨fun m s e => ofF (OfScientific.ofScientific m s e)⟩

def tr (v e : Float) : EF := ⟨v, e + tolT * v.abs⟩

instance : Transc EF where
  exp a := let v := Float.exp a.v; tr v (v * a.e)
  log a := let v := Float.log a.v; tr v (if a.e == 0.0 then 0.0 else safeDiv a.e (a.v.abs - a.e))
  sqrt a := let v := Float.sqrt a.v; mk' v (if a.e == 0.0 then 0.0 else safeDiv a.e (2.0 * v))
  sinh a := let v := Float.sinh a.v; tr v (Float.cosh a.v * a.e)
  cosh a := let v := Float.cosh a.v; tr v ((Float.sinh a.v).abs * a.e)
  tanh a := let v := Float.tanh a.v; tr v ((1.0 - v * v).abs * a.e + u)
  asinh a := let v := Float.asinh a.v; tr v (a.e / Float.sqrt (1.0 + a.v * a.v))
  pow a b :=
    let v := Float.pow a.v b.v
    let ea := if a.e == 0.0 then 0.0 else safeDiv (b.v.abs * a.e) (a.v.abs - a.e)
    let eb := if b.e == 0.0 then 0.0 else (Float.log a.v).abs * b.e
    tr v (v.abs * (ea + eb))
end EF

section
variable {α : Type} [Add α] [Sub α] [Mul α] [Div α] [Neg α] [LT α] [DecidableLT α] [LE α] [DecidableLE α]
  [OfNat α 0] [OfNat α 1] [OfNat α 2] [OfScientific α] [Transc α]

def errName : Err → String
  | .nuUnset => "nuUnset" | .lamUnset => "lamUnset" | .xmaxUnset => "xmaxUnset"
  | .negative => "negative" | .sumGe1 => "sumGe1" | .ndimGt2 => "ndimGt2" | .unknownName => "unknownName"

/-- new inner state and one `Option α` per input -/
abbrev Out (α : Type) := Except String (List α × List (Option α))

/-- `jacobian` of one object on a 1-D array -/
def runOp (isF : Bool) (cls : String) (ps : List (Option α)) (xs : List α) : Out α :=
  match cls, ps with
  | "Identity", [] =>
    let p : Identity.Params α := {}
    .ok ([], xs.map (if isF then Identity.forward p else Identity.jacobian p))
  | "Logit", [some lower, some logdelta] =>
    let p : Logit.Params α := ⟨lower, logdelta⟩
    .ok ([], xs.map (if isF then Logit.forward p else Logit.jacobian p))
  | "Log", [some nu, base, some mininu] =>
    let p : Log.Params α := ⟨nu, base, mininu⟩
    .ok ([], xs.map (if isF then Log.forward p else Log.jacobian p))
  | "BoxCox2", [some nu, some lam, some mininu] =>
    let p : BoxCox2.Params α := ⟨nu, lam, mininu⟩
    .ok ([], xs.map (if isF then BoxCox2.forward p else BoxCox2.jacobian p))
  | "BoxCox1lam", [some lam, nu, some mininu, some bnu, some blam] =>
    -- one call of the object's method on the whole array: the inner BoxCox2 is re-synchronised once, first
    let s : BoxCox1lam.State α := ⟨lam, nu, ⟨bnu, blam, mininu⟩⟩
    match (if isF then BoxCox1lam.State.forwardArr s xs else BoxCox1lam.State.jacobianArr s xs) with
    | .error e => .error (errName e)
    | .ok (s', rs) => .ok ([s'.bc.nu, s'.bc.lam], rs)
  | "BoxCox1nu", [some nu, lam, some mininu, some bnu, some blam] =>
    let s : BoxCox1nu.State α := ⟨nu, lam, ⟨bnu, blam, mininu⟩⟩
    match (if isF then BoxCox1nu.State.forwardArr s xs else BoxCox1nu.State.jacobianArr s xs) with
    | .error e => .error (errName e)
    | .ok (s', rs) => .ok ([s'.bc.nu, s'.bc.lam], rs)
  | "BoxCox2sym", [some nu, some lam, some mininu, some bnu, some blam] =>
    let s : BoxCox2sym.State α := ⟨nu, lam, ⟨bnu, blam, mininu⟩⟩
    let (s', rs) := if isF then BoxCox2sym.State.forwardArr s xs else BoxCox2sym.State.jacobianArr s xs
    .ok ([s'.bc.nu, s'.bc.lam], rs)
  | "YeoJohnson", [some nu, some scale, some lam] =>
    let p : YeoJohnson.Params α := ⟨nu, scale, lam⟩
    .ok ([], xs.map (if isF then YeoJohnson.forward p else YeoJohnson.jacobian p))
  | "LogSinh", [some loga, some logb, xmax] =>
    let s : LogSinh.State α := ⟨loga, logb, xmax⟩
    match (if isF then LogSinh.State.forwardArr s xs else LogSinh.State.jacobianArr s xs) with
    | .error e => .error (errName e)
    | .ok rs => .ok ([], rs)
  | "Reciprocal", [some nu, some mininu] =>
    let p : Reciprocal.Params α := ⟨nu, mininu⟩
    .ok ([], xs.map (if isF then Reciprocal.forward p else Reciprocal.jacobian p))
  | "Sinh", [some nu, some scale] =>
    let p : Sinh.Params α := ⟨nu, scale⟩
    .ok ([], xs.map (if isF then Sinh.forward p else C02.Sinh.jacobianH p))
  | "Manly", [some lam, xmax] =>
    let s : Manly.State α := ⟨lam, xmax⟩
    match (if isF then Manly.State.forwardArr s xs else Manly.State.jacobianArr s xs) with
    | .error e => .error (errName e)
    | .ok rs => .ok ([], rs)
  | _, _ => .error "bad-op"
end

def optF (x : Float) : Option Float := if x.isNaN then none else some x
def optEF (x : Float) : Option EF := if x.isNaN then none else some (EF.ofF x)

def fmtVals (l : List (Option Float)) : String := fmtList (l.map fmtOptFloat)

def fmtMatF (rows : List (List Float)) : String :=
  "[" ++ ";".intercalate (rows.map fun r => ",".intercalate (r.map hexOfFloat)) ++ "]"

def handleScalar (isF : Bool) (cls ps xs : String) : String :=
  match parseFloatList? ps, parseFloatList? xs with
  | some ps, some xs =>
    let rF : Out Float := runOp isF cls (ps.map optF) xs
    let rE : Out EF := runOp isF cls (ps.map optEF) (xs.map EF.ofF)
    match rF, rE with
    | .ok (st, vs), .ok (_, es) =>
      let bounds := es.map fun o => match o with
        | none => 0.0
        | some (e : EF) => e.e
      let same := (vs.zip es).all fun (a, b) => match a, b with
        | none, none => true
        | some a, some b => hexOfFloat a == hexOfFloat b.v
        | _, _ => false
      if same then s!"ok {fmtFloatList st} {fmtVals vs} {fmtFloatList bounds}" else "err ef-mismatch"
    | .error e, _ => if e == "bad-op" then e else "err " ++ e
    | _, .error e => "err " ++ e
  | _, _ => "bad-op"

def handleSoftmaxJac (nd rows : String) : String :=
  let ndim : Nat := match parseNatList? nd with
    | some [k] => k
    | _ => 2
  match parseFloatMat? rows with
  | some rows =>
    let rF := Softmax.jacobianND (α := Float) ndim rows
    let rE := Softmax.jacobianND (α := EF) ndim (rows.map fun r => r.map EF.ofF)
    match rF, rE with
    | .ok vs, .ok es => s!"ok [] {fmtMatF (vs.map fun v => [v])} {fmtMatF (es.map fun r => [r.e])}"
    | .error e, _ => "err " ++ errName e
    | _, .error e => "err " ++ errName e
  | none => "bad-op"

def handleSoftmaxFwd (nd rows : String) : String :=
  let ndim : Nat := match parseNatList? nd with
    | some [k] => k
    | _ => 2
  match parseFloatMat? rows with
  | some rows =>
    let rF := Softmax.forwardND (α := Float) ndim rows
    let rE := Softmax.forwardND (α := EF) ndim (rows.map fun r => r.map EF.ofF)
    match rF, rE with
    | .ok vs, .ok es => s!"ok [] {fmtMatF vs} {fmtMatF (es.map fun r => r.map (·.e))}"
    | .error e, _ => "err " ++ errName e
    | _, .error e => "err " ++ errName e
  | none => "bad-op"

/-- one row: the matrix of partial derivatives, its determinant by Laplace expansion, and `jacRow` -/
def handleSoftmaxPd (rows : String) : String :=
  match parseFloatMat? rows with
  | some [row] =>
    match Softmax.jacobian (α := Float) row with
    | .error e => "err " ++ errName e
    | .ok j =>
      let m := C02.Softmax.pdMatrix row
      s!"ok {fmtMatF m} {fmtFloatList [C02.Softmax.pdDet row]} {fmtFloatList [j]}"
  | _ => "bad-op"

/-! ### histories on one object (Model/C02Hist) -/
def serrName : C02.SErr → String
  | .nanValue => "nanValue" | .badLength => "badLength" | .unknownKey => "unknownKey"
  | .minilamBelowM3 => "minilamBelowM3" | .maxsOutside => "maxsOutside" | .defaultsOutside => "defaultsOutside"
  | .baseNotPositive => "baseNotPositive" | .call e => errName e | .malformed => "malformed"

def clsOfName? : String → Option C02.Cls
  | "Identity" => some .Identity | "Logit" => some .Logit | "Log" => some .Log | "BoxCox2" => some .BoxCox2
  | "BoxCox1lam" => some .BoxCox1lam | "BoxCox1nu" => some .BoxCox1nu | "BoxCox2sym" => some .BoxCox2sym
  | "YeoJohnson" => some .YeoJohnson | "LogSinh" => some .LogSinh | "Reciprocal" => some .Reciprocal
  | "Sinh" => some .Sinh | "Manly" => some .Manly | _ => none

/-- `name=value` -/
def parseKV? (s : String) : Option (String × Option Float) :=
  match s.splitOn "=" with
  | [k, v] => (floatTok? v).map fun x => (k, optF x)
  | _ => none

def parseOp? (tok : String) : Option (C02.Op Float) :=
  if tok == "R" then some .reset
  else if tok.startsWith "A:" then (parseKV? (tok.drop 2).toString).map fun (k, v) => .setAttr k v
  else if tok.startsWith "I:" then (parseKV? (tok.drop 2).toString).map fun (k, v) => .setItem k v
  else if tok.startsWith "V:" then (parseFloatList? (tok.drop 2).toString).map fun vs => .setValues (vs.map optF)
  else if tok.startsWith "J:" then (parseFloatList? (tok.drop 2).toString).map fun xs => .call true xs
  else if tok.startsWith "F:" then (parseFloatList? (tok.drop 2).toString).map fun xs => .call false xs
  else none

def fmtVec (v : C02.Vec Float) : String := fmtVals v.vals

def fmtStep (o : C02.Obj Float) (out : C02.Out Float) : String :=
  let st := match out with
    | .done => "done"
    | .values _ => "values"
    | .rejected e => "rej:" ++ serrName e
  let ys := match out with
    | .values ys => fmtVals ys
    | _ => "[]"
  let bc := match o.bc with
    | some b => fmtVec b
    | none => "-"
  s!"{st};{fmtVec o.params};{fmtVec o.consts};{bc};{ys}"

/-- states and outputs along a history -/
def histSteps (o : C02.Obj Float) : List (C02.Op Float) → List String
  | [] => []
  | op :: rest =>
    let r := C02.step o op
    fmtStep r.1 r.2 :: histSteps r.1 rest

def handleHist (cls ctor how : String) (opToks : List String) : String :=
  match clsOfName? cls, parseFloatList? ctor, allSome (opToks.map parseOp?) with
  | some cls, some [mininu, minilam, base], some ops =>
    let c : C02.Ctor Float := ⟨mininu, minilam, optF base⟩
    let built : Option (Except C02.SErr (C02.Obj Float)) :=
      if how == "direct" then some (C02.mk cls c)
      else if how.startsWith "via:" then
        let body := (how.drop 4).toString
        let kvs := if body == "" then some [] else allSome ((body.splitOn ",").map parseKV?)
        kvs.map fun kw => C02.viaGet cls c kw
      else none
    match built with
    | none => "bad-op"
    | some (.error e) => "err " ++ serrName e
    | some (.ok o) =>
      -- the trace of the model must be what `run` / `trace` give (same functions the theorems are about)
      let steps := histSteps o ops
      let final := C02.run o ops
      let outs := C02.trace o ops
      if outs.length != ops.length then "err trace-length"
      else s!"ok {fmtStep o .done} {" ".intercalate steps} final={fmtVec final.params}"
  | _, _, _ => "bad-op"

def dtOfName? : String → Option C02.Dt
  | "f64" => some .f64 | "f32" => some .f32 | "i64" => some .i64 | _ => none

def handleCast (kind ydt shape ys : String) : String :=
  match dtOfName? ydt, parseNatList? shape, parseFloatList? ys with
  | some ydt, some shape, some ys =>
    let arg : Option (C02.Arg Float) :=
      if kind == "float" then some (.pyFloat 0.0)
      else (dtOfName? kind).map fun dt => .arr dt shape []
    match arg with
    | none => "bad-op"
    | some arg =>
      -- a float64 array argument goes through `publicOnArray` (cast after an elementwise function: here the identity)
      let viaPublic : Except C02.CastErr (C02.Res Float) :=
        match C02.publicOnArray (fun y : Float => some y) shape ys with
        | .ok (.arr dt sh vs) => .ok (.arr dt sh (vs.map fun o => o.getD (0.0 / 0.0)))
        | .ok (.pyFloat v) => .ok (.pyFloat (v.getD (0.0 / 0.0)))
        | .error e => .error e
      match (if kind == "f64" && ydt == .f64 then viaPublic else C02.cast arg ydt shape ys) with
      | .error _ => "err typeError"
      | .ok (.arr dt sh vs) =>
        let dn := match dt with
          | .f64 => "f64" | .f32 => "f32" | .i64 => "i64"
        s!"ok arr {dn} {fmtNatList sh} {fmtFloatList vs}"
      | .ok (.pyFloat v) => s!"ok float {fmtFloatList [v]}"
  | _, _, _ => "bad-op"

def handle (toks : List String) : String :=
  match toks with
  | "hist" :: cls :: ctor :: how :: ops => handleHist cls ctor how ops
  | ["cast", kind, ydt, shape, ys] => handleCast kind ydt shape ys
  | ["jac", "Softmax", nd, rows] => handleSoftmaxJac nd rows
  | ["pd", "Softmax", _, rows] => handleSoftmaxPd rows
  | ["fwd", "Softmax", nd, rows] => handleSoftmaxFwd nd rows
  | ["jac", cls, ps, xs] => handleScalar false cls ps xs
  | ["fwd", cls, ps, xs] => handleScalar true cls ps xs
  | _ => "bad-op"

def main : IO Unit := serve handle
