import HydroVerif.Proto
import HydroVerif.Model.C18
import HydroVerif.Model.C18Obj
open HydroVerif HydroVerif.C18

/-
requests
  list                                     -> names of the modelled wrappers
  run <wrapper> [k0,k1,...]                -> ok <event>|<event>... written=[i,j] retyped=[i:dtype,...] pywritten=[callers stored into at the Python level] results=[callers that what is returned / stored refers to]
  repeat <wrapper> [k0,...] <k>            -> ok <events of call k+1 of k+1 consecutive calls (nthCall)> marked=[callers stored to so far]
        k = <v|n>:<f64|f32|i64|i32|other>:<c|s>   (viewable / not, dtype, C-contiguous / strided) for caller 0,1,...
        event = name(a,a,...) ; a = <callerindex or ->:<W|R>
  safe <wrapper> [allowed caller indices]  -> <true|false> private=<what it returns / stores is made inside the call> noretype=<bool>
  kernels                                  -> names of every kernel called by a modelled wrapper
  mark <wrapper> [k0,...]                  -> ok [caller indices whose CONTENTS change under the marking contents semantics (mrun)]
  hist [op,op,...]                         -> ok <step>|<step>...   one history on a new Catchment (Model/C18Obj.lean, `orun omarkSem`)
        op = A:<0|1 inlets given>:<arg>:<badOutlet|badInlets|badNval|kernelError|empty|cells>   delineate_area
           | B:<-|mask id>:<ok|err>   delineate_boundary      | F:<ok|err>   compute_flowpathlengths
           | R:<field>   accessor / read-only method          | E:<field>    the caller overwrites the array handed out
        field = outlet|inlets|area|filled|boundary|xyboundary|fpl
        step = <raised 0|1>;<buffer of each field or ->;<content counter of each field or ->   (fields in the order above)
-/

def dtypeOf? : String → Option DType
  | "f64" => some .f64 | "f32" => some .f32 | "i64" => some .i64 | "i32" => some .i32 | "other" => some .other
  | _ => none

def dtypeName : DType → String
  | .f64 => "f64" | .f32 => "f32" | .i64 => "i64" | .i32 => "i32" | .other => "other"

def kindOf? (s : String) : Option Kind :=
  match s.splitOn ":" with
  | [v, d, c] =>
    match dtypeOf? d with
    | some dt =>
      if (v = "v" ∨ v = "n") ∧ (c = "c" ∨ c = "s") then some ⟨v = "v", dt, c = "c"⟩ else none
    | none => none
  | _ => none

def fmtArg (a : Option Nat × Bool) : String :=
  (match a.1 with | some i => toString i | none => "-") ++ ":" ++ (if a.2 then "W" else "R")

def fmtEvent (e : Event) : String := e.name ++ "(" ++ ",".intercalate (e.args.map fmtArg) ++ ")"

def dedupSorted (xs : List Nat) : List Nat :=
  (xs.mergeSort (· ≤ ·)).eraseDups

def fieldOf? : String → Option Field
  | "outlet" => some .outlet | "inlets" => some .inlets | "area" => some .area | "filled" => some .filled
  | "boundary" => some .boundary | "xyboundary" => some .xyboundary | "fpl" => some .fpl
  | _ => none

def areaOut? : String → Option AreaOut
  | "badOutlet" => some .badOutlet | "badInlets" => some .badInlets | "badNval" => some .badNval
  | "kernelError" => some .kernelError | "empty" => some .empty | "cells" => some .cells
  | _ => none

def kernOut? : String → Option KernOut
  | "ok" => some .ok | "err" => some .kernelError
  | _ => none

def opOf? (s : String) : Option Op :=
  match s.splitOn ":" with
  | ["A", wi, arg, o] =>
    match arg.toNat?, areaOut? o with
    | some a, some out => if wi = "0" ∨ wi = "1" then some (.delineateArea (wi = "1") a out) else none
    | _, _ => none
  | ["B", m, o] =>
    match kernOut? o with
    | some out => if m = "-" then some (.delineateBoundary none out) else m.toNat?.map fun k => .delineateBoundary (some k) out
    | none => none
  | ["F", o] => (kernOut? o).map .computeFpl
  | ["R", f] => (fieldOf? f).map .read
  | ["E", f] => (fieldOf? f).map .callerEdit
  | _ => none

def fmtBuf : Option Buf → String
  | some (.fresh n) => toString n
  | some (.caller n) => "c" ++ toString n
  | none => "-"

def fmtOState (s : OState Nat) : String :=
  (if s.raised then "1" else "0") ++ ";" ++ ",".intercalate (Field.all.map fun f => fmtBuf (s.obj.slot f)) ++ ";" ++
    ",".intercalate (Field.all.map fun f => match s.content f with | some v => toString v | none => "-")

/-- the states after every operation of a history -/
def histStates (ops : List Op) : List (OState Nat) :=
  (ops.foldl (fun (acc : OState Nat × List (OState Nat)) op =>
    let s := ostep omarkSem acc.1 op
    (s, acc.2 ++ [s])) (⟨Obj.new, fun _ => 0, false⟩, [])).2

def handle (toks : List String) : String :=
  match toks with
  | ["hist", ops] =>
    match allSome ((listToks ops).map opOf?) with
    | some os => "ok " ++ (if os.isEmpty then "-" else "|".intercalate ((histStates os).map fmtOState))
    | none => "bad-op"
  | ["list"] => ",".intercalate (wrappers.map (·.1))
  | ["run", name, kinds] =>
    match wrappers.lookup name, allSome ((listToks kinds).map kindOf?) with
    | some p, some ks =>
      -- every caller index a program can mention is below 10; the harness must describe all of them
      if ks.length < 10 then "bad-op kinds" else
      let st := run p (fun i => ks.getD i ⟨false, .other, false⟩)
      let evs := if st.events.isEmpty then "-" else "|".intercalate (st.events.map fmtEvent)
      -- dtype of every caller object after the call (`callerDType`), listed where a conversion was logged
      let kf : Nat → Kind := fun i => ks.getD i ⟨false, .other, false⟩
      let rt := fmtList (((List.range 10).filter fun i => (st.retyped.lookup i).isSome).map fun i =>
        toString i ++ ":" ++ dtypeName (callerDType st kf i))
      let pyw := dedupSorted (pythonWrittenCallers p (fun i => ks.getD i ⟨false, .other, false⟩))
      let res := dedupSorted (resultCallers name p (fun i => ks.getD i ⟨false, .other, false⟩))
      s!"ok {evs} written={fmtNatList (dedupSorted (writtenCallers st))} retyped={rt} pywritten={fmtNatList pyw} results={fmtNatList res}"
    | _, _ => "bad-op"
  | ["repeat", name, kinds, k] =>
    match wrappers.lookup name, allSome ((listToks kinds).map kindOf?), k.toNat? with
    | some p, some ks, some k =>
      if ks.length < 10 then "bad-op kinds" else
      let r := nthCall markSem p (fun i => ks.getD i ⟨false, .other, false⟩) (fun _ => 0) k
      let evs := if r.st.events.isEmpty then "-" else "|".intercalate (r.st.events.map fmtEvent)
      s!"ok {evs} marked={fmtNatList ((List.range 10).filter fun i => r.mem (.caller i) != 0)}"
    | _, _, _ => "bad-op"
  | ["kernels"] => ",".intercalate ((wrappers.flatMap fun w => kernelsOf w.2).eraseDups)
  | ["mark", name, kinds] =>
    match wrappers.lookup name, allSome ((listToks kinds).map kindOf?) with
    | some p, some ks =>
      if ks.length < 10 then "bad-op kinds" else
      "ok " ++ fmtNatList (markedCallers p (fun i => ks.getD i ⟨false, .other, false⟩) 10)
    | _, _ => "bad-op"
  | ["safe", name, allowed] =>
    match wrappers.lookup name, parseNatList? allowed with
    | some p, some al =>
      s!"{decide (SafeExcept al p)} private={decide (ReturnsPrivate p ((results.lookup name).getD []))} noretype={noRetype p}"
    | _, _ => "bad-op"
  | _ => "bad-op"

def main : IO Unit := serve handle
