import HydroVerif.Proto
import HydroVerif.Model.C18
open HydroVerif HydroVerif.C18

/-
requests
  list                                     -> names of the modelled wrappers
  run <wrapper> [k0,k1,...]                -> ok <event>|<event>... written=[i,j]
        k = <v|n>:<f64|f32|i64|i32|other>:<c|s>   (viewable / not, dtype, C-contiguous / strided) for caller 0,1,...
        event = name(a,a,...) ; a = <callerindex or ->:<W|R>
  safe <wrapper> [allowed caller indices]  -> true | false
  kernels                                  -> names of every kernel called by a modelled wrapper
  mark <wrapper> [k0,...]                  -> ok [caller indices whose CONTENTS change under the marking contents semantics (mrun)]
-/

def dtypeOf? : String → Option DType
  | "f64" => some .f64 | "f32" => some .f32 | "i64" => some .i64 | "i32" => some .i32 | "other" => some .other
  | _ => none

def kindOf? (s : String) : Option Kind :=
  match s.splitOn ":" with
  | [v, d, c] =>
    match dtypeOf? d with
    | some dt =>
      if (v = "v" ∨ v = "n") ∧ (c = "c" ∨ c = "s") then some ⟨v = "v", dt, c = "c"⟩ else none
    | none => none
  | _ => none

def fmtArg (a : Option Nat × Bool) : String :=
  (match a.1 with | some i => toString i | none => "-") ++ ":" ++ (if a.2 then "W" else "R")

def fmtEvent (e : Event) : String := e.name ++ "(" ++ ",".intercalate (e.args.map fmtArg) ++ ")"

def dedupSorted (xs : List Nat) : List Nat :=
  (xs.mergeSort (· ≤ ·)).eraseDups

def handle (toks : List String) : String :=
  match toks with
  | ["list"] => ",".intercalate (wrappers.map (·.1))
  | ["run", name, kinds] =>
    match wrappers.lookup name, allSome ((listToks kinds).map kindOf?) with
    | some p, some ks =>
      -- every caller index a program can mention is below 10; the harness must describe all of them
      if ks.length < 10 then "bad-op kinds" else
      let st := run p (fun i => ks.getD i ⟨false, .other, false⟩)
      let evs := if st.events.isEmpty then "-" else "|".intercalate (st.events.map fmtEvent)
      s!"ok {evs} written={fmtNatList (dedupSorted (writtenCallers st))}"
    | _, _ => "bad-op"
  | ["kernels"] => ",".intercalate ((wrappers.flatMap fun w => kernelsOf w.2).eraseDups)
  | ["mark", name, kinds] =>
    match wrappers.lookup name, allSome ((listToks kinds).map kindOf?) with
    | some p, some ks =>
      if ks.length < 10 then "bad-op kinds" else
      "ok " ++ fmtNatList (markedCallers p (fun i => ks.getD i ⟨false, .other, false⟩) 10)
    | _, _ => "bad-op"
  | ["safe", name, allowed] =>
    match wrappers.lookup name, parseNatList? allowed with
    | some p, some al => toString (decide (SafeExcept al p))
    | _, _ => "bad-op"
  | _ => "bad-op"

def main : IO Unit := serve handle
