import HydroVerif.Num
