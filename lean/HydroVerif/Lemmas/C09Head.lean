/- helper lemmas for C09: python-dict association lists, the key sort, decimal digit strings, line splitting -/
import HydroVerif.Lemmas.C09
import HydroVerif.Lemmas.C09Body
import Mathlib.Data.List.Nodup
import Mathlib.Data.List.Perm.Basic

namespace HydroVerif.C09

/-! ### dictionaries -/

theorem dictSet_fresh (d : List (Str × Str)) (k v : Str) (h : k ∉ d.map (·.1)) : dictSet d k v = d ++ [(k, v)] := by
  unfold dictSet
  have : d.any (·.1 == k) = false := by
    rw [List.any_eq_false]
    intro e he hek
    apply h
    have : e.1 = k := by simpa using hek
    rw [← this]
    exact List.mem_map_of_mem he
  simp [this]

/-- filling a dictionary with pairs whose keys are new and pairwise different appends them in order -/
theorem foldl_dictSet_fresh (kvs d : List (Str × Str)) (h : (d.map (·.1) ++ kvs.map (·.1)).Nodup) :
    kvs.foldl (fun acc kv => dictSet acc kv.1 kv.2) d = d ++ kvs := by
  induction kvs generalizing d with
  | nil => simp
  | cons kv kvs ih =>
    obtain ⟨k, v⟩ := kv
    simp only [List.foldl_cons]
    have hk : k ∉ d.map (·.1) := by
      intro hmem
      have := List.disjoint_of_nodup_append h
      exact this hmem (by simp)
    rw [dictSet_fresh d k v hk, ih]
    · simp
    · simpa [List.append_assoc] using h

theorem lookup_of_mem_nodup (l : List (Str × Str)) (k v : Str) (hm : (k, v) ∈ l) (hn : (l.map (·.1)).Nodup) :
    l.lookup k = some v := by
  induction l with
  | nil => cases hm
  | cons e es ih =>
    obtain ⟨a, b⟩ := e
    simp only [List.map_cons, List.nodup_cons] at hn
    rcases List.mem_cons.mp hm with h | h
    · injection h with h1 h2
      subst h1; subst h2
      exact lookup_cons_self _ _ _
    · have hne : k ≠ a := by
        intro hh
        apply hn.1
        rw [← hh]
        exact List.mem_map_of_mem (f := (·.1)) h
      rw [lookup_cons_ne _ _ _ _ hne]
      exact ih h hn.2

theorem lookup_none_of_not_mem (l : List (Str × Str)) (k : Str) (h : k ∉ l.map (·.1)) : l.lookup k = none := by
  induction l with
  | nil => rfl
  | cons e es ih =>
    obtain ⟨a, b⟩ := e
    simp only [List.map_cons, List.mem_cons, not_or] at h
    rw [lookup_cons_ne _ _ _ _ h.1]
    exact ih h.2

/-! ### the key sort is a permutation, whatever the order relation -/

theorem insertKey_perm (kv : Str × Str) (l : List (Str × Str)) : (insertKey kv l).Perm (kv :: l) := by
  induction l with
  | nil => exact List.Perm.refl _
  | cons x xs ih =>
    unfold insertKey
    split
    · exact List.Perm.refl _
    · exact (List.Perm.cons x ih).trans (List.Perm.swap kv x xs)

theorem sortKeys_perm (l : List (Str × Str)) : (sortKeys l).Perm l := by
  induction l with
  | nil => exact List.Perm.refl _
  | cons x xs ih =>
    show (insertKey x (sortKeys xs)).Perm (x :: xs)
    exact (insertKey_perm x _).trans (List.Perm.cons x ih)

/-! ### decimal digit strings -/

theorem natStrAux_fuel (n : Nat) : ∀ f g, n < f → n < g → natStrAux f n = natStrAux g n := by
  induction n using Nat.strong_induction_on with
  | _ n ih =>
    intro f g hf hg
    obtain ⟨f', rfl⟩ : ∃ f', f = f' + 1 := ⟨f - 1, by omega⟩
    obtain ⟨g', rfl⟩ : ∃ g', g = g' + 1 := ⟨g - 1, by omega⟩
    unfold natStrAux
    by_cases h : n < 10
    · simp [h]
    · simp only [h, if_false]
      rw [ih (n / 10) (by omega) f' g' (by omega) (by omega)]

theorem natStr_small (n : Nat) (h : n < 10) : natStr n = [digitChar n] := by
  unfold natStr natStrAux
  simp [h]

theorem natStr_step (n : Nat) (h : ¬ n < 10) : natStr n = natStr (n / 10) ++ [digitChar (n % 10)] := by
  unfold natStr
  show natStrAux (n + 1) n = _
  rw [natStrAux]
  simp only [h, if_false]
  rw [natStrAux_fuel (n / 10) n (n / 10 + 1) (by omega) (by omega)]

theorem digitVal_digitChar (d : Nat) (h : d < 10) : digitVal (digitChar d) = d := by
  exact (by decide : ∀ d, d < 10 → digitVal (digitChar d) = d) d h

theorem natVal_append_single (s : Str) (c : Char) : natVal (s ++ [c]) = 10 * natVal s + digitVal c := by
  simp [natVal, List.foldl_append]

/-- **an integer written in decimal digits is read back exactly** -/
theorem natVal_natStr (n : Nat) : natVal (natStr n) = n := by
  induction n using Nat.strong_induction_on with
  | _ n ih =>
    by_cases h : n < 10
    · rw [natStr_small n h]
      simp [natVal, digitVal_digitChar n h]
    · rw [natStr_step n h, natVal_append_single, ih (n / 10) (by omega), digitVal_digitChar _ (Nat.mod_lt _ (by omega))]
      omega

def isDigitChar (c : Char) : Prop := 48 ≤ c.toNat ∧ c.toNat ≤ 57

theorem digitChar_isDigit (d : Nat) (h : d < 10) : isDigitChar (digitChar d) := by
  unfold isDigitChar
  exact (by decide : ∀ d, d < 10 → 48 ≤ (digitChar d).toNat ∧ (digitChar d).toNat ≤ 57) d h

theorem natStr_digits (n : Nat) : ∀ c ∈ natStr n, isDigitChar c := by
  induction n using Nat.strong_induction_on with
  | _ n ih =>
    intro c hc
    by_cases h : n < 10
    · rw [natStr_small n h] at hc
      simp at hc; subst hc
      exact digitChar_isDigit n h
    · rw [natStr_step n h] at hc
      rcases List.mem_append.mp hc with hc | hc
      · exact ih (n / 10) (by omega) c hc
      · simp at hc; subst hc
        exact digitChar_isDigit _ (Nat.mod_lt _ (by omega))

theorem natStr_ne_nil (n : Nat) : natStr n ≠ [] := by
  by_cases h : n < 10
  · rw [natStr_small n h]; simp
  · rw [natStr_step n h]; simp

theorem isDigit_not_space (c : Char) (h : isDigitChar c) : isSpace c = false := by
  unfold isDigitChar at h
  unfold isSpace
  have e : ∀ d : Char, (c == d) = false ∨ c.toNat = d.toNat := by
    intro d
    by_cases hcd : c = d
    · right; rw [hcd]
    · left; exact beq_eq_false_iff_ne.mpr hcd
  have h1 := e ' '; have h2 := e '\t'; have h3 := e '\n'; have h4 := e '\r'; have h5 := e '\x0b'; have h6 := e '\x0c'
  have t1 : (' ' : Char).toNat = 32 := by decide
  have t2 : ('\t' : Char).toNat = 9 := by decide
  have t3 : ('\n' : Char).toNat = 10 := by decide
  have t4 : ('\r' : Char).toNat = 13 := by decide
  have t5 : ('\x0b' : Char).toNat = 11 := by decide
  have t6 : ('\x0c' : Char).toNat = 12 := by decide
  rcases h1 with h1 | h1 <;> rcases h2 with h2 | h2 <;> rcases h3 with h3 | h3 <;> rcases h4 with h4 | h4 <;>
    rcases h5 with h5 | h5 <;> rcases h6 with h6 | h6 <;> first | (simp [*]; done) | omega

/-! ### lines -/

theorem readLines_line (l rest : Str) (h : ∀ c ∈ l, c ≠ '\n') :
    readLines (l ++ '\n' :: rest) = (l ++ ['\n']) :: readLines rest := by
  induction l with
  | nil =>
    simp only [List.nil_append]
    rw [readLines]
    cases hr : readLines rest <;> simp
  | cons c l ih =>
    have hc : (c == '\n') = false := beq_eq_false_iff_ne.mpr (h c (by simp))
    simp only [List.cons_append]
    rw [readLines, ih (fun d hd => h d (by simp [hd]))]
    simp [hc]

theorem readLines_joinLines (lines : List Str) (h : ∀ l ∈ lines, ∀ c ∈ l, c ≠ '\n') :
    readLines (joinLines lines) = lines.map (· ++ ['\n']) := by
  induction lines with
  | nil => simp [joinLines, readLines]
  | cons l ls ih =>
    have : joinLines (l :: ls) = l ++ '\n' :: joinLines ls := by simp [joinLines]
    rw [this, readLines_line l _ (h l (by simp)), ih (fun l' hl' => h l' (by simp [hl']))]
    simp

theorem chomp_line (l : Str) : chomp (l ++ ['\n']) = l := by
  unfold chomp
  simp

theorem escapeQ_mem (f : Str) (c : Char) (h : c ∈ escapeQ f) : c ∈ f ∨ c = '"' := by
  induction f with
  | nil => simp [escapeQ] at h
  | cons d f ih =>
    unfold escapeQ at h
    split at h
    · simp only [List.mem_cons] at h
      rcases h with h | h | h
      · right; exact h
      · right; exact h
      · rcases ih h with h | h
        · left; simp [h]
        · right; exact h
    · simp only [List.mem_cons] at h
      rcases h with h | h
      · left; simp [h]
      · rcases ih h with h | h
        · left; simp [h]
        · right; exact h

theorem quoteField_mem (f : Str) (c : Char) (h : c ∈ quoteField f) : c ∈ f ∨ c = '"' := by
  unfold quoteField at h
  split at h
  · simp only [List.mem_cons, List.mem_append, List.not_mem_nil, or_false] at h
    rcases h with h | h | h
    · right; exact h
    · exact escapeQ_mem f c h
    · right; exact h
  · left; exact h

theorem writeRow_mem (fs : List Str) (c : Char) (h : c ∈ writeRow fs) : (∃ f ∈ fs, c ∈ f) ∨ c = '"' ∨ c = ',' := by
  induction fs with
  | nil => simp [writeRow] at h
  | cons f fs ih =>
    cases fs with
    | nil =>
      simp only [writeRow] at h
      rcases quoteField_mem f c h with h | h
      · left; exact ⟨f, by simp, h⟩
      · right; left; exact h
    | cons g gs =>
      simp only [writeRow, List.mem_append, List.mem_cons] at h
      rcases h with h | h | h
      · rcases quoteField_mem f c h with h | h
        · left; exact ⟨f, by simp, h⟩
        · right; left; exact h
      · right; right; exact h
      · rcases ih h with ⟨f', hf', hc⟩ | h
        · left; exact ⟨f', by simp [List.mem_cons] at hf' ⊢; right; exact hf', hc⟩
        · right; exact h

/-- a record whose fields hold no line feed is one line -/
theorem writeRow_no_newline (fs : List Str) (h : ∀ f ∈ fs, ∀ c ∈ f, c ≠ '\n') : ∀ c ∈ writeRow fs, c ≠ '\n' := by
  intro c hc heq
  subst heq
  rcases writeRow_mem fs _ hc with ⟨f, hf, hcf⟩ | h | h
  · exact h f hf _ hcf rfl
  · exact absurd h (by decide)
  · exact absurd h (by decide)

/-- the record of plain names begins with the first name and ends with the last -/
theorem writeRow_plain_head (n : Str) (ns : List Str) (hn : needsQuote n = false) :
    ∃ rest, writeRow (n :: ns) = n ++ rest := by
  cases ns with
  | nil => exact ⟨[], by simp [writeRow, quoteField, hn]⟩
  | cons m ms => exact ⟨',' :: writeRow (m :: ms), by simp [writeRow, quoteField, hn]⟩

theorem writeRow_plain_last (ns : List Str) (hne : ns ≠ []) (hq : needsQuote (ns.getLast hne) = false) :
    ∃ pre, writeRow ns = pre ++ ns.getLast hne := by
  induction ns with
  | nil => exact absurd rfl hne
  | cons n ns ih =>
    cases ns with
    | nil =>
      refine ⟨[], ?_⟩
      simp only [List.getLast_singleton] at hq ⊢
      simp [writeRow, quoteField, hq]
    | cons m ms =>
      have hne' : (m :: ms) ≠ [] := by simp
      have hl : (n :: m :: ms).getLast hne = (m :: ms).getLast hne' := List.getLast_cons hne'
      rw [hl] at hq ⊢
      obtain ⟨pre, hpre⟩ := ih hne' hq
      refine ⟨quoteField n ++ ',' :: pre, ?_⟩
      simp only [writeRow]
      rw [hpre]
      simp

end HydroVerif.C09
