/-
C14 — from an arbitrary arithmetic with exact whole seconds (`ExactInt`) to the exact rationals: a stand-in series
over ℚ with the same stamps and the same validity classes has the same `marks`, hence (Lemmas/C14Skel) the same
missing pattern; the theorems proved over ordered fields then describe the missing pattern of the kernel in the
arbitrary arithmetic.
-/
import HydroVerif.Lemmas.C14
import HydroVerif.Lemmas.C14Skel
import Mathlib.Data.Rat.Floor
import Mathlib.Tactic.NormNum

namespace HydroVerif.C14

/-- the exact rationals cast, compare, add and subtract all whole seconds exactly -/
theorem exactInt_rat : ExactInt ℚ (fun _ => True) where
  lt_iff := fun _ _ _ _ => Int.cast_lt
  add_cast := fun x y _ _ _ => (Int.cast_add x y).symm
  sub_cast := fun x y _ _ _ => (Int.cast_sub x y).symm

section anyarith
set_option linter.unusedSectionVars false
variable {α : Type} [Add α] [Sub α] [Mul α] [Div α] [Neg α] [LT α] [DecidableLT α]
  [OfNat α 0] [OfNat α 2] [IntCast α]

@[simp] theorem toQ_fst (c : Cfg α) (x : Obs α) : (toQ c x).1 = x.1 := rfl

/-- the validity test gives the same answer on the stand-ins -/
theorem invalid_toQ {R : Int → Prop} (hx : ExactInt α R) (c : Cfg α) (a b : Obs α) (hRa : R a.1) (hRb : R b.1)
    (hRg : R c.maxgap) (hRd : R (b.1 - a.1)) :
    invalid (cfgQ c) (toQ c a) (toQ c b) = invalid c a b := by
  obtain ⟨ta, va⟩ := a
  obtain ⟨tb, vb⟩ := b
  have hgap : ((((cfgQ c).maxgap : Int) : ℚ) < ((tb : Int) : ℚ) - ((ta : Int) : ℚ)) ↔
      (((c.maxgap : Int) : α) < ((tb : Int) : α) - ((ta : Int) : α)) := by
    rw [hx.sub_cast tb ta hRb hRa hRd, hx.lt_iff _ _ hRg hRd]
    change ((c.maxgap : Int) : ℚ) < ((tb : Int) : ℚ) - ((ta : Int) : ℚ) ↔ _
    rw [← Int.cast_sub, Int.cast_lt]
  cases va with
  | none => cases vb <;> simp [invalid, toQ]
  | some v1 =>
    cases vb with
    | none => simp [invalid, toQ]
    | some v2 =>
      have e1 : ∀ v : α, ((if v < -c.eps then (-1 : ℚ) else 0) < -(cfgQ c).eps) ↔ (v < -c.eps) := by
        intro v
        by_cases h : v < -c.eps
        · simp only [h, if_true, iff_true, cfgQ]; norm_num
        · simp only [h, if_false, iff_false, cfgQ]; norm_num
      simp only [invalid, toQ, Option.map_some]
      rw [decide_eq_decide.mpr (e1 v1), decide_eq_decide.mpr (e1 v2)]
      congr 1
      exact decide_eq_decide.mpr hgap

theorem marksFrom_toQ {R : Int → Prop} (hx : ExactInt α R) (c : Cfg α) (hRg : R c.maxgap) :
    ∀ (l : List (Obs α)) (a : Obs α), R a.1 → (∀ x ∈ l, R x.1) → (∀ p ∈ pairs (a :: l), R (p.2.1 - p.1.1)) →
      marksFrom (cfgQ c) (toQ c a) (l.map (toQ c)) = marksFrom c a l := by
  intro l
  induction l with
  | nil => intro a _ _ _; rfl
  | cons b r ih =>
    intro a hRa hRl hRd
    have hRb : R b.1 := hRl b (by simp)
    rw [List.map_cons, marksFrom_cons, marksFrom_cons, toQ_fst,
      invalid_toQ hx c a b hRa hRb hRg (hRd (a, b) (by simp)),
      ih b hRb (fun x hx' => hRl x (List.mem_cons_of_mem _ hx'))
        (fun p hp => hRd p (by rw [pairs_cons_cons]; exact List.mem_cons_of_mem _ hp))]

/-- the stand-in series has the same marks -/
theorem marks_toQ {R : Int → Prop} (hx : ExactInt α R) (c : Cfg α) (hRg : R c.maxgap) (obs : List (Obs α))
    (hRobs : ∀ x ∈ obs, R x.1) (hRd : ∀ p ∈ pairs obs, R (p.2.1 - p.1.1)) :
    marks (cfgQ c) (obs.map (toQ c)) = marks c obs := by
  cases obs with
  | nil => rfl
  | cons a l =>
    simp only [List.map_cons, marks, toQ_fst]
    rw [marksFrom_toQ hx c hRg l a (hRobs a (by simp)) (fun x hx' => hRobs x (List.mem_cons_of_mem _ hx')) hRd]

theorem pairs_map_toQ (c : Cfg α) : ∀ l : List (Obs α),
    pairs (l.map (toQ c)) = (pairs l).map fun p => (toQ c p.1, toQ c p.2)
  | [] => rfl
  | [_] => rfl
  | a :: b :: r => by
    have := pairs_map_toQ c (b :: r)
    simp only [List.map_cons, pairs_cons_cons] at this ⊢
    rw [this]

theorem lastTime_map_toQ (c : Cfg α) : ∀ l : List (Obs α), lastTime (l.map (toQ c)) = lastTime l
  | [] => rfl
  | [_] => rfl
  | a :: b :: r => by
    have := lastTime_map_toQ c (b :: r)
    simp only [List.map_cons, lastTime_cons_cons] at this ⊢
    rw [this]

theorem sorted_map_toQ (c : Cfg α) (l : List (Obs α)) (h : Sorted l) : Sorted (l.map (toQ c)) := by
  unfold Sorted at h ⊢
  rw [List.pairwise_map]
  exact h

/-- the skeleton's answer as a statement about the kernel's result -/
theorem kernel_pattern_eq {R : Int → Prop} (hx : ExactInt α R) (c : Cfg α) (hstart nvalh : Int) (obs : List (Obs α))
    (hRobs : ∀ x ∈ obs, R x.1) (hRP : R c.P)
    (hRper : ∀ k : Nat, (k : Int) < nvalh - 1 → R (hstart + (k : Int) * c.P) ∧ R (hstart + (k : Int) * c.P + c.P)) :
    Except.map (List.map Option.isNone) (kernel c hstart nvalh obs) =
      kernelMiss c.P c.rain hstart nvalh (marks c obs) := by
  obtain ⟨h1, h2⟩ := kernel_marks hx c hstart nvalh obs hRobs hRP hRper
  cases hk : kernel c hstart nvalh obs with
  | ok out => rw [h1 out hk]; rfl
  | error x => rw [h2 x hk]; rfl

/-- every whole second the kernel casts lies in the range `R` of exact arithmetic -/
structure InRange (R : Int → Prop) (c : Cfg α) (hstart nvalh : Int) (obs : List (Obs α)) : Prop where
  stamps : ∀ x ∈ obs, R x.1
  diff : ∀ p ∈ pairs obs, R (p.2.1 - p.1.1)
  period : R c.P
  gap : R c.maxgap
  per : ∀ k : Nat, (k : Int) < nvalh - 1 → R (hstart + (k : Int) * c.P) ∧ R (hstart + (k : Int) * c.P + c.P)

/-- the kernel in the arithmetic `α` and the exact-rational kernel on the stand-in series: same error or same
missing pattern -/
theorem kernel_pattern_toQ {R : Int → Prop} (hx : ExactInt α R) (c : Cfg α) (hstart nvalh : Int) (obs : List (Obs α))
    (hr : InRange R c hstart nvalh obs) :
    Except.map (List.map Option.isNone) (kernel c hstart nvalh obs) =
      Except.map (List.map Option.isNone) (kernel (cfgQ c) hstart nvalh (obs.map (toQ c))) := by
  rw [kernel_pattern_eq hx c hstart nvalh obs hr.stamps hr.period hr.per,
    kernel_pattern_eq exactInt_rat (cfgQ c) hstart nvalh (obs.map (toQ c)) (fun _ _ => trivial) trivial
      (fun _ _ => ⟨trivial, trivial⟩),
    marks_toQ hx c hr.gap obs hr.stamps hr.diff]
  rfl

end anyarith

/-- equal patterns: a success on one side is a success on the other, with the same missing flags -/
theorem pattern_ok {β γ : Type} (r1 : Except Err (List (Option β))) (r2 : Except Err (List (Option γ)))
    (h : Except.map (List.map Option.isNone) r1 = Except.map (List.map Option.isNone) r2)
    (out2 : List (Option γ)) (h2 : r2 = .ok out2) :
    ∃ out1, r1 = .ok out1 ∧ out1.map Option.isNone = out2.map Option.isNone := by
  subst h2
  cases r1 with
  | error x => simp [Except.map] at h
  | ok out1 => exact ⟨out1, rfl, by simpa [Except.map] using h⟩

theorem pattern_get {β γ : Type} (o1 : List (Option β)) (o2 : List (Option γ))
    (h : o1.map Option.isNone = o2.map Option.isNone) (i : Nat) (x : Option β) (hx : o1[i]? = some x) :
    ∃ y, o2[i]? = some y ∧ y.isNone = x.isNone := by
  have h1 : (o1.map Option.isNone)[i]? = some x.isNone := by simp [hx]
  rw [h] at h1
  simp only [List.getElem?_map, Option.map_eq_some_iff] at h1
  exact h1

/-! ### an arithmetic that rounds every operation (non-vacuity of `ExactInt` beyond fields) -/

/-- a toy arithmetic that is NOT a field: rationals in which every `+ − × ÷` is rounded down to a multiple of 1/8 -/
structure Rnd8 where
  val : ℚ
  deriving DecidableEq

namespace Rnd8
def rnd (x : ℚ) : ℚ := (⌊x * 8⌋ : ℚ) / 8
instance : Add Rnd8 := ⟨fun a b => ⟨rnd (a.val + b.val)⟩⟩
instance : Sub Rnd8 := ⟨fun a b => ⟨rnd (a.val - b.val)⟩⟩
instance : Mul Rnd8 := ⟨fun a b => ⟨rnd (a.val * b.val)⟩⟩
instance : Div Rnd8 := ⟨fun a b => ⟨rnd (a.val / b.val)⟩⟩
instance : Neg Rnd8 := ⟨fun a => ⟨-a.val⟩⟩
instance : LT Rnd8 := ⟨fun a b => a.val < b.val⟩
instance : DecidableLT Rnd8 := fun a b => inferInstanceAs (Decidable (a.val < b.val))
instance : OfNat Rnd8 0 := ⟨⟨0⟩⟩
instance : OfNat Rnd8 2 := ⟨⟨2⟩⟩
instance : IntCast Rnd8 := ⟨fun n => ⟨(n : ℚ)⟩⟩

theorem rnd_int (n : Int) : rnd (n : ℚ) = (n : ℚ) := by
  unfold rnd
  rw [show (n : ℚ) * 8 = ((n * 8 : Int) : ℚ) by push_cast; ring, Int.floor_intCast]
  push_cast; ring

/-- whole seconds are exact in `Rnd8` … -/
theorem exactInt : ExactInt Rnd8 (fun _ => True) where
  lt_iff := fun x y _ _ => by
    show ((x : ℚ) < (y : ℚ)) ↔ x < y
    exact Int.cast_lt
  add_cast := fun x y _ _ _ => by
    show (⟨rnd ((x : ℚ) + (y : ℚ))⟩ : Rnd8) = ⟨((x + y : Int) : ℚ)⟩
    rw [← Int.cast_add, rnd_int]
  sub_cast := fun x y _ _ _ => by
    show (⟨rnd ((x : ℚ) - (y : ℚ))⟩ : Rnd8) = ⟨((x - y : Int) : ℚ)⟩
    rw [← Int.cast_sub, rnd_int]

/-- … but division and multiplication are not: `1 / 3 * 3 = 3/4` -/
example : ((1 : Int) : Rnd8) / ((3 : Int) : Rnd8) * ((3 : Int) : Rnd8) = ⟨3 / 4⟩ := by
  show (⟨rnd (rnd (((1 : Int) : ℚ) / ((3 : Int) : ℚ)) * ((3 : Int) : ℚ))⟩ : Rnd8) = ⟨3 / 4⟩
  congr 1
  unfold rnd
  norm_num
end Rnd8

end HydroVerif.C14
