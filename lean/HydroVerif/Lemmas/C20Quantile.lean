/- quantile lemmas for C20 over an ordered field with a floor function (ℚ, ℝ, …) -/
import HydroVerif.Lemmas.C20

set_option linter.unusedSectionVars false
set_option linter.unusedVariables false

namespace HydroVerif.C20

variable {α : Type} [Field α] [LinearOrder α] [IsStrictOrderedRing α] [FloorRing α]

/-- the exact-field meaning of `floor` on non-negative numbers -/
scoped instance fieldFloorNat : FloorNat α := ⟨fun x => ⌊x⌋₊⟩

@[simp] theorem floorNat_eq (x : α) : FloorNat.floorNat x = ⌊x⌋₊ := rfl

/-- piecewise-linear interpolation of a sequence `g` on `[0, N]`, constant `g N` beyond -/
def interpG (g : Nat → α) (N : Nat) (v : α) : α :=
  if (N : α) ≤ v then g N else g ⌊v⌋₊ + (g (⌊v⌋₊ + 1) - g ⌊v⌋₊) * (v - (⌊v⌋₊ : α))

theorem piece_bounds (g : Nat → α) (hg : Monotone g) (v : α) (hv : 0 ≤ v) :
    g ⌊v⌋₊ ≤ g ⌊v⌋₊ + (g (⌊v⌋₊ + 1) - g ⌊v⌋₊) * (v - (⌊v⌋₊ : α)) ∧
    g ⌊v⌋₊ + (g (⌊v⌋₊ + 1) - g ⌊v⌋₊) * (v - (⌊v⌋₊ : α)) ≤ g (⌊v⌋₊ + 1) := by
  have h1 : (⌊v⌋₊ : α) ≤ v := Nat.floor_le hv
  have h2 : v < (⌊v⌋₊ : α) + 1 := Nat.lt_floor_add_one v
  have h3 : 0 ≤ g (⌊v⌋₊ + 1) - g ⌊v⌋₊ := sub_nonneg.mpr (hg (Nat.le_succ _))
  have h4 : 0 ≤ v - (⌊v⌋₊ : α) := by linarith
  have h5 : v - (⌊v⌋₊ : α) ≤ 1 := by linarith
  constructor
  · have := mul_nonneg h3 h4
    linarith
  · have := mul_le_mul_of_nonneg_left h5 h3
    linarith

theorem interpG_bounds (g : Nat → α) (hg : Monotone g) (N : Nat) (v : α) (hv : 0 ≤ v) :
    g 0 ≤ interpG g N v ∧ interpG g N v ≤ g N := by
  unfold interpG
  split
  · exact ⟨hg (Nat.zero_le _), le_refl _⟩
  · rename_i hlt
    have hlt' : v < (N : α) := not_le.mp hlt
    have hfl : ⌊v⌋₊ < N := (Nat.floor_lt hv).mpr hlt'
    obtain ⟨h1, h2⟩ := piece_bounds g hg v hv
    exact ⟨le_trans (hg (Nat.zero_le _)) h1, le_trans h2 (hg hfl)⟩

theorem interpG_mono (g : Nat → α) (hg : Monotone g) (N : Nat) (v w : α) (hv : 0 ≤ v) (hvw : v ≤ w) :
    interpG g N v ≤ interpG g N w := by
  have hw : 0 ≤ w := le_trans hv hvw
  by_cases h1 : (N : α) ≤ v
  · have h2 : (N : α) ≤ w := le_trans h1 hvw
    simp [interpG, h1, h2]
  · by_cases h2 : (N : α) ≤ w
    · have := (interpG_bounds g hg N v hv).2
      simpa [interpG, h2] using this
    · simp only [interpG, h1, h2, if_false]
      have hfl : ⌊v⌋₊ ≤ ⌊w⌋₊ := Nat.floor_le_floor hvw
      rcases Nat.eq_or_lt_of_le hfl with heq | hlt
      · rw [← heq]
        have h3 : 0 ≤ g (⌊v⌋₊ + 1) - g ⌊v⌋₊ := sub_nonneg.mpr (hg (Nat.le_succ _))
        have := mul_le_mul_of_nonneg_left (sub_le_sub_right hvw (⌊v⌋₊ : α)) h3
        linarith
      · have a := (piece_bounds g hg v hv).2
        have b := (piece_bounds g hg w hw).1
        exact le_trans a (le_trans (hg hlt) b)

/-! ### the sorted list as a monotone sequence -/

theorem getD_of_lt {β : Type} (l : List β) (i : Nat) (d : β) (h : i < l.length) : l.getD i d = l[i] := by
  simp [List.getD_eq_getElem?_getD, h]

theorem getD_of_ge {β : Type} (l : List β) (i : Nat) (d : β) (h : l.length ≤ i) : l.getD i d = d := by
  simp [List.getD_eq_getElem?_getD, h]

theorem getD_mono (s : List α) (hs : s.Pairwise (· ≤ ·)) (last : α) (hlast : ∀ x ∈ s, x ≤ last) :
    Monotone (fun i => s.getD i last) := by
  intro i j hij
  simp only
  by_cases hj : j < s.length
  · have hi : i < s.length := lt_of_le_of_lt hij hj
    rw [getD_of_lt _ _ _ hi, getD_of_lt _ _ _ hj]
    rcases Nat.eq_or_lt_of_le hij with rfl | hlt
    · exact le_refl _
    · exact (List.pairwise_iff_getElem.mp hs) i j hi hj hlt
  · rw [getD_of_ge _ _ _ (not_lt.mp hj)]
    by_cases hi : i < s.length
    · rw [getD_of_lt _ _ _ hi]
      exact hlast _ (List.getElem_mem _)
    · rw [getD_of_ge _ _ _ (not_lt.mp hi)]

theorem sorted_le_getLast (s : List α) (hs : s.Pairwise (· ≤ ·)) (last : α) (hl : s.getLast? = some last) :
    ∀ x ∈ s, x ≤ last := by
  intro x hx
  obtain ⟨i, hi, rfl⟩ := List.mem_iff_getElem.mp hx
  have hne : s ≠ [] := List.ne_nil_of_length_pos (by omega)
  rw [List.getLast?_eq_some_getLast hne] at hl
  injection hl with hl
  rw [← hl, List.getLast_eq_getElem]
  rcases Nat.eq_or_lt_of_le (Nat.le_sub_one_of_lt hi) with heq | hlt
  · simp [heq]
  · exact (List.pairwise_iff_getElem.mp hs) i (s.length - 1) hi (by omega) hlt

theorem sorted_head_le (s : List α) (hs : s.Pairwise (· ≤ ·)) (first : α) (hf : s.head? = some first) :
    ∀ x ∈ s, first ≤ x := by
  cases s with
  | nil => simp at hf
  | cons a t =>
    simp only [List.head?_cons, Option.some.injEq] at hf
    subst hf
    intro x hx
    rcases List.mem_cons.mp hx with rfl | hx
    · exact le_refl _
    · exact (List.pairwise_cons.mp hs).1 x hx

/-- `np.quantile` on a sorted, non-empty list is the interpolation of its order statistics at the
virtual index `(n - 1) q` -/
theorem quantile_eq (s : List α) (first last : α) (hf : s.head? = some first) (hl : s.getLast? = some last)
    (q : α) (hq0 : 0 ≤ q) (hq1 : q ≤ 1) :
    quantile s q = .ok (interpG (fun i => s.getD i last) (s.length - 1) (((s.length - 1 : Nat) : α) * q)) := by
  have hne : s ≠ [] := by rintro rfl; simp at hf
  have hlen : 0 < s.length := List.length_pos_iff.mpr hne
  have hv : 0 ≤ ((s.length - 1 : Nat) : α) * q := mul_nonneg (Nat.cast_nonneg _) hq0
  unfold quantile
  rw [if_neg (by push Not; exact ⟨hq0, hq1⟩)]
  simp only [hf, hl]
  unfold interpG
  have hlastD : s.getD (s.length - 1) last = last := by
    rw [getD_of_lt _ _ _ (by omega)]
    rw [List.getLast?_eq_some_getLast hne] at hl
    injection hl with hl
    rw [← hl, List.getLast_eq_getElem]
  split
  · simp only [hlastD]
  · rename_i hlt
    rw [if_neg (not_lt.mpr hv)]
    have hlt' : ((s.length - 1 : Nat) : α) * q < ((s.length - 1 : Nat) : α) := not_le.mp hlt
    have hfl : ⌊((s.length - 1 : Nat) : α) * q⌋₊ < s.length - 1 := (Nat.floor_lt hv).mpr hlt'
    simp only [floorNat_eq]
    rw [List.getElem?_eq_getElem (by omega : ⌊((s.length - 1 : Nat) : α) * q⌋₊ < s.length),
        List.getElem?_eq_getElem (by omega : ⌊((s.length - 1 : Nat) : α) * q⌋₊ + 1 < s.length)]
    simp only [lerp_eq]
    rw [getD_of_lt _ _ _ (by omega : ⌊((s.length - 1 : Nat) : α) * q⌋₊ < s.length),
        getD_of_lt _ _ _ (by omega : ⌊((s.length - 1 : Nat) : α) * q⌋₊ + 1 < s.length)]

theorem getD_zero_of_head (s : List α) (first last : α) (hf : s.head? = some first) : s.getD 0 last = first := by
  cases s with
  | nil => simp at hf
  | cons a t => simpa using hf

theorem getD_last_of_getLast (s : List α) (last : α) (hl : s.getLast? = some last) :
    s.getD (s.length - 1) last = last := by
  have hne : s ≠ [] := by rintro rfl; simp at hl
  have hlen : 0 < s.length := List.length_pos_iff.mpr hne
  rw [getD_of_lt _ _ _ (by omega)]
  rw [List.getLast?_eq_some_getLast hne] at hl
  injection hl with hl
  rw [← hl, List.getLast_eq_getElem]

theorem percentile_level (p : α) (h0 : 0 ≤ p) (h1 : p ≤ 100) :
    0 ≤ p / ((100 : Nat) : α) ∧ p / ((100 : Nat) : α) ≤ 1 := by
  have h100 : (0 : α) < ((100 : Nat) : α) := by norm_num
  constructor
  · exact div_nonneg h0 h100.le
  · rw [div_le_one h100]
    simpa using h1

/-! ### box statistics -/

theorem boxStats_eq (data : List (Option α)) (b w : α) (hcount : 3 < (data.filterMap id).length)
    (w1 b1 med b2 w2 mx mn : α)
    (h1 : percentile (sortL (data.filterMap id)) (computePercentiles w).1 = .ok w1)
    (h2 : percentile (sortL (data.filterMap id)) (computePercentiles b).1 = .ok b1)
    (h3 : percentile (sortL (data.filterMap id)) ((50 : Nat) : α) = .ok med)
    (h4 : percentile (sortL (data.filterMap id)) (computePercentiles b).2 = .ok b2)
    (h5 : percentile (sortL (data.filterMap id)) (computePercentiles w).2 = .ok w2)
    (h6 : maxL (data.filterMap id) = some mx) (h7 : minL (data.filterMap id) = some mn) :
    boxStats data b w = .ok ((data.filterMap id).length,
      some { w1 := w1, b1 := b1, med := med, b2 := b2, w2 := w2,
             mean := sumL (data.filterMap id) / ((data.filterMap id).length : α), max := mx, min := mn }) := by
  unfold boxStats
  simp only [gt_iff_lt, hcount, if_true, h1, h2, h3, h4, h5, h6, h7]

theorem boxStats_few_eq (data : List (Option α)) (b w : α) (hcount : (data.filterMap id).length ≤ 3) :
    boxStats data b w = .ok ((data.filterMap id).length, none) := by
  unfold boxStats
  simp only [gt_iff_lt, not_lt.mpr hcount, if_false]

/-- the first / last entry of the sorted values are the minimum / maximum found by the folds -/
theorem sortL_head_eq_minL (vals : List α) (mn first : α) (hmn : minL vals = some mn)
    (hf : (sortL vals).head? = some first) : first = mn := by
  obtain ⟨hm, hle⟩ := minL_spec hmn
  have h1 : mn ≤ first := hle first (sortL_mem.mp (List.mem_of_mem_head? hf))
  have h2 : first ≤ mn := sorted_head_le _ (sortL_sorted vals) first hf mn (sortL_mem.mpr hm)
  exact le_antisymm h2 h1

theorem sortL_last_eq_maxL (vals : List α) (mx last : α) (hmx : maxL vals = some mx)
    (hl : (sortL vals).getLast? = some last) : last = mx := by
  obtain ⟨hm, hle⟩ := maxL_spec hmx
  have h1 : last ≤ mx := hle last (sortL_mem.mp (List.mem_of_getLast? hl))
  have h2 : mx ≤ last := sorted_le_getLast _ (sortL_sorted vals) last hl mx (sortL_mem.mpr hm)
  exact le_antisymm h1 h2

/-! ### violin -/

theorem keepFirstTrue_length (m : List Bool) : (keepFirstTrue m).length = m.length := by
  induction m with
  | nil => rfl
  | cons b t ih => cases b <;> simp [keepFirstTrue, ih]

theorem reduceMask_length (m : List Bool) : (reduceMask m).length = m.length := by
  unfold reduceMask
  split
  · exact keepFirstTrue_length m
  · rfl

/-- `irest | ilow | ihigh` with `irest = ~ilow & ~ihigh` is true everywhere -/
theorem select_mask_all (a b : List Bool) (h : a.length = b.length) :
    List.zipWith (fun r ab => r || ab) (List.zipWith (fun x y => !x && !y) a b) (List.zipWith (fun x y => x || y) a b)
      = List.replicate a.length true := by
  induction a generalizing b with
  | nil => simp
  | cons x t ih =>
    cases b with
    | nil => simp at h
    | cons y u =>
      simp only [List.zipWith_cons_cons, List.length_cons, List.replicate_succ, ih u (by simpa using h)]
      cases x <;> cases y <;> rfl

theorem zip_replicate_true_filterMap {β : Type} (vals : List β) :
    ((vals.zip (List.replicate vals.length true)).filterMap fun vs => if vs.2 then some vs.1 else none) = vals := by
  induction vals with
  | nil => rfl
  | cons v t ih => simp [List.replicate_succ, ih]

theorem quantilesAt_ok (s : List α) (hs : s ≠ []) (qs : List α) (hq : ∀ q ∈ qs, 0 ≤ q ∧ q ≤ 1) :
    ∃ vs, quantilesAt s qs = .ok vs ∧ vs.length = qs.length := by
  obtain ⟨first, hf⟩ : ∃ first, s.head? = some first := by
    cases s with
    | nil => exact absurd rfl hs
    | cons a t => exact ⟨a, rfl⟩
  obtain ⟨last, hl⟩ : ∃ last, s.getLast? = some last := ⟨_, List.getLast?_eq_some_getLast hs⟩
  induction qs with
  | nil => exact ⟨[], rfl, rfl⟩
  | cons q t ih =>
    obtain ⟨vs, hvs, hlen⟩ := ih (fun q' hq' => hq q' (List.mem_cons_of_mem _ hq'))
    obtain ⟨h0, h1⟩ := hq q (by simp)
    refine ⟨interpG (fun i => s.getD i last) (s.length - 1) (((s.length - 1 : Nat) : α) * q) :: vs, ?_, by simp [hlen]⟩
    simp only [quantilesAt, pquantile, quantile_eq s first last hf hl q h0 h1, hvs]

end HydroVerif.C20
