/-
C01 / C02 — the real-number instance of the transform model and the helper lemmas used by
`Props/C01.lean` (none of these is a property statement).
-/
import HydroVerif.Model.C01
import Mathlib.Analysis.SpecialFunctions.Pow.Real
import Mathlib.Analysis.SpecialFunctions.Arsinh
import Mathlib.Analysis.SpecialFunctions.Log.Basic
import Mathlib.Analysis.SpecialFunctions.Sqrt
import Mathlib.Analysis.Convex.SpecificFunctions.Basic
import Mathlib.Tactic.Ring
import Mathlib.Tactic.Linarith
import Mathlib.Tactic.FieldSimp
import Mathlib.Tactic.NormNum
import Mathlib.Tactic.Positivity

namespace HydroVerif

/-- the transcendental functions of the model, interpreted in ℝ -/
noncomputable instance instTranscReal : Transc ℝ where
  exp := Real.exp
  log := Real.log
  sqrt := Real.sqrt
  sinh := Real.sinh
  cosh := Real.cosh
  tanh := Real.tanh
  asinh := Real.arsinh
  pow := fun x y => x ^ y

/-- no real number is NaN -/
instance : C01.NanTest ℝ := ⟨fun _ => false⟩

namespace C01

@[simp] theorem transc_exp (x : ℝ) : Transc.exp x = Real.exp x := rfl
@[simp] theorem transc_log (x : ℝ) : Transc.log x = Real.log x := rfl
@[simp] theorem transc_sqrt (x : ℝ) : Transc.sqrt x = Real.sqrt x := rfl
@[simp] theorem transc_sinh (x : ℝ) : Transc.sinh x = Real.sinh x := rfl
@[simp] theorem transc_cosh (x : ℝ) : Transc.cosh x = Real.cosh x := rfl
@[simp] theorem transc_tanh (x : ℝ) : Transc.tanh x = Real.tanh x := rfl
@[simp] theorem transc_asinh (x : ℝ) : Transc.asinh x = Real.arsinh x := rfl
@[simp] theorem transc_pow (x y : ℝ) : Transc.pow x y = x ^ y := rfl

theorem absv_eq (x : ℝ) : absv x = |x| := by
  unfold absv
  split_ifs with h
  · exact (abs_of_neg h).symm
  · exact (abs_of_nonneg (not_lt.mp h)).symm

theorem eps_pos : (0 : ℝ) < eps := by unfold eps; norm_num
theorem eps_lt_one : (eps : ℝ) < 1 := by unfold eps; norm_num

theorem lamBig_true {lam : ℝ} (h : lamBig lam = true) : lam ≠ 0 := by
  unfold lamBig at h
  rw [decide_eq_true_iff, absv_eq] at h
  intro h0
  rw [h0, abs_zero] at h
  exact absurd h (not_lt.mpr eps_pos.le)

theorem isclose0_false {lam : ℝ} (h : isclose0 lam = false) : lam ≠ 0 := by
  unfold isclose0 at h
  rw [decide_eq_false_iff_not, absv_eq] at h
  intro h0
  apply h
  rw [h0, abs_zero]; norm_num

theorem isclose2_false {lam : ℝ} (h : isclose2 lam = false) : 2 - lam ≠ 0 := by
  unfold isclose2 at h
  rw [decide_eq_false_iff_not, absv_eq] at h
  intro h0
  apply h
  have : lam - 2 = 0 := by linarith
  rw [this, abs_zero]; norm_num

theorem sign_pos {x : ℝ} (h : 0 < x) : sign x = 1 := by simp [sign, h]
theorem sign_neg {x : ℝ} (h : x < 0) : sign x = -1 := by
  simp [sign, h, not_lt.mpr h.le]
theorem sign_zero : sign (0 : ℝ) = 0 := by simp [sign]

/-! ### Box-Cox: the two branches are mutually inverse and strictly increasing -/

theorem bc_pow_inv {lam s : ℝ} (hl : lam ≠ 0) (hs : 0 < s) :
    (lam * ((s ^ lam - 1) / lam) + 1) ^ (1 / lam) = s := by
  have : lam * ((s ^ lam - 1) / lam) + 1 = s ^ lam := by field_simp; ring
  rw [this, one_div, Real.rpow_rpow_inv hs.le hl]

theorem bc_inv_pow {lam u : ℝ} (hl : lam ≠ 0) (hu : 0 < u) :
    ((u ^ (1 / lam)) ^ lam - 1) / lam = (u - 1) / lam := by
  rw [one_div, Real.rpow_inv_rpow hu.le hl]

/-- `s ↦ (s^lam - 1)/lam` is strictly increasing on `s > 0` for every `lam ≠ 0` -/
theorem bc_pow_strictMono {lam s t : ℝ} (hl : lam ≠ 0) (hs : 0 < s) (hst : s < t) :
    (s ^ lam - 1) / lam < (t ^ lam - 1) / lam := by
  rcases lt_or_gt_of_ne hl with h | h
  · have := Real.rpow_lt_rpow_of_neg hs hst h
    rw [div_lt_div_right_of_neg h]
    linarith
  · have := Real.rpow_lt_rpow hs.le hst h
    rw [div_lt_div_iff_of_pos_right h]
    linarith

/-- `u ↦ u^(1/lam)` compared through the sign of `lam`: if `(u-1)/lam < (v-1)/lam` then `u^(1/lam) < v^(1/lam)` -/
theorem bc_inv_strictMono {lam u v : ℝ} (hl : lam ≠ 0) (hu : 0 < u) (hv : 0 < v)
    (h : (u - 1) / lam < (v - 1) / lam) : u ^ (1 / lam) < v ^ (1 / lam) := by
  rcases lt_or_gt_of_ne hl with hneg | hpos
  · rw [div_lt_div_right_of_neg hneg] at h
    have hvu : v < u := by linarith
    exact Real.rpow_lt_rpow_of_neg hv hvu (by rw [one_div]; exact inv_lt_zero.mpr hneg)
  · rw [div_lt_div_iff_of_pos_right hpos] at h
    have huv : u < v := by linarith
    exact Real.rpow_lt_rpow hu.le huv (by rw [one_div]; exact inv_pos.mpr hpos)


/-! ### BoxCox2 raw formulas: mutually inverse, strictly increasing -/

theorem BoxCox2.bwd_fwd (p : BoxCox2.Params ℝ) {x : ℝ} (hx : 0 < x + p.nu) :
    BoxCox2.bwd p (BoxCox2.fwd p x) = x := by
  unfold BoxCox2.bwd BoxCox2.fwd
  cases h : lamBig p.lam with
  | true =>
    simp only [if_true, transc_pow]
    rw [bc_pow_inv (lamBig_true h) hx]; ring
  | false =>
    simp only [Bool.false_eq_true, if_false, transc_log, transc_exp]
    rw [Real.exp_log hx]; ring

theorem BoxCox2.fwd_bwd (p : BoxCox2.Params ℝ) {y : ℝ} (hy : BoxCox2.codom p y) :
    BoxCox2.fwd p (BoxCox2.bwd p y) = y := by
  unfold BoxCox2.bwd BoxCox2.fwd
  unfold BoxCox2.codom at hy
  cases h : lamBig p.lam with
  | true =>
    have hl := lamBig_true h
    simp only [if_true, transc_pow, sub_add_cancel]
    rw [bc_inv_pow hl (hy h)]
    field_simp; ring
  | false =>
    simp only [Bool.false_eq_true, if_false, transc_log, transc_exp, sub_add_cancel]
    rw [Real.log_exp]

/-- the forward image satisfies the backward's positivity condition -/
theorem BoxCox2.codom_fwd (p : BoxCox2.Params ℝ) {x : ℝ} (hx : 0 < x + p.nu) :
    BoxCox2.codom p (BoxCox2.fwd p x) := by
  intro h
  unfold BoxCox2.fwd
  simp only [h, if_true, transc_pow]
  have hl := lamBig_true h
  have : p.lam * (((x + p.nu) ^ p.lam - 1) / p.lam) + 1 = (x + p.nu) ^ p.lam := by field_simp; ring
  rw [this]
  exact Real.rpow_pos_of_pos hx _

theorem BoxCox2.fwd_lt (p : BoxCox2.Params ℝ) {s t : ℝ} (hs : 0 < s + p.nu) (hst : s < t) :
    BoxCox2.fwd p s < BoxCox2.fwd p t := by
  unfold BoxCox2.fwd
  cases h : lamBig p.lam with
  | true =>
    simp only [if_true, transc_pow]
    exact bc_pow_strictMono (lamBig_true h) hs (by linarith)
  | false =>
    simp only [Bool.false_eq_true, if_false, transc_log]
    exact Real.log_lt_log hs (by linarith)

theorem BoxCox2.bwd_lt (p : BoxCox2.Params ℝ) {u v : ℝ} (hu : BoxCox2.codom p u) (hv : BoxCox2.codom p v)
    (huv : u < v) : BoxCox2.bwd p u < BoxCox2.bwd p v := by
  unfold BoxCox2.bwd
  unfold BoxCox2.codom at hu hv
  cases h : lamBig p.lam with
  | true =>
    have hl := lamBig_true h
    simp only [if_true, transc_pow]
    have := bc_inv_strictMono hl (hu h) (hv h) (by
      rw [show (p.lam * u + 1 - 1) / p.lam = u by field_simp; ring,
          show (p.lam * v + 1 - 1) / p.lam = v by field_simp; ring]; exact huv)
    linarith
  | false =>
    simp only [Bool.false_eq_true, if_false, transc_exp]
    have := Real.exp_lt_exp.mpr huv
    linarith


/-! ### Yeo-Johnson on the shifted argument -/

theorem YeoJohnson.bwdW_fwdW (lam w : ℝ) (hb : eps ≤ w ↔ eps ≤ YeoJohnson.fwdW lam w) :
    YeoJohnson.bwdW lam (YeoJohnson.fwdW lam w) = w := by
  by_cases hw : eps ≤ w
  · have hy := hb.mp hw
    unfold YeoJohnson.bwdW
    rw [if_pos hy]
    unfold YeoJohnson.fwdW
    rw [if_pos hw]
    have hw1 : 0 < w + 1 := by linarith [eps_pos]
    cases h0 : isclose0 lam with
    | true =>
      simp only [if_true, transc_log, transc_exp]
      rw [Real.exp_log hw1]; ring
    | false =>
      simp only [Bool.false_eq_true, if_false, transc_pow]
      rw [bc_pow_inv (isclose0_false h0) hw1]; ring
  · have hy : ¬ eps ≤ YeoJohnson.fwdW lam w := fun h => hw (hb.mpr h)
    unfold YeoJohnson.bwdW
    rw [if_neg hy]
    unfold YeoJohnson.fwdW
    rw [if_neg hw]
    have hw1 : 0 < -w + 1 := by linarith [eps_lt_one]
    cases h2 : isclose2 lam with
    | true =>
      simp only [if_true, transc_log, transc_exp, neg_neg]
      rw [Real.exp_log hw1]; ring
    | false =>
      simp only [Bool.false_eq_true, if_false, transc_pow]
      have hm := isclose2_false h2
      have e : -(2 - lam) * (-((-w + 1) ^ (2 - lam) - 1) / (2 - lam)) + 1 = (-w + 1) ^ (2 - lam) := by
        field_simp; ring
      rw [e, one_div, Real.rpow_rpow_inv hw1.le hm]; ring

theorem YeoJohnson.fwdW_bwdW (lam y : ℝ) (hb : eps ≤ y ↔ eps ≤ YeoJohnson.bwdW lam y)
    (hpos : eps ≤ y → isclose0 lam = false → 0 < lam * y + 1)
    (hneg : ¬ eps ≤ y → isclose2 lam = false → 0 < -(2 - lam) * y + 1) :
    YeoJohnson.fwdW lam (YeoJohnson.bwdW lam y) = y := by
  by_cases hy : eps ≤ y
  · have hw := hb.mp hy
    unfold YeoJohnson.fwdW
    rw [if_pos hw]
    unfold YeoJohnson.bwdW
    rw [if_pos hy]
    cases h0 : isclose0 lam with
    | true =>
      simp only [if_true, transc_log, transc_exp, sub_add_cancel]
      rw [Real.log_exp]
    | false =>
      simp only [Bool.false_eq_true, if_false, transc_pow, sub_add_cancel]
      have hl := isclose0_false h0
      rw [bc_inv_pow hl (hpos hy h0)]
      field_simp; ring
  · have hw : ¬ eps ≤ YeoJohnson.bwdW lam y := fun h => hy (hb.mpr h)
    unfold YeoJohnson.fwdW
    rw [if_neg hw]
    unfold YeoJohnson.bwdW
    rw [if_neg hy]
    cases h2 : isclose2 lam with
    | true =>
      simp only [if_true, transc_log, transc_exp]
      rw [show -(-Real.exp (-y) + 1) + 1 = Real.exp (-y) by ring, Real.log_exp]; ring
    | false =>
      simp only [Bool.false_eq_true, if_false, transc_pow]
      have hm := isclose2_false h2
      have hu := hneg hy h2
      rw [show -(-(-(2 - lam) * y + 1) ^ (1 / (2 - lam)) + 1) + 1 = (-(2 - lam) * y + 1) ^ (1 / (2 - lam)) by ring,
        one_div, Real.rpow_inv_rpow hu.le hm]
      field_simp; ring

/-- below zero the negative branch never reaches `EPS`: no branch disagreement for `w ≤ 0` -/
theorem YeoJohnson.fwdW_nonpos (lam w : ℝ) (hw : w ≤ 0) : YeoJohnson.fwdW lam w ≤ 0 := by
  unfold YeoJohnson.fwdW
  rw [if_neg (by linarith [eps_pos])]
  have h1 : 1 ≤ -w + 1 := by linarith
  have h0 : 0 < -w + 1 := by linarith
  cases h2 : isclose2 lam with
  | true =>
    simp only [if_true, transc_log]
    have := Real.log_nonneg h1
    linarith
  | false =>
    simp only [Bool.false_eq_true, if_false, transc_pow]
    have hm := isclose2_false h2
    rcases lt_or_gt_of_ne hm with h | h
    · have : (-w + 1) ^ (2 - lam) ≤ 1 := Real.rpow_le_one_of_one_le_of_nonpos h1 h.le
      rw [div_nonpos_iff]; left
      exact ⟨by linarith, h.le⟩
    · have : 1 ≤ (-w + 1) ^ (2 - lam) := Real.one_le_rpow h1 h.le
      rw [div_nonpos_iff]; right
      exact ⟨by linarith, h.le⟩


/-- Bernoulli: for `lam ≥ 1` the positive branch lies above the identity, so `w ≥ EPS ⇒ forward ≥ EPS` -/
theorem YeoJohnson.le_fwdW_of_one_le (lam w : ℝ) (hl : 1 ≤ lam) (hw : eps ≤ w) : w ≤ YeoJohnson.fwdW lam w := by
  have h0 : isclose0 lam = false := by
    unfold isclose0
    rw [decide_eq_false_iff_not, absv_eq, abs_of_pos (by linarith)]
    have : (1e-8 : ℝ) < 1 := by norm_num
    linarith
  unfold YeoJohnson.fwdW
  rw [if_pos hw]
  simp only [h0, Bool.false_eq_true, if_false, transc_pow]
  have hb := one_add_mul_self_le_rpow_one_add (s := w) (by linarith [eps_pos]) hl
  rw [le_div_iff₀ (by linarith)]
  rw [show w + 1 = 1 + w by ring]
  linarith

/-- Bernoulli: for `lam ≤ 1` the negative branch lies below the identity, so `w < EPS ⇒ forward < EPS` -/
theorem YeoJohnson.fwdW_le_of_le_one (lam w : ℝ) (hl : lam ≤ 1) (hw : w < eps) : YeoJohnson.fwdW lam w ≤ w := by
  have h2 : isclose2 lam = false := by
    unfold isclose2
    rw [decide_eq_false_iff_not, absv_eq, abs_of_neg (by linarith)]
    have : (1e-8 : ℝ) + 1e-5 * 2 < 1 := by norm_num
    linarith
  unfold YeoJohnson.fwdW
  rw [if_neg (not_le.mpr hw)]
  simp only [h2, Bool.false_eq_true, if_false, transc_pow]
  have hb := one_add_mul_self_le_rpow_one_add (s := -w) (by linarith [eps_lt_one]) (p := 2 - lam) (by linarith)
  rw [div_le_iff₀ (by linarith)]
  rw [show -w + 1 = 1 + -w by ring]
  nlinarith


/-- image side: for `y ≤ 0` (inside the image) the negative-branch inverse is `≤ 0`, so both tests pick the negative branch -/
theorem YeoJohnson.bwdW_nonpos (lam y : ℝ) (hy : y ≤ 0)
    (hneg : isclose2 lam = false → 0 < -(2 - lam) * y + 1) : YeoJohnson.bwdW lam y ≤ 0 := by
  unfold YeoJohnson.bwdW
  rw [if_neg (by linarith [eps_pos])]
  cases h2 : isclose2 lam with
  | true =>
    simp only [if_true, transc_exp]
    have : 1 ≤ Real.exp (-y) := Real.one_le_exp (by linarith)
    linarith
  | false =>
    simp only [Bool.false_eq_true, if_false, transc_pow]
    have hm := isclose2_false h2
    have hq := hneg h2
    have : 1 ≤ (-(2 - lam) * y + 1) ^ (1 / (2 - lam)) := by
      rcases lt_or_gt_of_ne hm with h | h
      · apply Real.one_le_rpow_of_pos_of_le_one_of_nonpos hq
        · nlinarith
        · rw [one_div]; exact (inv_lt_zero.mpr h).le
      · apply Real.one_le_rpow
        · nlinarith
        · rw [one_div]; exact (inv_pos.mpr h).le
    linarith

/-! ### LogSinh -/

theorem logsinh_back {w : ℝ} (hw : 0 < w) :
    Real.log (1 + Real.sqrt (1 + Real.exp (-2 * (w + Real.log ((1 - Real.exp (-2 * w)) / 2)))))
      = - Real.log ((1 - Real.exp (-2 * w)) / 2) := by
  have hE0 : 0 < Real.exp (-2 * w) := Real.exp_pos _
  have hE1 : Real.exp (-2 * w) < 1 := by rw [Real.exp_lt_one_iff]; linarith
  set E := Real.exp (-2 * w) with hE
  have hq : 0 < (1 - E) / 2 := by linarith
  have h1 : Real.exp (-2 * (w + Real.log ((1 - E) / 2))) = E / (((1 - E) / 2) * ((1 - E) / 2)) := by
    rw [show -2 * (w + Real.log ((1 - E) / 2)) = -2 * w + -(Real.log ((1 - E) / 2) + Real.log ((1 - E) / 2)) by ring,
      Real.exp_add, Real.exp_neg, Real.exp_add, Real.exp_log hq, ← hE]
    rfl
  have h1E : 0 < 1 - E := by linarith
  have h2 : 1 + E / (((1 - E) / 2) * ((1 - E) / 2)) = ((1 + E) / (1 - E)) ^ 2 := by
    field_simp; ring
  have h3 : 1 + (1 + E) / (1 - E) = ((1 - E) / 2)⁻¹ := by
    field_simp; ring
  rw [h1, h2, Real.sqrt_sq (div_nonneg (by linarith) h1E.le), h3, Real.log_inv]

theorem logsinh_fwd (t : ℝ) :
    Real.log ((1 - Real.exp (-2 * (t + Real.log (1 + Real.sqrt (1 + Real.exp (-2 * t)))))) / 2)
      = - Real.log (1 + Real.sqrt (1 + Real.exp (-2 * t))) := by
  have hF0 : 0 < Real.exp (-2 * t) := Real.exp_pos _
  set F := Real.exp (-2 * t) with hF
  have hS : Real.sqrt (1 + F) * Real.sqrt (1 + F) = 1 + F := Real.mul_self_sqrt (by linarith)
  have hS0 : 0 ≤ Real.sqrt (1 + F) := Real.sqrt_nonneg _
  set S := Real.sqrt (1 + F) with hSdef
  have h1S : 0 < 1 + S := by linarith
  have h1 : Real.exp (-2 * (t + Real.log (1 + S))) = F / ((1 + S) * (1 + S)) := by
    rw [show -2 * (t + Real.log (1 + S)) = -2 * t + -(Real.log (1 + S) + Real.log (1 + S)) by ring,
      Real.exp_add, Real.exp_neg, Real.exp_add, Real.exp_log h1S, ← hF]
    rfl
  have h2 : (1 - F / ((1 + S) * (1 + S))) / 2 = (1 + S)⁻¹ := by
    have hF' : F = S * S - 1 := by linarith
    rw [hF']
    field_simp; ring
  rw [h1, h2, Real.log_inv]

/-! ### Softmax: sums of mapped lists -/

theorem sumFrom_eq (acc : ℝ) (xs : List ℝ) : Softmax.sumFrom acc xs = acc + xs.sum := by
  induction xs generalizing acc with
  | nil => simp [Softmax.sumFrom]
  | cons x xs ih => simp [Softmax.sumFrom, ih, add_assoc]

theorem sumL_eq (xs : List ℝ) : Softmax.sumL xs = xs.sum := by
  simp [Softmax.sumL, sumFrom_eq]

theorem sum_map_div (xs : List ℝ) (c : ℝ) : (xs.map fun v => v / c).sum = xs.sum / c := by
  induction xs with
  | nil => simp
  | cons x xs ih => simp [ih, add_div]

theorem sum_exp_pos (ys : List ℝ) : 0 ≤ (ys.map Real.exp).sum := by
  induction ys with
  | nil => simp
  | cons y ys ih => simp only [List.map_cons, List.sum_cons]; have := Real.exp_pos y; linarith

end C01
end HydroVerif
