/-
C10 — Cramer-von Mises and Anderson-Darling statistics, PIT: helper lemmas.
-/
import HydroVerif.Lemmas.C10Real
import Mathlib.Data.List.Sort

set_option linter.unusedSectionVars false
set_option linter.unusedVariables false

namespace HydroVerif.C10
open HydroVerif.C04 (sumL absG)

section field
variable {α : Type} [Field α] [LinearOrder α] [IsStrictOrderedRing α]

/-- what is assumed of `np.sort` / `qsort` on NaN-free data: the ascending permutation of the input -/
def SortsAscending (sort : List α → List α) : Prop :=
  ∀ l, (sort l).Perm l ∧ (sort l).Pairwise (· ≤ ·)

theorem sorted_perm_unique {s1 s2 : List α} (h1 : s1.Pairwise (· ≤ ·)) (h2 : s2.Pairwise (· ≤ ·))
    (hp : s1.Perm s2) : s1 = s2 :=
  List.Perm.eq_of_pairwise (fun a b _ _ hab hba => le_antisymm hab hba) h1 h2 hp

theorem sort_eq_of_perm {sort : List α → List α} (hs : SortsAscending sort) {l1 l2 : List α}
    (h : l1.Perm l2) : sort l1 = sort l2 :=
  sorted_perm_unique (hs l1).2 (hs l2).2 (((hs l1).1.trans h).trans (hs l2).1.symm)

/-- textbook Cramer-von Mises statistic on the order statistics `s` -/
def cvmTextbook (s : List α) : α :=
  1 / (12 * (s.length : α))
    + (s.zipIdx.map fun xi => ((2 * ((xi.2 : α) + 1) - 1) / (2 * (s.length : α)) - xi.1) ^ 2).sum

theorem plotPos_eq (n i : ℕ) : plotPos (α := α) n i = (2 * ((i : α) + 1) - 1) / (2 * (n : α)) := by
  unfold plotPos
  have h : 2 * (i + 1) - 1 = 2 * i + 1 := by omega
  rw [h, div_div]
  push_cast; ring

theorem cvmStat_eq (sort : List α → List α) (data : List α) (hlen : (sort data).length = data.length) :
    cvmStat sort data = cvmTextbook (sort data) := by
  unfold cvmStat cvmTextbook
  dsimp only
  rw [sumL_eq_sum, hlen, div_div]
  congr 1
  apply sum_map_congr
  intro xi _
  rw [plotPos_eq]; ring

/-! ### Anderson-Darling guards -/

/-- a value `ADtest` must reject: NaN or outside [0, 1] -/
def BadAD : Option α → Prop
  | none => True
  | some v => v < 0 ∨ 1 < v

/-- what is assumed of `qsort` in `c_ad_test`: a permutation of its input, ascending when no NaN is present -/
def ADSorts (sort : List (Option α) → List (Option α)) : Prop :=
  (∀ data, (sort data).Perm data) ∧
    ∀ xs : List α, ∃ s : List α, sort (xs.map some) = s.map some ∧ s.Perm xs ∧ s.Pairwise (· ≤ ·)

theorem adGuards_of_bad (l : List (Option α)) (h : ∃ x ∈ l, BadAD x) : ∀ prev, adGuards prev l ≠ none := by
  induction l with
  | nil => obtain ⟨x, hx, _⟩ := h; simp at hx
  | cons y l ih =>
    intro prev
    cases y with
    | none => simp [adGuards]
    | some v =>
      unfold adGuards
      by_cases h1 : v < 0 ∨ 1 < v
      · simp [h1]
      · rw [if_neg h1]
        by_cases h2 : v < prev
        · simp [h2]
        · rw [if_neg h2]
          apply ih
          obtain ⟨x, hx, hb⟩ := h
          rcases List.mem_cons.mp hx with he | hm
          · subst he; exact absurd hb h1
          · exact ⟨x, hm, hb⟩

theorem adGuards_of_good (s : List α) (hs : s.Pairwise (· ≤ ·)) (hr : ∀ v ∈ s, 0 ≤ v ∧ v ≤ 1) :
    ∀ prev, (∀ v ∈ s, prev ≤ v) → adGuards prev (s.map some) = none := by
  induction s with
  | nil => intro _ _; rfl
  | cons v s ih =>
    intro prev hprev
    have h1 := List.pairwise_cons.mp hs
    have hv := hr v (by simp)
    simp only [List.map_cons, adGuards]
    rw [if_neg (by rw [not_or, not_lt, not_lt]; exact hv), if_neg (not_lt.mpr (hprev v (by simp)))]
    exact ih h1.2 (fun w hw => hr w (by simp [hw])) v h1.1

theorem allSome_map_some (s : List α) : allSome (s.map some) = some s := by
  induction s with
  | nil => rfl
  | cons v s ih => simp [allSome, ih]

/-! ### PIT helpers -/

theorem belowJit_le (obs dobs : α) (ens dens : List α) : belowJit obs dobs ens dens ≤ ens.length := by
  induction ens generalizing dens with
  | nil => simp [belowJit]
  | cons e es ih =>
    cases dens with
    | nil => simp [belowJit]
    | cons d ds =>
      simp only [belowJit, List.length_cons]
      have := ih ds
      split <;> omega

theorem clampCst_le_half (cst : α) : clampCst cst ≤ 1 / 2 := by
  unfold clampCst
  split <;> linarith

theorem eq_map_some_of_allSome (data : List (Option α)) (xs : List α) (h : allSome data = some xs) :
    data = xs.map some := by
  induction data generalizing xs with
  | nil => simp [allSome] at h; subst h; rfl
  | cons x l ih =>
    cases x with
    | none => simp [allSome] at h
    | some v =>
      simp only [allSome, Option.map_eq_some_iff] at h
      obtain ⟨ys, hys, rfl⟩ := h
      rw [ih ys hys]; rfl

/-! ### interpolation into a table -/

theorem interpAux_range (x lo hi : α) : ∀ (xs fs : List α) (x0 f0 : α), x0 ≤ x → lo ≤ f0 → f0 ≤ hi →
    (∀ f ∈ fs, lo ≤ f ∧ f ≤ hi) → (x0 :: xs).Pairwise (· < ·) →
    lo ≤ interpAux x x0 f0 xs fs ∧ interpAux x x0 f0 xs fs ≤ hi := by
  intro xs
  induction xs with
  | nil => intro fs x0 f0 _ h1 h2 _ _; simp [interpAux, h1, h2]
  | cons x1 xs ih =>
    intro fs x0 f0 hx h1 h2 hfs hpw
    cases fs with
    | nil => simp [interpAux, h1, h2]
    | cons f1 fs =>
      have hf1 := hfs f1 (by simp)
      have hpw' := List.pairwise_cons.mp hpw
      have hx01 : x0 < x1 := hpw'.1 x1 (by simp)
      simp only [interpAux]
      by_cases hlt : x < x1
      · rw [if_pos hlt]
        by_cases hle : x ≤ x0
        · rw [if_pos hle]; exact ⟨h1, h2⟩
        · rw [if_neg hle]
          have hd : 0 < x1 - x0 := by linarith
          set t := (x - x0) / (x1 - x0) with ht
          have ht0 : 0 ≤ t := div_nonneg (by linarith) hd.le
          have ht1 : t ≤ 1 := by rw [ht, div_le_one hd]; linarith
          have hv : (f1 - f0) / (x1 - x0) * (x - x0) + f0 = (1 - t) * f0 + t * f1 := by
            rw [ht]; field_simp; ring
          rw [hv]
          have a1 := mul_nonneg ht0 (sub_nonneg.mpr hf1.1)
          have a2 := mul_nonneg (sub_nonneg.mpr ht1) (sub_nonneg.mpr h1)
          have a3 := mul_nonneg ht0 (sub_nonneg.mpr hf1.2)
          have a4 := mul_nonneg (sub_nonneg.mpr ht1) (sub_nonneg.mpr h2)
          constructor <;> nlinarith
      · rw [if_neg hlt]
        exact ih fs x1 f1 (not_lt.mp hlt) hf1.1 hf1.2 (fun f hf => hfs f (by simp [hf])) hpw'.2

theorem clamp01_range (p : α) : 0 ≤ clamp01 p ∧ clamp01 p ≤ 1 := by
  unfold clamp01
  by_cases h1 : p < 0
  · simp [h1]
  · by_cases h2 : 1 < p
    · simp [h1, h2]
    · rw [if_neg h1, if_neg h2]; exact ⟨not_lt.mp h1, not_lt.mp h2⟩

end field

/-! ### Anderson-Darling statistic (ℝ) -/

/-- textbook Anderson-Darling statistic on the order statistics `s` (0-based `i`):
`-n - (1/n) Σ (2i+1) [ln x_(i) + ln(1 - x_(n-1-i))]` -/
noncomputable def adTextbook (s : List ℝ) : ℝ :=
  -(s.length : ℝ) - (1 / (s.length : ℝ))
    * ((s.zip s.reverse).zipIdx.map fun p =>
        (2 * (p.2 : ℝ) + 1) * (Real.log p.1.1 + Real.log (1 - p.1.2))).sum

theorem adLoop_eq (xs rs : List ℝ) (hx : ∀ v ∈ xs, 0 < v) (hr : ∀ v ∈ rs, v < 1) : ∀ (i : ℕ) (z : ℝ),
    adLoop i z xs rs = z - (((xs.zip rs).zipIdx i).map fun p =>
        (2 * (p.2 : ℝ) + 1) * (Real.log p.1.1 + Real.log (1 - p.1.2))).sum := by
  induction xs generalizing rs with
  | nil => intro i z; simp [adLoop]
  | cons x xs ih =>
    intro i z
    cases rs with
    | nil => simp [adLoop]
    | cons r rs =>
      have hx0 : 0 < x := hx x (by simp)
      have hr1 : r < 1 := hr r (by simp)
      simp only [adLoop, List.zip_cons_cons, List.zipIdx_cons, List.map_cons, List.sum_cons]
      rw [ih rs (fun v hv => hx v (by simp [hv])) (fun v hv => hr v (by simp [hv])), log_def,
        Real.log_mul hx0.ne' (by linarith)]
      push_cast; ring

theorem adStat_eq (s : List ℝ) (h : ∀ v ∈ s, 0 < v ∧ v < 1) : adStat s = adTextbook s := by
  unfold adStat adTextbook
  rw [adLoop_eq s s.reverse (fun v hv => (h v hv).1) (fun v hv => (h v (List.mem_reverse.mp hv)).2) 0 0]
  ring

end HydroVerif.C10
