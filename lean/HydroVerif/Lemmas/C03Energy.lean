/-
C03 — helper lemmas, part 1: the Hersbach = energy-form identity in index-function form
(moved unchanged from design-spikes/CrpsEnergyIdentity.lean).
-/
import Mathlib.Algebra.Order.Field.Basic
import Mathlib.Algebra.BigOperators.Group.Finset.Basic
import Mathlib.Algebra.BigOperators.Ring.Finset
import Mathlib.Algebra.BigOperators.Intervals
import Mathlib.Algebra.Order.BigOperators.Group.Finset
import Mathlib.Tactic.Linarith
import Mathlib.Tactic.Ring
import Mathlib.Tactic.FieldSimp

set_option linter.unusedSectionVars false
namespace HydroVerif.C03
open Finset
variable {α : Type} [Field α] [LinearOrder α] [IsStrictOrderedRing α]


def clipv (y l r : α) : α := if y < l then l else if r < y then r else y

/-- alpha piece of a bin telescopes through min -/
theorem alpha_eq (y l r : α) (h : l ≤ r) : clipv y l r - l = min y r - min y l := by
  unfold clipv
  split_ifs with h1 h2
  · rw [min_eq_left (by linarith), min_eq_left h1.le]; ring
  · rw [min_eq_right h2.le, min_eq_right (by linarith)]
  · push Not at h1 h2
    rw [min_eq_left h2, min_eq_right h1]

theorem beta_eq (y l r : α) (h : l ≤ r) : r - clipv y l r = max y r - max y l := by
  unfold clipv
  split_ifs with h1 h2
  · rw [max_eq_right (by linarith), max_eq_right h1.le]
  · rw [max_eq_left h2.le, max_eq_left (by linarith)]; ring
  · push Not at h1 h2
    rw [max_eq_right h2, max_eq_left h1]

/-- telescoping of alpha pieces from member i to the last member -/
theorem sum_alpha_tele (x : ℕ → α) (y : α) (m i : ℕ) (him : i ≤ m)
    (mono : ∀ j, x j ≤ x (j+1)) :
    ∑ j ∈ Ico i m, (clipv y (x j) (x (j+1)) - x j) = min y (x m) - min y (x i) := by
  have : ∀ j, clipv y (x j) (x (j+1)) - x j = (fun k => min y (x k)) (j+1) - (fun k => min y (x k)) j :=
    fun j => alpha_eq y _ _ (mono j)
  simp only [this]
  exact Finset.sum_Ico_sub (fun k => min y (x k)) him

theorem abs_eq_pieces (x : ℕ → α) (y : α) (m i : ℕ) (him : i ≤ m)
    (mono : ∀ j, x j ≤ x (j+1)) :
    |x i - y| = (max y (x 0) - y) + (y - min y (x m))
      + ∑ j ∈ Ico i m, (clipv y (x j) (x (j+1)) - x j)
      + ∑ j ∈ Ico 0 i, (x (j+1) - clipv y (x j) (x (j+1))) := by
  rw [sum_alpha_tele x y m i him mono]
  have hb : ∀ j, x (j+1) - clipv y (x j) (x (j+1)) = (fun k => max y (x k)) (j+1) - (fun k => max y (x k)) j :=
    fun j => beta_eq y _ _ (mono j)
  simp only [hb]
  rw [Finset.sum_Ico_sub (fun k => max y (x k)) (Nat.zero_le i)]
  rcases le_total y (x i) with h | h
  · rw [min_eq_left h, max_eq_right h, abs_of_nonneg (by linarith)]; ring
  · rw [min_eq_right h, max_eq_left h, abs_of_nonpos (by linarith)]; ring

/-! ### second half: pairwise spread and the final identity -/

/-- for sorted x and i ≤ k: x k - x i is the sum of the gaps in between -/
theorem gap_tele (x : ℕ → α) (i k : ℕ) (hik : i ≤ k) :
    ∑ j ∈ Ico i k, (x (j+1) - x j) = x k - x i :=
  Finset.sum_Ico_sub x hik

theorem mono_of_step (x : ℕ → α) (mono : ∀ j, x j ≤ x (j+1)) : Monotone x :=
  monotone_nat_of_le_succ mono

/-- number-of-pairs weights: Σ_{i<m} [i ≤ j] = j+1 for j<m -/
theorem card_le (m j : ℕ) (hj : j < m) : ((range m).filter (fun i => i ≤ j)).card = j + 1 := by
  have : (range m).filter (fun i => i ≤ j) = range (j+1) := by
    ext i; simp only [mem_filter, mem_range]; omega
  rw [this, card_range]

theorem card_gt (m j : ℕ) (hj : j < m) : ((range m).filter (fun i => j < i)).card = m - 1 - j := by
  have : (range m).filter (fun i => j < i) = Ico (j+1) m := by
    ext i; simp only [mem_filter, mem_range, mem_Ico]; omega
  rw [this, Nat.card_Ico]; omega

/-- swap: Σ_{i<m} Σ_{j∈[i,m-1)} f j = Σ_{j<m-1} (j+1) f j -/
theorem sum_upper_swap (f : ℕ → α) (m : ℕ) :
    ∑ i ∈ range m, ∑ j ∈ Ico i (m-1), f j = ∑ j ∈ range (m-1), ((j:α)+1) * f j := by
  have h1 : ∀ i ∈ range m, ∑ j ∈ Ico i (m-1), f j = ∑ j ∈ range (m-1), if i ≤ j then f j else 0 := by
    intro i _
    rw [← Finset.sum_filter]
    congr 1; ext j; simp only [mem_Ico, mem_filter, mem_range]; omega
  rw [Finset.sum_congr rfl h1, Finset.sum_comm]
  apply Finset.sum_congr rfl
  intro j hj
  rw [← Finset.sum_filter, Finset.sum_const, card_le m j (by simp at hj; omega)]
  simp [nsmul_eq_mul]

theorem sum_lower_swap (f : ℕ → α) (m : ℕ) :
    ∑ i ∈ range m, ∑ j ∈ Ico 0 i, f j = ∑ j ∈ range (m-1), ((m:α) - 1 - j) * f j := by
  have h1 : ∀ i ∈ range m, ∑ j ∈ Ico 0 i, f j = ∑ j ∈ range (m-1), if j < i then f j else 0 := by
    intro i hi
    rw [← Finset.sum_filter]
    congr 1; ext j; simp only [mem_Ico, mem_filter, mem_range] at *; omega
  rw [Finset.sum_congr rfl h1, Finset.sum_comm]
  apply Finset.sum_congr rfl
  intro j hj
  have hj' : j < m := by simp at hj; omega
  rw [← Finset.sum_filter, Finset.sum_const, card_gt m j hj']
  simp only [nsmul_eq_mul]
  have : ((m - 1 - j : ℕ) : α) = (m:α) - 1 - j := by
    rw [Nat.cast_sub (by omega), Nat.cast_sub (by omega)]; simp
  rw [this]

section main
variable (x : ℕ → α) (y : α) (m : ℕ)

/-- the pieces, as functions of the observation -/
def Apc (x : ℕ → α) (y : α) (j : ℕ) : α := clipv y (x j) (x (j+1)) - x j
def Bpc (x : ℕ → α) (y : α) (j : ℕ) : α := x (j+1) - clipv y (x j) (x (j+1))
def b0 (x : ℕ → α) (y : α) : α := max y (x 0) - y
def aN (x : ℕ → α) (y : α) (m : ℕ) : α := y - min y (x (m-1))

/-- Σ_i |x_i - y| in terms of the pieces -/
theorem sum_abs_pieces (hm : 1 ≤ m) (mono : ∀ j, x j ≤ x (j+1)) :
    ∑ i ∈ range m, |x i - y| = (m:α) * (b0 x y + aN x y m)
      + ∑ j ∈ range (m-1), ((j:α)+1) * Apc x y j
      + ∑ j ∈ range (m-1), ((m:α) - 1 - j) * Bpc x y j := by
  have h : ∀ i ∈ range m, |x i - y| = (b0 x y + aN x y m)
      + ∑ j ∈ Ico i (m-1), Apc x y j + ∑ j ∈ Ico 0 i, Bpc x y j := by
    intro i hi
    have him : i ≤ m - 1 := by simp at hi; omega
    have := abs_eq_pieces x y (m-1) i him mono
    simpa [Apc, Bpc, b0, aN] using this
  rw [Finset.sum_congr rfl h, Finset.sum_add_distrib, Finset.sum_add_distrib,
    sum_upper_swap, sum_lower_swap, Finset.sum_const, card_range]
  simp [nsmul_eq_mul]

theorem Apc_at_member (mono : ∀ j, x j ≤ x (j+1)) (j k : ℕ) :
    Apc x (x k) j = if j < k then x (j+1) - x j else 0 := by
  have hm := mono_of_step x mono
  unfold Apc
  rw [alpha_eq _ _ _ (mono j)]
  split_ifs with h
  · rw [min_eq_right (hm (by omega)), min_eq_right (hm (by omega))]
  · rw [min_eq_left (hm (by omega)), min_eq_left (hm (by omega))]; ring

theorem Bpc_at_member (mono : ∀ j, x j ≤ x (j+1)) (j k : ℕ) :
    Bpc x (x k) j = if k ≤ j then x (j+1) - x j else 0 := by
  have hm := mono_of_step x mono
  unfold Bpc
  rw [beta_eq _ _ _ (mono j)]
  split_ifs with h
  · rw [max_eq_right (hm (by omega)), max_eq_right (hm (by omega))]
  · rw [max_eq_left (hm (by omega)), max_eq_left (hm (by omega))]; ring

/-- pairwise spread of a sorted ensemble -/
theorem sum_pairs (hm : 1 ≤ m) (mono : ∀ j, x j ≤ x (j+1)) :
    ∑ k ∈ range m, ∑ i ∈ range m, |x i - x k|
      = 2 * ∑ j ∈ range (m-1), ((j:α)+1) * ((m:α) - 1 - j) * (x (j+1) - x j) := by
  have hmon := mono_of_step x mono
  have h : ∀ k ∈ range m, ∑ i ∈ range m, |x i - x k| =
      ∑ j ∈ range (m-1), ((j:α)+1) * (if j < k then x (j+1) - x j else 0)
      + ∑ j ∈ range (m-1), ((m:α) - 1 - j) * (if k ≤ j then x (j+1) - x j else 0) := by
    intro k hk
    have hk' : k ≤ m - 1 := by simp at hk; omega
    rw [sum_abs_pieces x (x k) m hm mono]
    have e1 : b0 x (x k) = 0 := by unfold b0; rw [max_eq_left (hmon (Nat.zero_le k))]; ring
    have e2 : aN x (x k) m = 0 := by unfold aN; rw [min_eq_left (hmon hk')]; ring
    rw [e1, e2]
    simp only [Apc_at_member x mono, Bpc_at_member x mono]
    ring
  rw [Finset.sum_congr rfl h, Finset.sum_add_distrib, Finset.sum_comm,
    Finset.sum_comm (s := range m) (t := range (m-1))]
  rw [← Finset.sum_add_distrib, Finset.mul_sum]
  apply Finset.sum_congr rfl
  intro j hj
  have hj' : j < m := by simp at hj; omega
  rw [← Finset.mul_sum, ← Finset.mul_sum, ← Finset.sum_filter, ← Finset.sum_filter,
    Finset.sum_const, Finset.sum_const, card_gt m j hj']
  have c2 : ((range m).filter (fun k => k ≤ j)).card = j + 1 := card_le m j hj'
  rw [c2]
  simp only [nsmul_eq_mul]
  have : ((m - 1 - j : ℕ) : α) = (m:α) - 1 - j := by
    rw [Nat.cast_sub (by omega), Nat.cast_sub (by omega)]; simp
  rw [this]; push_cast; ring

/-- **Hersbach sum = energy form** (unnormalised by m²) -/
theorem hersbach_eq_energy (hm : 1 ≤ m) (mono : ∀ j, x j ≤ x (j+1)) :
    (m:α)^2 * (b0 x y + aN x y m)
      + ∑ j ∈ range (m-1), (((j:α)+1)^2 * Apc x y j + ((m:α) - 1 - j)^2 * Bpc x y j)
    = (m:α) * ∑ i ∈ range m, |x i - y|
      - (1/2) * ∑ k ∈ range m, ∑ i ∈ range m, |x i - x k| := by
  rw [sum_abs_pieces x y m hm mono, sum_pairs x m hm mono]
  have hd : ∀ j, x (j+1) - x j = Apc x y j + Bpc x y j := by intro j; unfold Apc Bpc; ring
  simp only [hd]
  have hR : (m:α) * ((m:α) * (b0 x y + aN x y m)
        + ∑ j ∈ range (m-1), ((j:α)+1) * Apc x y j
        + ∑ j ∈ range (m-1), ((m:α) - 1 - j) * Bpc x y j)
      - (1/2) * (2 * ∑ j ∈ range (m-1), ((j:α)+1) * ((m:α) - 1 - j) * (Apc x y j + Bpc x y j))
      = (m:α)^2 * (b0 x y + aN x y m)
        + ∑ j ∈ range (m-1), ((m:α) * (((j:α)+1) * Apc x y j) + (m:α) * (((m:α) - 1 - j) * Bpc x y j)
            - ((j:α)+1) * ((m:α) - 1 - j) * (Apc x y j + Bpc x y j)) := by
    rw [Finset.sum_sub_distrib, Finset.sum_add_distrib, ← Finset.mul_sum, ← Finset.mul_sum]
    ring
  rw [hR]
  congr 1
  apply Finset.sum_congr rfl
  intro j _
  ring
end main

end HydroVerif.C03
