/- helper lemmas for C20 over an ordered field: sums, min / max folds, insertion sort, linspace -/
import HydroVerif.Model.C20
import Mathlib.Algebra.Order.Field.Basic
import Mathlib.Algebra.Order.Floor.Ring
import Mathlib.Algebra.Order.Floor.Semiring
import Mathlib.Data.List.Perm.Basic
import Mathlib.Data.List.Sort
import Mathlib.Tactic.Ring
import Mathlib.Tactic.Linarith
import Mathlib.Tactic.FieldSimp
import Mathlib.Tactic.Positivity
import Mathlib.Tactic.NormNum
import Mathlib.Tactic.Push

set_option linter.unusedSectionVars false
set_option linter.unusedVariables false

namespace HydroVerif.C20

variable {α : Type} [Field α] [LinearOrder α] [IsStrictOrderedRing α]

/-! ### min / max folds -/

theorem foldl_min_le (l : List α) (x : α) :
    l.foldl (fun m y => if y < m then y else m) x ≤ x ∧
    ∀ v ∈ l, l.foldl (fun m y => if y < m then y else m) x ≤ v := by
  induction l generalizing x with
  | nil => simp
  | cons a t ih =>
    simp only [List.foldl_cons, List.mem_cons, forall_eq_or_imp]
    by_cases hax : a < x
    · obtain ⟨h1, h2⟩ := ih a
      simp only [if_pos hax]
      exact ⟨le_trans h1 (le_of_lt hax), h1, h2⟩
    · obtain ⟨h1, h2⟩ := ih x
      simp only [if_neg hax]
      exact ⟨h1, le_trans h1 (not_lt.mp hax), h2⟩

theorem foldl_min_mem (l : List α) (x : α) :
    l.foldl (fun m y => if y < m then y else m) x = x ∨
    l.foldl (fun m y => if y < m then y else m) x ∈ l := by
  induction l generalizing x with
  | nil => simp
  | cons a t ih =>
    simp only [List.foldl_cons, List.mem_cons]
    by_cases hax : a < x
    · simp only [if_pos hax]
      rcases ih a with h | h
      · right; left; exact h
      · right; right; exact h
    · simp only [if_neg hax]
      rcases ih x with h | h
      · left; exact h
      · right; right; exact h

theorem foldl_max_ge (l : List α) (x : α) :
    x ≤ l.foldl (fun m y => if m < y then y else m) x ∧
    ∀ v ∈ l, v ≤ l.foldl (fun m y => if m < y then y else m) x := by
  induction l generalizing x with
  | nil => simp
  | cons a t ih =>
    simp only [List.foldl_cons, List.mem_cons, forall_eq_or_imp]
    by_cases hax : x < a
    · obtain ⟨h1, h2⟩ := ih a
      simp only [if_pos hax]
      exact ⟨le_trans (le_of_lt hax) h1, h1, h2⟩
    · obtain ⟨h1, h2⟩ := ih x
      simp only [if_neg hax]
      exact ⟨h1, le_trans (not_lt.mp hax) h1, h2⟩

theorem foldl_max_mem (l : List α) (x : α) :
    l.foldl (fun m y => if m < y then y else m) x = x ∨
    l.foldl (fun m y => if m < y then y else m) x ∈ l := by
  induction l generalizing x with
  | nil => simp
  | cons a t ih =>
    simp only [List.foldl_cons, List.mem_cons]
    by_cases hax : x < a
    · simp only [if_pos hax]
      rcases ih a with h | h
      · right; left; exact h
      · right; right; exact h
    · simp only [if_neg hax]
      rcases ih x with h | h
      · left; exact h
      · right; right; exact h

theorem minL_spec {l : List α} {m : α} (h : minL l = some m) : m ∈ l ∧ ∀ v ∈ l, m ≤ v := by
  cases l with
  | nil => simp [minL] at h
  | cons x t =>
    simp only [minL, Option.some.injEq] at h
    subst h
    obtain ⟨h1, h2⟩ := foldl_min_le t x
    refine ⟨?_, ?_⟩
    · rcases foldl_min_mem t x with h | h
      · rw [h]; simp
      · exact List.mem_cons_of_mem _ h
    · intro v hv
      rcases List.mem_cons.mp hv with rfl | hv
      · exact h1
      · exact h2 v hv

theorem maxL_spec {l : List α} {m : α} (h : maxL l = some m) : m ∈ l ∧ ∀ v ∈ l, v ≤ m := by
  cases l with
  | nil => simp [maxL] at h
  | cons x t =>
    simp only [maxL, Option.some.injEq] at h
    subst h
    obtain ⟨h1, h2⟩ := foldl_max_ge t x
    refine ⟨?_, ?_⟩
    · rcases foldl_max_mem t x with h | h
      · rw [h]; simp
      · exact List.mem_cons_of_mem _ h
    · intro v hv
      rcases List.mem_cons.mp hv with rfl | hv
      · exact h1
      · exact h2 v hv

theorem minL_isSome {l : List α} (h : l ≠ []) : ∃ m, minL l = some m := by
  cases l with
  | nil => exact absurd rfl h
  | cons x t => exact ⟨_, rfl⟩

theorem maxL_isSome {l : List α} (h : l ≠ []) : ∃ m, maxL l = some m := by
  cases l with
  | nil => exact absurd rfl h
  | cons x t => exact ⟨_, rfl⟩

/-! ### insertion sort -/

theorem insertSorted_perm (x : α) (l : List α) : (insertSorted x l).Perm (x :: l) := by
  induction l with
  | nil => simp [insertSorted]
  | cons y ys ih =>
    simp only [insertSorted]
    split
    · exact List.Perm.refl _
    · exact (List.Perm.cons y ih).trans (List.Perm.swap x y ys)

theorem sortL_perm (l : List α) : (sortL l).Perm l := by
  induction l with
  | nil => simp [sortL]
  | cons x xs ih =>
    have : sortL (x :: xs) = insertSorted x (sortL xs) := rfl
    rw [this]
    exact (insertSorted_perm x _).trans (List.Perm.cons x ih)

theorem insertSorted_sorted (x : α) (l : List α) (h : l.Pairwise (· ≤ ·)) :
    (insertSorted x l).Pairwise (· ≤ ·) := by
  induction l with
  | nil => simp [insertSorted]
  | cons y ys ih =>
    simp only [insertSorted]
    rw [List.pairwise_cons] at h
    split
    · rename_i hxy
      rw [List.pairwise_cons]
      refine ⟨?_, List.pairwise_cons.mpr h⟩
      intro z hz
      rcases List.mem_cons.mp hz with rfl | hz
      · exact le_of_lt hxy
      · exact le_trans (le_of_lt hxy) (h.1 z hz)
    · rename_i hxy
      rw [List.pairwise_cons]
      refine ⟨?_, ih h.2⟩
      intro z hz
      have := (insertSorted_perm x ys).mem_iff.mp hz
      rcases List.mem_cons.mp this with rfl | hz
      · exact not_lt.mp hxy
      · exact h.1 z hz

theorem sortL_sorted (l : List α) : (sortL l).Pairwise (· ≤ ·) := by
  induction l with
  | nil => simp [sortL]
  | cons x xs ih => exact insertSorted_sorted x _ ih

theorem sortL_length (l : List α) : (sortL l).length = l.length := (sortL_perm l).length_eq

theorem sortL_mem {l : List α} {x : α} : x ∈ sortL l ↔ x ∈ l := (sortL_perm l).mem_iff

/-! ### sums -/

@[simp] theorem sumL_nil : sumL ([] : List α) = 0 := rfl
@[simp] theorem sumL_cons (x : α) (xs : List α) : sumL (x :: xs) = x + sumL xs := rfl

theorem sumL_eq_sum (l : List α) : sumL l = l.sum := by
  induction l with
  | nil => simp
  | cons x xs ih => simp [ih]

/-! ### lerp -/

theorem lerp_eq (a b t : α) : lerp a b t = a + (b - a) * t := by
  unfold lerp
  split <;> ring

/-! ### ppos -/

theorem ppos_den_pos (n : Nat) (hn : 0 < n) (cst : α) (h1 : cst ≤ 1 / 2) :
    (0 : α) < ((n + 1 : Nat) : α) - 2 * cst := by
  have h : (1 : α) ≤ (n : α) := by exact_mod_cast hn
  have h2 : 2 * cst ≤ 1 := by
    have := mul_le_mul_of_nonneg_left h1 (by norm_num : (0 : α) ≤ 2)
    simpa using this
  push_cast
  linarith

theorem ppos_eq (n : Nat) (cst : α) (h0 : 0 ≤ cst) (h1 : cst ≤ 1 / 2) :
    ppos n cst = .ok ((List.range n).map fun i =>
      (((i + 1 : Nat) : α) - cst) / (((n + 1 : Nat) : α) - 2 * cst)) := by
  unfold ppos
  rw [if_neg (not_or.mpr ⟨not_lt.mpr h0, not_lt.mpr h1⟩)]

end HydroVerif.C20
