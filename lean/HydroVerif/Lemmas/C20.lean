/- helper lemmas for C20 over an ordered field: sums, min / max folds, insertion sort, linspace -/
import HydroVerif.Model.C20
import Mathlib.Algebra.Order.Field.Basic
import Mathlib.Algebra.Order.Floor.Ring
import Mathlib.Algebra.Order.Floor.Semiring
import Mathlib.Data.List.Perm.Basic
import Mathlib.Data.List.Sort
import Mathlib.Tactic.Ring
import Mathlib.Tactic.Linarith
import Mathlib.Tactic.FieldSimp
import Mathlib.Tactic.Positivity
import Mathlib.Tactic.NormNum
import Mathlib.Tactic.Push

set_option linter.unusedSectionVars false
set_option linter.unusedVariables false

namespace HydroVerif.C20

variable {α : Type} [Field α] [LinearOrder α] [IsStrictOrderedRing α]

/-! ### min / max folds -/

theorem foldl_min_le (l : List α) (x : α) :
    l.foldl (fun m y => if y < m then y else m) x ≤ x ∧
    ∀ v ∈ l, l.foldl (fun m y => if y < m then y else m) x ≤ v := by
  induction l generalizing x with
  | nil => simp
  | cons a t ih =>
    simp only [List.foldl_cons, List.mem_cons, forall_eq_or_imp]
    by_cases hax : a < x
    · obtain ⟨h1, h2⟩ := ih a
      simp only [if_pos hax]
      exact ⟨le_trans h1 (le_of_lt hax), h1, h2⟩
    · obtain ⟨h1, h2⟩ := ih x
      simp only [if_neg hax]
      exact ⟨h1, le_trans h1 (not_lt.mp hax), h2⟩

theorem foldl_min_mem (l : List α) (x : α) :
    l.foldl (fun m y => if y < m then y else m) x = x ∨
    l.foldl (fun m y => if y < m then y else m) x ∈ l := by
  induction l generalizing x with
  | nil => simp
  | cons a t ih =>
    simp only [List.foldl_cons, List.mem_cons]
    by_cases hax : a < x
    · simp only [if_pos hax]
      rcases ih a with h | h
      · right; left; exact h
      · right; right; exact h
    · simp only [if_neg hax]
      rcases ih x with h | h
      · left; exact h
      · right; right; exact h

theorem foldl_max_ge (l : List α) (x : α) :
    x ≤ l.foldl (fun m y => if m < y then y else m) x ∧
    ∀ v ∈ l, v ≤ l.foldl (fun m y => if m < y then y else m) x := by
  induction l generalizing x with
  | nil => simp
  | cons a t ih =>
    simp only [List.foldl_cons, List.mem_cons, forall_eq_or_imp]
    by_cases hax : x < a
    · obtain ⟨h1, h2⟩ := ih a
      simp only [if_pos hax]
      exact ⟨le_trans (le_of_lt hax) h1, h1, h2⟩
    · obtain ⟨h1, h2⟩ := ih x
      simp only [if_neg hax]
      exact ⟨h1, le_trans (not_lt.mp hax) h1, h2⟩

theorem foldl_max_mem (l : List α) (x : α) :
    l.foldl (fun m y => if m < y then y else m) x = x ∨
    l.foldl (fun m y => if m < y then y else m) x ∈ l := by
  induction l generalizing x with
  | nil => simp
  | cons a t ih =>
    simp only [List.foldl_cons, List.mem_cons]
    by_cases hax : x < a
    · simp only [if_pos hax]
      rcases ih a with h | h
      · right; left; exact h
      · right; right; exact h
    · simp only [if_neg hax]
      rcases ih x with h | h
      · left; exact h
      · right; right; exact h

theorem minL_spec {l : List α} {m : α} (h : minL l = some m) : m ∈ l ∧ ∀ v ∈ l, m ≤ v := by
  cases l with
  | nil => simp [minL] at h
  | cons x t =>
    simp only [minL, Option.some.injEq] at h
    subst h
    obtain ⟨h1, h2⟩ := foldl_min_le t x
    refine ⟨?_, ?_⟩
    · rcases foldl_min_mem t x with h | h
      · rw [h]; simp
      · exact List.mem_cons_of_mem _ h
    · intro v hv
      rcases List.mem_cons.mp hv with rfl | hv
      · exact h1
      · exact h2 v hv

theorem maxL_spec {l : List α} {m : α} (h : maxL l = some m) : m ∈ l ∧ ∀ v ∈ l, v ≤ m := by
  cases l with
  | nil => simp [maxL] at h
  | cons x t =>
    simp only [maxL, Option.some.injEq] at h
    subst h
    obtain ⟨h1, h2⟩ := foldl_max_ge t x
    refine ⟨?_, ?_⟩
    · rcases foldl_max_mem t x with h | h
      · rw [h]; simp
      · exact List.mem_cons_of_mem _ h
    · intro v hv
      rcases List.mem_cons.mp hv with rfl | hv
      · exact h1
      · exact h2 v hv

theorem minL_isSome {l : List α} (h : l ≠ []) : ∃ m, minL l = some m := by
  cases l with
  | nil => exact absurd rfl h
  | cons x t => exact ⟨_, rfl⟩

theorem maxL_isSome {l : List α} (h : l ≠ []) : ∃ m, maxL l = some m := by
  cases l with
  | nil => exact absurd rfl h
  | cons x t => exact ⟨_, rfl⟩

/-! ### insertion sort -/

theorem insertSorted_perm (x : α) (l : List α) : (insertSorted x l).Perm (x :: l) := by
  induction l with
  | nil => simp [insertSorted]
  | cons y ys ih =>
    simp only [insertSorted]
    split
    · exact List.Perm.refl _
    · exact (List.Perm.cons y ih).trans (List.Perm.swap x y ys)

theorem sortL_perm (l : List α) : (sortL l).Perm l := by
  induction l with
  | nil => simp [sortL]
  | cons x xs ih =>
    have : sortL (x :: xs) = insertSorted x (sortL xs) := rfl
    rw [this]
    exact (insertSorted_perm x _).trans (List.Perm.cons x ih)

theorem insertSorted_sorted (x : α) (l : List α) (h : l.Pairwise (· ≤ ·)) :
    (insertSorted x l).Pairwise (· ≤ ·) := by
  induction l with
  | nil => simp [insertSorted]
  | cons y ys ih =>
    simp only [insertSorted]
    rw [List.pairwise_cons] at h
    split
    · rename_i hxy
      rw [List.pairwise_cons]
      refine ⟨?_, List.pairwise_cons.mpr h⟩
      intro z hz
      rcases List.mem_cons.mp hz with rfl | hz
      · exact le_of_lt hxy
      · exact le_trans (le_of_lt hxy) (h.1 z hz)
    · rename_i hxy
      rw [List.pairwise_cons]
      refine ⟨?_, ih h.2⟩
      intro z hz
      have := (insertSorted_perm x ys).mem_iff.mp hz
      rcases List.mem_cons.mp this with rfl | hz
      · exact not_lt.mp hxy
      · exact h.1 z hz

theorem sortL_sorted (l : List α) : (sortL l).Pairwise (· ≤ ·) := by
  induction l with
  | nil => simp [sortL]
  | cons x xs ih => exact insertSorted_sorted x _ ih

theorem sortL_length (l : List α) : (sortL l).length = l.length := (sortL_perm l).length_eq

theorem sortL_mem {l : List α} {x : α} : x ∈ sortL l ↔ x ∈ l := (sortL_perm l).mem_iff

/-! ### sums -/

@[simp] theorem sumL_nil : sumL ([] : List α) = 0 := rfl
@[simp] theorem sumL_cons (x : α) (xs : List α) : sumL (x :: xs) = x + sumL xs := rfl

theorem sumL_eq_sum (l : List α) : sumL l = l.sum := by
  induction l with
  | nil => simp
  | cons x xs ih => simp [ih]

/-! ### lerp -/

theorem lerp_eq (a b t : α) : lerp a b t = a + (b - a) * t := by
  unfold lerp
  split <;> ring

/-! ### ppos -/

theorem ppos_den_pos (n : Nat) (hn : 0 < n) (cst : α) (h1 : cst ≤ 1 / 2) :
    (0 : α) < ((n + 1 : Nat) : α) - 2 * cst := by
  have h : (1 : α) ≤ (n : α) := by exact_mod_cast hn
  have h2 : 2 * cst ≤ 1 := by
    have := mul_le_mul_of_nonneg_left h1 (by norm_num : (0 : α) ≤ 2)
    simpa using this
  push_cast
  linarith

theorem ppos_eq (n : Nat) (cst : α) (h0 : 0 ≤ cst) (h1 : cst ≤ 1 / 2) :
    ppos n cst = .ok ((List.range n).map fun i =>
      (((i + 1 : Nat) : α) - cst) / (((n + 1 : Nat) : α) - 2 * cst)) := by
  unfold ppos
  rw [if_neg (not_or.mpr ⟨not_lt.mpr h0, not_lt.mpr h1⟩)]

/-! ### pareto front -/

/-- row `rj` is strictly better (for orientation `o`) than row `ri` in every coordinate that is
present in both rows -/
def StrictlyBetter (o : α) (rj ri : List (Option α)) : Prop :=
  ∀ (k : Nat) (a b : α), rj[k]? = some (some a) → ri[k]? = some (some b) → 0 < o * (a - b)

/-- point `i` is dominated: another point is strictly better in every non-missing coordinate -/
def Dominated (o : α) (d : List (List (Option α))) (i : Nat) : Prop :=
  ∃ j ri rj, j ≠ i ∧ d[i]? = some ri ∧ d[j]? = some rj ∧ StrictlyBetter o rj ri

theorem domBy_iff (o : α) (rj ri : List (Option α)) : domBy o rj ri = true ↔ StrictlyBetter o rj ri := by
  induction rj generalizing ri with
  | nil => simp [domBy, StrictlyBetter]
  | cons x xs ih =>
    cases ri with
    | nil => simp [domBy, StrictlyBetter]
    | cons y ys =>
      have ih' := ih ys
      unfold domBy at ih' ⊢
      simp only [List.zipWith_cons_cons, List.all_cons, Bool.and_eq_true, ih']
      unfold StrictlyBetter
      constructor
      · rintro ⟨h0, hrest⟩ k a b ha hb
        cases k with
        | zero =>
          simp only [List.getElem?_cons_zero, Option.some.injEq] at ha hb
          subst ha hb
          simpa using h0
        | succ k => exact hrest k a b (by simpa using ha) (by simpa using hb)
      · intro h
        refine ⟨?_, fun k a b ha hb => h (k + 1) a b (by simpa using ha) (by simpa using hb)⟩
        cases x with
        | none => simp
        | some a =>
          cases y with
          | none => simp
          | some b => simpa using h 0 a b rfl rfl

theorem isDominatedAt_iff (o : α) (d : List (List (Option α))) (i : Nat) :
    isDominatedAt o d i = true ↔ Dominated o d i := by
  unfold isDominatedAt Dominated
  cases hi : d[i]? with
  | none => simp
  | some ri =>
    simp only [List.any_eq_true, List.mem_range, Bool.and_eq_true, bne_iff_ne, ne_eq]
    constructor
    · rintro ⟨j, hj, hne, hd⟩
      cases hdj : d[j]? with
      | none => simp [hdj] at hd
      | some rj =>
        simp only [hdj] at hd
        exact ⟨j, ri, rj, hne, rfl, hdj, (domBy_iff o rj ri).mp hd⟩
    · rintro ⟨j, ri', rj, hne, hri, hrj, hb⟩
      injection hri with hri
      subst hri
      have hj : j < d.length := by
        by_contra hcon
        rw [List.getElem?_eq_none (by omega)] at hrj
        cases hrj
      refine ⟨j, hj, hne, ?_⟩
      simp only [hrj]
      exact (domBy_iff o rj ri).mpr hb

theorem domBy_neg (o : α) (rj ri : List (Option α)) :
    domBy (-o) rj ri = domBy o (rj.map fun x => x.map fun v => -v) (ri.map fun x => x.map fun v => -v) := by
  induction rj generalizing ri with
  | nil => simp [domBy]
  | cons x xs ih =>
    cases ri with
    | nil => simp [domBy]
    | cons y ys =>
      have ih' := ih ys
      unfold domBy at ih' ⊢
      simp only [List.map_cons, List.zipWith_cons_cons, List.all_cons, ih']
      congr 1
      cases x with
      | none => simp
      | some a =>
        cases y with
        | none => simp
        | some b =>
          simp only [Option.map_some, id_eq, decide_eq_decide]
          have : -o * (a - b) = o * (-a - -b) := by ring
          rw [this]

/-- a finite non-empty family of keys has a largest one -/
theorem exists_max_index (f : Nat → α) (n : Nat) (hn : 0 < n) : ∃ i, i < n ∧ ∀ j, j < n → f j ≤ f i := by
  induction n with
  | zero => omega
  | succ m ih =>
    rcases Nat.eq_zero_or_pos m with rfl | hm
    · exact ⟨0, by omega, fun j hj => le_of_eq (congrArg f (by omega))⟩
    · obtain ⟨i, hi, hmax⟩ := ih hm
      by_cases h : f i ≤ f m
      · refine ⟨m, by omega, fun j hj => ?_⟩
        rcases Nat.lt_succ_iff_lt_or_eq.mp hj with hj | rfl
        · exact le_trans (hmax j hj) h
        · exact le_refl _
      · refine ⟨i, by omega, fun j hj => ?_⟩
        rcases Nat.lt_succ_iff_lt_or_eq.mp hj with hj | rfl
        · exact hmax j hj
        · exact le_of_lt (not_le.mp h)

end HydroVerif.C20
