/- helper lemmas for C20 over an ordered field: sums, min / max folds, insertion sort, linspace -/
import HydroVerif.Model.C20
import Mathlib.Algebra.Order.Field.Basic
import Mathlib.Algebra.Order.Floor.Ring
import Mathlib.Algebra.Order.Floor.Semiring
import Mathlib.Data.List.Perm.Basic
import Mathlib.Data.List.Sort
import Mathlib.Tactic.Ring
import Mathlib.Tactic.Linarith
import Mathlib.Tactic.FieldSimp
import Mathlib.Tactic.Positivity
import Mathlib.Tactic.NormNum
import Mathlib.Tactic.Push

set_option linter.unusedSectionVars false
set_option linter.unusedVariables false

namespace HydroVerif.C20

variable {α : Type} [Field α] [LinearOrder α] [IsStrictOrderedRing α]

/-! ### min / max folds -/

theorem foldl_min_le (l : List α) (x : α) :
    l.foldl (fun m y => if y < m then y else m) x ≤ x ∧
    ∀ v ∈ l, l.foldl (fun m y => if y < m then y else m) x ≤ v := by
  induction l generalizing x with
  | nil => simp
  | cons a t ih =>
    simp only [List.foldl_cons, List.mem_cons, forall_eq_or_imp]
    by_cases hax : a < x
    · obtain ⟨h1, h2⟩ := ih a
      simp only [if_pos hax]
      exact ⟨le_trans h1 (le_of_lt hax), h1, h2⟩
    · obtain ⟨h1, h2⟩ := ih x
      simp only [if_neg hax]
      exact ⟨h1, le_trans h1 (not_lt.mp hax), h2⟩

theorem foldl_min_mem (l : List α) (x : α) :
    l.foldl (fun m y => if y < m then y else m) x = x ∨
    l.foldl (fun m y => if y < m then y else m) x ∈ l := by
  induction l generalizing x with
  | nil => simp
  | cons a t ih =>
    simp only [List.foldl_cons, List.mem_cons]
    by_cases hax : a < x
    · simp only [if_pos hax]
      rcases ih a with h | h
      · right; left; exact h
      · right; right; exact h
    · simp only [if_neg hax]
      rcases ih x with h | h
      · left; exact h
      · right; right; exact h

theorem foldl_max_ge (l : List α) (x : α) :
    x ≤ l.foldl (fun m y => if m < y then y else m) x ∧
    ∀ v ∈ l, v ≤ l.foldl (fun m y => if m < y then y else m) x := by
  induction l generalizing x with
  | nil => simp
  | cons a t ih =>
    simp only [List.foldl_cons, List.mem_cons, forall_eq_or_imp]
    by_cases hax : x < a
    · obtain ⟨h1, h2⟩ := ih a
      simp only [if_pos hax]
      exact ⟨le_trans (le_of_lt hax) h1, h1, h2⟩
    · obtain ⟨h1, h2⟩ := ih x
      simp only [if_neg hax]
      exact ⟨h1, le_trans (not_lt.mp hax) h1, h2⟩

theorem foldl_max_mem (l : List α) (x : α) :
    l.foldl (fun m y => if m < y then y else m) x = x ∨
    l.foldl (fun m y => if m < y then y else m) x ∈ l := by
  induction l generalizing x with
  | nil => simp
  | cons a t ih =>
    simp only [List.foldl_cons, List.mem_cons]
    by_cases hax : x < a
    · simp only [if_pos hax]
      rcases ih a with h | h
      · right; left; exact h
      · right; right; exact h
    · simp only [if_neg hax]
      rcases ih x with h | h
      · left; exact h
      · right; right; exact h

theorem minL_spec {l : List α} {m : α} (h : minL l = some m) : m ∈ l ∧ ∀ v ∈ l, m ≤ v := by
  cases l with
  | nil => simp [minL] at h
  | cons x t =>
    simp only [minL, Option.some.injEq] at h
    subst h
    obtain ⟨h1, h2⟩ := foldl_min_le t x
    refine ⟨?_, ?_⟩
    · rcases foldl_min_mem t x with h | h
      · rw [h]; simp
      · exact List.mem_cons_of_mem _ h
    · intro v hv
      rcases List.mem_cons.mp hv with rfl | hv
      · exact h1
      · exact h2 v hv

theorem maxL_spec {l : List α} {m : α} (h : maxL l = some m) : m ∈ l ∧ ∀ v ∈ l, v ≤ m := by
  cases l with
  | nil => simp [maxL] at h
  | cons x t =>
    simp only [maxL, Option.some.injEq] at h
    subst h
    obtain ⟨h1, h2⟩ := foldl_max_ge t x
    refine ⟨?_, ?_⟩
    · rcases foldl_max_mem t x with h | h
      · rw [h]; simp
      · exact List.mem_cons_of_mem _ h
    · intro v hv
      rcases List.mem_cons.mp hv with rfl | hv
      · exact h1
      · exact h2 v hv

theorem minL_isSome {l : List α} (h : l ≠ []) : ∃ m, minL l = some m := by
  cases l with
  | nil => exact absurd rfl h
  | cons x t => exact ⟨_, rfl⟩

theorem maxL_isSome {l : List α} (h : l ≠ []) : ∃ m, maxL l = some m := by
  cases l with
  | nil => exact absurd rfl h
  | cons x t => exact ⟨_, rfl⟩

/-! ### insertion sort -/

theorem insertSorted_perm (x : α) (l : List α) : (insertSorted x l).Perm (x :: l) := by
  induction l with
  | nil => simp [insertSorted]
  | cons y ys ih =>
    simp only [insertSorted]
    split
    · exact List.Perm.refl _
    · exact (List.Perm.cons y ih).trans (List.Perm.swap x y ys)

theorem sortL_perm (l : List α) : (sortL l).Perm l := by
  induction l with
  | nil => simp [sortL]
  | cons x xs ih =>
    have : sortL (x :: xs) = insertSorted x (sortL xs) := rfl
    rw [this]
    exact (insertSorted_perm x _).trans (List.Perm.cons x ih)

theorem insertSorted_sorted (x : α) (l : List α) (h : l.Pairwise (· ≤ ·)) :
    (insertSorted x l).Pairwise (· ≤ ·) := by
  induction l with
  | nil => simp [insertSorted]
  | cons y ys ih =>
    simp only [insertSorted]
    rw [List.pairwise_cons] at h
    split
    · rename_i hxy
      rw [List.pairwise_cons]
      refine ⟨?_, List.pairwise_cons.mpr h⟩
      intro z hz
      rcases List.mem_cons.mp hz with rfl | hz
      · exact le_of_lt hxy
      · exact le_trans (le_of_lt hxy) (h.1 z hz)
    · rename_i hxy
      rw [List.pairwise_cons]
      refine ⟨?_, ih h.2⟩
      intro z hz
      have := (insertSorted_perm x ys).mem_iff.mp hz
      rcases List.mem_cons.mp this with rfl | hz
      · exact not_lt.mp hxy
      · exact h.1 z hz

theorem sortL_sorted (l : List α) : (sortL l).Pairwise (· ≤ ·) := by
  induction l with
  | nil => simp [sortL]
  | cons x xs ih => exact insertSorted_sorted x _ ih

theorem sortL_length (l : List α) : (sortL l).length = l.length := (sortL_perm l).length_eq

theorem sortL_mem {l : List α} {x : α} : x ∈ sortL l ↔ x ∈ l := (sortL_perm l).mem_iff

/-! ### sums -/

@[simp] theorem sumL_nil : sumL ([] : List α) = 0 := rfl
@[simp] theorem sumL_cons (x : α) (xs : List α) : sumL (x :: xs) = x + sumL xs := rfl

theorem sumL_eq_sum (l : List α) : sumL l = l.sum := by
  induction l with
  | nil => simp
  | cons x xs ih => simp [ih]

/-! ### lerp -/

theorem lerp_eq (a b t : α) : lerp a b t = a + (b - a) * t := by
  unfold lerp
  split <;> ring

/-! ### ppos -/

theorem ppos_den_pos (n : Nat) (hn : 0 < n) (cst : α) (h1 : cst ≤ 1 / 2) :
    (0 : α) < ((n + 1 : Nat) : α) - 2 * cst := by
  have h : (1 : α) ≤ (n : α) := by exact_mod_cast hn
  have h2 : 2 * cst ≤ 1 := by
    have := mul_le_mul_of_nonneg_left h1 (by norm_num : (0 : α) ≤ 2)
    simpa using this
  push_cast
  linarith

theorem ppos_eq (n : Nat) (cst : α) (h0 : 0 ≤ cst) (h1 : cst ≤ 1 / 2) :
    ppos n cst = .ok ((List.range n).map fun i =>
      (((i + 1 : Nat) : α) - cst) / (((n + 1 : Nat) : α) - 2 * cst)) := by
  unfold ppos
  rw [if_neg (not_or.mpr ⟨not_lt.mpr h0, not_lt.mpr h1⟩)]

/-! ### pareto front -/

/-- row `rj` is strictly better (for orientation `o`) than row `ri` in every coordinate that is
present in both rows -/
def StrictlyBetter (o : α) (rj ri : List (Option α)) : Prop :=
  ∀ (k : Nat) (a b : α), rj[k]? = some (some a) → ri[k]? = some (some b) → 0 < o * (a - b)

/-- point `i` is dominated: another point is strictly better in every non-missing coordinate -/
def Dominated (o : α) (d : List (List (Option α))) (i : Nat) : Prop :=
  ∃ j ri rj, j ≠ i ∧ d[i]? = some ri ∧ d[j]? = some rj ∧ StrictlyBetter o rj ri

theorem domBy_iff (o : α) (rj ri : List (Option α)) : domBy o rj ri = true ↔ StrictlyBetter o rj ri := by
  induction rj generalizing ri with
  | nil => simp [domBy, StrictlyBetter]
  | cons x xs ih =>
    cases ri with
    | nil => simp [domBy, StrictlyBetter]
    | cons y ys =>
      have ih' := ih ys
      unfold domBy at ih' ⊢
      simp only [List.zipWith_cons_cons, List.all_cons, Bool.and_eq_true, ih']
      unfold StrictlyBetter
      constructor
      · rintro ⟨h0, hrest⟩ k a b ha hb
        cases k with
        | zero =>
          simp only [List.getElem?_cons_zero, Option.some.injEq] at ha hb
          subst ha hb
          simpa using h0
        | succ k => exact hrest k a b (by simpa using ha) (by simpa using hb)
      · intro h
        refine ⟨?_, fun k a b ha hb => h (k + 1) a b (by simpa using ha) (by simpa using hb)⟩
        cases x with
        | none => simp
        | some a =>
          cases y with
          | none => simp
          | some b => simpa using h 0 a b rfl rfl

theorem isDominatedAt_iff (o : α) (d : List (List (Option α))) (i : Nat) :
    isDominatedAt o d i = true ↔ Dominated o d i := by
  unfold isDominatedAt Dominated
  cases hi : d[i]? with
  | none => simp
  | some ri =>
    simp only [List.any_eq_true, List.mem_range, Bool.and_eq_true, bne_iff_ne, ne_eq]
    constructor
    · rintro ⟨j, hj, hne, hd⟩
      cases hdj : d[j]? with
      | none => simp [hdj] at hd
      | some rj =>
        simp only [hdj] at hd
        exact ⟨j, ri, rj, hne, rfl, hdj, (domBy_iff o rj ri).mp hd⟩
    · rintro ⟨j, ri', rj, hne, hri, hrj, hb⟩
      injection hri with hri
      subst hri
      have hj : j < d.length := by
        by_contra hcon
        rw [List.getElem?_eq_none (by omega)] at hrj
        cases hrj
      refine ⟨j, hj, hne, ?_⟩
      simp only [hrj]
      exact (domBy_iff o rj ri).mpr hb

theorem domBy_neg (o : α) (rj ri : List (Option α)) :
    domBy (-o) rj ri = domBy o (rj.map fun x => x.map fun v => -v) (ri.map fun x => x.map fun v => -v) := by
  induction rj generalizing ri with
  | nil => simp [domBy]
  | cons x xs ih =>
    cases ri with
    | nil => simp [domBy]
    | cons y ys =>
      have ih' := ih ys
      unfold domBy at ih' ⊢
      simp only [List.map_cons, List.zipWith_cons_cons, List.all_cons, ih']
      congr 1
      cases x with
      | none => simp
      | some a =>
        cases y with
        | none => simp
        | some b =>
          simp only [Option.map_some, id_eq, decide_eq_decide]
          have : -o * (a - b) = o * (-a - -b) := by ring
          rw [this]

/-- a finite non-empty family of keys has a largest one -/
theorem exists_max_index (f : Nat → α) (n : Nat) (hn : 0 < n) : ∃ i, i < n ∧ ∀ j, j < n → f j ≤ f i := by
  induction n with
  | zero => omega
  | succ m ih =>
    rcases Nat.eq_zero_or_pos m with rfl | hm
    · exact ⟨0, by omega, fun j hj => le_of_eq (congrArg f (by omega))⟩
    · obtain ⟨i, hi, hmax⟩ := ih hm
      by_cases h : f i ≤ f m
      · refine ⟨m, by omega, fun j hj => ?_⟩
        rcases Nat.lt_succ_iff_lt_or_eq.mp hj with hj | rfl
        · exact le_trans (hmax j hj) h
        · exact le_refl _
      · refine ⟨i, by omega, fun j hj => ?_⟩
        rcases Nat.lt_succ_iff_lt_or_eq.mp hj with hj | rfl
        · exact hmax j hj
        · exact le_of_lt (not_le.mp h)

/-! ### ranks -/

theorem cntLt_add_cntEq_le (xs : List α) {x y : α} (h : x < y) : cntLt xs x + cntEq xs x ≤ cntLt xs y := by
  unfold cntLt cntEq
  induction xs with
  | nil => simp
  | cons z t ih =>
    simp only [List.countP_cons]
    by_cases h1 : z < x
    · have h2 : z < y := lt_trans h1 h
      have h3 : ¬ x < z := not_lt.mpr h1.le
      simp [h1, h2]
      omega
    · by_cases h4 : x < z
      · simp [h1, h4]
        split <;> omega
      · have : z = x := le_antisymm (not_lt.mp h4) (not_lt.mp h1)
        subst this
        simp [h]
        omega

theorem cntLt_add_cntEq_le_length (xs : List α) (x : α) : cntLt xs x + cntEq xs x ≤ xs.length := by
  unfold cntLt cntEq
  induction xs with
  | nil => simp
  | cons z t ih =>
    simp only [List.countP_cons, List.length_cons]
    by_cases h1 : z < x
    · have h3 : ¬ x < z := not_lt.mpr h1.le
      simp [h1]
      omega
    · simp [h1]
      split <;> omega

theorem cntEq_pos (xs : List α) {x : α} (h : x ∈ xs) : 0 < cntEq xs x := by
  unfold cntEq
  rw [List.countP_pos_iff]
  exact ⟨x, h, by simp⟩

/-- a strictly larger entry gets a strictly larger rank (all three tie methods) -/
theorem rank_lt_of_lt (m : RankMethod) (xs : List α) {x y : α} (hx : x ∈ xs) (hy : y ∈ xs) (h : x < y) :
    rank m xs x < rank m xs y := by
  have h1 := cntLt_add_cntEq_le xs h
  have h2 := cntEq_pos xs hx
  have h3 := cntEq_pos xs hy
  have c1 : ((cntLt xs x : Nat) : α) + ((cntEq xs x : Nat) : α) ≤ ((cntLt xs y : Nat) : α) := by exact_mod_cast h1
  have c2 : (1 : α) ≤ ((cntEq xs x : Nat) : α) := by exact_mod_cast h2
  have c3 : (1 : α) ≤ ((cntEq xs y : Nat) : α) := by exact_mod_cast h3
  cases m with
  | average =>
    simp only [rank]
    linarith
  | min =>
    simp only [rank]
    have : cntLt xs x + 1 < cntLt xs y + 1 := by omega
    exact_mod_cast this
  | max =>
    simp only [rank]
    have : cntLt xs x + cntEq xs x < cntLt xs y + cntEq xs y := by omega
    exact_mod_cast this

/-- ranks run from 1 to the sample size -/
theorem rank_bounds (m : RankMethod) (xs : List α) {x : α} (hx : x ∈ xs) :
    1 ≤ rank m xs x ∧ rank m xs x ≤ (xs.length : α) := by
  have h1 := cntLt_add_cntEq_le_length xs x
  have h2 := cntEq_pos xs hx
  have c0 : (0 : α) ≤ ((cntLt xs x : Nat) : α) := Nat.cast_nonneg _
  have c1 : ((cntLt xs x : Nat) : α) + ((cntEq xs x : Nat) : α) ≤ (xs.length : α) := by exact_mod_cast h1
  have c2 : (1 : α) ≤ ((cntEq xs x : Nat) : α) := by exact_mod_cast h2
  cases m with
  | average =>
    simp only [rank]
    constructor <;> linarith
  | min =>
    simp only [rank]
    constructor
    · have : 1 ≤ cntLt xs x + 1 := by omega
      exact_mod_cast this
    · have : cntLt xs x + 1 ≤ xs.length := by omega
      exact_mod_cast this
  | max =>
    simp only [rank]
    constructor
    · have : 1 ≤ cntLt xs x + cntEq xs x := by omega
      exact_mod_cast this
    · exact_mod_cast h1

theorem scoreArg_lt (n : Nat) (hn : 0 < n) (cst : α) (h1 : cst ≤ 1 / 2) {r s : α} (h : r < s) :
    scoreArg n cst r < scoreArg n cst s := by
  unfold scoreArg
  apply div_lt_div_of_pos_right _ (ppos_den_pos n hn cst h1)
  linarith

theorem scoreArg_mem_unit (n : Nat) (hn : 0 < n) (cst : α) (h0 : 0 ≤ cst) (h1 : cst ≤ 1 / 2) {r : α}
    (hr0 : 0 ≤ r) (hr1 : r ≤ (n : α) - 1) : 0 < scoreArg n cst r ∧ scoreArg n cst r < 1 := by
  unfold scoreArg
  have hden := ppos_den_pos n hn cst h1
  have h2 : 2 * cst ≤ 1 := by
    have := mul_le_mul_of_nonneg_left h1 (by norm_num : (0 : α) ≤ 2)
    simpa using this
  constructor
  · apply div_pos _ hden
    linarith
  · rw [div_lt_one hden]
    push_cast
    linarith

/-! ### lhs -/

theorem gather_eq_some {β : Type} (u : List β) (g : Nat → β) (ks : List Nat)
    (h : ∀ k ∈ ks, u[k]? = some (g k)) : gather u ks = some (ks.map g) := by
  induction ks with
  | nil => rfl
  | cons k t ih =>
    have hk := h k (by simp)
    have ht := ih (fun k' hk' => h k' (List.mem_cons_of_mem _ hk'))
    simp only [gather, hk, ht, List.map_cons]

/-- the stratum centres: `linspace(pmin + du/2, pmax - du/2, n)[k] = pmin + du/2 + k du` -/
theorem linspace_centres (pmin pmax : α) (n : Nat) (k : Nat) (hk : k < n) :
    (linspace (pmin + (pmax - pmin) / (n : α) / 2) (pmax - (pmax - pmin) / (n : α) / 2) n)[k]? =
      some (pmin + (pmax - pmin) / (n : α) / 2 + (k : α) * ((pmax - pmin) / (n : α))) := by
  match n, hk with
  | 1, hk =>
    have : k = 0 := by omega
    subst this
    simp [linspace]
  | m + 2, hk =>
    have hm2 : ((m + 2 : Nat) : α) ≠ 0 := by exact_mod_cast (by omega : m + 2 ≠ 0)
    have hm1 : ((m + 1 : Nat) : α) ≠ 0 := by exact_mod_cast (by omega : m + 1 ≠ 0)
    simp only [linspace]
    by_cases hlast : k < m + 1
    · rw [List.getElem?_append_left (by simpa using hlast), List.getElem?_map, List.getElem?_range hlast]
      simp only [Option.map_some, Option.some.injEq]
      push_cast at hm2 hm1 ⊢
      field_simp
      ring
    · have hk' : k = m + 1 := by omega
      subst hk'
      rw [List.getElem?_append_right (by simp)]
      simp only [List.length_map, List.length_range, Nat.sub_self, List.getElem?_cons_zero, Option.some.injEq]
      push_cast at hm2 hm1 ⊢
      field_simp
      ring

/-- a sample `pmin + p du + du r` with `r ∈ [0, 1)` is in stratum `k` exactly when `p = k` -/
theorem stratum_iff (pmin du : α) (hdu : 0 < du) (p k : Nat) (r : α) (hr0 : 0 ≤ r) (hr1 : r < 1) :
    (pmin + (k : α) * du ≤ pmin + (p : α) * du + du * r ∧ pmin + (p : α) * du + du * r < pmin + ((k : α) + 1) * du)
      ↔ p = k := by
  constructor
  · rintro ⟨h1, h2⟩
    rcases Nat.lt_trichotomy p k with h | h | h
    · exfalso
      have : (p : α) + 1 ≤ (k : α) := by exact_mod_cast h
      have h3 := mul_le_mul_of_nonneg_right this hdu.le
      have h4 : du * r < du := by simpa using mul_lt_mul_of_pos_left hr1 hdu
      nlinarith
    · exact h
    · exfalso
      have : (k : α) + 1 ≤ (p : α) := by exact_mod_cast h
      have h3 := mul_le_mul_of_nonneg_right this hdu.le
      have h4 : 0 ≤ du * r := mul_nonneg hdu.le hr0
      nlinarith
  · rintro rfl
    have h4 : du * r < du := by simpa using mul_lt_mul_of_pos_left hr1 hdu
    have h5 : 0 ≤ du * r := mul_nonneg hdu.le hr0
    constructor <;> nlinarith

theorem countP_zipWith_stratum (pmin du : α) (hdu : 0 < du) (k : Nat) (perm : List Nat) (r : List α)
    (hr : ∀ x ∈ r, 0 ≤ x ∧ x < 1) (hlen : perm.length = r.length) :
    (List.zipWith (fun (p : Nat) ri => pmin + du / 2 + (p : α) * du + (-du / 2 + (du / 2 - -du / 2) * ri)) perm r).countP
      (fun x => decide (pmin + (k : α) * du ≤ x ∧ x < pmin + ((k : α) + 1) * du)) = perm.count k := by
  induction perm generalizing r with
  | nil => simp
  | cons p t ih =>
    cases r with
    | nil => simp at hlen
    | cons ri rt =>
      have hri := hr ri (by simp)
      have hrt : ∀ x ∈ rt, 0 ≤ x ∧ x < 1 := fun x hx => hr x (List.mem_cons_of_mem _ hx)
      have hl : t.length = rt.length := by simpa using hlen
      simp only [List.zipWith_cons_cons, List.countP_cons, List.count_cons, ih rt hrt hl]
      congr 1
      have heq : pmin + du / 2 + (p : α) * du + (-du / 2 + (du / 2 - -du / 2) * ri) = pmin + (p : α) * du + du * ri := by
        ring
      rw [heq]
      have := stratum_iff pmin du hdu p k ri hri.1 hri.2
      by_cases hpk : p = k
      · have hy := this.mpr hpk
        rw [decide_eq_true hy]
        simp [hpk]
      · have hn := mt this.mp hpk
        rw [decide_eq_false hn]
        simp [hpk]

theorem lhsColumn_eq (n : Nat) (pmin pmax : α) (perm : List Nat) (r : List α)
    (hp : perm.length = n) (hr : r.length = n) (hk : ∀ k ∈ perm, k < n) :
    lhsColumn n pmin pmax perm r = .ok (List.zipWith (fun (p : Nat) ri =>
      pmin + (pmax - pmin) / (n : α) / 2 + (p : α) * ((pmax - pmin) / (n : α))
        + (-((pmax - pmin) / (n : α)) / 2 + ((pmax - pmin) / (n : α) / 2 - -((pmax - pmin) / (n : α)) / 2) * ri)) perm r) := by
  unfold lhsColumn
  simp only [hp, hr, ne_eq, not_true_eq_false, or_self, if_false]
  rw [gather_eq_some _ (fun k => pmin + (pmax - pmin) / (n : α) / 2 + (k : α) * ((pmax - pmin) / (n : α))) perm
    (fun k hk' => linspace_centres pmin pmax n k (hk k hk'))]
  simp only [List.zipWith_map_left]

/-- what `lhs` needs of its inputs, parameter by parameter: a proper range, a permutation of `0..n-1`
and `n` unit draws in `[0, 1)` -/
def LhsInputsOK (n : Nat) : List α → List α → List (List Nat) → List (List α) → Prop
  | a :: pmin, b :: pmax, p :: perms, r :: rs =>
    a < b ∧ p.Perm (List.range n) ∧ r.length = n ∧ (∀ x ∈ r, 0 ≤ x ∧ x < 1) ∧ LhsInputsOK n pmin pmax perms rs
  | [], [], [], [] => True
  | _, _, _, _ => False

/-- every column has `n` samples, exactly one in each of the `n` equal strata of its range -/
def OnePerStratum (n : Nat) : List α → List α → List (List α) → Prop
  | a :: pmin, b :: pmax, c :: cols =>
    c.length = n ∧
    (∀ k, k < n → c.countP (fun x => decide (a + (k : α) * ((b - a) / (n : α)) ≤ x ∧
                                            x < a + ((k : α) + 1) * ((b - a) / (n : α)))) = 1) ∧
    OnePerStratum n pmin pmax cols
  | [], [], [] => True
  | _, _, _ => False

theorem LhsInputsOK.length_eq {n : Nat} {pmin pmax : List α} {perms : List (List Nat)} {rs : List (List α)}
    (h : LhsInputsOK n pmin pmax perms rs) : pmax.length = pmin.length := by
  induction pmin generalizing pmax perms rs with
  | nil =>
    cases pmax <;> cases perms <;> cases rs <;> simp_all [LhsInputsOK]
  | cons a t ih =>
    cases pmax with
    | nil => simp [LhsInputsOK] at h
    | cons b tb =>
      cases perms with
      | nil => simp [LhsInputsOK] at h
      | cons p tp =>
        cases rs with
        | nil => simp [LhsInputsOK] at h
        | cons r tr =>
          simp only [LhsInputsOK] at h
          simp [ih h.2.2.2.2]

theorem LhsInputsOK.no_empty_range {n : Nat} {pmin pmax : List α} {perms : List (List Nat)} {rs : List (List α)}
    (h : LhsInputsOK n pmin pmax perms rs) :
    (List.zipWith (fun a b => decide (b - a ≤ 0)) pmin pmax).any id = false := by
  induction pmin generalizing pmax perms rs with
  | nil => simp
  | cons a t ih =>
    cases pmax with
    | nil => simp
    | cons b tb =>
      cases perms with
      | nil => simp [LhsInputsOK] at h
      | cons p tp =>
        cases rs with
        | nil => simp [LhsInputsOK] at h
        | cons r tr =>
          simp only [LhsInputsOK] at h
          simp only [List.zipWith_cons_cons, List.any_cons, ih h.2.2.2.2, Bool.or_false, id]
          simp only [decide_eq_false_iff_not, not_le, sub_pos]
          exact h.1

theorem broadcast_eq {β : Type} (pmax : List β) (m : Nat) (h : pmax.length = m) : broadcast m pmax = pmax := by
  subst h
  match pmax with
  | [] => rfl
  | [p] => rfl
  | _ :: _ :: _ => rfl

/-! ### lhs guards -/

theorem broadcast_of_length_ne_one {β : Type} (pmax : List β) (m : Nat) (h : pmax.length ≠ 1) :
    broadcast m pmax = pmax := by
  match pmax, h with
  | [], _ => rfl
  | [p], h => simp at h
  | _ :: _ :: _, _ => rfl

theorem broadcast_singleton {β : Type} (p : β) (m : Nat) : broadcast m [p] = List.replicate m p := rfl

theorem empty_range_any (pmin pmax : List α) :
    (List.zipWith (fun a b => decide (b - a ≤ 0)) pmin pmax).any id = true ↔
      ∃ (i : Nat) (a b : α), pmin[i]? = some a ∧ pmax[i]? = some b ∧ b ≤ a := by
  induction pmin generalizing pmax with
  | nil => simp
  | cons x t ih =>
    cases pmax with
    | nil => simp
    | cons y u =>
      rw [List.zipWith_cons_cons, List.any_cons, Bool.or_eq_true, ih u]
      simp only [id, decide_eq_true_eq]
      constructor
      · rintro (h | ⟨i, a, b, ha, hb, hab⟩)
        · exact ⟨0, x, y, rfl, rfl, sub_nonpos.mp h⟩
        · exact ⟨i + 1, a, b, by simpa using ha, by simpa using hb, hab⟩
      · rintro ⟨i, a, b, ha, hb, hab⟩
        cases i with
        | zero =>
          simp only [List.getElem?_cons_zero, Option.some.injEq] at ha hb
          subst ha hb
          left; exact sub_nonpos.mpr hab
        | succ i => right; exact ⟨i, a, b, by simpa using ha, by simpa using hb, hab⟩

theorem linspace_length (a b : α) (k : Nat) : (linspace a b k).length = k := by
  match k with
  | 0 => rfl
  | 1 => rfl
  | m + 2 => simp [linspace]

/-- `linspace(0, 1, k)` stays in `[0, 1]` -/
theorem linspace_unit_mem (k : Nat) : ∀ q ∈ linspace (0 : α) 1 k, 0 ≤ q ∧ q ≤ 1 := by
  match k with
  | 0 => simp [linspace]
  | 1 => simp [linspace]
  | m + 2 =>
    intro q hq
    simp only [linspace, sub_zero, add_zero, List.mem_append, List.mem_map, List.mem_range, List.mem_singleton] at hq
    rcases hq with ⟨i, hi, rfl⟩ | rfl
    · have hm : (0 : α) < ((m + 1 : Nat) : α) := by exact_mod_cast Nat.succ_pos m
      have hi' : (i : α) ≤ ((m + 1 : Nat) : α) := by exact_mod_cast hi.le
      constructor
      · exact mul_nonneg (Nat.cast_nonneg _) (div_nonneg zero_le_one hm.le)
      · rw [mul_one_div, div_le_one hm]
        exact hi'
    · exact ⟨zero_le_one, le_refl _⟩

end HydroVerif.C20
