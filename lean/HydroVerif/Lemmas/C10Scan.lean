/-
C10 — the tie-sequence scan of `c_ensrank` computes the sum of pooled mid-ranks of the first ensemble.
Helper lemmas (the property theorems are in Props/C10.lean).
-/
import HydroVerif.Model.C10
import HydroVerif.Lemmas.C04
import Mathlib.Algebra.Order.Field.Basic
import Mathlib.Algebra.BigOperators.Group.List.Basic
import Mathlib.Algebra.BigOperators.Ring.List
import Mathlib.Tactic.Ring
import Mathlib.Tactic.Linarith
import Mathlib.Tactic.FieldSimp
import Mathlib.Tactic.Positivity

set_option linter.unusedSectionVars false
set_option linter.unusedVariables false

namespace HydroVerif.C10
open HydroVerif.C04 (sumL absG)

variable {α : Type} [Field α] [LinearOrder α] [IsStrictOrderedRing α]

theorem sumL_eq_sum (l : List α) : sumL l = l.sum := by
  induction l with
  | nil => rfl
  | cons x xs ih => simp [C04.sumL_cons, ih]

/-- contribution of `b` to the mid-rank of `a`: 1 if below, ½ if tied, 0 if above -/
def ps (a b : α) : α := if b < a then 1 else if a = b then 1 / 2 else 0

theorem ps_self (a : α) : ps a a = 1 / 2 := by simp [ps]
theorem ps_of_lt {a b : α} (h : b < a) : ps a b = 1 := by simp [ps, h]
theorem ps_of_gt {a b : α} (h : a < b) : ps a b = 0 := by
  simp [ps, not_lt.mpr h.le, h.ne]
theorem ps_add_swap (a b : α) : ps a b + ps b a = 1 := by
  rcases lt_trichotomy a b with h | h | h
  · rw [ps_of_gt h, ps_of_lt h]; ring
  · subst h; rw [ps_self]; ring
  · rw [ps_of_lt h, ps_of_gt h]; ring

/-- Σ_{y ∈ R} ps a y over a tagged list -/
def rowP (a : α) (R : List (α × ℕ)) : α := (R.map fun y => ps a y.1).sum

/-- number of entries of `R` with value `p` -/
def cnt (p : α) (R : List (α × ℕ)) : α := (R.map fun y => if y.1 = p then (1 : α) else 0).sum
/-- ... that belong to the first ensemble -/
def cnt1 (m : ℕ) (p : α) (R : List (α × ℕ)) : α :=
  (R.map fun y => if y.1 = p ∧ y.2 < m then (1 : α) else 0).sum

/-- what the scan still has to add for the list `R` starting at position `j`, from a closed state -/
def relSpec (m j : ℕ) (R : List (α × ℕ)) : α :=
  (R.map fun x => if x.2 < m then (j : α) + 1 / 2 + rowP x.1 R else 0).sum

/-- same, leaving out the entries with value `p` -/
def relSpecNe (m : ℕ) (p : α) (j : ℕ) (R : List (α × ℕ)) : α :=
  (R.map fun x => if x.2 < m ∧ x.1 ≠ p then (j : α) + 1 / 2 + rowP x.1 R else 0).sum

/-- what the scan still has to add from an open sequence (`start = s0`, `end = stop`, `nties = k`, value `p`) -/
def openSpec (m s0 stop k : ℕ) (p : α) (j : ℕ) (R : List (α × ℕ)) : α :=
  (1 + (((s0 + stop : ℕ) : α) + cnt p R) / 2) * ((k : α) + cnt1 m p R) + relSpecNe m p j R

@[simp] theorem rowP_nil (a : α) : rowP a [] = 0 := rfl
@[simp] theorem rowP_cons (a : α) (y : α × ℕ) (R : List (α × ℕ)) : rowP a (y :: R) = ps a y.1 + rowP a R := by
  simp [rowP]
@[simp] theorem cnt_nil (p : α) : cnt p [] = 0 := rfl
@[simp] theorem cnt1_nil (m : ℕ) (p : α) : cnt1 m p [] = 0 := rfl
@[simp] theorem relSpec_nil (m j : ℕ) : relSpec (α := α) m j [] = 0 := rfl

theorem sum_map_congr {β : Type} (l : List β) (f g : β → α) (h : ∀ x ∈ l, f x = g x) :
    (l.map f).sum = (l.map g).sum := by
  rw [List.map_congr_left h]

/-- all entries at or above `a`: only ties count -/
theorem rowP_of_le (a : α) (R : List (α × ℕ)) (h : ∀ y ∈ R, a ≤ y.1) : rowP a R = cnt a R / 2 := by
  induction R with
  | nil => simp
  | cons y R ih =>
    have hy := h y (by simp)
    have := ih (fun z hz => h z (by simp [hz]))
    rw [rowP_cons, this]
    simp only [cnt, List.map_cons, List.sum_cons]
    rcases hy.lt_or_eq with hlt | heq
    · rw [ps_of_gt hlt, if_neg hlt.ne']; ring
    · rw [← heq, ps_self, if_pos rfl]; ring

theorem cnt_of_lt (p : α) (R : List (α × ℕ)) (h : ∀ y ∈ R, p < y.1) : cnt p R = 0 := by
  unfold cnt
  rw [sum_map_congr R _ (fun _ => 0) (fun y hy => if_neg (h y hy).ne')]
  simp

theorem cnt1_of_lt (m : ℕ) (p : α) (R : List (α × ℕ)) (h : ∀ y ∈ R, p < y.1) : cnt1 m p R = 0 := by
  unfold cnt1
  rw [sum_map_congr R _ (fun _ => 0) (fun y hy => if_neg (fun hh => (h y hy).ne' hh.1))]
  simp

theorem relSpecNe_of_lt (m : ℕ) (p : α) (j : ℕ) (R : List (α × ℕ)) (h : ∀ y ∈ R, p < y.1) :
    relSpecNe m p j R = relSpec m j R := by
  unfold relSpecNe relSpec
  apply sum_map_congr
  intro x hx
  have : x.1 ≠ p := (h x hx).ne'
  simp [this]

/-- an open sequence whose value does not occur any more closes at once -/
theorem openSpec_of_lt (m s0 stop k : ℕ) (p : α) (j : ℕ) (R : List (α × ℕ)) (h : ∀ y ∈ R, p < y.1) :
    openSpec m s0 stop k p j R = (1 + ((s0 + stop : ℕ) : α) / 2) * (k : α) + relSpec m j R := by
  unfold openSpec
  rw [cnt_of_lt p R h, cnt1_of_lt m p R h, relSpecNe_of_lt m p j R h]
  ring

/-- adding a smaller entry in front shifts the remaining positions by one -/
theorem relSpecNe_cons (m : ℕ) (p : α) (i j : ℕ) (R : List (α × ℕ)) (h : ∀ y ∈ R, y.1 = p ∨ p < y.1) :
    relSpecNe m p j ((p, i) :: R) = relSpecNe m p (j + 1) R := by
  unfold relSpecNe
  rw [List.map_cons, List.sum_cons]
  simp only [ne_eq, not_true_eq_false, and_false, if_false, zero_add]
  apply sum_map_congr
  intro x hx
  by_cases hc : x.2 < m ∧ ¬ x.1 = p
  · have hlt : p < x.1 := (h x hx).resolve_left hc.2
    rw [if_pos hc, if_pos hc, rowP_cons, ps_of_lt hlt]
    push_cast; ring
  · rw [if_neg hc, if_neg hc]

/-- the open sequence takes in one more entry with its value -/
theorem openSpec_cons (m s0 stop k : ℕ) (p : α) (i j : ℕ) (R : List (α × ℕ))
    (h : ∀ y ∈ R, y.1 = p ∨ p < y.1) :
    openSpec m s0 stop k p j ((p, i) :: R)
      = openSpec m s0 (stop + 1) (if i < m then k + 1 else k) p (j + 1) R := by
  unfold openSpec
  rw [relSpecNe_cons m p i j R h]
  simp only [cnt, cnt1, List.map_cons, List.sum_cons, true_and, if_true]
  by_cases hi : i < m
  · simp only [hi, if_true]; push_cast; ring
  · simp only [hi, if_false]; push_cast; ring

/-- a second-ensemble entry in front, below every first-ensemble entry that follows -/
theorem relSpec_cons_second (m : ℕ) (v : α) (i j : ℕ) (R : List (α × ℕ)) (hi : ¬ i < m)
    (h : ∀ y ∈ R, y.2 < m → v < y.1) :
    relSpec m j ((v, i) :: R) = relSpec m (j + 1) R := by
  unfold relSpec
  rw [List.map_cons, List.sum_cons]
  simp only [hi, if_false, zero_add]
  apply sum_map_congr
  intro x hx
  by_cases hc : x.2 < m
  · rw [if_pos hc, if_pos hc, rowP_cons, ps_of_lt (h x hx hc)]
    push_cast; ring
  · rw [if_neg hc, if_neg hc]

/-- a first-ensemble entry in front of entries at or above it opens a sequence -/
theorem relSpec_cons_first (m : ℕ) (v : α) (i j : ℕ) (R : List (α × ℕ)) (hi : i < m)
    (h : ∀ y ∈ R, y.1 = v ∨ v < y.1) :
    relSpec m j ((v, i) :: R) = openSpec m j j 1 v (j + 1) R := by
  have hle : ∀ y ∈ R, v ≤ y.1 := fun y hy => (h y hy).elim (fun e => e ▸ le_refl _) le_of_lt
  unfold relSpec openSpec
  rw [List.map_cons, List.sum_cons]
  simp only [hi, if_true, rowP_cons, ps_self]
  rw [rowP_of_le v R hle]
  -- the tail, entry by entry
  have htail : (R.map fun x => if x.2 < m then (j : α) + 1 / 2 + (ps x.1 v + rowP x.1 R) else 0).sum
      = (1 + (((j + j : ℕ) : α) + cnt v R) / 2) * cnt1 m v R + relSpecNe m v (j + 1) R := by
    unfold cnt1 relSpecNe
    rw [← List.sum_map_mul_left, ← List.sum_map_add]
    apply sum_map_congr
    intro x hx
    by_cases hc : x.2 < m
    · rcases h x hx with he | hlt
      · have hx1 : x = (v, x.2) := by rw [← he]
        rw [if_pos hc, if_pos ⟨he, hc⟩, if_neg (fun hh => hh.2 he), he, ps_self, rowP_of_le v R hle]
        push_cast; ring
      · rw [if_pos hc, if_neg (fun hh => hlt.ne' hh.1), if_pos ⟨hc, hlt.ne'⟩, ps_of_lt hlt]
        push_cast; ring
    · rw [if_neg hc, if_neg (fun hh => hc hh.2), if_neg (fun hh => hc hh.1)]
      ring
  rw [htail]
  push_cast; ring


/-! ### the scan -/

/-- order delivered by a stable sort of the pooled array: ascending values, and among equal values the
entries of the first ensemble (`index < m`) come first -/
def rel (m : ℕ) (x y : α × ℕ) : Prop := x.1 < y.1 ∨ (x.1 = y.1 ∧ (y.2 < m → x.2 < m))

def nextOf : List (α × ℕ) → Option α
  | [] => none
  | (w, _) :: _ => some w

theorem scanAux_cons (eps : α) (m j : ℕ) (prev : Option α) (st : Scan α) (v : α) (i : ℕ) (R : List (α × ℕ)) :
    scanAux eps m j prev st ((v, i) :: R)
      = scanAux eps m (j + 1) (some v) (scanStep eps m j prev (nextOf R) v i st) R := by
  cases R with
  | nil => rfl
  | cons y R => rcases y with ⟨w, k⟩; rfl

theorem gap_some (eps v w : α) : gap eps v (some w) = |v - w| := by
  simp [gap, C04.absG_eq_abs]

theorem rel_ge {m : ℕ} {v : α} {i : ℕ} {R : List (α × ℕ)} (h : ∀ y ∈ R, rel m (v, i) y) :
    ∀ y ∈ R, y.1 = v ∨ v < y.1 := by
  intro y hy
  rcases h y hy with hlt | ⟨he, _⟩
  · exact Or.inr hlt
  · exact Or.inl he.symm

/-- the sequence ends at `v` iff every later entry is larger -/
theorem end_iff (eps : α) (heps : 0 < eps) (m : ℕ) (v : α) (i : ℕ) (R : List (α × ℕ))
    (hpw : ((v, i) :: R).Pairwise (rel m))
    (hsep : ∀ y ∈ R, y.1 = v ∨ eps ≤ |v - y.1|) :
    (eps ≤ gap eps v (nextOf R) → ∀ y ∈ R, v < y.1) ∧
    (¬ eps ≤ gap eps v (nextOf R) → ∃ k R', R = (v, k) :: R') := by
  cases R with
  | nil => simp [nextOf, gap]
  | cons y R =>
    rcases y with ⟨w, k⟩
    have h1 := List.pairwise_cons.mp hpw
    have h2 := List.pairwise_cons.mp h1.2
    have hw : w = v ∨ v < w := rel_ge h1.1 (w, k) (by simp)
    simp only [nextOf, gap_some]
    constructor
    · intro hge
      have hvw : v < w := by
        rcases hw with he | hlt
        · subst he; simp at hge; exact absurd hge (not_le.mpr heps)
        · exact hlt
      intro y hy
      rcases List.mem_cons.mp hy with he | hmem
      · subst he; exact hvw
      · rcases rel_ge h2.1 y hmem with he | hlt
        · rw [he]; exact hvw
        · exact hvw.trans hlt
    · intro hlt
      rcases hsep (w, k) (by simp) with he | hge
      · exact ⟨k, R, by simp at he; rw [he]⟩
      · exact absurd hge hlt

/-- **the scan adds up the pooled mid-ranks of the first ensemble**, from a closed state (first part)
and from an open sequence (second part) -/
theorem scanAux_spec (eps : α) (heps : 0 < eps) (m : ℕ) (R : List (α × ℕ)) :
    R.Pairwise (rel m) → (∀ x ∈ R, ∀ y ∈ R, x.1 = y.1 ∨ eps ≤ |x.1 - y.1|) →
    ∀ (j : ℕ) (prev : Option α) (st : Scan α),
      (st.start = none →
        (∀ p, prev = some p → ∀ x ∈ R, (x.1 = p ∨ eps ≤ |x.1 - p|) ∧ (x.2 < m → x.1 ≠ p)) →
        (scanAux eps m j prev st R).sumrank = st.sumrank + relSpec m j R) ∧
      (∀ s0 p, st.start = some s0 → prev = some p → st.stop + 1 = j →
        (∃ i R', R = (p, i) :: R') →
        (scanAux eps m j prev st R).sumrank = st.sumrank + openSpec m s0 st.stop st.nties p j R) := by
  induction R with
  | nil =>
    intro _ _ j prev st
    refine ⟨fun _ _ => by simp [scanAux], ?_⟩
    intro s0 p _ _ _ hex
    obtain ⟨i, R', h⟩ := hex
    cases h
  | cons x R ih =>
    rcases x with ⟨v, i⟩
    intro hpw hsep j prev st
    have h1 := List.pairwise_cons.mp hpw
    have hge : ∀ y ∈ R, y.1 = v ∨ v < y.1 := rel_ge h1.1
    have hsepR : ∀ x ∈ R, ∀ y ∈ R, x.1 = y.1 ∨ eps ≤ |x.1 - y.1| :=
      fun x hx y hy => hsep x (by simp [hx]) y (by simp [hy])
    have hsepv : ∀ y ∈ R, y.1 = v ∨ eps ≤ |v - y.1| := by
      intro y hy
      rcases hsep (v, i) (by simp) y (by simp [hy]) with he | hge
      · exact Or.inl he.symm
      · exact Or.inr hge
    have hsepv' : ∀ y ∈ R, y.1 = v ∨ eps ≤ |y.1 - v| := by
      intro y hy
      rcases hsepv y hy with he | hge
      · exact Or.inl he
      · exact Or.inr (by rw [abs_sub_comm]; exact hge)
    have hend := end_iff eps heps m v i R hpw hsepv
    have ih' := ih h1.2 hsepR (j + 1) (some v)
    refine ⟨?_, ?_⟩
    · -- from a closed state
      intro hst hprev
      rw [scanAux_cons]
      by_cases hi : i < m
      · have hnew : eps ≤ gap eps v prev := by
          cases prev with
          | none => simp [gap]
          | some p =>
            have := hprev p rfl (v, i) (by simp)
            rw [gap_some]
            exact this.1.resolve_left (this.2 hi)
        by_cases he : eps ≤ gap eps v (nextOf R)
        · have hgt := hend.1 he
          have hstep : scanStep eps m j prev (nextOf R) v i st
              = ⟨st.sumrank + (1 + ((j + j : ℕ) : α) / 2) * ((1 : ℕ) : α), none, j, 1⟩ := by
            simp [scanStep, scanStepB, hi, hnew, he, not_lt.mpr hnew]
          rw [hstep]
          have hA := (ih' ⟨st.sumrank + (1 + ((j + j : ℕ) : α) / 2) * ((1 : ℕ) : α), none, j, 1⟩).1 rfl
            (by
              intro p hp x hx
              cases hp
              exact ⟨hsepv' x hx, fun _ => (hgt x hx).ne'⟩)
          rw [hA, relSpec_cons_first m v i j R hi hge, openSpec_of_lt m j j 1 v (j + 1) R hgt]
          dsimp only; ring
        · obtain ⟨k, R', hR⟩ := hend.2 he
          have hstep : scanStep eps m j prev (nextOf R) v i st
              = ⟨st.sumrank, some j, j, 1⟩ := by
            simp [scanStep, scanStepB, hi, hnew, he, not_lt.mpr hnew]
          rw [hstep]
          have hB := (ih' ⟨st.sumrank, some j, j, 1⟩).2 j v rfl rfl rfl ⟨k, R', hR⟩
          rw [hB, relSpec_cons_first m v i j R hi hge]
      · have hstep : scanStep eps m j prev (nextOf R) v i st = st := by
          simp [scanStep, scanStepB, hi, hst]
        rw [hstep]
        have hlt : ∀ y ∈ R, y.2 < m → v < y.1 := by
          intro y hy hym
          rcases h1.1 y hy with hlt | ⟨_, himp⟩
          · exact hlt
          · exact absurd (himp hym) hi
        have hA := (ih' st).1 hst
          (by
            intro p hp x hx
            cases hp
            exact ⟨hsepv' x hx, fun hxm => (hlt x hx hxm).ne'⟩)
        rw [hA, relSpec_cons_second m v i j R hi hlt]
    · -- from an open sequence
      intro s0 p hs hp hj hex
      obtain ⟨i', R0, hR⟩ := hex
      injection hR with hhead _
      injection hhead with hv _
      subst hv
      subst hp
      rw [scanAux_cons]
      have hnotnew : ¬ eps ≤ gap eps v (some v) := by
        rw [gap_some]; simp; exact heps
      have hlt' : gap eps v (some v) < eps := not_le.mp hnotnew
      rw [openSpec_cons m s0 st.stop st.nties v i j R hge]
      by_cases he : eps ≤ gap eps v (nextOf R)
      · have hgt := hend.1 he
        have hstep : scanStep eps m j (some v) (nextOf R) v i st
            = ⟨st.sumrank + (1 + ((s0 + (st.stop + 1) : ℕ) : α) / 2)
                * (((if i < m then st.nties + 1 else st.nties) : ℕ) : α), none, st.stop + 1,
                if i < m then st.nties + 1 else st.nties⟩ := by
          by_cases hi : i < m <;>
            simp [scanStep, scanStepB, hi, hnotnew, hlt', he, hs]
        rw [hstep]
        have hA := (ih' ⟨st.sumrank + (1 + ((s0 + (st.stop + 1) : ℕ) : α) / 2)
                * (((if i < m then st.nties + 1 else st.nties) : ℕ) : α), none, st.stop + 1,
                if i < m then st.nties + 1 else st.nties⟩).1 rfl
          (by
            intro p hp x hx
            cases hp
            exact ⟨hsepv' x hx, fun _ => (hgt x hx).ne'⟩)
        rw [hA, openSpec_of_lt m s0 (st.stop + 1) _ v (j + 1) R hgt]
        dsimp only; ring
      · obtain ⟨k, R', hR⟩ := hend.2 he
        have hstep : scanStep eps m j (some v) (nextOf R) v i st
            = ⟨st.sumrank, some s0, st.stop + 1, if i < m then st.nties + 1 else st.nties⟩ := by
          by_cases hi : i < m <;>
            simp [scanStep, scanStepB, hi, hnotnew, hlt', he, hs]
        rw [hstep]
        have hB := (ih' ⟨st.sumrank, some s0, st.stop + 1, if i < m then st.nties + 1 else st.nties⟩).2
          s0 v rfl rfl (by simp; omega) ⟨k, R', hR⟩
        rw [hB]

end HydroVerif.C10
