/-
C17 — the kernels in an arithmetic that ROUNDS every result (the standard model of floating-point
arithmetic: `fl(x op y) = (x op y)(1 + δ)`, `|δ| ≤ u`, no overflow / underflow): the very same model text
instantiated at `Fl rnd`, whose `+ - *` are the exact operations of an ordered field followed by `rnd`.

Part 1 (any type, no algebraic law at all): the index-by-index inner loops are "an accumulator that reads the
untouched part of the lag buffer, and the buffer shifted by one lag" — so the shape of the state does not
depend on the arithmetic.
Part 2: forward error of the accumulators, and the one-step coupling of the two kernels:
`|residual(sim e)[t] - e[t]| ≤ 2 (1 + Σ|φ|) ((1+u)^(2p+2) - 1) S` for every order `p`, every length.
-/
import HydroVerif.Lemmas.C17
import HydroVerif.Model.C17Round
import Mathlib.Algebra.Order.Field.Basic
import Mathlib.Algebra.Order.BigOperators.Group.Finset
import Mathlib.Algebra.Order.BigOperators.Ring.Finset
import Mathlib.Tactic.Linarith
import Mathlib.Tactic.Positivity
import Mathlib.Tactic.GCongr

namespace HydroVerif.C17

open Finset

/-! ### Part 1: the loops, for any arithmetic -/

section struct
set_option linter.unusedSectionVars false
variable {α : Type} [Add α] [Sub α] [Mul α] {p : Nat}

/-- accumulator of the simulation inner loop: `tmp += params[k]*prev[k]` for `k` from `k-1` down to 0 -/
def accS (ps buf : Vector α p) : (k : Nat) → k ≤ p → α → α
  | 0, _, t => t
  | k+1, h, t => accS ps buf k (Nat.le_of_succ_le h) (t + ps[k] * buf[k])

/-- accumulator of the residual inner loop: `tmp -= params[k]*prev[k]` for `k` from `k-1` down to 0 -/
def accR (ps buf : Vector α p) : (k : Nat) → k ≤ p → α → α
  | 0, _, t => t
  | k+1, h, t => accR ps buf k (Nat.le_of_succ_le h) (t - ps[k] * buf[k])

theorem accS_congr (ps buf buf' : Vector α p) : ∀ (k : Nat) (hk : k ≤ p) (t : α),
    (∀ j (hj : j < p), j < k → buf'[j] = buf[j]) → accS ps buf' k hk t = accS ps buf k hk t := by
  intro k; induction k with
  | zero => intro hk t _; rfl
  | succ k ih =>
    intro hk t h
    have hkp : k < p := hk
    simp only [accS]
    rw [h k hkp (Nat.lt_succ_self k)]
    exact ih _ _ fun j hj hjk => h j hj (by omega)

theorem accR_congr (ps buf buf' : Vector α p) : ∀ (k : Nat) (hk : k ≤ p) (t : α),
    (∀ j (hj : j < p), j < k → buf'[j] = buf[j]) → accR ps buf' k hk t = accR ps buf k hk t := by
  intro k; induction k with
  | zero => intro hk t _; rfl
  | succ k ih =>
    intro hk t h
    have hkp : k < p := hk
    simp only [accR]
    rw [h k hkp (Nat.lt_succ_self k)]
    exact ih _ _ fun j hj hjk => h j hj (by omega)

theorem simLoop_struct_gen (ps : Vector α p) : ∀ (k : Nat) (hk : k ≤ p) (tmp : α) (buf : Vector α p),
    simLoop nf ps k hk tmp buf =
      (accS ps buf k hk tmp,
       Vector.ofFn fun j : Fin p =>
         if j.val < k then (if j.val = 0 then accS ps buf k hk tmp else buf[j.val - 1]) else buf[j.val]) := by
  intro k
  induction k with
  | zero =>
    intro hk tmp buf
    simp only [simLoop, accS]
    congr 1
    ext j hj
    simp
  | succ k ih =>
    intro hk tmp buf
    have hkp : k < p := hk
    simp only [simLoop, nf, Bool.false_eq_true, if_false]
    rw [ih]
    have hacc : accS ps (buf.set k (if 0 < k then buf[k - 1] else tmp + ps[k] * buf[k])) k (Nat.le_of_succ_le hk)
        (tmp + ps[k] * buf[k]) = accS ps buf (k+1) hk tmp := by
      rw [accS_congr]
      · rfl
      · intro j hj hjk
        rw [Vector.getElem_set_ne]
        omega
    rw [hacc]
    congr 1
    ext j hj
    simp only [Vector.getElem_ofFn]
    by_cases h1 : j < k
    · have h2 : j < k + 1 := by omega
      simp only [h1, h2, if_true]
      by_cases h0 : j = 0
      · simp [h0]
      · simp only [h0, if_false]
        rw [Vector.getElem_set_ne]
        omega
    · by_cases h2 : j = k
      · subst h2
        simp only [lt_irrefl, if_false, Nat.lt_succ_self, if_true, Vector.getElem_set_self]
        by_cases h0 : j = 0
        · subst h0
          simp [accS]
        · have : 0 < j := by omega
          simp [h0, this]
      · have h3 : ¬ j < k + 1 := by omega
        simp only [h1, h3, if_false]
        rw [Vector.getElem_set_ne]
        omega

theorem resLoop_struct_gen (ps : Vector α p) (value : α) : ∀ (k : Nat) (hk : k ≤ p) (tmp : α) (buf : Vector α p),
    resLoop ps value k hk tmp buf =
      (accR ps buf k hk tmp,
       Vector.ofFn fun j : Fin p =>
         if j.val < k then (if j.val = 0 then value else buf[j.val - 1]) else buf[j.val]) := by
  intro k
  induction k with
  | zero =>
    intro hk tmp buf
    simp only [resLoop, accR]
    congr 1
    ext j hj
    simp
  | succ k ih =>
    intro hk tmp buf
    have hkp : k < p := hk
    simp only [resLoop]
    rw [ih]
    have hacc : accR ps (buf.set k (if 0 < k then buf[k - 1] else value)) k (Nat.le_of_succ_le hk)
        (tmp - ps[k] * buf[k]) = accR ps buf (k+1) hk tmp := by
      rw [accR_congr]
      · rfl
      · intro j hj hjk
        rw [Vector.getElem_set_ne]
        omega
    rw [hacc]
    congr 1
    ext j hj
    simp only [Vector.getElem_ofFn]
    by_cases h1 : j < k
    · have h2 : j < k + 1 := by omega
      simp only [h1, h2, if_true]
      by_cases h0 : j = 0
      · simp [h0]
      · simp only [h0, if_false]
        rw [Vector.getElem_set_ne]
        omega
    · by_cases h2 : j = k
      · subst h2
        simp only [lt_irrefl, if_false, Nat.lt_succ_self, if_true, Vector.getElem_set_self]
        by_cases h0 : j = 0
        · subst h0
          simp
        · have : 0 < j := by omega
          simp [h0, this]
      · have h3 : ¬ j < k + 1 := by omega
        simp only [h1, h3, if_false]
        rw [Vector.getElem_set_ne]
        omega

/-- one pass of the simulation inner loop, in any arithmetic -/
theorem simLoop_struct (ps : Vector α p) (v : α) (buf : Vector α p) :
    simLoop nf ps p (Nat.le_refl p) v buf =
      (accS ps buf p (Nat.le_refl p) v, shift (accS ps buf p (Nat.le_refl p) v) buf) := by
  rw [simLoop_struct_gen]
  unfold shift
  congr 1
  ext j hj
  simp

/-- one pass of the residual inner loop, in any arithmetic -/
theorem resLoop_struct (ps : Vector α p) (value tmp : α) (buf : Vector α p) :
    resLoop ps value p (Nat.le_refl p) tmp buf = (accR ps buf p (Nat.le_refl p) tmp, shift value buf) := by
  rw [resLoop_struct_gen]
  unfold shift
  congr 1
  ext j hj
  simp

theorem simRun_cons_gen [OfNat α 0] (ps : Vector α p) (m : α) (b : Vector α p) (e : Option α) (es : List (Option α)) :
    simRun nf ps m b (e :: es) =
      (accS ps b p (Nat.le_refl p) (zeroNaN e) + m) ::
        simRun nf ps m (shift (accS ps b p (Nat.le_refl p) (zeroNaN e)) b) es := by
  cases e <;> simp [simRun, simLoop_struct, zeroNaN]

theorem simBuf_cons_gen [OfNat α 0] (ps : Vector α p) (b : Vector α p) (e : Option α) (es : List (Option α)) :
    simBuf nf ps b (e :: es) = simBuf nf ps (shift (accS ps b p (Nat.le_refl p) (zeroNaN e)) b) es := by
  cases e <;> simp [simBuf, simLoop_struct, zeroNaN]

theorem resRun_cons_some [OfNat α 0] (ps : Vector α p) (m : α) (c : Vector α p) (y : α) (ys : List (Option α)) :
    resRun nf ps m c (some y :: ys) =
      accR ps c p (Nat.le_refl p) (y - m) :: resRun nf ps m (shift (y - m) c) ys := by
  simp [resRun, resLoop_struct, centred, nf]

end struct

/-! ### Part 2: an arithmetic that rounds every result -/

section rounded
set_option linter.unusedSectionVars false
variable {F : Type} [Field F] [LinearOrder F] [IsStrictOrderedRing F] {rnd : F → F} {p : Nat}

@[simp] theorem Fl.add_val (a b : Fl rnd) : (a + b).val = rnd (a.val + b.val) := rfl
@[simp] theorem Fl.sub_val (a b : Fl rnd) : (a - b).val = rnd (a.val - b.val) := rfl
@[simp] theorem Fl.mul_val (a b : Fl rnd) : (a * b).val = rnd (a.val * b.val) := rfl
@[simp] theorem Fl.zero_val : (0 : Fl rnd).val = 0 := rfl

/-- the standard model: every rounding commits a relative error of at most `u` -/
def StdModel (rnd : F → F) (u : F) : Prop := 0 ≤ u ∧ ∀ x, |rnd x - x| ≤ u * |x|

/-- exact value of `params[j] * prev[j]` (0 outside the buffer) -/
def tv (ps buf : Vector (Fl rnd) p) (j : Nat) : F := if h : j < p then ps[j].val * buf[j].val else 0

/-- `(1+u)^2`: one product and one sum -/
def G (u : F) : F := (1 + u) ^ 2

theorem G_ge_one {u : F} (hu : 0 ≤ u) : 1 ≤ G u := by
  unfold G; nlinarith [sq_nonneg u]

theorem G_sub_one {u : F} : G u - 1 = 2 * u + u ^ 2 := by unfold G; ring

/-- one `tmp ± params[k]*prev[k]` with both roundings -/
theorem step_err {u : F} (h : StdModel rnd u) (tmp t : F) (sgn : F) (hs : sgn = 1 ∨ sgn = -1) :
    |rnd (tmp + sgn * rnd t) - (tmp + sgn * t)| ≤ (G u - 1) * (|tmp| + |t|) ∧
    |rnd (tmp + sgn * rnd t)| ≤ G u * (|tmp| + |t|) := by
  obtain ⟨hu, hr⟩ := h
  have h1 := hr t
  have h2 := hr (tmp + sgn * rnd t)
  have hsg : |sgn| = 1 := by rcases hs with h | h <;> simp [h]
  have h3 : |rnd t| ≤ (1 + u) * |t| := by
    have : |rnd t| ≤ |rnd t - t| + |t| := by
      have := abs_add_le (rnd t - t) t; simpa using this
    linarith
  have h4 : |tmp + sgn * rnd t| ≤ |tmp| + (1 + u) * |t| := by
    calc |tmp + sgn * rnd t| ≤ |tmp| + |sgn * rnd t| := abs_add_le _ _
      _ = |tmp| + |rnd t| := by rw [abs_mul, hsg, one_mul]
      _ ≤ |tmp| + (1 + u) * |t| := by linarith
  have h5 : |sgn * rnd t - sgn * t| ≤ u * |t| := by
    rw [← mul_sub, abs_mul, hsg, one_mul]; exact h1
  have hA : |rnd (tmp + sgn * rnd t) - (tmp + sgn * t)| ≤ (G u - 1) * (|tmp| + |t|) := by
    have e : rnd (tmp + sgn * rnd t) - (tmp + sgn * t) =
        (rnd (tmp + sgn * rnd t) - (tmp + sgn * rnd t)) + (sgn * rnd t - sgn * t) := by ring
    rw [e, G_sub_one]
    have := abs_add_le (rnd (tmp + sgn * rnd t) - (tmp + sgn * rnd t)) (sgn * rnd t - sgn * t)
    have ht := abs_nonneg t
    have htm := abs_nonneg tmp
    have : u * |tmp + sgn * rnd t| ≤ u * (|tmp| + (1 + u) * |t|) := mul_le_mul_of_nonneg_left h4 hu
    nlinarith [mul_nonneg hu htm, mul_nonneg hu ht, mul_nonneg (mul_nonneg hu hu) htm]
  refine ⟨hA, ?_⟩
  have : |rnd (tmp + sgn * rnd t)| ≤ |rnd (tmp + sgn * rnd t) - (tmp + sgn * t)| + |tmp + sgn * t| := by
    have := abs_add_le (rnd (tmp + sgn * rnd t) - (tmp + sgn * t)) (tmp + sgn * t); simpa using this
  have h6 : |tmp + sgn * t| ≤ |tmp| + |t| := by
    calc |tmp + sgn * t| ≤ |tmp| + |sgn * t| := abs_add_le _ _
      _ = |tmp| + |t| := by rw [abs_mul, hsg, one_mul]
  linarith

/-- the algebra of one more term in an accumulator bound -/
theorem acc_bound_step {g gk X A a b sh : F} (hg : 1 ≤ g) (hgk : 1 ≤ gk) (_hX : 0 ≤ X) (hA : 0 ≤ A)
    (ha : a ≤ (gk - 1) * (sh + A)) (hsh : sh ≤ g * X) (hb : b ≤ (g - 1) * X) :
    a + b ≤ (gk * g - 1) * (X + A) := by
  have h1 : (gk - 1) * (sh + A) ≤ (gk - 1) * (g * X + A) :=
    mul_le_mul_of_nonneg_left (by linarith) (by linarith)
  have h2 : 0 ≤ gk * (g - 1) * A := mul_nonneg (mul_nonneg (by linarith) (by linarith)) hA
  nlinarith

theorem accS_err {u : F} (h : StdModel rnd u) (ps buf : Vector (Fl rnd) p) : ∀ (k : Nat) (hk : k ≤ p) (t : Fl rnd),
    |(accS ps buf k hk t).val - (t.val + ∑ j ∈ range k, tv ps buf j)| ≤
      (G u ^ k - 1) * (|t.val| + ∑ j ∈ range k, |tv ps buf j|) := by
  intro k; induction k with
  | zero => intro hk t; simp [accS]
  | succ k ih =>
    intro hk t
    have hkp : k < p := hk
    simp only [accS]
    have htv : tv ps buf k = ps[k].val * buf[k].val := by simp [tv, hkp]
    obtain ⟨e1, e2⟩ := step_err h t.val (tv ps buf k) 1 (Or.inl rfl)
    simp only [one_mul] at e1 e2
    have hval : (t + ps[k] * buf[k]).val = rnd (t.val + rnd (tv ps buf k)) := by
      rw [htv]; rfl
    have IH := ih (Nat.le_of_succ_le hk) (t + ps[k] * buf[k])
    rw [hval] at IH
    rw [sum_range_succ, sum_range_succ, pow_succ]
    set acc := (accS ps buf k (Nat.le_of_succ_le hk) (t + ps[k] * buf[k])).val
    set D := ∑ j ∈ range k, tv ps buf j
    set A := ∑ j ∈ range k, |tv ps buf j|
    set sh := rnd (t.val + rnd (tv ps buf k))
    have hA : 0 ≤ A := sum_nonneg fun j _ => abs_nonneg _
    have hX : 0 ≤ |t.val| + |tv ps buf k| := by positivity
    have hgk : 1 ≤ G u ^ k := one_le_pow₀ (G_ge_one h.1)
    have e : acc - (t.val + (D + tv ps buf k)) = (acc - (sh + D)) + (sh - (t.val + tv ps buf k)) := by ring
    rw [e]
    calc |acc - (sh + D) + (sh - (t.val + tv ps buf k))|
        ≤ |acc - (sh + D)| + |sh - (t.val + tv ps buf k)| := abs_add_le _ _
      _ ≤ (G u ^ k * G u - 1) * (|t.val| + |tv ps buf k| + A) :=
          acc_bound_step (G_ge_one h.1) hgk hX hA IH e2 e1
      _ = (G u ^ k * G u - 1) * (|t.val| + (A + |tv ps buf k|)) := by ring

theorem accR_err {u : F} (h : StdModel rnd u) (ps buf : Vector (Fl rnd) p) : ∀ (k : Nat) (hk : k ≤ p) (t : Fl rnd),
    |(accR ps buf k hk t).val - (t.val - ∑ j ∈ range k, tv ps buf j)| ≤
      (G u ^ k - 1) * (|t.val| + ∑ j ∈ range k, |tv ps buf j|) := by
  intro k; induction k with
  | zero => intro hk t; simp [accR]
  | succ k ih =>
    intro hk t
    have hkp : k < p := hk
    simp only [accR]
    have htv : tv ps buf k = ps[k].val * buf[k].val := by simp [tv, hkp]
    obtain ⟨e1, e2⟩ := step_err h t.val (tv ps buf k) (-1) (Or.inr rfl)
    simp only [neg_one_mul, ← sub_eq_add_neg] at e1 e2
    have hval : (t - ps[k] * buf[k]).val = rnd (t.val - rnd (tv ps buf k)) := by
      rw [htv]; rfl
    have IH := ih (Nat.le_of_succ_le hk) (t - ps[k] * buf[k])
    rw [hval] at IH
    rw [sum_range_succ, sum_range_succ, pow_succ]
    set acc := (accR ps buf k (Nat.le_of_succ_le hk) (t - ps[k] * buf[k])).val
    set D := ∑ j ∈ range k, tv ps buf j
    set A := ∑ j ∈ range k, |tv ps buf j|
    set sh := rnd (t.val - rnd (tv ps buf k))
    have hA : 0 ≤ A := sum_nonneg fun j _ => abs_nonneg _
    have hX : 0 ≤ |t.val| + |tv ps buf k| := by positivity
    have hgk : 1 ≤ G u ^ k := one_le_pow₀ (G_ge_one h.1)
    have e : acc - (t.val - (D + tv ps buf k)) = (acc - (sh - D)) + (sh - (t.val - tv ps buf k)) := by ring
    rw [e]
    calc |acc - (sh - D) + (sh - (t.val - tv ps buf k))|
        ≤ |acc - (sh - D)| + |sh - (t.val - tv ps buf k)| := abs_add_le _ _
      _ ≤ (G u ^ k * G u - 1) * (|t.val| + |tv ps buf k| + A) :=
          acc_bound_step (G_ge_one h.1) hgk hX hA IH e2 e1
      _ = (G u ^ k * G u - 1) * (|t.val| + (A + |tv ps buf k|)) := by ring

/-- `Σ_k |φ_k|` -/
def absSum (ps : Vector (Fl rnd) p) : F := ∑ j ∈ range p, (if h : j < p then |ps[j].val| else 0)

theorem absSum_nonneg (ps : Vector (Fl rnd) p) : 0 ≤ absSum ps := by
  unfold absSum
  apply sum_nonneg
  intro j _
  split <;> simp

/-- `Σ|φ_k b_k| ≤ Σ|φ_k| · B` when every lag is bounded by `B` -/
theorem sum_abs_tv_le (ps buf : Vector (Fl rnd) p) (B : F) (hB : ∀ k (hk : k < p), |buf[k].val| ≤ B) :
    ∑ j ∈ range p, |tv ps buf j| ≤ absSum ps * B := by
  unfold absSum
  rw [sum_mul]
  apply sum_le_sum
  intro j hj
  have hjp : j < p := mem_range.mp hj
  simp only [tv, hjp, dif_pos, abs_mul]
  exact mul_le_mul_of_nonneg_left (hB j hjp) (abs_nonneg _)

/-- two lag buffers that differ by at most `d` at every lag give dot products that differ by `Σ|φ_k| · d` -/
theorem sum_tv_diff_le (ps b c : Vector (Fl rnd) p) (d : F) (hd : ∀ k (hk : k < p), |c[k].val - b[k].val| ≤ d) :
    |∑ j ∈ range p, tv ps c j - ∑ j ∈ range p, tv ps b j| ≤ absSum ps * d := by
  rw [← sum_sub_distrib]
  refine (abs_sum_le_sum_abs _ _).trans ?_
  unfold absSum
  rw [sum_mul]
  apply sum_le_sum
  intro j hj
  have hjp : j < p := mem_range.mp hj
  simp only [tv, hjp, dif_pos]
  rw [← mul_sub, abs_mul]
  exact mul_le_mul_of_nonneg_left (hd j hjp) (abs_nonneg _)

/-- the centred value the residual kernel recomputes from an output: `fl(fl(s+m) - m)` against `s` -/
theorem roundtrip_err {u : F} (h : StdModel rnd u) (s m : F) :
    |rnd (rnd (s + m) - m) - s| ≤ (G u - 1) * (|s| + |m|) := by
  obtain ⟨hu, hr⟩ := h
  have h1 := hr (s + m)
  have h2 := hr (rnd (s + m) - m)
  have h3 : |s + m| ≤ |s| + |m| := abs_add_le _ _
  have h4 : |rnd (s + m) - m - s| ≤ u * (|s| + |m|) := by
    have : rnd (s + m) - m - s = rnd (s + m) - (s + m) := by ring
    rw [this]
    exact h1.trans (mul_le_mul_of_nonneg_left h3 hu)
  have h5 : |rnd (s + m) - m| ≤ |s| + u * (|s| + |m|) := by
    have := abs_add_le (rnd (s + m) - m - s) s
    have e : rnd (s + m) - m - s + s = rnd (s + m) - m := by ring
    rw [e] at this
    linarith
  have e : rnd (rnd (s + m) - m) - s = (rnd (rnd (s + m) - m) - (rnd (s + m) - m)) + (rnd (s + m) - m - s) := by ring
  rw [e, G_sub_one]
  have := abs_add_le (rnd (rnd (s + m) - m) - (rnd (s + m) - m)) (rnd (s + m) - m - s)
  have h6 : u * |rnd (s + m) - m| ≤ u * (|s| + u * (|s| + |m|)) := mul_le_mul_of_nonneg_left h5 hu
  have hs := abs_nonneg s
  have hm := abs_nonneg m
  nlinarith [mul_nonneg hu hs, mul_nonneg hu hm]

/-- exact value of an innovation, NaN read as 0 -/
def z0 : Option (Fl rnd) → F
  | none => 0
  | some x => x.val

theorem zeroNaN_val (e : Option (Fl rnd)) : (zeroNaN e).val = z0 e := by cases e <;> rfl

/-- the final algebra: the four error terms add up to the stated constant -/
theorem total_bound {g Gu Φ S E1 E2 E3 E4 : F}
    (h1 : E1 ≤ (g - 1) * ((1 + 2 * (Gu - 1)) * S + Φ * ((1 + 2 * (Gu - 1)) * S)))
    (h2 : E2 ≤ 2 * (Gu - 1) * S)
    (h3 : E3 ≤ (g - 1) * (S + Φ * S))
    (h4 : E4 ≤ Φ * (2 * (Gu - 1) * S)) :
    E1 + E2 + E3 + E4 ≤ 2 * (1 + Φ) * (g * Gu - 1) * S := by
  have : (g - 1) * ((1 + 2 * (Gu - 1)) * S + Φ * ((1 + 2 * (Gu - 1)) * S)) + 2 * (Gu - 1) * S
      + (g - 1) * (S + Φ * S) + Φ * (2 * (Gu - 1) * S) = 2 * (1 + Φ) * (g * Gu - 1) * S := by ring
  linarith

/-- one step of `residual` on one step of `sim`: the residual recovers the innovation within the budget,
given that the two lag buffers agree within `2(G-1)S` and everything in sight is bounded by `S` -/
theorem coupled_step {u : F} (h : StdModel rnd u) (ps : Vector (Fl rnd) p) (m : Fl rnd) (S : F)
    (hm : |m.val| ≤ S) (b c : Vector (Fl rnd) p) (v0 : Fl rnd)
    (hinv : ∀ k (hk : k < p), |c[k].val - b[k].val| ≤ 2 * (G u - 1) * S)
    (hb : ∀ k (hk : k < p), |b[k].val| ≤ S) (hv0 : |v0.val| ≤ S)
    (hs : |(accS ps b p (Nat.le_refl p) v0).val| ≤ S) :
    let s := accS ps b p (Nat.le_refl p) v0
    let vv := (s + m) - m
    |vv.val - s.val| ≤ 2 * (G u - 1) * S ∧
    |(accR ps c p (Nat.le_refl p) vv).val - v0.val| ≤ 2 * (1 + absSum ps) * (G u ^ (p + 1) - 1) * S := by
  intro s vv
  have hS : 0 ≤ S := (abs_nonneg _).trans hm
  have hG := G_ge_one h.1
  have hη : 0 ≤ G u - 1 := by linarith
  have hΦ := absSum_nonneg ps
  have hg : 1 ≤ G u ^ p := one_le_pow₀ hG
  -- the value recomputed by the residual kernel
  have hvv : |vv.val - s.val| ≤ 2 * (G u - 1) * S := by
    have := roundtrip_err h s.val m.val
    have e : vv.val = rnd (rnd (s.val + m.val) - m.val) := rfl
    rw [e]
    have h2 : (G u - 1) * (|s.val| + |m.val|) ≤ (G u - 1) * (S + S) :=
      mul_le_mul_of_nonneg_left (by linarith) hη
    linarith
  refine ⟨hvv, ?_⟩
  have hvvabs : |vv.val| ≤ (1 + 2 * (G u - 1)) * S := by
    have := abs_add_le (vv.val - s.val) s.val
    have e : vv.val - s.val + s.val = vv.val := by ring
    rw [e] at this
    linarith
  have hc : ∀ k (hk : k < p), |c[k].val| ≤ (1 + 2 * (G u - 1)) * S := by
    intro k hk
    have := abs_add_le (c[k].val - b[k].val) b[k].val
    have e : c[k].val - b[k].val + b[k].val = c[k].val := by ring
    rw [e] at this
    have := hinv k hk
    have := hb k hk
    linarith
  have e1 := accR_err h ps c p (Nat.le_refl p) vv
  have e3 := accS_err h ps b p (Nat.le_refl p) v0
  have hAc := sum_abs_tv_le ps c _ hc
  have hAb := sum_abs_tv_le ps b _ hb
  have e4 := sum_tv_diff_le ps b c _ hinv
  set r := (accR ps c p (Nat.le_refl p) vv).val
  set Dc := ∑ j ∈ range p, tv ps c j
  set Db := ∑ j ∈ range p, tv ps b j
  have hE1 : |r - (vv.val - Dc)| ≤ (G u ^ p - 1) * ((1 + 2 * (G u - 1)) * S + absSum ps * ((1 + 2 * (G u - 1)) * S)) :=
    e1.trans (mul_le_mul_of_nonneg_left (by linarith) (by linarith))
  have hE3 : |s.val - (v0.val + Db)| ≤ (G u ^ p - 1) * (S + absSum ps * S) :=
    e3.trans (mul_le_mul_of_nonneg_left (by linarith) (by linarith))
  have hsplit : r - v0.val = (r - (vv.val - Dc)) + (vv.val - s.val) + (s.val - (v0.val + Db)) + (-(Dc - Db)) := by
    ring
  have habs : |r - v0.val| ≤ |r - (vv.val - Dc)| + |vv.val - s.val| + |s.val - (v0.val + Db)| + |Dc - Db| := by
    rw [hsplit]
    have a1 := abs_add_le ((r - (vv.val - Dc)) + (vv.val - s.val) + (s.val - (v0.val + Db))) (-(Dc - Db))
    have a2 := abs_add_le ((r - (vv.val - Dc)) + (vv.val - s.val)) (s.val - (v0.val + Db))
    have a3 := abs_add_le (r - (vv.val - Dc)) (vv.val - s.val)
    rw [abs_neg] at a1
    linarith
  have := total_bound hE1 hvv hE3 e4
  rw [pow_succ]
  linarith

/-- the run: `residual` applied to the output of `sim`, the two kernels started from lag buffers that agree
within `2(G-1)S` -/
theorem coupled_run {u : F} (h : StdModel rnd u) (ps : Vector (Fl rnd) p) (m : Fl rnd) (S : F) (hm : |m.val| ≤ S) :
    ∀ (es : List (Option (Fl rnd))) (b c : Vector (Fl rnd) p),
      (∀ k (hk : k < p), |c[k].val - b[k].val| ≤ 2 * (G u - 1) * S) →
      (∀ e ∈ es, |z0 e| ≤ S) →
      (∀ n k (hk : k < p), |(simBuf nf ps b (es.take n))[k].val| ≤ S) →
      ∀ (t : Nat) (r : Fl rnd) (e : Option (Fl rnd)),
        (resRun nf ps m c ((simRun nf ps m b es).map some))[t]? = some r → es[t]? = some e →
        |r.val - z0 e| ≤ 2 * (1 + absSum ps) * (G u ^ (p + 1) - 1) * S := by
  intro es; induction es with
  | nil => intro b c _ _ _ t r e _ he; simp at he
  | cons e0 es ih =>
    intro b c hinv he hbuf t r e hr het
    rw [simRun_cons_gen, List.map_cons, resRun_cons_some] at hr
    have hb0 : ∀ k (hk : k < p), |b[k].val| ≤ S := by
      intro k hk
      have := hbuf 0 k hk
      simpa [simBuf] using this
    have hv0 : |(zeroNaN e0).val| ≤ S := by
      rw [zeroNaN_val]; exact he e0 List.mem_cons_self
    have hs : |(accS ps b p (Nat.le_refl p) (zeroNaN e0)).val| ≤ S := by
      rcases Nat.eq_zero_or_pos p with hp | hp
      · subst hp
        simpa [accS] using hv0
      · have := hbuf 1 0 hp
        rw [List.take_succ_cons, List.take_zero, simBuf_cons_gen] at this
        simpa [simBuf, shift] using this
    obtain ⟨hvv, hbound⟩ := coupled_step h ps m S hm b c (zeroNaN e0) hinv hb0 hv0 hs
    cases t with
    | zero =>
      simp only [List.getElem?_cons_zero, Option.some.injEq] at hr het
      subst hr; subst het
      rw [← zeroNaN_val]
      exact hbound
    | succ t =>
      simp only [List.getElem?_cons_succ] at hr het
      refine ih _ _ ?_ (fun e h => he e (List.mem_cons_of_mem _ h)) ?_ t r e hr het
      · intro k hk
        simp only [shift, Vector.getElem_ofFn]
        by_cases h0 : k = 0
        · simp only [h0, if_true]; exact hvv
        · simp only [h0, if_false]; exact hinv (k - 1) (by omega)
      · intro n k hk
        have := hbuf (n + 1) k hk
        rw [List.take_succ_cons, simBuf_cons_gen] at this
        exact this

/-! #### the AR recursion on the rounded outputs -/

/-- `Σ_k φ_k w_k`, exact, for exact lag values `w` -/
def dotF (ps : Vector (Fl rnd) p) (w : Vector F p) : F :=
  ∑ j ∈ range p, (if h : j < p then ps[j].val * w[j] else 0)

/-- by how much each output misses the exact recursion `y[t]-m = Σ_k φ_k (y[t-k]-m) + e[t]`, the lags before
the start of the series being `w` (exact subtraction, exact dot product) -/
def recDefects (ps : Vector (Fl rnd) p) (m : F) : Vector F p → List F → List F → List F
  | w, e :: es, y :: ys => ((y - m) - (dotF ps w + e)) :: recDefects ps m (shift (y - m) w) es ys
  | _, _, _ => []

theorem dotF_diff_le (ps b : Vector (Fl rnd) p) (w : Vector F p) (d : F)
    (hd : ∀ k (hk : k < p), |w[k] - b[k].val| ≤ d) :
    |dotF ps w - ∑ j ∈ range p, tv ps b j| ≤ absSum ps * d := by
  unfold dotF
  rw [← sum_sub_distrib]
  refine (abs_sum_le_sum_abs _ _).trans ?_
  unfold absSum
  rw [sum_mul]
  apply sum_le_sum
  intro j hj
  have hjp : j < p := mem_range.mp hj
  simp only [tv, hjp, dif_pos]
  rw [← mul_sub, abs_mul]
  exact mul_le_mul_of_nonneg_left (hd j hjp) (abs_nonneg _)

theorem recursion_run {u : F} (h : StdModel rnd u) (ps : Vector (Fl rnd) p) (m : Fl rnd) (S : F) (hm : |m.val| ≤ S) :
    ∀ (es : List (Option (Fl rnd))) (b : Vector (Fl rnd) p) (w : Vector F p),
      (∀ k (hk : k < p), |w[k] - b[k].val| ≤ 2 * u * S) →
      (∀ e ∈ es, |z0 e| ≤ S) →
      (∀ n k (hk : k < p), |(simBuf nf ps b (es.take n))[k].val| ≤ S) →
      ∀ d ∈ recDefects ps m.val w (es.map z0) ((simRun nf ps m b es).map Fl.val),
        |d| ≤ (1 + absSum ps) * (G u ^ p - 1 + 2 * u) * S := by
  intro es; induction es with
  | nil => intro b w _ _ _ d hd; simp [recDefects] at hd
  | cons e0 es ih =>
    intro b w hinv he hbuf d hd
    have hS : 0 ≤ S := (abs_nonneg _).trans hm
    have hu := h.1
    have hG := G_ge_one hu
    have hg : 1 ≤ G u ^ p := one_le_pow₀ hG
    rw [simRun_cons_gen, List.map_cons, List.map_cons, recDefects] at hd
    have hb0 : ∀ k (hk : k < p), |b[k].val| ≤ S := by
      intro k hk
      have := hbuf 0 k hk
      simpa [simBuf] using this
    have hv0 : |(zeroNaN e0).val| ≤ S := by
      rw [zeroNaN_val]; exact he e0 List.mem_cons_self
    have hs : |(accS ps b p (Nat.le_refl p) (zeroNaN e0)).val| ≤ S := by
      rcases Nat.eq_zero_or_pos p with hp | hp
      · subst hp
        simpa [accS] using hv0
      · have := hbuf 1 0 hp
        rw [List.take_succ_cons, List.take_zero, simBuf_cons_gen] at this
        simpa [simBuf, shift] using this
    set s := accS ps b p (Nat.le_refl p) (zeroNaN e0)
    have hy : |(s + m).val - m.val - s.val| ≤ 2 * u * S := by
      have e : (s + m).val - m.val - s.val = rnd (s.val + m.val) - (s.val + m.val) := by
        rw [Fl.add_val]; ring
      rw [e]
      refine (h.2 _).trans ?_
      have : |s.val + m.val| ≤ S + S := (abs_add_le _ _).trans (by linarith)
      have := mul_le_mul_of_nonneg_left this hu
      linarith
    rcases List.mem_cons.mp hd with hd | hd
    · subst hd
      have e3 := accS_err h ps b p (Nat.le_refl p) (zeroNaN e0)
      have hAb := sum_abs_tv_le ps b _ hb0
      have e4 := dotF_diff_le ps b w _ hinv
      have hΦ := absSum_nonneg ps
      have hE3 : |s.val - ((zeroNaN e0).val + ∑ j ∈ range p, tv ps b j)| ≤ (G u ^ p - 1) * (S + absSum ps * S) :=
        e3.trans (mul_le_mul_of_nonneg_left (by linarith) (by linarith))
      rw [← zeroNaN_val]
      set Db := ∑ j ∈ range p, tv ps b j
      have hsplit : (s + m).val - m.val - (dotF ps w + (zeroNaN e0).val) =
          ((s + m).val - m.val - s.val) + (s.val - ((zeroNaN e0).val + Db)) + (-(dotF ps w - Db)) := by ring
      rw [hsplit]
      have a1 := abs_add_le (((s + m).val - m.val - s.val) + (s.val - ((zeroNaN e0).val + Db))) (-(dotF ps w - Db))
      have a2 := abs_add_le ((s + m).val - m.val - s.val) (s.val - ((zeroNaN e0).val + Db))
      rw [abs_neg] at a1
      have : 2 * u * S + (G u ^ p - 1) * (S + absSum ps * S) + absSum ps * (2 * u * S) =
          (1 + absSum ps) * (G u ^ p - 1 + 2 * u) * S := by ring
      linarith
    · refine ih _ _ ?_ (fun e h => he e (List.mem_cons_of_mem _ h)) ?_ d hd
      · intro k hk
        simp only [shift, Vector.getElem_ofFn]
        by_cases h0 : k = 0
        · simp only [h0, if_true]; exact hy
        · simp only [h0, if_false]; exact hinv (k - 1) (by omega)
      · intro n k hk
        have := hbuf (n + 1) k hk
        rw [List.take_succ_cons, simBuf_cons_gen] at this
        exact this

end rounded

end HydroVerif.C17
