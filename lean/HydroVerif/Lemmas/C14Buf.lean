/-
C14 — the kernel on the caller's buffer (`loopInto`, `kernelInto`, `pyxVar2h`) and call histories (`step`, `run`):
helper lemmas.  Nothing here uses a law of the arithmetic: the statements hold for every instance of the model,
the `Float` one included.
-/
import HydroVerif.Model.C14
import Mathlib.Tactic.Common

namespace HydroVerif.C14

section anyarith
variable {α : Type} [Add α] [Sub α] [Mul α] [Div α] [Neg α] [LT α] [DecidableLT α]
  [OfNat α 0] [OfNat α 2] [IntCast α]

/-- the `for` loop returns one value per period -/
theorem loop_length (c : Cfg α) (hstart : Int) :
    ∀ (n i : Nat) (suf : Obs α × List (Obs α)) (out : List (Option α)),
      loop c hstart n i suf = .ok out → out.length = n := by
  intro n
  induction n with
  | zero => intro i suf out h; simp [loop] at h; subst h; rfl
  | succ n ih =>
    intro i suf out h
    rw [loop] at h
    split at h
    · exact absurd h (by simp)
    · rename_i o suf' _
      split at h
      · exact absurd h (by simp)
      · rename_i hs hl
        simp at h; subst h
        simp [ih (i + 1) suf' hs hl]

/-- the error code of the loop on a buffer is the error of the loop -/
theorem loopInto_err (c : Cfg α) (hstart : Int) :
    ∀ (n i : Nat) (suf : Obs α × List (Obs α)) (buf : List (Option α)),
      (loopInto c hstart n i suf buf).2 =
        (match loop c hstart n i suf with | .ok _ => none | .error x => some x) := by
  intro n
  induction n with
  | zero => intro i suf buf; simp [loopInto, loop]
  | succ n ih =>
    intro i suf buf
    rw [loopInto, loop]
    cases hp : period c hstart i suf with
    | error x => simp
    | ok r =>
      obtain ⟨o, suf'⟩ := r
      simp only
      rw [ih (i + 1) suf' (buf.set i o)]
      cases loop c hstart n (i + 1) suf' <;> simp

/-- the buffer keeps its length -/
theorem loopInto_length (c : Cfg α) (hstart : Int) :
    ∀ (n i : Nat) (suf : Obs α × List (Obs α)) (buf : List (Option α)),
      (loopInto c hstart n i suf buf).1.length = buf.length := by
  intro n
  induction n with
  | zero => intro i suf buf; simp [loopInto]
  | succ n ih =>
    intro i suf buf
    rw [loopInto]
    cases hp : period c hstart i suf with
    | error x => simp
    | ok r =>
      obtain ⟨o, suf'⟩ := r
      simp only
      rw [ih (i + 1) suf' (buf.set i o)]; simp

/-- cells `i .. i+n-1` receive the values of the loop, every other cell keeps what it held -/
theorem loopInto_get (c : Cfg α) (hstart : Int) :
    ∀ (n i : Nat) (suf : Obs α × List (Obs α)) (buf out : List (Option α)),
      loop c hstart n i suf = .ok out → i + n ≤ buf.length →
      ∀ j, (loopInto c hstart n i suf buf).1[j]? = if i ≤ j ∧ j < i + n then out[j - i]? else buf[j]? := by
  intro n
  induction n with
  | zero =>
    intro i suf buf out h _ j
    have : ¬ (i ≤ j ∧ j < i + 0) := by omega
    rw [if_neg this, loopInto]
  | succ n ih =>
    intro i suf buf out h hlen j
    rw [loop] at h
    rw [loopInto]
    cases hp : period c hstart i suf with
    | error x => rw [hp] at h; exact absurd h (by simp)
    | ok r =>
      obtain ⟨o, suf'⟩ := r
      rw [hp] at h
      simp only at h ⊢
      cases hl : loop c hstart n (i + 1) suf' with
      | error x => rw [hl] at h; exact absurd h (by simp)
      | ok hs =>
        rw [hl] at h
        simp at h; subst h
        rw [ih (i + 1) suf' (buf.set i o) hs hl (by simp; omega) j]
        by_cases hji : j = i
        · subst hji
          have h1 : ¬ (j + 1 ≤ j ∧ j < j + 1 + n) := by omega
          have h2 : j ≤ j ∧ j < j + (n + 1) := by omega
          have h3 : j < buf.length := by omega
          simp [h1, h2, h3]
        · by_cases hin : i + 1 ≤ j ∧ j < i + 1 + n
          · have h2 : i ≤ j ∧ j < i + (n + 1) := by omega
            have h3 : j - i = (j - (i + 1)) + 1 := by omega
            rw [if_pos hin, if_pos h2, h3, List.getElem?_cons_succ]
          · have h2 : ¬ (i ≤ j ∧ j < i + (n + 1)) := by omega
            rw [if_neg hin, if_neg h2, List.getElem?_set_ne (Ne.symm hji)]

/-- **the kernel writes `hvalues[0 .. nvalh-2]` and nothing else** -/
theorem kernelInto_of_ok (c : Cfg α) (hstart nvalh : Int) (obs : List (Obs α)) (buf out : List (Option α))
    (hk : kernel c hstart nvalh obs = .ok out) (hlen : (nvalh - 1).toNat ≤ buf.length) :
    kernelInto c hstart nvalh obs buf = (out ++ buf.drop out.length, none) := by
  unfold kernel at hk
  unfold kernelInto
  split at hk
  · exact absurd hk (by simp)
  · rename_i h1
    rw [if_neg h1]
    split at hk
    · exact absurd hk (by simp)
    · rename_i h2
      rw [if_neg h2]
      split at hk
      · exact absurd hk (by simp)
      · rename_i suf hscan
        have hol := loop_length c hstart _ _ _ _ hk
        have herr := loopInto_err c hstart (nvalh - 1).toNat 0 suf buf
        rw [hk] at herr
        have hget := loopInto_get c hstart (nvalh - 1).toNat 0 suf buf out hk (by omega)
        have hl := loopInto_length c hstart (nvalh - 1).toNat 0 suf buf
        refine Prod.ext ?_ herr
        apply List.ext_getElem?
        intro j
        rw [hget j]
        by_cases hj : j < (nvalh - 1).toNat
        · have : 0 ≤ j ∧ j < 0 + (nvalh - 1).toNat := by omega
          rw [if_pos this, List.getElem?_append_left (by omega)]; simp
        · have : ¬ (0 ≤ j ∧ j < 0 + (nvalh - 1).toNat) := by omega
          rw [if_neg this, List.getElem?_append_right (by omega), List.getElem?_drop]
          congr 1; omega

/-- the return code of the kernel on a buffer is the error of the kernel -/
theorem kernelInto_err (c : Cfg α) (hstart nvalh : Int) (obs : List (Obs α)) (buf : List (Option α)) :
    (kernelInto c hstart nvalh obs buf).2 =
      (match kernel c hstart nvalh obs with | .ok _ => none | .error x => some x) := by
  unfold kernel kernelInto
  split
  · rfl
  · split
    · rfl
    · cases startScan hstart obs with
      | none => rfl
      | some suf => exact loopInto_err c hstart _ 0 suf buf

theorem kernelInto_length (c : Cfg α) (hstart nvalh : Int) (obs : List (Obs α)) (buf : List (Option α)) :
    (kernelInto c hstart nvalh obs buf).1.length = buf.length := by
  unfold kernelInto
  split
  · rfl
  · split
    · rfl
    · cases startScan hstart obs with
      | none => rfl
      | some suf => exact loopInto_length c hstart _ 0 suf buf

/-- a history in two parts -/
theorem run_append (s : Bufs α) (l1 l2 : List (Op α)) :
    run s (l1 ++ l2) = ((run (run s l1).1 l2).1, (run s l1).2 ++ (run (run s l1).1 l2).2) := by
  induction l1 generalizing s with
  | nil => simp [run]
  | cons op l1 ih => simp [run, ih]

end anyarith

end HydroVerif.C14
