/-
C15 — the even-odd rule does not depend on the direction of the ray: invariance of the crossing parity under every
invertible linear map of the plane (horizontal shears, axis scalings, reflections, and the exchange of the two
axes, which is the one genuinely two-dimensional step).
-/
import HydroVerif.Lemmas.C15Convex

set_option linter.unusedSectionVars false

namespace HydroVerif.C15

variable {α : Type} [Field α] [LinearOrder α] [IsStrictOrderedRing α]

/-! ### a closed walk changes the value of any vertex predicate an even number of times -/

theorem parity_switch_from {β : Type} (s : β × β → Bool) (l : List (β × β)) : ∀ p1 : β × β,
    parity ((edgesFrom p1 l).map fun e => xor (s e.1) (s e.2)) = xor (s p1) (s (lastFrom p1 l)) := by
  induction l with
  | nil => intro p1; simp [edgesFrom, parity, lastFrom]
  | cons p2 rest ih =>
    intro p1
    simp only [edgesFrom, List.map_cons, parity, lastFrom]
    rw [ih]
    generalize s p1 = a; generalize s p2 = b; generalize s (lastFrom p2 rest) = c
    cases a <;> cases b <;> cases c <;> rfl

theorem parity_switch_cycle {β : Type} (s : β × β → Bool) (poly : List (β × β)) :
    parity ((edges poly).map fun e => xor (s e.1) (s e.2)) = false := by
  cases poly with
  | nil => rfl
  | cons v0 t => simp [edges, parity_switch_from, lastFrom_append]

/-! ### off the boundary, as "not a point of any edge segment" -/

theorem far0_edge_iff {x y : α} {p1 p2 : α × α} :
    FarEdge 0 x y p1 p2 ↔ ∀ t : α, 0 ≤ t → t ≤ 1 →
      ((x, y) : α × α) ≠ (p1.1 + t * (p2.1 - p1.1), p1.2 + t * (p2.2 - p1.2)) := by
  unfold FarEdge
  constructor
  · intro h t h0 h1 heq
    have h1' := congrArg Prod.fst heq
    have h2' := congrArg Prod.snd heq
    simp only at h1' h2'
    rcases h t h0 h1 with h | h
    · rw [h1', sub_self, abs_zero] at h; exact lt_irrefl 0 h
    · rw [h2', sub_self, abs_zero] at h; exact lt_irrefl 0 h
  · intro h t h0 h1
    by_contra hc
    push Not at hc
    have e1 : x - (p1.1 + t * (p2.1 - p1.1)) = 0 := abs_eq_zero.mp (le_antisymm hc.1 (abs_nonneg _))
    have e2 : y - (p1.2 + t * (p2.2 - p1.2)) = 0 := abs_eq_zero.mp (le_antisymm hc.2 (abs_nonneg _))
    exact h t h0 h1 (Prod.ext (by simpa using sub_eq_zero.mp e1) (by simpa using sub_eq_zero.mp e2))

/-- linear map of the plane with matrix `[[a, b], [c, d]]` -/
def lin (a b c d : α) (p : α × α) : α × α := (a * p.1 + b * p.2, c * p.1 + d * p.2)

theorem lin_injective {a b c d : α} (hdet : a * d - b * c ≠ 0) : Function.Injective (lin a b c d) := by
  intro p q h
  have h1 := congrArg Prod.fst h
  have h2 := congrArg Prod.snd h
  simp only [lin] at h1 h2
  have e1 : (a * d - b * c) * (p.1 - q.1) = 0 := by
    have : (a * d - b * c) * (p.1 - q.1) = d * ((a * p.1 + b * p.2) - (a * q.1 + b * q.2)) -
        b * ((c * p.1 + d * p.2) - (c * q.1 + d * q.2)) := by ring
    rw [this, h1, h2]; ring
  have e2 : (a * d - b * c) * (p.2 - q.2) = 0 := by
    have : (a * d - b * c) * (p.2 - q.2) = a * ((c * p.1 + d * p.2) - (c * q.1 + d * q.2)) -
        c * ((a * p.1 + b * p.2) - (a * q.1 + b * q.2)) := by ring
    rw [this, h1, h2]; ring
  have f1 := (mul_eq_zero.mp e1).resolve_left hdet
  have f2 := (mul_eq_zero.mp e2).resolve_left hdet
  exact Prod.ext (sub_eq_zero.mp f1) (sub_eq_zero.mp f2)

/-- an injective map that sends segments to segments (with the same parameter) keeps a point off the boundary -/
theorem far0_map {f : α × α → α × α} (hinj : Function.Injective f)
    (haff : ∀ (p q : α × α) (t : α), f (p.1 + t * (q.1 - p.1), p.2 + t * (q.2 - p.2)) =
      ((f p).1 + t * ((f q).1 - (f p).1), (f p).2 + t * ((f q).2 - (f p).2)))
    {poly : List (α × α)} {pt : α × α} (h : Far 0 poly pt) : Far 0 (poly.map f) (f pt) := by
  intro e he
  rw [edges_map] at he
  obtain ⟨e', he', rfl⟩ := List.mem_map.mp he
  rw [far0_edge_iff]
  intro t h0 h1 heq
  have := (far0_edge_iff.mp (h e' he')) t h0 h1
  apply this
  apply hinj
  rw [haff]
  exact heq

theorem lin_affine (a b c d : α) (p q : α × α) (t : α) :
    lin a b c d (p.1 + t * (q.1 - p.1), p.2 + t * (q.2 - p.2)) =
      ((lin a b c d p).1 + t * ((lin a b c d q).1 - (lin a b c d p).1),
       (lin a b c d p).2 + t * ((lin a b c d q).2 - (lin a b c d p).2)) := by
  simp only [lin]; exact Prod.ext (by ring) (by ring)

/-- `f` preserves the even-odd answer of every point off the boundary (and keeps it off the boundary) -/
def Inv (f : α × α → α × α) : Prop :=
  ∀ (poly : List (α × α)) (pt : α × α), Far 0 poly pt →
    evenOdd (poly.map f) (f pt) = evenOdd poly pt ∧ Far 0 (poly.map f) (f pt)

theorem Inv.comp {f g : α × α → α × α} (hf : Inv f) (hg : Inv g) : Inv (f ∘ g) := by
  intro poly pt h
  obtain ⟨e1, f1⟩ := hg poly pt h
  obtain ⟨e2, f2⟩ := hf _ _ f1
  rw [List.map_map] at e2 f2
  exact ⟨e2.trans e1, f2⟩

theorem inv_of_edge {f : α × α → α × α} (hinj : Function.Injective f)
    (haff : ∀ (p q : α × α) (t : α), f (p.1 + t * (q.1 - p.1), p.2 + t * (q.2 - p.2)) =
      ((f p).1 + t * ((f q).1 - (f p).1), (f p).2 + t * ((f q).2 - (f p).2)))
    (hedge : ∀ (x y : α) (p1 p2 : α × α), crossR (f (x, y)).1 (f (x, y)).2 (f p1) (f p2) = crossR x y p1 p2) :
    Inv f := by
  intro poly pt h
  refine ⟨?_, far0_map hinj haff h⟩
  unfold evenOdd
  rw [edges_map, List.map_map]
  apply parity_map_congr
  intro e _
  exact hedge pt.1 pt.2 e.1 e.2

/-! ### the easy generators -/

theorem crossR_iff {x y : α} {p1 p2 : α × α} :
    crossR x y p1 p2 = true ↔ straddle y p1 p2 = true ∧ x < xint y p1 p2 := by simp [crossR]

theorem crossL_iff {x y : α} {p1 p2 : α × α} :
    crossL x y p1 p2 = true ↔ straddle y p1 p2 = true ∧ xint y p1 p2 < x := by simp [crossL]

/-- horizontal shear `(x, y) ↦ (x + k y, y)` -/
theorem inv_shear (k : α) : Inv (lin 1 k 0 1) := by
  apply inv_of_edge (lin_injective (by simp)) (lin_affine 1 k 0 1)
  intro x y p1 p2
  have hs : straddle (lin 1 k 0 1 (x, y)).2 (lin 1 k 0 1 p1) (lin 1 k 0 1 p2) = straddle y p1 p2 := by
    simp [straddle, below, lin]
  have hx : straddle y p1 p2 = true →
      xint (lin 1 k 0 1 (x, y)).2 (lin 1 k 0 1 p1) (lin 1 k 0 1 p2) = xint y p1 p2 + k * y := by
    intro hst
    have hne := straddle_ne hst
    simp only [xint, lin, zero_mul, one_mul, zero_add]; field_simp; ring
  rw [Bool.eq_iff_iff, crossR_iff, crossR_iff, hs]
  constructor
  · rintro ⟨hst, hlt⟩
    rw [hx hst] at hlt
    simp only [lin, one_mul] at hlt
    exact ⟨hst, by linarith⟩
  · rintro ⟨hst, hlt⟩
    rw [hx hst]
    simp only [lin, one_mul]
    exact ⟨hst, by linarith⟩

/-- axis scaling by positive factors -/
theorem inv_scale_pos {a d : α} (ha : 0 < a) (hd : 0 < d) : Inv (lin a 0 0 d) := by
  apply inv_of_edge (lin_injective (by simp [ha.ne', hd.ne'])) (lin_affine a 0 0 d)
  intro x y p1 p2
  have hs : straddle (lin a 0 0 d (x, y)).2 (lin a 0 0 d p1) (lin a 0 0 d p2) = straddle y p1 p2 := by
    simp [straddle, below, lin, mul_lt_mul_iff_right₀ hd]
  have hx : straddle y p1 p2 = true →
      xint (lin a 0 0 d (x, y)).2 (lin a 0 0 d p1) (lin a 0 0 d p2) = a * xint y p1 p2 := by
    intro hst
    have hne := straddle_ne hst
    simp only [xint, lin, zero_mul, add_zero, zero_add]; field_simp
  rw [Bool.eq_iff_iff, crossR_iff, crossR_iff, hs]
  constructor
  · rintro ⟨hst, hlt⟩
    rw [hx hst] at hlt
    simp only [lin, zero_mul, add_zero] at hlt
    exact ⟨hst, lt_of_mul_lt_mul_left hlt ha.le⟩
  · rintro ⟨hst, hlt⟩
    rw [hx hst]
    simp only [lin, zero_mul, add_zero]
    exact ⟨hst, mul_lt_mul_of_pos_left hlt ha⟩

/-- right = left off the edges (restated for reuse) -/
theorem evenOdd_eq_left_of_off {poly : List (α × α)} {pt : α × α} (hoff : OffEdges poly pt) :
    evenOdd poly pt = evenOddLeft poly pt := by
  have h2 : parity ((edges poly).map fun e => xor (crossR pt.1 pt.2 e.1 e.2) (crossL pt.1 pt.2 e.1 e.2)) = false := by
    rw [← parity_straddle_cycle pt.2 poly]
    apply parity_map_congr
    intro e he
    unfold crossR crossL
    cases hs : straddle pt.2 e.1 e.2
    · rfl
    · have hne := hoff e he hs
      rcases lt_or_gt_of_ne hne with h | h
      · simp [h, not_lt.mpr h.le]
      · simp [h, not_lt.mpr h.le]
  rw [parity_map_xor] at h2
  unfold evenOdd evenOddLeft
  revert h2
  generalize parity (List.map (fun e => crossR pt.1 pt.2 e.1 e.2) (edges poly)) = a
  generalize parity (List.map (fun e => crossL pt.1 pt.2 e.1 e.2) (edges poly)) = b
  cases a <;> cases b <;> simp

/-- reflection `x ↦ -x`: the right ray becomes the left ray -/
theorem inv_reflect_x : Inv (lin (-1 : α) 0 0 1) := by
  intro poly pt h
  refine ⟨?_, far0_map (lin_injective (by simp)) (lin_affine (-1) 0 0 1) h⟩
  rw [evenOdd_eq_left_of_off (far_offEdges (le_refl 0) h)]
  unfold evenOdd evenOddLeft
  rw [edges_map, List.map_map]
  apply parity_map_congr
  intro e _
  show crossR (lin (-1) 0 0 1 pt).1 (lin (-1) 0 0 1 pt).2 (lin (-1) 0 0 1 e.1) (lin (-1) 0 0 1 e.2) =
    crossL pt.1 pt.2 e.1 e.2
  have hs : straddle (lin (-1) 0 0 1 pt).2 (lin (-1) 0 0 1 e.1) (lin (-1) 0 0 1 e.2) = straddle pt.2 e.1 e.2 := by
    simp [straddle, below, lin]
  have hx : straddle pt.2 e.1 e.2 = true →
      xint (lin (-1) 0 0 1 pt).2 (lin (-1) 0 0 1 e.1) (lin (-1) 0 0 1 e.2) = -xint pt.2 e.1 e.2 := by
    intro hst
    have hne := straddle_ne hst
    simp only [xint, lin, zero_mul, one_mul, zero_add, add_zero]; field_simp; ring
  rw [Bool.eq_iff_iff, crossR_iff, crossL_iff, hs]
  constructor
  · rintro ⟨hst, hlt⟩
    rw [hx hst] at hlt
    simp only [lin, zero_mul, add_zero] at hlt
    exact ⟨hst, by linarith⟩
  · rintro ⟨hst, hlt⟩
    rw [hx hst]
    simp only [lin, zero_mul, add_zero]
    exact ⟨hst, by linarith⟩

/-! ### exchanging the two axes (horizontal ray ↔ vertical ray) -/

/-- exchange of the coordinates -/
def sw (p : α × α) : α × α := (p.2, p.1)

theorem cross_sw (p1 p2 : α × α) (x y : α) : cross (sw p1) (sw p2) (y, x) = -cross p1 p2 (x, y) := by
  unfold cross sw; ring

theorem farEdge0_sw {x y : α} {p1 p2 : α × α} (h : FarEdge 0 x y p1 p2) : FarEdge 0 y x (sw p1) (sw p2) := by
  intro t h0 h1
  exact (h t h0 h1).symm

theorem cross_neg_down {x y : α} {p1 p2 : α × α} (hd : isDown y p1 p2 = true) :
    cross p1 p2 (x, y) < 0 ↔ x < xint y p1 p2 := by
  obtain ⟨h1, h2⟩ := isDown_iff.mp hd
  have hneg : p2.2 - p1.2 < 0 := by linarith
  rw [cross_eq_mul hneg.ne]
  constructor
  · intro h
    by_contra hc
    have : xint y p1 p2 - x ≤ 0 := by linarith [not_lt.mp hc]
    nlinarith
  · intro h
    have : 0 < xint y p1 p2 - x := by linarith
    nlinarith

/-- off the segment, a straddling edge has the point off its line -/
theorem cross_ne_zero_of_straddle {x y : α} {p1 p2 : α × α} (hfar : FarEdge 0 x y p1 p2)
    (hs : straddle y p1 p2 = true) : cross p1 p2 (x, y) ≠ 0 := by
  obtain ⟨ht0, ht1⟩ := tpar_mem hs
  have hne : x ≠ xint y p1 p2 := by
    intro heq
    rcases hfar _ ht0 ht1 with h | h
    · rw [← xint_eq_tpar, heq, sub_self, abs_zero] at h; exact lt_irrefl 0 h
    · rw [tpar_y hs, sub_self, abs_zero] at h; exact lt_irrefl 0 h
  rw [cross_eq_mul (straddle_ne hs)]
  exact mul_ne_zero (straddle_ne hs) (sub_ne_zero.mpr (Ne.symm hne))

/-- the crossing test of the right ray, in terms of the side of the edge the point is on (when the edge also
straddles the vertical through the point) or of the position of the end points (when it does not) -/
theorem crossR_form {x y : α} {p1 p2 : α × α} (hfar : FarEdge 0 x y p1 p2) :
    crossR x y p1 p2 = (straddle y p1 p2 &&
      (if straddle x (sw p1) (sw p2) = true then xor (!below y p1.2) (decide (0 < cross p1 p2 (x, y)))
       else !decide (p1.1 < x))) := by
  unfold crossR
  cases hsy : straddle y p1 p2
  · rfl
  simp only [Bool.true_and]
  have hc := cross_ne_zero_of_straddle hfar hsy
  by_cases hsx : straddle x (sw p1) (sw p2) = true
  · rw [if_pos hsx]
    -- up or down
    rw [straddle_eq_up_or_down] at hsy
    cases hu : isUp y p1 p2
    · have hd : isDown y p1 p2 = true := by rw [hu] at hsy; simpa using hsy
      have hb : below y p1.2 = false := by
        have := isDown_iff.mp hd; simp [below, not_lt.mpr this.2]
      rw [hb]
      have := cross_neg_down (x := x) hd
      simp only [Bool.not_false, Bool.true_xor]
      rw [Bool.eq_iff_iff]
      simp only [decide_eq_true_eq, Bool.not_eq_true', decide_eq_false_iff_not, not_lt]
      rw [← this]
      exact ⟨le_of_lt, fun h => lt_of_le_of_ne h hc⟩
    · have hb : below y p1.2 = true := by
        have := isUp_iff.mp hu; simp [below, this.1]
      rw [hb]
      have := cross_pos_up (x := x) hu
      simp only [Bool.not_true, Bool.false_xor]
      rw [Bool.eq_iff_iff]
      simp only [decide_eq_true_eq]
      exact this.symm
  · rw [if_neg hsx]
    -- both end points on the same side of the vertical through the point
    have hsame : decide (p1.1 < x) = decide (p2.1 < x) := by
      have : straddle x (sw p1) (sw p2) = false := by simpa using hsx
      unfold straddle below sw at this
      simp only at this
      revert this
      cases decide (p1.1 < x) <;> cases decide (p2.1 < x) <;> simp
    obtain ⟨hlo, hhi⟩ := xint_mem hsy
    have hne : x ≠ xint y p1 p2 := by
      intro heq
      rw [cross_eq_mul (straddle_ne hsy), heq, sub_self, mul_zero] at hc
      exact hc rfl
    by_cases h1 : p1.1 < x
    · have h2 : p2.1 < x := by simpa [h1] using hsame.symm
      have : ¬ x < xint y p1 p2 := not_lt.mpr (hhi.trans (max_le h1.le h2.le))
      simp [h1, this]
    · have h2 : ¬ p2.1 < x := by
        intro h; have := hsame; simp [h1, h] at this
      have : x < xint y p1 p2 :=
        lt_of_le_of_ne ((le_min (not_lt.mp h1) (not_lt.mp h2)).trans hlo) hne
      simp [h1, this]

/-- **one edge, two rays**: an edge that does not contain the point crosses the ray going right or the ray going up,
but not both, exactly when one of its end points lies in the closed quadrant right of and above the point -/
theorem crossR_xor_crossUp {x y : α} {p1 p2 : α × α} (hfar : FarEdge 0 x y p1 p2) :
    xor (crossR x y p1 p2) (crossR y x (sw p1) (sw p2)) =
      xor (!decide (p1.1 < x) && !decide (p1.2 < y)) (!decide (p2.1 < x) && !decide (p2.2 < y)) := by
  have hR := crossR_form hfar
  have hU := crossR_form (farEdge0_sw hfar)
  rw [hR, hU]
  have e1 : sw (sw p1) = p1 := rfl
  have e2 : sw (sw p2) = p2 := rfl
  rw [e1, e2, cross_sw]
  have hcs : straddle y p1 p2 = true → cross p1 p2 (x, y) ≠ 0 := cross_ne_zero_of_straddle hfar
  have hneg : cross p1 p2 (x, y) ≠ 0 →
      decide (0 < -cross p1 p2 (x, y)) = !decide (0 < cross p1 p2 (x, y)) := by
    intro hc
    rcases lt_or_gt_of_ne hc with h | h
    · simp [h, not_lt.mpr h.le]
    · simp [h, not_lt.mpr h.le]
  by_cases hA1 : p1.1 < x <;> by_cases hB1 : p2.1 < x <;> by_cases hA2 : p1.2 < y <;> by_cases hB2 : p2.2 < y <;>
    simp only [straddle, below, sw, hA1, hB1, hA2, hB2, decide_true, decide_false, Bool.xor_self, Bool.xor_true,
      Bool.xor_false, Bool.true_xor, Bool.false_xor, Bool.not_true, Bool.not_false, Bool.and_true, Bool.and_false,
      Bool.true_and, Bool.false_and, if_true, if_false, Bool.false_eq_true, forall_const, IsEmpty.forall_iff] at hcs ⊢ <;>
    (try rw [hneg hcs]) <;>
    (try (cases decide (0 < cross p1 p2 (x, y)) <;> rfl))

theorem inv_sw : Inv (sw : α × α → α × α) := by
  intro poly pt h
  have hfar' : Far 0 (poly.map sw) (sw pt) := by
    intro e he
    rw [edges_map] at he
    obtain ⟨e', he', rfl⟩ := List.mem_map.mp he
    exact farEdge0_sw (h e' he')
  refine ⟨?_, hfar'⟩
  have hx : parity ((edges poly).map fun e =>
      xor (crossR pt.1 pt.2 e.1 e.2) (crossR pt.2 pt.1 (sw e.1) (sw e.2))) = false := by
    rw [← parity_switch_cycle (fun v : α × α => !decide (v.1 < pt.1) && !decide (v.2 < pt.2)) poly]
    apply parity_map_congr
    intro e he
    exact crossR_xor_crossUp (h e he)
  rw [parity_map_xor] at hx
  have : evenOdd (poly.map sw) (sw pt) =
      parity ((edges poly).map fun e => crossR pt.2 pt.1 (sw e.1) (sw e.2)) := by
    unfold evenOdd
    rw [edges_map, List.map_map]
    rfl
  rw [this]
  unfold evenOdd
  revert hx
  generalize parity (List.map (fun e => crossR pt.1 pt.2 e.1 e.2) (edges poly)) = a
  generalize parity (List.map (fun e => crossR pt.2 pt.1 (sw e.1) (sw e.2)) (edges poly)) = b
  cases a <;> cases b <;> simp

/-! ### every invertible linear map -/

theorem lin_eq_sw : (lin (0 : α) 1 1 0) = sw := by
  funext p; simp [lin, sw]

theorem inv_congr {f g : α × α → α × α} (h : f = g) (hf : Inv f) : Inv g := h ▸ hf

/-- vertical shear `(x, y) ↦ (x, y + m x)` -/
theorem inv_shear_y (m : α) : Inv (lin 1 0 m 1) := by
  refine inv_congr ?_ ((inv_sw.comp (inv_shear m)).comp inv_sw)
  funext p; simp [lin, sw, Function.comp]; ring

/-- reflection `y ↦ -y` -/
theorem inv_reflect_y : Inv (lin (1 : α) 0 0 (-1)) := by
  refine inv_congr ?_ ((inv_sw.comp inv_reflect_x).comp inv_sw)
  funext p; simp [lin, sw, Function.comp]

theorem inv_diag {p q : α} (hp : p ≠ 0) (hq : q ≠ 0) : Inv (lin p 0 0 q) := by
  rcases lt_or_gt_of_ne hp with hp' | hp' <;> rcases lt_or_gt_of_ne hq with hq' | hq'
  · refine inv_congr ?_ (((inv_scale_pos (neg_pos.mpr hp') (neg_pos.mpr hq')).comp inv_reflect_x).comp inv_reflect_y)
    funext v; simp [lin, Function.comp]
  · refine inv_congr ?_ ((inv_scale_pos (neg_pos.mpr hp') hq').comp inv_reflect_x)
    funext v; simp [lin, Function.comp]
  · refine inv_congr ?_ ((inv_scale_pos hp' (neg_pos.mpr hq')).comp inv_reflect_y)
    funext v; simp [lin, Function.comp]
  · exact inv_scale_pos hp' hq'

theorem inv_lin_of_ne {a b c d : α} (ha : a ≠ 0) (hdet : a * d - b * c ≠ 0) : Inv (lin a b c d) := by
  have hq : (a * d - b * c) / a ≠ 0 := div_ne_zero hdet ha
  refine inv_congr ?_ (((inv_shear_y (c / a)).comp (inv_diag ha hq)).comp (inv_shear (b / a)))
  funext v
  simp only [lin, Function.comp]
  apply Prod.ext
  · simp only; field_simp; ring
  · simp only; field_simp; ring

/-- **the even-odd answer of a point off the boundary is invariant under every invertible linear map** -/
theorem inv_lin {a b c d : α} (hdet : a * d - b * c ≠ 0) : Inv (lin a b c d) := by
  by_cases ha : a = 0
  · subst ha
    have hb : b ≠ 0 := by intro h; apply hdet; rw [h]; ring
    have hdet' : b * c - 0 * d ≠ 0 := by intro h; apply hdet; linarith
    refine inv_congr ?_ ((inv_lin_of_ne hb hdet').comp inv_sw)
    funext v; simp [lin, sw, Function.comp]; ring
  · exact inv_lin_of_ne ha hdet

/-! ### any ray direction -/

theorem rot_eq (d P V : α × α) : rot d P V = lin d.1 d.2 (-d.2) d.1 (shift (-P.1, -P.2) V) := by
  simp only [rot, lin, shift]; apply Prod.ext <;> simp only <;> ring

theorem evenOdd_shift' (d : α × α) (poly : List (α × α)) (pt : α × α) :
    evenOdd (poly.map (shift d)) (shift d pt) = evenOdd poly pt := by
  unfold evenOdd
  rw [edges_map, List.map_map]
  apply parity_map_congr
  intro e _
  exact crossR_shift d pt.1 pt.2 e.1 e.2

/-- the crossing parity along ANY ray direction equals the crossing parity of the horizontal ray, for every polygon
and every point off its boundary -/
theorem evenOddDir_eq_evenOdd {d : α × α} (hd : d ≠ (0, 0)) {poly : List (α × α)} {P : α × α}
    (hfar : Far 0 poly P) : evenOddDir d poly P = evenOdd poly P := by
  have hdet : d.1 * d.1 - d.2 * -d.2 ≠ 0 := by
    intro h
    have : d.1 * d.1 + d.2 * d.2 = 0 := by linarith
    obtain ⟨h1, h2⟩ := mul_self_add_mul_self_eq_zero.mp this
    exact hd (Prod.ext h1 h2)
  have h1 : evenOddDir d poly P =
      evenOdd ((poly.map (shift (-P.1, -P.2))).map (lin d.1 d.2 (-d.2) d.1))
        (lin d.1 d.2 (-d.2) d.1 (shift (-P.1, -P.2) P)) := by
    unfold evenOddDir evenOdd crossDir
    rw [List.map_map, edges_map, List.map_map]
    have hP : lin d.1 d.2 (-d.2) d.1 (shift (-P.1, -P.2) P) = (0, 0) := by simp [lin, shift]
    rw [hP]
    apply parity_map_congr
    intro e _
    simp only [Function.comp, Prod.map, rot_eq]
  rw [h1, (inv_lin hdet _ _ (far_shift (-P.1, -P.2) hfar)).1, evenOdd_shift']

end HydroVerif.C15
