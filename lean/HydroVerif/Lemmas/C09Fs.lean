/- helper lemmas for C09: the directory / archive state machines -/
import HydroVerif.Model.C09Fs
import HydroVerif.Lemmas.C09
import Mathlib.Data.List.Basic

namespace HydroVerif.C09

theorem dirHas_iff_dirGet (d : Dir) (f : Str) : dirHas d f = (dirGet d f).isSome := by
  induction d with
  | nil => rfl
  | cons e d ih =>
    obtain ⟨g, c⟩ := e
    by_cases h : g = f
    · subst h; simp [dirHas, dirGet]
    · have hb : (g == f) = false := beq_eq_false_iff_ne.mpr h
      simp only [dirHas, List.any_cons, hb, Bool.false_or, dirGet, Bool.false_eq_true, if_false]
      exact ih

theorem dirGet_map_set (d : Dir) (f g : Str) (c : Stored) :
    dirGet (d.map fun e => if e.1 == f then (f, c) else e) g = if g = f then (if dirHas d f then some c else none) else dirGet d g := by
  induction d with
  | nil => by_cases h : g = f <;> simp [dirGet, dirHas, h]
  | cons e d ih =>
    obtain ⟨k, c'⟩ := e
    have hhas : dirHas ((k, c') :: d) f = (k == f || dirHas d f) := rfl
    by_cases hk : k = f
    · have hb : (k == f) = true := by simp [hk]
      by_cases hg : g = f
      · subst hg
        simp only [List.map_cons, hb, if_true, dirGet, beq_self_eq_true, hhas, Bool.true_or]
      · have hb2 : (f == g) = false := beq_eq_false_iff_ne.mpr (Ne.symm hg)
        have hb3 : (k == g) = false := by rw [hk]; exact hb2
        simp only [List.map_cons, hb, if_true, dirGet, hb2, Bool.false_eq_true, if_false, ih, hg, hb3]
    · have hb : (k == f) = false := beq_eq_false_iff_ne.mpr hk
      by_cases hg : g = f
      · subst hg
        rw [if_pos rfl] at ih
        simp only [List.map_cons, hb, Bool.false_eq_true, if_false, dirGet, ih, if_true, hhas, Bool.false_or]
      · by_cases hkg : k = g
        · have hb3 : (k == g) = true := by simp [hkg]
          simp only [List.map_cons, hb, Bool.false_eq_true, if_false, dirGet, hb3, if_true, hg]
        · have hb3 : (k == g) = false := beq_eq_false_iff_ne.mpr hkg
          simp only [List.map_cons, hb, Bool.false_eq_true, if_false, dirGet, hb3, ih, hg]

theorem dirGet_append_new (d : Dir) (f g : Str) (c : Stored) (h : dirHas d f = false) :
    dirGet (d ++ [(f, c)]) g = if g = f then some c else dirGet d g := by
  induction d with
  | nil =>
    by_cases hg : g = f
    · subst hg; simp [dirGet]
    · have : (f == g) = false := beq_eq_false_iff_ne.mpr (Ne.symm hg)
      simp [dirGet, hg, this]
  | cons e d ih =>
    obtain ⟨k, c'⟩ := e
    simp only [dirHas, List.any_cons, Bool.or_eq_false_iff] at h
    have hkf : k ≠ f := by simpa using h.1
    simp only [List.cons_append, dirGet]
    by_cases hkg : k = g
    · subst hkg
      simp [hkf]
    · have : (k == g) = false := beq_eq_false_iff_ne.mpr hkg
      simp only [this, Bool.false_eq_true, if_false]
      exact ih h.2

/-- reading a directory after creating / replacing a file -/
theorem dirGet_dirSet (d : Dir) (f g : Str) (c : Stored) :
    dirGet (dirSet d f c) g = if g = f then some c else dirGet d g := by
  unfold dirSet
  by_cases h : dirHas d f = true
  · rw [if_pos h, dirGet_map_set, h]; simp
  · have h' : dirHas d f = false := by simpa using h
    rw [if_neg h, dirGet_append_new d f g c h']

theorem dirHas_dirSet (d : Dir) (f g : Str) (c : Stored) : dirHas (dirSet d f c) g = (g == f || dirHas d g) := by
  rw [dirHas_iff_dirGet, dirGet_dirSet, dirHas_iff_dirGet]
  by_cases h : g = f <;> simp [h]

/-- `stem` and `suffix` of `<stem>.<ext>` for an extension without dots -/
theorem stem_append_ext (s ext : Str) (hs : s ≠ []) (he : ext ≠ []) (hd : ∀ c ∈ ext, (c != '.') = true) :
    stem (s ++ '.' :: ext) = s ∧ suffix (s ++ '.' :: ext) = '.' :: ext := by
  unfold stem suffix
  rw [splitExt_append s ext hs he hd]
  exact ⟨rfl, rfl⟩

end HydroVerif.C09
