/-
C15 — helper lemmas for the state histories of `Model/C15Hist.lean` (no arithmetic: generic over the number type).
-/
import HydroVerif.Lemmas.C15
import HydroVerif.Model.C15Hist

set_option linter.unusedSectionVars false

namespace HydroVerif.C15

section
variable {β : Type} [Add β] [Sub β] [Mul β] [Div β] [Neg β] [LT β] [DecidableLT β] [LE β] [DecidableLE β] [OfNat β 0]

theorem cInside_length (atol : β) (poly : List (β × β)) (xl yl : β × β) (pts : List (β × β)) :
    (cInside atol poly xl yl pts (List.replicate pts.length false)).length = pts.length := by
  simp [cInside]

/-- an answered call returns one answer per point, and a vector that was passed had that length and dtype int32 -/
theorem call_ok_length {atol : β} {pts poly : List (β × β)} {inside : Option (Bool × Nat)} {l : List Bool}
    (h : pointsInsidePolygonCall atol 2 pts 2 poly inside = .ok l) :
    l.length = pts.length ∧ ∀ b n, inside = some (b, n) → b = true ∧ n = pts.length := by
  unfold pointsInsidePolygonCall at h
  split_ifs at h with h1 h2 h3
  unfold pointsInsidePolygon at h
  split_ifs at h with h4
  cases poly with
  | nil => simp at h
  | cons v0 t =>
    simp only [Except.ok.injEq] at h
    refine ⟨by rw [← h]; exact cInside_length _ _ _ _ _, ?_⟩
    intro b n hin
    subst hin
    simp only [Bool.not_eq_true', Bool.not_eq_false] at h1
    simp only [bne_iff_ne, ne_eq, Decidable.not_not] at h2
    exact ⟨by simpa using h1, h2⟩

theorem insideOf_abs (w : PipWorld β) (arg : InsideArg) : insideOf w arg = absInsideOf w.abs arg := by
  cases arg with
  | none => rfl
  | buffer => cases hb : w.buf <;> simp [insideOf, absInsideOf, PipWorld.abs, hb]
  | foreign i n => rfl

theorem bufAfter_length (w : PipWorld β) (arg : InsideArg) :
    (bufAfter w.buf arg (pointsInsidePolygonCall w.atol 2 w.pts 2 w.poly (insideOf w arg))).map List.length =
      w.buf.map List.length := by
  cases arg with
  | none => rfl
  | foreign i n => rfl
  | buffer =>
    cases hb : w.buf with
    | none => cases h : pointsInsidePolygonCall w.atol 2 w.pts 2 w.poly (insideOf w .buffer) with
      | ok l => simp [bufAfter]
      | error e => cases e <;> simp [bufAfter]
    | some b =>
      cases h : pointsInsidePolygonCall w.atol 2 w.pts 2 w.poly (insideOf w .buffer) with
      | ok l =>
        obtain ⟨hl, hin⟩ := call_ok_length h
        have := (hin true b.length (by simp [insideOf, hb])).2
        simp [bufAfter, answersToInt, hl, this]
      | error e => cases e <;> simp [bufAfter]

/-- one step of the stateful machine is one step of the memoryless specification -/
theorem pipStep_abs (w : PipWorld β) (op : PipOp β) :
    ((pipStep w op).1.abs, (pipStep w op).2) = pipAbsStep w.abs op := by
  cases op with
  | setPoints l => rfl
  | setPolygon l => rfl
  | setAtol a => rfl
  | newBuffer c => rfl
  | dropBuffer => rfl
  | scribble v =>
    simp only [pipStep, pipAbsStep, PipWorld.abs, Prod.mk.injEq, and_true]
    cases w.buf <;> simp
  | call arg =>
    simp only [pipStep, pipAbsStep, Prod.mk.injEq]
    refine ⟨?_, by rw [insideOf_abs]; rfl⟩
    have := bufAfter_length w arg
    simp only [PipWorld.abs, this]

theorem pipRun_abs (ops : List (PipOp β)) : ∀ w : PipWorld β,
    (pipRun w ops).1 = (pipAbsRun w.abs ops).1 ∧ (pipRun w ops).2.abs = (pipAbsRun w.abs ops).2 := by
  induction ops with
  | nil => intro w; exact ⟨rfl, rfl⟩
  | cons op rest ih =>
    intro w
    have h := pipStep_abs w op
    have h1 : (pipStep w op).1.abs = (pipAbsStep w.abs op).1 := congrArg Prod.fst h
    have h2 : (pipStep w op).2 = (pipAbsStep w.abs op).2 := congrArg Prod.snd h
    obtain ⟨i1, i2⟩ := ih (pipStep w op).1
    simp only [pipRun, pipAbsRun]
    rw [i1, i2, h1, h2]
    exact ⟨rfl, rfl⟩

theorem pipRun_append (ops1 ops2 : List (PipOp β)) : ∀ w : PipWorld β,
    pipRun w (ops1 ++ ops2) =
      ((pipRun w ops1).1 ++ (pipRun (pipRun w ops1).2 ops2).1, (pipRun (pipRun w ops1).2 ops2).2) := by
  induction ops1 with
  | nil => intro w; rfl
  | cons op rest ih =>
    intro w
    simp only [List.cons_append, pipRun, ih]
    cases (pipStep w op).2 <;> rfl

/-- a refused call leaves the caller's world as it was when it is refused by the Python guards (dtype, length) or
when the vector passed is not the caller's buffer -/
theorem pipStep_refused (w : PipWorld β) (arg : InsideArg) (e : Err)
    (h : (pipStep w (.call arg)).2 = some (.error e))
    (hk : e = .insideDtype ∨ e = .insideLength ∨ arg ≠ .buffer) : (pipStep w (.call arg)).1 = w := by
  simp only [pipStep, Option.some.injEq] at h
  simp only [pipStep, h]
  cases arg with
  | none => rfl
  | foreign i n => rfl
  | buffer =>
    rcases hk with rfl | rfl | hne
    · rfl
    · rfl
    · exact absurd rfl hne

/-- an answered call on the caller's buffer leaves the answers in it and nothing else changed -/
theorem pipStep_buffer_ok (w : PipWorld β) (b : List Int) (l : List Bool) (hb : w.buf = some b)
    (h : (pipStep w (.call .buffer)).2 = some (.ok l)) :
    (pipStep w (.call .buffer)).1 = { w with buf := some (answersToInt l) } := by
  simp only [pipStep, Option.some.injEq] at h
  simp only [pipStep, h, bufAfter, hb, Option.map_some]

/-! ### Grid objects -/

variable [NatCast β]

theorem gridRun_append (atol : β) (ops1 ops2 : List (GridOp β)) : ∀ objs : List (Geom β),
    gridRun atol objs (ops1 ++ ops2) =
      ((gridRun atol objs ops1).1 ++ (gridRun atol (gridRun atol objs ops1).2 ops2).1,
        (gridRun atol (gridRun atol objs ops1).2 ops2).2) := by
  induction ops1 with
  | nil => intro objs; rfl
  | cons op rest ih =>
    intro objs
    simp only [List.cons_append, gridRun, ih]
    cases (gridStep atol objs op).2 <;> rfl

/-- a query — answered or refused — changes no object -/
theorem gridStep_query_state (atol : β) (objs : List (Geom β)) (op : GridOp β) (h : op.isQuery = true) :
    (gridStep atol objs op).1 = objs := by
  cases op <;> simp_all [GridOp.isQuery, gridStep]

/-- the objects after a history are those after the same history with every query erased -/
theorem gridRun_state_erase (atol : β) (ops : List (GridOp β)) : ∀ objs : List (Geom β),
    (gridRun atol objs ops).2 = (gridRun atol objs (ops.filter fun op => !op.isQuery)).2 := by
  induction ops with
  | nil => intro objs; rfl
  | cons op rest ih =>
    intro objs
    by_cases h : op.isQuery = true
    · simp only [gridRun, List.filter_cons, h, Bool.not_true, Bool.false_eq_true, if_false]
      rw [gridStep_query_state atol objs op h]
      exact ih objs
    · have h' : op.isQuery = false := by simpa using h
      simp only [gridRun, List.filter_cons, h', Bool.not_false, if_true]
      exact ih _

theorem modifyAt_getElem?_ne {γ : Type} (f : γ → γ) : ∀ (l : List γ) (i j : Nat), i ≠ j →
    (modifyAt f j l)[i]? = l[i]? := by
  intro l
  induction l with
  | nil => intro i j _; cases j <;> rfl
  | cons g t ih =>
    intro i j hij
    cases j with
    | zero =>
      cases i with
      | zero => exact absurd rfl hij
      | succ i => rfl
    | succ j =>
      cases i with
      | zero => rfl
      | succ i => simpa [modifyAt] using ih i j (by omega)

theorem modifyAt_getElem?_eq {γ : Type} (f : γ → γ) : ∀ (l : List γ) (i : Nat),
    (modifyAt f i l)[i]? = l[i]?.map f := by
  intro l
  induction l with
  | nil => intro i; cases i <;> rfl
  | cons g t ih =>
    intro i
    cases i with
    | zero => rfl
    | succ i => simpa [modifyAt] using ih i

end

end HydroVerif.C15
