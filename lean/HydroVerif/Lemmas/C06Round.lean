/-
C06 — what survives rounding. The length theorems of `Props/C06.lean` (§4) are exact, over a commutative ring.
IEEE doubles are not a ring; but the accumulated lengths are sums of NON-NEGATIVE terms formed with a MONOTONE
addition (rounding to nearest is monotone: `a ≤ b → c ≤ d → fl(a+c) ≤ fl(b+d)`), and that is enough for the
order / range part of the clause: lengths are non-negative, the distance column of a river never decreases,
a walk of `n` steps is at least "n counted in the same arithmetic" and at most "2n counted in the same
arithmetic", and a chain without diagonal steps has EXACTLY the counted length (in IEEE double the count
`0+1+1+…+1` is the integer `n` itself for `n < 2^53`).

`FloatLike F` lists the facts used; they hold for IEEE binary64 restricted to the finite non-negative values
that occur here, for `ℝ` with `Real.sqrt` (`floatLike_real`) and for a toy arithmetic that really rounds
(`Props/C06.lean`, non-vacuity).
-/
import HydroVerif.Lemmas.C06Real

set_option linter.unusedSectionVars false

namespace HydroVerif.C06

section
variable {F : Type} [Add F] [Mul F] [OfNat F 0] [OfNat F 1] [IntCast F] [Transc F] [LinearOrder F]

/-- the facts about a rounded arithmetic the order theorems use -/
structure FloatLike (F : Type) [Add F] [Mul F] [OfNat F 0] [OfNat F 1] [IntCast F] [Transc F] [LinearOrder F] :
    Prop where
  /-- rounded addition is monotone in both arguments -/
  add_mono : ∀ a b c d : F, a ≤ b → c ≤ d → a + c ≤ b + d
  /-- adding zero is exact -/
  add_zero : ∀ a : F, a + 0 = a
  zero_le_one : (0 : F) ≤ 1
  one_le_two : (1 : F) ≤ 1 + 1
  /-- `sqrt` is exact on 1 -/
  sqrt_one : Transc.sqrt (1 : F) = 1
  /-- `1 ≤ sqrt 2 ≤ 2` -/
  one_le_sqrt_two : (1 : F) ≤ Transc.sqrt (1 + 1)
  sqrt_two_le_two : Transc.sqrt (1 + 1 : F) ≤ 1 + 1
  /-- the square root of a non-negative number is non-negative -/
  sqrt_nonneg : ∀ x : F, 0 ≤ x → 0 ≤ Transc.sqrt x
  /-- a sum of two squares of integers is non-negative -/
  sumsq_nonneg : ∀ a b : Int, (0 : F) ≤ (a : F) * (a : F) + (b : F) * (b : F)

-- `countBy step n` = `0 + step + … + step` in the arithmetic of `F`: `Model/C06.lean`

theorem pathLength_snoc (steps : List Bool) (d : Bool) :
    (pathLength (steps ++ [d]) : F) = pathLength steps + stepLen d := by
  unfold pathLength; rw [List.foldl_append]; rfl

theorem stepLen_bounds (h : FloatLike F) (d : Bool) :
    (1 : F) ≤ stepLen d ∧ (stepLen d : F) ≤ 1 + 1 := by
  cases d
  · show (1 : F) ≤ Transc.sqrt 1 ∧ Transc.sqrt (1 : F) ≤ 1 + 1
    rw [h.sqrt_one]; exact ⟨le_refl _, h.one_le_two⟩
  · exact ⟨h.one_le_sqrt_two, h.sqrt_two_le_two⟩

/-- **lengths under rounding**: a length never decreases when a step is added, it is non-negative, and after
`n` steps it lies between `n` and `2n` counted in the same arithmetic -/
theorem pathLength_rounded (h : FloatLike F) (steps : List Bool) :
    (0 : F) ≤ pathLength steps ∧
    (countBy (1 : F) steps.length ≤ pathLength steps ∧ (pathLength steps : F) ≤ countBy (1 + 1) steps.length) ∧
    ∀ d : Bool, (pathLength steps : F) ≤ pathLength (steps ++ [d]) := by
  have key : ∀ steps : List Bool, (0 : F) ≤ pathLength steps ∧
      countBy (1 : F) steps.length ≤ pathLength steps ∧ (pathLength steps : F) ≤ countBy (1 + 1) steps.length := by
    intro steps
    induction steps using List.reverseRecOn with
    | nil => exact ⟨le_refl _, le_refl _, le_refl _⟩
    | append_singleton l d ih =>
      obtain ⟨i0, i1, i2⟩ := ih
      obtain ⟨b1, b2⟩ := stepLen_bounds h d
      rw [pathLength_snoc, List.length_append, List.length_singleton]
      refine ⟨?_, h.add_mono _ _ _ _ i1 b1, h.add_mono _ _ _ _ i2 b2⟩
      have := h.add_mono _ _ _ _ i0 (h.zero_le_one.trans b1)
      rwa [h.add_zero] at this
  refine ⟨(key steps).1, (key steps).2, ?_⟩
  intro d
  rw [pathLength_snoc]
  have := h.add_mono _ _ _ _ (le_refl (pathLength steps : F)) (h.zero_le_one.trans (stepLen_bounds h d).1)
  rwa [h.add_zero] at this

/-- **a chain without diagonal steps has exactly the counted length** (no hypothesis on rounding at all beyond
`sqrt 1 = 1`: the kernel's sum IS the count) -/
theorem pathLength_orthogonal (hs1 : Transc.sqrt (1 : F) = 1) (steps : List Bool)
    (horth : ∀ d ∈ steps, d = false) : (pathLength steps : F) = countBy 1 steps.length := by
  induction steps using List.reverseRecOn with
  | nil => rfl
  | append_singleton l d ih =>
    have hd : d = false := horth d (by simp)
    rw [pathLength_snoc, List.length_append, List.length_singleton, ih (fun x hx => horth x (by simp [hx])), hd]
    show countBy 1 l.length + Transc.sqrt (1 : F) = _
    rw [hs1]; rfl

/-- **the distance column of a river never decreases** (and starts at or above the running distance) -/
theorem riverLoop_dist_mono (h : FloatLike F) (codes : List Int) (g : FlowGrid) :
    ∀ (n : Nat) (cur : Int) (dist : F) (dx dy : Int),
      (∀ r ∈ riverLoop codes g n cur dist dx dy, dist ≤ r.dist) ∧
      ((riverLoop codes g n cur dist dx dy).map (·.dist)).Pairwise (· ≤ ·) := by
  intro n
  induction n with
  | zero => intro cur dist dx dy; simp [riverLoop]
  | succ n ih =>
    intro cur dist dx dy
    have hstep : dist ≤ dist + hypot dx dy := by
      have := h.add_mono _ _ _ _ (le_refl dist) (h.sqrt_nonneg _ (h.sumsq_nonneg dx dy))
      rwa [h.add_zero] at this
    simp only [riverLoop]
    split
    · simp [hstep]
    · obtain ⟨i1, i2⟩ := ih (downstreamCell codes g cur) (dist + hypot dx dy)
        (C07.colOf g.ncols cur - C07.colOf g.ncols (downstreamCell codes g cur))
        (C07.rowOf g.ncols cur - C07.rowOf g.ncols (downstreamCell codes g cur))
      constructor
      · intro r hr
        rcases List.mem_cons.1 hr with rfl | hr
        · exact hstep
        · exact hstep.trans (i1 r hr)
      · rw [List.map_cons, List.pairwise_cons]
        refine ⟨?_, i2⟩
        intro x hx
        obtain ⟨r, hr, rfl⟩ := List.mem_map.1 hx
        exact i1 r hr

end

/-- the reals with `Real.sqrt` are float-like (exact arithmetic is a rounded arithmetic) -/
theorem floatLike_real : letI := realTransc; FloatLike ℝ := by
  let _ := realTransc
  refine
    { add_mono := fun a b c d h1 h2 => add_le_add h1 h2
      add_zero := fun a => add_zero a
      zero_le_one := zero_le_one
      one_le_two := by norm_num
      sqrt_one := Real.sqrt_one
      one_le_sqrt_two := ?_
      sqrt_two_le_two := ?_
      sqrt_nonneg := fun x _ => Real.sqrt_nonneg x
      sumsq_nonneg := fun a b => add_nonneg (mul_self_nonneg _) (mul_self_nonneg _) }
  · show (1 : ℝ) ≤ Real.sqrt (1 + 1)
    rw [show (1 : ℝ) = Real.sqrt 1 from Real.sqrt_one.symm]
    exact Real.sqrt_le_sqrt (by norm_num)
  · show Real.sqrt (1 + 1) ≤ 1 + 1
    rw [Real.sqrt_le_left (by norm_num)]
    norm_num

/-! ### a toy arithmetic that really rounds: `0 .. 8` with saturating operations

Not a ring (`8 + 1 = 8`): the exact theorem `length = #orth + √2 #diag` fails in it, the order theorems
hold — the hypotheses of `FloatLike` do not smuggle exactness in. -/

/-- the naturals `0 .. 8`, every result capped at 8 -/
def Sat := Fin 9

namespace Sat
def mk (n : Nat) : Sat := ⟨min n 8, by omega⟩
instance : LinearOrder Sat := inferInstanceAs (LinearOrder (Fin 9))
instance : Add Sat := ⟨fun a b => mk (a.val + b.val)⟩
instance : Mul Sat := ⟨fun a b => mk (a.val * b.val)⟩
instance : OfNat Sat 0 := ⟨mk 0⟩
instance : OfNat Sat 1 := ⟨mk 1⟩
instance : IntCast Sat := ⟨fun z => mk z.natAbs⟩
/-- `sqrt 0 = 0`, `sqrt 1 = 1`, everything else rounds to 2 -/
instance : Transc Sat where
  exp := id
  log := id
  sqrt := fun x => mk (if x.val ≤ 1 then x.val else 2)
  sinh := id
  cosh := id
  tanh := id
  asinh := id
  pow := fun x _ => x

theorem le_iff (a b : Sat) : a ≤ b ↔ a.val ≤ b.val := Fin.le_def
theorem add_val (a b : Sat) : (a + b).val = min (a.val + b.val) 8 := rfl
theorem zero_val : (0 : Sat).val = 0 := rfl
theorem one_val : (1 : Sat).val = 1 := rfl
end Sat

theorem floatLike_sat : FloatLike Sat where
  add_mono := by
    intro a b c d h1 h2
    rw [Sat.le_iff] at h1 h2 ⊢
    rw [Sat.add_val, Sat.add_val]; omega
  add_zero := by
    intro a
    apply Fin.ext
    rw [Sat.add_val, Sat.zero_val]
    have := a.isLt
    omega
  zero_le_one := by decide
  one_le_two := by decide
  sqrt_one := by decide
  one_le_sqrt_two := by decide
  sqrt_two_le_two := by decide
  sqrt_nonneg := fun x _ => by rw [Sat.le_iff]; exact Nat.zero_le _
  sumsq_nonneg := fun a b => by rw [Sat.le_iff]; exact Nat.zero_le _

/-- in the toy arithmetic 12 orthogonal steps have length 8 (the count `0+1+…+1` saturates): the exact
statement over a ring is false there, `pathLength_orthogonal` (length = count in the same arithmetic) holds -/
example : (pathLength (List.replicate 12 false) : Sat) = countBy 1 12 ∧
    (pathLength (List.replicate 12 false) : Sat) = Sat.mk 8 := by decide

end HydroVerif.C06
