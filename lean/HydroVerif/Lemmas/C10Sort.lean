/-
C10 — the stable merge sort used by the model driver (`List.mergeSort` with the tolerant comparator of
c_dscore.c) meets the sort hypothesis of the property theorems on every tied-or-separated input.
-/
import HydroVerif.Lemmas.C10Rank
import Mathlib.Data.List.Sort

set_option linter.unusedSectionVars false
set_option linter.unusedVariables false

namespace HydroVerif.C10

variable {α : Type} [Field α] [LinearOrder α] [IsStrictOrderedRing α]

/-- the exact order on the values of tagged entries -/
def leExact (a b : α × ℕ) : Bool := decide (a.1 ≤ b.1)

theorem leTol_eq_leExact (ceps : α) (hc : 0 ≤ ceps) (a b : α × ℕ)
    (h : a.1 = b.1 ∨ ceps < |a.1 - b.1|) : leTol ceps a b = leExact a b := by
  unfold leTol leExact cmpTol
  simp only
  rcases h with he | hgt
  · rw [he, sub_self]
    have h1 : ¬ (0 : α) < -ceps := by linarith
    have h2 : ¬ ceps < 0 := not_lt.mpr hc
    simp [h1, h2]
  · rcases lt_or_ge (a.1 - b.1) 0 with hneg | hpos
    · rw [abs_of_neg hneg] at hgt
      have h1 : a.1 - b.1 < -ceps := by linarith
      have h2 : a.1 ≤ b.1 := by linarith
      simp [h1, h2]
    · rw [abs_of_nonneg hpos] at hgt
      have h1 : ¬ a.1 - b.1 < -ceps := by linarith
      have h2 : ¬ a.1 ≤ b.1 := by
        intro hle
        have : a.1 - b.1 ≤ 0 := by linarith
        linarith
      simp [h1, hgt, h2]

theorem zipIdx_pairwise_snd {β : Type} (l : List β) (k : ℕ) : (l.zipIdx k).Pairwise fun x y => x.2 < y.2 := by
  induction l generalizing k with
  | nil => simp
  | cons a l ih =>
    rw [List.zipIdx_cons, List.pairwise_cons]
    refine ⟨?_, ih (k + 1)⟩
    intro y hy
    have := List.le_snd_of_mem_zipIdx hy
    simp only
    omega

/-- `List.mergeSort` driven by the tolerant comparator is a stable sort of the pooled array
whenever the pooled values are pairwise tied or separated by more than the comparator's tolerance -/
theorem mergeSort_stableSortedBy (ceps : α) (hc : 0 ≤ ceps) (L : List α)
    (hsep : ∀ a ∈ L, ∀ b ∈ L, a = b ∨ ceps < |a - b|) :
    StableSortedBy (cmpTol ceps) L.zipIdx (L.zipIdx.mergeSort (leTol ceps)) := by
  set pool := L.zipIdx with hpool
  have hval : ∀ x ∈ pool, x.1 ∈ L := fun x hx => List.fst_mem_of_mem_zipIdx hx
  -- the tolerant comparator and the exact order sort this array alike
  have hsame : pool.mergeSort (leTol ceps) = pool.mergeSort leExact := by
    have := List.map_mergeSort (r := leTol ceps) (s := leExact) (f := id) (l := pool)
      (fun a ha b hb => leTol_eq_leExact ceps hc a b (hsep a.1 (hval a ha) b.1 (hval b hb)))
    simpa using this
  have htrans : ∀ a b c : α × ℕ, leExact a b = true → leExact b c = true → leExact a c = true := by
    intro a b c hab hbc
    simp only [leExact, decide_eq_true_eq] at *
    exact le_trans hab hbc
  have htotal : ∀ a b : α × ℕ, (leExact a b || leExact b a) = true := by
    intro a b
    simp only [leExact, Bool.or_eq_true, decide_eq_true_eq]
    exact le_total a.1 b.1
  set out := pool.mergeSort leExact with hout
  have hperm : out.Perm pool := List.mergeSort_perm pool leExact
  have hsorted : out.Pairwise fun a b => leExact a b = true := List.pairwise_mergeSort htrans htotal pool
  refine ⟨by rw [hsame]; exact hperm, ?_⟩
  rw [hsame, List.pairwise_iff_forall_sublist]
  intro x y hxy
  have hle : x.1 ≤ y.1 := by
    have := (List.pairwise_iff_forall_sublist.mp hsorted) hxy
    simpa [leExact] using this
  have hx : x ∈ pool := hperm.mem_iff.mp (hxy.subset (by simp))
  have hy : y ∈ pool := hperm.mem_iff.mp (hxy.subset (by simp))
  rcases hle.lt_or_eq with hlt | heq
  · left
    have hgt : ceps < |x.1 - y.1| := (hsep x.1 (hval x hx) y.1 (hval y hy)).resolve_left hlt.ne
    rw [abs_of_neg (by linarith)] at hgt
    unfold cmpTol
    simp only
    rw [if_pos (by linarith)]
  · right
    constructor
    · unfold cmpTol
      simp only
      rw [heq, sub_self, if_neg (by linarith), if_neg (not_lt.mpr hc)]
    · -- entries with this value keep the order they have in the pooled array
      let p : α × ℕ → Bool := fun z => decide (z.1 = x.1)
      have hg : (pool.filter p).Pairwise fun a b => leExact a b = true := by
        rw [List.pairwise_iff_forall_sublist]
        intro a b hab
        have ha : a ∈ pool.filter p := hab.subset (by simp)
        have hb : b ∈ pool.filter p := hab.subset (by simp)
        simp only [p, List.mem_filter, decide_eq_true_eq] at ha hb
        simp only [leExact, decide_eq_true_eq]
        rw [ha.2, hb.2]
      have hsub : (pool.filter p).Sublist out := List.sublist_mergeSort htrans htotal hg List.filter_sublist
      have hsub' : (pool.filter p).Sublist (out.filter p) := by
        have := hsub.filter p
        simpa [List.filter_filter] using this
      have heqf : pool.filter p = out.filter p :=
        hsub'.eq_of_length (hperm.filter p).length_eq.symm
      have hxy' : [x, y].Sublist (out.filter p) := by
        have := hxy.filter p
        simpa [p, heq] using this
      rw [← heqf] at hxy'
      have hidx : (pool.filter p).Pairwise fun a b => a.2 < b.2 :=
        (zipIdx_pairwise_snd L 0).filter p
      exact (List.pairwise_iff_forall_sublist.mp hidx) hxy'

end HydroVerif.C10
