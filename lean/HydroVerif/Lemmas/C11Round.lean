/-
C11 — the kernel in ROUNDED arithmetic (`Rounded α rnd`: every addition is followed by `rnd`).

Three facts about the left-to-right fold the kernel performs (`accumulate_eq_fold`), each true of IEEE doubles:
* integer-valued contributions whose absolute values sum to at most `B` are accumulated EXACTLY by any rounding that
  is the identity on the integers of absolute value `≤ B` (doubles: `B = 2^53`);
* a rounding with relative error `u` (`|rnd x - x| ≤ u |x|`; doubles: `u = 2^-53`) leaves the fold within
  `((1+u)^k - 1) * Σ|f|` of the exact sum after `k` additions — the classical bound of recursive summation;
* a monotone, idempotent rounding that keeps the contributions keeps the fold of non-negative contributions above
  every single contribution (no cancellation, no loss below a summand).
-/
import HydroVerif.Lemmas.C11Sum
import Mathlib.Algebra.Order.Field.Basic
import Mathlib.Algebra.Order.BigOperators.Group.Finset
import Mathlib.Algebra.Order.Ring.Abs
import Mathlib.Tactic.Linarith
import Mathlib.Tactic.Ring
import Mathlib.Algebra.Order.Field.Rat
import Mathlib.Data.Rat.Floor
import Mathlib.Algebra.Order.Field.Power
import Mathlib.Tactic.FieldSimp
import Mathlib.Tactic.NormNum

namespace HydroVerif.C11

/-! ### buffers of rounded values -/

theorem rep_rounded {α : Type} (rnd : α → α) (a : Array α) (d : α) :
    Rep a.size (a.map fun x => (⟨x⟩ : Rounded α rnd)) (fun j => ⟨a[j]?.getD d⟩) := by
  refine ⟨by simp, fun j hj => ?_⟩
  simp [hj]

theorem rep_rounded_int {α : Type} [IntCast α] (rnd : α → α) (a : Array Int) :
    Rep a.size (a.map fun (z : Int) => (⟨(z : α)⟩ : Rounded α rnd)) (fun j => ⟨((a[j]?.getD 0 : Int) : α)⟩) := by
  refine ⟨by simp, fun j hj => ?_⟩
  simp [hj]

/-! ### exact accumulation of integers -/

theorem le_foldl_natAbs (p : Nat → Bool) (N : Nat → Int) (l : List Nat) (b : Nat) :
    b ≤ l.foldl (fun s (i : Nat) => if p i then s + (N i).natAbs else s) b := by
  induction l generalizing b with
  | nil => exact Nat.le_refl _
  | cons i rest ih =>
    simp only [List.foldl_cons]
    split
    · exact Nat.le_trans (Nat.le_add_right _ _) (ih _)
    · exact ih _

/-- the rounded fold of integer contributions is the cast of the integer fold, as long as the absolute values met
so far stay within the range on which `rnd` is exact -/
theorem foldl_rounded_int {α : Type} [AddGroupWithOne α] (rnd : α → α) (B : Nat)
    (hrnd : ∀ z : Int, z.natAbs ≤ B → rnd (z : α) = (z : α)) (p : Nat → Bool) (N : Nat → Int)
    (l : List Nat) (a : Int) (b : Nat) (hab : a.natAbs ≤ b)
    (hB : l.foldl (fun s (i : Nat) => if p i then s + (N i).natAbs else s) b ≤ B) :
    l.foldl (fun (s : Rounded α rnd) (i : Nat) => if p i then s + ⟨(N i : α)⟩ else s) ⟨(a : α)⟩ =
      ⟨((l.foldl (fun s (i : Nat) => if p i then s + N i else s) a : Int) : α)⟩ := by
  induction l generalizing a b with
  | nil => rfl
  | cons i rest ih =>
    simp only [List.foldl_cons] at hB ⊢
    by_cases hp : p i = true
    · simp only [hp, if_true] at hB ⊢
      have h1 : (a + N i).natAbs ≤ b + (N i).natAbs :=
        Nat.le_trans (Int.natAbs_add_le _ _) (Nat.add_le_add_right hab _)
      have h2 : (a + N i).natAbs ≤ B := Nat.le_trans h1 (Nat.le_trans (le_foldl_natAbs p N rest _) hB)
      have h3 : ((⟨(a : α)⟩ : Rounded α rnd) + ⟨(N i : α)⟩) = ⟨((a + N i : Int) : α)⟩ := by
        show (⟨rnd ((a : α) + (N i : α))⟩ : Rounded α rnd) = _
        rw [← Int.cast_add, hrnd _ h2]
      rw [h3]
      exact ih (a + N i) (b + (N i).natAbs) h1 hB
    · simp only [hp] at hB ⊢
      exact ih a b hab hB

/-! ### relative-error rounding: the bound of recursive summation -/

section Err
variable {α : Type} [Field α] [LinearOrder α] [IsStrictOrderedRing α]

/-- one more rounded addition: the error bound `((1+u)^k - 1) * b` becomes `((1+u)^(k+1) - 1) * (b + |f|)` -/
theorem rounded_step (rnd : α → α) {u : α} (hu : 0 ≤ u) (hrnd : ∀ x, |rnd x - x| ≤ u * |x|)
    {a a' b f : α} {k : Nat} (he : |a - a'| ≤ ((1 + u) ^ k - 1) * b) (ha' : |a'| ≤ b) :
    |rnd (a + f) - (a' + f)| ≤ ((1 + u) ^ (k + 1) - 1) * (b + |f|) ∧ |a' + f| ≤ b + |f| := by
  have hb0 : 0 ≤ b := le_trans (abs_nonneg _) ha'
  have hf0 : 0 ≤ |f| := abs_nonneg _
  have hq : 1 ≤ (1 + u) ^ k := one_le_pow₀ (by linarith)
  have hs : |a' + f| ≤ b + |f| := le_trans (abs_add_le _ _) (by linarith)
  refine ⟨?_, hs⟩
  set E := (1 + u) ^ k - 1 with hE
  have hE0 : 0 ≤ E := by linarith
  have h1 := hrnd (a + f)
  have h2 : |rnd (a + f) - (a' + f)| ≤ |rnd (a + f) - (a + f)| + |a - a'| := by
    have := abs_sub_le (rnd (a + f)) (a + f) (a' + f)
    have e : a + f - (a' + f) = a - a' := by ring
    rwa [e] at this
  have h3 : |a + f| ≤ (b + |f|) + E * b := by
    have : a + f = (a' + f) + (a - a') := by ring
    rw [this]
    exact le_trans (abs_add_le _ _) (by linarith)
  have h4 : u * |a + f| ≤ u * ((b + |f|) + E * b) := mul_le_mul_of_nonneg_left h3 hu
  have h5 : E * b ≤ E * (b + |f|) := mul_le_mul_of_nonneg_left (by linarith) hE0
  have h6 : u * (E * b) ≤ u * (E * (b + |f|)) := mul_le_mul_of_nonneg_left h5 hu
  have h7 : (1 + u) ^ (k + 1) - 1 = E + u + u * E := by rw [pow_succ, hE]; ring
  rw [h7]
  calc |rnd (a + f) - (a' + f)| ≤ u * |a + f| + E * b := by linarith
    _ ≤ u * ((b + |f|) + E * b) + E * b := by linarith
    _ = u * (b + |f|) + u * (E * b) + E * b := by ring
    _ ≤ u * (b + |f|) + u * (E * (b + |f|)) + E * (b + |f|) := by linarith
    _ = (E + u + u * E) * (b + |f|) := by ring

/-- the rounded fold against the exact fold: `k` counts the additions, `b` the absolute mass -/
theorem foldl_rounded_err (rnd : α → α) {u : α} (hu : 0 ≤ u) (hrnd : ∀ x, |rnd x - x| ≤ u * |x|)
    (p : Nat → Bool) (f : Nat → α) (l : List Nat) (a a' b : α) (k : Nat)
    (he : |a - a'| ≤ ((1 + u) ^ k - 1) * b) (ha' : |a'| ≤ b) :
    |(l.foldl (fun (s : Rounded α rnd) (i : Nat) => if p i then s + ⟨f i⟩ else s) ⟨a⟩).val -
        l.foldl (fun s (i : Nat) => if p i then s + f i else s) a'| ≤
      ((1 + u) ^ (l.foldl (fun (n : Nat) (i : Nat) => if p i then n + 1 else n) k) - 1) *
        l.foldl (fun s (i : Nat) => if p i then s + |f i| else s) b := by
  induction l generalizing a a' b k with
  | nil => exact he
  | cons i rest ih =>
    simp only [List.foldl_cons]
    by_cases hp : p i = true
    · simp only [hp, if_true]
      obtain ⟨h1, h2⟩ := rounded_step rnd hu hrnd (f := f i) he ha'
      exact ih (rnd (a + f i)) (a' + f i) (b + |f i|) (k + 1) h1 h2
    · simp only [hp]
      exact ih a a' b k he ha'

end Err

/-! ### monotone rounding: non-negative contributions never pull the fold below a contribution -/

section Mono
variable {α : Type} [AddCommMonoid α] [PartialOrder α] [IsOrderedAddMonoid α]

/-- invariant of the rounded fold of non-negative representable contributions: the running value is representable
(`rnd s = s`), is at least the value it started from and at least every contribution added -/
theorem foldl_rounded_mono (rnd : α → α) (hmono : ∀ x y, x ≤ y → rnd x ≤ rnd y) (hidem : ∀ x, rnd (rnd x) = rnd x)
    (p : Nat → Bool) (f : Nat → α) (hf0 : ∀ i, 0 ≤ f i) (hfr : ∀ i, rnd (f i) = f i)
    (l : List Nat) (a : α) (ha : rnd a = a) (ha0 : 0 ≤ a) :
    let r := (l.foldl (fun (s : Rounded α rnd) (i : Nat) => if p i then s + ⟨f i⟩ else s) ⟨a⟩).val
    rnd r = r ∧ a ≤ r ∧ ∀ i ∈ l, p i = true → f i ≤ r := by
  induction l generalizing a with
  | nil => exact ⟨ha, le_refl _, fun i hi => by simp at hi⟩
  | cons i rest ih =>
    simp only [List.foldl_cons]
    by_cases hp : p i = true
    · simp only [hp, if_true]
      have hstep : ((⟨a⟩ : Rounded α rnd) + ⟨f i⟩) = ⟨rnd (a + f i)⟩ := rfl
      rw [hstep]
      have h1 : a ≤ rnd (a + f i) := by
        have := hmono a (a + f i) (le_add_of_nonneg_right (hf0 i))
        rwa [ha] at this
      have h2 : f i ≤ rnd (a + f i) := by
        have := hmono (f i) (a + f i) (le_add_of_nonneg_left ha0)
        rwa [hfr] at this
      obtain ⟨r1, r2, r3⟩ := ih (rnd (a + f i)) (hidem _) (le_trans ha0 h1)
      refine ⟨r1, le_trans h1 r2, fun j hj hpj => ?_⟩
      rcases List.mem_cons.1 hj with h | h
      · subst h; exact le_trans h2 r2
      · exact r3 j h hpj
    · simp only [hp]
      obtain ⟨r1, r2, r3⟩ := ih a ha ha0
      refine ⟨r1, r2, fun j hj hpj => ?_⟩
      rcases List.mem_cons.1 hj with h | h
      · subst h; exact absurd hpj hp
      · exact r3 j h hpj

end Mono

/-! ### `rndBits p`: relative error `2^-p`, exact on the integers up to `2^p` -/

theorem pow2_eq (k : Int) : pow2 k = (2 : ℚ) ^ k := by
  unfold pow2
  split
  · rename_i h
    have : k = ((k.toNat : Nat) : Int) := by omega
    conv_rhs => rw [this]
    rw [zpow_natCast]
    push_cast
    rfl
  · rename_i h
    have : k = -(((-k).toNat : Nat) : Int) := by omega
    conv_rhs => rw [this]
    rw [zpow_neg, zpow_natCast]
    push_cast
    rw [one_div]

theorem pow2_pos (k : Int) : 0 < pow2 k := by rw [pow2_eq]; positivity

theorem absR_eq (x : ℚ) : absR x = |x| := by
  unfold absR
  split
  · rename_i h; rw [abs_of_neg h]
  · rename_i h; rw [abs_of_nonneg (not_lt.1 h)]

theorem expOf?_le {x : ℚ} {k : Int} (h : expOf? x = some k) : pow2 k ≤ |x| := by
  unfold expOf? at h
  simp only [] at h
  split at h
  · rename_i h1; cases h; rw [← absR_eq]; exact h1
  · split at h
    · rename_i h1; cases h; rw [← absR_eq]; exact h1
    · cases h

theorem roundHalfEven_err (y : ℚ) : |((roundHalfEven y : Int) : ℚ) - y| ≤ 1 / 2 := by
  unfold roundHalfEven
  have hf : (y + 1 / 2).floor = ⌊y + 1 / 2⌋ := rfl
  have h1 : ((⌊y + 1 / 2⌋ : Int) : ℚ) ≤ y + 1 / 2 := Int.floor_le _
  have h2 : y + 1 / 2 < ((⌊y + 1 / 2⌋ : Int) : ℚ) + 1 := Int.lt_floor_add_one _
  simp only [hf]
  split
  · rename_i h
    push_cast
    rw [abs_le]
    constructor <;> linarith [h.1]
  · rw [abs_le]
    constructor <;> linarith

/-- rounding to `p` significant bits has relative error at most `2^-p` -/
theorem rndBits_err (p : Nat) (x : ℚ) : |rndBits p x - x| ≤ (2 : ℚ) ^ (-(p : Int)) * |x| := by
  have hpos : (0 : ℚ) < (2 : ℚ) ^ (-(p : Int)) := by positivity
  unfold rndBits
  split
  · rename_i h; subst h; simp
  · cases hk : expOf? x with
    | none =>
      simp only [sub_self, abs_zero]
      exact mul_nonneg hpos.le (abs_nonneg _)
    | some k =>
      simp only []
      have hs := pow2_pos (k - (p : Int) + 1)
      have hle := expOf?_le hk
      set s := pow2 (k - (p : Int) + 1) with hsdef
      have hm := roundHalfEven_err (x / s)
      have e1 : ((roundHalfEven (x / s) : Int) : ℚ) * s - x = (((roundHalfEven (x / s) : Int) : ℚ) - x / s) * s := by
        field_simp
      rw [e1, abs_mul, abs_of_pos hs]
      have e2 : s = 2 * (pow2 k * (2 : ℚ) ^ (-(p : Int))) := by
        rw [hsdef, pow2_eq, pow2_eq, show k - (p : Int) + 1 = 1 + (k + -(p : Int)) by ring,
          zpow_add₀ (by norm_num), zpow_add₀ (by norm_num), zpow_one]
      calc |((roundHalfEven (x / s) : Int) : ℚ) - x / s| * s ≤ 1 / 2 * s :=
            mul_le_mul_of_nonneg_right hm hs.le
        _ = pow2 k * (2 : ℚ) ^ (-(p : Int)) := by rw [e2]; ring
        _ ≤ |x| * (2 : ℚ) ^ (-(p : Int)) := mul_le_mul_of_nonneg_right hle hpos.le
        _ = (2 : ℚ) ^ (-(p : Int)) * |x| := by ring


theorem roundHalfEven_int (n : Int) : roundHalfEven (n : ℚ) = n := by
  unfold roundHalfEven
  have hf : ((n : ℚ) + 1 / 2).floor = n := by
    show ⌊(n : ℚ) + 1 / 2⌋ = n
    rw [Int.floor_eq_iff]
    constructor <;> linarith
  simp only [hf]
  rw [if_neg]
  rintro ⟨h, -⟩
  linarith

/-- rounding to `p ≥ 1` significant bits keeps the integers of absolute value up to `2^p` -/
theorem rndBits_int {p : Nat} (hp : 1 ≤ p) (z : Int) (hz : z.natAbs ≤ 2 ^ p) : rndBits p (z : ℚ) = (z : ℚ) := by
  unfold rndBits
  split
  · rename_i h; rw [h]
  · rename_i hz0
    cases hk : expOf? (z : ℚ) with
    | none => rfl
    | some k =>
      simp only []
      have hle := expOf?_le hk
      rw [pow2_eq] at hle
      have habs : |(z : ℚ)| ≤ (2 : ℚ) ^ (p : Int) := by
        rw [← Int.cast_abs, Int.abs_eq_natAbs, zpow_natCast]
        exact_mod_cast hz
      have hkp : k ≤ (p : Int) := by
        have := le_trans hle habs
        exact (zpow_le_zpow_iff_right₀ (by norm_num : (1 : ℚ) < 2)).1 this
      have hs := pow2_pos (k - (p : Int) + 1)
      -- the quotient by the quantum is an integer
      have key : ∃ n : Int, (z : ℚ) / pow2 (k - (p : Int) + 1) = (n : ℚ) := by
        rcases lt_or_eq_of_le hkp with hlt | heq
        · refine ⟨z * 2 ^ ((p : Int) - 1 - k).toNat, ?_⟩
          have hj : (p : Int) - 1 - k = (((p : Int) - 1 - k).toNat : Int) := by omega
          rw [pow2_eq, show k - (p : Int) + 1 = -((p : Int) - 1 - k) by ring, zpow_neg, div_inv_eq_mul]
          conv_lhs => rw [hj]
          rw [zpow_natCast]
          push_cast
          rfl
        · -- k = p: |z| = 2^p, the quantum is 2 and z is even
          subst heq
          have h2 : |(z : ℚ)| = (2 : ℚ) ^ (p : Int) := le_antisymm habs hle
          have hnat : z.natAbs = 2 ^ p := by
            rw [← Int.cast_abs, Int.abs_eq_natAbs, zpow_natCast] at h2
            exact_mod_cast h2
          have hdvd : (2 : Int) ∣ z := by
            rw [← Int.natAbs_dvd_natAbs]
            show 2 ∣ z.natAbs
            rw [hnat]
            exact dvd_pow_self 2 (by omega)
          obtain ⟨n, hn⟩ := hdvd
          refine ⟨n, ?_⟩
          rw [pow2_eq, show (p : Int) - (p : Int) + 1 = 1 by ring, zpow_one, hn]
          push_cast
          field_simp
      obtain ⟨n, hn⟩ := key
      rw [hn, roundHalfEven_int, ← hn]
      field_simp


end HydroVerif.C11
