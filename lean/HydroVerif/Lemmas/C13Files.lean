/-
Helper lemmas for the file-name layer of `Props/C13.lean` (`save(filename)` / `from_header(path)`).
-/
import HydroVerif.Lemmas.C13Header

namespace HydroVerif.C13

theorem lookup_dictSet_self {β : Type} (d : List (Str × β)) (k : Str) (v : β) : lookup (dictSet d k v) k = some v := by
  unfold dictSet lookup
  split
  · rename_i h
    induction d with
    | nil => simp at h
    | cons e d ih =>
      simp only [List.map_cons, List.find?_cons]
      by_cases he : (e.1 == k) = true
      · simp [he]
      · have he' : (e.1 == k) = false := by simpa using he
        simp only [he', Bool.false_eq_true, if_false]
        have : d.any (fun x => x.1 == k) = true := by
          simp only [List.any_cons, he', Bool.false_or] at h
          exact h
        exact ih this
  · rename_i h
    have hnone : d.find? (fun x => x.1 == k) = none := by
      rw [List.find?_eq_none]
      intro x hx hxk
      exact h (List.any_eq_true.mpr ⟨x, hx, hxk⟩)
    simp [List.find?_append, hnone]

theorem lookup_dictSet_other {β : Type} (d : List (Str × β)) (k k' : Str) (v : β) (hne : k' ≠ k) :
    lookup (dictSet d k v) k' = lookup d k' := by
  unfold dictSet lookup
  have hkk : (k == k') = false := by
    simp only [beq_eq_false_iff_ne, ne_eq]
    exact fun h => hne h.symm
  split
  · congr 1
    clear * - hkk
    induction d with
    | nil => rfl
    | cons e d ih =>
      simp only [List.map_cons, List.find?_cons]
      by_cases he : (e.1 == k) = true
      · have hek : e.1 = k := by simpa using he
        have : (e.1 == k') = false := by rw [hek]; exact hkk
        simp only [he, if_true, hkk, this]
        exact ih
      · have he' : (e.1 == k) = false := by simpa using he
        simp only [he', Bool.false_eq_true, if_false]
        cases hk' : (e.1 == k')
        · exact ih
        · rfl
  · simp only [List.find?_append]
    cases d.find? (fun x => x.1 == k') with
    | some x => rfl
    | none => simp [hkk]

theorem pathJoin_ne (dir a b : Str) (h : a ≠ b) : pathJoin dir a ≠ pathJoin dir b := by
  unfold pathJoin
  intro he
  have := List.append_cancel_left he
  simp at this
  exact h this

theorem endsWith_bil (stem : Str) : endsWith (stem ++ ".bil".toList) "bil".toList = true := by
  unfold endsWith
  simp [startsWith]

theorem take_bil (stem : Str) :
    (stem ++ ".bil".toList).take ((stem ++ ".bil".toList).length - 3) ++ "hdr".toList = stem ++ ".hdr".toList := by
  have h1 : (stem ++ ".bil".toList).length - 3 = stem.length + 1 := by simp
  rw [h1]
  have h2 : stem ++ ".bil".toList = (stem ++ ['.']) ++ "bil".toList := by simp
  rw [h2, List.take_left' (by simp)]
  simp

/-- `Path(stem + ".ext").stem` is `stem` for a non-empty `stem` and a dot-free non-empty extension -/
theorem stemOf_ext (stem ext : Str) (hs : stem ≠ []) (he : ext ≠ []) (hd : ∀ c ∈ ext, c ≠ '.') :
    stemOf (stem ++ '.' :: ext) = stem := by
  unfold stemOf
  have hr : (stem ++ '.' :: ext).reverse = ext.reverse ++ '.' :: stem.reverse := by simp
  rw [hr]
  have hall : ∀ c ∈ ext.reverse, (c != '.') = true := by
    intro c hc
    simpa using hd c (List.mem_reverse.mp hc)
  have h1 : (ext.reverse ++ '.' :: stem.reverse).takeWhile (fun c => c != '.') = ext.reverse := by
    rw [List.takeWhile_append_of_pos hall]
    simp
  have h2 : (ext.reverse ++ '.' :: stem.reverse).dropWhile (fun c => c != '.') = '.' :: stem.reverse := by
    rw [List.dropWhile_append_of_pos hall]
    simp
  simp only [h1, h2]
  rw [if_pos ⟨by simpa using hs, by simpa using he⟩]
  simp

theorem stemOf_bil (stem : Str) (hs : stem ≠ []) : stemOf (stem ++ ".bil".toList) = stem :=
  stemOf_ext stem "bil".toList hs (by decide) (by decide)

theorem stemOf_hdr (stem : Str) (hs : stem ≠ []) : stemOf (stem ++ ".hdr".toList) = stem :=
  stemOf_ext stem "hdr".toList hs (by decide) (by decide)

/-- `os.path.splitext(stem + ".ext")[0]` is `stem` as soon as `stem` holds a character that is not a dot -/
theorem splitextRoot_ext (stem ext : Str) (hs : stem.all (fun c => c == '.') = false) (hd : ∀ c ∈ ext, c ≠ '.') :
    splitextRoot (stem ++ '.' :: ext) = stem := by
  unfold splitextRoot
  have hr : (stem ++ '.' :: ext).reverse = ext.reverse ++ '.' :: stem.reverse := by simp
  rw [hr]
  have hall : ∀ c ∈ ext.reverse, (c != '.') = true := by
    intro c hc
    simpa using hd c (List.mem_reverse.mp hc)
  have h2 : (ext.reverse ++ '.' :: stem.reverse).dropWhile (fun c => c != '.') = '.' :: stem.reverse := by
    rw [List.dropWhile_append_of_pos hall]
    simp
  simp only [h2]
  have : stem.reverse.all (fun c => c == '.') = false := by
    rw [List.all_reverse]; exact hs
  simp [this]

theorem splitextRoot_bil (stem : Str) (hs : stem.all (fun c => c == '.') = false) :
    splitextRoot (stem ++ ".bil".toList) = stem :=
  splitextRoot_ext stem "bil".toList hs (by decide)

theorem splitextRoot_hdr (stem : Str) (hs : stem.all (fun c => c == '.') = false) :
    splitextRoot (stem ++ ".hdr".toList) = stem :=
  splitextRoot_ext stem "hdr".toList hs (by decide)

end HydroVerif.C13
