/-
C08 — rounding.  Core `Float` is opaque, so statements "true of IEEE doubles" are made over an abstract carrier:

* any carrier whose addition satisfies `x + 0 = x` (no other law): the kernels compute exactly the left-to-right
  specification `red` / `cell` of `Model/C08Spec.lean` — this is the `Float`-evaluated specification the driver runs;
* `Fl R`: the representable numbers of a rounding operator `R.rnd` on an ordered field (monotone, idempotent,
  `rnd 0 = 0`), with `a + b := rnd (a + b)`, `a / b := rnd (a / b)`, `(n : Fl R) := rnd n` — round-to-nearest (and any
  directed rounding) of IEEE arithmetic is such an operator as long as nothing overflows.  Over `Fl R`:
  sign, domination, monotonicity and exactness of the rounded sum, and — when `rnd` has relative error `u` — the
  classical bound `|fl(Σx) − Σx| ≤ ((1+u)^n − 1) Σ|x|`, which is at most `n·2u·Σ|x|` (the correspondence budget
  `n·2^-52·Σ|x|` for `u = 2^-53`).
-/
import HydroVerif.Lemmas.C08
import Mathlib.Algebra.Order.Ring.Abs
import Mathlib.Tactic.Positivity
import Mathlib.Data.Rat.Floor

namespace HydroVerif.C08

/-! ### any carrier with `x + 0 = x`: kernel = specification, every operator -/
section addzero
set_option linter.unusedSectionVars false
variable {β : Type} [Add β] [Div β] [LT β] [DecidableLT β] [OfNat β 0] [NatCast β]

theorem sumL_concat (v : List β) (a : β) : sumL (v ++ [a]) = sumL v + a := by
  simp [sumL, List.foldl_append]

theorem accOf_sumL (h0 : ∀ x : β, x + 0 = x) (op : Int) (hop : op ≤ 1) (g : List (Option β)) :
    (accOf op g).agg = sumL (vals g) := by
  induction g using List.reverseRecOn with
  | nil => simp [accOf, Acc.init, vals, sumL]
  | append_singleton g x ih =>
    rw [accOf_concat, vals_concat]
    cases x with
    | none => simp [accStep, hop, ih, h0]
    | some v => simp [accStep, hop, ih, sumL_concat]

theorem maxOf_concat (v : List β) (hv : v ≠ []) (a : β) :
    maxOf (v ++ [a]) = if maxOf v < a then a else maxOf v := by
  cases v with
  | nil => exact absurd rfl hv
  | cons b t => (simp only [maxOf, List.cons_append, List.foldl_append, List.foldl_cons, List.foldl_nil]; try rfl)

/-- the running maximum needs no law at all -/
theorem accOf_maxOf (g : List (Option β)) : (accOf 2 g).agg = maxOf (vals g) := by
  induction g using List.reverseRecOn with
  | nil => simp [accOf, Acc.init, vals, maxOf]
  | append_singleton g x ih =>
    rw [accOf_concat, vals_concat]
    cases x with
    | none => simpa [accStep] using ih
    | some v =>
      have hn := accOf_nagg 2 g
      by_cases hv : vals g = []
      · simp [accStep, hn, hv, maxOf]
      · have hlen : (vals g).length ≠ 0 := by simpa using hv
        simp only [accStep, Option.toList_some]
        rw [maxOf_concat _ hv, hn, ← ih]
        norm_num [hlen]

theorem flush_accOf_of_add_zero (h0 : ∀ x : β, x + 0 = x) (op maxnan : Int) (hop0 : 0 ≤ op) (hop3 : op ≤ 3)
    (g : List (Option β)) : flush op maxnan (accOf op g) = reduce op maxnan g := by
  have hcases : op = 0 ∨ op = 1 ∨ op = 2 ∨ op = 3 := by omega
  rcases hcases with rfl | rfl | rfl | rfl
  · simp [flush, reduce, red, accOf_nnan, accOf_sumL h0]
  · by_cases hv : vals g = []
    · simp [flush, reduce, red, accOf_nnan, accOf_nagg, accOf_sumL h0, hv, sumL]
    · have : 0 < (vals g).length := List.length_pos_iff.mpr hv
      simp [flush, reduce, red, accOf_nnan, accOf_nagg, accOf_sumL h0, hv, this]
  · simp [flush, reduce, red, accOf_nnan, accOf_maxOf]
  · simp [flush, reduce, red, accOf_nnan, accOf_last]

/-- max and tail: no law needed -/
theorem flush_accOf_max_tail (op maxnan : Int) (hop : op = 2 ∨ op = 3) (g : List (Option β)) :
    flush op maxnan (accOf op g) = reduce op maxnan g := by
  rcases hop with rfl | rfl
  · simp [flush, reduce, red, accOf_nnan, accOf_maxOf]
  · simp [flush, reduce, red, accOf_nnan, accOf_last]

theorem hcells_eq_of_add_zero (h0 : ∀ x : β, x + 0 = x) (maxnan : Int) (g : List (Option β)) :
    hcells maxnan g = g.map (cell maxnan g) := by
  unfold hcells hflush
  apply List.map_congr_left
  intro x _
  cases x with
  | none => rfl
  | some v =>
    simp only [cell, accOf_nnan, accOf_nagg, accOf_sumL h0 0 (by norm_num)]
    split <;> simp

end addzero

/-! ### the greatest element over any linear order (no arithmetic) -/
section linord
variable {β : Type} [LinearOrder β] [OfNat β 0]

theorem maxOf_mem_and_ge (v : List β) (hv : v ≠ []) : maxOf v ∈ v ∧ ∀ x ∈ v, x ≤ maxOf v := by
  induction v using List.reverseRecOn with
  | nil => exact absurd rfl hv
  | append_singleton v a ih =>
    by_cases hv' : v = []
    · subst hv'; simp [maxOf]
    · obtain ⟨hm, hge⟩ := ih hv'
      have hc : maxOf (v ++ [a]) = if maxOf v < a then a else maxOf v := by
        cases v with
        | nil => exact absurd rfl hv'
        | cons b t => (simp only [maxOf, List.cons_append, List.foldl_append, List.foldl_cons, List.foldl_nil]; try rfl)
      rw [hc]
      split
      · rename_i hlt
        refine ⟨by simp, ?_⟩
        intro x hx
        rcases List.mem_append.mp hx with hx | hx
        · exact le_trans (hge x hx) hlt.le
        · simp at hx; subst hx; exact le_rfl
      · rename_i hnlt
        refine ⟨List.mem_append_left _ hm, ?_⟩
        intro x hx
        rcases List.mem_append.mp hx with hx | hx
        · exact hge x hx
        · simp at hx; subst hx; exact not_lt.mp hnlt

end linord

/-! ### a rounding operator and its representable numbers -/

structure Rounding (α : Type) [Field α] [LinearOrder α] where
  rnd : α → α
  mono : ∀ a b, a ≤ b → rnd a ≤ rnd b
  idem : ∀ a, rnd (rnd a) = rnd a
  zero : rnd 0 = 0

/-- the representable numbers of `R` -/
structure Fl {α : Type} [Field α] [LinearOrder α] (R : Rounding α) where
  val : α
  rep : R.rnd val = val

section fl
set_option linter.unusedSectionVars false
variable {α : Type} [Field α] [LinearOrder α] [IsStrictOrderedRing α] {R : Rounding α}

instance : Add (Fl R) := ⟨fun a b => ⟨R.rnd (a.val + b.val), R.idem _⟩⟩
instance : Div (Fl R) := ⟨fun a b => ⟨R.rnd (a.val / b.val), R.idem _⟩⟩
instance : LT (Fl R) := ⟨fun a b => a.val < b.val⟩
instance : DecidableLT (Fl R) := fun a b => inferInstanceAs (Decidable (a.val < b.val))
instance : OfNat (Fl R) 0 := ⟨⟨0, R.zero⟩⟩
instance : NatCast (Fl R) := ⟨fun n => ⟨R.rnd (n : α), R.idem _⟩⟩

theorem Fl.ext {a b : Fl R} (h : a.val = b.val) : a = b := by
  cases a; cases b; simp_all

@[simp] theorem Fl.add_val (a b : Fl R) : (a + b).val = R.rnd (a.val + b.val) := rfl
@[simp] theorem Fl.div_val (a b : Fl R) : (a / b).val = R.rnd (a.val / b.val) := rfl
@[simp] theorem Fl.zero_val : (0 : Fl R).val = 0 := rfl
@[simp] theorem Fl.natCast_val (n : Nat) : ((n : Fl R)).val = R.rnd (n : α) := rfl

theorem Fl.add_zero (x : Fl R) : x + 0 = x := by
  apply Fl.ext
  simp [x.rep]

theorem rnd_nonneg {a : α} (h : 0 ≤ a) : 0 ≤ R.rnd a := by
  have := R.mono 0 a h
  rwa [R.zero] at this

theorem foldl_add_mono :
    ∀ (v w : List (Fl R)), List.Forall₂ (fun a b => a.val ≤ b.val) v w → ∀ (a b : Fl R), a.val ≤ b.val →
      (v.foldl (· + ·) a).val ≤ (w.foldl (· + ·) b).val
  | _, _, .nil, a, b, h => h
  | _, _, .cons hxy hrest, a, b, h => by
    simp only [List.foldl_cons]
    apply foldl_add_mono _ _ hrest
    simp only [Fl.add_val]
    exact R.mono _ _ (add_le_add h hxy)

/-- the rounded sum is monotone in its terms -/
theorem sumL_mono (v w : List (Fl R)) (h : List.Forall₂ (fun a b => a.val ≤ b.val) v w) :
    (sumL v).val ≤ (sumL w).val :=
  foldl_add_mono v w h 0 0 le_rfl

/-- the rounded sum of non-negative terms is non-negative and at least every term -/
theorem sumL_nonneg_dominates (v : List (Fl R)) (hv : ∀ x ∈ v, 0 ≤ x.val) :
    0 ≤ (sumL v).val ∧ ∀ x ∈ v, x.val ≤ (sumL v).val := by
  induction v using List.reverseRecOn with
  | nil => simp [sumL]
  | append_singleton v a ih =>
    obtain ⟨h0, hd⟩ := ih (fun x hx => hv x (List.mem_append_left _ hx))
    have ha : 0 ≤ a.val := hv a (by simp)
    rw [sumL_concat, Fl.add_val]
    have hs : (sumL v).val ≤ R.rnd ((sumL v).val + a.val) := by
      have := R.mono _ _ (le_add_of_nonneg_right ha : (sumL v).val ≤ (sumL v).val + a.val)
      rwa [(sumL v).rep] at this
    have hA : a.val ≤ R.rnd ((sumL v).val + a.val) := by
      have := R.mono _ _ (le_add_of_nonneg_left h0 : a.val ≤ (sumL v).val + a.val)
      rwa [a.rep] at this
    refine ⟨le_trans h0 hs, ?_⟩
    intro x hx
    rcases List.mem_append.mp hx with hx | hx
    · exact le_trans (hd x hx) hs
    · simp at hx; subst hx; exact hA

/-- the rounded sum is the exact sum whenever every partial sum is representable (e.g. integers below 2^53) -/
theorem sumL_exact (v : List (Fl R))
    (hrep : ∀ n ≤ v.length, R.rnd (((v.take n).map Fl.val).sum) = ((v.take n).map Fl.val).sum) :
    (sumL v).val = (v.map Fl.val).sum := by
  induction v using List.reverseRecOn with
  | nil => simp [sumL]
  | append_singleton v a ih =>
    have ihv := ih (fun n hn => by
      have := hrep n (by simp; omega)
      rwa [List.take_append_of_le_length hn] at this)
    have hlast := hrep (v ++ [a]).length le_rfl
    rw [List.take_length] at hlast
    rw [sumL_concat, Fl.add_val, ihv]
    simpa using hlast

/-- classical forward error bound of recursive summation under a relative-error rounding -/
theorem sumL_error_bound (u : α) (hu : 0 ≤ u) (herr : ∀ a, |R.rnd a - a| ≤ u * |a|) (v : List (Fl R)) :
    |(sumL v).val - (v.map Fl.val).sum| ≤ ((1 + u) ^ v.length - 1) * (v.map fun x => |x.val|).sum := by
  induction v using List.reverseRecOn with
  | nil => simp [sumL]
  | append_singleton v a ih =>
    rw [sumL_concat, Fl.add_val]
    simp only [List.map_append, List.map_cons, List.map_nil, List.sum_append, List.sum_singleton,
      List.length_append, List.length_singleton]
    set s := (sumL v).val with hs
    set S := (v.map Fl.val).sum with hS
    set A := (v.map fun x => |x.val|).sum with hA
    set E := (1 + u) ^ v.length - 1 with hE
    have hA0 : 0 ≤ A := by
      rw [hA]
      apply List.sum_nonneg
      intro x hx
      obtain ⟨y, _, rfl⟩ := List.mem_map.mp hx
      exact abs_nonneg _
    have hE0 : 0 ≤ E := by
      rw [hE]
      have : (1 : α) ≤ (1 + u) ^ v.length := one_le_pow₀ (by linarith)
      linarith
    have hSA : |S| ≤ A := by
      rw [hS, hA]
      clear ih hs hS hA hE hA0 hE0
      induction v with
      | nil => simp
      | cons x t iht =>
        simp only [List.map_cons, List.sum_cons]
        exact le_trans (abs_add_le _ _) (add_le_add le_rfl iht)
    have h1 := herr (s + a.val)
    -- |rnd(s+a) - (S+a)| ≤ |rnd(s+a) - (s+a)| + |s - S|
    have htri : |R.rnd (s + a.val) - (S + a.val)| ≤ |R.rnd (s + a.val) - (s + a.val)| + |s - S| := by
      have : R.rnd (s + a.val) - (S + a.val) = (R.rnd (s + a.val) - (s + a.val)) + (s - S) := by ring
      rw [this]
      exact abs_add_le _ _
    have hsa : |s + a.val| ≤ (1 + E) * A + |a.val| := by
      have : s + a.val = (s - S) + S + a.val := by ring
      rw [this]
      have h2 := abs_add_le ((s - S) + S) a.val
      have h3 := abs_add_le (s - S) S
      nlinarith
    have hpow : (1 + u) ^ (v.length + 1) - 1 = (1 + u) * E + u := by
      rw [hE, pow_succ]; ring
    rw [hpow]
    have hua : 0 ≤ |a.val| := abs_nonneg _
    nlinarith [mul_nonneg hu hA0, mul_nonneg hu hua, mul_nonneg hE0 hua, mul_nonneg (mul_nonneg hu hE0) hua,
      mul_nonneg (mul_nonneg hu hE0) hA0]

/-- `(1+u)^n − 1 ≤ 2nu` as long as `2nu ≤ 1` -/
theorem pow_one_add_sub_one_le (u : α) (hu : 0 ≤ u) : ∀ (n : Nat), 2 * (n : α) * u ≤ 1 →
    (1 + u) ^ n - 1 ≤ 2 * (n : α) * u
  | 0, _ => by simp
  | n + 1, h => by
    have hn : (0 : α) ≤ (n : α) := Nat.cast_nonneg n
    have h' : 2 * (n : α) * u ≤ 1 := by
      push_cast at h
      nlinarith
    have ih := pow_one_add_sub_one_le u hu n h'
    rw [pow_succ]
    push_cast at h ⊢
    nlinarith [mul_nonneg hn hu, mul_nonneg (mul_nonneg hn hu) hu]

end fl

/-! ### the C cast of a float index is monotone -/

theorem truncQ_mono (p q : Rat) (h : p ≤ q) : truncQ p ≤ truncQ q := by
  have hf : ∀ r : Rat, r.floor = ⌊r⌋ := fun _ => rfl
  unfold truncQ
  by_cases hp : 0 ≤ p
  · have hq : 0 ≤ q := le_trans hp h
    rw [if_pos hp, if_pos hq, hf, hf]
    exact Int.floor_mono h
  · rw [if_neg hp]
    have hp' : 0 < -p := by linarith
    have h1 : 0 ≤ ⌊-p⌋ := Int.floor_nonneg.mpr hp'.le
    by_cases hq : 0 ≤ q
    · rw [if_pos hq, hf, hf]
      have h2 : 0 ≤ ⌊q⌋ := Int.floor_nonneg.mpr hq
      omega
    · rw [if_neg hq, hf, hf]
      have : ⌊-q⌋ ≤ ⌊-p⌋ := Int.floor_mono (by linarith)
      omega

theorem truncQ_intCast (n : Int) : truncQ (n : Rat) = n := by
  have hf : ∀ r : Rat, r.floor = ⌊r⌋ := fun _ => rfl
  unfold truncQ
  split
  · rw [hf]; simp
  · rw [hf, ← Int.cast_neg, Int.floor_intCast]; omega

end HydroVerif.C08
