/-
Concrete instances used by the non-vacuity examples of `Props/C13.lean`.
-/
import HydroVerif.Lemmas.C13Header
import HydroVerif.Lemmas.C13Machine
import Mathlib.Data.Rat.Floor

namespace HydroVerif.C13

/-- a toy instance of the external number text: integers as "floats", float words printed as `f<decimal>` -/
def ioToy : NumIO Int where
  showF := intStr
  readF s := match s with
    | 'f' :: r => (parseNat? r).map Int.ofNat
    | _ => parseInt? s
  showW _ w := 'f' :: natStr w
  castW _ y := some y.toNat
  ofIntW _ i := some i.toNat
  convW _ _ w := w
  ofInt i := i
  sub a b := a - b
  mul a b := a * b
  dimsDiffer a b := a != b

theorem ioToy_ok : IOok ioToy := by
  refine ⟨fun x => intStr_noSpace x, fun x => ?_⟩
  show (match intStr x with
    | 'f' :: r => (parseNat? r).map Int.ofNat
    | _ => parseInt? (intStr x)) = some x
  have h : ∀ r, intStr x ≠ 'f' :: r := by
    intro r he
    unfold intStr at he
    split at he
    · simp at he
    · obtain ⟨d, r', hdr⟩ : ∃ d r', natStr x.natAbs = d :: r' := by
        cases h : natStr x.natAbs with
        | nil => exact absurd h (natStr_ne_nil _)
        | cons d r' => exact ⟨d, r', rfl⟩
      have hd : d.isDigit = true := natStr_isDigit _ d (by rw [hdr]; simp)
      rw [hdr] at he
      simp at he
      rw [he.1] at hd
      exact absurd hd (by decide)
  split
  · rename_i r heq; exact absurd heq (h r)
  · exact parseInt?_intStr x

def g0 : Grid Int :=
  { name := "My Grid".toList, comment := "two\nlines".toList, nrows := 2, ncols := 3, xll := -5, yll := 7, csz := 2,
    dtype := ⟨.int, 8⟩, nodata := 18446744073709551615, data := [[4611686018427387905, 9223372036854775808, 0], [1, 2, 3]] }

def g1 : Grid Int := { g0 with dtype := ⟨.float, 4⟩, nodata := 2143289344, data := [[1, 2139095040, 4290772992], [1, 2, 3]] }

theorem g0_ok : GridOK ioToy g0 :=
  ⟨⟨by decide, by decide, by decide, by decide, fun a _ v h => by simp [lookup, g0] at h,
    fun h => absurd h (by decide)⟩, by decide, by decide, by decide⟩


def ioQ : NumIO ℚ where
  showF _ := []
  readF _ := none
  showW _ _ := []
  castW _ _ := none
  ofIntW _ _ := none
  convW _ _ w := w
  ofInt i := i
  sub a b := a - b
  mul a b := a * b
  dimsDiffer a b := a != b

def gq : Grid ℚ :=
  { name := [], comment := [], nrows := 2, ncols := 3, xll := 0, yll := 0, csz := 1, dtype := ⟨.uint, 1⟩,
    nodata := 0, data := [[1, 2, 3], [4, 5, 6]] }


/-! ### instances for the state-machine, catchment-history and dictionary examples -/

/-- a data assignment of the wrong shape, item writes with a negative and with an out-of-range index, no-data values
accepted and refused, bounds in the wrong order, `load` on a file of the wrong size, a 3-d array, a fill -/
def opsEx : List (Op Int) :=
  [.edit (.data [[1, 2]]), .itemAt (-1) 5, .itemAt 6 5, .nodataVal (.int 7), .nodataVal (.text "abc".toList),
   .mindata (.int 3), .maxdata (.int 1), .load .big [0, 1, 2], .dataND, .fillVal (.text " 12 ".toList),
   .edit (.data [[1, 2, 9], [4, 5, 6]]), .fillVal (.int (2 ^ 70))]


theorem opsEx_wf : ∀ op ∈ opsEx, OpWF ioToy g0.dtype op := by
  intro op hop
  have hk : g0.dtype.kind ≠ .float := by decide
  simp only [opsEx, List.mem_cons, List.not_mem_nil, or_false] at hop
  rcases hop with rfl | rfl | rfl | rfl | rfl | rfl | rfl | rfl | rfl | rfl | rfl | rfl
  · show ∀ r ∈ [[1, 2]], ∀ w ∈ r, w < wordBound g0.dtype; decide
  · show (5 : Nat) < wordBound g0.dtype; decide
  · show (5 : Nat) < wordBound g0.dtype; decide
  · exact fun w h => nodataWord_int_ok ioToy _ hk _ (Or.inl ⟨_, rfl⟩) w h
  · exact fun w h => nodataWord_int_ok ioToy _ hk _ (Or.inr ⟨_, rfl⟩) w h
  · exact fun w h => (nodataWord_int_ok ioToy _ hk _ (Or.inl ⟨_, rfl⟩) w h).1
  · exact fun w h => (nodataWord_int_ok ioToy _ hk _ (Or.inl ⟨_, rfl⟩) w h).1
  · trivial
  · trivial
  · exact fun w h => (nodataWord_int_ok ioToy _ hk _ (Or.inr ⟨_, rfl⟩) w h).1
  · show ∀ r ∈ [[1, 2, 9], [4, 5, 6]], ∀ w ∈ r, w < wordBound g0.dtype; decide
  · exact fun w h => (nodataWord_int_ok ioToy _ hk _ (Or.inl ⟨_, rfl⟩) w h).1


def c0Ex : Catchment Int := { name := "c".toList, flowdir := g0, outlet := none, inlets := none, area := none, filled := none }
def copsEx : List COp := [.delineate 3 (some [5]) (some ([1, 2], [1, 2, 3])), .delineate 9 none none, .delineate 4 none (some ([4], [4, 0]))]


/-- `from_dict` with only the two mandatory keys -/
def dMin : GridDictP Int :=
  { name := some "n".toList, ncols := some 2, nrows := none, csz := none, xll := none, yll := none, dtype := none,
    nodata := none, comment := none }


end HydroVerif.C13
