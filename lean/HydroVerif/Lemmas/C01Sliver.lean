/-
C01 — quantitative bounds for the Yeo-Johnson "sliver": the forward transform selects its branch from
`w = nu + scale*x ≥ EPS`, the backward from `y ≥ EPS`. For `lam ≠ 1` the two tests disagree on a set of width
~`EPS²` next to `w = EPS`; there the other branch's inverse is applied. Both branches agree with the identity to
second order (`w - w² ≤ f(w) ≤ w + 2w²` for `lam ∈ [-1, 3]`), which bounds the round-trip error by `20 EPS²`.
Helper lemmas only (the property statements are in Props/C01.lean).
-/
import HydroVerif.Lemmas.C01Real

namespace HydroVerif.C01
open Real

/-! ### the power family `(s^k - 1)/k` between its members `k = -1` and `k = 3` -/

theorem log_lower {s : ℝ} (hs : 0 < s) : 1 - 1 / s ≤ Real.log s := by
  have h := Real.log_le_sub_one_of_pos (inv_pos.mpr hs)
  rw [Real.log_inv] at h
  rw [one_div]; linarith

theorem cube_ge {s : ℝ} (hs : 0 < s) : s - 1 ≤ (s ^ 3 - 1) / 3 := by
  rw [le_div_iff₀ (by norm_num)]
  nlinarith [sq_nonneg (s - 1), mul_nonneg (sq_nonneg (s - 1)) hs.le]

theorem log_upper {s : ℝ} (hs : 0 < s) : Real.log s ≤ (s ^ 3 - 1) / 3 :=
  le_trans (Real.log_le_sub_one_of_pos hs) (cube_ge hs)

theorem G_lower {k s : ℝ} (hk : -1 ≤ k) (hk0 : k ≠ 0) (hs : 0 < s) : 1 - 1 / s ≤ (s ^ k - 1) / k := by
  rcases lt_or_gt_of_ne hk0 with hneg | hpos
  · rw [le_div_iff_of_neg hneg]
    have hj0 : 0 ≤ -k := by linarith
    have hj1 : -k ≤ 1 := by linarith
    have hb := rpow_one_add_le_one_add_mul_self (s := s⁻¹ - 1) (by have := inv_pos.mpr hs; linarith) hj0 hj1
    rw [show 1 + (s⁻¹ - 1) = s⁻¹ by ring, Real.inv_rpow hs.le, ← Real.rpow_neg hs.le, neg_neg] at hb
    rw [one_div]
    nlinarith
  · rw [le_div_iff₀ hpos]
    have h1 : Real.log s * k + 1 ≤ s ^ k := by
      rw [Real.rpow_def_of_pos hs]; exact Real.add_one_le_exp _
    have h2 := log_lower hs
    nlinarith

theorem G_upper {k s : ℝ} (hk : k ≤ 3) (hk0 : k ≠ 0) (hs : 0 < s) : (s ^ k - 1) / k ≤ (s ^ 3 - 1) / 3 := by
  rcases lt_or_gt_of_ne hk0 with hneg | hpos
  · have h1 : Real.log s * k + 1 ≤ s ^ k := by
      rw [Real.rpow_def_of_pos hs]; exact Real.add_one_le_exp _
    have h2 : (s ^ k - 1) / k ≤ Real.log s := by
      rw [div_le_iff_of_neg hneg]; linarith
    exact le_trans h2 (log_upper hs)
  · have ht : 0 < s ^ 3 := by positivity
    have e : s ^ k = (s ^ 3) ^ (k / 3) := by
      rw [← Real.rpow_natCast s 3, ← Real.rpow_mul hs.le]
      congr 1; push_cast; ring
    have hb := rpow_one_add_le_one_add_mul_self (s := s ^ 3 - 1) (by linarith) (p := k / 3)
      (by positivity) (by rw [div_le_one (by norm_num)]; exact hk)
    rw [show 1 + (s ^ 3 - 1) = s ^ 3 by ring, ← e] at hb
    rw [div_le_iff₀ hpos]
    have : k / 3 * (s ^ 3 - 1) = (s ^ 3 - 1) / 3 * k := by ring
    linarith

/-! ### the four Yeo-Johnson formulas, each on its own -/
namespace YeoJohnson

noncomputable def posF (lam w : ℝ) : ℝ :=
  if isclose0 lam then Real.log (w + 1) else ((w + 1) ^ lam - 1) / lam
noncomputable def negF (lam w : ℝ) : ℝ :=
  if isclose2 lam then -(Real.log (-w + 1)) else (-((-w + 1) ^ (2 - lam) - 1)) / (2 - lam)
noncomputable def posB (lam y : ℝ) : ℝ :=
  if isclose0 lam then Real.exp y - 1 else (lam * y + 1) ^ (1 / lam) - 1
noncomputable def negB (lam y : ℝ) : ℝ :=
  if isclose2 lam then -(Real.exp (-y)) + 1 else -((-(2 - lam) * y + 1) ^ (1 / (2 - lam))) + 1

theorem fwdW_eq (lam w : ℝ) : fwdW lam w = if eps ≤ w then posF lam w else negF lam w := by
  unfold fwdW posF negF; simp only [transc_log, transc_pow]
theorem bwdW_eq (lam y : ℝ) : bwdW lam y = if eps ≤ y then posB lam y else negB lam y := by
  unfold bwdW posB negB; simp only [transc_exp, transc_pow]

theorem posF_lower {lam w : ℝ} (hl : -1 ≤ lam) (hw : -1 < w) : w / (1 + w) ≤ posF lam w := by
  have hs : 0 < w + 1 := by linarith
  have e : w / (1 + w) = 1 - 1 / (w + 1) := by
    have h1 : (1 : ℝ) + w ≠ 0 := by linarith
    have h2 : w + 1 ≠ 0 := by linarith
    field_simp; ring
  rw [e]; unfold posF
  cases h0 : isclose0 lam with
  | true => simp only [if_true]; exact log_lower hs
  | false => simp only [Bool.false_eq_true, if_false]; exact G_lower hl (isclose0_false h0) hs

theorem posF_upper {lam w : ℝ} (hl : lam ≤ 3) (hw : -1 < w) : posF lam w ≤ ((w + 1) ^ 3 - 1) / 3 := by
  have hs : 0 < w + 1 := by linarith
  unfold posF
  cases h0 : isclose0 lam with
  | true => simp only [if_true]; exact log_upper hs
  | false => simp only [Bool.false_eq_true, if_false]; exact G_upper hl (isclose0_false h0) hs

theorem negF_upper {lam v : ℝ} (hl : lam ≤ 3) (hv : v < 1) : negF lam v ≤ v / (1 - v) := by
  have hs : 0 < -v + 1 := by linarith
  have e : v / (1 - v) = -(1 - 1 / (-v + 1)) := by
    have : (1 : ℝ) - v ≠ 0 := by linarith
    have : (-v + 1 : ℝ) ≠ 0 := by linarith
    field_simp; ring
  rw [e]; unfold negF
  cases h2 : isclose2 lam with
  | true => simp only [if_true]; have := log_lower hs; linarith
  | false =>
    simp only [Bool.false_eq_true, if_false]
    have := G_lower (k := 2 - lam) (by linarith) (isclose2_false h2) hs
    rw [neg_div]; linarith

theorem negF_lower {lam v : ℝ} (hl : -1 ≤ lam) (hv : v < 1) : (1 - (-v + 1) ^ 3) / 3 ≤ negF lam v := by
  have hs : 0 < -v + 1 := by linarith
  have e : (1 - (-v + 1) ^ 3) / 3 = -(((-v + 1) ^ 3 - 1) / 3) := by ring
  rw [e]; unfold negF
  cases h2 : isclose2 lam with
  | true => simp only [if_true]; have := log_upper hs; linarith
  | false =>
    simp only [Bool.false_eq_true, if_false]
    have := G_upper (k := 2 - lam) (by linarith) (isclose2_false h2) hs
    rw [neg_div]; linarith

theorem posB_nonneg {lam y : ℝ} (hy : 0 ≤ y) (hq : isclose0 lam = false → 0 < lam * y + 1) :
    0 ≤ posB lam y := by
  unfold posB
  cases h0 : isclose0 lam with
  | true => simp only [if_true]; have := Real.one_le_exp hy; linarith
  | false =>
    simp only [Bool.false_eq_true, if_false]
    have hl := isclose0_false h0
    have hq' := hq h0
    have : 1 ≤ (lam * y + 1) ^ (1 / lam) := by
      rcases lt_or_gt_of_ne hl with h | h
      · apply Real.one_le_rpow_of_pos_of_le_one_of_nonpos hq'
        · nlinarith
        · rw [one_div]; exact (inv_lt_zero.mpr h).le
      · apply Real.one_le_rpow
        · nlinarith
        · rw [one_div]; exact (inv_pos.mpr h).le
    linarith

theorem negB_nonneg {lam y : ℝ} (hy : 0 ≤ y) (hq : isclose2 lam = false → 0 < -(2 - lam) * y + 1) :
    0 ≤ negB lam y := by
  unfold negB
  cases h2 : isclose2 lam with
  | true =>
    simp only [if_true]
    have : Real.exp (-y) ≤ 1 := by rw [Real.exp_le_one_iff]; linarith
    linarith
  | false =>
    simp only [Bool.false_eq_true, if_false]
    have hm := isclose2_false h2
    have hq' := hq h2
    have : (-(2 - lam) * y + 1) ^ (1 / (2 - lam)) ≤ 1 := by
      rcases lt_or_gt_of_ne hm with h | h
      · apply Real.rpow_le_one_of_one_le_of_nonpos
        · nlinarith
        · rw [one_div]; exact (inv_lt_zero.mpr h).le
      · apply Real.rpow_le_one hq'.le
        · nlinarith
        · rw [one_div]; exact (inv_pos.mpr h).le
    linarith

theorem negB_lt_one {lam y : ℝ} (hq : isclose2 lam = false → 0 < -(2 - lam) * y + 1) : negB lam y < 1 := by
  unfold negB
  cases h2 : isclose2 lam with
  | true => simp only [if_true]; have := Real.exp_pos (-y); linarith
  | false =>
    simp only [Bool.false_eq_true, if_false]
    have := Real.rpow_pos_of_pos (hq h2) (1 / (2 - lam))
    linarith

theorem posF_posB {lam y : ℝ} (hq : isclose0 lam = false → 0 < lam * y + 1) : posF lam (posB lam y) = y := by
  unfold posF posB
  cases h0 : isclose0 lam with
  | true => simp only [if_true, sub_add_cancel, Real.log_exp]
  | false =>
    simp only [Bool.false_eq_true, if_false, sub_add_cancel]
    have hl := isclose0_false h0
    rw [bc_inv_pow hl (hq h0)]
    field_simp; ring

theorem negF_negB {lam y : ℝ} (hq : isclose2 lam = false → 0 < -(2 - lam) * y + 1) : negF lam (negB lam y) = y := by
  unfold negF negB
  cases h2 : isclose2 lam with
  | true =>
    simp only [if_true]
    rw [show -(-Real.exp (-y) + 1) + 1 = Real.exp (-y) by ring, Real.log_exp]; ring
  | false =>
    simp only [Bool.false_eq_true, if_false]
    have hm := isclose2_false h2
    have hu := hq h2
    rw [show -(-(-(2 - lam) * y + 1) ^ (1 / (2 - lam)) + 1) + 1 = (-(2 - lam) * y + 1) ^ (1 / (2 - lam)) by ring,
      one_div, Real.rpow_inv_rpow hu.le hm]
    field_simp; ring

end YeoJohnson

/-! ### the sliver: the inverse of the other branch is applied -/
namespace YeoJohnson

theorem eps_small : (eps : ℝ) ≤ 1 / 100 := by unfold eps; norm_num

/-- the argument of the power stays positive for `|k| ≤ 3` and `0 ≤ y ≤ 3 EPS` -/
theorem small_arg_pos {k y : ℝ} (hk1 : -3 ≤ k) (_hk3 : k ≤ 3) (hy0 : 0 ≤ y) (hy : y ≤ 3 * eps) : 0 < k * y + 1 := by
  have he := eps_small
  have h1 : -3 * y ≤ k * y := mul_le_mul_of_nonneg_right hk1 hy0
  linarith

/-- if the negative-branch value of `v ∈ [0,1)` is below `EPS` then `v ≤ 2 EPS` -/
theorem small_of_negF_lt {lam v : ℝ} (hl1 : -1 ≤ lam) (_hv0 : 0 ≤ v) (hv1 : v < 1) (h : negF lam v < eps) :
    v ≤ 2 * eps := by
  have he := eps_small
  have he0 := eps_pos
  by_contra hc
  have hc : 2 * eps < v := not_le.mp hc
  have h3 : (-v + 1) ^ 3 < (1 - 2 * eps) ^ 3 := pow_lt_pow_left₀ (by linarith) (by linarith) (by norm_num)
  have hN2 := negF_lower hl1 hv1
  have : (eps : ℝ) ≤ (1 - (1 - 2 * eps) ^ 3) / 3 := by
    rw [le_div_iff₀ (by norm_num)]
    nlinarith [mul_pos he0 he0, mul_pos (mul_pos he0 he0) he0]
  linarith

/-- on `[0, 1/2]` the two forward branches differ by at most `3 u²` -/
theorem posF_sub_negF {lam u : ℝ} (hl1 : -1 ≤ lam) (hl3 : lam ≤ 3) (hu0 : 0 ≤ u) (hu : u ≤ 1 / 2) :
    |negF lam u - posF lam u| ≤ 3 * u ^ 2 := by
  have hP1 := posF_lower hl1 (w := u) (by linarith)
  have hP2 := posF_upper hl3 (w := u) (by linarith)
  have hN1 := negF_upper hl3 (v := u) (by linarith)
  have hN2 := negF_lower hl1 (v := u) (by linarith)
  have e1 : u / (1 - u) - u / (1 + u) ≤ 3 * u ^ 2 := by
    have h1 : (0 : ℝ) < 1 - u := by linarith
    have h2 : (0 : ℝ) < 1 + u := by linarith
    rw [div_sub_div _ _ h1.ne' h2.ne', div_le_iff₀ (mul_pos h1 h2)]
    have hu2 : u ^ 2 ≤ 1 / 4 := by nlinarith
    nlinarith [mul_nonneg (sq_nonneg u) (show (0 : ℝ) ≤ 1 - 3 * u ^ 2 by linarith)]
  have e2 : ((u + 1) ^ 3 - 1) / 3 - (1 - (-u + 1) ^ 3) / 3 ≤ 3 * u ^ 2 := by
    nlinarith [mul_nonneg hu0 hu0]
  rw [abs_le]; constructor <;> linarith

theorem sliver_A {lam w : ℝ} (hl1 : -1 ≤ lam) (hl3 : lam ≤ 3) (hw : eps ≤ w) (hy : posF lam w < eps) :
    |negB lam (posF lam w) - w| ≤ 12 * eps ^ 2 := by
  have he := eps_small
  have he0 := eps_pos
  have hw0 : 0 < w := lt_of_lt_of_le he0 hw
  have h1w : 0 < 1 + w := by linarith
  have hP1 := posF_lower hl1 (w := w) (by linarith)
  generalize posF lam w = y at *
  have hw2 : w ≤ 2 * eps := by
    have h := lt_of_le_of_lt hP1 hy
    rw [div_lt_iff₀ h1w] at h
    nlinarith [mul_le_mul_of_nonneg_right he hw0.le]
  have hy0 : 0 < y := lt_of_lt_of_le (div_pos hw0 h1w) hP1
  have hyw : w - w ^ 2 ≤ y := by
    refine le_trans ?_ hP1
    rw [le_div_iff₀ h1w]
    nlinarith [pow_pos hw0 3]
  have hq : isclose2 lam = false → 0 < -(2 - lam) * y + 1 := fun _ =>
    small_arg_pos (by linarith) (by linarith) hy0.le (by linarith)
  have hv0 := negB_nonneg hy0.le hq
  have hv1 := negB_lt_one hq
  have hFv := negF_negB hq
  generalize negB lam y = v at *
  have hv2 : v ≤ 2 * eps := small_of_negF_lt hl1 hv0 hv1 (by rw [hFv]; exact hy)
  have hN2 := negF_lower hl1 hv1
  have hN1 := negF_upper hl3 hv1
  rw [hFv] at hN1 hN2
  have h1v : 0 < 1 - v := by linarith
  rw [le_div_iff₀ h1v] at hN1
  have hvv : v ^ 2 ≤ 4 * eps ^ 2 := by nlinarith
  have hww : w ^ 2 ≤ 4 * eps ^ 2 := by nlinarith
  have hvy : v - y ≤ v ^ 2 := by nlinarith [pow_nonneg hv0 3]
  have hyv : y - v ≤ 2 * v ^ 2 := by nlinarith
  rw [abs_le]; constructor <;> linarith

theorem sliver_B {lam w : ℝ} (hl1 : -1 ≤ lam) (hl3 : lam ≤ 3) (hw : w < eps) (hy : eps ≤ negF lam w) :
    |posB lam (negF lam w) - w| ≤ 20 * eps ^ 2 := by
  have he := eps_small
  have he0 := eps_pos
  have hw1 : w < 1 := by linarith
  have hN1 := negF_upper hl3 hw1
  have h1w : 0 < 1 - w := by linarith
  have hw0 : 0 < w := by
    by_contra hc
    have hc : w ≤ 0 := not_lt.mp hc
    have : w / (1 - w) ≤ 0 := div_nonpos_of_nonpos_of_nonneg hc h1w.le
    linarith
  generalize negF lam w = y at *
  rw [le_div_iff₀ h1w] at hN1
  have hyw : y - w ≤ 2 * w ^ 2 := by nlinarith
  have hy2 : y ≤ 2 * eps := by nlinarith
  have hy0 : 0 < y := by linarith
  have hq : isclose0 lam = false → 0 < lam * y + 1 := fun _ =>
    small_arg_pos (by linarith) (by linarith) hy0.le (by linarith)
  have hu0 := posB_nonneg hy0.le hq
  have hFu := posF_posB hq
  generalize posB lam y = u at *
  have hP1 := posF_lower hl1 (w := u) (by linarith)
  have hP2 := posF_upper hl3 (w := u) (by linarith)
  rw [hFu] at hP1 hP2
  have h1u : 0 < 1 + u := by linarith
  rw [div_le_iff₀ h1u] at hP1
  have hu3 : u ≤ 3 * eps := by nlinarith
  have huu : u ^ 2 ≤ 9 * eps ^ 2 := by nlinarith
  have hww : w ^ 2 ≤ eps ^ 2 := by nlinarith
  have huy : u - y ≤ u ^ 2 := by nlinarith
  have hyu : y - u ≤ 2 * u ^ 2 := by
    have : ((u + 1) ^ 3 - 1) / 3 = u + u ^ 2 + u ^ 3 / 3 := by ring
    rw [this] at hP2
    have : u ^ 3 ≤ u ^ 2 := by nlinarith [mul_nonneg hu0 hu0]
    linarith
  rw [abs_le]; constructor <;> linarith

/-- image side, `y ≥ EPS` but its positive-branch inverse is below `EPS` -/
theorem sliver_A' {lam y : ℝ} (hl1 : -1 ≤ lam) (hl3 : lam ≤ 3) (hy : eps ≤ y)
    (hq : isclose0 lam = false → 0 < lam * y + 1) (hu : posB lam y < eps) :
    |negF lam (posB lam y) - y| ≤ 3 * eps ^ 2 := by
  have he := eps_small
  have he0 := eps_pos
  have hu0 := posB_nonneg (by linarith) hq
  have hFu := posF_posB hq
  generalize posB lam y = u at *
  have h := posF_sub_negF hl1 hl3 hu0 (by linarith)
  rw [hFu] at h
  have : u ^ 2 ≤ eps ^ 2 := by nlinarith
  linarith

/-- image side, `y < EPS` but its negative-branch inverse reaches `EPS` -/
theorem sliver_B' {lam y : ℝ} (hl1 : -1 ≤ lam) (hl3 : lam ≤ 3) (hy : y < eps)
    (hq : isclose2 lam = false → 0 < -(2 - lam) * y + 1) (hv : eps ≤ negB lam y) :
    |posF lam (negB lam y) - y| ≤ 12 * eps ^ 2 := by
  have he := eps_small
  have he0 := eps_pos
  have hv1 := negB_lt_one hq
  have hFv := negF_negB hq
  generalize negB lam y = v at *
  have hv0 : 0 ≤ v := by linarith
  have hv2 : v ≤ 2 * eps := small_of_negF_lt hl1 hv0 hv1 (by rw [hFv]; exact hy)
  have h := posF_sub_negF hl1 hl3 hv0 (by linarith)
  rw [hFv, abs_sub_comm] at h
  have : v ^ 2 ≤ 4 * eps ^ 2 := by nlinarith
  linarith

theorem eps_sq_bound : 20 * (eps : ℝ) ^ 2 ≤ 1e-18 := by unfold eps; norm_num

/-- all `w`: the backward of the forward is `w` up to `20 EPS²` (exactly `w` outside the sliver) -/
theorem bwdW_fwdW_near {lam : ℝ} (hl1 : -1 ≤ lam) (hl3 : lam ≤ 3) (w : ℝ) :
    |bwdW lam (fwdW lam w) - w| ≤ 1e-18 := by
  have hb := eps_sq_bound
  have he2 : 0 ≤ (eps : ℝ) ^ 2 := sq_nonneg _
  by_cases hagree : (eps ≤ w ↔ eps ≤ fwdW lam w)
  · rw [bwdW_fwdW lam w hagree, sub_self, abs_zero]; norm_num
  · by_cases hw : eps ≤ w
    · have hy : ¬ eps ≤ fwdW lam w := fun h => hagree ⟨fun _ => h, fun _ => hw⟩
      rw [bwdW_eq, if_neg hy, fwdW_eq, if_pos hw]
      rw [fwdW_eq, if_pos hw] at hy
      have := sliver_A hl1 hl3 hw (not_le.mp hy)
      linarith
    · have hy : eps ≤ fwdW lam w := by
        by_contra h
        exact hagree ⟨fun h' => absurd h' hw, fun h' => absurd h' h⟩
      rw [bwdW_eq, if_pos hy, fwdW_eq, if_neg hw]
      rw [fwdW_eq, if_neg hw] at hy
      have := sliver_B hl1 hl3 (not_le.mp hw) hy
      linarith

theorem fwdW_bwdW_near {lam : ℝ} (hl1 : -1 ≤ lam) (hl3 : lam ≤ 3) (y : ℝ)
    (hpos : eps ≤ y → isclose0 lam = false → 0 < lam * y + 1)
    (hneg : ¬ eps ≤ y → isclose2 lam = false → 0 < -(2 - lam) * y + 1) :
    |fwdW lam (bwdW lam y) - y| ≤ 1e-18 := by
  have hb := eps_sq_bound
  have he2 : 0 ≤ (eps : ℝ) ^ 2 := sq_nonneg _
  by_cases hagree : (eps ≤ y ↔ eps ≤ bwdW lam y)
  · rw [fwdW_bwdW lam y hagree hpos hneg, sub_self, abs_zero]; norm_num
  · by_cases hy : eps ≤ y
    · have hw : ¬ eps ≤ bwdW lam y := fun h => hagree ⟨fun _ => h, fun _ => hy⟩
      rw [fwdW_eq, if_neg hw, bwdW_eq, if_pos hy]
      rw [bwdW_eq, if_pos hy] at hw
      have := sliver_A' hl1 hl3 hy (hpos hy) (not_le.mp hw)
      linarith
    · have hw : eps ≤ bwdW lam y := by
        by_contra h
        exact hagree ⟨fun h' => absurd h' hy, fun h' => absurd h' h⟩
      rw [fwdW_eq, if_pos hw, bwdW_eq, if_neg hy]
      rw [bwdW_eq, if_neg hy] at hw
      have := sliver_B' hl1 hl3 (not_le.mp hy) (hneg hy) hw
      linarith

end YeoJohnson

end HydroVerif.C01
