/-
C01 — a ROUNDED instance of the transform model (helper definitions and lemmas; the property statements that use them
are in `Props/C01.lean`).

The model text of `Model/C01.lean` is generic over its carrier. Here it is instantiated at `Rd M`: real numbers on which
every arithmetic operation and every library call is followed by a rounding `M.rnd`, of which only this is assumed:
monotone, `rnd 0 = 0`, `rnd 1 = 1`, `rnd (-x) = -rnd x`, idempotent — true of IEEE-754 round-to-nearest (overflow to
±inf and gradual underflow included as far as order goes) — and `fexp ≥ 0` for the library exponential (any libm).
Statements proved over `Rd M` are exact statements about the floating-point code (NaN excluded), not about its real
idealisation; `FP.exact` (no rounding) shows the assumptions are consistent.
-/
import HydroVerif.Lemmas.C01Real

namespace HydroVerif.C01

/-- an abstract floating-point arithmetic on the reals, known by order properties only -/
structure FP where
  rnd : ℝ → ℝ
  rnd_mono : Monotone rnd
  rnd_zero : rnd 0 = 0
  rnd_one : rnd 1 = 1
  rnd_neg : ∀ x, rnd (-x) = -rnd x
  rnd_idem : ∀ x, rnd (rnd x) = rnd x
  fexp : ℝ → ℝ
  fexp_nonneg : ∀ x, 0 ≤ fexp x
  flog : ℝ → ℝ
  fpow : ℝ → ℝ → ℝ

/-- exact arithmetic is one such model -/
noncomputable def FP.exact : FP where
  rnd := id
  rnd_mono := monotone_id
  rnd_zero := rfl
  rnd_one := rfl
  rnd_neg := fun _ => rfl
  rnd_idem := fun _ => rfl
  fexp := Real.exp
  fexp_nonneg := fun x => (Real.exp_pos x).le
  flog := Real.log
  fpow := fun x y => x ^ y

/-- a floating-point number of the arithmetic `M` -/
structure Rd (M : FP) where
  val : ℝ

namespace Rd
variable {M : FP}

noncomputable instance : Add (Rd M) := ⟨fun a b => ⟨M.rnd (a.val + b.val)⟩⟩
noncomputable instance : Sub (Rd M) := ⟨fun a b => ⟨M.rnd (a.val - b.val)⟩⟩
noncomputable instance : Mul (Rd M) := ⟨fun a b => ⟨M.rnd (a.val * b.val)⟩⟩
noncomputable instance : Div (Rd M) := ⟨fun a b => ⟨M.rnd (a.val / b.val)⟩⟩
instance : Neg (Rd M) := ⟨fun a => ⟨-a.val⟩⟩
instance : LT (Rd M) := ⟨fun a b => a.val < b.val⟩
instance : LE (Rd M) := ⟨fun a b => a.val ≤ b.val⟩
noncomputable instance : DecidableLT (Rd M) := fun a b => inferInstanceAs (Decidable (a.val < b.val))
noncomputable instance : DecidableLE (Rd M) := fun a b => inferInstanceAs (Decidable (a.val ≤ b.val))
instance : OfNat (Rd M) 0 := ⟨⟨0⟩⟩
instance : OfNat (Rd M) 1 := ⟨⟨1⟩⟩
noncomputable instance : OfNat (Rd M) 2 := ⟨⟨M.rnd 2⟩⟩
noncomputable instance : OfScientific (Rd M) := ⟨fun m s e => ⟨M.rnd (OfScientific.ofScientific m s e)⟩⟩
noncomputable instance : Transc (Rd M) where
  exp a := ⟨M.rnd (M.fexp a.val)⟩
  log a := ⟨M.rnd (M.flog a.val)⟩
  sqrt a := ⟨M.rnd (Real.sqrt a.val)⟩
  sinh a := ⟨M.rnd (Real.sinh a.val)⟩
  cosh a := ⟨M.rnd (Real.cosh a.val)⟩
  tanh a := ⟨M.rnd (Real.tanh a.val)⟩
  asinh a := ⟨M.rnd (Real.arsinh a.val)⟩
  pow a b := ⟨M.rnd (M.fpow a.val b.val)⟩

@[simp] theorem add_val (a b : Rd M) : (a + b).val = M.rnd (a.val + b.val) := rfl
@[simp] theorem mul_val (a b : Rd M) : (a * b).val = M.rnd (a.val * b.val) := rfl
@[simp] theorem div_val (a b : Rd M) : (a / b).val = M.rnd (a.val / b.val) := rfl
@[simp] theorem neg_val (a : Rd M) : (-a).val = -a.val := rfl
@[simp] theorem zero_val : (0 : Rd M).val = 0 := rfl
@[simp] theorem one_val : (1 : Rd M).val = 1 := rfl
@[simp] theorem exp_val (a : Rd M) : (Transc.exp a : Rd M).val = M.rnd (M.fexp a.val) := rfl
theorem lt_def (a b : Rd M) : a < b ↔ a.val < b.val := Iff.rfl
theorem le_def (a b : Rd M) : a ≤ b ↔ a.val ≤ b.val := Iff.rfl

/-- the number is representable (a fixed point of the rounding) -/
def Fix (a : Rd M) : Prop := M.rnd a.val = a.val

theorem rnd_nonneg {x : ℝ} (h : 0 ≤ x) : 0 ≤ M.rnd x := by
  have := M.rnd_mono h; rwa [M.rnd_zero] at this

theorem rnd_le_one {x : ℝ} (h : x ≤ 1) : M.rnd x ≤ 1 := by
  have := M.rnd_mono h; rwa [M.rnd_one] at this

end Rd

open Rd

/-- the running sum of non-negative representable numbers is representable, at least the start value and at least
every summand (monotone rounding: no rounding error can push it below a term) -/
theorem Softmax.sumFrom_rd {M : FP} : ∀ (xs : List (Rd M)) (acc : Rd M), Fix acc → 0 ≤ acc.val →
    (∀ x ∈ xs, Fix x ∧ 0 ≤ x.val) →
    Fix (Softmax.sumFrom acc xs) ∧ acc.val ≤ (Softmax.sumFrom acc xs).val ∧ ∀ x ∈ xs, x.val ≤ (Softmax.sumFrom acc xs).val
  | [], acc, hf, _, _ => ⟨hf, le_refl _, by simp⟩
  | x :: xs, acc, hf, h0, hx => by
    have hx0 := hx x (List.mem_cons_self ..)
    have hacc' : Fix (acc + x) := M.rnd_idem _
    have h1 : acc.val ≤ (acc + x).val := by
      have : acc.val ≤ acc.val + x.val := by linarith [hx0.2]
      have := M.rnd_mono this
      rwa [hf] at this
    have h2 : x.val ≤ (acc + x).val := by
      have : x.val ≤ acc.val + x.val := by linarith
      have := M.rnd_mono this
      rwa [hx0.1] at this
    obtain ⟨a, b, c⟩ := Softmax.sumFrom_rd xs (acc + x) hacc' (le_trans h0 h1)
      (fun y hy => hx y (List.mem_cons_of_mem _ hy))
    refine ⟨a, le_trans h1 b, ?_⟩
    intro y hy
    rcases List.mem_cons.mp hy with rfl | hm
    · exact le_trans h2 b
    · exact c y hm

/-- Softmax.backward in floating point: every entry of the result lies in `[0, 1]` -/
theorem Softmax.bwdRow_rd_range {M : FP} (ys : List (Rd M)) : ∀ x ∈ Softmax.bwdRow ys, 0 ≤ x.val ∧ x.val ≤ 1 := by
  intro x hx
  unfold Softmax.bwdRow at hx
  simp only [List.mem_map] at hx
  obtain ⟨v, hv, rfl⟩ := hx
  obtain ⟨y, _, rfl⟩ := hv
  have he : ∀ e ∈ ys.map (Transc.exp : Rd M → Rd M), Fix e ∧ 0 ≤ e.val := by
    intro e hem
    obtain ⟨y', _, rfl⟩ := List.mem_map.mp hem
    exact ⟨M.rnd_idem _, rnd_nonneg (M.fexp_nonneg _)⟩
  have hz : Fix (0 : Rd M) := M.rnd_zero
  obtain ⟨hsf, hs0, hsx⟩ := Softmax.sumFrom_rd (ys.map Transc.exp) 0 hz (le_refl _) he
  have hvmem : (Transc.exp y : Rd M) ∈ ys.map (Transc.exp : Rd M → Rd M) := List.mem_map.mpr ⟨y, ‹_›, rfl⟩
  have hv0 := (he _ hvmem).2
  have hvs := hsx _ hvmem
  set s := Softmax.sumL (ys.map (Transc.exp : Rd M → Rd M)) with hs
  have hs' : s = Softmax.sumFrom 0 (ys.map Transc.exp) := rfl
  rw [← hs'] at hsf hs0 hsx hvs
  -- 1 ⊕ s ≥ 1 and ≥ s
  have hd1 : (1 : ℝ) ≤ ((1 : Rd M) + s).val := by
    have : (1 : ℝ) ≤ 1 + s.val := by simp at hs0; linarith
    have := M.rnd_mono this
    rwa [M.rnd_one] at this
  have hds : s.val ≤ ((1 : Rd M) + s).val := by
    have : s.val ≤ 1 + s.val := by linarith
    have := M.rnd_mono this
    rwa [hsf] at this
  have hdpos : 0 < ((1 : Rd M) + s).val := by linarith
  constructor
  · exact rnd_nonneg (div_nonneg hv0 hdpos.le)
  · apply rnd_le_one
    rw [div_le_one hdpos]
    exact le_trans hvs hds


/-- no floating-point number of the abstraction is NaN -/
instance {M : FP} : NanTest (Rd M) := ⟨fun _ => false⟩

end HydroVerif.C01
