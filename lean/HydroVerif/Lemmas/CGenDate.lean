/-
C05 — the definitions GENERATED from `data/c_dateutils.c` and of `c_combi` (`data/c_dutils.c`; `Generated/CKernels.lean`): what each function returns,
for ALL arguments — from which safety (no fault) and the values follow. Restated as property theorems in
`Props/C05.lean`.
-/
import HydroVerif.Lemmas.CGen
import Mathlib.Data.Nat.Choose.Basic

set_option linter.unusedSimpArgs false
set_option linter.unusedTactic false
set_option linter.unreachableTactic false
set_option linter.unnecessarySeqFocus false

namespace HydroVerif.C05
open HydroVerif.CSem HydroVerif.CGen

theorem cgen_isleapyear_eq' (y : Int) : c_dateutils_isleapyear y =
    .ok (if y.tmod 4 = 0 ∧ (y.tmod 100 ≠ 0 ∨ y.tmod 400 = 0) then 1 else 0) := by
  apply eq_ok_of_wp
  unfold c_dateutils_isleapyear
  cg_run
  all_goals simp_all
macro_rules | `(tactic| cg_call) => `(tactic| refine wp_of_eq_ok (cgen_isleapyear_eq' _) ?_)

theorem cgen_daysinmonth_eq' (y m : Int) : c_dateutils_daysinmonth y m =
    .ok (if 1 ≤ m ∧ m ≤ 12 then nbdayOf y m else -1) := by
  apply eq_ok_of_wp
  unfold c_dateutils_daysinmonth
  refine wp_ite (fun h => wp_pure (by rw [if_neg (by omega)])) (fun h => ?_)
  have : m = 1 ∨ m = 2 ∨ m = 3 ∨ m = 4 ∨ m = 5 ∨ m = 6 ∨ m = 7 ∨ m = 8 ∨ m = 9 ∨ m = 10 ∨ m = 11 ∨ m = 12 := by omega
  rcases this with rfl | rfl | rfl | rfl | rfl | rfl | rfl | rfl | rfl | rfl | rfl | rfl
  all_goals cg_run
  all_goals simp_all [nbdayOf]
macro_rules | `(tactic| cg_call) => `(tactic| refine wp_of_eq_ok (cgen_daysinmonth_eq' _ _) ?_)

/-- days before the first of month `m` in a year that is not a leap year -/
def daysBefore (m : Int) : Int := (((List.range (m - 1).toNat).map fun k => nbdayOf 1 ((k : Int) + 1))).sum

theorem daysBefore_vals : daysBefore 1 = 0 ∧ daysBefore 2 = 31 ∧ daysBefore 3 = 59 ∧ daysBefore 4 = 90 ∧
    daysBefore 5 = 120 ∧ daysBefore 6 = 151 ∧ daysBefore 7 = 181 ∧ daysBefore 8 = 212 ∧ daysBefore 9 = 243 ∧
    daysBefore 10 = 273 ∧ daysBefore 11 = 304 ∧ daysBefore 12 = 334 := by decide

theorem cgen_dayofyear_eq' (m d : Int) : c_dateutils_dayofyear m d =
    .ok (if 1 ≤ m ∧ m ≤ 12 ∧ 1 ≤ d ∧ d ≤ 31 then daysBefore m + d else -1) := by
  obtain ⟨h1, h2, h3, h4, h5, h6, h7, h8, h9, h10, h11, h12⟩ := daysBefore_vals
  apply eq_ok_of_wp
  unfold c_dateutils_dayofyear
  refine wp_ite (fun h => wp_pure (by rw [if_neg (by omega)])) (fun h => ?_)
  refine wp_ite (fun h => wp_pure (by rw [if_neg (by omega)])) (fun h' => ?_)
  have : m = 1 ∨ m = 2 ∨ m = 3 ∨ m = 4 ∨ m = 5 ∨ m = 6 ∨ m = 7 ∨ m = 8 ∨ m = 9 ∨ m = 10 ∨ m = 11 ∨ m = 12 := by omega
  rcases this with rfl | rfl | rfl | rfl | rfl | rfl | rfl | rfl | rfl | rfl | rfl | rfl
  all_goals cg_run
  all_goals (simp [*]; omega)

/-- `1`: the first date is earlier, `-1`: later, `0`: same year, month and day (lexicographic order) -/
def cmp3 (y1 m1 d1 y2 m2 d2 : Int) : Int :=
  if y1 < y2 ∨ (y1 = y2 ∧ (m1 < m2 ∨ (m1 = m2 ∧ d1 < d2))) then 1
  else if y1 = y2 ∧ m1 = m2 ∧ d1 = d2 then 0 else -1

theorem cgen_comparedates_eq' (y1 m1 d1 y2 m2 d2 : Int) (r1 r2 : List Int) :
    c_dateutils_comparedates (y1 :: m1 :: d1 :: r1) (y2 :: m2 :: d2 :: r2) = .ok (cmp3 y1 m1 d1 y2 m2 d2) := by
  apply eq_ok_of_wp
  unfold c_dateutils_comparedates cmp3
  cg_run
  all_goals cg_fin

theorem cgen_add1month_eq' (y m d : Int) (r : List Int) (hy : I32 y) (hm : I32 m) :
    c_dateutils_add1month (y :: m :: d :: r) = .ok (
      if m < 12 then
        (if m + 1 < 1 then (1, y :: (m + 1) :: d :: r)
         else (0, y :: (m + 1) :: (if d > nbdayOf y (m + 1) then nbdayOf y (m + 1) else d) :: r))
      else if y = 2147483647 then (1, y :: m :: d :: r)
      else (0, (y + 1) :: 1 :: (if d > 31 then 31 else d) :: r)) := by
  unfold I32 at hy hm
  have h1 := nbdayOf_range y (m + 1)
  have h31 : nbdayOf (y + 1) 1 = 31 := by simp [nbdayOf]
  apply eq_ok_of_wp
  unfold c_dateutils_add1month
  cg_run
  all_goals cg_fin
  all_goals (split at * <;> omega)

theorem cgen_add1day_eq' (y m d : Int) (r : List Int) (hy : I32 y) (hm : I32 m) (hd : I32 d) :
    c_dateutils_add1day (y :: m :: d :: r) = .ok (
      if m < 1 ∨ m > 12 then (1, y :: m :: d :: r)
      else if d < nbdayOf y m then (0, y :: m :: (d + 1) :: r)
      else if d = nbdayOf y m then
        (if m = 12 ∧ y = 2147483647 then (1, y :: m :: d :: r)
         else if m < 12 then (0, y :: (m + 1) :: 1 :: r) else (0, (y + 1) :: 1 :: 1 :: r))
      else (1, y :: m :: d :: r)) := by
  unfold I32 at hy hm hd
  have h1 := nbdayOf_range y m
  apply eq_ok_of_wp
  unfold c_dateutils_add1day
  cg_run
  all_goals cg_fin
  all_goals (split at * <;> omega)

/-- a list of at least three elements is `x :: y :: z :: rest` -/
theorem three_of_length {l : List Int} (h : 3 ≤ l.length) : ∃ x y z r, l = x :: y :: z :: r := by
  match l, h with
  | x :: y :: z :: r, _ => exact ⟨x, y, z, r, rfl⟩

/-- the run ends with the value `v` -/
def okVal (r : R Int) (v : Int) : Bool :=
  match r with
  | .ok x => x == v
  | .error _ => false

theorem eq_ok_of_okVal {r : R Int} {v : Int} (h : okVal r v = true) : r = .ok v := by
  cases r with
  | ok x => simp [okVal] at h; rw [h]
  | error f => simp [okVal] at h

set_option maxRecDepth 100000 in
theorem cgen_combi_table : ∀ n : Fin 61, ∀ k : Fin 31,
    isOk (c_combi (n : Nat) (k : Nat)) = true ∧
    ((k : Nat) ≤ n → (n : Nat) - k ≤ 30 →
      okVal (c_combi (n : Nat) (k : Nat)) (((n : Nat).descFactorial k / (k : Nat).factorial : Nat) : Int) = true) := by
  decide +kernel

theorem cgen_combi_sentinel' (n k : Int) (hn : I32 n) (hk : I32 k) (h : n < 0 ∨ k < 0 ∨ k > 30 ∨ n - k > 30) :
    c_combi n k = .ok (-1) := by
  unfold I32 at hn hk
  apply eq_ok_of_wp
  unfold c_combi
  cg_run

theorem cgen_combi_choose' (n k : Int) (hk : 0 ≤ k) (hkn : k ≤ n) (hk30 : k ≤ 30) (hd : n - k ≤ 30) :
    c_combi n k = .ok (Nat.choose n.toNat k.toNat) := by
  have h1 : n.toNat < 61 := by omega
  have h2 : k.toNat < 31 := by omega
  have := (cgen_combi_table ⟨n.toNat, h1⟩ ⟨k.toNat, h2⟩).2 (by simp; omega) (by simp; omega)
  simp only [] at this
  have e1 : ((n.toNat : Nat) : Int) = n := by omega
  have e2 : ((k.toNat : Nat) : Int) = k := by omega
  rw [e1, e2, ← Nat.choose_eq_descFactorial_div_factorial] at this
  exact eq_ok_of_okVal this

theorem cgen_combi_safe' (n k : Int) (hn : I32 n) (hk : I32 k) : Safe (c_combi n k) := by
  by_cases h : n < 0 ∨ k < 0 ∨ k > 30 ∨ n - k > 30
  · exact ⟨_, cgen_combi_sentinel' n k hn hk h⟩
  · have h1 : n.toNat < 61 := by omega
    have h2 : k.toNat < 31 := by omega
    have := (cgen_combi_table ⟨n.toNat, h1⟩ ⟨k.toNat, h2⟩).1
    simp only [] at this
    have e1 : ((n.toNat : Nat) : Int) = n := by omega
    have e2 : ((k.toNat : Nat) : Int) = k := by omega
    rw [e1, e2] at this
    exact safe_of_isOk this


/-- return code of the footprint model of `c_dateutils_add1month` -/
theorem add1month_code (e : Ext) (d : Nat → Int) (h : 3 ≤ e .date) (hd : ∀ k, I32 (d k)) :
    wp (add1month e d) (fun c => c = if d 1 < 12 then (if d 1 + 1 < 1 then 1 else 0)
      else if d 0 = 2147483647 then 1 else 0) := by
  unfold add1month
  have h0 := hd 0
  have h1 := hd 1
  simp only [I32, i32max] at *
  wp_run
  all_goals simp at *
  all_goals (first | omega | (split <;> omega) | simp_all)

/-- return code of the footprint model of `c_dateutils_add1day` -/
theorem add1day_code (e : Ext) (d : Nat → Int) (h : 3 ≤ e .date) (hd : ∀ k, I32 (d k)) :
    wp (add1day e d) (fun c => c = if d 1 < 1 ∨ d 1 > 12 then 1
      else if d 2 < nbdayOf (d 0) (d 1) then 0
      else if d 2 = nbdayOf (d 0) (d 1) then (if d 1 = 12 ∧ d 0 = 2147483647 then 1 else 0) else 1) := by
  unfold add1day
  have h0 := hd 0
  have h2 := hd 2
  have hr := nbdayOf_range (d 0) (d 1)
  simp only [I32, i32max] at *
  wp_run
  all_goals simp at *
  all_goals (first | omega | simp_all)

theorem comparedates_code (e : Ext) (a b : Nat → Int) (h1 : 3 ≤ e .date1) (h2 : 3 ≤ e .date2) :
    wp (comparedates e a b) (fun c => c = cmp3 (a 0) (a 1) (a 2) (b 0) (b 1) (b 2)) := by
  unfold comparedates cmp3
  wp_run
  all_goals simp at *
  all_goals (first | omega | ((repeat' split) <;> omega) | simp_all)

theorem getD_I32 (l : List Int) (hI : ∀ x ∈ l, I32 x) (k : Nat) : I32 (l.getD k 0) := by
  by_cases h : k < l.length
  · simp only [List.getD_eq_getElem?_getD, List.getElem?_eq_getElem h, Option.getD_some]
    exact hI _ (List.getElem_mem _)
  · have hn : l[k]? = none := List.getElem?_eq_none (by omega)
    simp only [List.getD_eq_getElem?_getD, hn, Option.getD_none]
    unfold I32; omega

/-- both runs end with the same value -/
def sameOk (a b : R Int) : Bool :=
  match a, b with
  | .ok x, .ok y => x == y
  | _, _ => false

theorem eq_of_sameOk {a b : R Int} (h : sameOk a b = true) : a = b := by
  cases a <;> cases b <;> simp [sameOk] at h
  rw [h]

set_option maxRecDepth 100000 in
theorem cgen_combi_same_table : ∀ n : Fin 61, ∀ k : Fin 31,
    sameOk (c_combi (n : Nat) (k : Nat)) (combi (n : Nat) (k : Nat)) = true := by
  decide +kernel


end HydroVerif.C05
