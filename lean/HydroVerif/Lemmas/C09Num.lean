/- helper lemmas for C09: rounding, digit strings of fixed length, decimal parsing -/
import HydroVerif.Model.C09Num
import HydroVerif.Lemmas.C09Head
import Mathlib.Tactic.Linarith
import Mathlib.Tactic.Ring
import Mathlib.Tactic.FieldSimp
import Mathlib.Tactic.Positivity
import Mathlib.Algebra.Order.Field.Basic
import Mathlib.Data.Rat.Floor

namespace HydroVerif.C09

/-! ### rounding -/

theorem roundHalfEven_cases (q : ℚ) : roundHalfEven q = q.floor ∨ roundHalfEven q = q.floor + 1 := by
  unfold roundHalfEven
  simp only
  split
  · left; rfl
  · split
    · right; rfl
    · split
      · left; rfl
      · right; rfl

theorem roundHalfEven_bound (q : ℚ) : |((roundHalfEven q : ℤ) : ℚ) - q| ≤ 1 / 2 := by
  have h1 : ((q.floor : ℤ) : ℚ) ≤ q := Rat.floor_le q
  have h2 : q < ((q.floor + 1 : ℤ) : ℚ) := Rat.lt_floor_add_one q
  push_cast at h2
  unfold roundHalfEven
  simp only
  rw [abs_le]
  split
  · rename_i h; constructor <;> linarith
  · rename_i h
    split
    · rename_i h'; push_cast; constructor <;> linarith
    · rename_i h'
      have hr : q - (q.floor : ℚ) = 1 / 2 := le_antisymm (not_lt.mp h') (not_lt.mp h)
      split
      · constructor <;> linarith
      · push_cast; constructor <;> linarith

theorem roundHalfEven_nonneg (q : ℚ) (h : 0 ≤ q) : 0 ≤ roundHalfEven q := by
  have hf : (0 : ℤ) ≤ q.floor := Rat.le_floor_iff.mpr (by simpa using h)
  rcases roundHalfEven_cases q with e | e <;> rw [e] <;> omega

/-! ### digits -/

theorem isDigit_iff (c : Char) : isDigit c = true ↔ isDigitChar c := by
  unfold isDigit isDigitChar
  simp

theorem allDigits_natStr (n : Nat) : allDigits (natStr n) = true := by
  unfold allDigits
  rw [List.all_eq_true]
  intro c hc
  exact (isDigit_iff c).mpr (natStr_digits n c hc)

theorem fracDigits_length (d m : Nat) : (fracDigits d m).length = d := by
  induction d generalizing m with
  | zero => rfl
  | succ d ih => simp [fracDigits, ih]

theorem fracDigits_digits (d m : Nat) : ∀ c ∈ fracDigits d m, isDigitChar c := by
  induction d generalizing m with
  | zero => intro c hc; simp [fracDigits] at hc
  | succ d ih =>
    intro c hc
    simp only [fracDigits, List.mem_append, List.mem_cons, List.not_mem_nil, or_false] at hc
    rcases hc with hc | hc
    · exact ih _ c hc
    · subst hc; exact digitChar_isDigit _ (Nat.mod_lt _ (by omega))

theorem allDigits_fracDigits (d m : Nat) : allDigits (fracDigits d m) = true := by
  unfold allDigits
  rw [List.all_eq_true]
  intro c hc
  exact (isDigit_iff c).mpr (fracDigits_digits d m c hc)

theorem natVal_fracDigits (d m : Nat) : natVal (fracDigits d m) = m % 10 ^ d := by
  induction d generalizing m with
  | zero => simp [fracDigits, natVal, Nat.mod_one]
  | succ d ih =>
    simp only [fracDigits]
    rw [natVal_append_single, ih, digitVal_digitChar _ (Nat.mod_lt _ (by omega)), Nat.pow_succ', Nat.mod_mul]
    ring

theorem digit_ne_point (c : Char) (h : isDigitChar c) : (c != '.') = true := by
  unfold isDigitChar at h
  have : c ≠ '.' := by
    intro e; subst e
    have : ('.' : Char).toNat = 46 := by decide
    omega
  simpa using this

theorem digit_ne_char (c d : Char) (h : isDigitChar c) (hd : d.toNat < 48 ∨ 57 < d.toNat) : c ≠ d := by
  unfold isDigitChar at h
  intro e; subst e; omega

/-! ### decimal parsing of what the writer produces -/

theorem parseUnsigned_digits (s : Str) (hne : s ≠ []) (hd : ∀ c ∈ s, isDigitChar c) :
    parseUnsigned s = some (natVal s : ℚ) := by
  unfold parseUnsigned
  have htw : s.takeWhile (· != '.') = s := by
    rw [List.takeWhile_eq_self_iff]
    intro c hc; exact digit_ne_point c (hd c hc)
  have hall : allDigits s = true := by
    unfold allDigits; rw [List.all_eq_true]; intro c hc; exact (isDigit_iff c).mpr (hd c hc)
  simp only [htw, List.drop_length]
  simp [hne, hall]

theorem parseUnsigned_point (ip fp : Str) (hne : ip ≠ []) (hi : ∀ c ∈ ip, isDigitChar c) (hf : ∀ c ∈ fp, isDigitChar c) :
    parseUnsigned (ip ++ '.' :: fp) = some ((natVal ip : ℚ) + (natVal fp : ℚ) / (10 : ℚ) ^ fp.length) := by
  unfold parseUnsigned
  have htw : (ip ++ '.' :: fp).takeWhile (· != '.') = ip :=
    takeWhile_append_stop _ _ _ _ (fun c hc => digit_ne_point c (hi c hc)) (by decide)
  have halli : allDigits ip = true := by
    unfold allDigits; rw [List.all_eq_true]; intro c hc; exact (isDigit_iff c).mpr (hi c hc)
  have hallf : allDigits fp = true := by
    unfold allDigits; rw [List.all_eq_true]; intro c hc; exact (isDigit_iff c).mpr (hf c hc)
  simp only [htw, List.drop_left']
  simp [hne, halli, hallf]

/-- a text that starts with a digit is parsed without sign handling -/
theorem parseDec_of_digit_head (c : Char) (s : Str) (h : isDigitChar c) : parseDec (c :: s) = parseUnsigned (c :: s) := by
  have h1 : c ≠ '-' := digit_ne_char c '-' h (by left; decide)
  have h2 : c ≠ '+' := digit_ne_char c '+' h (by left; decide)
  unfold parseDec
  split
  · rename_i heq; injection heq with hc _; exact absurd hc h1
  · rename_i heq; injection heq with hc _; exact absurd hc h2
  · rfl

theorem parseInt_of_digit_head (c : Char) (s : Str) (h : isDigitChar c) :
    parseInt (c :: s) = if (c :: s) ≠ [] ∧ allDigits (c :: s) = true then some (natVal (c :: s) : ℤ) else none := by
  have h1 : c ≠ '-' := digit_ne_char c '-' h (by left; decide)
  unfold parseInt
  split
  · rename_i heq; injection heq with hc _; exact absurd hc h1
  · rfl

end HydroVerif.C09
