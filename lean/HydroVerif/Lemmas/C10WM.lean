/-
C10 — from the scan to the pairwise comparison of Weigel and Mason (2011): helper lemmas.
-/
import HydroVerif.Lemmas.C10Scan
import Mathlib.Data.List.Perm.Basic
import Mathlib.Algebra.BigOperators.Group.List.Lemmas

set_option linter.unusedSectionVars false
set_option linter.unusedVariables false

namespace HydroVerif.C10
open HydroVerif.C04 (sumL absG)

variable {α : Type} [Field α] [LinearOrder α] [IsStrictOrderedRing α]

/-- Σ_{b ∈ l} ([b<a] + ½[a=b]) -/
def rowScore (a : α) (l : List α) : α := (l.map (ps a)).sum

/-- pairwise comparison of two ensembles: Σ_{a ∈ e1} Σ_{b ∈ e2} ([b<a] + ½[a=b]) -/
def wm (e1 e2 : List α) : α := (e1.map fun a => rowScore a e2).sum

@[simp] theorem rowScore_nil (a : α) : rowScore a [] = 0 := rfl
@[simp] theorem rowScore_cons (a b : α) (l : List α) : rowScore a (b :: l) = ps a b + rowScore a l := by
  simp [rowScore]
theorem rowScore_append (a : α) (l1 l2 : List α) : rowScore a (l1 ++ l2) = rowScore a l1 + rowScore a l2 := by
  simp [rowScore]
@[simp] theorem wm_nil_left (e2 : List α) : wm [] e2 = 0 := rfl
@[simp] theorem wm_cons_left (a : α) (e1 e2 : List α) : wm (a :: e1) e2 = rowScore a e2 + wm e1 e2 := by
  simp [wm]

theorem rowP_eq_rowScore (a : α) (R : List (α × ℕ)) : rowP a R = rowScore a (R.map Prod.fst) := by
  simp [rowP, rowScore, List.map_map, Function.comp_def]

theorem rowScore_perm (a : α) {l1 l2 : List α} (h : l1.Perm l2) : rowScore a l1 = rowScore a l2 :=
  (h.map _).sum_eq

theorem wm_perm {e1 e1' e2 e2' : List α} (h1 : e1.Perm e1') (h2 : e2.Perm e2') : wm e1 e2 = wm e1' e2' := by
  unfold wm
  rw [(h1.map _).sum_eq]
  apply sum_map_congr
  intro a _
  exact rowScore_perm a h2

theorem rowP_perm (a : α) {R R' : List (α × ℕ)} (h : R.Perm R') : rowP a R = rowP a R' :=
  (h.map _).sum_eq

theorem relSpec_perm (m j : ℕ) {R R' : List (α × ℕ)} (h : R.Perm R') : relSpec m j R = relSpec m j R' := by
  unfold relSpec
  rw [(h.map _).sum_eq]
  apply sum_map_congr
  intro x _
  rw [rowP_perm x.1 h]

/-- strictly increasing maps keep every comparison -/
theorem ps_map {f : α → α} (hf : StrictMono f) (a b : α) : ps (f a) (f b) = ps a b := by
  unfold ps
  simp only [hf.lt_iff_lt, hf.injective.eq_iff]

theorem rowScore_map {f : α → α} (hf : StrictMono f) (a : α) (l : List α) :
    rowScore (f a) (l.map f) = rowScore a l := by
  simp [rowScore, List.map_map, Function.comp_def, ps_map hf]

theorem wm_map {f : α → α} (hf : StrictMono f) (e1 e2 : List α) : wm (e1.map f) (e2.map f) = wm e1 e2 := by
  simp [wm, List.map_map, Function.comp_def, rowScore_map hf]

theorem rowScore_add_col (a : α) (l : List α) :
    rowScore a l + (l.map fun b => ps b a).sum = (l.length : α) := by
  induction l with
  | nil => simp
  | cons b l ihb =>
    simp only [rowScore_cons, List.map_cons, List.sum_cons, List.length_cons, Nat.cast_succ]
    have := ps_add_swap a b
    linarith

/-- the two directions of a comparison share the `|e1|·|e2|` pairs -/
theorem wm_add_swap (e1 e2 : List α) : wm e1 e2 + wm e2 e1 = (e1.length : α) * (e2.length : α) := by
  induction e1 with
  | nil =>
    simp only [wm_nil_left, List.length_nil, Nat.cast_zero, zero_mul, zero_add]
    induction e2 with
    | nil => rfl
    | cons b e2 ih => simp [ih]
  | cons a e1 ih =>
    have hcol : ∀ l : List α, wm l (a :: e1) = (l.map fun b => ps b a).sum + wm l e1 := by
      intro l
      induction l with
      | nil => simp
      | cons b l ihl => simp [ihl]; ring
    have hrow := rowScore_add_col a e2
    rw [wm_cons_left, hcol e2]
    simp only [List.length_cons, Nat.cast_succ]
    linarith

theorem wm_self (l : List α) : wm l l = (l.length : α) * (l.length : α) / 2 := by
  have := wm_add_swap l l
  linarith

/-- entries of `l.zipIdx k` all have an index below `m` -/
theorem sum_zipIdx_lt (m : ℕ) (h : α → α) (l : List α) (k : ℕ) (hk : k + l.length ≤ m) :
    ((l.zipIdx k).map fun x => if x.2 < m then h x.1 else 0).sum = (l.map h).sum := by
  induction l generalizing k with
  | nil => simp
  | cons a l ih =>
    simp only [List.length_cons] at hk
    have hkm : k < m := by omega
    simp only [List.zipIdx_cons, List.map_cons, List.sum_cons, hkm, if_true]
    rw [ih (k + 1) (by omega)]

theorem sum_zipIdx_ge (m : ℕ) (h : α → α) (l : List α) (k : ℕ) (hk : m ≤ k) :
    ((l.zipIdx k).map fun x => if x.2 < m then h x.1 else 0).sum = 0 := by
  induction l generalizing k with
  | nil => simp
  | cons a l ih =>
    have hkm : ¬ k < m := by omega
    simp only [List.zipIdx_cons, List.map_cons, List.sum_cons, hkm, if_false, zero_add]
    exact ih (k + 1) (by omega)

theorem sum_map_const_add_add (l : List α) (g1 g2 : α → α) (c : α) :
    (l.map fun a => c + (g1 a + g2 a)).sum = (l.length : α) * c + (l.map g1).sum + (l.map g2).sum := by
  induction l with
  | nil => simp
  | cons a l ih => simp only [List.map_cons, List.sum_cons, List.length_cons, Nat.cast_succ, ih]; ring

/-- on the pooled array the scan's target is the sum of the pooled mid-ranks `½ + Σ_b ([b<a] + ½[a=b])`
of the members `a` of the first ensemble -/
theorem relSpec_pool_midranks (e1 e2 : List α) :
    relSpec e1.length 0 (pool e1 e2) = (e1.map fun a => 1 / 2 + rowScore a (e1 ++ e2)).sum := by
  have hfst : (pool e1 e2).map Prod.fst = e1 ++ e2 := List.zipIdx_map_fst 0 _
  unfold relSpec
  have hrow : ∀ x : α × ℕ, rowP x.1 (pool e1 e2) = rowScore x.1 (e1 ++ e2) := by
    intro x; rw [rowP_eq_rowScore, hfst]
  simp only [hrow]
  unfold pool
  rw [List.zipIdx_append, List.map_append, List.sum_append]
  rw [sum_zipIdx_lt e1.length (fun a => ((0 : ℕ) : α) + 1 / 2 + rowScore a (e1 ++ e2)) e1 0 (by omega)]
  rw [sum_zipIdx_ge e1.length (fun a => ((0 : ℕ) : α) + 1 / 2 + rowScore a (e1 ++ e2)) e2 (0 + e1.length) (by omega)]
  simp

/-- ... which is the first ensemble's own mid-rank sum `m(m+1)/2` plus the pairwise comparison with the
second ensemble -/
theorem relSpec_pool (e1 e2 : List α) :
    relSpec e1.length 0 (pool e1 e2)
      = ((e1.length : α) + 1) * (e1.length : α) / 2 + wm e1 e2 := by
  rw [relSpec_pool_midranks]
  simp only [rowScore_append]
  rw [sum_map_const_add_add]
  change ((e1.length : α)) * (1 / 2) + wm e1 e1 + wm e1 e2 = _
  rw [wm_self]
  ring

end HydroVerif.C10
