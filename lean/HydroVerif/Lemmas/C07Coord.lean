/-
Coordinate lemmas for `Model/C07.lean`, PART 2, over an ordered field with a floor function
(`ℚ`, `ℝ`, …): the `Trunc` instance of such a field, cell footprints, grid extent, and the
characterisation of `coord2cell` (reused by C16).
-/
import HydroVerif.Lemmas.C07Grid
import Mathlib.Algebra.Order.Floor.Ring
import Mathlib.Algebra.Order.Field.Basic
import Mathlib.Tactic.FieldSimp
import Mathlib.Tactic.Ring
import Mathlib.Tactic.Linarith
import Mathlib.Tactic.Positivity
import Mathlib.Tactic.NormNum

set_option linter.unusedSectionVars false

namespace HydroVerif.C07

variable {α : Type} [Field α] [LinearOrder α] [IsStrictOrderedRing α] [FloorRing α]

/-- the exact-field meaning of the C conversions: `(double) n` is the cast, `(long long) x` rounds
toward zero, `(long long) floor(x)` is the floor -/
scoped instance fieldTrunc : Trunc α where
  ofInt n := (n : α)
  truncToInt x := if 0 ≤ x then ⌊x⌋ else ⌈x⌉
  floorToInt x := ⌊x⌋

@[simp] theorem ofInt_eq (n : Int) : (Trunc.ofInt n : α) = (n : α) := rfl
@[simp] theorem floorToInt_eq (x : α) : Trunc.floorToInt x = ⌊x⌋ := rfl
theorem truncToInt_eq (x : α) : Trunc.truncToInt x = if 0 ≤ x then ⌊x⌋ else ⌈x⌉ := rfl

@[simp] theorem half_eq : (half : α) = 1 / 2 := by unfold half; norm_num

/-! ### footprint of a cell, extent of the grid -/

/-- row counted from the bottom, as used for the y coordinate -/
def rowUp (g : Geom α) (c : Int) : Int := g.nrows - 1 - rowOf g.ncols c

def cellLeft (g : Geom α) (c : Int) : α := g.xll + g.csz * (colOf g.ncols c : α)
def cellRight (g : Geom α) (c : Int) : α := g.xll + g.csz * ((colOf g.ncols c : α) + 1)
def cellBottom (g : Geom α) (c : Int) : α := g.yll + g.csz * (rowUp g c : α)
def cellTop (g : Geom α) (c : Int) : α := g.yll + g.csz * ((rowUp g c : α) + 1)

/-- `(x, y)` lies in the (half-open) square occupied by cell `c` -/
def InFootprint (g : Geom α) (c : Int) (x y : α) : Prop :=
  cellLeft g c ≤ x ∧ x < cellRight g c ∧ cellBottom g c ≤ y ∧ y < cellTop g c

/-- `(x, y)` lies in the (half-open) rectangle covered by the grid: `xlim × ylim` -/
def InExtent (g : Geom α) (x y : α) : Prop :=
  g.xll ≤ x ∧ x < g.xll + (g.ncols : α) * g.csz ∧ g.yll ≤ y ∧ y < g.yll + (g.nrows : α) * g.csz

theorem inExtent_iff_lims (g : Geom α) (x y : α) :
    InExtent g x y ↔ (xlim g).1 ≤ x ∧ x < (xlim g).2 ∧ (ylim g).1 ≤ y ∧ y < (ylim g).2 := Iff.rfl

/-- `⌊(x - x0)/csz⌋ = n` exactly when `x` is in the `n`-th cell-wide interval from `x0` -/
theorem floor_offset_eq_iff {x x0 csz : α} (h : 0 < csz) (n : Int) :
    ⌊(x - x0) / csz⌋ = n ↔ x0 + csz * (n : α) ≤ x ∧ x < x0 + csz * ((n : α) + 1) := by
  rw [Int.floor_eq_iff, le_div_iff₀ h, div_lt_iff₀ h]
  constructor <;> rintro ⟨a, b⟩ <;> constructor <;> nlinarith

theorem floor_offset_neg {x x0 csz : α} (h : 0 < csz) (hx : x < x0) : ⌊(x - x0) / csz⌋ < 0 := by
  rw [Int.floor_lt]
  have : x - x0 < 0 := by linarith
  simpa using div_neg_of_neg_of_pos this h

theorem floor_offset_nonneg {x x0 csz : α} (h : 0 < csz) (hx : x0 ≤ x) : 0 ≤ ⌊(x - x0) / csz⌋ := by
  rw [Int.floor_nonneg]
  exact div_nonneg (by linarith) h.le

theorem floor_offset_ge {x x0 csz : α} (h : 0 < csz) (n : Int) (hx : x0 + (n : α) * csz ≤ x) :
    n ≤ ⌊(x - x0) / csz⌋ := by
  rw [Int.le_floor, le_div_iff₀ h]; linarith

theorem floor_offset_lt {x x0 csz : α} (h : 0 < csz) (n : Int) (hx : x < x0 + (n : α) * csz) :
    ⌊(x - x0) / csz⌋ < n := by
  rw [Int.floor_lt, div_lt_iff₀ h]; linarith

/-! ### `cellOfNxNy` -/

theorem cellOfNxNy_in {nrows ncols nx ny : Int} (h : 0 ≤ nx ∧ nx < ncols ∧ 0 ≤ ny ∧ ny < nrows) :
    cellOfNxNy nrows ncols nx ny = cellOf ncols ny nx := by
  unfold cellOfNxNy cellOf
  rw [if_neg (by omega)]

theorem cellOfNxNy_out {nrows ncols nx ny : Int} (h : ¬ (0 ≤ nx ∧ nx < ncols ∧ 0 ≤ ny ∧ ny < nrows)) :
    cellOfNxNy nrows ncols nx ny = -1 := by
  unfold cellOfNxNy
  rw [if_pos (by omega)]

/-! ### coord2cell -/

/-- a point of the footprint of a valid cell is mapped to that cell -/
theorem coord2cell_of_inFootprint {g : Geom α} (hcsz : 0 < g.csz) (hc : 0 < g.ncols) {c : Int}
    (hv : validCell g.nrows g.ncols c = true) {x y : α} (h : InFootprint g c x y) :
    coord2cell g x y = c := by
  obtain ⟨hr0, hr1, hc0, hc1, hidx⟩ := valid_rowcol hc hv
  obtain ⟨hl, hr, hb, ht⟩ := h
  have hx : ⌊(x - g.xll) / g.csz⌋ = colOf g.ncols c := (floor_offset_eq_iff hcsz _).2 ⟨hl, hr⟩
  have hy : ⌊(y - g.yll) / g.csz⌋ = rowUp g c := (floor_offset_eq_iff hcsz _).2 ⟨hb, ht⟩
  unfold coord2cell
  simp only [floorToInt_eq, hx, hy]
  have e : g.nrows - 1 - rowUp g c = rowOf g.ncols c := by unfold rowUp; omega
  rw [e, cellOfNxNy_in ⟨hc0, hc1, hr0, hr1⟩, hidx]

/-- a point outside the extent, on any side, is mapped to `-1` -/
theorem coord2cell_of_not_inExtent {g : Geom α} (hcsz : 0 < g.csz) {x y : α}
    (h : ¬ InExtent g x y) : coord2cell g x y = -1 := by
  unfold coord2cell
  simp only [floorToInt_eq]
  apply cellOfNxNy_out
  rintro ⟨a, b, c, d⟩
  apply h
  refine ⟨?_, ?_, ?_, ?_⟩
  · by_contra hx
    have := floor_offset_neg hcsz (not_le.1 hx)
    omega
  · by_contra hx
    have := floor_offset_ge hcsz g.ncols (not_lt.1 hx)
    omega
  · by_contra hy
    have := floor_offset_neg hcsz (not_le.1 hy)
    omega
  · by_contra hy
    have := floor_offset_ge hcsz g.nrows (not_lt.1 hy)
    omega

/-- a point of the extent is mapped to a valid cell whose footprint contains it -/
theorem coord2cell_of_inExtent {g : Geom α} (hcsz : 0 < g.csz) {x y : α} (h : InExtent g x y) :
    validCell g.nrows g.ncols (coord2cell g x y) = true ∧ InFootprint g (coord2cell g x y) x y := by
  obtain ⟨hx0, hx1, hy0, hy1⟩ := h
  have a0 := floor_offset_nonneg hcsz hx0
  have a1 := floor_offset_lt hcsz g.ncols hx1
  have b0 := floor_offset_nonneg hcsz hy0
  have b1 := floor_offset_lt hcsz g.nrows hy1
  have hin : 0 ≤ ⌊(x - g.xll) / g.csz⌋ ∧ ⌊(x - g.xll) / g.csz⌋ < g.ncols ∧
      0 ≤ g.nrows - 1 - ⌊(y - g.yll) / g.csz⌋ ∧ g.nrows - 1 - ⌊(y - g.yll) / g.csz⌋ < g.nrows := by
    omega
  have hcell : coord2cell g x y =
      cellOf g.ncols (g.nrows - 1 - ⌊(y - g.yll) / g.csz⌋) ⌊(x - g.xll) / g.csz⌋ := by
    unfold coord2cell
    simp only [floorToInt_eq]
    exact cellOfNxNy_in hin
  refine ⟨?_, ?_⟩
  · rw [hcell]; exact validCell_cellOf hin.2.2.1 hin.2.2.2 hin.1 hin.2.1
  · have hcol : colOf g.ncols (coord2cell g x y) = ⌊(x - g.xll) / g.csz⌋ := by
      rw [hcell]; exact colOf_cellOf hin.2.2.1 hin.1 hin.2.1
    have hrow : rowUp g (coord2cell g x y) = ⌊(y - g.yll) / g.csz⌋ := by
      unfold rowUp
      rw [hcell, rowOf_cellOf hin.2.2.1 hin.1 hin.2.1]; omega
    have fx := (floor_offset_eq_iff (x := x) (x0 := g.xll) hcsz _).1 rfl
    have fy := (floor_offset_eq_iff (x := y) (x0 := g.yll) hcsz _).1 rfl
    unfold InFootprint cellLeft cellRight cellBottom cellTop
    rw [hcol, hrow]
    exact ⟨fx.1, fx.2, fy.1, fy.2⟩

/-- the footprint of a valid cell lies inside the extent -/
theorem inExtent_of_inFootprint {g : Geom α} (hcsz : 0 < g.csz) (hc : 0 < g.ncols) {c : Int}
    (hv : validCell g.nrows g.ncols c = true) {x y : α} (h : InFootprint g c x y) :
    InExtent g x y := by
  by_contra hne
  have h1 := coord2cell_of_not_inExtent hcsz hne
  have h2 := coord2cell_of_inFootprint hcsz hc hv h
  have := (validCell_iff.1 hv).1
  omega

/-! ### the pinned (truncating) variant -/

theorem trunc_eq_floor_of_nonneg {q : α} (h : 0 ≤ q) : (Trunc.truncToInt q : Int) = ⌊q⌋ := by
  rw [truncToInt_eq, if_pos h]

theorem trunc_eq_zero_of_strip {q : α} (h0 : -1 < q) (h1 : q < 0) : (Trunc.truncToInt q : Int) = 0 := by
  rw [truncToInt_eq, if_neg (not_le.2 h1), Int.ceil_eq_iff]
  constructor
  · simpa using h0
  · simpa using h1.le

end HydroVerif.C07
