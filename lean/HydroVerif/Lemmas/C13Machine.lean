/-
Helper lemmas for the state-machine theorems of `Props/C13.lean`: float bounds of `_clipdata`, words read from a file,
the invariant kept by every public mutator (accepted or rejected).
-/
import HydroVerif.Lemmas.C13Header

namespace HydroVerif.C13

/-! ### words stay words -/

theorem wordBound_pos (t : DType) : 0 < wordBound t := by
  unfold wordBound; exact Nat.pos_of_ne_zero (by simp)

theorem ofInt_lt (t : DType) (i : Int) : ofInt t i < wordBound t := by
  unfold ofInt
  have hB : (0 : Int) < (wordBound t : Int) := by exact_mod_cast wordBound_pos t
  have h1 := Int.emod_nonneg i (ne_of_gt hB)
  have h2 := Int.emod_lt_of_pos i hB
  omega

theorem isFiniteW_not_nan (t : DType) (w : Nat) (h : isFiniteW t w = true) : isNaNW t w = false := by
  unfold isFiniteW at h
  unfold isNaNW
  simp only [bne_iff_ne, ne_eq] at h
  simp [h]

/-- `value` is not below the bound `l` in the sense of `np.maximum` (integer order, or float order on bit patterns;
a NaN value and a non-finite float bound pass) -/
def AboveLo (t : DType) (l : Int) (w : Nat) : Prop :=
  match t.kind with
  | .float => isNaNW t w = true ∨ boundFinite t l = false ∨ floatKey t l.toNat ≤ floatKey t w
  | _ => l ≤ toInt t w

/-- `value` is not above the bound `h` -/
def BelowHi (t : DType) (h : Int) (w : Nat) : Prop :=
  match t.kind with
  | .float => isNaNW t w = true ∨ boundFinite t h = false ∨ floatKey t w ≤ floatKey t h.toNat
  | _ => toInt t w ≤ h

/-- float bounds are bit patterns of the grid's dtype -/
def BoundsOK (t : DType) (lo hi : Option Int) : Prop :=
  t.kind = .float → (∀ l, lo = some l → l.toNat < wordBound t) ∧ (∀ h, hi = some h → h.toNat < wordBound t)

theorem maxWord_lt (t : DType) (b : Int) (w : Nat) (hw : w < wordBound t) (hb : t.kind = .float → b.toNat < wordBound t) :
    maxWord t b w < wordBound t := by
  unfold maxWord
  cases hk : t.kind <;> simp only
  · split
    · exact ofInt_lt t b
    · exact hw
  · split
    · exact ofInt_lt t b
    · exact hw
  · have := hb hk
    split
    · exact hw
    · split
      · exact this
      · split
        · exact this
        · exact hw

theorem minWord_lt (t : DType) (b : Int) (w : Nat) (hw : w < wordBound t) (hb : t.kind = .float → b.toNat < wordBound t) :
    minWord t b w < wordBound t := by
  unfold minWord
  cases hk : t.kind <;> simp only
  · split
    · exact ofInt_lt t b
    · exact hw
  · split
    · exact ofInt_lt t b
    · exact hw
  · have := hb hk
    split
    · exact hw
    · split
      · exact this
      · split
        · exact this
        · exact hw

/-- whatever the bounds, `_clipdata` returns a word of the grid's dtype -/
theorem clipWord_lt (t : DType) (lo hi : Option Int) (w : Nat) (hw : w < wordBound t) (hb : BoundsOK t lo hi) :
    clipWord t lo hi w < wordBound t := by
  unfold clipWord
  cases hk : t.kind <;> simp only
  · split
    · exact hw
    · exact ofInt_lt t _
  · split
    · exact hw
    · exact ofInt_lt t _
  · obtain ⟨hl, hh⟩ := hb hk
    have h1 : clipLoF t lo w < wordBound t := by
      unfold clipLoF
      cases lo with
      | none => exact hw
      | some l =>
        simp only
        split
        · exact maxWord_lt t l w hw (fun _ => hl l rfl)
        · exact hw
    unfold clipHiF
    cases hi with
    | none => exact h1
    | some h =>
      simp only
      split
      · exact minWord_lt t h _ h1 (fun _ => hh h rfl)
      · exact h1

/-- `_clipdata` leaves every value inside the bounds bit-identical -/
theorem clipWord_id' (t : DType) (lo hi : Option Int) (w : Nat) (hw : w < wordBound t)
    (hlo : ∀ l, lo = some l → AboveLo t l w) (hhi : ∀ h, hi = some h → BelowHi t h w) :
    clipWord t lo hi w = w := by
  unfold clipWord
  cases hk : t.kind <;> simp only
  case float =>
    have h1 : clipLoF t lo w = w := by
      unfold clipLoF
      cases lo with
      | none => rfl
      | some l =>
        have := hlo l rfl
        simp only [AboveLo, hk] at this
        simp only
        split
        · rename_i hf
          unfold maxWord
          simp only [hk]
          rcases this with h | h | h
          · simp [h]
          · rw [hf] at h; exact absurd h (by simp)
          · have hn : isNaNW t l.toNat = false := by
              apply isFiniteW_not_nan
              simpa [boundFinite, hk] using hf
            by_cases hw' : isNaNW t w = true
            · simp [hw']
            · simp only [hw', hn, Bool.false_eq_true, if_false]
              rw [if_neg (by omega)]
        · rfl
    rw [h1]
    unfold clipHiF
    cases hi with
    | none => rfl
    | some h =>
      have := hhi h rfl
      simp only [BelowHi, hk] at this
      simp only
      split
      · rename_i hf
        unfold minWord
        simp only [hk]
        rcases this with h' | h' | h'
        · simp [h']
        · rw [hf] at h'; exact absurd h' (by simp)
        · have hn : isNaNW t h.toNat = false := by
            apply isFiniteW_not_nan
            simpa [boundFinite, hk] using hf
          by_cases hw' : isNaNW t w = true
          · simp [hw']
          · simp only [hw', hn, Bool.false_eq_true, if_false]
            rw [if_neg (by omega)]
      · rfl
  all_goals
    cases lo with
    | none =>
      cases hi with
      | none => simp
      | some h =>
        have := hhi h rfl
        simp only [BelowHi, hk] at this
        simp only [Option.isNone_none, Option.isNone_some, Bool.and_false, Bool.false_eq_true, if_false]
        rw [if_neg (by omega)]
        exact ofInt_toInt t w hw
    | some l =>
      have h1 := hlo l rfl
      simp only [AboveLo, hk] at h1
      simp only [Option.isNone_some, Bool.false_and, Bool.false_eq_true, if_false]
      rw [if_neg (by omega)]
      cases hi with
      | none => exact ofInt_toInt t w hw
      | some h =>
        have := hhi h rfl
        simp only [BelowHi, hk] at this
        simp only
        rw [if_neg (by omega)]
        exact ofInt_toInt t w hw

/-! ### words read from a file -/

theorem chunksAux_length {β : Type} (n fuel : Nat) (l : List β) : ∀ c ∈ chunksAux n fuel l, c.length = n := by
  induction fuel generalizing l with
  | zero => intro c hc; simp [chunksAux] at hc
  | succ f ih =>
    intro c hc
    unfold chunksAux at hc
    split at hc
    · simp at hc
    · rename_i hcond
      rcases List.mem_cons.mp hc with rfl | h
      · rw [List.length_take]; omega
      · exact ih _ c h

theorem decode_lt (bo : ByteOrder) (bs : List UInt8) : decode bo bs < 256 ^ bs.length := by
  cases bo
  · exact decodeLE_lt bs
  · have := decodeLE_lt bs.reverse
    simpa [decode] using this

/-- every item `np.fromfile` returns is a word of the dtype -/
theorem fromfile_lt (bo : ByteOrder) (t : DType) (bytes : List UInt8) : ∀ w ∈ fromfile bo t bytes, w < wordBound t := by
  intro w hw
  unfold fromfile at hw
  obtain ⟨c, hc, rfl⟩ := List.mem_map.mp hw
  have hl := chunksAux_length t.bytes _ _ c hc
  have := decode_lt bo c
  rw [hl] at this
  exact this

theorem reshape_spec {β : Type} (ncols : Nat) : ∀ (nrows : Nat) (data : List β), data.length = nrows * ncols →
    (reshape nrows ncols data).length = nrows ∧ (∀ r ∈ reshape nrows ncols data, r.length = ncols) ∧
    (∀ r ∈ reshape nrows ncols data, ∀ x ∈ r, x ∈ data) := by
  intro nrows
  induction nrows with
  | zero => intro data _; simp [reshape]
  | succ n ih =>
    intro data hd
    have hlen : ncols ≤ data.length := by rw [hd]; exact Nat.le_mul_of_pos_left _ (Nat.succ_pos _)
    have hdrop : (data.drop ncols).length = n * ncols := by
      rw [List.length_drop, hd, Nat.succ_mul]; omega
    obtain ⟨h1, h2, h3⟩ := ih (data.drop ncols) hdrop
    simp only [reshape]
    refine ⟨by simp [h1], ?_, ?_⟩
    · intro r hr
      rcases List.mem_cons.mp hr with rfl | h
      · rw [List.length_take]; omega
      · exact h2 r h
    · intro r hr x hx
      rcases List.mem_cons.mp hr with rfl | h
      · exact List.mem_of_mem_take hx
      · exact List.mem_of_mem_drop (h3 r h x hx)

/-! ### the invariant -/

/-- the state of a grid object as the property quantifies over it, plus "float bounds are words" -/
structure StateOK {ν : Type} (io : NumIO ν) (g : Grid ν) : Prop where
  grid : GridOK io g
  bounds : BoundsOK g.dtype g.lo g.hi

/-- what no call changes -/
def SameShape {ν : Type} (g g' : Grid ν) : Prop :=
  g'.dtype = g.dtype ∧ g'.nrows = g.nrows ∧ g'.ncols = g.ncols ∧ g'.parent = g.parent

theorem SameShape.refl {ν : Type} (g : Grid ν) : SameShape g g := ⟨rfl, rfl, rfl, rfl⟩

theorem SameShape.trans {ν : Type} {a b c : Grid ν} (h1 : SameShape a b) (h2 : SameShape b c) : SameShape a c :=
  ⟨h2.1.trans h1.1, h2.2.1.trans h1.2.1, h2.2.2.1.trans h1.2.2.1, h2.2.2.2.trans h1.2.2.2⟩

/-- what a call may carry, whatever its shape, index or count: words of the grid's dtype `t`; a value accepted by
`dtype(value)` gives a word of `t` (and, for a no-data value, one that prints and reads back). For the float types these
are facts about numpy's scalar constructors (`castW`, `NodataPrintable`); for the integer types and a python int or a
text they are proved (`nodataWord_int_ok`). -/
def OpWF {ν : Type} (io : NumIO ν) (t : DType) : Op ν → Prop
  | .edit (.item _ w) => w < wordBound t
  | .edit (.fill w) => w < wordBound t
  | .edit (.data rows) => ∀ r ∈ rows, ∀ w ∈ r, w < wordBound t
  | .edit (.nodata w) => w < wordBound t ∧ NodataPrintable io t w
  | .edit _ => True
  | .itemAt _ w => w < wordBound t
  | .fillVal v => ∀ w, nodataWord io t v = .ok w → w < wordBound t
  | .dataND => True
  | .nodataVal v => ∀ w, nodataWord io t v = .ok w → w < wordBound t ∧ NodataPrintable io t w
  | .mindata v => ∀ w, nodataWord io t v = .ok w → w < wordBound t
  | .maxdata v => ∀ w, nodataWord io t v = .ok w → w < wordBound t
  | .load _ _ => True

/-- for an integer type, a python int or a text accepted by `dtype(value)` needs no external fact -/
theorem nodataWord_int_ok {ν : Type} (io : NumIO ν) (t : DType) (hk : t.kind ≠ .float) (v : NVal ν)
    (hv : (∃ n, v = .int n) ∨ (∃ s, v = .text s)) (w : Nat) (h : nodataWord io t v = .ok w) :
    w < wordBound t ∧ NodataPrintable io t w := by
  refine ⟨?_, fun hf => absurd hf hk⟩
  rcases hv with ⟨n, rfl⟩ | ⟨s, rfl⟩
  · unfold nodataWord at h
    cases hk' : t.kind <;> simp only [hk'] at h
    · split at h
      · cases h; exact ofInt_lt t n
      · cases h
    · split at h
      · cases h; exact ofInt_lt t n
      · cases h
    · exact absurd hk' hk
  · unfold nodataWord at h
    cases hk' : t.kind <;> simp only [hk'] at h
    · split at h
      · split at h
        · cases h; exact ofInt_lt t _
        · cases h
      · cases h
    · split at h
      · split at h
        · cases h; exact ofInt_lt t _
        · cases h
      · cases h
    · exact absurd hk' hk

theorem boundOfWord_float {t : DType} (hk : t.kind = .float) (w : Nat) : (boundOfWord t w).toNat = w := by
  simp [boundOfWord, hk]

theorem header_of {ν : Type} (io : NumIO ν) (g g' : Grid ν) (h : HeaderOK io g) (h1 : g'.dtype = g.dtype)
    (h2 : g'.nodata = g.nodata) (h3 : g'.nrows = g.nrows) (h4 : g'.ncols = g.ncols) (h5 : g'.parent = g.parent) :
    HeaderOK io g' :=
  ⟨by rw [h1]; exact h.supported, by rw [h1, h2]; exact h.nodata_lt, by rw [h3]; exact h.nrows_nonneg,
   by rw [h4]; exact h.ncols_nonneg, by rw [h5]; exact h.parent_text, by rw [h1, h2]; exact h.nodata_printable⟩

/-- a cell-wise map with values in the dtype keeps the grid well formed -/
theorem gridOK_mapData {ν : Type} (io : NumIO ν) (g : Grid ν) (hg : GridOK io g) (f : Nat → Nat)
    (hf : ∀ w, w < wordBound g.dtype → f w < wordBound g.dtype) :
    GridOK io { g with data := g.data.map fun r => r.map f } := by
  refine ⟨header_of io g _ hg.header rfl rfl rfl rfl rfl, ?_, ?_, ?_⟩
  · simpa using hg.rows
  · intro r hr
    obtain ⟨r0, h0, rfl⟩ := List.mem_map.mp hr
    simpa using hg.cols r0 h0
  · intro r hr x hx
    obtain ⟨r0, h0, rfl⟩ := List.mem_map.mp hr
    obtain ⟨x0, hx0, rfl⟩ := List.mem_map.mp hx
    exact hf x0 (hg.words r0 h0 x0 hx0)

/-- the data setter on ANY array of words: either rejected (nothing changes) or the grid holds the clipped array -/
theorem setData_cases {ν : Type} (io : NumIO ν) (g : Grid ν) (hg : StateOK io g) (rows : List (List Nat))
    (hw : ∀ r ∈ rows, ∀ w ∈ r, w < wordBound g.dtype) :
    (setData g rows = .error .wrongCount ∧ ((rows.length : Int) ≠ g.nrows ∨ ∃ r ∈ rows, (r.length : Int) ≠ g.ncols)) ∨
    (∃ g', setData g rows = .ok g' ∧ StateOK io g' ∧ SameShape g g' ∧ g'.nodata = g.nodata ∧ g'.lo = g.lo ∧ g'.hi = g.hi ∧
      g'.data = clipData g.dtype g.lo g.hi rows ∧ (rows.length : Int) = g.nrows ∧ ∀ r ∈ rows, (r.length : Int) = g.ncols) := by
  unfold setData
  split
  · rename_i hc
    left
    refine ⟨rfl, ?_⟩
    rcases hc with h | h
    · exact Or.inl h
    · right
      obtain ⟨r, hr, hrl⟩ := List.any_eq_true.mp h
      exact ⟨r, hr, by simpa using hrl⟩
  · rename_i hc
    right
    have hr : (rows.length : Int) = g.nrows := by
      by_contra h; exact hc (Or.inl h)
    have hcs : ∀ r ∈ rows, (r.length : Int) = g.ncols := by
      intro r hrm
      by_contra h
      exact hc (Or.inr (List.any_eq_true.mpr ⟨r, hrm, by simpa using h⟩))
    refine ⟨_, rfl, ⟨⟨header_of io g _ hg.grid.header rfl rfl rfl rfl rfl, ?_, ?_, ?_⟩, hg.bounds⟩, SameShape.refl g |>.imp id id,
      rfl, rfl, rfl, rfl, hr, hcs⟩
    · show ((clipData g.dtype g.lo g.hi rows).length : Int) = g.nrows
      simpa [clipData] using hr
    · intro r hrm
      obtain ⟨r0, h0, rfl⟩ := List.mem_map.mp hrm
      simpa using hcs r0 h0
    · intro r hrm x hx
      obtain ⟨r0, h0, rfl⟩ := List.mem_map.mp hrm
      obtain ⟨x0, hx0, rfl⟩ := List.mem_map.mp hx
      exact clipWord_lt g.dtype g.lo g.hi x0 (hw r0 h0 x0 hx0) hg.bounds

/-- `Grid.load` on ANY bytes: rejected (count) or the grid holds the clipped file content -/
theorem load_cases {ν : Type} (io : NumIO ν) (g : Grid ν) (hg : StateOK io g) (bo : ByteOrder) (bytes : List UInt8) :
    load g bo bytes = .error .wrongCount ∨
    (∃ g', load g bo bytes = .ok g' ∧ StateOK io g' ∧ SameShape g g' ∧ g'.nodata = g.nodata ∧ g'.lo = g.lo ∧ g'.hi = g.hi) := by
  unfold load
  dsimp only
  split
  · exact Or.inl rfl
  · rename_i hc
    right
    have hnr := hg.grid.header.nrows_nonneg
    have hnc := hg.grid.header.ncols_nonneg
    have hlen : (fromfile bo g.dtype bytes).length = g.nrows.toNat * g.ncols.toNat := by
      have h : ((fromfile bo g.dtype bytes).length : Int) = g.nrows * g.ncols := by
        by_contra h; exact hc h
      have h2 : ((g.nrows.toNat * g.ncols.toNat : Nat) : Int) = g.nrows * g.ncols := by
        push_cast
        rw [Int.toNat_of_nonneg hnr, Int.toNat_of_nonneg hnc]
      omega
    obtain ⟨s1, s2, s3⟩ := reshape_spec g.ncols.toNat g.nrows.toNat _ hlen
    refine ⟨_, rfl, ⟨⟨header_of io g _ hg.grid.header rfl rfl rfl rfl rfl, ?_, ?_, ?_⟩, hg.bounds⟩, ⟨rfl, rfl, rfl, rfl⟩, rfl, rfl, rfl⟩
    · show ((clipData g.dtype g.lo g.hi _).length : Int) = g.nrows
      simp only [clipData, List.length_map, s1]
      exact Int.toNat_of_nonneg hnr
    · intro r hrm
      obtain ⟨r0, h0, rfl⟩ := List.mem_map.mp hrm
      simp only [List.length_map, s2 r0 h0]
      exact Int.toNat_of_nonneg hnc
    · intro r hrm x hx
      obtain ⟨r0, h0, rfl⟩ := List.mem_map.mp hrm
      obtain ⟨x0, hx0, rfl⟩ := List.mem_map.mp hx
      exact clipWord_lt g.dtype g.lo g.hi x0 (fromfile_lt bo g.dtype bytes x0 (s3 r0 h0 x0 hx0)) hg.bounds

theorem boundsOK_of_frame {ν : Type} (g g' : Grid ν) (h : BoundsOK g.dtype g.lo g.hi) (h1 : g'.dtype = g.dtype)
    (h2 : g'.lo = g.lo) (h3 : g'.hi = g.hi) : BoundsOK g'.dtype g'.lo g'.hi := by
  rw [h1, h2, h3]; exact h

/-- an edit that cannot be rejected (everything but the data setter) keeps the invariant -/
theorem applyEdit_state {ν : Type} (io : NumIO ν) (g : Grid ν) (hg : StateOK io g) (e : Edit ν) (he : EditOK io g e) :
    ∃ g', applyEdit g e = .ok g' ∧ StateOK io g' ∧ SameShape g g' := by
  obtain ⟨g', h1, h2, h3⟩ := applyEdit_ok io g hg.grid e he
  exact ⟨g', h1, ⟨h2, boundsOK_of_frame g g' hg.bounds h3.1 h3.2.2.2.1 h3.2.2.2.2.1⟩, h3.1, h3.2.1, h3.2.2.1, h3.2.2.2.2.2⟩

theorem setFlat_state {ν : Type} (io : NumIO ν) (g : Grid ν) (hg : StateOK io g) (i w : Nat) (hw : w < wordBound g.dtype) :
    StateOK io { g with data := setFlat g.data i w } := by
  obtain ⟨g', h1, h2, _⟩ := applyEdit_state io g hg (.item i w) hw
  cases h1
  exact h2

/-- **every public mutator keeps the invariant**, accepted or rejected, whatever the shape of the array, the index, the
byte count or the value offered -/
theorem step_ok {ν : Type} (io : NumIO ν) (g : Grid ν) (hg : StateOK io g) (op : Op ν) (hop : OpWF io g.dtype op) :
    StateOK io (step io g op).1 ∧ SameShape g (step io g op).1 := by
  cases op with
  | edit e =>
    cases e with
    | data rows =>
      simp only [step, applyEdit]
      rcases setData_cases io g hg rows hop with ⟨h, _⟩ | ⟨g', h, h1, h2, _⟩
      · rw [h]; exact ⟨hg, SameShape.refl g⟩
      · rw [h]; exact ⟨h1, h2⟩
    | item idx w =>
      obtain ⟨g', h1, h2, h3⟩ := applyEdit_state io g hg (.item idx w) hop
      simp only [step, h1]; exact ⟨h2, h3⟩
    | fill w =>
      obtain ⟨g', h1, h2, h3⟩ := applyEdit_state io g hg (.fill w) hop
      simp only [step, h1]; exact ⟨h2, h3⟩
    | name s =>
      obtain ⟨g', h1, h2, h3⟩ := applyEdit_state io g hg (.name s) trivial
      simp only [step, h1]; exact ⟨h2, h3⟩
    | comment s =>
      obtain ⟨g', h1, h2, h3⟩ := applyEdit_state io g hg (.comment s) trivial
      simp only [step, h1]; exact ⟨h2, h3⟩
    | georef x y c =>
      obtain ⟨g', h1, h2, h3⟩ := applyEdit_state io g hg (.georef x y c) trivial
      simp only [step, h1]; exact ⟨h2, h3⟩
    | nodata w =>
      obtain ⟨g', h1, h2, h3⟩ := applyEdit_state io g hg (.nodata w) hop
      simp only [step, h1]; exact ⟨h2, h3⟩
  | itemAt idx w =>
    simp only [step]
    split
    · exact ⟨setFlat_state io g hg _ w hop, SameShape.refl g⟩
    · exact ⟨hg, SameShape.refl g⟩
  | fillVal v =>
    simp only [step]
    split
    · rename_i w hw
      have hlt := hop w hw
      obtain ⟨g', h1, h2, h3⟩ := applyEdit_state io g hg (.fill w) hlt
      cases h1
      exact ⟨h2, h3⟩
    · exact ⟨hg, SameShape.refl g⟩
  | dataND => exact ⟨hg, SameShape.refl g⟩
  | nodataVal v =>
    simp only [step]
    split
    · rename_i w hw
      obtain ⟨g', h1, h2, h3⟩ := applyEdit_state io g hg (.nodata w) (hop w hw)
      cases h1
      exact ⟨h2, h3⟩
    · exact ⟨hg, SameShape.refl g⟩
  | mindata v =>
    simp only [step, setMin]
    split
    · exact ⟨hg, SameShape.refl g⟩
    · rename_i w hw
      have hlt := hop w hw
      have hb : BoundsOK g.dtype (some (boundOfWord g.dtype w)) g.hi := by
        intro hk
        refine ⟨?_, (hg.bounds hk).2⟩
        intro l hl
        cases hl
        rw [boundOfWord_float hk]; exact hlt
      split
      · exact ⟨⟨⟨header_of io g _ hg.grid.header rfl rfl rfl rfl rfl, hg.grid.rows, hg.grid.cols, hg.grid.words⟩, hb⟩,
          rfl, rfl, rfl, rfl⟩
      · have := gridOK_mapData io g hg.grid (maxWord g.dtype (boundOfWord g.dtype w)) (fun x hx =>
          maxWord_lt g.dtype _ x hx (fun hk => by rw [boundOfWord_float hk]; exact hlt))
        exact ⟨⟨⟨header_of io g _ hg.grid.header rfl rfl rfl rfl rfl, this.rows, this.cols, this.words⟩, hb⟩,
          rfl, rfl, rfl, rfl⟩
  | maxdata v =>
    simp only [step, setMax]
    split
    · exact ⟨hg, SameShape.refl g⟩
    · rename_i w hw
      have hlt := hop w hw
      have hb : BoundsOK g.dtype g.lo (some (boundOfWord g.dtype w)) := by
        intro hk
        refine ⟨(hg.bounds hk).1, ?_⟩
        intro l hl
        cases hl
        rw [boundOfWord_float hk]; exact hlt
      split
      · exact ⟨⟨⟨header_of io g _ hg.grid.header rfl rfl rfl rfl rfl, hg.grid.rows, hg.grid.cols, hg.grid.words⟩, hb⟩,
          rfl, rfl, rfl, rfl⟩
      · have := gridOK_mapData io g hg.grid (minWord g.dtype (boundOfWord g.dtype w)) (fun x hx =>
          minWord_lt g.dtype _ x hx (fun hk => by rw [boundOfWord_float hk]; exact hlt))
        exact ⟨⟨⟨header_of io g _ hg.grid.header rfl rfl rfl rfl rfl, this.rows, this.cols, this.words⟩, hb⟩,
          rfl, rfl, rfl, rfl⟩
  | load bo bytes =>
    simp only [step]
    rcases load_cases io g hg bo bytes with h | ⟨g', h, h1, h2, _⟩
    · rw [h]; exact ⟨hg, SameShape.refl g⟩
    · rw [h]; exact ⟨h1, h2⟩

/-- **a rejected call leaves the object as it was** — except the `mindata / maxdata` setters, which have stored the new
bound (and nothing else) when they raise for `mindata > maxdata` -/
theorem step_rejected {ν : Type} (io : NumIO ν) (g : Grid ν) (op : Op ν) (e : Err) (h : (step io g op).2 = some e) :
    (step io g op).1 = g ∨
    (e = .badBounds ∧ ∃ b, (step io g op).1 = { g with lo := some b } ∨ (step io g op).1 = { g with hi := some b }) := by
  cases op with
  | edit ed =>
    simp only [step] at h ⊢
    split at h
    · cases h
    · exact Or.inl rfl
  | itemAt idx w =>
    simp only [step] at h ⊢
    split at h
    · cases h
    · exact Or.inl rfl
  | fillVal v =>
    simp only [step] at h ⊢
    split at h
    · cases h
    · exact Or.inl rfl
  | dataND => exact Or.inl rfl
  | nodataVal v =>
    simp only [step] at h ⊢
    split at h
    · cases h
    · exact Or.inl rfl
  | mindata v =>
    simp only [step, setMin] at h ⊢
    split at h
    · exact Or.inl rfl
    · rename_i w heq
      split at h
      · rename_i hgt
        cases h
        rw [if_pos hgt]
        exact Or.inr ⟨rfl, _, Or.inl rfl⟩
      · cases h
  | maxdata v =>
    simp only [step, setMax] at h ⊢
    split at h
    · exact Or.inl rfl
    · rename_i w heq
      split at h
      · rename_i hgt
        cases h
        rw [if_pos hgt]
        exact Or.inr ⟨rfl, _, Or.inr rfl⟩
      · cases h
  | load bo bytes =>
    simp only [step] at h ⊢
    split at h
    · cases h
    · exact Or.inl rfl

/-- the invariant along a whole history -/
theorem run_ok {ν : Type} (io : NumIO ν) (ops : List (Op ν)) : ∀ (g : Grid ν), StateOK io g →
    (∀ op ∈ ops, OpWF io g.dtype op) → StateOK io (run io g ops).1 ∧ SameShape g (run io g ops).1 := by
  induction ops with
  | nil => intro g hg _; exact ⟨hg, SameShape.refl g⟩
  | cons op ops ih =>
    intro g hg hops
    obtain ⟨h1, h2⟩ := step_ok io g hg op (hops op (by simp))
    obtain ⟨h3, h4⟩ := ih (step io g op).1 h1 (fun o ho => by rw [h2.1]; exact hops o (by simp [ho]))
    simp only [run]
    exact ⟨h3, h2.trans h4⟩

theorem run_flags_length {ν : Type} (io : NumIO ν) (ops : List (Op ν)) : ∀ g : Grid ν, (run io g ops).2.length = ops.length := by
  induction ops with
  | nil => intro g; rfl
  | cons op ops ih => intro g; simp [run, ih]

/-! ### item access -/

theorem setFlat_flatten (rows : List (List Nat)) (i w : Nat) : (setFlat rows i w).flatten = rows.flatten.set i w := by
  induction rows generalizing i with
  | nil => simp [setFlat]
  | cons r rs ih =>
    unfold setFlat
    split
    · rename_i h
      simp only [List.flatten_cons]
      rw [List.set_append_left _ _ h]
    · rename_i h
      simp only [List.flatten_cons, ih]
      rw [List.set_append_right _ _ (by omega)]

theorem flatIndex_lt {size : Nat} {idx : Int} {i : Nat} (h : flatIndex size idx = some i) : i < size := by
  unfold flatIndex at h
  split at h
  · cases h; omega
  · split at h
    · cases h; omega
    · cases h

end HydroVerif.C13
