/-
C05 — glue between the GENERATED wrapper specifications (`Generated/PyxSpec.lean`, written by
`harness/pyx2spec.py` from the three `.pyx` files) and the footprint models: for every kernel, the extents
function `Ext` read off the generated `c_K.Args` (pointer parameter ↦ model buffer), and the hand-written
`PyAlloc_K` — what the PYTHON wrapper adds to the Cython asserts (how it sizes the arrays it allocates, which
options it fixes, what it validates before the call).
-/
import HydroVerif.Lemmas.C05
import HydroVerif.Generated.PyxSpec

namespace HydroVerif.C05
open HydroVerif.Generated

/-! ### pointer parameter ↦ model buffer -/

def ext_add1month (a : PyxSpec.c_dateutils_add1month.Args) : Ext | .date => a.date | _ => 0
def ext_add1day (a : PyxSpec.c_dateutils_add1day.Args) : Ext | .date => a.date | _ => 0
def ext_getdate (a : PyxSpec.c_dateutils_getdate.Args) : Ext | .date => a.date | _ => 0
def ext_comparedates (a : PyxSpec.c_dateutils_comparedates.Args) : Ext
  | .date1 => a.date1 | .date2 => a.date2 | _ => 0
def ext_aggregate (a : PyxSpec.c_aggregate.Args) : Ext
  | .aggindex => a.aggindex | .inputs => a.inputs | .outputs => a.outputs | .iend => a.iend | _ => 0
def ext_flathomogen (a : PyxSpec.c_flathomogen.Args) : Ext
  | .aggindex => a.aggindex | .inputs => a.inputs | .outputs => a.outputs | _ => 0
def ext_islin (a : PyxSpec.c_islin.Args) : Ext | .data => a.inputs | .islin => a.islin | _ => 0
def ext_var2h (a : PyxSpec.c_var2h.Args) : Ext
  | .varsec => a.varsec | .varvalues => a.varvalues | .hvalues => a.hvalues | _ => 0
def ext_eckhardt (a : PyxSpec.c_eckhardt.Args) : Ext | .inputs => a.inputs | .outputs => a.outputs | _ => 0
def ext_olsleverage (a : PyxSpec.c_olsleverage.Args) : Ext
  | .predictors => a.predictors | .tXXinv => a.tXXinv | .leverages => a.leverages | _ => 0
def ext_armodel_sim (a : PyxSpec.c_armodel_sim.Args) : Ext
  | .params => a.params | .innov => a.innov | .outputs => a.outputs | _ => 0
def ext_armodel_residual (a : PyxSpec.c_armodel_residual.Args) : Ext
  | .params => a.params | .inputs => a.inputs | .residuals => a.residuals | _ => 0
def ext_crps (a : PyxSpec.c_crps.Args) : Ext
  | .obs => a.obs | .sim => a.sim | .weights => a.weights_vector | .table => a.reliability_table
  | .decompos => a.crps_decompos | _ => 0
def ext_ensrank (a : PyxSpec.c_ensrank.Args) : Ext | .sim => a.sim | .fmat => a.fmat | .ranks => a.ranks | _ => 0
def ext_ad_test (a : PyxSpec.c_ad_test.Args) : Ext | .unifdata => a.unifdata | .outputs => a.outputs | _ => 0
def ext_paretofront (a : PyxSpec.c_paretofront.Args) : Ext
  | .data => a.data | .isdominated => a.isdominated | _ => 0
def ext_coord2cell (a : PyxSpec.c_coord2cell.Args) : Ext | .xycoords => a.xycoords | .idxcell => a.idxcell | _ => 0
def ext_cell2coord (a : PyxSpec.c_cell2coord.Args) : Ext | .idxcell => a.idxcell | .xycoords => a.xycoords | _ => 0
def ext_cell2rowcol (a : PyxSpec.c_cell2rowcol.Args) : Ext | .idxcell => a.idxcell | .rowcols => a.rowcols | _ => 0
def ext_slice (a : PyxSpec.c_slice.Args) : Ext
  | .data => a.data | .xyslice => a.xyslice | .zslice => a.zslice | _ => 0
def ext_neighbours (a : PyxSpec.c_neighbours.Args) : Ext | .neighbours => a.neighbours | _ => 0
def ext_upstream (a : PyxSpec.c_upstream.Args) : Ext
  | .flowdircode => a.flowdircode | .flowdir => a.flowdir | .idxdown => a.idxdown | .idxup => a.idxup | _ => 0
def ext_downstream (a : PyxSpec.c_downstream.Args) : Ext
  | .flowdircode => a.flowdircode | .flowdir => a.flowdir | .idxdown => a.idxdown | .idxup => a.idxup | _ => 0
def ext_exclude_zero (a : PyxSpec.c_exclude_zero_area_boundary.Args) : Ext
  | .xycoords => a.xycoords | .idxok => a.idxok | _ => 0
def ext_delineate_river (a : PyxSpec.c_delineate_river.Args) : Ext
  | .flowdircode => a.flowdircode | .flowdir => a.flowdir | .npoints => a.npoints | .idxcells => a.idxcells
  | .rivdata => a.data | _ => 0
def ext_accumulate (a : PyxSpec.c_accumulate.Args) : Ext
  | .flowdircode => a.flowdircode | .flowdir => a.flowdir | .toacc => a.to_accumulate
  | .accumulation => a.accumulation | _ => 0
def ext_intersect (a : PyxSpec.c_intersect.Args) : Ext
  | .xyarea => a.xy_area | .npoints => a.npoints | .idxcells => a.idxcells | .weights => a.weights | _ => 0
def ext_voronoi (a : PyxSpec.c_voronoi.Args) : Ext
  | .idxcellsArea => a.idxcells_area | .xypoints => a.xypoints | .weights => a.weights | _ => 0
def ext_slope (a : PyxSpec.c_slope.Args) : Ext
  | .flowdircode => a.flowdircode | .flowdir => a.flowdir | .altitude => a.altitude | .slopeval => a.slopeval
  | _ => 0
def ext_inside (a : PyxSpec.c_inside.Args) : Ext
  | .points => a.points | .polygon => a.polygon | .xlim => a.polygon_xlim | .ylim => a.polygon_ylim
  | .inside => a.inside | _ => 0
def ext_delineate_area (a : PyxSpec.c_delineate_area.Args) : Ext
  | .flowdircode => a.flowdircode | .flowdir => a.flowdir | .idxinlets => a.idxinlets
  | .idxcellsArea => a.idxcells_area | .buffer1 => a.buffer1 | .buffer2 => a.buffer2 | _ => 0
def ext_delineate_boundary (a : PyxSpec.c_delineate_boundary.Args) : Ext
  | .idxcellsArea => a.idxcells_area | .buffer => a.buffer | .mask => a.catchment_area_mask
  | .idxboundary => a.idxcells_boundary | _ => 0
def ext_flowpathlengths (a : PyxSpec.c_delineate_flowpathlengths_in_catchment.Args) : Ext
  | .flowdircode => a.flowdircode | .flowdir => a.flowdir | .idxcellsArea => a.idxcells_area
  | .flowpaths => a.flowpathlengths | _ => 0

/-! ### what numpy guarantees about an array that exists -/

/-- the number of elements of an existing numpy array fits `npy_intp` (64 bits): numpy refuses to create a
larger one ("array is too big"); used for the grids whose two dimensions the gis kernels multiply -/
def NumpySize (nrows ncols : Nat) : Prop := (nrows : Int) * (ncols : Int) ≤ 9223372036854775807

/-! ### PyAlloc: what the Python wrappers establish beyond the Cython asserts -/

/-- `Grid.coord2cell` (after the fix): `xycoords` is validated to be `[n, 2]`; the grid `(nrows, ncols)` is the
shape of the existing array `Grid._data` -/
def PyAlloc_coord2cell (s : PyxSpec.coord2cell.Shapes) (v : PyxSpec.coord2cell.Scalars) : Prop :=
  s.xycoords_1 = 2 ∧ 0 ≤ v.nrows ∧ 0 ≤ v.ncols ∧ v.nrows * v.ncols ≤ 9223372036854775807

/-- `Grid.cell2coord` / `Grid.cell2rowcol` / `Grid.neighbours`: `(nrows, ncols)` = shape of `Grid._data` -/
def PyAlloc_grid (nrows ncols : Int) : Prop := 0 ≤ nrows ∧ 0 ≤ ncols ∧ nrows * ncols ≤ 9223372036854775807

/-- `Grid.slice`: `zslice = np.zeros(len(xyslice))` -/
def PyAlloc_slice (s : PyxSpec.slice'.Shapes) : Prop := s.zslice_0 = s.xyslice_0 ∧ NumpySize s.data_0 s.data_1

/-- `metrics.crps`: `use_weights = 0`, `weights = np.zeros(nforc)`, and `__check_ensemble_data` raises unless
some row of `ens` holds a value (so `ens` has at least one column) -/
def PyAlloc_crps (s : PyxSpec.crps.Shapes) (v : PyxSpec.crps.Scalars) : Prop :=
  v.use_weights = 0 ∧ s.weight_vector_0 = s.obs_0 ∧ 1 ≤ s.sim_1

/-- `Catchment.delineate_boundary`: `xy = cell2coord(idxcells_boundary)` is `[n, 2]` -/
def PyAlloc_exclude_zero (s : PyxSpec.exclude_zero_area_boundary.Shapes) : Prop := s.xycoords_1 = 2

/-- `Catchment.intersect`: `idxcells = np.zeros(nrows*ncols)`, `weights` likewise, for the grid it intersects with -/
def PyAlloc_intersect (s : PyxSpec.intersect.Shapes) (v : PyxSpec.intersect.Scalars) : Prop :=
  0 ≤ v.nrows ∧ 0 ≤ v.ncols ∧ v.nrows * v.ncols ≤ 9223372036854775807 ∧ (s.idxcells_0 : Int) = v.nrows * v.ncols

/-- `Catchment.delineate_boundary`: `(nrows, ncols)` are the sides of the flow direction grid, an existing array;
sides below 2·10⁹ (the kernel squares their maximum and the row / column differences in `long long`) -/
def PyAlloc_boundary (v : PyxSpec.delineate_boundary.Scalars) : Prop :=
  (0 ≤ v.nrows ∧ v.nrows ≤ 2000000000) ∧ (0 ≤ v.ncols ∧ v.ncols ≤ 2000000000)

/-- `dutils.var2h`: `hstartsec` is the epoch second of a `datetime` (year ≤ 9999) -/
def PyAlloc_var2h (v : PyxSpec.var2h.Scalars) : Prop :=
  -4611686018427387904 ≤ v.hstartsec ∧ v.hstartsec ≤ 4611686018427387904

end HydroVerif.C05
