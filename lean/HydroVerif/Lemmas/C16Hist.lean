/-
Helper lemmas for `Model/C16Hist.lean`: `np.unique` / `union1d` / `setdiff1d` as sorted duplicate-free lists, element
assignment in the caller's object lists.
-/
import HydroVerif.Model.C16Hist
import Mathlib.Data.List.Basic
import Mathlib.Data.List.Pairwise
import Mathlib.Tactic.Linarith

namespace HydroVerif.C16

theorem mem_insertSorted (x y : Int) (l : List Int) : y ∈ insertSorted x l ↔ y = x ∨ y ∈ l := by
  induction l with
  | nil => simp [insertSorted]
  | cons z t ih =>
    unfold insertSorted
    split
    · simp
    · split
      · rename_i h; subst h; simp
      · simp only [List.mem_cons, ih]; tauto

theorem insertSorted_sorted (x : Int) (l : List Int) (h : l.Pairwise (· < ·)) :
    (insertSorted x l).Pairwise (· < ·) := by
  induction l with
  | nil => simp [insertSorted]
  | cons z t ih =>
    rw [List.pairwise_cons] at h
    unfold insertSorted
    split
    · rename_i hlt
      rw [List.pairwise_cons]
      refine ⟨?_, List.pairwise_cons.2 h⟩
      intro a ha
      rcases List.mem_cons.1 ha with rfl | ha
      · exact hlt
      · exact lt_trans hlt (h.1 a ha)
    · split
      · exact List.pairwise_cons.2 h
      · rename_i h1 h2
        rw [List.pairwise_cons]
        refine ⟨?_, ih h.2⟩
        intro a ha
        rcases (mem_insertSorted x a t).1 ha with rfl | ha
        · omega
        · exact h.1 a ha

theorem mem_sortDedup (x : Int) (l : List Int) : x ∈ sortDedup l ↔ x ∈ l := by
  unfold sortDedup
  induction l with
  | nil => simp
  | cons y t ih => rw [List.foldr_cons, mem_insertSorted, ih, List.mem_cons]

theorem sortDedup_sorted (l : List Int) : (sortDedup l).Pairwise (· < ·) := by
  unfold sortDedup
  induction l with
  | nil => simp
  | cons y t ih => rw [List.foldr_cons]; exact insertSorted_sorted y _ ih

theorem sortDedup_nodup (l : List Int) : (sortDedup l).Nodup :=
  (sortDedup_sorted l).imp (fun h => ne_of_lt h)

theorem mem_union1d (x : Int) (a b : List Int) : x ∈ union1d a b ↔ x ∈ a ∨ x ∈ b := by
  unfold union1d
  rw [mem_sortDedup, List.mem_append]

theorem mem_setdiff1d (x : Int) (a b : List Int) : x ∈ setdiff1d a b ↔ x ∈ a ∧ x ∉ b := by
  unfold setdiff1d
  simp [mem_sortDedup]

theorem setdiff1d_nodup (a b : List Int) : (setdiff1d a b).Nodup := (sortDedup_nodup a).filter _

theorem setAt_length {β : Type} (l : List β) (i : Nat) (v : β) : (setAt l i v).length = l.length := by
  induction l generalizing i with
  | nil => rfl
  | cons h t ih => cases i <;> simp [setAt, ih]

theorem setAt_getElem?_ne {β : Type} (l : List β) (i k : Nat) (v : β) (h : k ≠ i) : (setAt l i v)[k]? = l[k]? := by
  induction l generalizing i k with
  | nil => rfl
  | cons x t ih =>
    cases i with
    | zero =>
      cases k with
      | zero => exact absurd rfl h
      | succ k => simp [setAt]
    | succ i =>
      cases k with
      | zero => simp [setAt]
      | succ k => simp only [setAt, List.getElem?_cons_succ]; exact ih i k (by omega)

theorem setAt_getElem?_eq {β : Type} (l : List β) (i : Nat) (v : β) (h : i < l.length) : (setAt l i v)[i]? = some v := by
  induction l generalizing i with
  | nil => simp at h
  | cons x t ih =>
    cases i with
    | zero => simp [setAt]
    | succ i => simp only [setAt, List.getElem?_cons_succ]; exact ih i (by simpa using h)

end HydroVerif.C16
