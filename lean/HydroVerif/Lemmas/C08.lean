/-
C08 — helper definitions and lemmas (not property statements).
Specification vocabulary (`groupOf`, `keys`, `vals`, `nmiss`), the loop invariants of the two kernels
(kernel = per-run fold, for every operator, over any carrier), the description of runs of a non-decreasing
index by `filter`, and the per-operator closed forms of the fold over an ordered field.
-/
import HydroVerif.Model.C08Spec
import Mathlib.Algebra.Order.Field.Basic
import Mathlib.Algebra.BigOperators.Group.List.Basic
import Mathlib.Data.List.MinMax
import Mathlib.Tactic.Ring
import Mathlib.Tactic.Linarith
import Mathlib.Tactic.FieldSimp

namespace HydroVerif.C08

/-! ### specification vocabulary -/

-- `groupOf`, `keys`, `vals`, `nmiss`, `accOf`, `hcells`, `red`, `reduce`, `cell` live in `Model/C08Spec.lean`
-- (Mathlib-free, executed by the driver)

/-- non-decreasing index, as the kernels test it: every element against its predecessor -/
def nondecr {β : Type} : Int → List (Int × β) → Prop
  | _, [] => True
  | k, (i, _) :: rest => k ≤ i ∧ nondecr i rest

theorem nondecr_ge {β : Type} : ∀ (l : List (Int × β)) (k : Int), nondecr k l → ∀ p ∈ l, k ≤ p.1
  | [], _, _, _, hp => by cases hp
  | (i, x) :: rest, k, h, p, hp => by
    obtain ⟨hki, hr⟩ := h
    rcases List.mem_cons.mp hp with rfl | hp
    · exact hki
    · exact le_trans hki (nondecr_ge rest i hr p hp)

theorem nondecr_iff_pairwise {β : Type} : ∀ (l : List (Int × β)) (k : Int),
    nondecr k l ↔ (k :: l.map Prod.fst).Pairwise (· ≤ ·)
  | [], k => by simp [nondecr]
  | (i, x) :: rest, k => by
    have ih := nondecr_iff_pairwise rest i
    simp only [nondecr, List.map_cons, List.pairwise_cons] at ih ⊢
    constructor
    · rintro ⟨hki, hr⟩
      have hp := ih.mp hr
      refine ⟨?_, hp⟩
      intro j hj
      rcases List.mem_cons.mp hj with rfl | hj
      · exact hki
      · exact le_trans hki (hp.1 j hj)
    · rintro ⟨hk, hp⟩
      exact ⟨hk i (List.mem_cons_self ..), ih.mpr hp⟩

/-- the head of a non-empty list bounds nothing: sortedness of the index column alone -/
theorem nondecr_head_iff {β : Type} (i : Int) (x : β) (rest : List (Int × β)) :
    nondecr i ((i, x) :: rest) ↔ (((i, x) :: rest).map Prod.fst).Pairwise (· ≤ ·) := by
  rw [show nondecr i ((i, x) :: rest) ↔ nondecr i rest from ⟨fun h => h.2, fun h => ⟨le_refl _, h⟩⟩]
  rw [nondecr_iff_pairwise]
  simp

/-! ### runs of equal index -/

/-- maximal runs of equal index with their key, in order; `cur` is the run in progress -/
def groupsGo {β : Type} (k : Int) (cur : List β) : List (Int × β) → List (Int × List β)
  | [] => [(k, cur)]
  | (i, x) :: rest => if i = k then groupsGo k (cur ++ [x]) rest else (k, cur) :: groupsGo i [x] rest

def groups {β : Type} : List (Int × β) → List (Int × List β)
  | [] => []
  | (i, x) :: rest => groupsGo i [x] rest

theorem groupOf_cons_eq {β : Type} (k : Int) (x : β) (l : List (Int × β)) :
    groupOf ((k, x) :: l) k = x :: groupOf l k := by
  simp [groupOf]

theorem groupOf_cons_ne {β : Type} {i k : Int} (h : i ≠ k) (x : β) (l : List (Int × β)) :
    groupOf ((i, x) :: l) k = groupOf l k := by
  simp [groupOf, h]

theorem groupOf_eq_nil_of_lt {β : Type} {k : Int} (l : List (Int × β)) (h : ∀ p ∈ l, k < p.1) :
    groupOf l k = [] := by
  unfold groupOf
  rw [List.map_eq_nil_iff, List.filter_eq_nil_iff]
  intro p hp
  have := h p hp
  simp
  omega

/-- on a non-decreasing index the runs are exactly the `filter` groups of the distinct keys -/
theorem groupsGo_eq {β : Type} : ∀ (l : List (Int × β)) (k : Int) (cur : List β), nondecr k l →
    groupsGo k cur l = (k, cur ++ groupOf l k) ::
      (((l.map Prod.fst).filter fun j => !j == k).eraseDups).map fun k' => (k', groupOf l k')
  | [], k, cur, _ => by simp [groupsGo, groupOf]
  | (i, x) :: rest, k, cur, h => by
    obtain ⟨hki, hr⟩ := h
    by_cases hik : i = k
    · subst hik
      rw [groupsGo, if_pos rfl, groupsGo_eq rest i (cur ++ [x]) hr, groupOf_cons_eq]
      simp only [List.map_cons, List.append_assoc, List.singleton_append]
      rw [List.filter_cons_of_neg (by simp)]
      congr 1
      apply List.map_congr_left
      intro k' hk'
      rw [List.mem_eraseDups, List.mem_filter] at hk'
      have : i ≠ k' := by
        intro e; subst e; simp at hk'
      rw [groupOf_cons_ne this]
    · have hlt : k < i := lt_of_le_of_ne hki (Ne.symm hik)
      have hge := nondecr_ge rest i hr
      rw [groupsGo, if_neg hik, groupsGo_eq rest i [x] hr]
      have hnil : groupOf ((i, x) :: rest) k = [] := by
        apply groupOf_eq_nil_of_lt
        intro p hp
        rcases List.mem_cons.mp hp with rfl | hp
        · exact hlt
        · exact lt_of_lt_of_le hlt (hge p hp)
      rw [hnil, List.append_nil]
      congr 1
      have hfil : ((((i, x) :: rest).map Prod.fst).filter fun j => !j == k) = i :: rest.map Prod.fst := by
        show List.filter _ (i :: rest.map Prod.fst) = _
        rw [List.filter_eq_self]
        intro j hj
        have hj : j ∈ ((i, x) :: rest).map Prod.fst := by simpa using hj
        have : k < j := by
          rcases List.mem_map.mp hj with ⟨p, hp, rfl⟩
          rcases List.mem_cons.mp hp with rfl | hp
          · exact hlt
          · exact lt_of_lt_of_le hlt (hge p hp)
        simp
        omega
      rw [hfil, List.eraseDups_cons, List.map_cons, groupOf_cons_eq]
      congr 1
      apply List.map_congr_left
      intro k' hk'
      rw [List.mem_eraseDups, List.mem_filter] at hk'
      have : i ≠ k' := by
        intro e; subst e; simp at hk'
      rw [groupOf_cons_ne this]

theorem groups_eq {β : Type} (l : List (Int × β)) (h : (l.map Prod.fst).Pairwise (· ≤ ·)) :
    groups l = (keys l).map fun k => (k, groupOf l k) := by
  cases l with
  | nil => simp [groups, keys]
  | cons p rest =>
    obtain ⟨i, x⟩ := p
    have hnd : nondecr i rest := ((nondecr_head_iff i x rest).mpr h).2
    rw [groups, groupsGo_eq rest i [x] hnd]
    simp only [keys, List.map_cons, List.eraseDups_cons, groupOf_cons_eq, List.singleton_append]
    congr 1
    apply List.map_congr_left
    intro k' hk'
    rw [List.mem_eraseDups, List.mem_filter] at hk'
    have : i ≠ k' := by
      intro e; subst e; simp at hk'
    rw [groupOf_cons_ne this]

/-- the runs concatenate back to the input column -/
theorem groupsGo_flatten {β : Type} : ∀ (l : List (Int × β)) (k : Int) (cur : List β),
    (groupsGo k cur l).flatMap Prod.snd = cur ++ l.map Prod.snd
  | [], k, cur => by simp [groupsGo]
  | (i, x) :: rest, k, cur => by
    rw [groupsGo]
    split
    · rw [groupsGo_flatten rest k (cur ++ [x])]; simp
    · rw [List.flatMap_cons, groupsGo_flatten rest i [x]]; simp

theorem groups_flatten {β : Type} (l : List (Int × β)) :
    (groups l).flatMap Prod.snd = l.map Prod.snd := by
  cases l with
  | nil => simp [groups]
  | cons p rest => obtain ⟨i, x⟩ := p; simp [groups, groupsGo_flatten]

/-! ### loop invariants: each kernel is the per-run fold (any carrier, any operator) -/
section loopinv
set_option linter.unusedSectionVars false
variable {α : Type} [Add α] [Div α] [LT α] [DecidableLT α] [OfNat α 0] [NatCast α]

theorem accOf_concat (op : Int) (g : List (Option α)) (x : Option α) :
    accOf op (g ++ [x]) = accStep op (accOf op g) x := by
  simp [accOf, List.foldl_append]

theorem accOf_singleton (op : Int) (x : Option α) :
    accOf op [x] = accStep op (Acc.init : Acc α) x := by
  simp [accOf]

theorem loop_ok (op maxnan : Int) (nval : Nat) :
    ∀ (l : List (Int × Option α)) (s : St α) (cur : List (Option α)),
      s.acc = accOf op cur → nondecr s.prev l → s.out.length + l.length < nval →
      ∃ s', loop op maxnan nval s l = .ok s' ∧
        (flush op maxnan s'.acc :: s'.out).reverse =
          s.out.reverse ++ (groupsGo s.prev cur l).map fun g => flush op maxnan (accOf op g.2)
  | [], s, cur, hacc, _, _ => ⟨s, rfl, by simp [groupsGo, hacc]⟩
  | (i, x) :: rest, s, cur, hacc, hnd, hlen => by
    obtain ⟨hle, hr⟩ := hnd
    simp only [List.length_cons] at hlen
    by_cases hik : i = s.prev
    · have hstep : step op maxnan nval s i x =
          .ok { prev := s.prev, acc := accStep op s.acc x, out := s.out } := by
        simp [step, hik]
      obtain ⟨s', h1, h2⟩ := loop_ok op maxnan nval rest
        { prev := s.prev, acc := accStep op s.acc x, out := s.out } (cur ++ [x])
        (by simp [accOf_concat, hacc]) (by simpa [hik] using hr) (by simp; omega)
      refine ⟨s', by simp [loop, hstep, h1], ?_⟩
      simpa [groupsGo, hik] using h2
    · have hnlt : ¬ i < s.prev := not_lt.mpr hle
      have hstep : step op maxnan nval s i x =
          .ok { prev := i, acc := accStep op Acc.init x, out := flush op maxnan s.acc :: s.out } := by
        have : ¬ nval ≤ s.out.length + 1 := by omega
        simp [step, hnlt, hik, this]
      obtain ⟨s', h1, h2⟩ := loop_ok op maxnan nval rest
        { prev := i, acc := accStep op Acc.init x, out := flush op maxnan s.acc :: s.out } [x]
        (by simp [accOf_singleton]) (by simpa using hr) (by simp; omega)
      refine ⟨s', by simp [loop, hstep, h1], ?_⟩
      simpa [groupsGo, hik, hacc] using h2

theorem loop_err (op maxnan : Int) (nval : Nat) :
    ∀ (l : List (Int × Option α)) (s : St α),
      ¬ nondecr s.prev l → s.out.length + l.length < nval →
      loop op maxnan nval s l = .error .decreasingIndex
  | [], s, h, _ => absurd trivial h
  | (i, x) :: rest, s, hnd, hlen => by
    simp only [List.length_cons] at hlen
    by_cases hlt : i < s.prev
    · simp [loop, step, hlt]
    · have hr : ¬ nondecr i rest := fun h => hnd ⟨not_lt.mp hlt, h⟩
      by_cases hik : i = s.prev
      · have hstep : step op maxnan nval s i x =
            .ok { prev := s.prev, acc := accStep op s.acc x, out := s.out } := by
          simp [step, hik]
        have := loop_err op maxnan nval rest
          { prev := s.prev, acc := accStep op s.acc x, out := s.out } (by simpa [hik] using hr) (by simp; omega)
        simp [loop, hstep, this]
      · have hstep : step op maxnan nval s i x =
            .ok { prev := i, acc := accStep op Acc.init x, out := flush op maxnan s.acc :: s.out } := by
          have : ¬ nval ≤ s.out.length + 1 := by omega
          simp [step, hlt, hik, this]
        have := loop_err op maxnan nval rest
          { prev := i, acc := accStep op Acc.init x, out := flush op maxnan s.acc :: s.out }
          (by simpa using hr) (by simp; omega)
        simp [loop, hstep, this]

/-- `c_aggregate` on a non-decreasing index = one flushed fold per run -/
theorem aggregate_eq_groups (op maxnan : Int) (l : List (Int × Option α)) (hne : l ≠ [])
    (hs : (l.map Prod.fst).Pairwise (· ≤ ·)) :
    aggregate op maxnan l = .ok ((groups l).map fun g => flush op maxnan (accOf op g.2)) := by
  cases l with
  | nil => exact absurd rfl hne
  | cons p rest =>
    obtain ⟨i, x⟩ := p
    have hnd : nondecr i rest := ((nondecr_head_iff i x rest).mpr hs).2
    have hstep : step op maxnan (rest.length + 1) ({ prev := i, acc := Acc.init, out := [] } : St α) i x =
        .ok { prev := i, acc := accStep op Acc.init x, out := [] } := by
      simp [step]
    obtain ⟨s', h1, h2⟩ := loop_ok op maxnan (rest.length + 1) rest
      { prev := i, acc := accStep op Acc.init x, out := [] } [x]
      (by simp [accOf_singleton]) (by simpa using hnd) (by simp)
    simp only [aggregate, List.length_cons, loop, hstep, h1]
    simp only [List.reverse_nil, List.nil_append] at h2
    rw [h2]
    rfl

theorem aggregate_err (op maxnan : Int) (l : List (Int × Option α)) (hne : l ≠ [])
    (hs : ¬ (l.map Prod.fst).Pairwise (· ≤ ·)) :
    aggregate op maxnan l = .error .decreasingIndex := by
  cases l with
  | nil => exact absurd rfl hne
  | cons p rest =>
    obtain ⟨i, x⟩ := p
    have hnd : ¬ nondecr i rest := fun h => hs ((nondecr_head_iff i x rest).mp ⟨le_refl _, h⟩)
    have hstep : step op maxnan (rest.length + 1) ({ prev := i, acc := Acc.init, out := [] } : St α) i x =
        .ok { prev := i, acc := accStep op Acc.init x, out := [] } := by
      simp [step]
    have := loop_err op maxnan (rest.length + 1) rest
      { prev := i, acc := accStep op Acc.init x, out := [] } (by simpa using hnd) (by simp)
    simp only [aggregate, List.length_cons, loop, hstep, this]

theorem hflush_reverse (maxnan : Int) (a : Acc α) (g : List (Option α)) :
    (hflush maxnan a g.reverse).reverse = hflush maxnan a g := by
  simp [hflush, List.map_reverse]

theorem hloop_ok (maxnan : Int) :
    ∀ (l : List (Int × Option α)) (s : HSt α) (cur : List (Option α)),
      s.acc = accOf 0 cur → s.grp = cur.reverse → nondecr s.prev l →
      ∃ s', hloop maxnan s l = .ok s' ∧
        (hflush maxnan s'.acc s'.grp ++ s'.out).reverse =
          s.out.reverse ++ (groupsGo s.prev cur l).flatMap fun g => hcells maxnan g.2
  | [], s, cur, hacc, hgrp, _ => by
    refine ⟨s, rfl, ?_⟩
    simp only [groupsGo, List.flatMap_cons, List.flatMap_nil, List.append_nil, hcells, List.reverse_append]
    rw [hgrp, hacc, hflush_reverse]
  | (i, x) :: rest, s, cur, hacc, hgrp, hnd => by
    obtain ⟨hle, hr⟩ := hnd
    by_cases hik : i = s.prev
    · have hstep : hstep maxnan s i x =
          .ok { prev := s.prev, acc := accStep 0 s.acc x, grp := x :: s.grp, out := s.out } := by
        simp [hstep, hik]
      obtain ⟨s', h1, h2⟩ := hloop_ok maxnan rest
        { prev := s.prev, acc := accStep 0 s.acc x, grp := x :: s.grp, out := s.out } (cur ++ [x])
        (by simp [accOf_concat, hacc]) (by simp [hgrp]) (by simpa [hik] using hr)
      refine ⟨s', by simp [hloop, hstep, h1], ?_⟩
      simpa [groupsGo, hik] using h2
    · have hnlt : ¬ i < s.prev := not_lt.mpr hle
      have hstep : hstep maxnan s i x =
          .ok { prev := i, acc := accStep 0 Acc.init x, grp := [x],
                out := hflush maxnan s.acc s.grp ++ s.out } := by
        simp [hstep, hnlt, hik]
      obtain ⟨s', h1, h2⟩ := hloop_ok maxnan rest
        { prev := i, acc := accStep 0 Acc.init x, grp := [x], out := hflush maxnan s.acc s.grp ++ s.out } [x]
        (by simp [accOf_singleton]) (by simp) (by simpa using hr)
      refine ⟨s', by simp [hloop, hstep, h1], ?_⟩
      rw [h2]
      simp only [groupsGo, if_neg hik, List.flatMap_cons, List.reverse_append, hcells, List.append_assoc]
      rw [hgrp, hacc, hflush_reverse]

theorem hloop_err (maxnan : Int) :
    ∀ (l : List (Int × Option α)) (s : HSt α), ¬ nondecr s.prev l →
      hloop maxnan s l = .error .decreasingIndex
  | [], s, h => absurd trivial h
  | (i, x) :: rest, s, hnd => by
    by_cases hlt : i < s.prev
    · simp [hloop, hstep, hlt]
    · have hr : ¬ nondecr i rest := fun h => hnd ⟨not_lt.mp hlt, h⟩
      by_cases hik : i = s.prev
      · have := hloop_err maxnan rest
          { prev := s.prev, acc := accStep 0 s.acc x, grp := x :: s.grp, out := s.out } (by simpa [hik] using hr)
        simp [hloop, hstep, hik, this]
      · have := hloop_err maxnan rest
          { prev := i, acc := accStep 0 Acc.init x, grp := [x], out := hflush maxnan s.acc s.grp ++ s.out }
          (by simpa using hr)
        simp [hloop, hstep, hlt, hik, this]

theorem flathomogen_eq_groups (maxnan : Int) (l : List (Int × Option α)) (hne : l ≠ [])
    (hs : (l.map Prod.fst).Pairwise (· ≤ ·)) :
    flathomogen maxnan l = .ok ((groups l).flatMap fun g => hcells maxnan g.2) := by
  cases l with
  | nil => exact absurd rfl hne
  | cons p rest =>
    obtain ⟨i, x⟩ := p
    have hnd : nondecr i ((i, x) :: rest) := (nondecr_head_iff i x rest).mpr hs
    obtain ⟨s', h1, h2⟩ := hloop_ok maxnan ((i, x) :: rest)
      ({ prev := i, acc := Acc.init, grp := [], out := [] } : HSt α) []
      (by simp [accOf]) (by simp) hnd
    simp only [flathomogen, h1]
    simp only [List.reverse_nil, List.nil_append] at h2
    rw [h2]
    simp [groups, groupsGo]

theorem flathomogen_err (maxnan : Int) (l : List (Int × Option α)) (hne : l ≠ [])
    (hs : ¬ (l.map Prod.fst).Pairwise (· ≤ ·)) :
    flathomogen maxnan l = .error .decreasingIndex := by
  cases l with
  | nil => exact absurd rfl hne
  | cons p rest =>
    obtain ⟨i, x⟩ := p
    have hnd : ¬ nondecr i ((i, x) :: rest) := fun h => hs ((nondecr_head_iff i x rest).mp h)
    have := hloop_err maxnan ((i, x) :: rest)
      ({ prev := i, acc := Acc.init, grp := [], out := [] } : HSt α) hnd
    simp only [flathomogen, this]

end loopinv

/-- the runs, each element tagged with its key, concatenate back to the input (no sortedness needed) -/
theorem groupsGo_keyed {β : Type} : ∀ (l : List (Int × β)) (k : Int) (cur : List β),
    (groupsGo k cur l).flatMap (fun g => g.2.map fun x => (g.1, x)) = cur.map (fun x => (k, x)) ++ l
  | [], k, cur => by simp [groupsGo]
  | (i, x) :: rest, k, cur => by
    rw [groupsGo]
    split
    · rename_i h; subst h
      rw [groupsGo_keyed rest i (cur ++ [x])]; simp
    · rw [List.flatMap_cons, groupsGo_keyed rest i [x]]; simp

theorem groups_keyed {β : Type} (l : List (Int × β)) :
    (groups l).flatMap (fun g => g.2.map fun x => (g.1, x)) = l := by
  cases l with
  | nil => simp [groups]
  | cons p rest => obtain ⟨i, x⟩ := p; simp [groups, groupsGo_keyed]

/-! ### facts about the per-group fold that need no arithmetic law (any carrier, floating point included) -/
section anyc
set_option linter.unusedSectionVars false
variable {α : Type} [Add α] [Div α] [LT α] [DecidableLT α] [OfNat α 0] [NatCast α]

theorem vals_concat (g : List (Option α)) (x : Option α) : vals (g ++ [x]) = vals g ++ x.toList := by
  cases x <;> simp [vals, List.filterMap_append]

theorem nmiss_concat (g : List (Option α)) (x : Option α) :
    nmiss (g ++ [x]) = nmiss g + (if x.isNone then 1 else 0) := by
  cases x <;> simp [nmiss, List.countP_append]

theorem accOf_nnan (op : Int) (g : List (Option α)) : (accOf op g).nnan = nmiss g := by
  induction g using List.reverseRecOn with
  | nil => simp [accOf, Acc.init, nmiss]
  | append_singleton g x ih =>
    rw [accOf_concat, nmiss_concat, ← ih]
    cases x <;> simp only [accStep, Option.isNone_none, Option.isNone_some, if_true] <;>
      (repeat' split) <;> simp_all

theorem accOf_nagg (op : Int) (g : List (Option α)) : (accOf op g).nagg = (vals g).length := by
  induction g using List.reverseRecOn with
  | nil => simp [accOf, Acc.init, vals]
  | append_singleton g x ih =>
    rw [accOf_concat, vals_concat, List.length_append, ← ih]
    cases x <;> simp only [accStep] <;> (repeat' split) <;> simp

theorem accOf_last (g : List (Option α)) : (accOf 3 g).agg = (vals g).getLast?.getD 0 := by
  induction g using List.reverseRecOn with
  | nil => simp [accOf, Acc.init, vals]
  | append_singleton g x ih =>
    rw [accOf_concat, vals_concat]
    cases x with
    | none => simpa [accStep] using ih
    | some v => simp [accStep]

/-- operator codes above 3 never touch `agg` -/
theorem accOf_other (op : Int) (hop : 3 < op) (g : List (Option α)) : (accOf op g).agg = 0 := by
  induction g using List.reverseRecOn with
  | nil => simp [accOf, Acc.init]
  | append_singleton g x ih =>
    rw [accOf_concat]
    have h1 : ¬ op ≤ 1 := by omega
    have h2 : ¬ op = 2 := by omega
    have h3 : ¬ op = 3 := by omega
    cases x <;> simp [accStep, h1, h2, h3, ih]

end anyc

/-! ### closed forms of the per-group fold over an ordered field -/
section field
set_option linter.unusedSectionVars false
variable {α : Type} [Field α] [LinearOrder α] [IsStrictOrderedRing α]

theorem accOf_sum (op : Int) (hop : op ≤ 1) (g : List (Option α)) : (accOf op g).agg = (vals g).sum := by
  induction g using List.reverseRecOn with
  | nil => simp [accOf, Acc.init, vals]
  | append_singleton g x ih =>
    rw [accOf_concat, vals_concat, List.sum_append, ← ih]
    cases x <;> simp [accStep, hop]

theorem accOf_max (g : List (Option α)) : (accOf 2 g).agg = ((vals g).maximum).unbotD 0 := by
  induction g using List.reverseRecOn with
  | nil => simp [accOf, Acc.init, vals]
  | append_singleton g x ih =>
    rw [accOf_concat, vals_concat]
    cases x with
    | none => simpa [accStep] using ih
    | some v =>
      have hn := accOf_nagg 2 g
      simp only [accStep, Option.toList_some, List.maximum_concat]
      norm_num
      by_cases hv : vals g = []
      · simp [hn, hv]
      · have hlen : (vals g).length ≠ 0 := by simpa using hv
        obtain ⟨m, hm⟩ := WithBot.ne_bot_iff_exists.mp (List.maximum_ne_bot_of_ne_nil hv)
        rw [← hm] at ih ⊢
        simp only [WithBot.unbotD_coe] at ih
        rw [hn, if_neg hlen, ih, ← WithBot.coe_max, WithBot.unbotD_coe]
        rcases lt_trichotomy m v with h | h | h
        · rw [if_pos h, max_eq_right h.le]
        · subst h; simp
        · rw [if_neg (not_lt.mpr h.le), max_eq_left h.le]

/-- over an ordered field the left-to-right sum is the sum … -/
theorem sumL_eq_sum (v : List α) : sumL v = v.sum := by
  have : ∀ (a : α) (v : List α), v.foldl (· + ·) a = a + v.sum := by
    intro a v
    induction v generalizing a with
    | nil => simp
    | cons x t ih => rw [List.foldl_cons, ih, List.sum_cons, add_assoc]
  simp [sumL, this]

/-- … and the running maximum is `List.maximum` -/
theorem maxOf_eq_maximum (v : List α) : maxOf v = v.maximum.unbotD 0 := by
  cases v with
  | nil => simp [maxOf]
  | cons a t =>
    have : ∀ (t : List α) (a : α), t.foldl (fun m x => if m < x then x else m) a = (a :: t).maximum.unbotD 0 := by
      intro t
      induction t using List.reverseRecOn with
      | nil => intro a; simp
      | append_singleton t x ih =>
        intro a
        rw [List.foldl_append, List.foldl_cons, List.foldl_nil, ih a, ← List.cons_append, List.maximum_concat]
        obtain ⟨m, hm⟩ := WithBot.ne_bot_iff_exists.mp (List.maximum_ne_bot_of_ne_nil (List.cons_ne_nil a t))
        rw [← hm, ← WithBot.coe_max, WithBot.unbotD_coe, WithBot.unbotD_coe]
        rcases lt_trichotomy m x with h | h | h
        · rw [if_pos h, max_eq_right h.le]
        · subst h; simp
        · rw [if_neg (not_lt.mpr h.le), max_eq_left h.le]
    simpa [maxOf] using this t a

/-- `red` in textbook vocabulary -/
theorem red_eq (op : Int) (v : List α) : red op v =
    if op = 0 then v.sum
    else if op = 1 then (if v = [] then 0 else v.sum / (v.length : α))
    else if op = 2 then v.maximum.unbotD 0
    else v.getLast?.getD 0 := by
  simp only [red, sumL_eq_sum, maxOf_eq_maximum, List.isEmpty_iff]

theorem cell_eq (maxnan : Int) (g : List (Option α)) (x : Option α) : cell maxnan g x =
    match x with
    | none => none
    | some _ => if maxnan < (nmiss g : Int) then none else some ((vals g).sum / ((vals g).length : α)) := by
  cases x <;> simp [cell, sumL_eq_sum]

theorem flush_accOf (op maxnan : Int) (h0 : 0 ≤ op) (h3 : op ≤ 3) (g : List (Option α)) :
    flush op maxnan (accOf op g) = reduce op maxnan g := by
  have hcases : op = 0 ∨ op = 1 ∨ op = 2 ∨ op = 3 := by omega
  rcases hcases with rfl | rfl | rfl | rfl
  · simp [flush, reduce, red_eq, accOf_nnan, accOf_sum]
  · by_cases hv : vals g = []
    · simp [flush, reduce, red_eq, accOf_nnan, accOf_nagg, accOf_sum, hv]
    · have : 0 < (vals g).length := List.length_pos_iff.mpr hv
      simp [flush, reduce, red_eq, accOf_nnan, accOf_nagg, accOf_sum, hv, this]
  · simp [flush, reduce, red_eq, accOf_nnan, accOf_max]
  · simp [flush, reduce, red_eq, accOf_nnan, accOf_last]

theorem hcells_eq (maxnan : Int) (g : List (Option α)) : hcells maxnan g = g.map (cell maxnan g) := by
  unfold hcells hflush
  apply List.map_congr_left
  intro x _
  cases x with
  | none => rfl
  | some v =>
    simp only [cell_eq, accOf_nnan, accOf_nagg, accOf_sum 0 (by norm_num)]
    split <;> simp

theorem vals_flatMap {β : Type} (f : β → List (Option α)) (l : List β) :
    vals (l.flatMap f) = l.flatMap fun b => vals (f b) := by
  induction l with
  | nil => simp [vals]
  | cons b t ih =>
    simp only [List.flatMap_cons]
    rw [← ih]
    simp [vals, List.filterMap_append]

theorem sum_flatMap {β : Type} (f : β → List α) (l : List β) :
    (l.flatMap f).sum = (l.map fun b => (f b).sum).sum := by
  induction l with
  | nil => simp
  | cons b t ih => simp [List.flatMap_cons, List.sum_append, ih]

end field

/-! ### time stamps (compute_aggindex) -/

-- `Stamp.valid`, `Stamp.le`, `chrono` live in `Model/C08Spec.lean`

/-! ### calendar and monthly2daily helpers -/

theorem daysInMonth_range (y : Int) (m : Nat) (h1 : 1 ≤ m) (h12 : m ≤ 12) :
    28 ≤ daysInMonth y m ∧ daysInMonth y m ≤ 31 := by
  have : m = 1 ∨ m = 2 ∨ m = 3 ∨ m = 4 ∨ m = 5 ∨ m = 6 ∨ m = 7 ∨ m = 8 ∨ m = 9 ∨ m = 10 ∨ m = 11 ∨ m = 12 := by
    omega
  rcases this with rfl | rfl | rfl | rfl | rfl | rfl | rfl | rfl | rfl | rfl | rfl | rfl <;>
    simp [daysInMonth] <;> split <;> simp

theorem monthAt_month_valid (y0 : Int) (m0 j : Nat) :
    1 ≤ (monthAt y0 m0 j).2 ∧ (monthAt y0 m0 j).2 ≤ 12 := by
  simp only [monthAt]
  omega

theorem ndaysAt_pos (y0 : Int) (m0 j : Nat) : 0 < ndaysAt y0 m0 j := by
  have h := monthAt_month_valid y0 m0 j
  have := daysInMonth_range (monthAt y0 m0 j).1 (monthAt y0 m0 j).2 h.1 h.2
  unfold ndaysAt
  omega

theorem monthLengths_length (y0 : Int) (m0 k : Nat) : (monthLengths y0 m0 k).length = k := by
  simp [monthLengths]

theorem monthLengths_getElem (y0 : Int) (m0 k j : Nat) (h : j < (monthLengths y0 m0 k).length) :
    (monthLengths y0 m0 k)[j] = ndaysAt y0 m0 j := by
  simp [monthLengths]

section m2dfield
set_option linter.unusedSectionVars false
variable {α : Type} [Field α] [LinearOrder α] [IsStrictOrderedRing α]

/-- telescoping sum of consecutive differences -/
theorem sum_range_diff (f : Nat → α) (n : Nat) :
    ((List.range n).map fun j => f (j + 1) - f j).sum = f n - f 0 := by
  induction n with
  | zero => simp
  | succ n ih => rw [List.range_succ, List.map_append, List.sum_append, ih]; simp

/-- the cumulative cubic starts at 0 … -/
theorem cum_zero (m : Month α) : cum m 0 = 0 := by
  simp [cum, polyval]

/-- … and ends at the monthly value, whatever the derivative constraints `c1`, `c2`
(the columns of `Mi` sum to `(1,0,0)`) -/
theorem cum_end (m : Month α) (hn : 0 < m.n) : cum m m.n = m.y := by
  have : (m.n : α) ≠ 0 := by exact_mod_cast hn.ne'
  simp only [cum, polyval, coefs, div_self this, Nat.cast_ofNat]
  ring

theorem dycTail_length : ∀ (u : List α), (dycTail u).length = u.length
  | [] => rfl
  | [_] => rfl
  | a :: b :: r => by simp [dycTail, dycTail_length (b :: r)]

theorem dyc_length (u : List α) (hu : u ≠ []) : (dyc u).length = u.length + 1 := by
  cases u with
  | nil => exact absurd rfl hu
  | cons a r => simp [dyc, dycTail_length]

/-- the constraint set-up keeps the monthly values and lengths -/
theorem cubicInit_yn (ys : List α) (ns : List Nat) (h : ys.length = ns.length) :
    (cubicInit ys ns).map (fun m => (m.y, m.n)) = ys.zip ns := by
  unfold cubicInit
  simp only
  generalize hc1 : List.zipWith (fun (d : α) (n : Nat) => d * (n : α))
    (dyc (List.zipWith (fun (y : α) (n : Nat) => y / (n : α)) ys ns)) ns = c1
  generalize hc2 : List.zipWith (fun (d : α) (n : Nat) => d * (n : α))
    (dyc (List.zipWith (fun (y : α) (n : Nat) => y / (n : α)) ys ns)).tail ns = c2
  have hu : (List.zipWith (fun (y : α) (n : Nat) => y / (n : α)) ys ns).length = ys.length := by
    simp [h]
  have hl1 : c1.length = ys.length := by
    by_cases hy : ys = []
    · subst hy; subst hc1; simp [dyc]
    · have hne : List.zipWith (fun (y : α) (n : Nat) => y / (n : α)) ys ns ≠ [] := by
        intro e; rw [e] at hu; exact hy (List.length_eq_zero_iff.mp hu.symm)
      rw [← hc1, List.length_zipWith, dyc_length _ hne, hu, ← h]; omega
  have hl2 : c2.length = ys.length := by
    by_cases hy : ys = []
    · subst hy; subst hc2; simp [dyc]
    · have hne : List.zipWith (fun (y : α) (n : Nat) => y / (n : α)) ys ns ≠ [] := by
        intro e; rw [e] at hu; exact hy (List.length_eq_zero_iff.mp hu.symm)
      rw [← hc2, List.length_zipWith, List.length_tail, dyc_length _ hne, hu, ← h]; omega
  apply List.ext_getElem
  · simp [hl1, hl2, h]
  · intro i h1 h2
    simp

theorem sweepGo_yn : ∀ (rest : List (Month α)) (cur : Month α),
    (sweepGo cur rest).map (fun m => (m.y, m.n)) = (cur :: rest).map (fun m => (m.y, m.n))
  | [], cur => by simp [sweepGo]
  | nxt :: rest, cur => by
    simp only [sweepGo, List.map_cons]
    rw [sweepGo_yn rest]
    simp

/-- the continuity sweep only rewrites derivative constraints -/
theorem sweep_yn (ms : List (Month α)) :
    (sweep ms).map (fun m => (m.y, m.n)) = ms.map (fun m => (m.y, m.n)) := by
  cases ms with
  | nil => rfl
  | cons m rest => simp [sweep, sweepGo_yn]

end m2dfield

end HydroVerif.C08
