/-
C03 — the SIGNS of the decomposition under rounded arithmetic. Helper lemmas, not property statements.

`SignArith β` lists what the sign argument uses of the arithmetic of the carrier. Every law in it survives
rounding: it holds in every linearly ordered field (exact arithmetic) and in `Fl R`, the numbers of an ordered
field `F` representable for a rounding `R` (monotone, idempotent, fixing 0 and 1), with EVERY operation
rounded — which is what IEEE-754 arithmetic is as long as nothing overflows. No associativity, distributivity
or cancellation law is in the list (those are false for doubles).
-/
import HydroVerif.Model.C03
import Mathlib.Algebra.Order.Field.Basic
import Mathlib.Order.Monotone.Basic
import Mathlib.Data.Rat.Floor
import Mathlib.Tactic.Linarith

set_option linter.unusedSectionVars false
namespace HydroVerif.C03

class SignArith (β : Type) [Add β] [Sub β] [Mul β] [Div β] [LT β] [LE β] [BEq β] [OfNat β 0] [OfNat β 1]
    [NatCast β] : Prop where
  le_refl : ∀ a : β, a ≤ a
  le_of_lt : ∀ {a b : β}, a < b → a ≤ b
  le_of_not_lt : ∀ {a b : β}, ¬ a < b → b ≤ a
  zero_le_one : (0 : β) ≤ 1
  natCast_nonneg : ∀ n : ℕ, (0 : β) ≤ (n : β)
  add_nonneg : ∀ {a b : β}, 0 ≤ a → 0 ≤ b → 0 ≤ a + b
  mul_nonneg : ∀ {a b : β}, 0 ≤ a → 0 ≤ b → 0 ≤ a * b
  mul_self_nonneg : ∀ a : β, 0 ≤ a * a
  div_nonneg : ∀ {a b : β}, 0 ≤ a → 0 ≤ b → 0 ≤ a / b
  sub_nonneg : ∀ {a b : β}, a ≤ b → 0 ≤ b - a
  /-- a part is at most the (rounded) whole: `b / fl(a + b) ≤ 1` -/
  div_add_le_one : ∀ {a b : β}, 0 ≤ a → 0 ≤ b → b / (a + b) ≤ 1
  not_pos_of_beq_zero : ∀ {a : β}, (a == 0) = true → ¬ 0 < a

/-! ### exact arithmetic is an instance -/
instance {α : Type} [Field α] [LinearOrder α] [IsStrictOrderedRing α] : SignArith α where
  le_refl := _root_.le_refl
  le_of_lt := _root_.le_of_lt
  le_of_not_lt := fun h => not_lt.mp h
  zero_le_one := _root_.zero_le_one
  natCast_nonneg := Nat.cast_nonneg
  add_nonneg := _root_.add_nonneg
  mul_nonneg := _root_.mul_nonneg
  mul_self_nonneg := _root_.mul_self_nonneg
  div_nonneg := _root_.div_nonneg
  sub_nonneg := fun h => _root_.sub_nonneg.mpr h
  div_add_le_one := fun {a b} ha hb => by
    rcases (_root_.add_nonneg ha hb).eq_or_lt' with h | h
    · rw [h, div_zero]; exact _root_.zero_le_one
    · rw [div_le_one h]; exact le_add_of_nonneg_left ha
  not_pos_of_beq_zero := fun {a} h => by
    have : a = 0 := by simpa using h
    rw [this]; exact lt_irrefl _

/-! ### every rounded arithmetic is an instance -/

/-- a rounding of the ordered field `F`: monotone, idempotent, exact at 0 and 1 (round-to-nearest, directed
roundings, with or without gradual underflow, any precision) -/
structure Rounding (F : Type) [Field F] [LinearOrder F] where
  rnd : F → F
  mono : Monotone rnd
  idem : ∀ x, rnd (rnd x) = rnd x
  zero : rnd 0 = 0
  one : rnd 1 = 1

/-- the representable numbers of a rounding -/
structure Fl {F : Type} [Field F] [LinearOrder F] (R : Rounding F) where
  val : F
  rep : R.rnd val = val

namespace Fl
variable {F : Type} [Field F] [LinearOrder F] {R : Rounding F}

/-- round a real result -/
def mk' (R : Rounding F) (x : F) : Fl R := ⟨R.rnd x, R.idem x⟩

instance : Add (Fl R) := ⟨fun a b => mk' R (a.val + b.val)⟩
instance : Sub (Fl R) := ⟨fun a b => mk' R (a.val - b.val)⟩
instance : Mul (Fl R) := ⟨fun a b => mk' R (a.val * b.val)⟩
instance : Div (Fl R) := ⟨fun a b => mk' R (a.val / b.val)⟩
instance : LT (Fl R) := ⟨fun a b => a.val < b.val⟩
instance : LE (Fl R) := ⟨fun a b => a.val ≤ b.val⟩
instance : DecidableLT (Fl R) := fun a b => inferInstanceAs (Decidable (a.val < b.val))
instance : DecidableLE (Fl R) := fun a b => inferInstanceAs (Decidable (a.val ≤ b.val))
instance : BEq (Fl R) := ⟨fun a b => decide (a.val = b.val)⟩
instance : OfNat (Fl R) 0 := ⟨⟨0, R.zero⟩⟩
instance : OfNat (Fl R) 1 := ⟨⟨1, R.one⟩⟩
instance : NatCast (Fl R) := ⟨fun n => mk' R (n : F)⟩

theorem rnd_nonneg {x : F} (h : 0 ≤ x) : 0 ≤ R.rnd x := by
  have := R.mono h
  rwa [R.zero] at this

instance [IsStrictOrderedRing F] : SignArith (Fl R) where
  le_refl := fun a => _root_.le_refl a.val
  le_of_lt := fun {a b} (h : a.val < b.val) => (_root_.le_of_lt h : a.val ≤ b.val)
  le_of_not_lt := fun {a b} (h : ¬ a.val < b.val) => (not_lt.mp h : b.val ≤ a.val)
  zero_le_one := (_root_.zero_le_one : (0 : F) ≤ 1)
  natCast_nonneg := fun n => (rnd_nonneg (Nat.cast_nonneg n) : (0 : F) ≤ R.rnd (n : F))
  add_nonneg := fun {a b} (ha : (0 : F) ≤ a.val) (hb : (0 : F) ≤ b.val) =>
    (rnd_nonneg (_root_.add_nonneg ha hb) : (0 : F) ≤ R.rnd (a.val + b.val))
  mul_nonneg := fun {a b} (ha : (0 : F) ≤ a.val) (hb : (0 : F) ≤ b.val) =>
    (rnd_nonneg (_root_.mul_nonneg ha hb) : (0 : F) ≤ R.rnd (a.val * b.val))
  mul_self_nonneg := fun a => (rnd_nonneg (_root_.mul_self_nonneg a.val) : (0 : F) ≤ R.rnd (a.val * a.val))
  div_nonneg := fun {a b} (ha : (0 : F) ≤ a.val) (hb : (0 : F) ≤ b.val) =>
    (rnd_nonneg (_root_.div_nonneg ha hb) : (0 : F) ≤ R.rnd (a.val / b.val))
  sub_nonneg := fun {a b} (h : a.val ≤ b.val) =>
    (rnd_nonneg (_root_.sub_nonneg.mpr h) : (0 : F) ≤ R.rnd (b.val - a.val))
  div_add_le_one := fun {a b} (ha : (0 : F) ≤ a.val) (hb : (0 : F) ≤ b.val) => by
    show R.rnd (b.val / R.rnd (a.val + b.val)) ≤ 1
    have hg : b.val ≤ R.rnd (a.val + b.val) := by
      have := R.mono (show b.val ≤ a.val + b.val from le_add_of_nonneg_left ha)
      rwa [b.rep] at this
    have h1 : b.val / R.rnd (a.val + b.val) ≤ 1 := by
      rcases (rnd_nonneg (R := R) (_root_.add_nonneg ha hb)).eq_or_lt' with h | h
      · rw [h, div_zero]; exact _root_.zero_le_one
      · rw [div_le_one h]; exact hg
    have := R.mono h1
    rwa [R.one] at this
  not_pos_of_beq_zero := fun {a} h => by
    have h0 : a.val = 0 := by
      have : decide (a.val = (0 : Fl R).val) = true := h
      have h2 : a.val = (0 : Fl R).val := by simpa using this
      exact h2
    show ¬ (0 : F) < a.val
    rw [h0]; exact lt_irrefl _

end Fl

/-- a rounding that is not the identity: round up to the next multiple of 1/4 -/
def ceilQuarter : Rounding ℚ where
  rnd x := (⌈x * 4⌉ : ℚ) / 4
  mono := fun a b h => by
    have : ⌈a * 4⌉ ≤ ⌈b * 4⌉ := Int.ceil_mono (by linarith)
    have h2 : ((⌈a * 4⌉ : ℤ) : ℚ) ≤ ((⌈b * 4⌉ : ℤ) : ℚ) := by exact_mod_cast this
    show (⌈a * 4⌉ : ℚ) / 4 ≤ (⌈b * 4⌉ : ℚ) / 4
    linarith
  idem := fun x => by
    show ((⌈(⌈x * 4⌉ : ℚ) / 4 * 4⌉ : ℤ) : ℚ) / 4 = (⌈x * 4⌉ : ℚ) / 4
    rw [div_mul_cancel₀ _ (by norm_num : (4 : ℚ) ≠ 0), Int.ceil_intCast]
  zero := by simp
  one := by
    show ((⌈(1 : ℚ) * 4⌉ : ℤ) : ℚ) / 4 = 1
    rw [show ((1 : ℚ) * 4) = ((4 : ℤ) : ℚ) by norm_num, Int.ceil_intCast]; norm_num


/-! ### the sign argument, over any `SignArith` carrier -/
section Signs
variable {β : Type} [Add β] [Sub β] [Mul β] [Div β] [LT β] [DecidableLT β] [LE β] [DecidableLE β]
  [BEq β] [OfNat β 0] [OfNat β 1] [NatCast β] [SignArith β]

open SignArith

theorem absv_nonneg (d : β) : 0 ≤ absv d := by
  unfold absv
  split
  · rename_i h; exact sub_nonneg (le_of_lt h)
  · rename_i h; exact le_of_not_lt h

theorem binStep_nonneg' {w y l r : β} {ab : β × β} (hw : 0 ≤ w) (hlr : l ≤ r) (ha : 0 ≤ ab.1) (hb : 0 ≤ ab.2) :
    0 ≤ (binStep w y l r ab).1 ∧ 0 ≤ (binStep w y l r ab).2 := by
  have hd : (0 : β) ≤ (r - l) * w := mul_nonneg (sub_nonneg hlr) hw
  have hb1 : 0 ≤ (if y ≤ l then ab.2 + (r - l) * w else ab.2) := by
    split
    · exact add_nonneg hb hd
    · exact hb
  have ha1 : 0 ≤ (if r ≤ y then ab.1 + (r - l) * w else ab.1) := by
    split
    · exact add_nonneg ha hd
    · exact ha
  unfold binStep
  simp only
  split
  · rename_i h
    exact ⟨add_nonneg ha1 (mul_nonneg (sub_nonneg (le_of_lt h.1)) hw),
      add_nonneg hb1 (mul_nonneg (sub_nonneg (le_of_lt h.2)) hw)⟩
  · exact ⟨ha1, hb1⟩

/-- the guard `ensemb[j+1] < ensemb[j] → EDOM` is what makes every bin width non-negative -/
theorem binsStep_nonneg' {w y : β} (hw : 0 ≤ w) : ∀ (e : List β) (ab : List (β × β)), unsortedAt e = false →
    (∀ p ∈ ab, 0 ≤ p.1 ∧ 0 ≤ p.2) → ∀ p ∈ binsStep w y e ab, 0 ≤ p.1 ∧ 0 ≤ p.2
  | [], ab, _, h => by simpa [binsStep] using h
  | [_], ab, _, h => by simpa [binsStep] using h
  | _ :: _ :: _, [], _, h => by simp [binsStep]
  | l :: r :: es, q :: rest, hu, h => by
    simp only [unsortedAt, Bool.or_eq_false_iff, decide_eq_false_iff_not] at hu
    intro p hp
    simp only [binsStep, List.mem_cons] at hp
    rcases hp with rfl | hp
    · exact binStep_nonneg' hw (le_of_not_lt hu.1) (h q List.mem_cons_self).1 (h q List.mem_cons_self).2
    · exact binsStep_nonneg' hw (r :: es) rest hu.2 (fun p' hp' => h p' (List.mem_cons_of_mem _ hp')) p hp

theorem uncStep_nonneg {w y : β} (hw : 0 ≤ w) : ∀ (prev : List β) (u : β), 0 ≤ u → 0 ≤ uncStep w y prev u
  | [], u, h => by simpa [uncStep] using h
  | yk :: prev, u, h => by
    have := uncStep_nonneg (y := y) hw prev (u + w * w * absv (yk - y))
      (add_nonneg h (mul_nonneg (mul_nonneg hw hw) (absv_nonneg _)))
    simpa [uncStep] using this

/-- all accumulators of the forecast loop are non-negative -/
structure NN (s : Acc β) : Prop where
  ab : ∀ p ∈ s.ab, 0 ≤ p.1 ∧ 0 ≤ p.2
  b0 : 0 ≤ s.b0
  aN : 0 ≤ s.aN
  o0 : 0 ≤ s.o0
  oN : 0 ≤ s.oN
  unc : 0 ≤ s.unc

theorem NN_init (m : ℕ) : NN (init m : Acc β) := by
  refine ⟨?_, le_refl _, le_refl _, le_refl _, le_refl _, le_refl _⟩
  intro p hp
  rw [init, List.mem_replicate] at hp
  rw [hp.2]; exact ⟨le_refl _, le_refl _⟩

theorem NN_step {w : β} (hw : 0 ≤ w) (prev : List β) (y : β) (e : List β) (f l : β) (s : Acc β)
    (hu : unsortedAt e = false) (h : NN s) : NN (step w prev y e f l s) := by
  refine ⟨binsStep_nonneg' hw e s.ab hu h.ab, ?_, ?_, ?_, ?_, uncStep_nonneg hw prev s.unc h.unc⟩
  · show 0 ≤ (if y < f then s.b0 + (f - y) * w else s.b0)
    split
    · rename_i hlt; exact add_nonneg h.b0 (mul_nonneg (sub_nonneg (le_of_lt hlt)) hw)
    · exact h.b0
  · show 0 ≤ (if l ≤ y then s.aN + (y - l) * w else s.aN)
    split
    · rename_i hle; exact add_nonneg h.aN (mul_nonneg (sub_nonneg hle) hw)
    · exact h.aN
  · show 0 ≤ (if y < f then s.o0 + w else s.o0)
    split
    · exact add_nonneg h.o0 hw
    · exact h.o0
  · show 0 ≤ (if y < l then s.oN + w else s.oN)
    split
    · exact add_nonneg h.oN hw
    · exact h.oN

theorem NN_loop (sort : List β → List β) {w : β} (hw : 0 ≤ w) :
    ∀ (F : List (β × List β)) (prev : List β) (s s' : Acc β), loop sort w prev F s = .ok s' → NN s → NN s'
  | [], _, s, s', h, hs => by
    simp only [loop] at h
    cases h; exact hs
  | (y, row) :: rest, prev, s, s', h, hs => by
    unfold loop at h
    simp only at h
    split at h
    · cases h
    · rename_i hu
      split at h
      · exact NN_loop sort hw rest _ _ s' h (NN_step hw prev y _ _ _ s (by simpa using hu) hs)
      · cases h

/-! #### the table loop -/

/-- a row that is counted (`g > 0`) has numbers (not NaN) in its reliability and potential cells, both `≥ 0` -/
def RowNN (r : Row β) : Prop := 0 < r.g → ∃ rr cc, r.r = some rr ∧ r.c = some cc ∧ 0 ≤ rr ∧ 0 ≤ cc

theorem mkRow_nn (p a b g o : β) (hg : 0 ≤ g) (ho0 : 0 ≤ o) (ho1 : o ≤ 1) : RowNN (mkRow p a b g (some o)) := by
  intro _
  refine ⟨g * sq (o - p), g * o * (1 - o), rfl, rfl, ?_, ?_⟩
  · exact mul_nonneg hg (mul_self_nonneg _)
  · exact mul_nonneg (mul_nonneg hg ho0) (sub_nonneg ho1)

theorem rowMid_nn (m j : ℕ) (ab : β × β) (ha : 0 ≤ ab.1) (hb : 0 ≤ ab.2) : RowNN (rowMid m j ab) := by
  unfold rowMid
  simp only
  split
  · rename_i hz
    intro hpos
    exact absurd hpos (not_pos_of_beq_zero hz)
  · exact mkRow_nn _ _ _ _ _ (add_nonneg ha hb) (div_nonneg hb (add_nonneg ha hb)) (div_add_le_one ha hb)

theorem mids_nn (m : ℕ) : ∀ (ab : List (β × β)) (k : ℕ), (∀ p ∈ ab, 0 ≤ p.1 ∧ 0 ≤ p.2) →
    ∀ r ∈ mids m k ab, RowNN r
  | [], _, _, r, hr => by simp [mids] at hr
  | q :: t, k, h, r, hr => by
    simp only [mids, List.mem_cons] at hr
    rcases hr with rfl | hr
    · exact rowMid_nn m k q (h q List.mem_cons_self).1 (h q List.mem_cons_self).2
    · exact mids_nn m t (k + 1) (fun p hp => h p (List.mem_cons_of_mem _ hp)) r hr

/-- after the cut `if(o > 1.0) o = 1.0` both outlier frequencies are in `[0, 1]` -/
theorem clampFreq_bounds (s : Acc β) (h : NN s) :
    NN (clampFreq s) ∧ (clampFreq s).o0 ≤ 1 ∧ (clampFreq s).oN ≤ 1 := by
  have h0 : 0 ≤ (if 1 < s.o0 then (1 : β) else s.o0) ∧ (if 1 < s.o0 then (1 : β) else s.o0) ≤ 1 := by
    split
    · exact ⟨zero_le_one, le_refl _⟩
    · rename_i hh; exact ⟨h.o0, le_of_not_lt hh⟩
  have hN : 0 ≤ (if 1 < s.oN then (1 : β) else s.oN) ∧ (if 1 < s.oN then (1 : β) else s.oN) ≤ 1 := by
    split
    · exact ⟨zero_le_one, le_refl _⟩
    · rename_i hh; exact ⟨h.oN, le_of_not_lt hh⟩
  exact ⟨⟨h.ab, h.b0, h.aN, h0.1, hN.1, h.unc⟩, h0.2, hN.2⟩

theorem table_nn (m : ℕ) (s : Acc β) (h : NN s) (h0 : s.o0 ≤ 1) (hN : s.oN ≤ 1) : ∀ r ∈ table m s, RowNN r := by
  intro r hr
  simp only [table, List.mem_cons, List.mem_append, List.mem_nil_iff, or_false] at hr
  rcases hr with rfl | hr | rfl
  · unfold row0
    apply mkRow_nn _ _ _ _ _ _ h.o0 h0
    split
    · exact div_nonneg h.b0 h.o0
    · exact le_refl _
  · exact mids_nn m s.ab 1 h.ab r hr
  · unfold rowN
    apply mkRow_nn _ _ _ _ _ _ h.oN hN
    split
    · exact div_nonneg h.aN (sub_nonneg hN)
    · exact le_refl _

theorem foldl_accRow_nn : ∀ (rows : List (Row β)) (t : Tot β), (∀ r ∈ rows, RowNN r) →
    (∃ x z, t.reli = some x ∧ t.pot = some z ∧ 0 ≤ x ∧ 0 ≤ z) →
    ∃ x z, (rows.foldl accRow t).reli = some x ∧ (rows.foldl accRow t).pot = some z ∧ 0 ≤ x ∧ 0 ≤ z
  | [], t, _, h => by simpa using h
  | r :: rows, t, hg, h => by
    rw [List.foldl_cons]
    apply foldl_accRow_nn rows _ (fun r' hr' => hg r' (List.mem_cons_of_mem _ hr'))
    obtain ⟨x, z, hx, hz, hx0, hz0⟩ := h
    unfold accRow
    simp only
    split
    · rename_i hpos
      obtain ⟨rr, cc, h1, h2, h3, h4⟩ := hg r List.mem_cons_self hpos
      exact ⟨x + rr, z + cc, by simp [hx, h1], by simp [hz, h2], add_nonneg hx0 h3, add_nonneg hz0 h4⟩
    · exact ⟨x, z, hx, hz, hx0, hz0⟩

/-- the three signs, from a non-negative loop state -/
theorem finish_nn (m : ℕ) (s : Acc β) (h : NN s) :
    (∃ x, (finish m s).reli = some x ∧ 0 ≤ x) ∧ (∃ z, (finish m s).pot = some z ∧ 0 ≤ z) ∧ 0 ≤ (finish m s).unc := by
  obtain ⟨hc, h0, hN⟩ := clampFreq_bounds s h
  obtain ⟨x, z, hx, hz, hx0, hz0⟩ := foldl_accRow_nn (table m (clampFreq s))
    ({ crps := 0, reli := some 0, pot := some 0 } : Tot β) (table_nn m _ hc h0 hN)
    ⟨0, 0, rfl, rfl, le_refl _, le_refl _⟩
  exact ⟨⟨x, hx, hx0⟩, ⟨z, hz, hz0⟩, hc.unc⟩

end Signs
end HydroVerif.C03
