/-
C10 — `c_ensrank` against the Weigel–Mason specification: definitions used in the property statements
and the helper lemmas about `fpair`, `uOf`, `ranksOf`.
-/
import HydroVerif.Lemmas.C10WM

set_option linter.unusedSectionVars false
set_option linter.unusedVariables false

namespace HydroVerif.C10
open HydroVerif.C04 (sumL absG)

variable {α : Type} [Field α] [LinearOrder α] [IsStrictOrderedRing α]

/-! ### hypotheses of the property -/

/-- what is assumed of `qsort` on the pooled array (entries tagged with their input position):
the output is a permutation of the input, ascending for the comparator, and entries that compare equal
keep their input order (a stable sort) -/
def StableSortedBy (cmp : α → α → Int) (input output : List (α × ℕ)) : Prop :=
  output.Perm input ∧
    output.Pairwise fun x y => cmp x.1 y.1 = -1 ∨ (cmp x.1 y.1 = 0 ∧ x.2 < y.2)

/-- values are pairwise exactly tied or separated by more than the tolerance (the scan's `eps`
and the comparator's `ceps`) -/
def Separated (eps ceps : α) (l : List α) : Prop :=
  ∀ a ∈ l, ∀ b ∈ l, a = b ∨ (eps < |a - b| ∧ ceps < |a - b|)

/-- the conditions under which the kernel treats the pair `(e1, e2)` -/
def PairOK (sort : List (α × ℕ) → List (α × ℕ)) (eps ceps : α) (e1 e2 : List α) : Prop :=
  Separated eps ceps (e1 ++ e2) ∧ StableSortedBy (cmpTol ceps) (pool e1 e2) (sort (pool e1 e2))

/-! ### Weigel–Mason specification -/

/-- eq. 1: `F(e1, e2)`, the proportion of member pairs in which `e1` exceeds `e2` (ties count ½) -/
def wmF (e1 e2 : List α) : α := wm e1 e2 / (e1.length : α) / (e1.length : α)

/-- eq. 2: 1 if ensemble `ei` beats `ek`, ½ if they tie, 0 otherwise -/
def wmU (ei ek : List α) : α :=
  if wm ei ek < wm ek ei then 0 else if wm ek ei < wm ei ek then 1 else 1 / 2

/-- eq. 2: rank of ensemble `i` = 1 + Σ_{k ≠ i} u(i, k) -/
def wmRank (rows : List (List α)) (i : ℕ) (ei : List α) : α :=
  1 + (rows.zipIdx.map fun ek => if ek.2 = i then 0 else wmU ei ek.1).sum

def wmRanks (rows : List (List α)) : List α := rows.zipIdx.map fun ei => wmRank rows ei.2 ei.1

/-! ### the pair comparison -/

theorem cmpTol_neg_one {ceps a b : α} (hc : 0 ≤ ceps) (h : cmpTol ceps a b = -1) : a < b := by
  unfold cmpTol at h
  simp only at h
  by_cases h1 : a - b < -ceps
  · linarith
  · rw [if_neg h1] at h
    by_cases h2 : ceps < a - b
    · rw [if_pos h2] at h; cases h
    · rw [if_neg h2] at h; cases h

theorem cmpTol_zero {ceps a b : α} (h : cmpTol ceps a b = 0) : |a - b| ≤ ceps := by
  unfold cmpTol at h
  simp only at h
  by_cases h1 : a - b < -ceps
  · rw [if_pos h1] at h; cases h
  · rw [if_neg h1] at h
    by_cases h2 : ceps < a - b
    · rw [if_pos h2] at h; cases h
    · rw [abs_le]; constructor <;> linarith

/-- the scan of the stably sorted pooled array = the first ensemble's mid-ranks in the pooled sample -/
theorem scan_pool (eps ceps : α) (heps : 0 < eps) (hc : 0 ≤ ceps) (e1 e2 : List α)
    (sorted : List (α × ℕ)) (hsep : Separated eps ceps (e1 ++ e2))
    (hs : StableSortedBy (cmpTol ceps) (pool e1 e2) sorted) :
    scan eps e1.length sorted = relSpec e1.length 0 (pool e1 e2) := by
  obtain ⟨hperm, hpw⟩ := hs
  have hmem : ∀ x ∈ sorted, x.1 ∈ e1 ++ e2 := fun x hx =>
    List.fst_mem_of_mem_zipIdx (hperm.mem_iff.mp hx)
  have hrel : sorted.Pairwise (rel e1.length) := by
    refine hpw.imp_of_mem ?_
    intro x y hx hy hxy
    rcases hxy with h | ⟨h, hlt⟩
    · exact Or.inl (cmpTol_neg_one hc h)
    · have hle := cmpTol_zero h
      rcases hsep x.1 (hmem x hx) y.1 (hmem y hy) with he | ⟨_, hgt⟩
      · exact Or.inr ⟨he, fun hy' => lt_trans hlt hy'⟩
      · exact absurd hle (not_le.mpr hgt)
  have hsep' : ∀ x ∈ sorted, ∀ y ∈ sorted, x.1 = y.1 ∨ eps ≤ |x.1 - y.1| := by
    intro x hx y hy
    rcases hsep x.1 (hmem x hx) y.1 (hmem y hy) with he | ⟨hgt, _⟩
    · exact Or.inl he
    · exact Or.inr hgt.le
  have h := (scanAux_spec eps heps e1.length sorted hrel hsep' 0 none ⟨0, none, 0, 0⟩).1 rfl
    (by intro p hp; cases hp)
  unfold scan
  rw [h, relSpec_perm e1.length 0 hperm]
  simp

theorem fpair_eq_wmF (sort : List (α × ℕ) → List (α × ℕ)) (eps ceps : α) (heps : 0 < eps) (hc : 0 ≤ ceps)
    (e1 e2 : List α) (h : PairOK sort eps ceps e1 e2) :
    fpair sort eps e1 e2 = wmF e1 e2 := by
  unfold fpair wmF
  simp only
  rw [scan_pool eps ceps heps hc e1 e2 _ h.1 h.2, relSpec_pool]
  congr 2
  ring

/-! ### u and the ranks -/

theorem wmU_swap (ei ek : List α) : 1 - wmU ek ei = wmU ei ek := by
  unfold wmU
  rcases lt_trichotomy (wm ei ek) (wm ek ei) with h | h | h
  · simp [h, not_lt.mpr h.le]
  · simp [h]; norm_num
  · simp [h, not_lt.mpr h.le]

/-- `u` read off `F` is the Weigel–Mason `u` (ensembles of equal, positive size) -/
theorem uOf_wmF (ei ek : List α) (hlen : ei.length = ek.length) (hpos : 0 < ei.length) :
    uOf (wmF ei ek) = wmU ei ek := by
  have hm : (0 : α) < (ei.length : α) := by exact_mod_cast hpos
  have hsum := wm_add_swap ei ek
  rw [← hlen] at hsum
  unfold uOf wmU wmF
  have hF : wm ei ek / (ei.length : α) / (ei.length : α) < 1 / 2 ↔ wm ei ek < wm ek ei := by
    rw [div_div, div_lt_iff₀ (mul_pos hm hm)]
    constructor <;> intro h <;> linarith
  have hF' : 1 / 2 < wm ei ek / (ei.length : α) / (ei.length : α) ↔ wm ek ei < wm ei ek := by
    rw [div_div, lt_div_iff₀ (mul_pos hm hm)]
    constructor <;> intro h <;> linarith
  simp only [hF, hF']

theorem wmF_nonneg (e1 e2 : List α) : 0 ≤ wmF e1 e2 := by
  unfold wmF wm rowScore
  apply div_nonneg (div_nonneg _ (Nat.cast_nonneg _)) (Nat.cast_nonneg _)
  apply List.sum_nonneg
  intro x hx
  simp only [List.mem_map] at hx
  obtain ⟨a, _, rfl⟩ := hx
  apply List.sum_nonneg
  intro y hy
  simp only [List.mem_map] at hy
  obtain ⟨b, _, rfl⟩ := hy
  unfold ps
  split_ifs <;> norm_num

theorem wm_nonneg (e1 e2 : List α) : 0 ≤ wm e1 e2 := by
  unfold wm rowScore
  apply List.sum_nonneg
  intro x hx
  simp only [List.mem_map] at hx
  obtain ⟨a, _, rfl⟩ := hx
  apply List.sum_nonneg
  intro y hy
  simp only [List.mem_map] at hy
  obtain ⟨b, _, rfl⟩ := hy
  unfold ps
  split_ifs <;> norm_num

theorem wmF_add_swap (e1 e2 : List α) (hlen : e1.length = e2.length) (hpos : 0 < e1.length) :
    wmF e1 e2 + wmF e2 e1 = 1 := by
  have hm : (e1.length : α) ≠ 0 := by exact_mod_cast hpos.ne'
  have hsum := wm_add_swap e1 e2
  unfold wmF
  rw [← hlen] at hsum ⊢
  field_simp
  linarith

theorem upperF_congr (F G : List α → List α → α) (rows : List (List α))
    (h : rows.Pairwise fun e1 e2 => F e1 e2 = G e1 e2) : upperF F rows = upperF G rows := by
  induction rows with
  | nil => rfl
  | cons e rest ih =>
    have h1 := List.pairwise_cons.mp h
    simp only [upperF]
    rw [ih h1.2, List.map_congr_left h1.1]

/-- entries of `rows.zipIdx` are the rows at their positions -/
theorem pairwise_zipIdx {β : Type} {R : β → β → Prop} {l : List β} (h : l.Pairwise R)
    {x y : β × ℕ} (hx : x ∈ l.zipIdx) (hy : y ∈ l.zipIdx) (hlt : x.2 < y.2) : R x.1 y.1 := by
  rw [List.mem_zipIdx_iff_getElem?] at hx hy
  rw [List.pairwise_iff_getElem] at h
  obtain ⟨hx1, hx2⟩ := List.getElem?_eq_some_iff.mp hx
  obtain ⟨hy1, hy2⟩ := List.getElem?_eq_some_iff.mp hy
  rw [← hx2, ← hy2]
  exact h x.2 y.2 hx1 hy1 hlt

theorem ranksOf_eq_wmRanks (F : List α → List α → α) (rows : List (List α)) (m : ℕ) (hm : 0 < m)
    (hlen : ∀ e ∈ rows, e.length = m)
    (hF : rows.Pairwise fun e1 e2 => F e1 e2 = wmF e1 e2) :
    ranksOf F rows = wmRanks rows := by
  unfold ranksOf wmRanks
  apply List.map_congr_left
  intro ei hei
  unfold rankAt wmRank
  rw [sumL_eq_sum]
  congr 1
  apply sum_map_congr
  intro ek hek
  have hli : ei.1.length = m := hlen _ (List.fst_mem_of_mem_zipIdx hei)
  have hlk : ek.1.length = m := hlen _ (List.fst_mem_of_mem_zipIdx hek)
  rcases lt_trichotomy ek.2 ei.2 with h | h | h
  · rw [if_pos h, if_neg h.ne, pairwise_zipIdx hF hek hei h,
      uOf_wmF ek.1 ei.1 (by rw [hli, hlk]) (by rw [hlk]; exact hm), wmU_swap]
  · rw [if_neg (by omega), if_neg (by omega), if_pos h]
  · rw [if_neg (by omega), if_pos h, if_neg h.ne', pairwise_zipIdx hF hei hek h,
      uOf_wmF ei.1 ek.1 (by rw [hli, hlk]) (by rw [hli]; exact hm)]

end HydroVerif.C10
