/-
C06 — helper lemmas added in round 7: the flow-path walk in every case (capped walks, the boundary case where
the last step is dropped, start cells off the grid), the buffer size a delineation needs, the area as the
brute-force reachability set `reachArea`, interleaved histories with read-only calls.
-/
import HydroVerif.Lemmas.C06

set_option linter.unusedSectionVars false

namespace HydroVerif.C06
open HydroVerif.C07

variable {codes : List Int} {g : FlowGrid}

/-! ### the flow-path walk when nothing stops it -/

-- `GoesOn codes g outlet c i` (iteration `i` of the walk from `c` goes on): `Model/C06.lean`

/-- one iteration that goes on -/
theorem fpLoop_step (outlet : Int) (diag : Int → Int → Bool) (rem : Nat) (s : FpState)
    (h : GoesOn codes g outlet s.up 0) :
    fpLoop codes g outlet diag (rem + 1) s = fpLoop codes g outlet diag rem
      { ipath := s.ipath + 1, up := downstreamCell codes g s.up, down := downstreamCell codes g s.up,
        steps := s.steps ++ [diag s.up (downstreamCell codes g s.up)] } := by
  obtain ⟨hv, h0, hne⟩ := h
  have hv' : validCell g.nrows g.ncols s.up = true := hv
  have h0' : ¬ downstreamCell codes g s.up < 0 := by
    have h0'' : 0 ≤ downstreamCell codes g s.up := h0
    omega
  have hne' : downstreamCell codes g s.up ≠ outlet := hne
  have hds : downstream codes g s.up = .ok (downstreamCell codes g s.up) := by
    unfold downstream; rw [if_pos hv']
  rw [fpLoop]
  simp only [hds, h0', hne', if_false]

/-- `n+1` iterations none of which stops: the walk stands `n+1` cells down the chain, having recorded its steps -/
theorem fpLoop_run (outlet : Int) (diag : Int → Int → Bool) : ∀ (n rem : Nat) (s : FpState),
    (∀ i, i ≤ n → GoesOn codes g outlet s.up i) →
    fpLoop codes g outlet diag (rem + (n + 1)) s = fpLoop codes g outlet diag rem
      { ipath := s.ipath + (n + 1), up := chainCell codes g (n + 1) s.up,
        down := chainCell codes g (n + 1) s.up, steps := s.steps ++ chainSteps codes g diag (n + 1) s.up } := by
  intro n
  induction n with
  | zero =>
    intro rem s h
    rw [fpLoop_step outlet diag rem s (h 0 (le_refl 0))]
    rfl
  | succ n ih =>
    intro rem s h
    show fpLoop codes g outlet diag ((rem + (n + 1)) + 1) s = _
    rw [fpLoop_step outlet diag _ s (h 0 (Nat.zero_le _))]
    rw [ih rem _ (fun i hi => h (i + 1) (by omega))]
    congr 1
    simp only [FpState.mk.injEq, List.append_assoc, List.cons_append, List.nil_append]
    refine ⟨by omega, rfl, rfl, rfl⟩

/-- **a walk that nothing stops is cut after `nval` steps**: the row reports the cell `nval` steps down the chain
and the `nval` steps made -/
theorem flowPathWith_capped (diag : Int → Int → Bool) {start outlet : Int} {nval : Nat}
    (h1 : 1 ≤ nval) (hgo : ∀ i, i < nval → GoesOn codes g outlet start i) :
    flowPathWith codes g outlet diag nval start =
      (chainCell codes g nval start, chainSteps codes g diag nval start) ∧
    (fpLoop codes g outlet diag nval { ipath := 0, up := start, down := -1, steps := [] }).ipath = nval := by
  obtain ⟨n, rfl⟩ : ∃ n, nval = n + 1 := ⟨nval - 1, by omega⟩
  have hrun := fpLoop_run (codes := codes) (g := g) outlet diag n 0
    { ipath := 0, up := start, down := -1, steps := [] } (fun i hi => hgo i (by omega))
  have hz : 0 + (n + 1) = n + 1 := by omega
  rw [hz] at hrun
  have hnn : 0 ≤ chainCell codes g (n + 1) start := (hgo n (by omega)).2.1
  unfold flowPathWith
  rw [hrun]
  simp only [fpLoop, List.nil_append]
  have hlt : ¬ (n + 1 + 1 < n + 1 ∧ 0 ≤ chainCell codes g (n + 1) start) := by omega
  have hneg : ¬ chainCell codes g (n + 1) start < 0 := by omega
  simp only [hlt, hneg, if_false, and_self]

/-- **the boundary case**: a chain that first meets the outlet after exactly `nval` steps is reported with the
outlet as end cell, but the last step is NOT added (`ipath+1 < nval` fails): the steps are the first `nval-1` -/
theorem flowPathWith_last_step_dropped (diag : Int → Int → Bool) {start outlet : Int} {k : Nat}
    (hw : Reaches codes g [] (k + 1) start outlet)
    (hfirst : ∀ j, 1 ≤ j → j ≤ k → ¬ Reaches codes g [] j start outlet) (h0 : 0 ≤ outlet) :
    flowPathWith codes g outlet diag (k + 1) start = (outlet, chainSteps codes g diag k start) := by
  unfold flowPathWith
  rw [fpLoop_reach outlet diag k (k + 1) { ipath := 0, up := start, down := -1, steps := [] } hw hfirst (le_refl _)]
  have hn : ¬ outlet < 0 := by omega
  have hc2 : ¬ (0 + k + 1 < k + 1 ∧ 0 ≤ outlet) := by omega
  simp only [hc2, hn, if_false, List.nil_append]

/-- a start cell off the grid (or no iteration at all): end cell `-1`, nothing added -/
theorem flowPathWith_invalid (diag : Int → Int → Bool) (outlet start : Int) (nval : Nat)
    (h : validCell g.nrows g.ncols start = false ∨ nval = 0) :
    flowPathWith codes g outlet diag nval start = (-1, []) := by
  unfold flowPathWith
  cases nval with
  | zero => simp [fpLoop]
  | succ n =>
    rcases h with h | h
    · have hds : downstream codes g start = .error .badCell := by unfold downstream; simp [h]
      simp [fpLoop, hds]
    · omega

/-- walks along a chain whose cells are on the grid and keep draining -/
theorem reaches_of_goesOn {outlet : Int} : ∀ (j : Nat) (c : Int),
    (∀ i, i < j → GoesOn codes g outlet c i) → Reaches codes g [] j c (chainCell codes g j c) := by
  intro j
  induction j with
  | zero => intro c _; exact reaches_zero_iff.2 rfl
  | succ j ih =>
    intro c h
    obtain ⟨hv, h0, _⟩ := h 0 (by omega)
    refine reaches_succ_iff.2 ⟨hv, by simp, h0, ?_⟩
    exact ih (downstreamCell codes g c) (fun i hi => h (i + 1) (by omega))

/-- the cell a chain stands on after `i ≥ 1` iterations that went on is a cell of the grid -/
theorem goesOn_next_valid (ht : TableOK codes) {outlet c : Int} {i : Nat}
    (h : GoesOn codes g outlet c i) : validCell g.nrows g.ncols (chainCell codes g (i + 1) c) = true := by
  have := h.2.1
  rw [chainCell_succ] at this ⊢
  exact downstreamCell_nonneg_valid ht this

/-- **every row of the flow-path table falls in exactly one of four cases** — for a start cell of the grid and
`nval ≥ 1` cells handed to the kernel, with `i` the first iteration that does not go on (if any):
exit (the chain drains nowhere first), outlet reached with room (`i + 1 < nval`), outlet reached at the very
last iteration (`i + 1 = nval`, last step dropped), or no stop at all (capped) -/
theorem flowPath_cases (ht : TableOK codes) (outlet start : Int) (nval : Nat)
    (hv : validCell g.nrows g.ncols start = true) :
    (∃ j x, j + 1 ≤ nval ∧ Reaches codes g [] j start x ∧ validCell g.nrows g.ncols x = true ∧
        (∀ i, 1 ≤ i → i ≤ j → chainCell codes g i start ≠ outlet) ∧ downstreamCell codes g x < 0) ∨
    (∃ k, k + 1 ≤ nval ∧ Reaches codes g [] (k + 1) start outlet ∧
        (∀ j, 1 ≤ j → j ≤ k → ¬ Reaches codes g [] j start outlet)) ∨
    (∀ i, i < nval → GoesOn codes g outlet start i) := by
  classical
  by_cases hall : ∀ i, i < nval → GoesOn codes g outlet start i
  · exact Or.inr (Or.inr hall)
  · have hex : ∃ i, i < nval ∧ ¬ GoesOn codes g outlet start i := by
      by_contra hno
      apply hall
      intro i hi
      by_contra hg
      exact hno ⟨i, hi, hg⟩
    let i₀ := Nat.find hex
    have hi₀ : i₀ < nval ∧ ¬ GoesOn codes g outlet start i₀ := Nat.find_spec hex
    have hbefore : ∀ i, i < i₀ → GoesOn codes g outlet start i := by
      intro i hi
      by_contra hg
      exact Nat.find_min hex hi ⟨by omega, hg⟩
    have hvi : validCell g.nrows g.ncols (chainCell codes g i₀ start) = true := by
      rcases Nat.eq_zero_or_pos i₀ with h0 | hpos
      · rw [h0]; exact hv
      · obtain ⟨i', hi'⟩ : ∃ i', i₀ = i' + 1 := ⟨i₀ - 1, by omega⟩
        rw [hi']
        exact goesOn_next_valid ht (hbefore i' (by omega))
    have hreach := reaches_of_goesOn (codes := codes) (g := g) (outlet := outlet) i₀ start hbefore
    have hnot : ∀ i, 1 ≤ i → i ≤ i₀ → chainCell codes g i start ≠ outlet := by
      intro i hi1 hii
      obtain ⟨i', rfl⟩ : ∃ i', i = i' + 1 := ⟨i - 1, by omega⟩
      exact (hbefore i' (by omega)).2.2
    by_cases hneg : downstreamCell codes g (chainCell codes g i₀ start) < 0
    · exact Or.inl ⟨i₀, _, by omega, hreach, hvi, hnot, hneg⟩
    · right; left
      have h0 : 0 ≤ chainCell codes g (i₀ + 1) start := by rw [chainCell_succ]; omega
      have heq : chainCell codes g (i₀ + 1) start = outlet := by
        by_contra hne
        exact hi₀.2 ⟨hvi, h0, hne⟩
      refine ⟨i₀, by omega, ?_, ?_⟩
      · have hstep : Reaches codes g [] 1 (chainCell codes g i₀ start) outlet := by
          refine reaches_succ_iff.2 ⟨hvi, by simp, by omega, ?_⟩
          rw [← chainCell_succ, heq]
          exact reaches_zero_iff.2 rfl
        exact walk_join (downStep codes g []) i₀ 1 start _ outlet hreach hstep
      · intro j hj1 hjk hr
        exact hnot j hj1 hjk (walk_eq_chainCell j start outlet hr).symm

/-! ### `flowPathCapped` is exactly "no iteration stops" -/

/-- the walk stops at the first iteration that does not go on, having counted the ones before -/
theorem fpLoop_ipath_stop (ht : TableOK codes) (outlet : Int) (diag : Int → Int → Bool) :
    ∀ (j rem : Nat) (s : FpState), validCell g.nrows g.ncols s.up = true →
      (∀ i, i < j → GoesOn codes g outlet s.up i) → ¬ GoesOn codes g outlet s.up j →
      (fpLoop codes g outlet diag (rem + (j + 1)) s).ipath = s.ipath + j := by
  have base : ∀ (rem : Nat) (s : FpState), validCell g.nrows g.ncols s.up = true →
      ¬ GoesOn codes g outlet s.up 0 → (fpLoop codes g outlet diag (rem + 1) s).ipath = s.ipath := by
    intro rem s hv hno
    have hds : downstream codes g s.up = .ok (downstreamCell codes g s.up) := by
      unfold downstream; rw [if_pos hv]
    rw [fpLoop]
    simp only [hds]
    by_cases hneg : downstreamCell codes g s.up < 0
    · rw [if_pos hneg]
    · rw [if_neg hneg]
      by_cases ho : downstreamCell codes g s.up = outlet
      · rw [if_pos ho]
      · exact absurd ⟨hv, by show 0 ≤ downstreamCell codes g s.up; omega, ho⟩ hno
  intro j
  cases j with
  | zero => intro rem s hv _ hno; simpa using base rem s hv hno
  | succ n =>
    intro rem s hv hgo hno
    have e : rem + (n + 1 + 1) = (rem + 1) + (n + 1) := by omega
    rw [e, fpLoop_run outlet diag n (rem + 1) s (fun i hi => hgo i (by omega))]
    have hv' : validCell g.nrows g.ncols (chainCell codes g (n + 1) s.up) = true :=
      goesOn_next_valid ht (hgo n (by omega))
    have hno' : ¬ GoesOn codes g outlet (chainCell codes g (n + 1) s.up) 0 := by
      intro h
      apply hno
      obtain ⟨a, b, c⟩ := h
      refine ⟨a, ?_, ?_⟩
      · rw [chainCell_succ]; exact b
      · rw [chainCell_succ]; exact c
    rw [base rem _ hv' hno']

theorem flowPathCapped_iff_goesOn (ht : TableOK codes) {outlet start : Int} {nval : Nat} (h1 : 1 ≤ nval)
    (hv : validCell g.nrows g.ncols start = true) :
    flowPathCapped codes g outlet nval start = true ↔ ∀ i, i < nval → GoesOn codes g outlet start i := by
  classical
  unfold flowPathCapped
  rw [beq_iff_eq]
  constructor
  · intro hip
    by_contra hall
    have hex : ∃ i, i < nval ∧ ¬ GoesOn codes g outlet start i := by
      by_contra hno
      apply hall
      intro i hi
      by_contra hg
      exact hno ⟨i, hi, hg⟩
    have hi₀ : Nat.find hex < nval ∧ ¬ GoesOn codes g outlet start (Nat.find hex) := Nat.find_spec hex
    have hbefore : ∀ i, i < Nat.find hex → GoesOn codes g outlet start i := by
      intro i hi
      by_contra hg
      exact Nat.find_min hex hi ⟨by omega, hg⟩
    have e : nval = (nval - (Nat.find hex + 1)) + (Nat.find hex + 1) := by omega
    rw [e] at hip
    have := fpLoop_ipath_stop (codes := codes) (g := g) ht outlet (isDiag g.ncols) (Nat.find hex)
      (nval - (Nat.find hex + 1)) { ipath := 0, up := start, down := -1, steps := [] } hv hbefore hi₀.2
    rw [this] at hip
    simp only [Nat.zero_add] at hip
    omega
  · intro hgo
    exact (flowPathWith_capped (isDiag g.ncols) h1 hgo).2

/-! ### the buffer a delineation needs: one slot more than the area has cells -/

/-- the `while` loop never returns more than `nval - 1` cells -/
theorem areaLoop_length {o : Int} (inlets : List Int) (nval : Int) :
    ∀ (fuel k : Nat) (area buf : List Int) (A : List Int), (area.length : Int) ≤ nval - 1 →
      areaLoop codes g o inlets nval fuel k area buf = .ok A → (A.length : Int) ≤ nval - 1 := by
  intro fuel
  induction fuel with
  | zero => intro k area buf A _ h; simp [areaLoop] at h
  | succ fuel ih =>
    intro k area buf A h1 h
    rw [areaLoop] at h
    have hfold := expand_fold (codes := codes) (g := g) nval inlets buf { area := area, buf2 := [] } h1
    cases hx : expandLayer codes g nval inlets area buf with
    | error e => rw [hx] at h; cases h
    | ok st =>
      rw [hx] at h
      have hlen : (st.area.length : Int) ≤ nval - 1 := by
        rcases hfold with ⟨st', e1, _, _, e4⟩ | ⟨e, e1, _⟩
        · have : Except.ok st' = Except.ok st := e1.symm.trans hx
          cases this; exact e4
        · have : Except.error e = Except.ok st := e1.symm.trans hx
          cases this
      simp only [] at h
      by_cases hnil : st.buf2 = []
      · rw [if_pos hnil] at h; cases h; exact hlen
      · rw [if_neg hnil] at h
        by_cases hk : k = 0
        · rw [if_pos hk] at h
          by_cases hfull : (st.area.length : Int) = nval - 1
          · rw [if_pos hfull] at h; cases h
          · rw [if_neg hfull] at h
            refine ih (k + 1) _ _ A ?_ h
            rw [List.length_append, List.length_singleton]; push_cast; omega
        · rw [if_neg hk] at h
          exact ih (k + 1) _ _ A hlen h

/-- **a returned area leaves one slot of the buffer free**: `len(area) + 1 ≤ nval` — the work array always ends in
a `-1`, which is what `idxcells[idxcells >= 0]` relies on -/
theorem delineateArea_fits {o nval : Int} {inlets A : List Int}
    (h : delineateArea codes g o inlets nval = .ok A) : (A.length : Int) + 1 ≤ nval := by
  unfold delineateArea at h
  by_cases h1 : nval < 1
  · rw [if_pos h1] at h; cases h
  · rw [if_neg h1] at h
    split at h
    · cases h
    · split at h
      · cases h
      · have := areaLoop_length (codes := codes) (g := g) inlets nval _ 0 [] [o] A (by simp; omega) h
        omega

/-! ### the brute-force reachability set -/

theorem mem_gridCells {c : Int} : c ∈ gridCells g ↔ validCell g.nrows g.ncols c = true := by
  unfold gridCells
  rw [List.mem_map, validCell_iff]
  constructor
  · rintro ⟨n, hn, rfl⟩
    have := List.mem_range.1 hn
    omega
  · intro h
    exact ⟨c.toNat, List.mem_range.2 (by omega), by omega⟩

theorem gridCells_nodup : (gridCells g).Nodup := by
  unfold gridCells
  rw [List.nodup_map_iff_inj_on List.nodup_range]
  intro a _ b _ h
  exact_mod_cast h

theorem reachArea_nodup (o : Int) (inlets : List Int) : (reachArea codes g o inlets).Nodup := by
  unfold reachArea
  exact gridCells_nodup.filter _

/-- membership in `reachArea`, spelled out -/
theorem mem_reachArea {o c : Int} {inlets : List Int} :
    c ∈ reachArea codes g o inlets ↔
      validCell g.nrows g.ncols c = true ∧
        ((c = o ∧ ∃ u, Reaches codes g inlets 1 u o) ∨
          ∃ k, 1 ≤ k ∧ k ≤ (g.nrows * g.ncols).toNat ∧ Reaches codes g inlets k c o) := by
  unfold reachArea
  simp only [List.mem_filter, mem_gridCells, Bool.or_eq_true, Bool.and_eq_true, decide_eq_true_eq,
    List.any_eq_true, List.mem_range]
  constructor
  · rintro ⟨hv, ⟨rfl, u, _, hu⟩ | ⟨k, hk, hr⟩⟩
    · exact ⟨hv, Or.inl ⟨rfl, u, hu⟩⟩
    · exact ⟨hv, Or.inr ⟨k + 1, by omega, by omega, hr⟩⟩
  · rintro ⟨hv, ⟨rfl, u, hu⟩ | ⟨k, hk1, hkN, hr⟩⟩
    · exact ⟨hv, Or.inl ⟨rfl, u, (reaches_succ_iff.1 hu).1, hu⟩⟩
    · obtain ⟨k', rfl⟩ : ∃ k', k = k' + 1 := ⟨k - 1, by omega⟩
      exact ⟨hv, Or.inr ⟨k', by omega, hr⟩⟩

/-! ### the filled area, whatever the fill routine does -/

/-- membership in `maskCells`, spelled out -/
theorem mem_maskCells {ncols : Int} {b : BBox} {m : Nat → Nat → Bool} {x : Int} :
    x ∈ maskCells ncols b m ↔ ∃ r c, r < b.nr ∧ c < b.nc ∧ m r c = true ∧
      x = ((r : Int) + b.i0) * ncols + ((c : Int) + b.j0) := by
  unfold maskCells
  simp only [List.mem_flatMap, List.mem_range, List.mem_filterMap]
  constructor
  · rintro ⟨r, hr, c, hc, h⟩
    by_cases hm : m r c = true
    · rw [if_pos hm] at h
      exact ⟨r, c, hr, hc, hm, (Option.some.inj h).symm⟩
    · rw [if_neg hm] at h; cases h
  · rintro ⟨r, c, hr, hc, hm, rfl⟩
    exact ⟨r, hr, c, hc, by rw [if_pos hm]⟩

/-- the cells of a mask laid over a box that fits the grid columns come out in strictly increasing order -/
theorem maskCells_sorted {ncols : Int} {b : BBox} (m : Nat → Nat → Bool)
    (hj0 : 0 ≤ b.j0) (hj1 : ∀ c : Nat, c < b.nc → (c : Int) + b.j0 < ncols) :
    (maskCells ncols b m).Pairwise (· < ·) := by
  unfold maskCells
  rw [List.pairwise_flatMap]
  constructor
  · intro r _
    refine List.Pairwise.filterMap _ ?_ (List.pairwise_lt_range)
    intro c c' hcc x hx y hy
    by_cases h1 : m r c = true
    · by_cases h2 : m r c' = true
      · rw [if_pos h1] at hx; rw [if_pos h2] at hy
        cases hx; cases hy
        have : (c : Int) < c' := by exact_mod_cast hcc
        omega
      · rw [if_neg h2] at hy; cases hy
    · rw [if_neg h1] at hx; cases hx
  · refine List.Pairwise.imp_of_mem ?_ (List.pairwise_lt_range)
    intro r r' hr hr' hrr x hx y hy
    rw [List.mem_filterMap] at hx hy
    obtain ⟨c, hc, hx⟩ := hx
    obtain ⟨c', hc', hy⟩ := hy
    have hcl := List.mem_range.1 hc
    have hcl' := List.mem_range.1 hc'
    by_cases h1 : m r c = true
    · by_cases h2 : m r' c' = true
      · rw [if_pos h1] at hx; rw [if_pos h2] at hy
        cases hx; cases hy
        have hlt : (r : Int) + b.i0 + 1 ≤ (r' : Int) + b.i0 := by
          have : (r : Int) < r' := by exact_mod_cast hrr
          omega
        have hcn := hj1 c hcl
        have hnc : (0 : Int) ≤ ncols := by omega
        have hmul := Int.mul_le_mul_of_nonneg_right hlt hnc
        have e : ((r : Int) + b.i0 + 1) * ncols = ((r : Int) + b.i0) * ncols + ncols := by ring
        rw [e] at hmul
        omega
      · rw [if_neg h2] at hy; cases hy
    · rw [if_neg h1] at hx; cases hx


/-- **the filled list is well formed for ANY fill routine**: no cell twice, only cells of the grid (the rectangle
handed to the fill routine lies inside the grid, and its cells come out in strictly increasing order) -/
theorem areaFilled_wellformed (hc : 0 < g.ncols)
    (fill : Nat → Nat → (Nat → Nat → Bool) → (Nat → Nat → Bool)) (area : List Int)
    (hnd : area.Nodup) (hv : ∀ a ∈ area, validCell g.nrows g.ncols a = true) :
    (areaFilled g fill area).Nodup ∧ ∀ x ∈ areaFilled g fill area, validCell g.nrows g.ncols x = true := by
  cases area with
  | nil => exact ⟨hnd, hv⟩
  | cons c cs =>
    unfold areaFilled
    simp only [bbox]
    generalize minList (cell2rowcol g.nrows g.ncols c).1 (cs.map fun x => (cell2rowcol g.nrows g.ncols x).1) = rmin
    generalize maxList (cell2rowcol g.nrows g.ncols c).1 (cs.map fun x => (cell2rowcol g.nrows g.ncols x).1) = rmax
    generalize minList (cell2rowcol g.nrows g.ncols c).2 (cs.map fun x => (cell2rowcol g.nrows g.ncols x).2) = cmin
    generalize maxList (cell2rowcol g.nrows g.ncols c).2 (cs.map fun x => (cell2rowcol g.nrows g.ncols x).2) = cmax
    have hi0 : (bboxOf g.nrows g.ncols rmin rmax cmin cmax).i0 = max 0 (rmin - 1) := rfl
    have hj0 : (bboxOf g.nrows g.ncols rmin rmax cmin cmax).j0 = max 0 (cmin - 1) := rfl
    have hnr : (bboxOf g.nrows g.ncols rmin rmax cmin cmax).nr =
        (min (g.nrows - 1) (rmax + 1) - max 0 (rmin - 1) + 1).toNat := rfl
    have hnc : (bboxOf g.nrows g.ncols rmin rmax cmin cmax).nc =
        (min (g.ncols - 1) (cmax + 1) - max 0 (cmin - 1) + 1).toNat := rfl
    have hcol : ∀ k : Nat, k < (bboxOf g.nrows g.ncols rmin rmax cmin cmax).nc →
        (k : Int) + (bboxOf g.nrows g.ncols rmin rmax cmin cmax).j0 < g.ncols := by
      intro k hk; rw [hnc] at hk; rw [hj0]; omega
    constructor
    · exact (maskCells_sorted (ncols := g.ncols) (b := bboxOf g.nrows g.ncols rmin rmax cmin cmax) _
        (by rw [hj0]; omega) hcol).imp (fun h => ne_of_lt h)
    · intro x hx
      obtain ⟨r, k, hr, hk, _, rfl⟩ := mem_maskCells.1 hx
      have hk' := hcol k hk
      rw [hnr] at hr
      have := validCell_cellOf (nrows := g.nrows) (ncols := g.ncols)
        (row := (r : Int) + (bboxOf g.nrows g.ncols rmin rmax cmin cmax).i0)
        (col := (k : Int) + (bboxOf g.nrows g.ncols rmin rmax cmin cmax).j0)
        (by rw [hi0]; omega) (by rw [hi0]; omega) (by rw [hj0]; omega) hk'
      exact this

/-! ### `chainCyclic` is exactly "the chain never ends" -/

theorem chainCell_add (a b : Nat) (c : Int) :
    chainCell codes g (a + b) c = chainCell codes g b (chainCell codes g a c) := by
  induction a generalizing c with
  | zero => simp [chainCell]
  | succ a ih =>
    have e : a + 1 + b = (a + b) + 1 := by omega
    rw [e]
    show chainCell codes g (a + b) (downstreamCell codes g c) = _
    rw [ih]; rfl

theorem chainEnds_iff (n : Nat) (c : Int) :
    chainEnds codes g n c = true ↔ ∃ i, i < n ∧ downstreamCell codes g (chainCell codes g i c) < 0 := by
  induction n generalizing c with
  | zero => simp [chainEnds]
  | succ n ih =>
    simp only [chainEnds]
    by_cases h : downstreamCell codes g c < 0
    · rw [if_pos h]
      exact ⟨fun _ => ⟨0, by omega, h⟩, fun _ => rfl⟩
    · rw [if_neg h, ih]
      constructor
      · rintro ⟨i, hi, hd⟩
        exact ⟨i + 1, by omega, hd⟩
      · rintro ⟨i, hi, hd⟩
        cases i with
        | zero => exact absurd hd h
        | succ i => exact ⟨i, by omega, hd⟩

/-- **`chainCyclic` (where the river's outcome is left open) is exactly "the chain from the start never ends"** —
it never reaches a sink, an exit or an invalid code, i.e. (finite grid) it runs into a flow cycle -/
theorem chainCyclic_iff_never_ends (ht : TableOK codes) {start : Int}
    (hv : validCell g.nrows g.ncols start = true) :
    chainCyclic codes g start = true ↔ ∀ k, 0 ≤ chainCell codes g (k + 1) start := by
  classical
  unfold chainCyclic
  rw [hv, Bool.true_and, Bool.not_eq_true', ← Bool.not_eq_true, chainEnds_iff]
  set N := (g.nrows * g.ncols).toNat with hN
  constructor
  · intro hno
    have hstep : ∀ i, i < N + 1 → 0 ≤ chainCell codes g (i + 1) start := by
      intro i hi
      by_contra hneg
      exact hno ⟨i, hi, by rw [chainCell_succ] at hneg; omega⟩
    have hvalid : ∀ i, i ≤ N + 1 → validCell g.nrows g.ncols (chainCell codes g i start) = true := by
      intro i hi
      cases i with
      | zero => exact hv
      | succ i =>
        have := hstep i (by omega)
        rw [chainCell_succ] at this ⊢
        exact downstreamCell_nonneg_valid ht this
    -- two of the first N+1 cells coincide
    have hdup : ∃ i j, i < j ∧ j ≤ N ∧ chainCell codes g i start = chainCell codes g j start := by
      by_contra hnd
      have hinj : ((List.range (N + 1)).map fun i => chainCell codes g i start).Nodup := by
        rw [List.nodup_map_iff_inj_on List.nodup_range]
        intro i hi j hj heq
        have hi' := List.mem_range.1 hi
        have hj' := List.mem_range.1 hj
        by_contra hne
        rcases Nat.lt_or_gt_of_ne hne with h | h
        · exact hnd ⟨i, j, h, by omega, heq⟩
        · exact hnd ⟨j, i, h, by omega, heq.symm⟩
      have hsub : ∀ x ∈ ((List.range (N + 1)).map fun i => chainCell codes g i start),
          x ∈ (List.range N).map (fun n : Nat => (n : Int)) := by
        intro x hx
        rw [List.mem_map] at hx
        obtain ⟨i, hi, rfl⟩ := hx
        have hvi := validCell_iff.1 (hvalid i (by have := List.mem_range.1 hi; omega))
        rw [List.mem_map]
        exact ⟨(chainCell codes g i start).toNat, List.mem_range.2 (by omega), by omega⟩
      have := length_le_of_nodup_subset hinj hsub
      simp at this
    obtain ⟨i, j, hij, hjN, heq⟩ := hdup
    intro k
    induction k using Nat.strong_induction_on with
    | _ k ih =>
      by_cases hk : k < N + 1
      · exact hstep k hk
      · have e1 : k + 1 = j + (k + 1 - j) := by omega
        have e2 : i + (k + 1 - j) = (k - (j - i)) + 1 := by omega
        rw [e1, chainCell_add, ← heq, ← chainCell_add, e2]
        exact ih (k - (j - i)) (by omega)
  · rintro hall ⟨i, _, hd⟩
    have := hall i
    rw [chainCell_succ] at this
    omega


/-! ### what one call does to the state -/

theorem histStep_delineate_state (s : CatchState) (o : Int) (inl : List Int) (nval : Int) :
    (histStep codes s (.delineate o inl nval)).1 =
      { grid := s.grid, outlet := some o,
        area := match wrapperArea codes s.grid o inl nval with
          | .ok a => some a
          | .error _ => none } := by
  simp only [histStep]
  cases wrapperArea codes s.grid o inl nval <;> rfl

theorem histStep_flowpaths_state (s : CatchState) : (histStep codes s .flowpaths).1 = s := by
  simp only [histStep]
  split <;> rfl

/-- no call changes the shape of the grid -/
theorem histStep_shape (s : CatchState) (op : HistOp) :
    (histStep codes s op).1.grid.nrows = s.grid.nrows ∧ (histStep codes s op).1.grid.ncols = s.grid.ncols := by
  cases op with
  | delineate o inl nval => rw [histStep_delineate_state]; exact ⟨rfl, rfl⟩
  | flowpaths => rw [histStep_flowpaths_state]; exact ⟨rfl, rfl⟩
  | setCell c v => exact ⟨rfl, rfl⟩
  | setGrid fd => exact ⟨rfl, rfl⟩

/-! ### interleaved histories: read-only calls never change what the object holds -/

section Queries
variable {α : Type} [Add α] [Mul α] [OfNat α 0] [OfNat α 1] [IntCast α] [Transc α]

theorem callRun_state (calls : List HistCall) : ∀ s : CatchState,
    (callRun (α := α) codes s calls).1 = (histRun codes s (opsOf calls)).1 := by
  induction calls with
  | nil => intro s; rfl
  | cons c cs ih =>
    intro s
    cases c with
    | op o => simp only [callRun, callStep, opsOf, histRun]; exact ih _
    | query q => simp only [callRun, callStep, opsOf]; exact ih _

theorem callRun_length (calls : List HistCall) : ∀ s : CatchState,
    (callRun (α := α) codes s calls).2.length = calls.length := by
  induction calls with
  | nil => intro s; rfl
  | cons c cs ih => intro s; simp only [callRun, List.length_cons]; rw [ih]

theorem callRun_append (calls : List HistCall) (c : HistCall) : ∀ s : CatchState,
    (callRun (α := α) codes s (calls ++ [c])).2 =
      (callRun (α := α) codes s calls).2 ++ [(callStep (α := α) codes (callRun (α := α) codes s calls).1 c).2] := by
  induction calls with
  | nil => intro s; rfl
  | cons c' cs ih =>
    intro s
    simp only [List.cons_append, callRun]
    rw [ih]

end Queries

end HydroVerif.C06
