/-
C02 — helper lemmas (none of these is a property statement): derivatives of the closed formulas used by the
transform model, the hyperbolic-tangent identity behind LogSinh's Jacobian, and "positive derivative on an
interval ⇒ strictly increasing".
-/
import HydroVerif.Lemmas.C01Real
import HydroVerif.Lemmas.C01Sliver
import HydroVerif.Model.C02
import Mathlib.Analysis.SpecialFunctions.Pow.Deriv
import Mathlib.Analysis.SpecialFunctions.Log.Deriv
import Mathlib.Analysis.SpecialFunctions.ExpDeriv
import Mathlib.Analysis.SpecialFunctions.Arsinh
import Mathlib.Analysis.SpecialFunctions.Trigonometric.Deriv
import Mathlib.Analysis.Calculus.Deriv.MeanValue
import Mathlib.Analysis.Calculus.Deriv.Inv
import Mathlib.Analysis.Calculus.Deriv.Comp

namespace HydroVerif.C02
open HydroVerif.C01 Set Filter Topology

/-! ### generic -/

/-- a function with a positive derivative at every point of an interval is strictly increasing on it -/
theorem strictMonoOn_of_hasDerivAt_pos {D : Set ℝ} (hD : Convex ℝ D) {f f' : ℝ → ℝ}
    (h : ∀ x ∈ D, HasDerivAt f (f' x) x) (hpos : ∀ x ∈ D, 0 < f' x) : StrictMonoOn f D :=
  strictMonoOn_of_hasDerivWithinAt_pos hD (fun x hx => (h x hx).continuousAt.continuousWithinAt)
    (fun x hx => (h x (interior_subset hx)).hasDerivWithinAt) (fun x hx => hpos x (interior_subset hx))

/-- a set of reals that contains the segment between any two of its points is convex -/
theorem convex_of_between {D : Set ℝ} (h : ∀ x ∈ D, ∀ y ∈ D, ∀ z, x ≤ z → z ≤ y → z ∈ D) : Convex ℝ D := by
  have : D.OrdConnected := ⟨fun x hx y hy z hz => h x hx y hy z hz.1 hz.2⟩
  exact this.convex

/-! ### the power family `s ↦ (s^k - 1)/k` and the logarithm, composed with an inner function -/

theorem hasDerivAt_bcpow {g : ℝ → ℝ} {g' x k : ℝ} (hg : HasDerivAt g g' x) (hpos : 0 < g x) (hk : k ≠ 0) :
    HasDerivAt (fun t => (g t ^ k - 1) / k) (g x ^ (k - 1) * g') x := by
  have h : HasDerivAt (fun t => (g t ^ k - 1) / k) (g' * k * g x ^ (k - 1) / k) x :=
    ((hg.rpow_const (p := k) (Or.inl hpos.ne')).sub_const 1).div_const k
  refine h.congr_deriv ?_
  field_simp

theorem hasDerivAt_bclog {g : ℝ → ℝ} {g' x : ℝ} (hg : HasDerivAt g g' x) (hpos : 0 < g x) :
    HasDerivAt (fun t => Real.log (g t)) (1 / g x * g') x := by
  have h : HasDerivAt (fun t => Real.log (g t)) (g' / g x) x := hg.log hpos.ne'
  refine h.congr_deriv ?_
  ring

/-! ### LogSinh: `tanh w = (1 - e^{-2w})/(1 + e^{-2w})`, derivative of `w + log((1 - e^{-2w})/2)` -/

theorem tanh_eq_exp (w : ℝ) : Real.tanh w = (1 - Real.exp (-2 * w)) / (1 + Real.exp (-2 * w)) := by
  have h1 : Real.exp (-2 * w) = Real.exp (-w) * Real.exp (-w) := by rw [← Real.exp_add]; congr 1; ring
  have h2 : Real.exp w * Real.exp (-w) = 1 := by rw [← Real.exp_add]; simp
  have hp := Real.exp_pos w
  have hn := Real.exp_pos (-w)
  rw [Real.tanh_eq_sinh_div_cosh, Real.sinh_eq, Real.cosh_eq, h1]
  have e1 : Real.exp w = 1 / Real.exp (-w) := by field_simp; linarith
  rw [e1]
  field_simp

theorem tanh_pos {w : ℝ} (hw : 0 < w) : 0 < Real.tanh w := by
  rw [tanh_eq_exp]
  have hE0 : 0 < Real.exp (-2 * w) := Real.exp_pos _
  have hE1 : Real.exp (-2 * w) < 1 := by rw [Real.exp_lt_one_iff]; linarith
  apply div_pos <;> linarith

theorem hasDerivAt_logsinh_core {g : ℝ → ℝ} {g' x : ℝ} (hg : HasDerivAt g g' x) (hpos : 0 < g x) :
    HasDerivAt (fun t => g t + Real.log ((1 - Real.exp (-2 * g t)) / 2)) (1 / Real.tanh (g x) * g') x := by
  have hE0 : 0 < Real.exp (-2 * g x) := Real.exp_pos _
  have hE1 : Real.exp (-2 * g x) < 1 := by rw [Real.exp_lt_one_iff]; linarith
  have h1 : HasDerivAt (fun t => Real.exp (-2 * g t)) (Real.exp (-2 * g x) * (-2 * g')) x :=
    (hg.const_mul (-2)).exp
  have h2 : HasDerivAt (fun t => (1 - Real.exp (-2 * g t)) / 2) (-(Real.exp (-2 * g x) * (-2 * g')) / 2) x :=
    (h1.const_sub 1).div_const 2
  have h3 : HasDerivAt (fun t => g t + Real.log ((1 - Real.exp (-2 * g t)) / 2))
      (g' + -(Real.exp (-2 * g x) * (-2 * g')) / 2 / ((1 - Real.exp (-2 * g x)) / 2)) x :=
    hg.add (h2.log (by linarith : (1 - Real.exp (-2 * g x)) / 2 ≠ 0))
  refine h3.congr_deriv ?_
  rw [tanh_eq_exp]
  generalize Real.exp (-2 * g x) = E at hE0 hE1
  have h1E : (1 - E) ≠ 0 := by linarith
  have h2E : (1 + E) ≠ 0 := by linarith
  rw [one_div_div, div_div_eq_mul_div, neg_mul]
  field_simp
  ring


/-! ### small facts used by several property theorems (parameter bounds, BoxCox2sym on each half-line) -/

theorem BoxCox2sym.fwd_of_pos (p : BoxCox2sym.Params ℝ) {t : ℝ} (ht : 0 < t) :
    BoxCox2sym.fwd p t = BoxCox2.fwd (BoxCox2sym.toBC p) t - BoxCox2sym.y0 p := by
  simp only [BoxCox2sym.fwd, C01.sign_pos ht, absv_eq, abs_of_pos ht, one_mul]

theorem BoxCox2sym.fwd_of_neg (p : BoxCox2sym.Params ℝ) {t : ℝ} (ht : t < 0) :
    BoxCox2sym.fwd p t = -(BoxCox2.fwd (BoxCox2sym.toBC p) (-t) - BoxCox2sym.y0 p) := by
  simp only [BoxCox2sym.fwd, C01.sign_neg ht, absv_eq, abs_of_neg ht, neg_mul, one_mul]

theorem BoxCox2sym.fwd_zero (p : BoxCox2sym.Params ℝ) : BoxCox2sym.fwd p 0 = 0 := by
  simp only [BoxCox2sym.fwd, C01.sign_zero, zero_mul]

theorem Sinh.scale_pos (p : Sinh.Params ℝ) (hp : Sinh.admissible p) : 0 < p.scale := by
  unfold Sinh.admissible at hp
  have : (0 : ℝ) < 1e-10 := by norm_num
  linarith

theorem Manly.xmax_pos (p : Manly.Params ℝ) (hp : Manly.admissible p) : 0 < p.xmax :=
  lt_of_lt_of_le eps_pos hp.2.2

theorem LogSinh.xmax_pos (p : LogSinh.Params ℝ) (hp : LogSinh.admissible p) : 0 < p.xmax :=
  lt_of_lt_of_le eps_pos hp.2.2.2.2

/-- inside the guard `x/xmax > -a/b + EPS` the argument of `sinh` is positive -/
theorem LogSinh.w_pos (p : LogSinh.Params ℝ) (x : ℝ) (hx : LogSinh.dom p x) :
    0 < LogSinh.a p + LogSinh.b p * (x / p.xmax) := by
  have hb : 0 < LogSinh.b p := Real.exp_pos _
  unfold LogSinh.dom LogSinh.inDom at hx
  rw [decide_eq_true_iff] at hx
  have h1 : -LogSinh.a p / LogSinh.b p < x / p.xmax := by linarith [eps_pos]
  rw [div_lt_iff₀ hb] at h1
  linarith

theorem YeoJohnson.scale_pos (p : YeoJohnson.Params ℝ) (hp : YeoJohnson.admissible p) : 0 < p.scale := by
  have h := hp.1
  have : (0 : ℝ) < 1e-5 := by norm_num
  linarith

/-! ### Yeo-Johnson on the shifted argument `w`: the two formulas (`posF`, `negF` of Lemmas/C01Sliver) and their
derivatives `posJ`, `negJ` -/
namespace YeoJohnson
open HydroVerif.C01.YeoJohnson

noncomputable def posJ (lam w : ℝ) : ℝ := if isclose0 lam then 1 / (w + 1) else (w + 1) ^ (lam - 1)
noncomputable def negJ (lam w : ℝ) : ℝ := if isclose2 lam then 1 / (-w + 1) else (-w + 1) ^ (1 - lam)

theorem jacW_eq (lam w : ℝ) : jacW lam w = if eps ≤ w then posJ lam w else negJ lam w := by
  unfold jacW posJ negJ; simp only [transc_pow]

theorem hasDerivAt_posF (lam w : ℝ) (hw : -1 < w) : HasDerivAt (posF lam) (posJ lam w) w := by
  have hg : HasDerivAt (fun t : ℝ => t + 1) 1 w := (hasDerivAt_id w).add_const 1
  have hpos : 0 < w + 1 := by linarith
  unfold posF posJ
  cases h0 : isclose0 lam with
  | true =>
    simp only [if_true]
    exact (hasDerivAt_bclog hg hpos).congr_deriv (by ring)
  | false =>
    simp only [Bool.false_eq_true, if_false]
    exact (hasDerivAt_bcpow hg hpos (isclose0_false h0)).congr_deriv (by ring)

theorem hasDerivAt_negF (lam w : ℝ) (hw : w < 1) : HasDerivAt (negF lam) (negJ lam w) w := by
  have hg : HasDerivAt (fun t : ℝ => -t + 1) (-1) w := ((hasDerivAt_id w).neg).add_const 1
  have hpos : 0 < -w + 1 := by linarith
  unfold negF negJ
  cases h2 : isclose2 lam with
  | true =>
    simp only [if_true]
    have h : HasDerivAt (fun t => -(Real.log (-t + 1))) (-(1 / (-w + 1) * -1)) w := (hasDerivAt_bclog hg hpos).neg
    exact h.congr_deriv (by ring)
  | false =>
    simp only [Bool.false_eq_true, if_false]
    have hk := isclose2_false h2
    have h : HasDerivAt (fun t => -(((-t + 1) ^ (2 - lam) - 1) / (2 - lam))) (-((-w + 1) ^ (2 - lam - 1) * -1)) w :=
      (hasDerivAt_bcpow hg hpos hk).neg
    have e : (fun t : ℝ => -((-t + 1) ^ (2 - lam) - 1) / (2 - lam)) = fun t => -(((-t + 1) ^ (2 - lam) - 1) / (2 - lam)) := by
      funext t; rw [neg_div]
    rw [e]
    refine h.congr_deriv ?_
    rw [show 2 - lam - 1 = 1 - lam by ring]; ring

theorem posJ_pos (lam w : ℝ) (hw : -1 < w) : 0 < posJ lam w := by
  have hpos : 0 < w + 1 := by linarith
  unfold posJ
  split_ifs
  · positivity
  · exact Real.rpow_pos_of_pos hpos _

theorem negJ_pos (lam w : ℝ) (hw : w < 1) : 0 < negJ lam w := by
  have hpos : 0 < -w + 1 := by linarith
  unfold negJ
  split_ifs
  · positivity
  · exact Real.rpow_pos_of_pos hpos _

theorem posF_strictMonoOn (lam : ℝ) : StrictMonoOn (posF lam) (Ioi (-1)) :=
  strictMonoOn_of_hasDerivAt_pos (f' := posJ lam) (convex_Ioi _)
    (fun w hw => hasDerivAt_posF lam w hw) (fun w hw => posJ_pos lam w hw)

theorem negF_strictMonoOn (lam : ℝ) : StrictMonoOn (negF lam) (Iio 1) :=
  strictMonoOn_of_hasDerivAt_pos (f' := negJ lam) (convex_Iio _)
    (fun w hw => hasDerivAt_negF lam w hw) (fun w hw => negJ_pos lam w hw)

/-- `fwdW` agrees with `posF` near every `w > EPS`, with `negF` near every `w < EPS` -/
theorem hasDerivAt_fwdW_pos (lam w : ℝ) (hw : eps < w) : HasDerivAt (fwdW lam) (jacW lam w) w := by
  have hev : fwdW lam =ᶠ[𝓝 w] posF lam := by
    filter_upwards [eventually_gt_nhds hw] with t ht
    rw [fwdW_eq, if_pos ht.le]
  rw [jacW_eq, if_pos hw.le]
  exact (hasDerivAt_posF lam w (by linarith [eps_pos])).congr_of_eventuallyEq hev

theorem hasDerivAt_fwdW_neg (lam w : ℝ) (hw : w < eps) : HasDerivAt (fwdW lam) (jacW lam w) w := by
  have hev : fwdW lam =ᶠ[𝓝 w] negF lam := by
    filter_upwards [eventually_lt_nhds hw] with t ht
    rw [fwdW_eq, if_neg (not_le.mpr ht)]
  rw [jacW_eq, if_neg (not_le.mpr hw)]
  exact (hasDerivAt_negF lam w (by linarith [eps_lt_one])).congr_of_eventuallyEq hev

theorem jacW_pos (lam w : ℝ) : 0 < jacW lam w := by
  rw [jacW_eq]
  split_ifs with h
  · exact posJ_pos lam w (by linarith [eps_pos])
  · exact negJ_pos lam w (by linarith [eps_lt_one, not_le.mp h])

/-- across the junction `w = EPS` the two formulas differ by at most `3 EPS²`: for `w₁ < EPS ≤ w₂` the value can
drop by less than that (for `lam > 1` it does drop, by ≈ `(lam-1) EPS³/3`) -/
theorem fwdW_lt_add {lam : ℝ} (hl1 : -1 ≤ lam) (hl3 : lam ≤ 3) {w1 w2 : ℝ} (h : w1 < w2) :
    fwdW lam w1 < fwdW lam w2 + 3 * eps ^ 2 := by
  have he0 := eps_pos
  have he1 := eps_lt_one
  have hsq : (0 : ℝ) < 3 * eps ^ 2 := by positivity
  rw [fwdW_eq, fwdW_eq]
  by_cases h1 : eps ≤ w1
  · have h2 : eps ≤ w2 := by linarith
    rw [if_pos h1, if_pos h2]
    have := posF_strictMonoOn lam (show w1 ∈ Ioi (-1) by simp only [mem_Ioi]; linarith)
      (show w2 ∈ Ioi (-1) by simp only [mem_Ioi]; linarith) h
    linarith
  · have h1' := not_le.mp h1
    rw [if_neg h1]
    by_cases h2 : eps ≤ w2
    · rw [if_pos h2]
      have ha : negF lam w1 < negF lam eps :=
        negF_strictMonoOn lam (show w1 ∈ Iio 1 by simp only [mem_Iio]; linarith)
          (show eps ∈ Iio 1 by simp only [mem_Iio]; exact he1) h1'
      have hb : posF lam eps ≤ posF lam w2 :=
        (posF_strictMonoOn lam).monotoneOn (show eps ∈ Ioi (-1) by simp only [mem_Ioi]; linarith)
          (show w2 ∈ Ioi (-1) by simp only [mem_Ioi]; linarith) h2
      have hc := posF_sub_negF hl1 hl3 he0.le (by have := eps_small; linarith : (eps : ℝ) ≤ 1 / 2)
      rw [abs_le] at hc
      linarith [hc.2]
    · rw [if_neg h2]
      have h2' := not_le.mp h2
      have := negF_strictMonoOn lam (show w1 ∈ Iio 1 by simp only [mem_Iio]; linarith)
        (show w2 ∈ Iio 1 by simp only [mem_Iio]; linarith) h
      linarith

end YeoJohnson

end HydroVerif.C02
