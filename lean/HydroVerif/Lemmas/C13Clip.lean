/-
Helper lemmas for the clip theorem of `Props/C13.lean`, over an ordered field with a floor function
(the exact-arithmetic instance of the C07 geometry model).
-/
import HydroVerif.Lemmas.C07Coord
import HydroVerif.Lemmas.C13

set_option linter.unusedSectionVars false

namespace HydroVerif.C13
open HydroVerif.C07

variable {α : Type} [Field α] [LinearOrder α] [IsStrictOrderedRing α] [FloorRing α]

/-- corners in order land in cells in order: the lower-left corner's cell is not right of / above the
upper-right corner's cell -/
theorem corner_cells_ordered {gm : Geom α} (hcsz : 0 < gm.csz) {x0 y0 x1 y1 : α}
    (h0 : InExtent gm x0 y0) (h1 : InExtent gm x1 y1) (hx : x0 ≤ x1) (hy : y0 ≤ y1) :
    colOf gm.ncols (coord2cell gm x0 y0) ≤ colOf gm.ncols (coord2cell gm x1 y1) ∧
    rowOf gm.ncols (coord2cell gm x1 y1) ≤ rowOf gm.ncols (coord2cell gm x0 y0) := by
  obtain ⟨_, f0⟩ := coord2cell_of_inExtent hcsz h0
  obtain ⟨_, f1⟩ := coord2cell_of_inExtent hcsz h1
  obtain ⟨l0, _, b0, _⟩ := f0
  obtain ⟨_, r1, _, t1⟩ := f1
  unfold cellLeft cellRight cellBottom cellTop rowUp at *
  constructor
  · have h : gm.csz * (colOf gm.ncols (coord2cell gm x0 y0) : α) < gm.csz * ((colOf gm.ncols (coord2cell gm x1 y1) : α) + 1) := by
      linarith
    have h2 := lt_of_mul_lt_mul_left h hcsz.le
    have h3 : (colOf gm.ncols (coord2cell gm x0 y0) : α) < ((colOf gm.ncols (coord2cell gm x1 y1) + 1 : Int) : α) := by
      push_cast; exact h2
    have := Int.cast_lt.mp h3
    omega
  · have h : gm.csz * ((gm.nrows - 1 - rowOf gm.ncols (coord2cell gm x0 y0) : Int) : α) <
        gm.csz * (((gm.nrows - 1 - rowOf gm.ncols (coord2cell gm x1 y1) : Int) : α) + 1) := by
      linarith
    have h2 := lt_of_mul_lt_mul_left h hcsz.le
    have h3 : ((gm.nrows - 1 - rowOf gm.ncols (coord2cell gm x0 y0) : Int) : α) <
        ((gm.nrows - 1 - rowOf gm.ncols (coord2cell gm x1 y1) + 1 : Int) : α) := by
      push_cast; push_cast at h2; exact h2
    have := Int.cast_lt.mp h3
    omega

/-! ### python slices -/

theorem slice_length {β : Type} (l : List β) (a b : Int) (ha : 0 ≤ a) (hab : a ≤ b) (hb : b ≤ l.length) :
    ((slice l a b).length : Int) = b - a := by
  unfold slice
  rw [List.length_take, List.length_drop]
  omega

theorem slice_getElem? {β : Type} (l : List β) (a b : Int) (i : Nat) (hi : (i : Int) < b - a) (ha : 0 ≤ a) :
    (slice l a b)[i]? = l[a.toNat + i]? := by
  unfold slice
  rw [List.getElem?_take_of_lt (by omega), List.getElem?_drop]


/-- the clipped grid, explicitly -/
theorem clip_eq (io : NumIO α) (g : Grid α) (hcsz : 0 < g.csz) (hnc : 0 < g.ncols)
    (hr : (g.data.length : Int) = g.nrows) (hc : ∀ r ∈ g.data, (r.length : Int) = g.ncols)
    {x0 y0 x1 y1 : α} (h0 : InExtent (geom g) x0 y0) (h1 : InExtent (geom g) x1 y1) (hx : x0 ≤ x1) (hy : y0 ≤ y1) :
    ∃ ng, clip io g x0 y0 x1 y1 = .ok ng ∧
      ng.nrows = rowOf g.ncols (coord2cell (geom g) x0 y0) - rowOf g.ncols (coord2cell (geom g) x1 y1) + 1 ∧
      ng.ncols = colOf g.ncols (coord2cell (geom g) x1 y1) - colOf g.ncols (coord2cell (geom g) x0 y0) + 1 ∧
      ng.csz = g.csz ∧ ng.dtype = g.dtype ∧ ng.nodata = g.nodata ∧
      ng.xll = (getcoord (geom g) (coord2cell (geom g) x0 y0)).1 - g.csz / (1 + 1) ∧
      ng.yll = (getcoord (geom g) (coord2cell (geom g) x0 y0)).2 - g.csz / (1 + 1) ∧
      ng.data = (slice g.data (rowOf g.ncols (coord2cell (geom g) x1 y1)) (rowOf g.ncols (coord2cell (geom g) x0 y0) + 1)).map
        fun r => slice r (colOf g.ncols (coord2cell (geom g) x0 y0)) (colOf g.ncols (coord2cell (geom g) x1 y1) + 1) := by
  have hgn : (geom g).ncols = g.ncols := rfl
  have hgr : (geom g).nrows = g.nrows := rfl
  obtain ⟨v0, _⟩ := coord2cell_of_inExtent (g := geom g) hcsz h0
  obtain ⟨v1, _⟩ := coord2cell_of_inExtent (g := geom g) hcsz h1
  obtain ⟨hcol, hrow⟩ := corner_cells_ordered (gm := geom g) hcsz h0 h1 hx hy
  rw [hgn] at hcol hrow
  rw [hgn, hgr] at v0 v1
  obtain ⟨a0, a1, a2, a3, _⟩ := valid_rowcol hnc v0
  obtain ⟨b0, b1, b2, b3, _⟩ := valid_rowcol hnc v1
  generalize hc0 : coord2cell (geom g) x0 y0 = c0 at *
  generalize hc1 : coord2cell (geom g) x1 y1 = c1 at *
  unfold clip
  simp only [hc0, hc1, v0, v1, Bool.and_self, Bool.not_true, Bool.false_eq_true, if_false, cell2rowcol, if_true]
  have hshape : ¬ (rowOf g.ncols c0 - rowOf g.ncols c1 + 1 < 0 ∨ colOf g.ncols c1 - colOf g.ncols c0 + 1 < 0) := by omega
  simp only [mkGrid, nodataWord, if_neg hshape]
  have hrowsS : ((slice g.data (rowOf g.ncols c1) (rowOf g.ncols c0 + 1)).length : Int)
      = rowOf g.ncols c0 - rowOf g.ncols c1 + 1 := by
    rw [slice_length _ _ _ b0 (by omega) (by omega)]; omega
  rw [setData_id' _ _ ⟨rfl, rfl⟩ (by simpa using hrowsS) (by
    intro r hrm
    obtain ⟨r0, hr0, rfl⟩ := List.mem_map.mp hrm
    have hr0' : r0 ∈ g.data := by
      unfold slice at hr0
      exact List.mem_of_mem_drop (List.mem_of_mem_take hr0)
    have := hc r0 hr0'
    rw [slice_length _ _ _ a2 (by omega) (by omega)]
    show _ = colOf g.ncols c1 - colOf g.ncols c0 + 1
    omega)]
  exact ⟨_, rfl, rfl, rfl, rfl, rfl, rfl, rfl, rfl, rfl⟩


/-- centre of a cell given by (row, col), both grids -/
theorem clip_centre (g ng : Grid α) (c0 R1 : Int) (i j : Nat)
    (hx : ng.xll = (getcoord (geom g) c0).1 - g.csz / (1 + 1))
    (hy : ng.yll = (getcoord (geom g) c0).2 - g.csz / (1 + 1)) (hcs : ng.csz = g.csz)
    (hi : (i : Int) < ng.nrows) (hj : (j : Int) < ng.ncols)
    (hR1 : 0 ≤ R1) (hR : R1 + ng.nrows = rowOf g.ncols c0 + 1) (hRb : rowOf g.ncols c0 < g.nrows)
    (hC0 : 0 ≤ colOf g.ncols c0) (hC : colOf g.ncols c0 + ng.ncols ≤ g.ncols) :
    cell2coord (geom ng) (cellOf ng.ncols i j) =
      cell2coord (geom g) (cellOf g.ncols (R1 + i) (colOf g.ncols c0 + j)) := by
  have hi0 : (0 : Int) ≤ i := Int.natCast_nonneg i
  have hj0 : (0 : Int) ≤ j := Int.natCast_nonneg j
  have v1 : validCell ng.nrows ng.ncols (cellOf ng.ncols i j) = true := validCell_cellOf hi0 hi hj0 hj
  have v2 : validCell g.nrows g.ncols (cellOf g.ncols (R1 + i) (colOf g.ncols c0 + j)) = true :=
    validCell_cellOf (by omega) (by omega) (by omega) (by omega)
  unfold cell2coord
  simp only [geom, v1, v2, if_true, getcoord, hx, hy, hcs]
  rw [colOf_cellOf hi0 hj0 hj, rowOf_cellOf hi0 hj0 hj,
    colOf_cellOf (by omega) (by omega) (by omega), rowOf_cellOf (by omega) (by omega) (by omega)]
  have e1 : ng.nrows = rowOf g.ncols c0 + 1 - R1 := by omega
  simp only [ofInt_eq, half_eq, e1]
  congr 1
  refine Prod.ext ?_ ?_ <;> (push_cast; ring)


/-- element `(i, j)` of the clipped block is element `(top+i, left+j)` of the parent array, and it exists -/
theorem clip_block_get (data : List (List Nat)) (nrows ncols R0 R1 C0 C1 : Int) (i j : Nat)
    (hr : (data.length : Int) = nrows) (hc : ∀ r ∈ data, (r.length : Int) = ncols)
    (hR1 : 0 ≤ R1) (hR0 : R0 < nrows) (hC0 : 0 ≤ C0) (hC1 : C1 < ncols)
    (hi : (i : Int) < R0 - R1 + 1) (hj : (j : Int) < C1 - C0 + 1) :
    ∃ v, (((slice data R1 (R0 + 1)).map fun r => slice r C0 (C1 + 1))[i]?.bind (·[j]?)) = some v ∧
      (data[R1.toNat + i]?.bind (·[C0.toNat + j]?)) = some v := by
  have hlen : R1.toNat + i < data.length := by omega
  rw [List.getElem?_map, slice_getElem? _ _ _ _ (by omega) hR1, List.getElem?_eq_getElem hlen]
  have hrl := hc _ (List.getElem_mem hlen)
  have hlen2 : C0.toNat + j < (data[R1.toNat + i]).length := by omega
  simp only [Option.map_some, Option.bind_some]
  rw [slice_getElem? _ _ _ _ (by omega) hC0, List.getElem?_eq_getElem hlen2]
  exact ⟨_, rfl, rfl⟩

end HydroVerif.C13
