/- helper lemmas for C09 (list-of-characters string functions) -/
import HydroVerif.Model.C09
import Mathlib.Data.List.Basic
import Mathlib.Data.List.TakeWhile
import Mathlib.Tactic.Linarith

namespace HydroVerif.C09

theorem takeWhile_append_stop {α} (p : α → Bool) (k : List α) (c : α) (rest : List α)
    (hk : ∀ x ∈ k, p x = true) (hc : p c = false) :
    (k ++ c :: rest).takeWhile p = k := by
  induction k with
  | nil => simp [List.takeWhile, hc]
  | cons x xs ih =>
    have hx := hk x (by simp)
    simp only [List.cons_append, List.takeWhile, hx]
    rw [ih (fun y hy => hk y (by simp [hy]))]

theorem dropWhile_of_head_false {α} (p : α → Bool) (c : α) (rest : List α) (hc : p c = false) :
    (c :: rest).dropWhile p = c :: rest := by
  simp [List.dropWhile, hc]

theorem lstrip_of_head (c : Char) (rest : Str) (hc : isSpace c = false) : lstrip (c :: rest) = c :: rest :=
  dropWhile_of_head_false _ _ _ hc

theorem lstrip_space_cons (s : Str) : lstrip (' ' :: s) = lstrip s := by
  simp [lstrip, List.dropWhile, isSpace]

theorem rstrip_append_space (k : Str) (hk : k ≠ []) (hl : isSpace (k.getLast hk) = false) :
    rstrip (k ++ [' ']) = k := by
  unfold rstrip
  rw [List.reverse_append]
  simp only [List.reverse_cons, List.reverse_nil, List.nil_append, List.singleton_append]
  have : isSpace ' ' = true := by decide
  rw [List.dropWhile_cons_of_pos this]
  obtain ⟨c, rest, hcr⟩ : ∃ c rest, k.reverse = c :: rest := by
    cases h : k.reverse with
    | nil => simp at h; exact absurd h hk
    | cons c rest => exact ⟨c, rest, rfl⟩
  have hc : c = k.getLast hk := by
    have := List.head_reverse (l := k) (by simpa using hk)
    simp only [hcr, List.head_cons] at this
    exact this
  rw [hcr, dropWhile_of_head_false _ _ _ (by rw [hc]; exact hl), ← hcr, List.reverse_reverse]

theorem subSpacesAux_id (b : Bool) (k : Str) (h : ∀ c ∈ k, c ≠ ' ') : subSpacesAux b k = k := by
  induction k generalizing b with
  | nil => rfl
  | cons c s ih =>
    have hc : (c == ' ') = false := by simpa using h c (by simp)
    simp only [subSpacesAux, hc, Bool.false_eq_true, if_false]
    rw [ih false (fun d hd => h d (by simp [hd]))]

theorem mem_take_of_index {α} [BEq α] [LawfulBEq α] (k : List α) (c : α) (rest : List α) (n : Nat) (h : k.length < n) :
    ((k ++ c :: rest).take n).contains c = true := by
  rw [List.contains_iff_mem]
  rw [List.take_append]
  apply List.mem_append_right
  have : 0 < n - k.length := by omega
  obtain ⟨m, hm⟩ : ∃ m, n - k.length = m + 1 := ⟨n - k.length - 1, by omega⟩
  rw [hm]; simp

theorem lookup_cons_ne (k a b : Str) (es : List (Str × Str)) (h : k ≠ a) :
    List.lookup k ((a, b) :: es) = List.lookup k es := by
  have : (k == a) = false := beq_eq_false_iff_ne.mpr h
  simp only [List.lookup, this]

theorem lookup_cons_self (k b : Str) (es : List (Str × Str)) :
    List.lookup k ((k, b) :: es) = some b := by
  simp only [List.lookup, beq_self_eq_true]

theorem lookup_map_set_other (d : List (Str × Str)) (k k' v : Str) (hne : k' ≠ k) :
    (d.map fun e => if e.1 == k then (k, v) else e).lookup k' = d.lookup k' := by
  induction d with
  | nil => rfl
  | cons e es ih =>
    obtain ⟨a, b⟩ := e
    simp only [List.map_cons]
    by_cases he : a = k
    · subst he
      simp only [beq_self_eq_true, if_true]
      rw [lookup_cons_ne _ _ _ _ hne, lookup_cons_ne _ _ _ _ hne, ih]
    · have : (a == k) = false := beq_eq_false_iff_ne.mpr he
      simp only [this, Bool.false_eq_true, if_false]
      by_cases hk : k' = a
      · subst hk; rw [lookup_cons_self, lookup_cons_self]
      · rw [lookup_cons_ne _ _ _ _ hk, lookup_cons_ne _ _ _ _ hk, ih]

theorem lookup_append_other (d : List (Str × Str)) (k k' v : Str) (hne : k' ≠ k) :
    (d ++ [(k, v)]).lookup k' = d.lookup k' := by
  induction d with
  | nil => simp only [List.nil_append]; rw [lookup_cons_ne _ _ _ _ hne]
  | cons e es ih =>
    obtain ⟨a, b⟩ := e
    simp only [List.cons_append]
    by_cases hk : k' = a
    · subst hk; rw [lookup_cons_self, lookup_cons_self]
    · rw [lookup_cons_ne _ _ _ _ hk, lookup_cons_ne _ _ _ _ hk, ih]

theorem lookup_map_set_self (d : List (Str × Str)) (k v : Str) (h : d.any (·.1 == k) = true) :
    (d.map fun e => if e.1 == k then (k, v) else e).lookup k = some v := by
  induction d with
  | nil => simp at h
  | cons e es ih =>
    obtain ⟨a, b⟩ := e
    simp only [List.map_cons]
    by_cases he : a = k
    · subst he
      simp only [beq_self_eq_true, if_true]
      rw [lookup_cons_self]
    · have hf : (a == k) = false := beq_eq_false_iff_ne.mpr he
      simp only [hf, Bool.false_eq_true, if_false]
      rw [lookup_cons_ne _ _ _ _ (Ne.symm he)]
      apply ih
      simpa [hf] using h

theorem lookup_append_self (d : List (Str × Str)) (k v : Str) (h : ¬ d.any (·.1 == k) = true) :
    (d ++ [(k, v)]).lookup k = some v := by
  induction d with
  | nil => simp only [List.nil_append]; rw [lookup_cons_self]
  | cons e es ih =>
    obtain ⟨a, b⟩ := e
    simp only [List.any_cons, Bool.or_eq_true, not_or] at h
    have he : k ≠ a := by
      intro hh; apply h.1; subst hh; simp
    simp only [List.cons_append]
    rw [lookup_cons_ne _ _ _ _ he]
    exact ih h.2

theorem lookup_dictSet_self' (d : List (Str × Str)) (k v : Str) : (dictSet d k v).lookup k = some v := by
  unfold dictSet
  split
  · exact lookup_map_set_self d k v ‹_›
  · exact lookup_append_self d k v ‹_›

theorem lookup_dictSet_other' (d : List (Str × Str)) (k k' v : Str) (hne : k' ≠ k) :
    (dictSet d k v).lookup k' = d.lookup k' := by
  unfold dictSet
  split
  · exact lookup_map_set_other d k k' v hne
  · exact lookup_append_other d k k' v hne

/-- the `comment_nn` counter after a list of header elements -/
def h2cLoopIdx : Nat → List Str → Nat
  | i, [] => i
  | i, e :: es => h2cLoopIdx (h2cElem i e).2 es

end HydroVerif.C09

namespace HydroVerif.C09

/-- appending an extension without dots (e.g. ".zip") to a non-empty stem gives that suffix back -/
theorem splitExt_append (s ext : Str) (hs : s ≠ []) (he : ext ≠ []) (hd : ∀ c ∈ ext, (c != '.') = true) :
    splitExt (s ++ '.' :: ext) = some (s, '.' :: ext) := by
  unfold splitExt
  have hr : (s ++ '.' :: ext).reverse = ext.reverse ++ '.' :: s.reverse := by simp
  have htw : ((s ++ '.' :: ext).reverse).takeWhile (· != '.') = ext.reverse := by
    rw [hr]
    exact takeWhile_append_stop _ _ _ _ (fun x hx => hd x (List.mem_reverse.mp hx)) (by decide)
  simp only [htw]
  rw [hr, List.drop_left' (by simp)]
  have h1 : s.reverse ≠ [] := by simpa using hs
  have h2 : ext.reverse ≠ [] := by simpa using he
  simp [h1, h2]

theorem stem_ne_nil (name : Str) (h : name ≠ []) : stem name ≠ [] := by
  unfold stem
  cases hsp : splitExt name with
  | none => exact h
  | some p =>
    simp only
    unfold splitExt at hsp
    simp only at hsp
    split at hsp
    · rename_i before _
      split at hsp
      · rename_i hb
        injection hsp with hsp
        rw [← hsp]
        simpa using hb.1
      · cases hsp
    · cases hsp

end HydroVerif.C09
