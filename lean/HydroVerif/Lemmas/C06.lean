/-
C06 — helper lemmas: the upstream / downstream pair of `Model/C06.lean` over any code table satisfying
`TableOK`, the refinement of the two-buffer loop of `c_delineate_area` to breadth-first layers, hole
filling, river and flow-path walks. Property statements are in `Props/C06.lean`.
-/
import HydroVerif.Model.C06
import HydroVerif.Lemmas.C07Grid
import HydroVerif.Lemmas.C06Table
import HydroVerif.Lemmas.C06Bfs
import Mathlib.Tactic.Ring
import Mathlib.Tactic.LinearCombination
import Mathlib.Data.List.Perm.Subperm

namespace HydroVerif.C06
open HydroVerif.C07

variable {codes : List Int} {g : FlowGrid}

/-! ### ESRI directions and the neighbour table of C07 -/

theorem esriPos_lt : ∀ m, m < 8 → esriPos m < 9 := by decide
theorem esri_nbDx : ∀ m, m < 8 → nbDx (esriPos m) = esriDx m := by decide
theorem esri_nbDy : ∀ m, m < 8 → nbDy (esriPos m) = esriDy m := by decide
theorem esri_not_centre : ∀ m, m < 8 → ¬ (esriDx m = 0 ∧ esriDy m = 0) := by decide

/-! ### "last match wins" folds -/

theorem foldl_ite_eq {β : Type} (p : Nat → Prop) [DecidablePred p] (f : Nat → β) (v : β) :
    ∀ (l : List Nat) (init : β), (∀ j ∈ l, p j → f j = v) → (init = v ∨ ∃ j ∈ l, p j) →
      l.foldl (fun acc i => if p i then f i else acc) init = v := by
  intro l
  induction l with
  | nil => intro init _ h; rcases h with h | ⟨j, hj, _⟩
           · simpa using h
           · simp at hj
  | cons a l ih =>
    intro init hall h
    rw [List.foldl_cons]
    apply ih
    · intro j hj; exact hall j (List.mem_cons_of_mem _ hj)
    · by_cases hpa : p a
      · left; rw [if_pos hpa]; exact hall a List.mem_cons_self hpa
      · rw [if_neg hpa]
        rcases h with h | ⟨j, hj, hpj⟩
        · exact Or.inl h
        · right
          rcases List.mem_cons.1 hj with rfl | hj
          · exact absurd hpj hpa
          · exact ⟨j, hj, hpj⟩

theorem foldl_ite_none {β : Type} (p : Nat → Prop) [DecidablePred p] (f : Nat → β) :
    ∀ (l : List Nat) (init : β), (∀ j ∈ l, ¬ p j) →
      l.foldl (fun acc i => if p i then f i else acc) init = init := by
  intro l
  induction l with
  | nil => intro init _; rfl
  | cons a l ih =>
    intro init h
    rw [List.foldl_cons, if_neg (h a List.mem_cons_self)]
    exact ih init fun j hj => h j (List.mem_cons_of_mem _ hj)

/-- in a duplicate-free table a code sits at one position only -/
theorem code_pos_unique (ht : TableOK codes) {i j : Nat} {f : Int}
    (hi : codes[i]? = some f) (hj : codes[j]? = some f) : i = j := by
  have hil : i < codes.length := by
    by_contra h; rw [List.getElem?_eq_none (by omega)] at hi; cases hi
  exact (List.getElem?_inj hil ht.nodup).1 (hi.trans hj.symm)

/-! ### downstream -/

theorem downstreamCell_sink {u : Int} (hf : g.fd u = 0) : downstreamCell codes g u = -2 := by
  unfold downstreamCell; simp [hf]

/-- the code of `u` is at position `j` of the table: `u` drains to its neighbour at position `j` -/
theorem downstreamCell_of_code (ht : TableOK codes) {u : Int} {j : Nat} (hj : j < 9)
    (hf : g.fd u ≠ 0) (hc : codes[j]? = some (g.fd u)) :
    downstreamCell codes g u = neighbour g.nrows g.ncols u j := by
  unfold downstreamCell
  simp only [hf, if_false]
  apply foldl_ite_eq (fun i => codes[i]? = some (g.fd u)) (fun i => neighbour g.nrows g.ncols u i)
  · intro i _ hi; rw [code_pos_unique ht hi hc]
  · right; exact ⟨j, List.mem_range.2 hj, hc⟩

/-- the code of `u` is not in the table (an invalid code): `-1` -/
theorem downstreamCell_of_no_code {u : Int} (hf : g.fd u ≠ 0)
    (hn : ∀ j, j < 9 → codes[j]? ≠ some (g.fd u)) : downstreamCell codes g u = -1 := by
  unfold downstreamCell
  simp only [hf, if_false]
  exact foldl_ite_none (fun i => codes[i]? = some (g.fd u)) _ _ _
    fun j hj => hn j (List.mem_range.1 hj)

/-- the three cases of `downstreamCell` -/
theorem downstreamCell_cases (ht : TableOK codes) (u : Int) :
    (g.fd u = 0 ∧ downstreamCell codes g u = -2) ∨
    (g.fd u ≠ 0 ∧ (∀ j, j < 9 → codes[j]? ≠ some (g.fd u)) ∧ downstreamCell codes g u = -1) ∨
    (g.fd u ≠ 0 ∧ ∃ j, j < 9 ∧ codes[j]? = some (g.fd u) ∧
      downstreamCell codes g u = neighbour g.nrows g.ncols u j) := by
  by_cases hf : g.fd u = 0
  · exact Or.inl ⟨hf, downstreamCell_sink hf⟩
  · by_cases hex : ∃ j, j < 9 ∧ codes[j]? = some (g.fd u)
    · obtain ⟨j, hj, hc⟩ := hex
      exact Or.inr (Or.inr ⟨hf, j, hj, hc, downstreamCell_of_code ht hj hf hc⟩)
    · refine Or.inr (Or.inl ⟨hf, ?_, ?_⟩)
      · intro j hj hc; exact hex ⟨j, hj, hc⟩
      · exact downstreamCell_of_no_code hf fun j hj hc => hex ⟨j, hj, hc⟩

/-- the result is `-2`, `-1` or a valid cell -/
theorem downstreamCell_range (ht : TableOK codes) (u : Int) :
    downstreamCell codes g u = -2 ∨ downstreamCell codes g u = -1 ∨
      validCell g.nrows g.ncols (downstreamCell codes g u) = true := by
  rcases downstreamCell_cases (g := g) ht u with ⟨_, h⟩ | ⟨_, _, h⟩ | ⟨_, j, _, _, h⟩
  · exact Or.inl h
  · exact Or.inr (Or.inl h)
  · by_cases hd : neighbour g.nrows g.ncols u j = -1
    · exact Or.inr (Or.inl (h.trans hd))
    · exact Or.inr (Or.inr (h ▸ neighbour_valid rfl hd))

theorem downstreamCell_nonneg_valid (ht : TableOK codes) {u : Int}
    (h : 0 ≤ downstreamCell codes g u) : validCell g.nrows g.ncols (downstreamCell codes g u) = true := by
  rcases downstreamCell_range (g := g) ht u with h' | h' | h'
  · omega
  · omega
  · exact h'

/-! ### upstream -/

theorem mem_upstreamCells {d u : Int} :
    u ∈ upstreamCells codes g d ↔
      ∃ j, j < 9 ∧ neighbour g.nrows g.ncols d j = u ∧ u ≠ -1 ∧ g.fd u ≠ 0 ∧
        codes[8 - j]? = some (g.fd u) := by
  unfold upstreamCells
  simp only [List.mem_filterMap, List.mem_range]
  constructor
  · rintro ⟨j, hj, h⟩
    by_cases h1 : neighbour g.nrows g.ncols d j = -1
    · simp [h1] at h
    · by_cases h2 : g.fd (neighbour g.nrows g.ncols d j) = 0
      · simp [h1, h2] at h
      · by_cases h3 : codes[8 - j]? = some (g.fd (neighbour g.nrows g.ncols d j))
        · simp only [h1, h2, h3, if_false, if_true, Option.some.injEq] at h
          subst h
          exact ⟨j, hj, rfl, h1, h2, h3⟩
        · simp [h1, h2, h3] at h
  · rintro ⟨j, hj, rfl, h1, h2, h3⟩
    exact ⟨j, hj, by simp [h1, h2, h3]⟩

/-- **upstream and downstream are inverse relations** (unguarded form, any table with `TableOK`) -/
theorem mem_upstreamCells_iff (ht : TableOK codes) (hc : 0 < g.ncols) {d : Int}
    (hd : validCell g.nrows g.ncols d = true) (u : Int) :
    u ∈ upstreamCells codes g d ↔
      validCell g.nrows g.ncols u = true ∧ downstreamCell codes g u = d := by
  rw [mem_upstreamCells]
  constructor
  · rintro ⟨j, hj, hn, h1, h2, h3⟩
    refine ⟨neighbour_valid hn h1, ?_⟩
    rw [downstreamCell_of_code ht (by omega : 8 - j < 9) h2 h3]
    exact neighbour_mirror hc hd hj hn h1
  · rintro ⟨hu, hdown⟩
    have hd0 : 0 ≤ d := (validCell_iff.1 hd).1
    have hu0 : 0 ≤ u := (validCell_iff.1 hu).1
    rcases downstreamCell_cases (g := g) ht u with ⟨_, h⟩ | ⟨_, _, h⟩ | ⟨hf, j, hj, hcj, h⟩
    · omega
    · omega
    · have hn : neighbour g.nrows g.ncols u j = d := h.symm.trans hdown
      have hm := neighbour_mirror hc hu hj hn (by omega)
      refine ⟨8 - j, by omega, hm, by omega, hf, ?_⟩
      have : 8 - (8 - j) = j := by omega
      rw [this]; exact hcj

theorem upstreamCells_valid {d u : Int} (h : u ∈ upstreamCells codes g d) :
    validCell g.nrows g.ncols u = true := by
  obtain ⟨j, _, hn, h1, _, _⟩ := mem_upstreamCells.1 h
  exact neighbour_valid hn h1

/-- the upstream row lists no cell twice -/
theorem upstreamCells_nodup (d : Int) : (upstreamCells codes g d).Nodup := by
  unfold upstreamCells
  refine List.Nodup.filterMap ?_ List.nodup_range
  intro j j' u hj hj'
  have key : ∀ i : Nat, (u ∈ (if neighbour g.nrows g.ncols d i = -1 then none
      else if g.fd (neighbour g.nrows g.ncols d i) = 0 then none
      else if codes[8 - i]? = some (g.fd (neighbour g.nrows g.ncols d i))
        then some (neighbour g.nrows g.ncols d i) else none)) →
      neighbour g.nrows g.ncols d i = u ∧ u ≠ -1 := by
    intro i hi
    by_cases h1 : neighbour g.nrows g.ncols d i = -1
    · simp [h1] at hi
    · by_cases h2 : g.fd (neighbour g.nrows g.ncols d i) = 0
      · simp [h1, h2] at hi
      · by_cases h3 : codes[8 - i]? = some (g.fd (neighbour g.nrows g.ncols d i))
        · simp only [h1, h2, h3, if_false, if_true, Option.mem_def, Option.some.injEq] at hi
          exact ⟨hi, hi ▸ h1⟩
        · simp [h1, h2, h3] at hi
  obtain ⟨e1, n1⟩ := key j hj
  obtain ⟨e2, _⟩ := key j' hj'
  have r1 := neighbour_rowcol e1 n1
  have r2 := neighbour_rowcol e2 n1
  have p1 := nb_pos j
  have p2 := nb_pos j'
  omega


/-! ### the inlet-free upstream / downstream pair the area is stated with -/

/-- cells draining into `d` that are not inlets (the candidates `c_delineate_area` stores) -/
def upF (codes : List Int) (g : FlowGrid) (inlets : List Int) (d : Int) : List Int :=
  (upstreamCells codes g d).filter (fun u => decide (u ∉ inlets))

/-- `upF`, and nothing for a cell off the grid -/
def upStep (codes : List Int) (g : FlowGrid) (inlets : List Int) (d : Int) : List Int :=
  if validCell g.nrows g.ncols d = true then upF codes g inlets d else []

theorem downStep_eq_some {inlets : List Int} {u d : Int} :
    downStep codes g inlets u = some d ↔
      validCell g.nrows g.ncols u = true ∧ u ∉ inlets ∧ 0 ≤ d ∧ downstreamCell codes g u = d := by
  unfold downStep
  by_cases hu : validCell g.nrows g.ncols u = true ∧ u ∉ inlets
  · by_cases h0 : 0 ≤ downstreamCell codes g u
    · rw [if_pos hu, if_pos h0]
      constructor
      · intro h; have h' := Option.some.inj h; exact ⟨hu.1, hu.2, h' ▸ h0, h'⟩
      · intro h; rw [h.2.2.2]
    · rw [if_pos hu, if_neg h0]
      constructor
      · intro h; cases h
      · rintro ⟨_, _, h1, h2⟩; omega
  · rw [if_neg hu]
    constructor
    · intro h; cases h
    · rintro ⟨h1, h2, _, _⟩; exact absurd ⟨h1, h2⟩ hu

theorem upStep_downStep_inv (ht : TableOK codes) (hc : 0 < g.ncols) (inlets : List Int) (u d : Int) :
    u ∈ upStep codes g inlets d ↔ downStep codes g inlets u = some d := by
  unfold upStep downStep upF
  constructor
  · intro h
    by_cases hd : validCell g.nrows g.ncols d = true
    · rw [if_pos hd, List.mem_filter] at h
      obtain ⟨hu, hin⟩ := h
      have hin' : u ∉ inlets := by simpa using hin
      obtain ⟨huv, hdn⟩ := (mem_upstreamCells_iff ht hc hd u).1 hu
      have hd0 := (validCell_iff.1 hd).1
      rw [if_pos ⟨huv, hin'⟩, hdn, if_pos hd0]
    · rw [if_neg hd] at h; simp at h
  · intro h
    by_cases hu : validCell g.nrows g.ncols u = true ∧ u ∉ inlets
    · rw [if_pos hu] at h
      by_cases h0 : 0 ≤ downstreamCell codes g u
      · rw [if_pos h0] at h
        have hdn : downstreamCell codes g u = d := Option.some.inj h
        have hd : validCell g.nrows g.ncols d = true := hdn ▸ downstreamCell_nonneg_valid ht h0
        rw [if_pos hd, List.mem_filter]
        exact ⟨(mem_upstreamCells_iff ht hc hd u).2 ⟨hu.1, hdn⟩, by simpa using hu.2⟩
      · rw [if_neg h0] at h; cases h
    · rw [if_neg hu] at h; cases h

theorem upStep_nodup (inlets : List Int) (d : Int) : (upStep codes g inlets d).Nodup := by
  unfold upStep upF
  split
  · exact (upstreamCells_nodup d).filter _
  · exact List.nodup_nil

theorem upStep_valid {inlets : List Int} {d u : Int} (h : u ∈ upStep codes g inlets d) :
    validCell g.nrows g.ncols u = true := by
  unfold upStep upF at h
  split at h
  · exact upstreamCells_valid (List.mem_filter.1 h).1
  · simp at h

/-- every cell of every layer is on the grid -/
theorem layer_valid {inlets : List Int} {o : Int} (ho : validCell g.nrows g.ncols o = true) :
    ∀ k c, c ∈ Bfs.layer (upStep codes g inlets) o k → validCell g.nrows g.ncols c = true := by
  intro k
  induction k with
  | zero => intro c hc; simp [Bfs.layer] at hc; exact hc ▸ ho
  | succ k _ =>
    intro c hc
    simp only [Bfs.layer, List.mem_flatMap] at hc
    obtain ⟨d, _, hcd⟩ := hc
    exact upStep_valid hcd

theorem flatMap_upF_eq {inlets : List Int} (l : List Int)
    (hl : ∀ c ∈ l, validCell g.nrows g.ncols c = true) :
    l.flatMap (upF codes g inlets) = l.flatMap (upStep codes g inlets) := by
  induction l with
  | nil => rfl
  | cons a l ih =>
    rw [List.flatMap_cons, List.flatMap_cons, ih fun c hc => hl c (List.mem_cons_of_mem _ hc)]
    congr 1
    unfold upStep; rw [if_pos (hl a List.mem_cons_self)]

/-! ### refinement of the two-buffer loop -/

/-- the store loop over one `idxup` row: either every non-inlet entry is appended to both buffers
(and `i` stays `≤ nval-1`), or one of the two buffer-exhaustion exits fires -/
theorem store_fold (nval : Int) (inlets : List Int) :
    ∀ (l : List Int) (st : Acc), (st.area.length : Int) ≤ nval - 1 →
      (∃ st', l.foldlM (store nval inlets) st = .ok st' ∧
          st'.area = st.area ++ l.filter (fun u => decide (u ∉ inlets)) ∧
          st'.buf2 = st.buf2 ++ l.filter (fun u => decide (u ∉ inlets)) ∧
          (st'.area.length : Int) ≤ nval - 1) ∨
      (∃ e, l.foldlM (store nval inlets) st = .error e ∧ (e = .areaFull ∨ e = .bufferFull)) := by
  intro l
  induction l with
  | nil => intro st h; left; exact ⟨st, rfl, by simp, by simp, h⟩
  | cons a l ih =>
    intro st h
    rw [List.foldlM_cons]
    by_cases ha : a ∈ inlets
    · have hs : store nval inlets st a = .ok st := by unfold store; rw [if_pos ha]
      rw [hs]
      have hf : (a :: l).filter (fun u => decide (u ∉ inlets)) = l.filter (fun u => decide (u ∉ inlets)) := by
        rw [List.filter_cons_of_neg (by simpa using ha)]
      rw [hf]
      exact ih st h
    · by_cases h1 : (st.area.length : Int) = nval - 1
      · right
        refine ⟨.areaFull, ?_, Or.inl rfl⟩
        unfold store; rw [if_neg ha, if_pos h1]; rfl
      · by_cases h2 : (st.buf2.length : Int) = nval - 1
        · right
          refine ⟨.bufferFull, ?_, Or.inr rfl⟩
          unfold store; rw [if_neg ha, if_neg h1, if_pos h2]; rfl
        · have hs : store nval inlets st a = .ok { area := st.area ++ [a], buf2 := st.buf2 ++ [a] } := by
            unfold store; rw [if_neg ha, if_neg h1, if_neg h2]
          rw [hs]
          have hb : ((st.area ++ [a]).length : Int) ≤ nval - 1 := by
            rw [List.length_append, List.length_singleton]; push_cast; omega
          have hf : (a :: l).filter (fun u => decide (u ∉ inlets)) = a :: l.filter (fun u => decide (u ∉ inlets)) := by
            rw [List.filter_cons_of_pos (by simpa using ha)]
          rcases ih { area := st.area ++ [a], buf2 := st.buf2 ++ [a] } hb with ⟨st', e1, e2, e3, e4⟩ | ⟨e, e1, e2⟩
          · left
            refine ⟨st', e1, ?_, ?_, e4⟩
            · rw [e2, hf]; simp
            · rw [e3, hf]; simp
          · right; exact ⟨e, e1, e2⟩

/-- the loop over `buffer1`: all inlet-free upstream cells of its cells, in order, or an exit -/
theorem expand_fold (nval : Int) (inlets : List Int) :
    ∀ (buf1 : List Int) (st : Acc), (st.area.length : Int) ≤ nval - 1 →
      (∃ st', buf1.foldlM (expandCell codes g nval inlets) st = .ok st' ∧
          st'.area = st.area ++ buf1.flatMap (upF codes g inlets) ∧
          st'.buf2 = st.buf2 ++ buf1.flatMap (upF codes g inlets) ∧
          (st'.area.length : Int) ≤ nval - 1) ∨
      (∃ e, buf1.foldlM (expandCell codes g nval inlets) st = .error e ∧
          (e = .areaFull ∨ e = .bufferFull)) := by
  intro buf1
  induction buf1 with
  | nil => intro st h; left; exact ⟨st, rfl, by simp, by simp, h⟩
  | cons c cs ih =>
    intro st h
    rw [List.foldlM_cons]
    have hcell := store_fold nval inlets (upstreamCells codes g c) st h
    rcases hcell with ⟨st1, e1, e2, e3, e4⟩ | ⟨e, e1, e2⟩
    · have hx : expandCell codes g nval inlets st c = .ok st1 := e1
      rw [hx]
      rcases ih st1 e4 with ⟨st', f1, f2, f3, f4⟩ | ⟨e, f1, f2⟩
      · left
        refine ⟨st', f1, ?_, ?_, f4⟩
        · rw [f2, e2, List.flatMap_cons, List.append_assoc]; rfl
        · rw [f3, e3, List.flatMap_cons, List.append_assoc]; rfl
      · right; exact ⟨e, f1, f2⟩
    · right
      have hx : expandCell codes g nval inlets st c = .error e := e1
      rw [hx]
      exact ⟨e, rfl, e2⟩

/-- **the `while` loop of `c_delineate_area` computes breadth-first layers**: started at layer `k` with
`buffer2 = layer k`, it either returns `area` followed by all later layers up to the first empty one
(with the outlet inserted after layer 1), or leaves through one of the buffer-exhaustion exits.
It never runs out of the model's fuel. -/
theorem areaLoop_spec {o : Int} (ho : validCell g.nrows g.ncols o = true)
    (inlets : List Int) (nval : Int) :
    ∀ (fuel k : Nat) (area : List Int), (area.length : Int) ≤ nval - 1 →
      nval - area.length ≤ fuel →
      (∃ A n, areaLoop codes g o inlets nval fuel k area (Bfs.layer (upStep codes g inlets) o k) = .ok A ∧
          k ≤ n ∧ Bfs.layer (upStep codes g inlets) o (n + 1) = [] ∧
          (∀ m, k < m → m ≤ n → Bfs.layer (upStep codes g inlets) o m ≠ []) ∧
          A.Perm (area ++ ((if k = 0 ∧ 1 ≤ n then [o] else []) ++
                    Bfs.layersFrom (upStep codes g inlets) o k (n - k)))) ∨
      (∃ e, areaLoop codes g o inlets nval fuel k area (Bfs.layer (upStep codes g inlets) o k) = .error e ∧
          (e = .areaFull ∨ e = .bufferFull ∨ e = .outletFull)) := by
  intro fuel
  induction fuel with
  | zero => intro k area h1 h2; exfalso; push_cast at h2; omega
  | succ fuel ih =>
    intro k area h1 h2
    have hval := layer_valid (codes := codes) (inlets := inlets) ho k
    have hfold := expand_fold (codes := codes) (g := g) nval inlets
      (Bfs.layer (upStep codes g inlets) o k) { area := area, buf2 := [] } h1
    rw [flatMap_upF_eq _ hval] at hfold
    have hnext : (Bfs.layer (upStep codes g inlets) o k).flatMap (upStep codes g inlets) =
        Bfs.layer (upStep codes g inlets) o (k + 1) := rfl
    rw [hnext] at hfold
    rcases hfold with ⟨st', e1, e2, e3, e4⟩ | ⟨e, e1, e2⟩
    · have hx : expandLayer codes g nval inlets area (Bfs.layer (upStep codes g inlets) o k) = .ok st' := e1
      simp only [List.nil_append] at e3
      simp only [] at e2
      by_cases hnil : Bfs.layer (upStep codes g inlets) o (k + 1) = []
      · left
        refine ⟨area, k, ?_, le_refl k, hnil, fun m h3 h4 => by omega, ?_⟩
        · simp only [areaLoop, hx, e3, hnil, if_true]
          rw [e2, hnil, List.append_nil]
        · have : ¬ (k = 0 ∧ 1 ≤ k) := by omega
          simp [this, Bfs.layersFrom_zero]
      · have hlen : 0 < (Bfs.layer (upStep codes g inlets) o (k + 1)).length :=
          List.length_pos_iff.2 hnil
        have hlen2 : st'.area.length = area.length + (Bfs.layer (upStep codes g inlets) o (k + 1)).length := by
          rw [e2, List.length_append]
        by_cases hk : k = 0
        · subst hk
          by_cases hfull : (st'.area.length : Int) = nval - 1
          · right
            refine ⟨.outletFull, ?_, Or.inr (Or.inr rfl)⟩
            simp only [areaLoop, hx, e3, hnil, if_false, if_true, hfull]
          · have hb : ((st'.area ++ [o]).length : Int) ≤ nval - 1 := by
              rw [List.length_append, List.length_singleton]; push_cast; omega
            have hfu : nval - ((st'.area ++ [o]).length : Int) ≤ (fuel : Int) := by
              rw [List.length_append, List.length_singleton, hlen2]; push_cast; push_cast at h2; omega
            have hrec : areaLoop codes g o inlets nval (fuel + 1) 0 area (Bfs.layer (upStep codes g inlets) o 0) =
                areaLoop codes g o inlets nval fuel 1 (st'.area ++ [o]) (Bfs.layer (upStep codes g inlets) o 1) := by
              simp only [areaLoop, hx, e3, hnil, if_false, if_true, hfull]
            rw [hrec]
            rcases ih 1 (st'.area ++ [o]) hb hfu with ⟨A, n, r1, r2, r3, r4, r5⟩ | ⟨e, r1, r2⟩
            · left
              refine ⟨A, n, r1, by omega, r3, ?_, ?_⟩
              · intro m hm1 hm2
                by_cases hm : m = 1
                · subst hm; exact hnil
                · exact r4 m (by omega) hm2
              · refine r5.trans ?_
                have hn : n - 0 = (n - 1) + 1 := by omega
                have hc1 : (0 = 0 ∧ 1 ≤ n) := ⟨rfl, r2⟩
                have hc2 : ¬ (1 = 0 ∧ 1 ≤ n) := by omega
                rw [if_pos hc1, if_neg hc2, hn, Bfs.layersFrom_succ, e2]
                rw [List.perm_iff_count]
                intro a
                simp only [Nat.zero_add, List.count_append, List.count_nil]
                omega
            · right; exact ⟨e, r1, r2⟩
        · have hb : (st'.area.length : Int) ≤ nval - 1 := e4
          have hfu : nval - (st'.area.length : Int) ≤ (fuel : Int) := by
            rw [hlen2]; push_cast; push_cast at h2; omega
          have hrec : areaLoop codes g o inlets nval (fuel + 1) k area (Bfs.layer (upStep codes g inlets) o k) =
              areaLoop codes g o inlets nval fuel (k + 1) st'.area (Bfs.layer (upStep codes g inlets) o (k + 1)) := by
            simp only [areaLoop, hx, e3, hnil, if_false, hk]
          rw [hrec]
          rcases ih (k + 1) st'.area hb hfu with ⟨A, n, r1, r2, r3, r4, r5⟩ | ⟨e, r1, r2⟩
          · left
            refine ⟨A, n, r1, by omega, r3, ?_, ?_⟩
            · intro m hm1 hm2
              by_cases hm : m = k + 1
              · subst hm; exact hnil
              · exact r4 m (by omega) hm2
            · refine r5.trans ?_
              have hn : n - k = (n - (k + 1)) + 1 := by omega
              have hc1 : ¬ (k = 0 ∧ 1 ≤ n) := by omega
              have hc2 : ¬ (k + 1 = 0 ∧ 1 ≤ n) := by omega
              rw [if_neg hc1, if_neg hc2, hn, Bfs.layersFrom_succ, e2]
              simp
          · right; exact ⟨e, r1, r2⟩
    · right
      have hx : expandLayer codes g nval inlets area (Bfs.layer (upStep codes g inlets) o k) = .error e := e1
      refine ⟨e, ?_, ?_⟩
      · simp only [areaLoop, hx]
      · rcases e2 with h | h
        · exact Or.inl h
        · exact Or.inr (Or.inl h)


/-! ### the loop succeeds whenever the buffers have room -/

theorem store_fold_room (nval : Int) (inlets : List Int) :
    ∀ (l : List Int) (st : Acc), st.buf2.length ≤ st.area.length →
      (st.area.length : Int) + ((l.filter (fun u => decide (u ∉ inlets))).length : Int) ≤ nval - 1 →
      ∃ st', l.foldlM (store nval inlets) st = .ok st' ∧
          st'.area = st.area ++ l.filter (fun u => decide (u ∉ inlets)) ∧
          st'.buf2 = st.buf2 ++ l.filter (fun u => decide (u ∉ inlets)) := by
  intro l
  induction l with
  | nil => intro st _ _; exact ⟨st, rfl, by simp, by simp⟩
  | cons a l ih =>
    intro st hb hroom
    rw [List.foldlM_cons]
    by_cases ha : a ∈ inlets
    · have hs : store nval inlets st a = .ok st := by unfold store; rw [if_pos ha]
      have hf : (a :: l).filter (fun u => decide (u ∉ inlets)) = l.filter (fun u => decide (u ∉ inlets)) := by
        rw [List.filter_cons_of_neg (by simpa using ha)]
      rw [hs, hf]
      rw [hf] at hroom
      exact ih st hb hroom
    · have hf : (a :: l).filter (fun u => decide (u ∉ inlets)) = a :: l.filter (fun u => decide (u ∉ inlets)) := by
        rw [List.filter_cons_of_pos (by simpa using ha)]
      rw [hf, List.length_cons] at hroom
      push_cast at hroom
      have h1 : ¬ (st.area.length : Int) = nval - 1 := by omega
      have h2 : ¬ (st.buf2.length : Int) = nval - 1 := by omega
      have hs : store nval inlets st a = .ok { area := st.area ++ [a], buf2 := st.buf2 ++ [a] } := by
        unfold store; rw [if_neg ha, if_neg h1, if_neg h2]
      rw [hs]
      obtain ⟨st', e1, e2, e3⟩ := ih { area := st.area ++ [a], buf2 := st.buf2 ++ [a] }
        (by simp only [List.length_append, List.length_singleton]; omega)
        (by simp only [List.length_append, List.length_singleton]; push_cast; omega)
      refine ⟨st', e1, ?_, ?_⟩
      · rw [e2, hf]; simp
      · rw [e3, hf]; simp

theorem expand_fold_room (nval : Int) (inlets : List Int) :
    ∀ (buf1 : List Int) (st : Acc), st.buf2.length ≤ st.area.length →
      (st.area.length : Int) + ((buf1.flatMap (upF codes g inlets)).length : Int) ≤ nval - 1 →
      ∃ st', buf1.foldlM (expandCell codes g nval inlets) st = .ok st' ∧
          st'.area = st.area ++ buf1.flatMap (upF codes g inlets) ∧
          st'.buf2 = st.buf2 ++ buf1.flatMap (upF codes g inlets) := by
  intro buf1
  induction buf1 with
  | nil => intro st _ _; exact ⟨st, rfl, by simp, by simp⟩
  | cons c cs ih =>
    intro st hb hroom
    rw [List.foldlM_cons]
    rw [List.flatMap_cons, List.length_append] at hroom
    push_cast at hroom
    have hu : (upF codes g inlets c).length =
        ((upstreamCells codes g c).filter (fun u => decide (u ∉ inlets))).length := rfl
    obtain ⟨st1, e1, e2, e3⟩ := store_fold_room nval inlets (upstreamCells codes g c) st hb
      (by omega)
    have hx : expandCell codes g nval inlets st c = .ok st1 := e1
    rw [hx]
    obtain ⟨st', f1, f2, f3⟩ := ih st1
      (by rw [e2, e3, List.length_append, List.length_append]; omega)
      (by rw [e2, List.length_append]; push_cast; omega)
    refine ⟨st', f1, ?_, ?_⟩
    · rw [f2, e2, List.flatMap_cons, List.append_assoc]; rfl
    · rw [f3, e3, List.flatMap_cons, List.append_assoc]; rfl

/-- if the search stops at layer `n` and everything still to be stored fits below `nval`, the loop returns -/
theorem areaLoop_room {o : Int} (ho : validCell g.nrows g.ncols o = true)
    (inlets : List Int) (nval : Int) (n : Nat)
    (hstop : Bfs.layer (upStep codes g inlets) o (n + 1) = []) :
    ∀ (fuel k : Nat) (area : List Int), k ≤ n →
      (area.length : Int) + (if k = 0 ∧ 1 ≤ n then 1 else 0) +
        ((Bfs.layersFrom (upStep codes g inlets) o k (n - k)).length : Int) ≤ nval - 1 →
      nval - area.length ≤ fuel →
      ∃ A, areaLoop codes g o inlets nval fuel k area (Bfs.layer (upStep codes g inlets) o k) = .ok A := by
  intro fuel
  induction fuel with
  | zero =>
    intro k area _ h1 h2; exfalso
    have : (0 : Int) ≤ ((Bfs.layersFrom (upStep codes g inlets) o k (n - k)).length : Int) := by omega
    split at h1 <;> (push_cast at h2; omega)
  | succ fuel ih =>
    intro k area hkn hroom hfuel
    have hval := layer_valid (codes := codes) (inlets := inlets) ho k
    have hnext : (Bfs.layer (upStep codes g inlets) o k).flatMap (upF codes g inlets) =
        Bfs.layer (upStep codes g inlets) o (k + 1) := by
      rw [flatMap_upF_eq _ hval]; rfl
    -- the next layer is part of what is still to be stored (or empty)
    have hpart : ((Bfs.layer (upStep codes g inlets) o (k + 1)).length : Int) ≤
        ((Bfs.layersFrom (upStep codes g inlets) o k (n - k)).length : Int) := by
      by_cases hk : k = n
      · subst hk; rw [hstop]; simp
      · have : n - k = (n - (k + 1)) + 1 := by omega
        rw [this, Bfs.layersFrom_succ, List.length_append]; push_cast; omega
    have hc0 : (0 : Int) ≤ (if k = 0 ∧ 1 ≤ n then (1 : Int) else 0) := by split <;> omega
    obtain ⟨st', e1, e2, e3⟩ := expand_fold_room (codes := codes) (g := g) nval inlets
      (Bfs.layer (upStep codes g inlets) o k) { area := area, buf2 := [] } (by simp)
      (by rw [hnext]; simp only []; omega)
    rw [hnext] at e2 e3
    simp only [List.nil_append] at e3
    simp only [] at e2
    have hx : expandLayer codes g nval inlets area (Bfs.layer (upStep codes g inlets) o k) = .ok st' := e1
    by_cases hnil : Bfs.layer (upStep codes g inlets) o (k + 1) = []
    · exact ⟨st'.area, by simp only [areaLoop, hx, e3, hnil, if_true]⟩
    · have hk1 : k + 1 ≤ n := by
        by_contra hcon
        have : k = n := by omega
        subst this; exact hnil hstop
      have hsplit : n - k = (n - (k + 1)) + 1 := by omega
      have hlen : 0 < (Bfs.layer (upStep codes g inlets) o (k + 1)).length := List.length_pos_iff.2 hnil
      rw [hsplit, Bfs.layersFrom_succ, List.length_append] at hroom
      push_cast at hroom
      have hlen2 : st'.area.length = area.length + (Bfs.layer (upStep codes g inlets) o (k + 1)).length := by
        rw [e2, List.length_append]
      by_cases hk : k = 0
      · subst hk
        rw [if_pos ⟨rfl, by omega⟩] at hroom
        simp only [Nat.zero_add] at hroom hlen2 hlen
        have hfull : ¬ (st'.area.length : Int) = nval - 1 := by rw [hlen2]; push_cast; omega
        have hrec : areaLoop codes g o inlets nval (fuel + 1) 0 area (Bfs.layer (upStep codes g inlets) o 0) =
            areaLoop codes g o inlets nval fuel 1 (st'.area ++ [o]) (Bfs.layer (upStep codes g inlets) o 1) := by
          simp only [areaLoop, hx, e3, hnil, if_false, if_true, hfull]
        rw [hrec]
        apply ih 1 (st'.area ++ [o]) hk1
        · have hc2 : ¬ (1 = 0 ∧ 1 ≤ n) := by omega
          rw [if_neg hc2, List.length_append, List.length_singleton, hlen2]
          push_cast
          omega
        · rw [List.length_append, List.length_singleton, hlen2]; push_cast; push_cast at hfuel; omega
      · have hc1 : ¬ (k = 0 ∧ 1 ≤ n) := by omega
        rw [if_neg hc1] at hroom
        have hrec : areaLoop codes g o inlets nval (fuel + 1) k area (Bfs.layer (upStep codes g inlets) o k) =
            areaLoop codes g o inlets nval fuel (k + 1) st'.area (Bfs.layer (upStep codes g inlets) o (k + 1)) := by
          simp only [areaLoop, hx, e3, hnil, if_false, hk]
        rw [hrec]
        apply ih (k + 1) st'.area hk1
        · have hc2 : ¬ (k + 1 = 0 ∧ 1 ≤ n) := by omega
          rw [if_neg hc2, hlen2]; push_cast; omega
        · rw [hlen2]; push_cast; push_cast at hfuel; omega

theorem reaches_zero_iff {inlets : List Int} {c o : Int} : Reaches codes g inlets 0 c o ↔ c = o := by
  unfold Reaches; simp [Bfs.walk]

theorem reaches_succ_iff {inlets : List Int} {k : Nat} {c o : Int} :
    Reaches codes g inlets (k + 1) c o ↔
      validCell g.nrows g.ncols c = true ∧ c ∉ inlets ∧ 0 ≤ downstreamCell codes g c ∧
        Reaches codes g inlets k (downstreamCell codes g c) o := by
  unfold Reaches
  show (downStep codes g inlets c).bind (Bfs.walk (downStep codes g inlets) k) = some o ↔ _
  constructor
  · intro h
    cases hd : downStep codes g inlets c with
    | none => rw [hd] at h; simp at h
    | some d =>
      rw [hd] at h
      obtain ⟨a, b, c0, e⟩ := downStep_eq_some.1 hd
      subst e
      exact ⟨a, b, c0, by simpa using h⟩
  · rintro ⟨a, b, c0, h⟩
    rw [downStep_eq_some.2 ⟨a, b, c0, rfl⟩]; simpa using h

/-- every outcome of `c_delineate_area`, in the order of its guards -/
theorem delineateArea_cases (o : Int) (inlets : List Int) (nval : Int) :
    (nval < 1 ∧ delineateArea codes g o inlets nval = .error .badNval) ∨
    (1 ≤ nval ∧ validCell g.nrows g.ncols o = false ∧
      delineateArea codes g o inlets nval = .error .badOutlet) ∨
    (1 ≤ nval ∧ validCell g.nrows g.ncols o = true ∧ (∃ m ∈ inlets, validCell g.nrows g.ncols m = false) ∧
      delineateArea codes g o inlets nval = .error .badInlet) ∨
    (1 ≤ nval ∧ validCell g.nrows g.ncols o = true ∧ (∀ m ∈ inlets, validCell g.nrows g.ncols m = true) ∧
      ((∃ A n, delineateArea codes g o inlets nval = .ok A ∧
          Bfs.layer (upStep codes g inlets) o (n + 1) = [] ∧
          (∀ m, 0 < m → m ≤ n → Bfs.layer (upStep codes g inlets) o m ≠ []) ∧
          A.Perm ((if 1 ≤ n then [o] else []) ++ Bfs.layersFrom (upStep codes g inlets) o 0 n)) ∨
       (∃ e, delineateArea codes g o inlets nval = .error e ∧
          (e = .areaFull ∨ e = .bufferFull ∨ e = .outletFull)))) := by
  unfold delineateArea
  by_cases h1 : nval < 1
  · left; exact ⟨h1, by rw [if_pos h1]⟩
  · right
    have h1' : 1 ≤ nval := by omega
    rw [if_neg h1]
    by_cases h2 : validCell g.nrows g.ncols o = true
    · right
      have h2' : (!validCell g.nrows g.ncols o) = false := by simp [h2]
      rw [h2']
      simp only [Bool.false_eq_true, if_false]
      by_cases h3 : inlets.any (fun m => !validCell g.nrows g.ncols m) = true
      · left
        rw [if_pos h3]
        rw [List.any_eq_true] at h3
        obtain ⟨m, hm, hmv⟩ := h3
        exact ⟨h1', h2, ⟨m, hm, by simpa using hmv⟩, rfl⟩
      · right
        rw [if_neg h3]
        have hall : ∀ m ∈ inlets, validCell g.nrows g.ncols m = true := by
          intro m hm
          by_contra hmv
          apply h3
          rw [List.any_eq_true]
          exact ⟨m, hm, by simpa using hmv⟩
        refine ⟨h1', h2, hall, ?_⟩
        have hspec := areaLoop_spec (codes := codes) (g := g) h2 inlets nval (nval.toNat + 1) 0 []
          (by simp; omega) (by simp; omega)
        have hl0 : Bfs.layer (upStep codes g inlets) o 0 = [o] := rfl
        rw [hl0] at hspec
        rcases hspec with ⟨A, n, r1, _, r3, r4, r5⟩ | ⟨e, r1, r2⟩
        · left
          refine ⟨A, n, r1, r3, r4, ?_⟩
          simpa using r5
        · right; exact ⟨e, r1, r2⟩
    · left
      have h2f : validCell g.nrows g.ncols o = false := by simpa using h2
      rw [h2f]
      exact ⟨h1', rfl, rfl⟩

/-- with valid arguments, a search that stops at layer `n` and `nval - 1` slots for what it finds: success -/
theorem delineateArea_ok_of_room {o : Int} {inlets : List Int} {nval : Int} (n : Nat)
    (ho : validCell g.nrows g.ncols o = true) (hin : ∀ m ∈ inlets, validCell g.nrows g.ncols m = true)
    (hstop : Bfs.layer (upStep codes g inlets) o (n + 1) = [])
    (hroom : (if 1 ≤ n then (1 : Int) else 0) +
      ((Bfs.layersFrom (upStep codes g inlets) o 0 n).length : Int) ≤ nval - 1) :
    ∃ A, delineateArea codes g o inlets nval = .ok A := by
  have hl : (0 : Int) ≤ ((Bfs.layersFrom (upStep codes g inlets) o 0 n).length : Int) := by omega
  have h1 : ¬ nval < 1 := by split at hroom <;> omega
  have h3 : ¬ inlets.any (fun m => !validCell g.nrows g.ncols m) = true := by
    rw [List.any_eq_true]
    rintro ⟨m, hm, hmv⟩
    rw [hin m hm] at hmv; simp at hmv
  unfold delineateArea
  rw [if_neg h1]
  have h2' : (!validCell g.nrows g.ncols o) = false := by simp [ho]
  rw [h2']
  simp only [Bool.false_eq_true, if_false]
  rw [if_neg h3]
  have hl0 : [o] = Bfs.layer (upStep codes g inlets) o 0 := rfl
  rw [hl0]
  apply areaLoop_room ho inlets nval n hstop (nval.toNat + 1) 0 [] (Nat.zero_le n)
  · have e : (if (0 = 0 ∧ 1 ≤ n) then (1 : Int) else 0) = (if 1 ≤ n then (1 : Int) else 0) := by
      by_cases hn : 1 ≤ n <;> simp [hn]
    rw [e, Nat.sub_zero]; simp only [List.length_nil]; push_cast; omega
  · simp only [List.length_nil]; push_cast; omega

/-! ### hole filling -/

theorem minList_le (xs : List Int) : ∀ x, minList x xs ≤ x ∧ ∀ y ∈ xs, minList x xs ≤ y := by
  induction xs with
  | nil => intro x; exact ⟨le_refl _, by simp⟩
  | cons a xs ih =>
    intro x
    have e : minList x (a :: xs) = minList (if a < x then a else x) xs := rfl
    rw [e]
    obtain ⟨h1, h2⟩ := ih (if a < x then a else x)
    by_cases hax : a < x
    · rw [if_pos hax] at h1 h2 ⊢
      refine ⟨by omega, ?_⟩
      intro y hy
      rcases List.mem_cons.1 hy with rfl | hy
      · exact h1
      · exact h2 y hy
    · rw [if_neg hax] at h1 h2 ⊢
      refine ⟨h1, ?_⟩
      intro y hy
      rcases List.mem_cons.1 hy with rfl | hy
      · omega
      · exact h2 y hy

theorem le_maxList (xs : List Int) : ∀ x, x ≤ maxList x xs ∧ ∀ y ∈ xs, y ≤ maxList x xs := by
  induction xs with
  | nil => intro x; exact ⟨le_refl _, by simp⟩
  | cons a xs ih =>
    intro x
    have e : maxList x (a :: xs) = maxList (if x < a then a else x) xs := rfl
    rw [e]
    obtain ⟨h1, h2⟩ := ih (if x < a then a else x)
    by_cases hax : x < a
    · rw [if_pos hax] at h1 h2 ⊢
      refine ⟨by omega, ?_⟩
      intro y hy
      rcases List.mem_cons.1 hy with rfl | hy
      · exact h1
      · exact h2 y hy
    · rw [if_neg hax] at h1 h2 ⊢
      refine ⟨h1, ?_⟩
      intro y hy
      rcases List.mem_cons.1 hy with rfl | hy
      · omega
      · exact h2 y hy

/-- a (row, col) inside the rectangle whose mask entry is set is listed by `maskCells` under its cell number -/
theorem mem_maskCells_of_in_box {ncols : Int} {b : BBox} {m : Nat → Nat → Bool} {r c : Int}
    (hr : b.i0 ≤ r) (hr' : r - b.i0 < b.nr) (hc : b.j0 ≤ c) (hc' : c - b.j0 < b.nc)
    (hm : m (r - b.i0).toNat (c - b.j0).toNat = true) : r * ncols + c ∈ maskCells ncols b m := by
  unfold maskCells
  rw [List.mem_flatMap]
  refine ⟨(r - b.i0).toNat, List.mem_range.2 (by omega), ?_⟩
  rw [List.mem_filterMap]
  refine ⟨(c - b.j0).toNat, List.mem_range.2 (by omega), ?_⟩
  rw [if_pos hm]
  have e1 : ((r - b.i0).toNat : Int) + b.i0 = r := by omega
  have e2 : ((c - b.j0).toNat : Int) + b.j0 = c := by omega
  rw [e1, e2]

/-- **the filled area contains the area**, whatever `fill` does beyond keeping the mask -/
theorem mem_areaFilled (hc : 0 < g.ncols)
    (fill : Nat → Nat → (Nat → Nat → Bool) → (Nat → Nat → Bool))
    (hfill : ∀ nr nc (m : Nat → Nat → Bool) r c, m r c = true → fill nr nc m r c = true)
    (area : List Int) (hv : ∀ a ∈ area, validCell g.nrows g.ncols a = true) :
    ∀ a ∈ area, a ∈ areaFilled g fill area := by
  intro a ha
  cases area with
  | nil => simp at ha
  | cons c cs =>
    have hrc : ∀ x, x ∈ c :: cs →
        cell2rowcol g.nrows g.ncols x = (rowOf g.ncols x, colOf g.ncols x) := by
      intro x hx; unfold cell2rowcol; rw [if_pos (hv x hx)]
    obtain ⟨r0, r1, c0, c1, hcell⟩ := valid_rowcol hc (hv a ha)
    -- extreme rows / columns
    have hrmin := minList_le (cs.map fun x => (cell2rowcol g.nrows g.ncols x).1) (cell2rowcol g.nrows g.ncols c).1
    have hrmax := le_maxList (cs.map fun x => (cell2rowcol g.nrows g.ncols x).1) (cell2rowcol g.nrows g.ncols c).1
    have hcmin := minList_le (cs.map fun x => (cell2rowcol g.nrows g.ncols x).2) (cell2rowcol g.nrows g.ncols c).2
    have hcmax := le_maxList (cs.map fun x => (cell2rowcol g.nrows g.ncols x).2) (cell2rowcol g.nrows g.ncols c).2
    generalize hRmin : minList (cell2rowcol g.nrows g.ncols c).1 (cs.map fun x => (cell2rowcol g.nrows g.ncols x).1) = rmin at hrmin
    generalize hRmax : maxList (cell2rowcol g.nrows g.ncols c).1 (cs.map fun x => (cell2rowcol g.nrows g.ncols x).1) = rmax at hrmax
    generalize hCmin : minList (cell2rowcol g.nrows g.ncols c).2 (cs.map fun x => (cell2rowcol g.nrows g.ncols x).2) = cmin at hcmin
    generalize hCmax : maxList (cell2rowcol g.nrows g.ncols c).2 (cs.map fun x => (cell2rowcol g.nrows g.ncols x).2) = cmax at hcmax
    have hb : bbox g (c :: cs) = some (bboxOf g.nrows g.ncols rmin rmax cmin cmax) := by
      simp only [bbox, hRmin, hRmax, hCmin, hCmax]
    have bounds : rmin ≤ rowOf g.ncols a ∧ rowOf g.ncols a ≤ rmax ∧
        cmin ≤ colOf g.ncols a ∧ colOf g.ncols a ≤ cmax := by
      rcases List.mem_cons.1 ha with rfl | hmem
      · have := hrc a List.mem_cons_self
        rw [this] at hrmin hrmax hcmin hcmax
        exact ⟨hrmin.1, hrmax.1, hcmin.1, hcmax.1⟩
      · have e := hrc a ha
        have m1 : (cell2rowcol g.nrows g.ncols a).1 ∈ cs.map fun x => (cell2rowcol g.nrows g.ncols x).1 :=
          List.mem_map.2 ⟨a, hmem, rfl⟩
        have m2 : (cell2rowcol g.nrows g.ncols a).2 ∈ cs.map fun x => (cell2rowcol g.nrows g.ncols x).2 :=
          List.mem_map.2 ⟨a, hmem, rfl⟩
        rw [e] at m1 m2
        exact ⟨hrmin.2 _ m1, hrmax.2 _ m1, hcmin.2 _ m2, hcmax.2 _ m2⟩
    obtain ⟨b1, b2, b3, b4⟩ := bounds
    unfold areaFilled
    rw [hb]
    simp only []
    have hcellEq : a = rowOf g.ncols a * g.ncols + colOf g.ncols a := by
      have := hcell; unfold cellOf at this; exact this.symm
    rw [hcellEq]
    have hi0 : (bboxOf g.nrows g.ncols rmin rmax cmin cmax).i0 = max 0 (rmin - 1) := rfl
    have hj0 : (bboxOf g.nrows g.ncols rmin rmax cmin cmax).j0 = max 0 (cmin - 1) := rfl
    have hnr : (bboxOf g.nrows g.ncols rmin rmax cmin cmax).nr =
        (min (g.nrows - 1) (rmax + 1) - max 0 (rmin - 1) + 1).toNat := rfl
    have hnc : (bboxOf g.nrows g.ncols rmin rmax cmin cmax).nc =
        (min (g.ncols - 1) (cmax + 1) - max 0 (cmin - 1) + 1).toNat := rfl
    apply mem_maskCells_of_in_box
    · rw [hi0]; omega
    · rw [hi0, hnr]; omega
    · rw [hj0]; omega
    · rw [hj0, hnc]; omega
    · apply hfill
      unfold areaMask
      rw [List.any_eq_true]
      refine ⟨a, ha, ?_⟩
      rw [hrc a ha, hi0, hj0]
      simp only [Bool.and_eq_true, decide_eq_true_eq]
      constructor <;> omega

/-! ### downstream chains (`chainCell`, `chainSteps`, `chainCells`, `downStep`, `Reaches`: `Model/C06.lean`) -/

theorem chainCell_succ (k : Nat) (c : Int) :
    chainCell codes g (k + 1) c = downstreamCell codes g (chainCell codes g k c) := by
  induction k generalizing c with
  | zero => rfl
  | succ k ih => exact ih (downstreamCell codes g c)

theorem chainSteps_succ_last (diag : Int → Int → Bool) (k : Nat) (c : Int) :
    chainSteps codes g diag (k + 1) c =
      chainSteps codes g diag k c ++ [diag (chainCell codes g k c) (chainCell codes g (k + 1) c)] := by
  induction k generalizing c with
  | zero => rfl
  | succ k ih =>
    show diag c _ :: chainSteps codes g diag (k + 1) _ = _
    rw [ih (downstreamCell codes g c)]
    rfl

theorem downStep_nil_eq_some {u d : Int} :
    downStep codes g [] u = some d ↔
      validCell g.nrows g.ncols u = true ∧ 0 ≤ d ∧ downstreamCell codes g u = d := by
  rw [downStep_eq_some]
  simp

/-- a walk of the inlet-free chain follows `chainCell` and ends on a valid cell `≥ 0` -/
theorem walk_chainCell (ht : TableOK codes) : ∀ (k : Nat) (c o : Int),
    Bfs.walk (downStep codes g []) (k + 1) c = some o →
      chainCell codes g (k + 1) c = o ∧ validCell g.nrows g.ncols o = true := by
  intro k
  induction k with
  | zero =>
    intro c o h
    have h' : downStep codes g [] c = some o := by
      cases hd : downStep codes g [] c with
      | none => simp [Bfs.walk, hd] at h
      | some d => simp [Bfs.walk, hd] at h; rw [h]
    obtain ⟨_, h0, hd⟩ := downStep_nil_eq_some.1 h'
    exact ⟨hd, hd ▸ downstreamCell_nonneg_valid ht (hd ▸ h0)⟩
  | succ k ih =>
    intro c o h
    cases hd : downStep codes g [] c with
    | none => simp [Bfs.walk, hd] at h
    | some d =>
      have h2 : Bfs.walk (downStep codes g []) (k + 1) d = some o := by
        have : Bfs.walk (downStep codes g []) (k + 2) c =
            (downStep codes g [] c).bind (Bfs.walk (downStep codes g []) (k + 1)) := rfl
        rw [this, hd] at h; simpa using h
      obtain ⟨_, _, hdn⟩ := downStep_nil_eq_some.1 hd
      obtain ⟨e1, e2⟩ := ih d o h2
      refine ⟨?_, e2⟩
      show chainCell codes g (k + 1) (downstreamCell codes g c) = o
      rw [hdn]; exact e1

/-! ### flow-path walk -/

/-- the `while` loop of `c_delineate_flowpathlengths_in_catchment` on a chain that first meets the outlet
after `k+1` steps, with at least `k+1` iterations left: it stops on the outlet having recorded the
first `k` steps -/
theorem fpLoop_reach (outlet : Int) (diag : Int → Int → Bool) : ∀ (k rem : Nat) (s : FpState),
    Bfs.walk (downStep codes g []) (k + 1) s.up = some outlet →
    (∀ j, 1 ≤ j → j ≤ k → Bfs.walk (downStep codes g []) j s.up ≠ some outlet) →
    k + 1 ≤ rem →
    fpLoop codes g outlet diag rem s =
      { ipath := s.ipath + k, up := chainCell codes g k s.up, down := outlet,
        steps := s.steps ++ chainSteps codes g diag k s.up } := by
  intro k
  induction k with
  | zero =>
    intro rem s hw _ hrem
    obtain ⟨rem', rfl⟩ : ∃ r, rem = r + 1 := ⟨rem - 1, by omega⟩
    have h' : downStep codes g [] s.up = some outlet := by
      cases hd : downStep codes g [] s.up with
      | none => simp [Bfs.walk, hd] at hw
      | some d => simp [Bfs.walk, hd] at hw; rw [hw]
    obtain ⟨hv, h0, hdn⟩ := downStep_nil_eq_some.1 h'
    have hds : downstream codes g s.up = .ok outlet := by unfold downstream; rw [if_pos hv, hdn]
    have hn : ¬ outlet < 0 := by omega
    simp only [fpLoop, hds, hn, if_false, if_true]
    cases s; simp [chainCell, chainSteps]
  | succ k ih =>
    intro rem s hw hfirst hrem
    obtain ⟨rem', rfl⟩ : ∃ r, rem = r + 1 := ⟨rem - 1, by omega⟩
    cases hd : downStep codes g [] s.up with
    | none => simp [Bfs.walk, hd] at hw
    | some d =>
      have hw2 : Bfs.walk (downStep codes g []) (k + 1) d = some outlet := by
        have : Bfs.walk (downStep codes g []) (k + 2) s.up =
            (downStep codes g [] s.up).bind (Bfs.walk (downStep codes g []) (k + 1)) := rfl
        rw [this, hd] at hw; simpa using hw
      obtain ⟨hv, h0, hdn⟩ := downStep_nil_eq_some.1 hd
      have hne : d ≠ outlet := by
        intro he
        apply hfirst 1 (le_refl 1) (by omega)
        simp [Bfs.walk, hd, he]
      have hn : ¬ d < 0 := by omega
      have hds : downstream codes g s.up = .ok d := by unfold downstream; rw [if_pos hv, hdn]
      have hfirst' : ∀ j, 1 ≤ j → j ≤ k → Bfs.walk (downStep codes g []) j d ≠ some outlet := by
        intro j hj1 hjk hcontra
        apply hfirst (j + 1) (by omega) (by omega)
        have : Bfs.walk (downStep codes g []) (j + 1) s.up =
            (downStep codes g [] s.up).bind (Bfs.walk (downStep codes g []) j) := rfl
        rw [this, hd]; simpa using hcontra
      have hrec := ih rem' { ipath := s.ipath + 1, up := d, down := d, steps := s.steps ++ [diag s.up d] }
        hw2 hfirst' (by omega)
      simp only [fpLoop, hds, hn, hne, if_false]
      rw [hrec]
      subst hdn
      simp only [chainCell, chainSteps, FpState.mk.injEq, List.append_assoc, List.cons_append,
        List.nil_append, and_true]
      omega

/-- **flow path of a cell whose chain first meets the outlet after `k+1 < nval` steps**: the reported end
is the outlet and the steps added up are exactly the `k+1` steps of the chain -/
theorem flowPathWith_reach (ht : TableOK codes) (diag : Int → Int → Bool) {start outlet : Int} {k nval : Nat}
    (hw : Bfs.walk (downStep codes g []) (k + 1) start = some outlet)
    (hfirst : ∀ j, 1 ≤ j → j ≤ k → Bfs.walk (downStep codes g []) j start ≠ some outlet)
    (hk : k + 1 < nval) :
    flowPathWith codes g outlet diag nval start = (outlet, chainSteps codes g diag (k + 1) start) := by
  obtain ⟨hcell, hvo⟩ := walk_chainCell ht k start outlet hw
  have h0 : 0 ≤ outlet := (validCell_iff.1 hvo).1
  unfold flowPathWith
  rw [fpLoop_reach outlet diag k nval { ipath := 0, up := start, down := -1, steps := [] } hw hfirst (by omega)]
  have hn : ¬ outlet < 0 := by omega
  have hc2 : 0 + k + 1 < nval := by omega
  simp only [hc2, h0, hn, and_self, if_true, if_false, List.nil_append]
  rw [chainSteps_succ_last, hcell]

/-- a step of the chain between two cells of the grid moves by at most one row and one column, not zero -/
theorem step_rowcol (ht : TableOK codes) {c : Int} (h0 : 0 ≤ downstreamCell codes g c) :
    ∃ dx dy : Int, (dx = -1 ∨ dx = 0 ∨ dx = 1) ∧ (dy = -1 ∨ dy = 0 ∨ dy = 1) ∧ ¬ (dx = 0 ∧ dy = 0) ∧
      colOf g.ncols (downstreamCell codes g c) = colOf g.ncols c + dx ∧
      rowOf g.ncols (downstreamCell codes g c) = rowOf g.ncols c + dy := by
  rcases downstreamCell_cases (g := g) ht c with ⟨_, h⟩ | ⟨_, _, h⟩ | ⟨_, j, hj, _, h⟩
  · omega
  · omega
  · have hne : neighbour g.nrows g.ncols c j ≠ -1 := by rw [← h]; omega
    obtain ⟨hcen, -⟩ := neighbour_spec rfl hne
    obtain ⟨hr, hcl⟩ := neighbour_rowcol rfl hne
    have rx := nbDx_range j
    have ry := nbDy_range hj
    refine ⟨nbDx j, nbDy j, by omega, by omega, hcen, ?_, ?_⟩
    · rw [h]; exact hcl
    · rw [h]; exact hr

/-- squared Euclidean length (in cells) of a step of the chain: 2 for a diagonal step, else 1 -/
theorem step_sqdist (ht : TableOK codes) {c : Int} (h0 : 0 ≤ downstreamCell codes g c) :
    (colOf g.ncols c - colOf g.ncols (downstreamCell codes g c)) ^ 2 +
      (rowOf g.ncols c - rowOf g.ncols (downstreamCell codes g c)) ^ 2 =
    if isDiag g.ncols c (downstreamCell codes g c) then 2 else 1 := by
  obtain ⟨dx, dy, hx, hy, hcen, ex, ey⟩ := step_rowcol ht h0
  unfold isDiag
  rw [ex, ey]
  rcases hx with rfl | rfl | rfl <;> rcases hy with rfl | rfl | rfl <;> simp at hcen ⊢


/-! ### lengths (any commutative ring with a `sqrt` satisfying `sqrt 0 = 0`, `sqrt 1 = 1`) -/

section Lengths
variable {α : Type} [CommRing α] [Transc α]

theorem pathLength_append (steps : List Bool) (d : Bool) :
    (pathLength (steps ++ [d]) : α) = pathLength steps + stepLen d := by
  unfold pathLength; rw [List.foldl_append]; rfl

theorem pathLength_nil : (pathLength [] : α) = 0 := rfl

theorem foldl_stepLen (hs1 : Transc.sqrt (1 : α) = 1) (steps : List Bool) : ∀ acc : α,
    steps.foldl (fun acc d => acc + stepLen d) acc =
      acc + ((steps.count false : Nat) : α) + ((steps.count true : Nat) : α) * Transc.sqrt (1 + 1) := by
  induction steps with
  | nil => intro acc; simp
  | cons d steps ih =>
    intro acc
    rw [List.foldl_cons, ih]
    cases d
    · have : (stepLen false : α) = 1 := by unfold stepLen; simpa using hs1
      rw [this]; simp only [List.count_cons_self, List.count_cons_of_ne (by decide : false ≠ true)]
      push_cast; ring
    · have : (stepLen true : α) = Transc.sqrt (1 + 1) := by unfold stepLen; simp
      rw [this]; simp only [List.count_cons_self, List.count_cons_of_ne (by decide : true ≠ false)]
      push_cast; ring

/-- **length = #orthogonal + sqrt 2 · #diagonal** -/
theorem pathLength_eq_counts (hs1 : Transc.sqrt (1 : α) = 1) (steps : List Bool) :
    (pathLength steps : α) =
      ((steps.count false : Nat) : α) + ((steps.count true : Nat) : α) * Transc.sqrt (1 + 1) := by
  unfold pathLength; rw [foldl_stepLen hs1]; ring

/-- the Euclidean step length `sqrt(dx*dx+dy*dy)` of `c_delineate_river` along a step of the chain -/
theorem hypot_step (ht : TableOK codes) {c : Int} (h0 : 0 ≤ downstreamCell codes g c) :
    (hypot (colOf g.ncols c - colOf g.ncols (downstreamCell codes g c))
        (rowOf g.ncols c - rowOf g.ncols (downstreamCell codes g c)) : α) =
      stepLen (isDiag g.ncols c (downstreamCell codes g c)) := by
  obtain ⟨dx, dy, hx, hy, hcen, ex, ey⟩ := step_rowcol ht h0
  have e1 : colOf g.ncols c - colOf g.ncols (downstreamCell codes g c) = -dx := by omega
  have e2 : rowOf g.ncols c - rowOf g.ncols (downstreamCell codes g c) = -dy := by omega
  unfold hypot stepLen isDiag
  rw [e1, e2, ex, ey]
  rcases hx with rfl | rfl | rfl <;> rcases hy with rfl | rfl | rfl <;> simp at hcen ⊢

theorem river_cells : ∀ (n : Nat) (cur : Int) (dist : α) (dx dy : Int),
    (riverLoop codes g n cur dist dx dy).map (·.cell) = chainCells codes g n cur := by
  intro n
  induction n with
  | zero => intro cur dist dx dy; rfl
  | succ n ih =>
    intro cur dist dx dy
    simp only [riverLoop, chainCells]
    split
    · rfl
    · rw [List.map_cons, ih]

/-- the distance column: row `i` holds the length of the first `i` steps of the chain -/
theorem river_dists (ht : TableOK codes) : ∀ (n : Nat) (cur : Int) (pre : List Bool) (dist : α) (dx dy : Int),
    dist + hypot dx dy = pathLength pre →
    (riverLoop codes g n cur dist dx dy).map (·.dist) =
      (List.range (riverLoop codes g n cur dist dx dy).length).map
        (fun i => pathLength (pre ++ chainSteps codes g (isDiag g.ncols) i cur)) := by
  intro n
  induction n with
  | zero => intro cur pre dist dx dy _; rfl
  | succ n ih =>
    intro cur pre dist dx dy hpre
    simp only [riverLoop]
    split
    · simp [chainSteps, hpre]
    · rename_i hneg
      have h0 : 0 ≤ downstreamCell codes g cur := by omega
      have hnext : dist + hypot dx dy + hypot (colOf g.ncols cur - colOf g.ncols (downstreamCell codes g cur))
            (rowOf g.ncols cur - rowOf g.ncols (downstreamCell codes g cur)) =
          pathLength (pre ++ [isDiag g.ncols cur (downstreamCell codes g cur)]) := by
        rw [pathLength_append, hypot_step ht h0, hpre]
      have hrec := ih (downstreamCell codes g cur) (pre ++ [isDiag g.ncols cur (downstreamCell codes g cur)])
        (dist + hypot dx dy) _ _ hnext
      rw [List.map_cons, List.length_cons, List.range_succ_eq_map, List.map_cons, List.map_map, hrec]
      congr 1
      · simp [chainSteps, hpre]
      · apply List.map_congr_left
        intro i _
        simp [chainSteps]

/-- the displacement columns: `dx, dy` of row `i+1` are the column / row change of step `i` (0 in row 0) -/
theorem river_rows_cells_length : ∀ (n : Nat) (cur : Int) (dist : α) (dx dy : Int),
    (riverLoop codes g n cur dist dx dy).length = (chainCells codes g n cur).length := by
  intro n cur dist dx dy
  rw [← river_cells (α := α) n cur dist dx dy, List.length_map]

end Lengths


/-- the river cells are the chain: entry `i` is `chainCell i`, every cell but the last drains to a cell,
and the list stops early only at a cell that drains nowhere -/
theorem chainCells_spec : ∀ (n : Nat) (c : Int),
    (chainCells codes g n c).length ≤ n ∧
    (∀ i, i < (chainCells codes g n c).length →
      (chainCells codes g n c)[i]? = some (chainCell codes g i c) ∧
      (i + 1 < (chainCells codes g n c).length → 0 ≤ downstreamCell codes g (chainCell codes g i c))) ∧
    ((chainCells codes g n c).length < n →
      downstreamCell codes g (chainCell codes g ((chainCells codes g n c).length - 1) c) < 0) := by
  intro n
  induction n with
  | zero => intro c; simp [chainCells]
  | succ n ih =>
    intro c
    by_cases hneg : downstreamCell codes g c < 0
    · have e : chainCells codes g (n + 1) c = [c] := by simp [chainCells, hneg]
      rw [e]
      refine ⟨by simp, ?_, ?_⟩
      · intro i hi
        have : i = 0 := by simpa using hi
        subst this
        simp [chainCell]
      · intro _; simpa [chainCell] using hneg
    · have e : chainCells codes g (n + 1) c = c :: chainCells codes g n (downstreamCell codes g c) := by
        simp [chainCells, hneg]
      obtain ⟨h1, h2, h3⟩ := ih (downstreamCell codes g c)
      rw [e]
      refine ⟨by simp; omega, ?_, ?_⟩
      · intro i hi
        cases i with
        | zero =>
          refine ⟨by simp [chainCell], ?_⟩
          intro _; simp only [chainCell]; omega
        | succ i =>
          have hi' : i < (chainCells codes g n (downstreamCell codes g c)).length := by simpa using hi
          obtain ⟨a, b⟩ := h2 i hi'
          refine ⟨by simpa [chainCell] using a, ?_⟩
          intro hlt
          simp only [chainCell]
          exact b (by simpa using hlt)
      · intro hlt
        have hlt' : (chainCells codes g n (downstreamCell codes g c)).length < n := by simpa using hlt
        have := h3 hlt'
        by_cases hz : (chainCells codes g n (downstreamCell codes g c)).length = 0
        · -- impossible: n > 0 here and a non-empty chain has at least its first cell
          exfalso
          cases n with
          | zero => omega
          | succ n => simp [chainCells] at hz
        · have : (c :: chainCells codes g n (downstreamCell codes g c)).length - 1 =
              ((chainCells codes g n (downstreamCell codes g c)).length - 1) + 1 := by
            simp; omega
          rw [this]
          simpa [chainCell] using h3 hlt'


/-! ### every cell of a delineated area meets the hypotheses of the flow-path theorem -/

theorem walk_split {C : Type} (down : C → Option C) (j k : Nat) (c o : C)
    (h : Bfs.walk down (j + k) c = some o) :
    ∃ x, Bfs.walk down j c = some x ∧ Bfs.walk down k x = some o := by
  rw [Bfs.walk_add] at h
  cases hx : Bfs.walk down j c with
  | none => rw [hx] at h; simp at h
  | some x => rw [hx] at h; exact ⟨x, rfl, by simpa using h⟩

theorem walk_join {C : Type} (down : C → Option C) (j k : Nat) (c x o : C)
    (h1 : Bfs.walk down j c = some x) (h2 : Bfs.walk down k x = some o) :
    Bfs.walk down (j + k) c = some o := by
  rw [Bfs.walk_add, h1]; simpa using h2

/-- a walk (with any inlets) follows `chainCell` -/
theorem walk_eq_chainCell {inlets : List Int} : ∀ (j : Nat) (c x : Int),
    Bfs.walk (downStep codes g inlets) j c = some x → x = chainCell codes g j c := by
  intro j
  induction j with
  | zero => intro c x h; simp only [Bfs.walk, Option.some.injEq] at h; rw [← h]; rfl
  | succ j ih =>
    intro c x h
    have h' : Reaches codes g inlets (j + 1) c x := h
    obtain ⟨_, _, _, h2⟩ := reaches_succ_iff.1 h'
    exact ih _ _ h2

/-- fewer inlets, more walks -/
theorem reaches_nil_of_reaches {inlets : List Int} : ∀ (k : Nat) (c o : Int),
    Reaches codes g inlets k c o → Reaches codes g [] k c o := by
  intro k
  induction k with
  | zero => intro c o h; exact reaches_zero_iff.2 (reaches_zero_iff.1 h)
  | succ k ih =>
    intro c o h
    obtain ⟨h1, _, h3, h4⟩ := reaches_succ_iff.1 h
    exact reaches_succ_iff.2 ⟨h1, by simp, h3, ih _ _ h4⟩

/-- a duplicate-free list inside another list is not longer -/
theorem length_le_of_nodup_subset {l₁ l₂ : List Int} (hn : l₁.Nodup) (hs : ∀ x ∈ l₁, x ∈ l₂) :
    l₁.length ≤ l₂.length :=
  (List.subperm_of_subset hn hs).length_le

/-- **the flow-path hypotheses hold on a delineated area**: given what `delineate_ok_iff` says of the area
`A` (membership = reachability), a cell `c ≠ o` of `A` first meets the outlet after
`k+1` steps with `k+1 < A.length` -/
theorem first_hit_of_mem_area {o : Int} {inlets A : List Int}
    (hmem : ∀ c, c ∈ A ↔ (c = o ∧ ∃ u, Reaches codes g inlets 1 u o) ∨
      ∃ k, 1 ≤ k ∧ Reaches codes g inlets k c o)
    {c : Int} (hc : c ∈ A) (hco : c ≠ o) :
    ∃ k, Reaches codes g [] (k + 1) c o ∧ (∀ j, 1 ≤ j → j ≤ k → ¬ Reaches codes g [] j c o) ∧
      k + 1 < A.length := by
  classical
  -- some walk reaches the outlet
  obtain ⟨k₀, hk₀, hr₀⟩ : ∃ k, 1 ≤ k ∧ Reaches codes g inlets k c o := by
    rcases (hmem c).1 hc with ⟨h, _⟩ | h
    · exact absurd h hco
    · exact h
  have hex : ∃ j, 1 ≤ j ∧ Reaches codes g [] j c o := ⟨k₀, hk₀, reaches_nil_of_reaches _ _ _ hr₀⟩
  -- the first time it does
  let k₁ := Nat.find hex
  have hk₁ : 1 ≤ k₁ ∧ Reaches codes g [] k₁ c o := Nat.find_spec hex
  have hmin : ∀ j, 1 ≤ j → j < k₁ → ¬ Reaches codes g [] j c o := by
    intro j hj1 hjk hr
    exact Nat.find_min hex hjk ⟨hj1, hr⟩
  have hk₁₀ : k₁ ≤ k₀ := Nat.find_min' hex ⟨hk₀, reaches_nil_of_reaches _ _ _ hr₀⟩
  -- the outlet is in the area
  have ho : o ∈ A := by
    rw [hmem]
    left
    refine ⟨rfl, ?_⟩
    -- the last step of the walk with inlets enters the outlet
    obtain ⟨x, _, hx2⟩ := walk_split (downStep codes g inlets) (k₀ - 1) 1 c o
      (by have : k₀ - 1 + 1 = k₀ := by omega
          rw [this]; exact hr₀)
    exact ⟨x, hx2⟩
  -- the cells before the first hit
  have hcell : ∀ i, i < k₁ → chainCell codes g i c ∈ A ∧ chainCell codes g i c ≠ o ∧
      Reaches codes g [] i c (chainCell codes g i c) ∧
      Reaches codes g [] (k₁ - i) (chainCell codes g i c) o := by
    intro i hi
    obtain ⟨x, hx1, hx2⟩ := walk_split (downStep codes g inlets) i (k₀ - i) c o
      (by have : i + (k₀ - i) = k₀ := by omega
          rw [this]; exact hr₀)
    have hxe := walk_eq_chainCell i c x hx1
    subst hxe
    obtain ⟨y, hy1, hy2⟩ := walk_split (downStep codes g []) i (k₁ - i) c o
      (by have : i + (k₁ - i) = k₁ := by omega
          rw [this]; exact hk₁.2)
    have hye := walk_eq_chainCell i c y hy1
    subst hye
    refine ⟨(hmem _).2 (Or.inr ⟨k₀ - i, by omega, hx2⟩), ?_, hy1, hy2⟩
    intro heq
    by_cases hi0 : i = 0
    · subst hi0; exact hco heq
    · exact hmin i (by omega) hi (heq ▸ hy1)
  -- they are pairwise different, and different from the outlet
  have hnd' : (((List.range k₁).map fun i => chainCell codes g i c) ++ [o]).Nodup := by
    rw [List.nodup_append]
    refine ⟨?_, List.nodup_singleton o, ?_⟩
    · rw [List.nodup_map_iff_inj_on List.nodup_range]
      intro i hi j hj heq
      have hi' := List.mem_range.1 hi
      have hj' := List.mem_range.1 hj
      by_contra hne
      -- wlog i < j: the walk from cell i reaches the outlet in k₁ - j steps, too early
      have key : ∀ a b, a < b → b < k₁ → chainCell codes g a c = chainCell codes g b c → False := by
        intro a b hab hb he
        obtain ⟨_, _, ha1, _⟩ := hcell a (by omega)
        obtain ⟨_, _, _, hb2⟩ := hcell b hb
        rw [← he] at hb2
        have := walk_join (downStep codes g []) a (k₁ - b) c _ o ha1 hb2
        exact hmin (a + (k₁ - b)) (by omega) (by omega) this
      rcases Nat.lt_or_gt_of_ne hne with h | h
      · exact key i j h hj' heq
      · exact key j i h hi' heq.symm
    · intro x hx y hy
      rw [List.mem_map] at hx
      obtain ⟨i, hi, rfl⟩ := hx
      rw [List.mem_singleton] at hy
      subst hy
      exact (hcell i (List.mem_range.1 hi)).2.1
  have hsub : ∀ x ∈ (((List.range k₁).map fun i => chainCell codes g i c) ++ [o]), x ∈ A := by
    intro x hx
    rcases List.mem_append.1 hx with h | h
    · rw [List.mem_map] at h
      obtain ⟨i, hi, rfl⟩ := h
      exact (hcell i (List.mem_range.1 hi)).1
    · rw [List.mem_singleton] at h; subst h; exact ho
  have hlen := length_le_of_nodup_subset hnd' hsub
  rw [List.length_append, List.length_map, List.length_range, List.length_singleton] at hlen
  refine ⟨k₁ - 1, ?_, ?_, by omega⟩
  · have : k₁ - 1 + 1 = k₁ := by omega
    rw [this]; exact hk₁.2
  · intro j hj1 hjk; exact hmin j hj1 (by omega)


/-! ### on a finite grid the search stops unless a cycle passes through the outlet -/

/-- a walk of more steps than the grid has cells visits a cell twice: the outlet lies on a cycle -/
theorem cycle_of_long_walk {inlets : List Int} {o c : Int}
    (hw : Reaches codes g inlets ((g.nrows * g.ncols).toNat + 1) c o) :
    ∃ p, 1 ≤ p ∧ Reaches codes g inlets p o o := by
  classical
  set N := (g.nrows * g.ncols).toNat with hN
  -- the first N+1 cells of the walk are cells of the grid
  have hcell : ∀ i, i ≤ N → validCell g.nrows g.ncols (chainCell codes g i c) = true ∧
      Reaches codes g inlets (N + 1 - i) (chainCell codes g i c) o := by
    intro i hi
    obtain ⟨x, hx1, hx2⟩ := walk_split (downStep codes g inlets) i (N + 1 - i) c o
      (by have : i + (N + 1 - i) = N + 1 := by omega
          rw [this]; exact hw)
    have hxe := walk_eq_chainCell i c x hx1
    subst hxe
    have hx2' : Reaches codes g inlets ((N - i) + 1) (chainCell codes g i c) o := by
      have : N + 1 - i = (N - i) + 1 := by omega
      rw [← this]; exact hx2
    exact ⟨(reaches_succ_iff.1 hx2').1, hx2⟩
  -- two of them coincide
  have hdup : ∃ i j, i < j ∧ j ≤ N ∧ chainCell codes g i c = chainCell codes g j c := by
    by_contra hno
    have hinj : ((List.range (N + 1)).map fun i => chainCell codes g i c).Nodup := by
      rw [List.nodup_map_iff_inj_on List.nodup_range]
      intro i hi j hj heq
      have hi' := List.mem_range.1 hi
      have hj' := List.mem_range.1 hj
      by_contra hne
      rcases Nat.lt_or_gt_of_ne hne with h | h
      · exact hno ⟨i, j, h, by omega, heq⟩
      · exact hno ⟨j, i, h, by omega, heq.symm⟩
    have hsub : ∀ x ∈ ((List.range (N + 1)).map fun i => chainCell codes g i c),
        x ∈ (List.range N).map (fun n : Nat => (n : Int)) := by
      intro x hx
      rw [List.mem_map] at hx
      obtain ⟨i, hi, rfl⟩ := hx
      have hv := (validCell_iff.1 (hcell i (by have := List.mem_range.1 hi; omega)).1)
      rw [List.mem_map]
      refine ⟨(chainCell codes g i c).toNat, List.mem_range.2 ?_, by omega⟩
      omega
    have := length_le_of_nodup_subset hinj hsub
    simp at this
  obtain ⟨i, j, hij, hjN, heq⟩ := hdup
  obtain ⟨_, hri⟩ := hcell i (by omega)
  obtain ⟨_, hrj⟩ := hcell j hjN
  rw [heq] at hri
  -- same cell, two walk lengths to the outlet: the difference is a cycle through the outlet
  refine ⟨j - i, by omega, ?_⟩
  have hsum : N + 1 - i = (N + 1 - j) + (j - i) := by omega
  unfold Reaches at hri hrj ⊢
  rw [hsum, Bfs.walk_add, hrj] at hri
  simpa using hri

/-- no cycle through the outlet: some layer is empty -/
theorem exists_stop_of_no_cycle (ht : TableOK codes) (hc : 0 < g.ncols) {inlets : List Int} {o : Int}
    (hno : ¬ ∃ p, 1 ≤ p ∧ Reaches codes g inlets p o o) :
    ∃ n, Bfs.layer (upStep codes g inlets) o (n + 1) = [] := by
  by_contra hall
  have hne : Bfs.layer (upStep codes g inlets) o ((g.nrows * g.ncols).toNat + 1) ≠ [] :=
    fun h => hall ⟨_, h⟩
  obtain ⟨c, hcm⟩ := List.exists_mem_of_ne_nil _ hne
  have inv := upStep_downStep_inv (g := g) ht hc inlets
  have hw := (Bfs.mem_layer_iff (upStep codes g inlets) (downStep codes g inlets) inv o _ c).1 hcm
  exact hno (cycle_of_long_walk hw)


/-! ### a chain that leaves the grid (or ends in a sink) before the outlet -/

/-- the `while` loop on a chain that, after `j` steps none of which enters the outlet, stands on a cell `x`
draining nowhere, with at least `j+1` iterations left: it stops there with `idxcell_down < 0` -/
theorem fpLoop_exit (outlet : Int) (diag : Int → Int → Bool) : ∀ (j rem : Nat) (s : FpState) (x : Int),
    Reaches codes g [] j s.up x → validCell g.nrows g.ncols x = true →
    (∀ i, 1 ≤ i → i ≤ j → chainCell codes g i s.up ≠ outlet) →
    downstreamCell codes g x < 0 → j + 1 ≤ rem →
    (fpLoop codes g outlet diag rem s).down = downstreamCell codes g x := by
  intro j
  induction j with
  | zero =>
    intro rem s x hr hv _ hneg hrem
    obtain ⟨rem', rfl⟩ : ∃ r, rem = r + 1 := ⟨rem - 1, by omega⟩
    have hx : s.up = x := reaches_zero_iff.1 hr
    subst hx
    have hds : downstream codes g s.up = .ok (downstreamCell codes g s.up) := by
      unfold downstream; rw [if_pos hv]
    simp only [fpLoop, hds, hneg, if_true]
  | succ j ih =>
    intro rem s x hr hv hno hneg hrem
    obtain ⟨rem', rfl⟩ : ∃ r, rem = r + 1 := ⟨rem - 1, by omega⟩
    obtain ⟨hvu, _, h0, hr'⟩ := reaches_succ_iff.1 hr
    have hds : downstream codes g s.up = .ok (downstreamCell codes g s.up) := by
      unfold downstream; rw [if_pos hvu]
    have hn : ¬ downstreamCell codes g s.up < 0 := by omega
    have hne : downstreamCell codes g s.up ≠ outlet := hno 1 (le_refl 1) (by omega)
    simp only [fpLoop, hds, hn, hne, if_false]
    apply ih rem' _ x hr' hv _ hneg (by omega)
    intro i hi1 hij
    exact hno (i + 1) (by omega) (by omega)

/-- **flow path of a cell whose chain leaves the grid / ends in a sink before meeting the outlet**: the end
cell is the exit code (`-1` or `-2`) and nothing is added up (length 0) -/
theorem flowPathWith_exit (diag : Int → Int → Bool) {start outlet x : Int} {j nval : Nat}
    (hr : Reaches codes g [] j start x) (hv : validCell g.nrows g.ncols x = true)
    (hno : ∀ i, 1 ≤ i → i ≤ j → chainCell codes g i start ≠ outlet)
    (hneg : downstreamCell codes g x < 0) (hj : j + 1 ≤ nval) :
    flowPathWith codes g outlet diag nval start = (downstreamCell codes g x, []) := by
  have h := fpLoop_exit (codes := codes) (g := g) outlet diag j nval
    { ipath := 0, up := start, down := -1, steps := [] } x hr hv hno hneg hj
  unfold flowPathWith
  simp only [h, hneg, if_true]


/-! ### the pinned step classification is wrong on 2-column grids only -/

/-- on every grid that does not have exactly 2 columns, `|Δidx| == 1 || |Δidx| == ncols` classifies the
steps of a chain like the row/column test does -/
theorem isDiagPinned_eq_isDiag (ht : TableOK codes) (hc : 0 < g.ncols) (h2 : g.ncols ≠ 2) {c : Int}
    (hv : validCell g.nrows g.ncols c = true) (h0 : 0 ≤ downstreamCell codes g c) :
    isDiagPinned g.ncols c (downstreamCell codes g c) = isDiag g.ncols c (downstreamCell codes g c) := by
  obtain ⟨dx, dy, hx, hy, hcen, ex, ey⟩ := step_rowcol ht h0
  have hvd := downstreamCell_nonneg_valid ht h0
  obtain ⟨_, _, k0, k1, hcc⟩ := valid_rowcol hc hv
  obtain ⟨_, _, l0, l1, hcd⟩ := valid_rowcol hc hvd
  unfold cellOf at hcc hcd
  rw [ex] at l0 l1
  have e : downstreamCell codes g c - c = dy * g.ncols + dx := by
    rw [ey, ex] at hcd
    linear_combination hcc - hcd
  unfold isDiag isDiagPinned
  rw [e, ex, ey]
  clear hcc hcd e ex ey hvd
  generalize colOf g.ncols c = K at *
  generalize rowOf g.ncols c = R at *
  generalize g.ncols = n at *
  rw [Bool.eq_iff_iff]
  simp only [Bool.not_eq_true', Bool.or_eq_false_iff, decide_eq_false_iff_not, Bool.and_eq_true,
    bne_iff_ne, ne_eq]
  rcases hx with rfl | rfl | rfl <;> rcases hy with rfl | rfl | rfl <;> omega


/-! ### the Python wrapper's `idxcells[idxcells >= 0]` -/

theorem keepCells_areaBuffer (nval : Int) (area : List Int) (h : ∀ c ∈ area, 0 ≤ c) :
    keepCells (areaBuffer nval area) = area := by
  unfold keepCells areaBuffer
  rw [List.filter_append]
  have h1 : area.filter (fun c => decide (0 ≤ c)) = area := by
    rw [List.filter_eq_self]; intro c hc; simpa using h c hc
  have h2 : (List.replicate (nval.toNat - area.length) (-1 : Int)).filter (fun c => decide (0 ≤ c)) = [] := by
    rw [List.filter_eq_nil_iff]; intro c hc
    rw [List.eq_of_mem_replicate hc]; decide
  rw [h1, h2, List.append_nil]

/-! ### bounded results -/

/-- the flow-path walk adds at most one step per iteration: `steps` grows with `ipath`, `ipath` by at most
the number of iterations left -/
theorem fpLoop_bound (outlet : Int) (diag : Int → Int → Bool) : ∀ (rem : Nat) (s : FpState),
    (fpLoop codes g outlet diag rem s).ipath ≤ s.ipath + rem ∧
    (fpLoop codes g outlet diag rem s).steps.length + s.ipath =
      s.steps.length + (fpLoop codes g outlet diag rem s).ipath := by
  intro rem
  induction rem with
  | zero => intro s; simp [fpLoop]
  | succ rem ih =>
    intro s
    simp only [fpLoop]
    split
    · simp
    · split
      · simp
      · split
        · simp
        · rename_i d _ _ _
          obtain ⟨h1, h2⟩ := ih { ipath := s.ipath + 1, up := d, down := d, steps := s.steps ++ [diag s.up d] }
          dsimp only at h1 h2
          simp only [List.length_append, List.length_singleton] at h2
          exact ⟨by omega, by omega⟩

theorem flowPathWith_bound (diag : Int → Int → Bool) (outlet : Int) (nval : Nat) (start : Int) :
    (flowPathWith codes g outlet diag nval start).2.length ≤ nval := by
  obtain ⟨h1, h2⟩ := fpLoop_bound (codes := codes) (g := g) outlet diag nval
    { ipath := 0, up := start, down := -1, steps := [] }
  simp only [List.length_nil, Nat.zero_add, Nat.add_zero] at h1 h2
  unfold flowPathWith
  simp only []
  split
  · simp
  · split
    · rename_i hc; rw [List.length_append, List.length_singleton]; omega
    · omega

section Lengths
variable {α : Type} [CommRing α] [Transc α]

theorem riverLoop_length_le : ∀ (n : Nat) (cur : Int) (dist : α) (dx dy : Int),
    (riverLoop codes g n cur dist dx dy).length ≤ n := by
  intro n cur dist dx dy
  rw [river_rows_cells_length]
  exact (chainCells_spec n cur).1

/-- the displacement columns: row 0 holds the incoming `(dx, dy)` (zero for the first cell), every later row
the column / row change of the step that led to it -/
theorem river_disp : ∀ (n : Nat) (cur : Int) (dist : α) (dx dy : Int),
    (riverLoop codes g n cur dist dx dy).map (fun r => (r.dx, r.dy)) =
      if n = 0 then [] else
        (dx, dy) :: List.zipWith (fun a b => (colOf g.ncols a - colOf g.ncols b, rowOf g.ncols a - rowOf g.ncols b))
          ((riverLoop codes g n cur dist dx dy).map (·.cell))
          ((riverLoop codes g n cur dist dx dy).map (·.cell)).tail := by
  intro n
  induction n with
  | zero => intro cur dist dx dy; rfl
  | succ n ih =>
    intro cur dist dx dy
    rw [if_neg (by omega)]
    simp only [riverLoop]
    split
    · simp
    · have hrec := ih (downstreamCell codes g cur) (dist + hypot dx dy)
        (colOf g.ncols cur - colOf g.ncols (downstreamCell codes g cur))
        (rowOf g.ncols cur - rowOf g.ncols (downstreamCell codes g cur))
      simp only [List.map_cons, List.tail_cons]
      rw [hrec]
      cases n with
      | zero => simp [riverLoop]
      | succ n =>
        rw [if_neg (by omega)]
        have hhead : ∃ t, (riverLoop codes g (n + 1) (downstreamCell codes g cur) (dist + hypot dx dy)
            (colOf g.ncols cur - colOf g.ncols (downstreamCell codes g cur))
            (rowOf g.ncols cur - rowOf g.ncols (downstreamCell codes g cur))).map (·.cell) =
            downstreamCell codes g cur :: t := by
          rw [river_cells]; exact ⟨_, rfl⟩
        obtain ⟨t, ht⟩ := hhead
        rw [ht]
        simp

end Lengths

/-! ### histories on one `Catchment` object -/

theorem gridAfter_shape (ops : List HistOp) : ∀ g : FlowGrid,
    (gridAfter g ops).nrows = g.nrows ∧ (gridAfter g ops).ncols = g.ncols := by
  induction ops with
  | nil => intro g; exact ⟨rfl, rfl⟩
  | cons op ops ih =>
    intro g
    cases op <;> simp only [gridAfter] <;> exact ih _

/-- the grid an object holds after a history is the constructor's grid with the edits applied, whatever
else was called in between -/
theorem histRun_grid (ops : List HistOp) : ∀ s : CatchState,
    (histRun codes s ops).1.grid = gridAfter s.grid ops := by
  induction ops with
  | nil => intro s; rfl
  | cons op ops ih =>
    intro s
    simp only [histRun]
    rw [ih]
    cases op with
    | delineate o inl nval =>
      simp only [histStep, gridAfter]
      split <;> rfl
    | flowpaths =>
      simp only [histStep, gridAfter]
      split <;> rfl
    | setCell c v => rfl
    | setGrid fd => rfl

end HydroVerif.C06
