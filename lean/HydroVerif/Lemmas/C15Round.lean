/-
C15 — the kernel under rounded arithmetic: relative-error algebra (`Near`), the error of the computed crossing
abscissa, the per-edge statement and the reduction of the `Rd` instance of the model to plain expressions of `K`.
-/
import HydroVerif.Lemmas.C15
import HydroVerif.Model.C15Round
import Mathlib.Data.Rat.Floor

set_option linter.unusedSectionVars false

namespace HydroVerif.C15

variable {K : Type} [Field K] [LinearOrder K] [IsStrictOrderedRing K]

/-! ### relative perturbations -/

/-- `x'` is `x` up to the relative error `ε` -/
def Near (ε x' x : K) : Prop := |x' - x| ≤ ε * |x|

/-- the standard model of floating-point arithmetic: every rounded result has relative error at most `u` -/
def RelRound (u : K) (rnd : K → K) : Prop := ∀ x : K, |rnd x - x| ≤ u * |x|

theorem Near.mono {ε ε' x' x : K} (h : Near ε x' x) (hε : ε ≤ ε') : Near ε' x' x :=
  le_trans h (mul_le_mul_of_nonneg_right hε (abs_nonneg x))

theorem near_abs_le {ε x' x : K} (h : Near ε x' x) : |x'| ≤ (1 + ε) * |x| := by
  have h1 : |x'| ≤ |x| + |x' - x| := by
    have := abs_add_le x (x' - x)
    rwa [add_sub_cancel] at this
  unfold Near at h
  linarith

theorem near_abs_ge {ε x' x : K} (h : Near ε x' x) : (1 - ε) * |x| ≤ |x'| := by
  have h1 : |x| ≤ |x'| + |x' - x| := by
    have := abs_add_le x' (x - x')
    rw [add_sub_cancel, abs_sub_comm x x'] at this
    exact this
  unfold Near at h
  linarith

theorem near_rnd {u : K} {rnd : K → K} (hr : RelRound u rnd) (x : K) : Near u (rnd x) x := hr x

theorem rnd_zero {u : K} {rnd : K → K} (hr : RelRound u rnd) : rnd 0 = 0 := by
  have := hr 0
  rw [abs_zero, mul_zero, sub_zero] at this
  exact abs_eq_zero.mp (le_antisymm this (abs_nonneg _))

/-- rounding a perturbed value -/
theorem near_rnd_comp {u ε z x : K} {rnd : K → K} (hr : RelRound u rnd) (hu : 0 ≤ u) (h : Near ε z x) :
    Near (ε + u + ε * u) (rnd z) x := by
  have h1 : |rnd z - x| ≤ |rnd z - z| + |z - x| := by
    have := abs_add_le (rnd z - z) (z - x)
    rwa [sub_add_sub_cancel] at this
  have h2 := hr z
  have h3 := near_abs_le h
  have h4 : u * |z| ≤ u * ((1 + ε) * |x|) := mul_le_mul_of_nonneg_left h3 hu
  unfold Near at h ⊢
  nlinarith

theorem near_mul {ε1 ε2 a' a b' b : K} (ha : Near ε1 a' a) (hb : Near ε2 b' b) :
    Near (ε1 + ε2 + ε1 * ε2) (a' * b') (a * b) := by
  unfold Near at *
  have e : a' * b' - a * b = (a' - a) * b + a * (b' - b) + (a' - a) * (b' - b) := by ring
  rw [e, abs_mul a b]
  have h1 := abs_add_le ((a' - a) * b + a * (b' - b)) ((a' - a) * (b' - b))
  have h2 := abs_add_le ((a' - a) * b) (a * (b' - b))
  rw [abs_mul, abs_mul] at h2
  rw [abs_mul (a' - a) (b' - b)] at h1
  have h3 : |a' - a| * |b| ≤ ε1 * |a| * |b| := mul_le_mul_of_nonneg_right ha (abs_nonneg b)
  have h4 : |a| * |b' - b| ≤ |a| * (ε2 * |b|) := mul_le_mul_of_nonneg_left hb (abs_nonneg a)
  have h5 : |a' - a| * |b' - b| ≤ (ε1 * |a|) * (ε2 * |b|) :=
    mul_le_mul ha hb (abs_nonneg _) (le_trans (abs_nonneg _) ha)
  nlinarith

theorem near_div {ε1 ε2 m' m d' d : K} (hm : Near ε1 m' m) (hd : Near ε2 d' d) (hε2 : ε2 < 1) (hd0 : d ≠ 0) :
    Near ((ε1 + ε2) / (1 - ε2)) (m' / d') (m / d) := by
  have hdpos : 0 < |d| := abs_pos.mpr hd0
  have h1e : 0 < 1 - ε2 := by linarith
  have hd'ge := near_abs_ge hd
  have hd'pos : 0 < |d'| := lt_of_lt_of_le (mul_pos h1e hdpos) hd'ge
  have hd'0 : d' ≠ 0 := abs_pos.mp hd'pos
  unfold Near at hm hd ⊢
  set q := m / d with hq
  have hmq : m = q * d := by rw [hq]; field_simp
  -- m' - q d' = (m' - m) + q (d - d')
  have e : m' / d' - q = ((m' - m) + q * (d - d')) / d' := by field_simp; rw [hmq]; ring
  rw [e, abs_div, div_le_iff₀ hd'pos]
  have h2 : |m' - m + q * (d - d')| ≤ |m' - m| + |q| * |d - d'| := by
    have := abs_add_le (m' - m) (q * (d - d'))
    rwa [abs_mul] at this
  have h3 : |m| = |q| * |d| := by rw [hmq, abs_mul]
  have h4 : |d - d'| ≤ ε2 * |d| := by rw [abs_sub_comm]; exact hd
  have h5 : |q| * |d - d'| ≤ |q| * (ε2 * |d|) := mul_le_mul_of_nonneg_left h4 (abs_nonneg q)
  have h6 : |m' - m + q * (d - d')| ≤ (ε1 + ε2) * |q| * |d| := by
    rw [h3] at hm; nlinarith
  have h7 : (ε1 + ε2) / (1 - ε2) * |q| * |d'| = (ε1 + ε2) * |q| * (|d'| / (1 - ε2)) := by
    field_simp
  rw [h7]
  have h8 : |d| ≤ |d'| / (1 - ε2) := by rw [le_div_iff₀ h1e]; linarith
  have hε : 0 ≤ (ε1 + ε2) * |q| := by
    by_contra hneg
    push Not at hneg
    have : (ε1 + ε2) * |q| * |d| < 0 := mul_neg_of_neg_of_pos hneg hdpos
    linarith [abs_nonneg (m' - m + q * (d - d'))]
  calc |m' - m + q * (d - d')| ≤ (ε1 + ε2) * |q| * |d| := h6
    _ ≤ (ε1 + ε2) * |q| * (|d'| / (1 - ε2)) := mul_le_mul_of_nonneg_left h8 hε

/-! ### the computed crossing abscissa -/

/-- the margin of the rounded kernel around the edge `p1 p2` -/
def errX (u : K) (p1 p2 : K × K) : K := u * (|p1.1| + 8 * |p2.1 - p1.1|)

theorem errX_nonneg {u : K} (hu : 0 ≤ u) (p1 p2 : K × K) : 0 ≤ errX u p1 p2 :=
  mul_nonneg hu (add_nonneg (abs_nonneg _) (mul_nonneg (by norm_num) (abs_nonneg _)))

/-- the quotient `(y-p1y)(p2x-p1x)/(p2y-p1y)` is computed with relative error at most `6 u` -/
theorem quotient_near {u : K} {rnd : K → K} (hr : RelRound u rnd) (hu : 0 ≤ u) (hu1 : u ≤ 1 / 100) (A B D : K)
    (hD : D ≠ 0) : Near (6 * u) (rnd (rnd (rnd A * rnd B) / rnd D)) (A * B / D) := by
  have hab : Near (201 / 100 * u) (rnd A * rnd B) (A * B) :=
    (near_mul (near_rnd hr A) (near_rnd hr B)).mono (by nlinarith)
  have hm : Near (304 / 100 * u) (rnd (rnd A * rnd B)) (A * B) :=
    (near_rnd_comp hr hu hab).mono (by nlinarith)
  have hq : Near (409 / 100 * u) (rnd (rnd A * rnd B) / rnd D) (A * B / D) := by
    refine (near_div hm (near_rnd hr D) (by linarith) hD).mono ?_
    rw [div_le_iff₀ (by linarith)]
    nlinarith
  exact (near_rnd_comp hr hu hq).mono (by nlinarith)

/-- the abscissa computed with six roundings is within `u (|p1x| + 8 |p2x - p1x|)` of the exact crossing abscissa -/
theorem xintersR_error {u : K} {rnd : K → K} (hr : RelRound u rnd) (hu : 0 ≤ u) (hu1 : u ≤ 1 / 100) {y : K}
    {p1 p2 : K × K} (hs : straddle y p1 p2 = true) :
    |xintersR rnd y p1 p2 - xint y p1 p2| ≤ errX u p1 p2 := by
  have hD := straddle_ne hs
  obtain ⟨ht0, ht1⟩ := tpar_mem hs
  set t := (y - p1.2) * (p2.1 - p1.1) / (p2.2 - p1.2) with ht
  have htB : |t| ≤ |p2.1 - p1.1| := by
    have e : t = tpar y p1 p2 * (p2.1 - p1.1) := by rw [ht]; unfold tpar; ring
    rw [e, abs_mul, abs_of_nonneg ht0]
    exact mul_le_of_le_one_left (abs_nonneg _) ht1
  have hq := quotient_near hr hu hu1 (y - p1.2) (p2.1 - p1.1) (p2.2 - p1.2) hD
  rw [← ht] at hq
  set q := rnd (rnd (rnd (y - p1.2) * rnd (p2.1 - p1.1)) / rnd (p2.2 - p1.2)) with hqdef
  have hxi : xint y p1 p2 = p1.1 + t := rfl
  unfold xintersR errX
  rw [← hqdef, hxi]
  have h1 : |rnd (p1.1 + q) - (p1.1 + t)| ≤ |rnd (p1.1 + q) - (p1.1 + q)| + |q - t| := by
    have := abs_add_le (rnd (p1.1 + q) - (p1.1 + q)) (q - t)
    have e : rnd (p1.1 + q) - (p1.1 + q) + (q - t) = rnd (p1.1 + q) - (p1.1 + t) := by ring
    rwa [e] at this
  have h2 := hr (p1.1 + q)
  have h3 : |p1.1 + q| ≤ |p1.1| + |q| := abs_add_le _ _
  have h4 := near_abs_le hq
  have h5 : u * |p1.1 + q| ≤ u * (|p1.1| + (1 + 6 * u) * |t|) :=
    mul_le_mul_of_nonneg_left (by linarith) hu
  unfold Near at hq
  have hta := abs_nonneg t
  have h6 : u * (6 * u * |t|) ≤ u * (6 / 100 * |t|) :=
    mul_le_mul_of_nonneg_left (mul_le_mul_of_nonneg_right (by linarith) hta) hu
  have h7 : u * |t| ≤ u * |p2.1 - p1.1| := mul_le_mul_of_nonneg_left htB hu
  have h8 : u * (|p1.1| + (1 + 6 * u) * |t|) = u * |p1.1| + u * |t| + u * (6 * u * |t|) := by ring
  have h9 : 6 * u * |t| = 6 * (u * |t|) := by ring
  have h10 : u * (6 / 100 * |t|) = 6 / 100 * (u * |t|) := by ring
  have h11 : 0 ≤ u * |t| := mul_nonneg hu hta
  rw [mul_add]
  linarith

/-! ### one edge under rounding -/

/-- the two tolerance guards act as intended although they test rounded differences: each coordinate step of the
edge is zero or exceeds the tolerance by the factor `1 / (1 - u)` -/
def SepEdgeR (u atol : K) (p1 p2 : K × K) : Prop :=
  (p1.2 = p2.2 ∨ atol < (1 - u) * |p1.2 - p2.2|) ∧ (p1.1 = p2.1 ∨ atol ≤ (1 - u) * |p1.1 - p2.1|)

/-- the point is off the edge by more than the rounding margin (horizontally, at its own height) -/
def GapEdgeR (u x y : K) (p1 p2 : K × K) : Prop :=
  straddle y p1 p2 = true → errX u p1 p2 < |x - xint y p1 p2|

/-- the edge test of the kernel with every arithmetic result rounded -/
def edgeToggleR (rnd : K → K) (atol x y : K) (p1 p2 : K × K) : Bool :=
  edgeToggle (α := Rd K rnd) ⟨atol⟩ ⟨x⟩ ⟨y⟩ (Rd.lift p1) (Rd.lift p2)

theorem rd_fmin_val {rnd : K → K} (a b : Rd K rnd) : (fmin a b).val = min a.val b.val := by
  unfold fmin
  by_cases h : a < b
  · rw [if_pos h]; exact (min_eq_left (le_of_lt h)).symm
  · rw [if_neg h]; exact (min_eq_right (not_lt.mp h)).symm

theorem rd_fmax_val {rnd : K → K} (a b : Rd K rnd) : (fmax a b).val = max a.val b.val := by
  unfold fmax
  by_cases h : a < b
  · rw [if_pos h]; exact (max_eq_right (le_of_lt h)).symm
  · rw [if_neg h]; exact (max_eq_left (not_lt.mp h)).symm

theorem rd_fabs_val {rnd : K → K} (a : Rd K rnd) : (fabs a).val = |a.val| := by
  unfold fabs
  by_cases h : a < 0
  · rw [if_pos h]; exact (abs_of_neg h).symm
  · rw [if_neg h]; exact (abs_of_nonneg (not_lt.mp h)).symm

/-- the rounded edge test written out in `K` -/
theorem edgeToggleR_iff (rnd : K → K) (atol x y : K) (p1 p2 : K × K) :
    edgeToggleR rnd atol x y p1 p2 = true ↔
      (min p1.2 p2.2 < y ∧ y ≤ max p1.2 p2.2 ∧ x ≤ max p1.1 p2.1 ∧
        (|rnd (p1.1 - p2.1)| < atol ∨
          x ≤ (if atol < |rnd (p1.2 - p2.2)| then xintersR rnd y p1 p2 else p1.1))) := by
  unfold edgeToggleR edgeToggle
  have e1 : (fmin (Rd.lift (rnd := rnd) p1).2 (Rd.lift p2).2 < (⟨y⟩ : Rd K rnd)) ↔ min p1.2 p2.2 < y := by
    show (fmin (Rd.lift (rnd := rnd) p1).2 (Rd.lift (rnd := rnd) p2).2).val < y ↔ _; rw [rd_fmin_val]; rfl
  have e2 : ((⟨y⟩ : Rd K rnd) ≤ fmax (Rd.lift (rnd := rnd) p1).2 (Rd.lift p2).2) ↔ y ≤ max p1.2 p2.2 := by
    show y ≤ (fmax (Rd.lift (rnd := rnd) p1).2 (Rd.lift (rnd := rnd) p2).2).val ↔ _; rw [rd_fmax_val]; rfl
  have e3 : ((⟨x⟩ : Rd K rnd) ≤ fmax (Rd.lift (rnd := rnd) p1).1 (Rd.lift p2).1) ↔ x ≤ max p1.1 p2.1 := by
    show x ≤ (fmax (Rd.lift (rnd := rnd) p1).1 (Rd.lift (rnd := rnd) p2).1).val ↔ _; rw [rd_fmax_val]; rfl
  have e4 : (fabs ((Rd.lift (rnd := rnd) p1).1 - (Rd.lift p2).1) < (⟨atol⟩ : Rd K rnd)) ↔
      |rnd (p1.1 - p2.1)| < atol := by
    show (fabs ((Rd.lift (rnd := rnd) p1).1 - (Rd.lift (rnd := rnd) p2).1)).val < atol ↔ _; rw [rd_fabs_val]; rfl
  have e5 : ((⟨x⟩ : Rd K rnd) ≤ xinters (⟨atol⟩ : Rd K rnd) ⟨y⟩ (Rd.lift p1) (Rd.lift p2)) ↔
      x ≤ (if atol < |rnd (p1.2 - p2.2)| then xintersR rnd y p1 p2 else p1.1) := by
    unfold xinters
    have e6 : ((⟨atol⟩ : Rd K rnd) < fabs ((Rd.lift (rnd := rnd) p1).2 - (Rd.lift p2).2)) ↔
        atol < |rnd (p1.2 - p2.2)| := by
      show atol < (fabs ((Rd.lift (rnd := rnd) p1).2 - (Rd.lift (rnd := rnd) p2).2)).val ↔ _; rw [rd_fabs_val]; rfl
    by_cases h : atol < |rnd (p1.2 - p2.2)|
    · rw [if_pos (e6.mpr h), if_pos h]; rfl
    · rw [if_neg (fun h' => h (e6.mp h')), if_neg h]; rfl
  by_cases h1 : min p1.2 p2.2 < y
  · rw [if_pos (e1.mpr h1)]
    by_cases h2 : y ≤ max p1.2 p2.2
    · rw [if_pos (e2.mpr h2)]
      by_cases h3 : x ≤ max p1.1 p2.1
      · rw [if_pos (e3.mpr h3)]
        simp only [Bool.or_eq_true, decide_eq_true_eq, e4, e5, h1, h2, h3, true_and]
      · rw [if_neg (fun h' => h3 (e3.mp h'))]; simp [h3]
    · rw [if_neg (fun h' => h2 (e2.mp h'))]; simp [h2]
  · rw [if_neg (fun h' => h1 (e1.mp h'))]; simp [h1]

/-- **one edge, rounded arithmetic**: off the rounding margin, with coordinate steps zero or above the tolerance,
the rounded C test is the exact crossing test of the open right ray -/
theorem edgeToggleR_eq_crossR {u atol x y : K} {rnd : K → K} {p1 p2 : K × K} (hr : RelRound u rnd)
    (hu : 0 ≤ u) (hu1 : u ≤ 1 / 100) (hsep : SepEdgeR u atol p1 p2) (hgap : GapEdgeR u x y p1 p2) :
    edgeToggleR rnd atol x y p1 p2 = crossR x y p1 p2 := by
  rw [Bool.eq_iff_iff, edgeToggleR_iff]
  unfold crossR
  rw [Bool.and_eq_true, decide_eq_true_eq]
  by_cases hs : straddle y p1 p2 = true
  swap
  · have : ¬ (min p1.2 p2.2 < y ∧ y ≤ max p1.2 p2.2) := by
      rw [minmax_iff, ← straddle_iff]; exact hs
    constructor
    · rintro ⟨h1, h2, _⟩; exact absurd ⟨h1, h2⟩ this
    · rintro ⟨h, _⟩; exact absurd h hs
  have hmm : min p1.2 p2.2 < y ∧ y ≤ max p1.2 p2.2 := by rw [minmax_iff, ← straddle_iff]; exact hs
  simp only [hs, hmm.1, hmm.2, true_and]
  have hgap' := hgap hs
  have hE := errX_nonneg hu p1 p2
  have herr := xintersR_error hr hu hu1 hs
  obtain ⟨hlo, hhi⟩ := xint_mem hs
  have hne : p1.2 ≠ p2.2 := fun h => straddle_ne hs (by rw [h, sub_self])
  have hg1 : atol < |rnd (p1.2 - p2.2)| := by
    rcases hsep.1 with h | h
    · exact absurd h hne
    · exact lt_of_lt_of_le h (near_abs_ge (near_rnd hr _))
  rw [if_pos hg1]
  rw [abs_le] at herr
  constructor
  · rintro ⟨hmax, hg2 | hle⟩
    · -- the second guard fires only on a vertical edge
      have hx : p1.1 = p2.1 := by
        rcases hsep.2 with h | h
        · exact h
        · exact absurd (lt_of_le_of_lt (le_trans h (near_abs_ge (near_rnd hr _))) hg2) (lt_irrefl _)
      have hxi : xint y p1 p2 = p1.1 := by unfold xint; rw [hx, sub_self, mul_zero, zero_div, add_zero]
      rw [hx, max_self] at hmax
      rw [hxi] at hgap' ⊢
      rw [← hx] at hmax
      rcases lt_or_eq_of_le hmax with h | h
      · exact h
      · rw [h, sub_self, abs_zero] at hgap'; exact absurd hgap' (not_lt.mpr hE)
    · by_contra hnot
      have hge : xint y p1 p2 ≤ x := not_lt.mp hnot
      rw [abs_of_nonneg (by linarith)] at hgap'
      linarith
  · intro hlt
    refine ⟨by linarith, Or.inr ?_⟩
    rw [abs_of_neg (by linarith)] at hgap'
    linarith

/-! ### the whole polygon -/

theorem rd_lift_fmin {rnd : K → K} (a b : K) : fmin (⟨a⟩ : Rd K rnd) ⟨b⟩ = ⟨fmin a b⟩ := by
  unfold fmin
  by_cases h : a < b
  · rw [if_pos (show (⟨a⟩ : Rd K rnd) < ⟨b⟩ from h), if_pos h]
  · rw [if_neg (show ¬ (⟨a⟩ : Rd K rnd) < ⟨b⟩ from h), if_neg h]

theorem rd_lift_fmax {rnd : K → K} (a b : K) : fmax (⟨a⟩ : Rd K rnd) ⟨b⟩ = ⟨fmax a b⟩ := by
  unfold fmax
  by_cases h : a < b
  · rw [if_pos (show (⟨a⟩ : Rd K rnd) < ⟨b⟩ from h), if_pos h]
  · rw [if_neg (show ¬ (⟨a⟩ : Rd K rnd) < ⟨b⟩ from h), if_neg h]

theorem rd_colMin {rnd : K → K} (l : List K) : ∀ m : K,
    colMin (⟨m⟩ : Rd K rnd) (l.map fun a => ⟨a⟩) = ⟨colMin m l⟩ := by
  induction l with
  | nil => intro m; rfl
  | cons a t ih => intro m; simp only [List.map_cons, colMin, rd_lift_fmin, ih]

theorem rd_colMax {rnd : K → K} (l : List K) : ∀ m : K,
    colMax (⟨m⟩ : Rd K rnd) (l.map fun a => ⟨a⟩) = ⟨colMax m l⟩ := by
  induction l with
  | nil => intro m; rfl
  | cons a t ih => intro m; simp only [List.map_cons, colMax, rd_lift_fmax, ih]

/-- the bounding-box test involves no arithmetic: it is the same under rounding -/
theorem rd_outsideBox {rnd : K → K} (v0 : K × K) (t : List (K × K)) (pt : K × K) :
    outsideBox (extentX (Rd.lift (rnd := rnd) v0) (t.map Rd.lift)) (extentY (Rd.lift v0) (t.map Rd.lift))
      (Rd.lift pt) = outsideBox (extentX v0 t) (extentY v0 t) pt := by
  have hx : (t.map (Rd.lift (rnd := rnd))).map (·.1) = (t.map (·.1)).map fun a => (⟨a⟩ : Rd K rnd) := by
    simp [List.map_map, Rd.lift, Function.comp_def]
  have hy : (t.map (Rd.lift (rnd := rnd))).map (·.2) = (t.map (·.2)).map fun a => (⟨a⟩ : Rd K rnd) := by
    simp [List.map_map, Rd.lift, Function.comp_def]
  unfold extentX extentY outsideBox
  rw [hx, hy]
  simp only [Rd.lift, rd_colMin, rd_colMax]
  rfl

/-- every coordinate step of the polygon is zero or exceeds the tolerance by the factor `1 / (1 - u)` -/
def SepR (u atol : K) (poly : List (K × K)) : Prop := ∀ e ∈ edges poly, SepEdgeR u atol e.1 e.2

/-- the point is off every edge by more than the rounding margin of that edge -/
def GapR (u : K) (poly : List (K × K)) (pt : K × K) : Prop := ∀ e ∈ edges poly, GapEdgeR u pt.1 pt.2 e.1 e.2

theorem pointInsideRounded_eq {u atol : K} {rnd : K → K} {poly : List (K × K)} {pt : K × K} (hr : RelRound u rnd)
    (hu : 0 ≤ u) (hu1 : u ≤ 1 / 100) (hsep : SepR u atol poly) (hgap : GapR u poly pt) :
    pointInsideRounded rnd atol poly pt = evenOdd poly pt := by
  have hc : crossing (α := Rd K rnd) ⟨atol⟩ (poly.map Rd.lift) (Rd.lift pt) = evenOdd poly pt := by
    rw [crossing_eq, edges_map, List.map_map]
    unfold evenOdd
    apply parity_map_congr
    intro e he
    exact edgeToggleR_eq_crossR hr hu hu1 (hsep e he) (hgap e he)
  cases poly with
  | nil => rfl
  | cons v0 t =>
    unfold pointInsideRounded pointInside pointInsideFrom
    simp only [List.map_cons]
    rw [rd_outsideBox]
    split
    · rename_i hout; exact (evenOdd_outsideBox hout).symm
    · exact hc

/-! ### rectilinear polygons: the rounded kernel is exact at every point -/

/-- every edge is vertical or horizontal -/
def Rectilinear (poly : List (K × K)) : Prop := ∀ e ∈ edges poly, e.1.1 = e.2.1 ∨ e.1.2 = e.2.2

/-- on a vertical or horizontal edge no rounding survives: `(y - p1y) * 0 / d = 0` and `p1x + 0 = p1x` whatever the
rounding does elsewhere, provided it keeps `0` and the vertex abscissa (a representable number) -/
theorem edgeToggleR_rectilinear {rnd : K → K} (hz : rnd 0 = 0) {p1 p2 : K × K} (hx : rnd p1.1 = p1.1)
    (hrect : p1.1 = p2.1 ∨ p1.2 = p2.2) (atol x y : K) :
    edgeToggleR rnd atol x y p1 p2 = crossRle x y p1 p2 := by
  rw [Bool.eq_iff_iff, edgeToggleR_iff]
  unfold crossRle
  rw [Bool.and_eq_true, decide_eq_true_eq, straddle_iff, ← minmax_iff]
  by_cases hh : p1.2 = p2.2
  · -- horizontal: never straddled
    rw [hh, min_self, max_self]
    constructor
    · rintro ⟨h1, h2, _⟩; exact absurd (lt_of_lt_of_le h1 h2) (lt_irrefl _)
    · rintro ⟨⟨h1, h2⟩, _⟩; exact absurd (lt_of_lt_of_le h1 h2) (lt_irrefl _)
  · have hv : p1.1 = p2.1 := hrect.resolve_right hh
    have hxr : xintersR rnd y p1 p2 = p1.1 := by
      unfold xintersR
      rw [← hv, sub_self, hz, mul_zero, hz, zero_div, hz, add_zero, hx]
    have hxi : xint y p1 p2 = p1.1 := by unfold xint; rw [← hv, sub_self, mul_zero, zero_div, add_zero]
    rw [hxr, hxi, ite_self, ← hv, max_self]
    constructor
    · rintro ⟨h1, h2, h3, _⟩; exact ⟨⟨h1, h2⟩, h3⟩
    · rintro ⟨⟨h1, h2⟩, h3⟩; exact ⟨h1, h2, h3, Or.inr h3⟩

theorem pointInsideRounded_rectilinear {rnd : K → K} (hz : rnd 0 = 0) {poly : List (K × K)}
    (hrep : ∀ v ∈ poly, rnd v.1 = v.1) (hrect : Rectilinear poly) (atol : K) (pt : K × K) :
    pointInsideRounded rnd atol poly pt = evenOddLe poly pt := by
  have hc : crossing (α := Rd K rnd) ⟨atol⟩ (poly.map Rd.lift) (Rd.lift pt) = evenOddLe poly pt := by
    rw [crossing_eq, edges_map, List.map_map]
    unfold evenOddLe
    apply parity_map_congr
    intro e he
    exact edgeToggleR_rectilinear hz (hrep e.1 (mem_edges he).1) (hrect e he) atol pt.1 pt.2
  cases poly with
  | nil => rfl
  | cons v0 t =>
    unfold pointInsideRounded pointInside pointInsideFrom
    simp only [List.map_cons]
    rw [rd_outsideBox]
    split
    · rename_i hout; exact (evenOddLe_outsideBox hout).symm
    · exact hc

/-! ### `rnd53` meets the standard model with `u = 2 ^ -53` -/

theorem roundHalfEven_error (z : ℚ) : |((roundHalfEven z : ℤ) : ℚ) - z| ≤ 1 / 2 := by
  have h1 : ((Rat.floor z : ℤ) : ℚ) ≤ z := Rat.floor_le z
  have h2 : z < ((Rat.floor z : ℤ) : ℚ) + 1 := by
    exact Int.lt_floor_add_one z
  unfold roundHalfEven
  simp only []
  split_ifs with ha hb hc
  · rw [abs_le]; constructor <;> linarith
  · push_cast; rw [abs_le]; constructor <;> linarith
  · rw [abs_le]; constructor <;> linarith
  · push_cast; rw [abs_le]; constructor <;> linarith

theorem rnd53_relRound : RelRound (1 / 9007199254740992 : ℚ) rnd53 := by
  intro x
  unfold rnd53
  simp only []
  split_ifs with h
  · obtain ⟨hpos, hle⟩ := h
    rw [fabs_eq] at hle
    unfold rndAt
    set p := pow2 (ilog2 x - 52) with hp
    have hz := roundHalfEven_error (x / p)
    set r : ℚ := ((roundHalfEven (x / p) : ℤ) : ℚ) with hrdef
    have e : r * p - x = (r - x / p) * p := by field_simp
    rw [e, abs_mul, abs_of_pos hpos]
    have : |r - x / p| * p ≤ 1 / 2 * p := mul_le_mul_of_nonneg_right hz hpos.le
    linarith
  · rw [sub_self, abs_zero]
    exact mul_nonneg (by norm_num) (abs_nonneg x)

/-! ### the decided hypotheses -/

theorem sepRb_iff (u atol : ℚ) (poly : List (ℚ × ℚ)) : sepRb u atol poly = true ↔ SepR u atol poly := by
  unfold sepRb SepR
  rw [List.all_eq_true]
  apply forall₂_congr
  intro e _
  unfold sepEdgeRb SepEdgeR
  simp only [Bool.and_eq_true, Bool.or_eq_true, decide_eq_true_eq, fabs_eq]

theorem gapRb_iff (u : ℚ) (poly : List (ℚ × ℚ)) (pt : ℚ × ℚ) : gapRb u poly pt = true ↔ GapR u poly pt := by
  unfold gapRb GapR
  rw [List.all_eq_true]
  apply forall₂_congr
  intro e _
  unfold gapEdgeRb GapEdgeR errX
  simp only [Bool.or_eq_true, Bool.not_eq_true', decide_eq_true_eq, fabs_eq]
  cases straddle pt.2 e.1 e.2 <;> simp

theorem rectb_iff (poly : List (ℚ × ℚ)) : rectb poly = true ↔ Rectilinear poly := by
  unfold rectb Rectilinear
  rw [List.all_eq_true]
  apply forall₂_congr
  intro e _
  simp only [Bool.or_eq_true, decide_eq_true_eq]

theorem repb_iff (poly : List (ℚ × ℚ)) : repb poly = true ↔ ∀ v ∈ poly, rnd53 v.1 = v.1 := by
  unfold repb
  rw [List.all_eq_true]
  apply forall₂_congr
  intro e _
  simp only [decide_eq_true_eq]

end HydroVerif.C15
