/-
C03 — helper lemmas, part 2: refinement from the list model of `c_crps` (Model/C03.lean) to the
index-function identity of `Lemmas/C03Energy.lean`, loop invariants, algebra of the reliability table.
-/
import HydroVerif.Model.C03
import HydroVerif.Lemmas.C03Energy
import Mathlib.Algebra.BigOperators.Group.List.Basic
import Mathlib.Algebra.Order.BigOperators.Group.List
import Mathlib.Data.List.Perm.Basic
import Mathlib.Tactic.Positivity
import Mathlib.Tactic.LinearCombination
import Mathlib.Algebra.BigOperators.Field

set_option linter.unusedSectionVars false
namespace HydroVerif.C03
open Finset
variable {α : Type} [Field α] [LinearOrder α] [IsStrictOrderedRing α]

/-! ### elementary facts about the model's primitives -/

theorem absv_eq (d : α) : absv d = |d| := by
  unfold absv
  split_ifs with h
  · rw [abs_of_neg h]; ring
  · rw [abs_of_nonneg (not_lt.mp h)]

theorem sq_eq (x : α) : sq x = x ^ 2 := by unfold sq; ring

/-- the three `if`s of one bin add the clipped pieces -/
theorem binStep_eq (w y l r : α) (ab : α × α) (h : l ≤ r) :
    binStep w y l r ab = (ab.1 + (clipv y l r - l) * w, ab.2 + (r - clipv y l r) * w) := by
  unfold binStep clipv
  by_cases h1 : y < l
  · have h2 : ¬ r ≤ y := by intro h'; linarith
    have h3 : ¬ (l < y ∧ y < r) := by intro h'; linarith [h'.1]
    simp [h1, h1.le, h2, h3]
  · by_cases h2 : r < y
    · have h3 : ¬ y ≤ l := by intro h'; linarith
      have h4 : ¬ (l < y ∧ y < r) := by intro h'; linarith [h'.2]
      simp [h1, h2, h2.le, h3, h4]
    · push Not at h1 h2
      by_cases h3 : l < y ∧ y < r
      · have h4 : ¬ y ≤ l := not_le.mpr h3.1
        have h5 : ¬ r ≤ y := not_le.mpr h3.2
        simp [not_lt.mpr h1, not_lt.mpr h2, h3, h4, h5]
      · have h6 : y = l ∨ y = r := by
          by_contra hc
          push Not at hc
          exact h3 ⟨lt_of_le_of_ne h1 (Ne.symm hc.1), lt_of_le_of_ne h2 hc.2⟩
        rcases h6 with rfl | rfl
        · by_cases h7 : r ≤ y
          · have : r = y := le_antisymm h7 h
            subst this; simp
          · simp [h7, not_lt.mpr h2]
        · by_cases h7 : y ≤ l
          · have : y = l := le_antisymm h7 h
            subst this; simp
          · simp [h7, not_lt.mpr h1]

theorem unsortedAt_false : ∀ (e : List α), e.Pairwise (· ≤ ·) → unsortedAt e = false
  | [], _ => rfl
  | [_], _ => rfl
  | l :: r :: es, h => by
    have hlr : l ≤ r := List.rel_of_pairwise_cons h List.mem_cons_self
    simp [unsortedAt, not_lt.mpr hlr, unsortedAt_false (r :: es) h.tail]

/-! ### a sorted list as a globally monotone index function -/

/-- `e[j]`, clamped to the last member beyond the end -/
def ext (e : List α) (j : ℕ) : α := e.getD (min j (e.length - 1)) 0

theorem ext_zero (l : α) (t : List α) : ext (l :: t) 0 = l := by simp [ext]

theorem ext_cons (l r : α) (es : List α) (j : ℕ) : ext (l :: r :: es) (j + 1) = ext (r :: es) j := by
  unfold ext
  have : min (j + 1) ((l :: r :: es).length - 1) = min j ((r :: es).length - 1) + 1 := by
    simp only [List.length_cons]; omega
  rw [this, List.getD_cons_succ]

theorem ext_single (l : α) (j : ℕ) : ext [l] j = l := by simp [ext]

theorem ext_mono : ∀ (e : List α), e.Pairwise (· ≤ ·) → ∀ j, ext e j ≤ ext e (j + 1)
  | [], _, j => by simp [ext]
  | [l], _, j => by simp [ext_single]
  | l :: r :: es, h, 0 => by
    rw [ext_zero, ext_cons, ext_zero]
    exact List.rel_of_pairwise_cons h List.mem_cons_self
  | l :: r :: es, h, j + 1 => by
    rw [ext_cons, ext_cons]
    exact ext_mono (r :: es) h.tail j

theorem sum_ext {β : Type} [AddCommMonoid β] (f : α → β) :
    ∀ e : List α, ∑ i ∈ range e.length, f (ext e i) = (e.map f).sum
  | [] => by simp
  | [l] => by simp [ext_single]
  | l :: r :: es => by
    have ih := sum_ext f (r :: es)
    rw [List.length_cons, Finset.sum_range_succ', ext_zero]
    simp only [ext_cons]
    rw [ih]
    simp [add_comm]

theorem ext_head {e : List α} {f : α} (h : e.head? = some f) : ext e 0 = f := by
  cases e with
  | nil => simp at h
  | cons a t => simp at h; rw [ext_zero, h]

theorem ext_last {e : List α} {l : α} (h : e.getLast? = some l) : ext e (e.length - 1) = l := by
  unfold ext
  rw [List.getLast?_eq_getElem?] at h
  rw [Nat.min_self, List.getD_eq_getElem?_getD, h]
  rfl

/-! ### the Hersbach sum of one forecast on lists -/

/-- `Σ_j α_j p_j² + β_j (1-p_j)²` over the inner bins of one forecast, bins numbered from `k`, `p_j = j/M` -/
def hsum (M : ℕ) (y : α) : ℕ → List α → α
  | k, l :: r :: es =>
    (clipv y l r - l) * sq ((k : α) / M) + (r - clipv y l r) * sq (1 - (k : α) / M) + hsum M y (k + 1) (r :: es)
  | _, _ => 0

/-- the same functional on the accumulated `(a[j], b[j])` -/
def wsum (M : ℕ) : ℕ → List (α × α) → α
  | _, [] => 0
  | k, ab :: t => ab.1 * sq ((k : α) / M) + ab.2 * sq (1 - (k : α) / M) + wsum M (k + 1) t

theorem wsum_binsStep (M : ℕ) (w y : α) :
    ∀ (e : List α) (ab : List (α × α)) (k : ℕ), e.Pairwise (· ≤ ·) → ab.length + 1 = e.length →
      wsum M k (binsStep w y e ab) = wsum M k ab + hsum M y k e * w
  | [], ab, k, _, hl => by simp at hl
  | [l], ab, k, _, hl => by
    have : ab = [] := List.eq_nil_of_length_eq_zero (by simpa using hl)
    subst this; simp [binsStep, wsum, hsum]
  | l :: r :: es, [], k, _, hl => by simp at hl
  | l :: r :: es, p :: rest, k, hs, hl => by
    have hlr : l ≤ r := List.rel_of_pairwise_cons hs List.mem_cons_self
    have ih := wsum_binsStep M w y (r :: es) rest (k + 1) hs.tail (by simpa using hl)
    simp only [binsStep, wsum, hsum, binStep_eq w y l r p hlr, ih]
    ring

theorem hsum_eq_finset (M : ℕ) (y : α) :
    ∀ (e : List α) (k : ℕ), hsum M y k e =
      ∑ j ∈ range (e.length - 1),
        (Apc (ext e) y j * sq (((k + j : ℕ) : α) / M) + Bpc (ext e) y j * sq (1 - ((k + j : ℕ) : α) / M))
  | [], k => by simp [hsum]
  | [l], k => by simp [hsum]
  | l :: r :: es, k => by
    have ih := hsum_eq_finset M y (r :: es) (k + 1)
    have hlen : (l :: r :: es).length - 1 = ((r :: es).length - 1) + 1 := by simp
    rw [hlen, Finset.sum_range_succ', hsum, ih]
    simp only [Apc, Bpc, ext_cons, ext_zero, Nat.add_zero]
    have : ∀ j, k + 1 + j = k + (j + 1) := by intro j; omega
    simp only [this]
    ring

/-- energy form of the CRPS of one forecast, `E|X-y| - ½ E|X-X'|` over the empirical distribution of the
members `row` (for one member: `|x-y|`) -/
def energy (y : α) (row : List α) : α :=
  (row.map fun x => |x - y|).sum / (row.length : α)
    - (row.map fun a => (row.map fun b => |b - a|).sum).sum / (2 * (row.length : α) ^ 2)

/-- what one forecast with sorted ensemble `e` contributes to `crps_decompos[0]` (before the weight):
`β_0 + α_N + Σ_j α_j p_j² + β_j (1-p_j)²` -/
def hers (y : α) (e : List α) : α :=
  (max y (ext e 0) - y) + (y - min y (ext e (e.length - 1))) + hsum e.length y 1 e

theorem hers_eq_energy (y : α) (e : List α) (hs : e.Pairwise (· ≤ ·)) (hne : e ≠ []) :
    hers y e = energy y e := by
  have hm : 1 ≤ e.length := List.length_pos_iff.mpr hne
  have hm0 : (e.length : α) ≠ 0 := by
    have : (0 : α) < e.length := by exact_mod_cast hm
    exact ne_of_gt this
  have key := hersbach_eq_energy (ext e) y e.length hm (ext_mono e hs)
  have h1 : ∑ i ∈ range e.length, |ext e i - y| = (e.map fun x => |x - y|).sum :=
    sum_ext (fun x => |x - y|) e
  have h2 : ∑ k ∈ range e.length, ∑ i ∈ range e.length, |ext e i - ext e k|
      = (e.map fun a => (e.map fun b => |b - a|).sum).sum := by
    rw [← sum_ext (fun a => (e.map fun b => |b - a|).sum) e]
    apply Finset.sum_congr rfl
    intro k _
    exact sum_ext (fun b => |b - ext e k|) e
  rw [h1, h2] at key
  unfold hers energy
  rw [hsum_eq_finset]
  have hterm : ∀ j ∈ range (e.length - 1),
      Apc (ext e) y j * sq (((1 + j : ℕ) : α) / e.length)
        + Bpc (ext e) y j * sq (1 - ((1 + j : ℕ) : α) / e.length)
      = (((j : α) + 1) ^ 2 * Apc (ext e) y j + ((e.length : α) - 1 - j) ^ 2 * Bpc (ext e) y j)
          / (e.length : α) ^ 2 := by
    intro j _
    unfold sq
    push_cast
    field_simp
    ring
  rw [Finset.sum_congr rfl hterm, ← Finset.sum_div]
  unfold b0 aN at key
  field_simp
  linear_combination 2 * key

theorem energy_perm (y : α) {e row : List α} (h : e.Perm row) : energy y e = energy y row := by
  unfold energy
  have h1 : (e.map fun x => |x - y|).sum = (row.map fun x => |x - y|).sum := (h.map _).sum_eq
  have h2 : (fun a => (e.map fun b => |b - a|).sum) = fun a => (row.map fun b => |b - a|).sum := by
    funext a; exact (h.map _).sum_eq
  have h3 : (e.map fun a => (e.map fun b => |b - a|).sum).sum
      = (row.map fun a => (row.map fun b => |b - a|).sum).sum := by
    rw [h2]; exact (h.map _).sum_eq
  rw [h1, h3, h.length_eq]

/-- one member: the absolute error -/
theorem energy_single (y x : α) : energy y [x] = |x - y| := by
  simp [energy]

/-! ### the forecast loop without its error exits -/

/-- what is assumed of `qsort` -/
def SortOK (sort : List α → List α) : Prop := ∀ l, (sort l).Pairwise (· ≤ ·) ∧ (sort l).Perm l

/-- `step` with first and last member read off the sorted ensemble -/
def stepE (w : α) (prev : List α) (y : α) (e : List α) (s : Acc α) : Acc α :=
  step w prev y e (ext e 0) (ext e (e.length - 1)) s

def pureLoop (sort : List α → List α) (w : α) : List α → List (α × List α) → Acc α → Acc α
  | _, [], s => s
  | prev, (y, row) :: rest, s => pureLoop sort w (prev ++ [y]) rest (stepE w prev y (sort row) s)

theorem head?_ext {e : List α} (hne : e ≠ []) : e.head? = some (ext e 0) := by
  cases e with
  | nil => exact absurd rfl hne
  | cons a t => simp [ext_zero]

theorem getLast?_ext {e : List α} (hne : e ≠ []) : e.getLast? = some (ext e (e.length - 1)) := by
  have hpos : 0 < e.length := List.length_pos_iff.mpr hne
  unfold ext
  rw [List.getLast?_eq_getElem?, Nat.min_self, List.getD_eq_getElem?_getD,
    List.getElem?_eq_getElem (by omega)]
  rfl

theorem loop_eq_pure {sort : List α → List α} (hsort : SortOK sort) (w : α) :
    ∀ (F : List (α × List α)) (prev : List α) (s : Acc α), (∀ p ∈ F, p.2 ≠ []) →
      loop sort w prev F s = .ok (pureLoop sort w prev F s)
  | [], prev, s, _ => rfl
  | (y, row) :: rest, prev, s, h => by
    have hrow : row ≠ [] := h (y, row) List.mem_cons_self
    have hne : sort row ≠ [] := by
      intro h0
      have := (hsort row).2.length_eq
      rw [h0] at this
      exact hrow (List.eq_nil_of_length_eq_zero this.symm)
    unfold loop
    simp only [unsortedAt_false _ (hsort row).1, head?_ext hne, getLast?_ext hne, pureLoop, stepE]
    exact loop_eq_pure hsort w rest _ _ (fun p hp => h p (List.mem_cons_of_mem _ hp))

/-- induction principle for the loop: `done` are the forecasts already processed -/
theorem pureLoop_inv (sort : List α → List α) (w : α) (M : ℕ) (P : List (α × List α) → Acc α → Prop)
    (hstep : ∀ done y row s, row.length = M → P done s →
      P (done ++ [(y, row)]) (stepE w (done.map Prod.fst) y (sort row) s)) :
    ∀ (F done : List (α × List α)) (s : Acc α), (∀ p ∈ F, p.2.length = M) → P done s →
      P (done ++ F) (pureLoop sort w (done.map Prod.fst) F s)
  | [], done, s, _, h => by simpa [pureLoop] using h
  | (y, row) :: rest, done, s, hF, h => by
    have h1 := hstep done y row s (hF (y, row) List.mem_cons_self) h
    have h2 := pureLoop_inv sort w M P hstep rest (done ++ [(y, row)]) _
      (fun p hp => hF p (List.mem_cons_of_mem _ hp)) h1
    simpa [pureLoop] using h2

/-! ### invariants of the forecast loop -/

theorem clipv_mem (y l r : α) (h : l ≤ r) : l ≤ clipv y l r ∧ clipv y l r ≤ r := by
  unfold clipv
  split_ifs with h1 h2
  · exact ⟨le_refl _, h⟩
  · exact ⟨h, le_refl _⟩
  · exact ⟨not_lt.mp h1, not_lt.mp h2⟩

theorem binsStep_length (w y : α) : ∀ (e : List α) (ab : List (α × α)), (binsStep w y e ab).length = ab.length
  | [], ab => by simp [binsStep]
  | [_], ab => by simp [binsStep]
  | _ :: _ :: _, [] => by simp [binsStep]
  | l :: r :: es, p :: rest => by simp [binsStep, binsStep_length w y (r :: es) rest]

theorem binsStep_nonneg (w y : α) (hw : 0 ≤ w) :
    ∀ (e : List α) (ab : List (α × α)), e.Pairwise (· ≤ ·) → (∀ p ∈ ab, 0 ≤ p.1 ∧ 0 ≤ p.2) →
      ∀ p ∈ binsStep w y e ab, 0 ≤ p.1 ∧ 0 ≤ p.2
  | [], ab, _, h => by simpa [binsStep] using h
  | [_], ab, _, h => by simpa [binsStep] using h
  | _ :: _ :: _, [], _, h => by simp [binsStep]
  | l :: r :: es, q :: rest, hs, h => by
    have hlr : l ≤ r := List.rel_of_pairwise_cons hs List.mem_cons_self
    have hq := h q List.mem_cons_self
    have hc := clipv_mem y l r hlr
    have ih := binsStep_nonneg w y hw (r :: es) rest hs.tail (fun p hp => h p (List.mem_cons_of_mem _ hp))
    intro p hp
    simp only [binsStep, List.mem_cons] at hp
    rcases hp with rfl | hp
    · rw [binStep_eq w y l r q hlr]
      constructor
      · have : 0 ≤ (clipv y l r - l) * w := mul_nonneg (by linarith [hc.1]) hw
        simp only; linarith [hq.1]
      · have : 0 ≤ (r - clipv y l r) * w := mul_nonneg (by linarith [hc.2]) hw
        simp only; linarith [hq.2]
    · exact ih p hp

/-- `Σ_k Σ_l |y_k - y_l|` -/
def dsum (l : List α) : α := (l.map fun a => (l.map fun b => |b - a|).sum).sum

theorem dsum_append_single (p : List α) (y : α) :
    dsum (p ++ [y]) = dsum p + 2 * (p.map fun k => |k - y|).sum := by
  unfold dsum
  simp only [List.map_append, List.sum_append, List.map_cons, List.map_nil, List.sum_cons, List.sum_nil,
    sub_self, abs_zero, add_zero]
  have h1 : (p.map fun a => (p.map fun b => |b - a|).sum + |y - a|).sum
      = (p.map fun a => (p.map fun b => |b - a|).sum).sum + (p.map fun a => |y - a|).sum :=
    List.sum_map_add
  have h2 : (p.map fun a => |y - a|) = p.map fun k => |k - y| := by
    apply List.map_congr_left; intro a _; exact abs_sub_comm y a
  rw [h1, h2]; ring

theorem uncStep_eq (w y : α) : ∀ (prev : List α) (u : α),
    uncStep w y prev u = u + w * w * (prev.map fun k => |k - y|).sum
  | [], u => by simp [uncStep]
  | k :: t, u => by
    have ih := uncStep_eq w y t (u + w * w * absv (k - y))
    unfold uncStep at ih ⊢
    rw [List.foldl_cons, ih, absv_eq]
    simp only [List.map_cons, List.sum_cons]; ring

/-- the linear functional that `finish` applies to the state to obtain `crps_decompos[0]` -/
def crpsOf (M : ℕ) (s : Acc α) : α := s.b0 + s.aN + wsum M 1 s.ab

theorem crpsOf_stepE (M : ℕ) (w : α) (prev : List α) (y : α) (e : List α) (s : Acc α)
    (hs : e.Pairwise (· ≤ ·)) (hl : s.ab.length + 1 = e.length) (hM : e.length = M) :
    crpsOf M (stepE w prev y e s) = crpsOf M s + hers y e * w := by
  unfold crpsOf stepE step hers
  simp only
  rw [wsum_binsStep M w y e s.ab 1 hs hl, hM]
  have hb : (if y < ext e 0 then s.b0 + (ext e 0 - y) * w else s.b0)
      = s.b0 + (max y (ext e 0) - y) * w := by
    split_ifs with h
    · rw [max_eq_right h.le]
    · rw [max_eq_left (not_lt.mp h)]; ring
  have ha : (if ext e (M - 1) ≤ y then s.aN + (y - ext e (M - 1)) * w else s.aN)
      = s.aN + (y - min y (ext e (M - 1))) * w := by
    split_ifs with h
    · rw [min_eq_right h]
    · rw [min_eq_left (not_le.mp h).le]; ring
  rw [hb, ha]; ring

/-- everything the theorems need to know about the state after the forecasts `done` -/
structure Inv (w : α) (M : ℕ) (done : List (α × List α)) (s : Acc α) : Prop where
  len : s.ab.length + 1 = M
  crps : crpsOf M s = (done.map fun p => energy p.1 p.2).sum * w
  unc : 2 * s.unc = w * w * dsum (done.map Prod.fst)
  ab_nonneg : ∀ p ∈ s.ab, 0 ≤ p.1 ∧ 0 ≤ p.2
  b0_nonneg : 0 ≤ s.b0
  aN_nonneg : 0 ≤ s.aN
  o0_nonneg : 0 ≤ s.o0
  o0_le : s.o0 ≤ done.length * w
  oN_nonneg : 0 ≤ s.oN
  oN_le : s.oN ≤ done.length * w
  o0_zero : s.o0 = 0 → s.b0 = 0
  oN_full : s.oN = done.length * w → s.aN = 0

theorem wsum_replicate_zero (M : ℕ) : ∀ (n k : ℕ), wsum M k (List.replicate n ((0 : α), (0 : α))) = 0
  | 0, k => by simp [wsum]
  | n + 1, k => by simp [List.replicate_succ, wsum, wsum_replicate_zero M n (k + 1)]

theorem Inv_init (w : α) (M : ℕ) (hM : 1 ≤ M) : Inv w M [] (init M : Acc α) := by
  refine ⟨?_, ?_, ?_, ?_, ?_, ?_, ?_, ?_, ?_, ?_, ?_, ?_⟩ <;> simp [init, crpsOf, wsum_replicate_zero, dsum]
  omega

theorem Inv_step {sort : List α → List α} (hsort : SortOK sort) (w : α) (hw : 0 < w) (M : ℕ) (hM : 1 ≤ M)
    (done : List (α × List α)) (y : α) (row : List α) (s : Acc α) (hrow : row.length = M)
    (h : Inv w M done s) :
    Inv w M (done ++ [(y, row)]) (stepE w (done.map Prod.fst) y (sort row) s) := by
  have hs := (hsort row).1
  have hp := (hsort row).2
  have hlen : (sort row).length = M := by rw [hp.length_eq, hrow]
  have hne : sort row ≠ [] := by
    intro h0; rw [h0] at hlen; simp at hlen; omega
  have hcast : (((done ++ [(y, row)]).length : ℕ) : α) = (done.length : α) * 1 + 1 := by
    simp
  refine ⟨?_, ?_, ?_, ?_, ?_, ?_, ?_, ?_, ?_, ?_, ?_, ?_⟩
  · simp only [stepE, step, binsStep_length]; exact h.len
  · rw [crpsOf_stepE M w _ y (sort row) s hs (by rw [hlen]; exact h.len) hlen, h.crps,
      hers_eq_energy y _ hs hne, energy_perm y hp]
    simp only [List.map_append, List.sum_append, List.map_cons, List.map_nil, List.sum_cons, List.sum_nil]
    ring
  · simp only [stepE, step, List.map_append, List.map_cons, List.map_nil]
    rw [uncStep_eq, dsum_append_single]
    linear_combination h.unc
  · simp only [stepE, step]
    exact binsStep_nonneg w y hw.le _ _ hs h.ab_nonneg
  · simp only [stepE, step]
    split_ifs with hc
    · have : 0 ≤ (ext (sort row) 0 - y) * w := mul_nonneg (by linarith) hw.le
      linarith [h.b0_nonneg]
    · exact h.b0_nonneg
  · simp only [stepE, step]
    split_ifs with hc
    · have : 0 ≤ (y - ext (sort row) ((sort row).length - 1)) * w := mul_nonneg (by linarith) hw.le
      linarith [h.aN_nonneg]
    · exact h.aN_nonneg
  · simp only [stepE, step]
    split_ifs <;> linarith [h.o0_nonneg]
  · simp only [stepE, step]
    rw [hcast]
    split_ifs <;> nlinarith [h.o0_le]
  · simp only [stepE, step]
    split_ifs <;> linarith [h.oN_nonneg]
  · simp only [stepE, step]
    rw [hcast]
    split_ifs <;> nlinarith [h.oN_le]
  · simp only [stepE, step]
    split_ifs with hc
    · intro h0; linarith [h.o0_nonneg]
    · exact h.o0_zero
  · simp only [stepE, step]
    rw [hcast]
    by_cases hc : y < ext (sort row) ((sort row).length - 1)
    · rw [if_pos hc, if_neg (not_le.mpr hc)]
      intro h0
      exact h.oN_full (by linarith)
    · rw [if_neg hc]
      intro h0
      have := h.oN_le
      nlinarith

/-! ### the reliability table and the totals (c_crps.c:169-216) -/

/-- the term row `j` adds to `crps_decompos[0]` -/
def crpsTerm (r : Row α) : α := r.a * sq r.p + r.b * sq (1 - r.p)

theorem accRow_crps (t : Tot α) (r : Row α) : (accRow t r).crps = t.crps + crpsTerm r := by
  unfold accRow crpsTerm; split_ifs <;> rfl

theorem foldl_accRow_crps : ∀ (rows : List (Row α)) (t : Tot α),
    (rows.foldl accRow t).crps = t.crps + (rows.map crpsTerm).sum
  | [], t => by simp
  | r :: rows, t => by
    rw [List.foldl_cons, foldl_accRow_crps rows]
    rw [accRow_crps]; simp only [List.map_cons, List.sum_cons]; ring

/-- a row whose reliability and potential parts add up to its CRPS part (zero when the row is skipped) -/
def GoodRow (r : Row α) : Prop :=
  (0 < r.g → ∃ rr cc, r.r = some rr ∧ r.c = some cc ∧ crpsTerm r = rr + cc ∧ 0 ≤ rr ∧ 0 ≤ cc) ∧
  (¬ 0 < r.g → crpsTerm r = 0)

theorem foldl_accRow_good : ∀ (rows : List (Row α)) (t : Tot α), (∀ r ∈ rows, GoodRow r) →
    (∃ x z, t.reli = some x ∧ t.pot = some z ∧ t.crps = x + z ∧ 0 ≤ x ∧ 0 ≤ z) →
    ∃ x z, (rows.foldl accRow t).reli = some x ∧ (rows.foldl accRow t).pot = some z ∧
      (rows.foldl accRow t).crps = x + z ∧ 0 ≤ x ∧ 0 ≤ z
  | [], t, _, h => by simpa using h
  | r :: rows, t, hg, h => by
    rw [List.foldl_cons]
    apply foldl_accRow_good rows _ (fun r' hr' => hg r' (List.mem_cons_of_mem _ hr'))
    obtain ⟨x, z, hx, hz, hc, hx0, hz0⟩ := h
    have hr := hg r List.mem_cons_self
    by_cases hpos : 0 < r.g
    · obtain ⟨rr, cc, h1, h2, h3, h4, h5⟩ := hr.1 hpos
      refine ⟨x + rr, z + cc, ?_, ?_, ?_, by linarith, by linarith⟩
      · simp [accRow, hpos, hx, h1]
      · simp [accRow, hpos, hz, h2]
      · rw [accRow_crps, hc, h3]; ring
    · refine ⟨x, z, ?_, ?_, ?_, hx0, hz0⟩
      · simp [accRow, hpos, hx]
      · simp [accRow, hpos, hz]
      · rw [accRow_crps, hc, hr.2 hpos]; ring

theorem goodRow_mid (M j : ℕ) (ab : α × α) (ha : 0 ≤ ab.1) (hb : 0 ≤ ab.2) : GoodRow (rowMid M j ab) := by
  obtain ⟨a, b⟩ := ab
  simp only at ha hb
  constructor
  · intro hpos
    have hg : 0 < a + b := by simpa [rowMid, mkRow] using hpos
    have hg0 : a + b ≠ 0 := ne_of_gt hg
    refine ⟨(a + b) * sq (b / (a + b) - (j : α) / M), (a + b) * (b / (a + b)) * (1 - b / (a + b)), ?_, ?_, ?_, ?_, ?_⟩
    · simp [rowMid, mkRow, hg0]
    · simp [rowMid, mkRow, hg0]
    · simp only [crpsTerm, rowMid, mkRow, sq]
      field_simp
      ring
    · exact mul_nonneg hg.le (by unfold sq; exact mul_self_nonneg _)
    · have : (a + b) * (b / (a + b)) * (1 - b / (a + b)) = b * a / (a + b) := by
        field_simp; ring
      rw [this]
      exact div_nonneg (mul_nonneg hb ha) hg.le
  · intro hneg
    have hg : ¬ 0 < a + b := by simpa [rowMid, mkRow] using hneg
    have ha0 : a = 0 := by linarith [not_lt.mp hg]
    have hb0 : b = 0 := by linarith [not_lt.mp hg]
    simp [crpsTerm, rowMid, mkRow, ha0, hb0]

theorem goodRow_zero (M : ℕ) (s : Acc α) (hb : 0 ≤ s.b0) (ho : 0 ≤ s.o0) (ho1 : s.o0 ≤ 1)
    (hz : s.o0 = 0 → s.b0 = 0) : GoodRow (row0 M s) := by
  have hterm : crpsTerm (row0 M s) = s.b0 := by simp [crpsTerm, row0, mkRow, sq]
  constructor
  · intro hpos
    by_cases h0 : s.o0 = 0
    · simp [row0, mkRow, h0] at hpos
    · have hg : (row0 M s).g = s.b0 / s.o0 := by simp [row0, mkRow, h0]
      rw [hg] at hpos
      refine ⟨s.b0 / s.o0 * sq (s.o0 - ((0 : ℕ) : α) / M), s.b0 / s.o0 * s.o0 * (1 - s.o0), ?_, ?_, ?_, ?_, ?_⟩
      · simp [row0, mkRow, h0]
      · simp [row0, mkRow, h0]
      · rw [hterm]; unfold sq; simp only [Nat.cast_zero, zero_div, sub_zero]; field_simp; ring
      · exact mul_nonneg hpos.le (by unfold sq; exact mul_self_nonneg _)
      · exact mul_nonneg (mul_nonneg hpos.le ho) (by linarith)
  · intro hneg
    rw [hterm]
    by_cases h0 : s.o0 = 0
    · exact hz h0
    · have hg : (row0 M s).g = s.b0 / s.o0 := by simp [row0, mkRow, h0]
      rw [hg] at hneg
      have hpos : 0 < s.o0 := lt_of_le_of_ne ho (Ne.symm h0)
      by_contra hne
      exact hneg (div_pos (lt_of_le_of_ne hb (Ne.symm hne)) hpos)

theorem goodRow_last (M : ℕ) (hM : 1 ≤ M) (s : Acc α) (ha : 0 ≤ s.aN) (ho : 0 ≤ s.oN) (ho1 : s.oN ≤ 1)
    (hz : s.oN = 1 → s.aN = 0) : GoodRow (rowN M s) := by
  have hM0 : (M : α) ≠ 0 := by
    have : (0 : α) < M := by exact_mod_cast hM
    exact ne_of_gt this
  have hp : (M : α) / M = 1 := div_self hM0
  have hterm : crpsTerm (rowN M s) = s.aN := by simp [crpsTerm, rowN, mkRow, sq, hp]
  constructor
  · intro hpos
    by_cases h1 : s.oN = 1
    · simp [rowN, mkRow, h1] at hpos
    · have hg : (rowN M s).g = s.aN / (1 - s.oN) := by simp [rowN, mkRow, h1]
      rw [hg] at hpos
      have hd : 1 - s.oN ≠ 0 := fun h => h1 (by linarith)
      refine ⟨s.aN / (1 - s.oN) * sq (s.oN - (M : α) / M), s.aN / (1 - s.oN) * s.oN * (1 - s.oN), ?_, ?_, ?_, ?_, ?_⟩
      · simp [rowN, mkRow, h1]
      · simp [rowN, mkRow, h1]
      · rw [hterm, hp]; unfold sq; field_simp; ring
      · exact mul_nonneg hpos.le (by unfold sq; exact mul_self_nonneg _)
      · exact mul_nonneg (mul_nonneg hpos.le ho) (by linarith)
  · intro hneg
    rw [hterm]
    by_cases h1 : s.oN = 1
    · exact hz h1
    · have hg : (rowN M s).g = s.aN / (1 - s.oN) := by simp [rowN, mkRow, h1]
      rw [hg] at hneg
      have hpos : 0 < 1 - s.oN := by
        have : s.oN < 1 := lt_of_le_of_ne ho1 h1
        linarith
      by_contra hne
      exact hneg (div_pos (lt_of_le_of_ne ha (Ne.symm hne)) hpos)

theorem goodRow_mids (M : ℕ) : ∀ (ab : List (α × α)) (k : ℕ), (∀ p ∈ ab, 0 ≤ p.1 ∧ 0 ≤ p.2) →
    ∀ r ∈ mids M k ab, GoodRow r
  | [], k, _ => by simp [mids]
  | q :: t, k, h => by
    intro r hr
    simp only [mids, List.mem_cons] at hr
    rcases hr with rfl | hr
    · exact goodRow_mid M k q (h q List.mem_cons_self).1 (h q List.mem_cons_self).2
    · exact goodRow_mids M t (k + 1) (fun p hp => h p (List.mem_cons_of_mem _ hp)) r hr

theorem sum_crpsTerm_mids (M : ℕ) : ∀ (ab : List (α × α)) (k : ℕ),
    ((mids M k ab).map crpsTerm).sum = wsum M k ab
  | [], k => by simp [mids, wsum]
  | q :: t, k => by
    simp only [mids, List.map_cons, List.sum_cons, wsum, sum_crpsTerm_mids M t (k + 1)]
    simp [crpsTerm, rowMid, mkRow]

theorem finishCore_crps (M : ℕ) (hM : 1 ≤ M) (s : Acc α) : (finishCore M s).crps = crpsOf M s := by
  have hM0 : (M : α) ≠ 0 := by
    have : (0 : α) < M := by exact_mod_cast hM
    exact ne_of_gt this
  unfold finishCore
  simp only
  rw [foldl_accRow_crps]
  simp only [table, List.map_cons, List.map_append, List.map_nil, List.sum_cons, List.sum_append, List.sum_nil,
    sum_crpsTerm_mids]
  have h0 : crpsTerm (row0 M s) = s.b0 := by simp [crpsTerm, row0, mkRow, sq]
  have hN : crpsTerm (rowN M s) = s.aN := by simp [crpsTerm, rowN, mkRow, sq, div_self hM0]
  rw [h0, hN]; unfold crpsOf; ring

/-- the decomposition facts, from the loop invariant at the end of the loop -/
theorem finishCore_good (w : α) (M : ℕ) (hM : 1 ≤ M) (done : List (α × List α)) (s : Acc α)
    (h : Inv w M done s) (hn : (done.length : α) * w = 1) :
    ∃ reli pot, (finishCore M s).reli = some reli ∧ (finishCore M s).pot = some pot ∧
      (finishCore M s).resol = some (s.unc - pot) ∧ (finishCore M s).crps = reli + pot ∧ 0 ≤ reli ∧ 0 ≤ pot := by
  have hrows : ∀ r ∈ table M s, GoodRow r := by
    intro r hr
    simp only [table, List.mem_cons, List.mem_append, List.mem_nil_iff, or_false] at hr
    rcases hr with rfl | hr | rfl
    · exact goodRow_zero M s h.b0_nonneg h.o0_nonneg (by rw [← hn]; exact h.o0_le) h.o0_zero
    · exact goodRow_mids M s.ab 1 h.ab_nonneg r hr
    · exact goodRow_last M hM s h.aN_nonneg h.oN_nonneg (by rw [← hn]; exact h.oN_le)
        (fun h1 => h.oN_full (by rw [hn]; exact h1))
  obtain ⟨x, z, h1, h2, h3, h4, h5⟩ := foldl_accRow_good (table M s)
    ({ crps := 0, reli := some 0, pot := some 0 } : Tot α) hrows ⟨0, 0, rfl, rfl, by simp, le_refl _, le_refl _⟩
  refine ⟨x, z, ?_, ?_, ?_, ?_, h4, h5⟩
  · simpa [finishCore] using h1
  · simpa [finishCore] using h2
  · simp only [finishCore]; rw [h2]; rfl
  · simpa [finishCore] using h3

theorem clampFreq_of_le (s : Acc α) (h0 : s.o0 ≤ 1) (hN : s.oN ≤ 1) : clampFreq s = s := by
  unfold clampFreq
  rw [if_neg (not_lt.mpr h0), if_neg (not_lt.mpr hN)]

theorem finish_crps (M : ℕ) (hM : 1 ≤ M) (s : Acc α) : (finish M s).crps = crpsOf M s := by
  unfold finish
  rw [finishCore_crps M hM]
  rfl

theorem finish_unc (M : ℕ) (s : Acc α) : (finish M s).unc = s.unc := rfl

/-- the decomposition facts, from the loop invariant at the end of the loop -/
theorem finish_good (w : α) (M : ℕ) (hM : 1 ≤ M) (done : List (α × List α)) (s : Acc α)
    (h : Inv w M done s) (hn : (done.length : α) * w = 1) :
    ∃ reli pot, (finish M s).reli = some reli ∧ (finish M s).pot = some pot ∧
      (finish M s).resol = some (s.unc - pot) ∧ (finish M s).crps = reli + pot ∧ 0 ≤ reli ∧ 0 ≤ pot := by
  unfold finish
  rw [clampFreq_of_le s (by rw [← hn]; exact h.o0_le) (by rw [← hn]; exact h.oN_le)]
  exact finishCore_good w M hM done s h hn

/-! ### the kernel as a whole -/

/-- shape conditions the Cython wrapper / the 2-D array type guarantee, plus `n ≥ 1`, `m ≥ 1` -/
structure Shape (m : ℕ) (obs : List α) (ens : List (List α)) : Prop where
  len : ens.length = obs.length
  m_pos : 1 ≤ m
  n_pos : 1 ≤ obs.length
  rows : ∀ r ∈ ens, r.length = m

/-- the state after the forecast loop -/
def finalAcc (sort : List α → List α) (m : ℕ) (obs : List α) (ens : List (List α)) : Acc α :=
  pureLoop sort (1 / (obs.length : α)) [] (obs.zip ens) (init m)

theorem kernel_eq {sort : List α → List α} (hsort : SortOK sort) {m : ℕ} {obs : List α} {ens : List (List α)}
    (h : Shape m obs ens) : kernel sort m obs ens = .ok (finish m (finalAcc sort m obs ens)) := by
  unfold kernel
  have h1 : ¬ (ens.length ≠ obs.length ∨ m = 0 ∨ (ens.any fun r => r.length != m) = true) := by
    intro hc
    rcases hc with hc | hc | hc
    · exact hc h.len
    · have := h.m_pos; omega
    · rw [List.any_eq_true] at hc
      obtain ⟨r, hr, hr2⟩ := hc
      simp [h.rows r hr] at hr2
  rw [if_neg h1]
  have hne : ∀ p ∈ obs.zip ens, p.2 ≠ [] := by
    intro p hp h0
    have := h.rows p.2 (List.of_mem_zip hp).2
    rw [h0] at this
    have := h.m_pos
    simp at *; omega
  simp only [loop_eq_pure hsort _ _ _ _ hne]
  rfl

theorem finalAcc_inv {sort : List α → List α} (hsort : SortOK sort) {m : ℕ} {obs : List α} {ens : List (List α)}
    (h : Shape m obs ens) : Inv (1 / (obs.length : α)) m (obs.zip ens) (finalAcc sort m obs ens) := by
  have hn : (0 : α) < obs.length := by exact_mod_cast h.n_pos
  have hw : (0 : α) < 1 / (obs.length : α) := by positivity
  have := pureLoop_inv sort (1 / (obs.length : α)) m (Inv (1 / (obs.length : α)) m)
    (fun done y row s hrow hi => Inv_step hsort _ hw m h.m_pos done y row s hrow hi)
    (obs.zip ens) [] (init m) (fun p hp => h.rows p.2 (List.of_mem_zip hp).2) (Inv_init _ m h.m_pos)
  simpa [finalAcc] using this

theorem zip_length_mul {m : ℕ} {obs : List α} {ens : List (List α)} (h : Shape m obs ens) :
    ((obs.zip ens).length : α) * (1 / (obs.length : α)) = 1 := by
  have hn : (0 : α) < obs.length := by exact_mod_cast h.n_pos
  rw [List.length_zip, h.len, Nat.min_self]
  field_simp

theorem zip_replicate_map {β γ : Type} (c : γ) : ∀ l : List β, l.zip (List.replicate l.length c) = l.map (·, c)
  | [] => rfl
  | a :: t => by simp [List.replicate_succ, zip_replicate_map c t]

theorem sum_map_affine (f : α → α) (c d : α) : ∀ l : List α,
    (l.map fun y => f y * c - d).sum = (l.map f).sum * c - l.length * d
  | [] => by simp
  | a :: t => by
    simp only [List.map_cons, List.sum_cons, sum_map_affine f c d t, List.length_cons]
    push_cast; ring

/-! ### invariance: order of members, order of forecasts -/

theorem sort_perm_eq {sort : List α → List α} (hsort : SortOK sort) {a b : List α} (h : a.Perm b) :
    sort a = sort b := by
  apply List.Perm.eq_of_pairwise (le := fun x y : α => x ≤ y)
    (fun x y _ _ hxy hyx => le_antisymm hxy hyx) (hsort a).1 (hsort b).1
  exact ((hsort a).2.trans h).trans (hsort b).2.symm

theorem pureLoop_congr (sort : List α → List α) (w : α) :
    ∀ (F F' : List (α × List α)) (prev : List α) (s : Acc α),
      (F.map fun p => (p.1, sort p.2)) = (F'.map fun p => (p.1, sort p.2)) →
      pureLoop sort w prev F s = pureLoop sort w prev F' s
  | [], [], _, _, _ => rfl
  | [], _ :: _, _, _, h => by simp at h
  | _ :: _, [], _, _, h => by simp at h
  | (y, row) :: F, (y', row') :: F', prev, s, h => by
    simp only [List.map_cons, List.cons.injEq, Prod.mk.injEq] at h
    obtain ⟨⟨rfl, hr⟩, ht⟩ := h
    simp only [pureLoop, hr]
    exact pureLoop_congr sort w F F' _ _ ht

theorem rows_of_forall₂_perm {m : ℕ} {ens ens' : List (List α)} (hp : List.Forall₂ List.Perm ens' ens) :
    (∀ r ∈ ens, r.length = m) → ∀ r ∈ ens', r.length = m := by
  induction hp with
  | nil => intro _ r hr; simp at hr
  | cons hab _ ih =>
    intro h r hr
    rcases List.mem_cons.mp hr with rfl | hr
    · rw [hab.length_eq]; exact h _ List.mem_cons_self
    · exact ih (fun r hr => h r (List.mem_cons_of_mem _ hr)) r hr

theorem shape_of_forall₂_perm {m : ℕ} {obs : List α} {ens ens' : List (List α)} (h : Shape m obs ens)
    (hp : List.Forall₂ List.Perm ens' ens) : Shape m obs ens' :=
  ⟨by rw [hp.length_eq, h.len], h.m_pos, h.n_pos, rows_of_forall₂_perm hp h.rows⟩

theorem map_sort_of_forall₂_perm {sort : List α → List α} (hsort : SortOK sort) {ens ens' : List (List α)}
    (hp : List.Forall₂ List.Perm ens' ens) : ens'.map sort = ens.map sort := by
  induction hp with
  | nil => rfl
  | cons hab _ ih => simp [sort_perm_eq hsort hab, ih]

theorem finalAcc_member_perm {sort : List α → List α} (hsort : SortOK sort) (m : ℕ) (obs : List α)
    {ens ens' : List (List α)} (hp : List.Forall₂ List.Perm ens' ens) :
    finalAcc sort m obs ens' = finalAcc sort m obs ens := by
  unfold finalAcc
  apply pureLoop_congr
  have h1 : ∀ e : List (List α), ((obs.zip e).map fun p => (p.1, sort p.2)) = obs.zip (e.map sort) := by
    intro e; rw [List.zip_map_right]; rfl
  rw [h1, h1, map_sort_of_forall₂_perm hsort hp]

/-- the state without the uncertainty accumulator -/
def CoreEq (s s' : Acc α) : Prop :=
  s.ab = s'.ab ∧ s.b0 = s'.b0 ∧ s.aN = s'.aN ∧ s.o0 = s'.o0 ∧ s.oN = s'.oN

theorem acc_ext {s s' : Acc α} (h : CoreEq s s') (hu : s.unc = s'.unc) : s = s' := by
  obtain ⟨h1, h2, h3, h4, h5⟩ := h
  cases s; cases s'; simp_all

/-- one forecast acting on everything but the uncertainty -/
def coreStep (sort : List α → List α) (w : α) (s : Acc α) (p : α × List α) : Acc α :=
  stepE w [] p.1 (sort p.2) s

theorem pureLoop_core (sort : List α → List α) (w : α) :
    ∀ (F : List (α × List α)) (prev : List α) (s s' : Acc α), CoreEq s s' →
      CoreEq (pureLoop sort w prev F s) (F.foldl (coreStep sort w) s')
  | [], _, _, _, h => h
  | (y, row) :: F, prev, s, s', h => by
    simp only [pureLoop, List.foldl_cons]
    apply pureLoop_core sort w F
    obtain ⟨h1, h2, h3, h4, h5⟩ := h
    simp only [CoreEq, coreStep, stepE, step, h1, h2, h3, h4, h5, and_self]

theorem binStep_comm (w y y' l r l' r' : α) (p : α × α) (h : l ≤ r) (h' : l' ≤ r') :
    binStep w y l r (binStep w y' l' r' p) = binStep w y' l' r' (binStep w y l r p) := by
  rw [binStep_eq _ _ _ _ _ h, binStep_eq _ _ _ _ _ h', binStep_eq _ _ _ _ _ h', binStep_eq _ _ _ _ _ h]
  ext <;> simp only <;> ring

theorem binsStep_comm (w y y' : α) : ∀ (ab : List (α × α)) (e e' : List α),
    e.Pairwise (· ≤ ·) → e'.Pairwise (· ≤ ·) →
    binsStep w y e (binsStep w y' e' ab) = binsStep w y' e' (binsStep w y e ab)
  | [], e, e', _, _ => by
    have : ∀ (z : α) (e : List α), binsStep w z e ([] : List (α × α)) = [] := by
      intro z e; rcases e with _ | ⟨a, _ | ⟨b, t⟩⟩ <;> simp [binsStep]
    simp [this]
  | p :: rest, [], e', _, _ => by simp [binsStep]
  | p :: rest, [_], e', _, _ => by simp [binsStep]
  | p :: rest, _ :: _ :: _, [], _, _ => by simp [binsStep]
  | p :: rest, _ :: _ :: _, [_], _, _ => by simp [binsStep]
  | p :: rest, l :: r :: es, l' :: r' :: es', hs, hs' => by
    have hlr : l ≤ r := List.rel_of_pairwise_cons hs List.mem_cons_self
    have hlr' : l' ≤ r' := List.rel_of_pairwise_cons hs' List.mem_cons_self
    simp only [binsStep]
    rw [binStep_comm w y y' l r l' r' p hlr hlr', binsStep_comm w y y' rest (r :: es) (r' :: es') hs.tail hs'.tail]

theorem coreStep_comm {sort : List α → List α} (hsort : SortOK sort) (w : α) (z : Acc α) (p q : α × List α) :
    coreStep sort w (coreStep sort w z p) q = coreStep sort w (coreStep sort w z q) p := by
  apply acc_ext
  · refine ⟨?_, ?_, ?_, ?_, ?_⟩
    · simp only [coreStep, stepE, step]
      exact binsStep_comm w q.1 p.1 z.ab _ _ (hsort q.2).1 (hsort p.2).1
    all_goals
      simp only [coreStep, stepE, step]
      split_ifs <;> ring
  · simp [coreStep, stepE, step, uncStep]

theorem dsum_perm {l l' : List α} (h : l.Perm l') : dsum l = dsum l' := by
  unfold dsum
  have h2 : (fun a => (l.map fun b => |b - a|).sum) = fun a => (l'.map fun b => |b - a|).sum := by
    funext a; exact (h.map _).sum_eq
  rw [h2]; exact (h.map _).sum_eq

theorem finalAcc_forecast_perm {sort : List α → List α} (hsort : SortOK sort) {m : ℕ} {obs obs' : List α}
    {ens ens' : List (List α)} (h : Shape m obs ens) (h' : Shape m obs' ens')
    (hp : (obs'.zip ens').Perm (obs.zip ens)) :
    finalAcc sort m obs' ens' = finalAcc sort m obs ens := by
  have hlen : obs'.length = obs.length := by
    have := hp.length_eq
    rw [List.length_zip, List.length_zip, h.len, h'.len, Nat.min_self, Nat.min_self] at this
    exact this
  have hcore : ∀ (o : List α) (e : List (List α)),
      CoreEq (finalAcc sort m o e) ((o.zip e).foldl (coreStep sort (1 / (o.length : α))) (init m)) := by
    intro o e
    exact pureLoop_core sort _ _ _ _ _ ⟨rfl, rfl, rfl, rfl, rfl⟩
  have hfold : (obs'.zip ens').foldl (coreStep sort (1 / (obs'.length : α))) (init m)
      = (obs.zip ens).foldl (coreStep sort (1 / (obs.length : α))) (init m) := by
    rw [hlen]
    exact hp.foldl_eq' (fun x _ y _ z => coreStep_comm hsort _ z x y) _
  apply acc_ext
  · obtain ⟨a1, a2, a3, a4, a5⟩ := hcore obs' ens'
    obtain ⟨b1, b2, b3, b4, b5⟩ := hcore obs ens
    rw [hfold] at a1 a2 a3 a4 a5
    exact ⟨a1.trans b1.symm, a2.trans b2.symm, a3.trans b3.symm, a4.trans b4.symm, a5.trans b5.symm⟩
  · have u' := (finalAcc_inv hsort h').unc
    have u := (finalAcc_inv hsort h).unc
    rw [hlen, dsum_perm (hp.map Prod.fst)] at u'
    have : 2 * (finalAcc sort m obs' ens').unc = 2 * (finalAcc sort m obs ens).unc := by rw [u', u]
    linarith

/-! ### invariance: common shift -/

theorem sort_map_of_mono {sort : List α → List α} (hsort : SortOK sort) (f : α → α)
    (hf : ∀ a b, a ≤ b → f a ≤ f b) (row : List α) : sort (row.map f) = (sort row).map f := by
  apply List.Perm.eq_of_pairwise (le := fun x y : α => x ≤ y)
    (fun x y _ _ hxy hyx => le_antisymm hxy hyx) (hsort _).1
  · exact List.Pairwise.map f hf (hsort row).1
  · exact (hsort _).2.trans ((hsort row).2.map f).symm

theorem ext_map (f : α → α) {e : List α} (hne : e ≠ []) (j : ℕ) : ext (e.map f) j = f (ext e j) := by
  have hpos : 0 < e.length := List.length_pos_iff.mpr hne
  unfold ext
  rw [List.length_map]
  have hlt : min j (e.length - 1) < e.length := by omega
  rw [List.getD_eq_getElem?_getD, List.getD_eq_getElem?_getD, List.getElem?_map,
    List.getElem?_eq_getElem hlt]
  rfl

theorem binStep_shift (w y l r c : α) (p : α × α) :
    binStep w (y + c) (l + c) (r + c) p = binStep w y l r p := by
  unfold binStep
  simp only [add_le_add_iff_right, add_lt_add_iff_right, add_sub_add_right_eq_sub]

theorem binsStep_shift (w y c : α) : ∀ (e : List α) (ab : List (α × α)),
    binsStep w (y + c) (e.map (· + c)) ab = binsStep w y e ab
  | [], ab => by simp [binsStep]
  | [_], ab => by simp [binsStep]
  | _ :: _ :: _, [] => by simp [binsStep]
  | l :: r :: es, p :: rest => by
    have ih := binsStep_shift w y c (r :: es) rest
    simp only [List.map_cons] at ih ⊢
    simp only [binsStep, binStep_shift, ih]

theorem uncStep_shift (w y c : α) (prev : List α) (u : α) :
    uncStep w (y + c) (prev.map (· + c)) u = uncStep w y prev u := by
  rw [uncStep_eq, uncStep_eq, List.map_map]
  congr 3
  apply List.map_congr_left
  intro k _
  simp only [Function.comp, add_sub_add_right_eq_sub]

theorem stepE_shift (w c : α) (prev : List α) (y : α) {e : List α} (hne : e ≠ []) (s : Acc α) :
    stepE w (prev.map (· + c)) (y + c) (e.map (· + c)) s = stepE w prev y e s := by
  unfold stepE step
  simp only [List.length_map, ext_map (· + c) hne, binsStep_shift, uncStep_shift, add_lt_add_iff_right,
    add_le_add_iff_right, add_sub_add_right_eq_sub]

theorem pureLoop_shift {sort : List α → List α} (hsort : SortOK sort) (w c : α) :
    ∀ (F : List (α × List α)) (prev : List α) (s : Acc α), (∀ p ∈ F, p.2 ≠ []) →
      pureLoop sort w (prev.map (· + c)) (F.map fun p => (p.1 + c, p.2.map (· + c))) s
        = pureLoop sort w prev F s
  | [], _, _, _ => rfl
  | (y, row) :: F, prev, s, h => by
    have hrow : row ≠ [] := h (y, row) List.mem_cons_self
    have hne : sort row ≠ [] := by
      intro h0
      have := (hsort row).2.length_eq
      rw [h0] at this
      exact hrow (List.eq_nil_of_length_eq_zero this.symm)
    simp only [List.map_cons, pureLoop]
    rw [sort_map_of_mono hsort (· + c) (fun a b hab => by simpa using hab) row, stepE_shift w c prev y hne s]
    have := pureLoop_shift hsort w c F (prev ++ [y]) (stepE w prev y (sort row) s)
      (fun p hp => h p (List.mem_cons_of_mem _ hp))
    simpa using this

theorem shape_map (f : α → α) {m : ℕ} {obs : List α} {ens : List (List α)} (h : Shape m obs ens) :
    Shape m (obs.map f) (ens.map fun r => r.map f) := by
  refine ⟨by simp [h.len], h.m_pos, by simpa using h.n_pos, ?_⟩
  intro r hr
  obtain ⟨r', hr', rfl⟩ := List.mem_map.mp hr
  simpa using h.rows r' hr'

theorem rows_ne_nil {m : ℕ} {obs : List α} {ens : List (List α)} (h : Shape m obs ens) :
    ∀ p ∈ obs.zip ens, p.2 ≠ [] := by
  intro p hp h0
  have h1 := h.rows p.2 (List.of_mem_zip hp).2
  have h2 := h.m_pos
  rw [h0] at h1
  simp at h1; omega

theorem finalAcc_shift {sort : List α → List α} (hsort : SortOK sort) {m : ℕ} {obs : List α}
    {ens : List (List α)} (h : Shape m obs ens) (c : α) :
    finalAcc sort m (obs.map (· + c)) (ens.map fun r => r.map (· + c)) = finalAcc sort m obs ens := by
  unfold finalAcc
  have hz : (obs.map (· + c)).zip (ens.map fun r => r.map (· + c))
      = (obs.zip ens).map fun p => (p.1 + c, p.2.map (· + c)) := by
    rw [List.zip_map]; rfl
  rw [hz, List.length_map]
  have := pureLoop_shift hsort (1 / (obs.length : α)) c (obs.zip ens) [] (init m) (rows_ne_nil h)
  simpa using this

/-! ### invariance: positive scale factor -/

def scaleRow (c : α) (r : Row α) : Row α :=
  { p := r.p, a := c * r.a, b := c * r.b, g := c * r.g, o := r.o
    r := r.r.map (c * ·), c := r.c.map (c * ·) }

/-- every output that carries the unit of the data is multiplied by `c`; frequencies `p`, `o` are unchanged -/
def scaleResult (c : α) (r : Result α) : Result α :=
  { crps := c * r.crps, reli := r.reli.map (c * ·), resol := r.resol.map (c * ·), unc := c * r.unc
    pot := r.pot.map (c * ·), table := r.table.map (scaleRow c) }

def scaleAcc (c : α) (s : Acc α) : Acc α :=
  { ab := s.ab.map fun p => (c * p.1, c * p.2), b0 := c * s.b0, aN := c * s.aN, o0 := s.o0, oN := s.oN
    unc := c * s.unc }

def scaleTot (c : α) (t : Tot α) : Tot α :=
  { crps := c * t.crps, reli := t.reli.map (c * ·), pot := t.pot.map (c * ·) }

theorem mul_le_mul_iff_pos {c : α} (hc : 0 < c) (a b : α) : c * a ≤ c * b ↔ a ≤ b :=
  ⟨fun h => le_of_mul_le_mul_left h hc, fun h => mul_le_mul_of_nonneg_left h hc.le⟩

theorem mul_lt_mul_iff_pos {c : α} (hc : 0 < c) (a b : α) : c * a < c * b ↔ a < b :=
  ⟨fun h => lt_of_mul_lt_mul_left h hc.le, fun h => mul_lt_mul_of_pos_left h hc⟩

theorem binStep_scale (w y l r c : α) (hc : 0 < c) (p : α × α) :
    binStep w (c * y) (c * l) (c * r) (c * p.1, c * p.2)
      = (c * (binStep w y l r p).1, c * (binStep w y l r p).2) := by
  unfold binStep
  simp only [mul_le_mul_iff_pos hc, mul_lt_mul_iff_pos hc]
  split_ifs <;> (apply Prod.ext <;> simp only <;> ring)

theorem binsStep_scale (w y c : α) (hc : 0 < c) : ∀ (e : List α) (ab : List (α × α)),
    binsStep w (c * y) (e.map (c * ·)) (ab.map fun p => (c * p.1, c * p.2))
      = (binsStep w y e ab).map fun p => (c * p.1, c * p.2)
  | [], ab => by simp [binsStep]
  | [_], ab => by simp [binsStep]
  | _ :: _ :: _, [] => by simp [binsStep]
  | l :: r :: es, p :: rest => by
    have ih := binsStep_scale w y c hc (r :: es) rest
    simp only [List.map_cons] at ih ⊢
    simp only [binsStep, List.map_cons, binStep_scale w y l r c hc p, ih]

theorem uncStep_scale (w y c : α) (hc : 0 < c) (prev : List α) (u : α) :
    uncStep w (c * y) (prev.map (c * ·)) (c * u) = c * uncStep w y prev u := by
  rw [uncStep_eq, uncStep_eq, List.map_map]
  have : (prev.map ((fun k => |k - c * y|) ∘ fun x => c * x)) = prev.map fun k => c * |k - y| := by
    apply List.map_congr_left
    intro k _
    simp only [Function.comp]
    rw [← mul_sub, abs_mul, abs_of_pos hc]
  rw [this, List.sum_map_mul_left]
  ring

theorem stepE_scale (w c : α) (hc : 0 < c) (prev : List α) (y : α) {e : List α} (hne : e ≠ []) (s : Acc α) :
    stepE w (prev.map (c * ·)) (c * y) (e.map (c * ·)) (scaleAcc c s) = scaleAcc c (stepE w prev y e s) := by
  unfold stepE step scaleAcc
  simp only [List.length_map, ext_map (c * ·) hne, binsStep_scale w y c hc, uncStep_scale w y c hc,
    mul_le_mul_iff_pos hc, mul_lt_mul_iff_pos hc]
  congr 1
  · split_ifs <;> ring
  · split_ifs <;> ring

theorem pureLoop_scale {sort : List α → List α} (hsort : SortOK sort) (w c : α) (hc : 0 < c) :
    ∀ (F : List (α × List α)) (prev : List α) (s : Acc α), (∀ p ∈ F, p.2 ≠ []) →
      pureLoop sort w (prev.map (c * ·)) (F.map fun p => (c * p.1, p.2.map (c * ·))) (scaleAcc c s)
        = scaleAcc c (pureLoop sort w prev F s)
  | [], _, _, _ => rfl
  | (y, row) :: F, prev, s, h => by
    have hrow : row ≠ [] := h (y, row) List.mem_cons_self
    have hne : sort row ≠ [] := by
      intro h0
      have := (hsort row).2.length_eq
      rw [h0] at this
      exact hrow (List.eq_nil_of_length_eq_zero this.symm)
    simp only [List.map_cons, pureLoop]
    rw [sort_map_of_mono hsort (c * ·) (fun a b hab => mul_le_mul_of_nonneg_left hab hc.le) row,
      stepE_scale w c hc prev y hne s]
    have := pureLoop_scale hsort w c hc F (prev ++ [y]) (stepE w prev y (sort row) s)
      (fun p hp => h p (List.mem_cons_of_mem _ hp))
    simpa using this

theorem scaleAcc_init (c : α) (m : ℕ) : scaleAcc c (init m : Acc α) = init m := by
  simp [scaleAcc, init]

theorem finalAcc_scale {sort : List α → List α} (hsort : SortOK sort) {m : ℕ} {obs : List α}
    {ens : List (List α)} (h : Shape m obs ens) (c : α) (hc : 0 < c) :
    finalAcc sort m (obs.map (c * ·)) (ens.map fun r => r.map (c * ·)) = scaleAcc c (finalAcc sort m obs ens) := by
  unfold finalAcc
  have hz : (obs.map (c * ·)).zip (ens.map fun r => r.map (c * ·))
      = (obs.zip ens).map fun p => (c * p.1, p.2.map (c * ·)) := by
    rw [List.zip_map]; rfl
  rw [hz, List.length_map]
  have := pureLoop_scale hsort (1 / (obs.length : α)) c hc (obs.zip ens) [] (init m) (rows_ne_nil h)
  rw [scaleAcc_init] at this
  simpa using this

theorem mkRow_scale (c p a b g : α) (o : Option α) :
    mkRow p (c * a) (c * b) (c * g) o = scaleRow c (mkRow p a b g o) := by
  cases o <;> simp [mkRow, scaleRow, mul_assoc]

theorem mids_scale (c : α) (hc : c ≠ 0) (m : ℕ) : ∀ (ab : List (α × α)) (k : ℕ),
    mids m k (ab.map fun p => (c * p.1, c * p.2)) = (mids m k ab).map (scaleRow c)
  | [], k => by simp [mids]
  | p :: t, k => by
    simp only [List.map_cons, mids, mids_scale c hc m t (k + 1)]
    congr 1
    unfold rowMid
    simp only
    rw [← mul_add, ← mkRow_scale]
    congr 1
    by_cases hg : p.1 + p.2 = 0
    · simp [hg]
    · simp [hg, hc, mul_div_mul_left _ _ hc]

theorem accRow_scale (c : α) (hc : 0 < c) (t : Tot α) (r : Row α) :
    accRow (scaleTot c t) (scaleRow c r) = scaleTot c (accRow t r) := by
  unfold accRow
  have hg : (0 < (scaleRow c r).g) ↔ 0 < r.g := by
    simp only [scaleRow]
    exact ⟨fun h => by
        by_contra hn
        exact absurd h (not_lt.mpr (mul_nonpos_of_nonneg_of_nonpos hc.le (not_lt.mp hn))),
      fun h => mul_pos hc h⟩
  simp only [hg]
  split_ifs
  · simp only [scaleTot, scaleRow]
    congr 1
    · ring
    · cases t.reli <;> cases r.r <;> simp [mul_add]
    · cases t.pot <;> cases r.c <;> simp [mul_add]
  · simp only [scaleTot, scaleRow]
    congr 1
    ring

theorem foldl_accRow_scale (c : α) (hc : 0 < c) : ∀ (rows : List (Row α)) (t : Tot α),
    (rows.map (scaleRow c)).foldl accRow (scaleTot c t) = scaleTot c (rows.foldl accRow t)
  | [], t => rfl
  | r :: rows, t => by
    simp only [List.map_cons, List.foldl_cons, accRow_scale c hc, foldl_accRow_scale c hc rows]

theorem table_scale (c : α) (hc : c ≠ 0) (m : ℕ) (s : Acc α) :
    table m (scaleAcc c s) = (table m s).map (scaleRow c) := by
  unfold table
  simp only [List.map_cons, List.map_append, List.map_nil]
  have h0 : row0 m (scaleAcc c s) = scaleRow c (row0 m s) := by
    unfold row0
    have : (0 : α) = c * 0 := by ring
    simp only [scaleAcc]
    rw [← mkRow_scale, ← this]
    congr 1
    by_cases h : (s.o0 != 0) = true <;> simp [h, mul_div_assoc]
  have hN : rowN m (scaleAcc c s) = scaleRow c (rowN m s) := by
    unfold rowN
    have : (0 : α) = c * 0 := by ring
    simp only [scaleAcc]
    rw [← mkRow_scale, ← this]
    congr 1
    by_cases h : (s.oN != 1) = true <;> simp [h, mul_div_assoc]
  rw [h0, hN]
  simp only [scaleAcc, mids_scale c hc]

theorem finishCore_scale (c : α) (hc : 0 < c) (m : ℕ) (s : Acc α) :
    finishCore m (scaleAcc c s) = scaleResult c (finishCore m s) := by
  unfold finishCore
  simp only [table_scale c (ne_of_gt hc)]
  have hs : scaleTot c ({ crps := 0, reli := some 0, pot := some 0 } : Tot α)
      = { crps := 0, reli := some 0, pot := some 0 } := by simp [scaleTot]
  have hf := foldl_accRow_scale c hc (table m s) ({ crps := 0, reli := some 0, pot := some 0 } : Tot α)
  rw [hs] at hf
  rw [hf]
  simp only [scaleResult, scaleTot, scaleAcc]
  congr 1
  cases ((table m s).foldl accRow ({ crps := 0, reli := some 0, pot := some 0 } : Tot α)).pot <;> simp [mul_sub]

theorem finish_scale (c : α) (hc : 0 < c) (m : ℕ) (s : Acc α) :
    finish m (scaleAcc c s) = scaleResult c (finish m s) := by
  unfold finish
  rw [← finishCore_scale c hc]
  rfl

/-! ### the Python wrapper's filtering -/

theorem optAll_map_some {β : Type} : ∀ l : List β, optAll (l.map some) = some l
  | [] => rfl
  | a :: t => by simp [optAll, optAll_map_some t]

theorem wrapper_kept_of_finite {m : ℕ} {ys : List α} {rows : List (List α)} (h : Shape m ys rows) :
    ((ys.map some).zip (rows.map fun r => r.map some)).filter keep
      = (ys.zip rows).map fun p => (some p.1, p.2.map some) := by
  have hz : (ys.map some).zip (rows.map fun r => r.map some)
      = (ys.zip rows).map fun p => (some p.1, p.2.map some) := by
    rw [List.zip_map]; rfl
  rw [hz, List.filter_eq_self]
  intro q hq
  obtain ⟨p, hp, rfl⟩ := List.mem_map.mp hq
  have hne := rows_ne_nil h p hp
  obtain ⟨a, t, hat⟩ := List.exists_cons_of_ne_nil hne
  simp [keep, hat]

end HydroVerif.C03
