/-
C11 — histories (`Sess`, `step`, `run` of the model): the invariant of the grid objects, what a call leaves in
place, rejected operations, and the `nprint` loop. No algebraic law of `+` is used.
-/
import HydroVerif.Lemmas.C11

namespace HydroVerif.C11
open HydroVerif.C07

section
variable {α : Type} [Add α]

/-! ### the buffers keep their size -/

omit [Add α] in
theorem writeAt_size {a a' : Array α} {i : Int} {x : α} (h : writeAt a i x = .ok a') : a'.size = a.size := by
  unfold writeAt at h
  split at h
  · cases h; rw [Array.size_set]
  · cases h

theorem addAt_size {a a' : Array α} {i : Int} {x : α} (h : addAt a i x = .ok a') : a'.size = a.size := by
  unfold addAt at h
  split at h
  · cases h; rw [Array.size_set]
  · cases h

theorem walk_size (g : FlowGrid) (field : Array α) (nodata : α) (src : Nat) (fuel : Nat) (cur : Int)
    {a a' : Array α} (h : walk g field nodata src fuel cur a = .ok a') : a'.size = a.size := by
  induction fuel generalizing cur a with
  | zero => cases h; rfl
  | succ fuel ih =>
    unfold walk at h
    cases hd : downstream g cur with
    | error e => rw [hd] at h; cases h
    | ok d =>
      rw [hd] at h
      simp only [] at h
      split at h
      · exact writeAt_size h
      · cases hs : field[src]? with
        | none => rw [hs] at h; cases h
        | some v =>
          rw [hs] at h
          simp only [] at h
          cases ha : addAt a d v with
          | error e => rw [ha] at h; cases h
          | ok a1 =>
            rw [ha] at h
            rw [ih d h, addAt_size ha]

theorem accLoop_size (g : FlowGrid) (field : Array α) (nodata : α) (fuel : Nat) (l : List Nat)
    {a a' : Array α} (h : accLoop g field nodata fuel l a = .ok a') : a'.size = a.size := by
  induction l generalizing a with
  | nil => cases h; rfl
  | cons i rest ih =>
    unfold accLoop at h
    cases hw : walk g field nodata i fuel (i : Int) a with
    | error e => rw [hw] at h; cases h
    | ok a1 =>
      rw [hw] at h
      rw [ih h, walk_size g field nodata i fuel _ hw]

/-- whatever the flow directions, the accumulation buffer comes back with the size it had -/
theorem cAccumulate_size {g : FlowGrid} {m : Int} {nodata : α} {field a a' : Array α}
    (h : cAccumulate g m nodata field a = .ok a') : a'.size = a.size := by
  unfold cAccumulate at h
  split at h
  · cases h
  · split at h
    · cases h
    · exact accLoop_size g field nodata _ _ h

/-! ### `nprint` decides nothing but the number of progress lines -/

theorem accLoopP_fst (g : FlowGrid) (field : Array α) (nodata : α) (fuel : Nat) (nprint : Int) (l : List Nat)
    (a : Array α) (n : Nat) :
    (accLoopP g field nodata fuel nprint l (a, n)).map (·.1) = accLoop g field nodata fuel l a := by
  induction l generalizing a n with
  | nil => rfl
  | cons i rest ih =>
    unfold accLoopP accLoop
    cases walk g field nodata i fuel (i : Int) a with
    | error e => rfl
    | ok a1 => exact ih a1 _

theorem accLoopP_snd (g : FlowGrid) (field : Array α) (nodata : α) (fuel : Nat) (nprint : Int) (l : List Nat)
    (a : Array α) (n : Nat) {r : Array α × Nat} (h : accLoopP g field nodata fuel nprint l (a, n) = .ok r) :
    r.2 = n + (l.filter (progressAt nprint)).length := by
  induction l generalizing a n with
  | nil => cases h; rfl
  | cons i rest ih =>
    unfold accLoopP at h
    cases hw : walk g field nodata i fuel (i : Int) a with
    | error e => rw [hw] at h; cases h
    | ok a1 =>
      rw [hw] at h
      rw [ih a1 _ h, List.filter_cons]
      split
      · simp; omega
      · simp

/-! ### the wrapper on grid objects, once it has answered -/

omit [Add α] in
theorem setIfInBounds_same {β : Type} {xs : Array β} {q : Nat} {x : β} (h : xs[q]? = some x) :
    xs.setIfInBounds q x = xs := by
  apply Array.ext_getElem?
  intro j
  rw [Array.getElem?_setIfInBounds]
  split
  · rename_i hqj
    subst hqj
    have hlt : q < xs.size := by
      by_contra hn
      rw [Array.getElem?_eq_none (by omega)] at h
      cases h
    rw [if_pos hlt, h]
  · rfl

variable [OfNat α 1]

/-- the field grid the wrapper works on: the one given, or the unit field cloned from the flow-direction grid -/
def fieldOr (g : FlowGrid) (fdNodata : α) (field : Option (FieldGrid α)) : FieldGrid α :=
  match field with
  | some f => f
  | none => ⟨g.nrows, g.ncols, Array.replicate g.flowdir.size (1 : α), fdNodata⟩

theorem gridAccumulate_ok {g : FlowGrid} {fdNodata : α} {field : Option (FieldGrid α)} {m : Int}
    {st : Store α} {r : FieldGrid α} (h : gridAccumulate g fdNodata field m = .ok (st, r)) :
    (fieldOr g fdNodata field).nrows = g.nrows ∧ (fieldOr g fdNodata field).ncols = g.ncols ∧
      st.field = (fieldOr g fdNodata field).data ∧
      r = ⟨g.nrows, g.ncols, st.acc, (fieldOr g fdNodata field).nodata⟩ ∧
      cAccumulate g (capOf g m) (fieldOr g fdNodata field).nodata (fieldOr g fdNodata field).data
        (fieldOr g fdNodata field).data = .ok st.acc := by
  have hdef : gridAccumulate g fdNodata field m =
      (let f := fieldOr g fdNodata field
       if f.nrows ≠ g.nrows ∨ f.ncols ≠ g.ncols then .error .shape
       else match cAccumulateS g (capOf g m) f.nodata ⟨f.data, f.data, false⟩ with
         | .error e => .error e
         | .ok s => .ok (s, ⟨f.nrows, f.ncols, s.acc, f.nodata⟩)) := by
    unfold gridAccumulate fieldOr
    cases field <;> rfl
  rw [hdef] at h
  simp only [] at h
  generalize fieldOr g fdNodata field = f at h ⊢
  split at h
  · cases h
  · rename_i hshape
    rw [cAccumulateS_unaliased_eq] at h
    cases hc : cAccumulate g (capOf g m) f.nodata f.data f.data with
    | error e => rw [hc] at h; cases h
    | ok a =>
      rw [hc] at h
      cases h
      have h1 : f.nrows = g.nrows := by
        by_contra hne; exact hshape (Or.inl hne)
      have h2 : f.ncols = g.ncols := by
        by_contra hne; exact hshape (Or.inr hne)
      exact ⟨h1, h2, rfl, by rw [h1, h2], rfl⟩

/-! ### the invariant of the objects a caller holds -/

structure Inv (s : Sess α) : Prop where
  /-- the flow-direction grid has `nrows x ncols` entries (constructor / `data` setter of `Grid`) -/
  fdSize : s.fd.flowdir.size = s.fd.ntot.toNat
  /-- so has every float grid object -/
  heapShaped : ∀ (q : Nat) (f : FieldGrid α), s.heap[q]? = some f → f.wellShaped = true
  fieldRef : ∀ q, s.field = some q → q < s.heap.size
  resRef : ∀ q, s.res = some q → q < s.heap.size

omit [Add α] [OfNat α 1] in
theorem editAt_rejected (s : Sess α) (ref : Option Nat) (e : FieldGrid α → Option (FieldGrid α))
    (h : (s.editAt ref e).2 = .rejected) : (s.editAt ref e).1 = s := by
  unfold Sess.editAt at h ⊢
  cases ref with
  | none => rfl
  | some q =>
    cases hq : s.heap[q]? with
    | none => simp only [hq]
    | some f =>
      cases hf : e f with
      | none => simp only [hq, hf]
      | some f' =>
        simp only [hq, hf] at h
        cases h

/-- an operation that raises leaves every object as it was -/
theorem step_rejected_eq (s : Sess α) (op : Op α) (h : (step s op).2 = .rejected) : (step s op).1 = s := by
  cases op with
  | call =>
    simp only [step] at h ⊢
    cases hg : gridAccumulate s.fd s.fdNodata s.fieldGrid s.cap with
    | error e => rfl
    | ok p => rw [hg] at h; obtain ⟨st, r⟩ := p; simp only [] at h; cases h
  | setCap m => simp only [step] at h; cases h
  | fdSetCell i code =>
    simp only [step] at h ⊢
    split
    · rename_i hc; simp only [if_pos hc] at h; cases h
    · rfl
  | fdAssign nrows ncols data =>
    simp only [step] at h ⊢
    split
    · rename_i hc; simp only [if_pos hc] at h; cases h
    · rfl
  | fdSetNodata v => simp only [step] at h; cases h
  | fdClone => rfl
  | fSetCell i v => exact editAt_rejected s _ _ h
  | fAssign nrows ncols data => exact editAt_rejected s _ _ h
  | fSetNodata v => exact editAt_rejected s _ _ h
  | fNew f =>
    simp only [step] at h ⊢
    split
    · rename_i hc; simp only [if_pos hc] at h; cases h
    · rfl
  | fDrop => simp only [step] at h; cases h
  | fClone =>
    simp only [step] at h ⊢
    cases hf : s.fieldGrid with
    | none => rfl
    | some f => rw [hf] at h; simp only [] at h; cases h
  | rSetCell i v => exact editAt_rejected s _ _ h
  | rFill v => exact editAt_rejected s _ _ h
  | rSetNodata v => exact editAt_rejected s _ _ h
  | feedBack =>
    simp only [step] at h ⊢
    cases hr : s.res with
    | none => rfl
    | some q => rw [hr] at h; simp only [] at h; cases h

/-- what `step s .call` is, with the write-back of the field memory resolved (it is the identity) -/
theorem step_call_eq (s : Sess α) :
    step s .call = match gridAccumulate s.fd s.fdNodata s.fieldGrid s.cap with
      | .error _ => (s, .rejected)
      | .ok (_, r) => ({ s with heap := s.heap.push r, res := some s.heap.size }, .result r) := by
  unfold step
  cases hg : gridAccumulate s.fd s.fdNodata s.fieldGrid s.cap with
  | error e => rfl
  | ok p =>
    obtain ⟨st, r⟩ := p
    simp only []
    have hok := gridAccumulate_ok hg
    cases hfield : s.field with
    | none => rfl
    | some q =>
      cases hfg : s.fieldGrid with
      | none => rfl
      | some f =>
        simp only []
        have hq : s.heap[q]? = some f := by
          unfold Sess.fieldGrid at hfg
          rw [hfield] at hfg
          exact hfg
        have hst : st.field = f.data := by
          have := hok.2.2.1
          rw [hfg] at this
          exact this
        have hsame : ({ f with data := st.field } : FieldGrid α) = f := by rw [hst]
        rw [hsame, setIfInBounds_same hq]

omit [Add α] [OfNat α 1] in
theorem editAt_inv {s : Sess α} (hI : Inv s) {ref : Option Nat} {e : FieldGrid α → Option (FieldGrid α)}
    (he : ∀ f f' : FieldGrid α, f.wellShaped = true → e f = some f' → f'.wellShaped = true) :
    Inv (s.editAt ref e).1 ∧ (s.editAt ref e).1.fd = s.fd ∧ (s.editAt ref e).1.field = s.field ∧
      (s.editAt ref e).1.res = s.res ∧ (s.editAt ref e).1.cap = s.cap ∧
      (s.editAt ref e).1.fdNodata = s.fdNodata := by
  unfold Sess.editAt
  cases ref with
  | none => exact ⟨hI, rfl, rfl, rfl, rfl, rfl⟩
  | some q =>
    simp only []
    cases hq : s.heap[q]? with
    | none => exact ⟨hI, rfl, rfl, rfl, rfl, rfl⟩
    | some f =>
      simp only []
      cases hef : e f with
      | none => exact ⟨hI, rfl, rfl, rfl, rfl, rfl⟩
      | some f' =>
        refine ⟨⟨hI.fdSize, ?_, ?_, ?_⟩, rfl, rfl, rfl, rfl, rfl⟩
        · intro j x hx
          simp only [Array.getElem?_setIfInBounds] at hx
          split at hx
          · split at hx
            · cases hx; exact he f _ (hI.heapShaped q f hq) hef
            · cases hx
          · exact hI.heapShaped j x hx
        · intro j hj
          simp only [Array.size_setIfInBounds]
          exact hI.fieldRef j hj
        · intro j hj
          simp only [Array.size_setIfInBounds]
          exact hI.resRef j hj

omit [Add α] [OfNat α 1] in
theorem setCell_shaped {f f' : FieldGrid α} {i : Int} {v : α} (hf : f.wellShaped = true)
    (h : f.setCell i v = some f') : f'.wellShaped = true := by
  unfold FieldGrid.setCell at h
  split at h
  · cases h
    unfold FieldGrid.wellShaped at hf ⊢
    simpa using hf
  · cases h

omit [Add α] [OfNat α 1] in
theorem assign_shaped {f f' : FieldGrid α} {nr nc : Int} {d : Array α}
    (h : f.assign nr nc d = some f') : f'.wellShaped = true := by
  unfold FieldGrid.assign at h
  split at h
  · rename_i hc
    cases h
    unfold FieldGrid.wellShaped
    simp only [decide_eq_true_eq]
    rw [hc.2.2, hc.1, hc.2.1]
  · cases h

/-- every operation keeps the objects well-formed and the shape and code table of the flow-direction grid -/
theorem step_inv {s : Sess α} (hI : Inv s) (op : Op α) :
    Inv (step s op).1 ∧ (step s op).1.fd.nrows = s.fd.nrows ∧ (step s op).1.fd.ncols = s.fd.ncols ∧
      (step s op).1.fd.codes = s.fd.codes := by
  cases op with
  | call =>
    rw [step_call_eq s]
    cases hg : gridAccumulate s.fd s.fdNodata s.fieldGrid s.cap with
    | error e => exact ⟨hI, rfl, rfl, rfl⟩
    | ok p =>
      obtain ⟨st, r⟩ := p
      have hok := gridAccumulate_ok hg
      refine ⟨⟨hI.fdSize, ?_, ?_, ?_⟩, rfl, rfl, rfl⟩
      · intro j x hx
        simp only [Array.getElem?_push] at hx
        split at hx
        · cases hx
          -- the result: the size of the accumulation buffer is the size of the field's data
          have hsz := cAccumulate_size hok.2.2.2.2
          rw [hok.2.2.2.1]
          unfold FieldGrid.wellShaped
          simp only [decide_eq_true_eq]
          rw [hsz]
          cases hfg : s.fieldGrid with
          | none =>
            simp only [fieldOr, Array.size_replicate]
            exact hI.fdSize
          | some f =>
            obtain ⟨q, hq1, hq2⟩ : ∃ q, s.field = some q ∧ s.heap[q]? = some f := by
              unfold Sess.fieldGrid at hfg
              cases hfield : s.field with
              | none => rw [hfield] at hfg; cases hfg
              | some q => rw [hfield] at hfg; exact ⟨q, rfl, hfg⟩
            have hws := hI.heapShaped q f hq2
            unfold FieldGrid.wellShaped at hws
            simp only [decide_eq_true_eq] at hws
            have h1 := hok.1
            have h2 := hok.2.1
            rw [hfg] at h1 h2
            simp only [fieldOr] at h1 h2 ⊢
            rw [hws, h1, h2]
        · exact hI.heapShaped j x hx
      · intro j hj
        simp only [Array.size_push]
        exact Nat.lt_succ_of_lt (hI.fieldRef j hj)
      · intro j hj
        simp only [Array.size_push]
        cases hj
        exact Nat.lt_succ_self _
  | setCap m => exact ⟨⟨hI.fdSize, hI.heapShaped, hI.fieldRef, hI.resRef⟩, rfl, rfl, rfl⟩
  | fdSetCell i code =>
    simp only [step]
    split
    · refine ⟨⟨?_, hI.heapShaped, hI.fieldRef, hI.resRef⟩, rfl, rfl, rfl⟩
      simp only [Array.size_setIfInBounds]
      exact hI.fdSize
    · exact ⟨hI, rfl, rfl, rfl⟩
  | fdAssign nrows ncols data =>
    simp only [step]
    split
    · rename_i hc
      refine ⟨⟨?_, hI.heapShaped, hI.fieldRef, hI.resRef⟩, rfl, rfl, rfl⟩
      show data.size = (s.fd.nrows * s.fd.ncols).toNat
      rw [hc.2.2, hc.1, hc.2.1]
    · exact ⟨hI, rfl, rfl, rfl⟩
  | fdSetNodata v => exact ⟨⟨hI.fdSize, hI.heapShaped, hI.fieldRef, hI.resRef⟩, rfl, rfl, rfl⟩
  | fdClone => exact ⟨hI, rfl, rfl, rfl⟩
  | fSetCell i v =>
    obtain ⟨h1, h2, -⟩ := editAt_inv (ref := s.field) (e := fun f => f.setCell i v) hI
      (fun f f' hf h => setCell_shaped hf h)
    exact ⟨h1, by show (s.editAt _ _).1.fd.nrows = _; rw [h2], by show (s.editAt _ _).1.fd.ncols = _; rw [h2],
      by show (s.editAt _ _).1.fd.codes = _; rw [h2]⟩
  | fAssign nrows ncols data =>
    obtain ⟨h1, h2, -⟩ := editAt_inv (ref := s.field) (e := fun f => f.assign nrows ncols data) hI
      (fun f f' _ h => assign_shaped h)
    exact ⟨h1, by show (s.editAt _ _).1.fd.nrows = _; rw [h2], by show (s.editAt _ _).1.fd.ncols = _; rw [h2],
      by show (s.editAt _ _).1.fd.codes = _; rw [h2]⟩
  | fSetNodata v =>
    obtain ⟨h1, h2, -⟩ := editAt_inv (ref := s.field) (e := fun f => some { f with nodata := v }) hI
      (fun f f' hf h => by cases h; exact hf)
    exact ⟨h1, by show (s.editAt _ _).1.fd.nrows = _; rw [h2], by show (s.editAt _ _).1.fd.ncols = _; rw [h2],
      by show (s.editAt _ _).1.fd.codes = _; rw [h2]⟩
  | fNew f =>
    simp only [step]
    split
    · rename_i hc
      refine ⟨⟨hI.fdSize, ?_, ?_, ?_⟩, rfl, rfl, rfl⟩
      · intro j x hx
        simp only [Array.getElem?_push] at hx
        split at hx
        · cases hx; exact hc
        · exact hI.heapShaped j x hx
      · intro j hj
        simp only [Array.size_push]
        cases hj
        exact Nat.lt_succ_self _
      · intro j hj
        simp only [Array.size_push]
        exact Nat.lt_succ_of_lt (hI.resRef j hj)
    · exact ⟨hI, rfl, rfl, rfl⟩
  | fDrop =>
    exact ⟨⟨hI.fdSize, hI.heapShaped, fun q hq => (by cases hq), hI.resRef⟩, rfl, rfl, rfl⟩
  | fClone =>
    simp only [step]
    cases hfg : s.fieldGrid with
    | none => exact ⟨hI, rfl, rfl, rfl⟩
    | some f =>
      obtain ⟨q, hq1, hq2⟩ : ∃ q, s.field = some q ∧ s.heap[q]? = some f := by
        unfold Sess.fieldGrid at hfg
        cases hfield : s.field with
        | none => rw [hfield] at hfg; cases hfg
        | some q => rw [hfield] at hfg; exact ⟨q, rfl, hfg⟩
      refine ⟨⟨hI.fdSize, ?_, ?_, ?_⟩, rfl, rfl, rfl⟩
      · intro j x hx
        simp only [Array.getElem?_push] at hx
        split at hx
        · cases hx; exact hI.heapShaped q f hq2
        · exact hI.heapShaped j x hx
      · intro j hj
        simp only [Array.size_push]
        cases hj
        exact Nat.lt_succ_self _
      · intro j hj
        simp only [Array.size_push]
        exact Nat.lt_succ_of_lt (hI.resRef j hj)
  | rSetCell i v =>
    obtain ⟨h1, h2, -⟩ := editAt_inv (ref := s.res) (e := fun f => f.setCell i v) hI
      (fun f f' hf h => setCell_shaped hf h)
    exact ⟨h1, by show (s.editAt _ _).1.fd.nrows = _; rw [h2], by show (s.editAt _ _).1.fd.ncols = _; rw [h2],
      by show (s.editAt _ _).1.fd.codes = _; rw [h2]⟩
  | rFill v =>
    obtain ⟨h1, h2, -⟩ := editAt_inv (ref := s.res)
      (e := fun f => some { f with data := Array.replicate f.data.size v }) hI
      (fun f f' hf h => by
        cases h
        unfold FieldGrid.wellShaped at hf ⊢
        simpa using hf)
    exact ⟨h1, by show (s.editAt _ _).1.fd.nrows = _; rw [h2], by show (s.editAt _ _).1.fd.ncols = _; rw [h2],
      by show (s.editAt _ _).1.fd.codes = _; rw [h2]⟩
  | rSetNodata v =>
    obtain ⟨h1, h2, -⟩ := editAt_inv (ref := s.res) (e := fun f => some { f with nodata := v }) hI
      (fun f f' hf h => by cases h; exact hf)
    exact ⟨h1, by show (s.editAt _ _).1.fd.nrows = _; rw [h2], by show (s.editAt _ _).1.fd.ncols = _; rw [h2],
      by show (s.editAt _ _).1.fd.codes = _; rw [h2]⟩
  | feedBack =>
    simp only [step]
    cases hr : s.res with
    | none => exact ⟨hI, rfl, rfl, rfl⟩
    | some q =>
      exact ⟨⟨hI.fdSize, hI.heapShaped, fun j hj => (by cases hj; exact hI.resRef q hr), fun j hj => (by cases hj; exact hI.resRef q hr)⟩, rfl, rfl, rfl⟩

theorem run_inv {s : Sess α} (hI : Inv s) (ops : List (Op α)) :
    Inv (run s ops).1 ∧ (run s ops).1.fd.nrows = s.fd.nrows ∧ (run s ops).1.fd.ncols = s.fd.ncols ∧
      (run s ops).1.fd.codes = s.fd.codes := by
  induction ops generalizing s with
  | nil => exact ⟨hI, rfl, rfl, rfl⟩
  | cons op rest ih =>
    obtain ⟨h1, h2, h3, h4⟩ := step_inv hI op
    obtain ⟨k1, k2, k3, k4⟩ := ih h1
    have hrun : (run s (op :: rest)).1 = (run (step s op).1 rest).1 := rfl
    rw [hrun]
    exact ⟨k1, k2.trans h2, k3.trans h3, k4.trans h4⟩

end

end HydroVerif.C11
