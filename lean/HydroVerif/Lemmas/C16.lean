/-
Helper lemmas for `Model/C16.lean`: the accumulate-or-append loop as a multiset count, min/max folds,
the scatter function, the first-arg-min search and the count vector of `c_voronoi`.
-/
import HydroVerif.Model.C16
import HydroVerif.Lemmas.C07Coord
import Mathlib.Algebra.Order.Field.Basic
import Mathlib.Algebra.BigOperators.Group.List.Basic
import Mathlib.Tactic.Ring
import Mathlib.Tactic.Linarith
import Mathlib.Tactic.FieldSimp
import Mathlib.Data.List.Perm.Subperm

set_option linter.unusedSectionVars false

namespace HydroVerif.C16
open HydroVerif.C07

/-! ### the accumulate-or-append loop: facts that hold for every numeric instance (also `Float`) -/

section Generic
variable {α : Type}

/-- the listed cells -/
def keys (l : List (Int × α)) : List Int := l.map Prod.fst

@[simp] theorem keys_nil : keys ([] : List (Int × α)) = [] := rfl
@[simp] theorem keys_cons (kw : Int × α) (t : List (Int × α)) : keys (kw :: t) = kw.1 :: keys t := rfl

theorem zip_map_fst_snd {β γ : Type} (l : List (β × γ)) :
    (l.map fun x => x.1).zip (l.map fun x => x.2) = l := by
  induction l with
  | nil => rfl
  | cons x t ih => simp [ih]

variable [Add α]

theorem mem_keys_bump (af : α) (c : Int) (l : List (Int × α)) (k : Int) :
    k ∈ keys (bump af c l) ↔ k = c ∨ k ∈ keys l := by
  induction l with
  | nil => simp [bump]
  | cons kw t ih =>
    obtain ⟨k', w⟩ := kw
    unfold bump
    split
    · rename_i h; subst h; simp
    · simp only [keys_cons, List.mem_cons, ih]; tauto

theorem nodup_keys_bump (af : α) (c : Int) (l : List (Int × α)) (h : (keys l).Nodup) :
    (keys (bump af c l)).Nodup := by
  induction l with
  | nil => simp [bump]
  | cons kw t ih =>
    obtain ⟨k', w⟩ := kw
    unfold bump
    rw [keys_cons, List.nodup_cons] at h
    split
    · simpa using h
    · rename_i hne
      rw [keys_cons, List.nodup_cons, mem_keys_bump]
      exact ⟨by simp only [not_or]; exact ⟨hne, h.1⟩, ih h.2⟩

theorem length_bump_le (af : α) (c : Int) (l : List (Int × α)) :
    (bump af c l).length ≤ l.length + 1 := by
  induction l with
  | nil => simp [bump]
  | cons kw t ih =>
    obtain ⟨k', w⟩ := kw
    unfold bump
    split <;> simp
    omega

/-- the cells `c_coord2cell` accepts, in the order of the points -/
def hits [Sub α] [Mul α] [Div α] [OfNat α 1] [C07.Trunc α] (g : Geom α) (pts : List (Option (α × α))) : List Int :=
  (pts.map (cellOfPt g)).filter fun c => decide (0 ≤ c)

variable [Sub α] [Mul α] [Div α] [OfNat α 1] [C07.Trunc α]

theorem foldl_step_eq (g : Geom α) (af : α) (pts : List (Option (α × α))) (acc : List (Int × α)) :
    pts.foldl (step g af) acc = (hits g pts).foldl (fun acc c => bump af c acc) acc := by
  induction pts generalizing acc with
  | nil => rfl
  | cons p t ih =>
    simp only [List.foldl_cons, hits, List.map_cons, List.filter_cons]
    unfold step
    by_cases h : cellOfPt g p < 0
    · have : ¬ (0 ≤ cellOfPt g p) := by omega
      simp only [h, this, if_true, decide_false]
      exact ih acc
    · have : 0 ≤ cellOfPt g p := by omega
      simp only [h, this, if_false, decide_true]
      exact ih _

theorem cIntersect_eq (g : Geom α) (ca : α) (pts : List (Option (α × α))) :
    cIntersect g ca pts = (hits g pts).foldl (fun acc c => bump (areafactor g.csz ca) c acc) [] :=
  foldl_step_eq g _ pts []

theorem mem_hits {g : Geom α} {pts : List (Option (α × α))} {k : Int} :
    k ∈ hits g pts ↔ 0 ≤ k ∧ ∃ p ∈ pts, cellOfPt g p = k := by
  simp only [hits, List.mem_filter, List.mem_map, decide_eq_true_eq]
  tauto

theorem nodup_keys_foldl_bump (af : α) (cs : List Int) (acc : List (Int × α)) (h : (keys acc).Nodup) :
    (keys (cs.foldl (fun acc c => bump af c acc) acc)).Nodup := by
  induction cs generalizing acc with
  | nil => exact h
  | cons c t ih => exact ih _ (nodup_keys_bump af c acc h)

theorem mem_keys_foldl_bump (af : α) (cs : List Int) (acc : List (Int × α)) (k : Int) :
    k ∈ keys (cs.foldl (fun acc c => bump af c acc) acc) ↔ k ∈ keys acc ∨ k ∈ cs := by
  induction cs generalizing acc with
  | nil => simp
  | cons c t ih => rw [List.foldl_cons, ih, mem_keys_bump, List.mem_cons]; tauto

/-- the cell returned by `c_coord2cell` is `-1` or a valid cell, whatever the arithmetic -/
theorem coord2cell_neg_one_or_valid (g : Geom α) (x y : α) :
    coord2cell g x y = -1 ∨ validCell g.nrows g.ncols (coord2cell g x y) = true := by
  unfold coord2cell
  simp only []
  generalize C07.Trunc.floorToInt ((x - g.xll) / g.csz) = nx
  generalize g.nrows - 1 - C07.Trunc.floorToInt ((y - g.yll) / g.csz) = ny
  unfold cellOfNxNy
  split
  · exact Or.inl rfl
  · rename_i h
    right
    exact validCell_cellOf (row := ny) (col := nx) (by omega) (by omega) (by omega) (by omega)

theorem cellOfPt_neg_one_or_valid (g : Geom α) (p : Option (α × α)) :
    cellOfPt g p = -1 ∨ validCell g.nrows g.ncols (cellOfPt g p) = true := by
  cases p with
  | none => exact Or.inl rfl
  | some xy => exact coord2cell_neg_one_or_valid g xy.1 xy.2

/-- a point is accepted only by a grid that has rows and columns (the range test `0 <= nx < ncols`,
`0 <= ny < nrows` of `c_coord2cell`), whatever the arithmetic -/
theorem coord2cell_nonneg_dims (g : Geom α) (x y : α) (h : 0 ≤ coord2cell g x y) : 0 < g.nrows ∧ 0 < g.ncols := by
  unfold coord2cell at h
  simp only [] at h
  generalize C07.Trunc.floorToInt ((x - g.xll) / g.csz) = nx at h
  generalize g.nrows - 1 - C07.Trunc.floorToInt ((y - g.yll) / g.csz) = ny at h
  unfold cellOfNxNy at h
  split at h
  · omega
  · omega

theorem cellOfPt_nonneg_dims (g : Geom α) (p : Option (α × α)) (h : 0 ≤ cellOfPt g p) :
    0 < g.nrows ∧ 0 < g.ncols := by
  cases p with
  | none =>
    have : (0 : Int) ≤ -1 := h
    omega
  | some xy => exact coord2cell_nonneg_dims g xy.1 xy.2 h

/-- the cells listed by `c_intersect` are distinct -/
theorem cIntersect_nodup (g : Geom α) (ca : α) (pts : List (Option (α × α))) :
    (keys (cIntersect g ca pts)).Nodup := by
  rw [cIntersect_eq]
  exact nodup_keys_foldl_bump _ _ [] List.nodup_nil

theorem cIntersect_mem_keys (g : Geom α) (ca : α) (pts : List (Option (α × α))) (k : Int) :
    k ∈ keys (cIntersect g ca pts) ↔ 0 ≤ k ∧ ∃ p ∈ pts, cellOfPt g p = k := by
  rw [cIntersect_eq, mem_keys_foldl_bump (areafactor g.csz ca) (hits g pts) [] k, mem_hits]
  simp

theorem cIntersect_valid (g : Geom α) (ca : α) (pts : List (Option (α × α))) (k : Int)
    (hk : k ∈ keys (cIntersect g ca pts)) : validCell g.nrows g.ncols k = true := by
  obtain ⟨h0, p, -, rfl⟩ := (cIntersect_mem_keys g ca pts k).1 hk
  rcases cellOfPt_neg_one_or_valid g p with h | h
  · omega
  · exact h

/-- a grid that lists a cell has rows and columns -/
theorem cIntersect_dims (g : Geom α) (ca : α) (pts : List (Option (α × α))) (k : Int)
    (hk : k ∈ keys (cIntersect g ca pts)) : 0 < g.nrows ∧ 0 < g.ncols := by
  obtain ⟨h0, p, -, rfl⟩ := (cIntersect_mem_keys g ca pts k).1 hk
  exact cellOfPt_nonneg_dims g p h0

/-- the kernel writes at most `nrows*ncols` entries -/
theorem cIntersect_length (g : Geom α) (ca : α) (pts : List (Option (α × α))) :
    (cIntersect g ca pts).length ≤ (g.nrows * g.ncols).toNat := by
  have hnd := cIntersect_nodup g ca pts
  have hv := cIntersect_valid g ca pts
  have hlen : (cIntersect g ca pts).length = (keys (cIntersect g ca pts)).length := by simp [keys]
  rw [hlen]
  generalize keys (cIntersect g ca pts) = ks at hnd hv
  have hv' : ∀ k ∈ ks, 0 ≤ k ∧ k < g.nrows * g.ncols := fun k hk => validCell_iff.1 (hv k hk)
  generalize g.nrows * g.ncols = n at hv'
  have h1 : (ks.map Int.toNat).Nodup := by
    apply List.Nodup.map_on _ hnd
    intro a ha b hb hab
    have := hv' a ha
    have := hv' b hb
    omega
  have h2 : ks.map Int.toNat ⊆ List.range n.toNat := by
    intro x hx
    obtain ⟨k, hk, rfl⟩ := List.mem_map.1 hx
    have := hv' k hk
    rw [List.mem_range]
    omega
  have := (h1.subperm h2).length_le
  simpa using this

/-! #### the weight of a cell as the loop computes it: `af`, then `+= af`, in this order -/

/-- weight recorded for cell `k` (first match), `none` when the cell is not listed -/
def wLook : List (Int × α) → Int → Option α
  | [], _ => none
  | (k', w) :: t, k => if k' = k then some w else wLook t k

/-- `w += af`, `n` times -/
def addRep (af : α) (w : α) : Nat → α
  | 0 => w
  | n + 1 => addRep af w n + af

theorem addRep_succ' (af w : α) (n : Nat) : addRep af w (n + 1) = addRep af (w + af) n := by
  induction n with
  | zero => rfl
  | succ n ih => rw [addRep, ih]; rfl

theorem repAdd_eq_addRep (af : α) (n : Nat) : repAdd af n = addRep af af n := by
  induction n with
  | zero => rfl
  | succ n ih => rw [repAdd, ih]; rfl

theorem wLook_bump (af : α) (c : Int) (l : List (Int × α)) (k : Int) :
    wLook (bump af c l) k =
      if k = c then (match wLook l k with | none => some af | some w => some (w + af)) else wLook l k := by
  induction l with
  | nil =>
    simp only [bump, wLook]
    by_cases h : c = k
    · simp [h]
    · have : ¬ k = c := fun e => h e.symm
      simp [h, this]
  | cons kw t ih =>
    obtain ⟨k', w⟩ := kw
    unfold bump
    by_cases h : k' = c
    · subst h
      simp only [if_true, wLook]
      by_cases hk : k' = k
      · simp [hk]
      · have : ¬ k = k' := fun e => hk e.symm
        simp [hk, this]
    · simp only [h, if_false, wLook]
      by_cases hk : k' = k
      · have : ¬ k = c := by rw [← hk]; exact h
        simp [hk, this]
      · simp only [hk, if_false]; exact ih

theorem wLook_foldl_bump (af : α) (cs : List Int) (acc : List (Int × α)) (k : Int) :
    wLook (cs.foldl (fun acc c => bump af c acc) acc) k =
      match cs.count k, wLook acc k with
      | 0, r => r
      | n + 1, none => some (repAdd af n)
      | n + 1, some w => some (addRep af w (n + 1)) := by
  induction cs generalizing acc with
  | nil => simp
  | cons c t ih =>
    rw [List.foldl_cons, ih, wLook_bump, List.count_cons]
    by_cases h : k = c
    · subst h
      simp only [beq_self_eq_true, if_true]
      cases hl : wLook acc k with
      | none =>
        simp only []
        cases hn : List.count k t with
        | zero => simp [repAdd]
        | succ n => simp [repAdd_eq_addRep, addRep_succ']
      | some w =>
        simp only []
        cases hn : List.count k t with
        | zero => simp [addRep]
        | succ n => simp [addRep_succ']
    · have : ¬ c = k := fun e => h e.symm
      simp [h, this]

theorem wLook_of_mem {l : List (Int × α)} (h : (keys l).Nodup) {k : Int} {w : α} (hm : (k, w) ∈ l) :
    wLook l k = some w := by
  induction l with
  | nil => cases hm
  | cons kw t ih =>
    obtain ⟨k', w'⟩ := kw
    rw [keys_cons, List.nodup_cons] at h
    rcases List.mem_cons.1 hm with e | hm'
    · cases e; simp [wLook]
    · have hne : k' ≠ k := by
        rintro rfl
        exact h.1 (List.mem_map.2 ⟨(k', w), hm', rfl⟩)
      simp only [wLook, hne, if_false]
      exact ih h.2 hm'

end Generic

/-! ### weights: exact arithmetic -/

section Field
variable {α : Type} [Field α]

/-- weight recorded for cell `k` (first match; 0 when the cell is not listed) -/
def wOf : List (Int × α) → Int → α
  | [], _ => 0
  | (k', w) :: t, k => if k' = k then w else wOf t k

/-- sum of the recorded weights -/
def sumW (l : List (Int × α)) : α := (l.map Prod.snd).sum

theorem wOf_bump (af : α) (c : Int) (l : List (Int × α)) (k : Int) :
    wOf (bump af c l) k = wOf l k + (if k = c then af else 0) := by
  induction l with
  | nil =>
    simp only [bump, wOf]
    by_cases h : c = k
    · simp [h]
    · have : ¬ k = c := fun e => h e.symm
      simp [h, this]
  | cons kw t ih =>
    obtain ⟨k', w⟩ := kw
    unfold bump
    by_cases h : k' = c
    · subst h
      simp only [if_true, wOf]
      by_cases hk : k' = k
      · simp [hk]
      · have : ¬ k = k' := fun e => hk e.symm
        simp [hk, this]
    · simp only [h, if_false, wOf]
      by_cases hk : k' = k
      · have : ¬ k = c := by rw [← hk]; exact h
        simp [hk, this]
      · simp only [hk, if_false]; exact ih

theorem wOf_of_mem {l : List (Int × α)} (h : (keys l).Nodup) {k : Int} {w : α} (hm : (k, w) ∈ l) :
    wOf l k = w := by
  induction l with
  | nil => cases hm
  | cons kw t ih =>
    obtain ⟨k', w'⟩ := kw
    rw [keys_cons, List.nodup_cons] at h
    rcases List.mem_cons.1 hm with e | hm'
    · cases e; simp [wOf]
    · have hne : k' ≠ k := by
        rintro rfl
        exact h.1 (List.mem_map.2 ⟨(k', w), hm', rfl⟩)
      simp only [wOf, hne, if_false]
      exact ih h.2 hm'

theorem sumW_bump (af : α) (c : Int) (l : List (Int × α)) : sumW (bump af c l) = sumW l + af := by
  induction l with
  | nil => simp [bump, sumW]
  | cons kw t ih =>
    obtain ⟨k', w⟩ := kw
    unfold bump
    split
    · simp only [sumW, List.map_cons, List.sum_cons]; ring
    · simp only [sumW, List.map_cons, List.sum_cons] at ih ⊢
      rw [ih]; ring

theorem sum_map_snd_mul (l : List (Int × α)) (c : α) :
    (l.map fun kw => kw.2 * c).sum = sumW l * c := by
  induction l with
  | nil => simp [sumW]
  | cons kw t ih =>
    simp only [sumW, List.map_cons, List.sum_cons] at ih ⊢
    rw [ih]; ring

theorem wOf_foldl_bump (af : α) (cs : List Int) (acc : List (Int × α)) (k : Int) :
    wOf (cs.foldl (fun acc c => bump af c acc) acc) k = wOf acc k + af * (cs.count k : α) := by
  induction cs generalizing acc with
  | nil => simp
  | cons c t ih =>
    rw [List.foldl_cons, ih, wOf_bump, List.count_cons]
    by_cases h : k = c
    · subst h; simp; ring
    · have : ¬ c = k := fun e => h e.symm
      simp [h, this]

theorem sumW_foldl_bump (af : α) (cs : List Int) (acc : List (Int × α)) :
    sumW (cs.foldl (fun acc c => bump af c acc) acc) = sumW acc + af * (cs.length : α) := by
  induction cs generalizing acc with
  | nil => simp
  | cons c t ih =>
    rw [List.foldl_cons, ih, sumW_bump, List.length_cons]
    push_cast; ring

end Field

/-! ### which points are counted: extent and footprints (ordered field with floor) -/

section Floor
variable {α : Type} [Field α] [LinearOrder α] [IsStrictOrderedRing α] [FloorRing α]

theorem coord2cell_nonneg_iff {g : Geom α} (hcsz : 0 < g.csz) {x y : α} :
    0 ≤ coord2cell g x y ↔ InExtent g x y := by
  constructor
  · intro h
    by_contra hne
    have := coord2cell_of_not_inExtent hcsz hne
    omega
  · intro h
    exact (validCell_iff.1 (coord2cell_of_inExtent hcsz h).1).1

theorem coord2cell_eq_iff {g : Geom α} (hcsz : 0 < g.csz) (hc : 0 < g.ncols) {c : Int}
    (hv : validCell g.nrows g.ncols c = true) {x y : α} :
    coord2cell g x y = c ↔ InFootprint g c x y := by
  constructor
  · intro h
    have h0 : 0 ≤ coord2cell g x y := by rw [h]; exact (validCell_iff.1 hv).1
    have := (coord2cell_of_inExtent hcsz ((coord2cell_nonneg_iff hcsz).1 h0)).2
    rwa [h] at this
  · exact coord2cell_of_inFootprint hcsz hc hv

end Floor

/-! ### `np.min` / `np.max` folds -/

section MinMax
variable {β : Type} [LinearOrder β] [d : DecidableLT β]

theorem listMin_spec (x : β) (xs : List β) :
    (listMin x xs = x ∨ listMin x xs ∈ xs) ∧ listMin x xs ≤ x ∧ ∀ y ∈ xs, listMin x xs ≤ y := by
  unfold listMin
  induction xs generalizing x with
  | nil => simp
  | cons y t ih =>
    simp only [List.foldl_cons]
    by_cases h : y < x
    · simp only [h, if_true]
      obtain ⟨a, b, c⟩ := ih y
      refine ⟨?_, le_trans b h.le, ?_⟩
      · rcases a with a | a
        · right; rw [a]; exact List.mem_cons_self
        · right; exact List.mem_cons_of_mem _ a
      · intro z hz
        rcases List.mem_cons.1 hz with rfl | hz
        · exact b
        · exact c z hz
    · simp only [h, if_false]
      obtain ⟨a, b, c⟩ := ih x
      refine ⟨?_, b, ?_⟩
      · rcases a with a | a
        · left; exact a
        · right; exact List.mem_cons_of_mem _ a
      · intro z hz
        rcases List.mem_cons.1 hz with rfl | hz
        · exact le_trans b (not_lt.1 h)
        · exact c z hz

theorem listMax_spec (x : β) (xs : List β) :
    (listMax x xs = x ∨ listMax x xs ∈ xs) ∧ x ≤ listMax x xs ∧ ∀ y ∈ xs, y ≤ listMax x xs := by
  unfold listMax
  induction xs generalizing x with
  | nil => simp
  | cons y t ih =>
    simp only [List.foldl_cons]
    by_cases h : x < y
    · simp only [h, if_true]
      obtain ⟨a, b, c⟩ := ih y
      refine ⟨?_, le_trans h.le b, ?_⟩
      · rcases a with a | a
        · right; rw [a]; exact List.mem_cons_self
        · right; exact List.mem_cons_of_mem _ a
      · intro z hz
        rcases List.mem_cons.1 hz with rfl | hz
        · exact b
        · exact c z hz
    · simp only [h, if_false]
      obtain ⟨a, b, c⟩ := ih x
      refine ⟨?_, b, ?_⟩
      · rcases a with a | a
        · left; exact a
        · right; exact List.mem_cons_of_mem _ a
      · intro z hz
        rcases List.mem_cons.1 hz with rfl | hz
        · exact le_trans (not_lt.1 h) b
        · exact c z hz

/-- a minimum is determined by being a member and a lower bound -/
theorem listMin_eq_of {x : β} {xs : List β} {m : β} (hm : m = x ∨ m ∈ xs) (hx : m ≤ x)
    (hxs : ∀ y ∈ xs, m ≤ y) : listMin x xs = m := by
  obtain ⟨a, b, c⟩ := listMin_spec (d := d) x xs
  apply le_antisymm
  · rcases hm with rfl | hm
    · exact b
    · exact c _ hm
  · rcases a with a | a
    · rw [a]; exact hx
    · exact hxs _ a

variable {γ : Type} [LinearOrder γ] [dγ : DecidableLT γ]

theorem listMin_map_mono {f : γ → β} (hf : Monotone f) (a : γ) (l : List γ) :
    listMin (f a) (l.map f) = f (listMin a l) := by
  obtain ⟨m, b, c⟩ := listMin_spec (d := dγ) a l
  apply listMin_eq_of
  · rcases m with m | m
    · left; rw [m]
    · right; exact List.mem_map_of_mem m
  · exact hf b
  · intro y hy
    obtain ⟨z, hz, rfl⟩ := List.mem_map.1 hy
    exact hf (c z hz)

theorem listMin_map_anti {f : γ → β} (hf : Antitone f) (a : γ) (l : List γ) :
    listMin (f a) (l.map f) = f (listMax a l) := by
  obtain ⟨m, b, c⟩ := listMax_spec (d := dγ) a l
  apply listMin_eq_of
  · rcases m with m | m
    · left; rw [m]
    · right; exact List.mem_map_of_mem m
  · exact hf b
  · intro y hy
    obtain ⟨z, hz, rfl⟩ := List.mem_map.1 hy
    exact hf (c z hz)

end MinMax

/-! ### the scatter of the weights into the sub-grid array -/

section Scatter
variable {α : Type} [OfNat α 0]

/-- one assignment `arr[row - rowStart, col - colStart] = w` -/
def assign (nrows ncols rowStart colStart : Int) (f : Int → Int → α) (kw : Int × α) : Int → Int → α :=
  fun i j =>
    let rc := cell2rowcol nrows ncols kw.1
    if i = rc.1 - rowStart ∧ j = rc.2 - colStart then kw.2 else f i j

theorem scatterFn_eq (nrows ncols rowStart colStart : Int) (kws : List (Int × α)) :
    scatterFn nrows ncols rowStart colStart kws =
      kws.foldl (assign nrows ncols rowStart colStart) (fun _ _ => 0) := rfl

/-- position `(i, j)` is the target of no assignment -/
def Untouched (nrows ncols rowStart colStart : Int) (kws : List (Int × α)) (i j : Int) : Prop :=
  ∀ k ∈ keys kws, ¬ (i = (cell2rowcol nrows ncols k).1 - rowStart ∧ j = (cell2rowcol nrows ncols k).2 - colStart)

theorem foldl_assign_untouched {nrows ncols rowStart colStart : Int} (kws : List (Int × α))
    (f : Int → Int → α) {i j : Int} (h : Untouched nrows ncols rowStart colStart kws i j) :
    kws.foldl (assign nrows ncols rowStart colStart) f i j = f i j := by
  induction kws generalizing f with
  | nil => rfl
  | cons kw t ih =>
    rw [List.foldl_cons, ih]
    · unfold assign
      simp only []
      rw [if_neg (h kw.1 (by simp))]
    · intro k hk
      exact h k (by simp [hk])

/-- two valid cells with the same row and column are equal -/
theorem rowcol_inj {nrows ncols k k' : Int} (hc : 0 < ncols) (hv : validCell nrows ncols k = true)
    (hv' : validCell nrows ncols k' = true) (h : cell2rowcol nrows ncols k = cell2rowcol nrows ncols k') :
    k = k' := by
  unfold cell2rowcol at h
  rw [if_pos hv, if_pos hv'] at h
  have a := (valid_rowcol hc hv).2.2.2.2
  have b := (valid_rowcol hc hv').2.2.2.2
  rw [Prod.mk.injEq] at h
  rw [← a, ← b, h.1, h.2]

theorem foldl_assign_mem {nrows ncols rowStart colStart : Int} (hc : 0 < ncols) (kws : List (Int × α))
    (f : Int → Int → α) (hnd : (keys kws).Nodup) (hv : ∀ k ∈ keys kws, validCell nrows ncols k = true)
    {k : Int} {w : α} (hm : (k, w) ∈ kws) :
    kws.foldl (assign nrows ncols rowStart colStart) f
      ((cell2rowcol nrows ncols k).1 - rowStart) ((cell2rowcol nrows ncols k).2 - colStart) = w := by
  induction kws generalizing f with
  | nil => cases hm
  | cons kw t ih =>
    rw [keys_cons, List.nodup_cons] at hnd
    rw [List.foldl_cons]
    rcases List.mem_cons.1 hm with e | hm'
    · subst e
      rw [foldl_assign_untouched]
      · unfold assign; simp
      · intro k' hk' hpos
        have hvk : validCell nrows ncols k = true := hv k (by simp)
        have hvk' : validCell nrows ncols k' = true := hv k' (by simp [hk'])
        have : k = k' := by
          apply rowcol_inj hc hvk hvk'
          apply Prod.ext <;> omega
        exact hnd.1 (this ▸ hk')
    · exact ih _ hnd.2 (fun k' hk' => hv k' (by simp [hk'])) hm'

end Scatter

/-! ### the nearest-point search -/

section Nearest
variable {α : Type} [LinearOrder α] [d : DecidableLT α]

/-- `l[r] = m` is a minimum of `l` and strictly smaller than every earlier entry: `r` is the first arg-min -/
def IsFirstArgmin (l : List α) (r : Nat) (m : α) : Prop :=
  l[r]? = some m ∧ (∀ (k : Nat) (x : α), l[k]? = some x → m ≤ x) ∧ (∀ (k : Nat) (x : α), k < r → l[k]? = some x → m < x)

theorem IsFirstArgmin.unique {l : List α} {r r' : Nat} {m m' : α} (h : IsFirstArgmin l r m)
    (h' : IsFirstArgmin l r' m') : r = r' := by
  rcases Nat.lt_trichotomy r r' with hlt | heq | hgt
  · exact absurd (h'.2.2 r m hlt h.1) (not_lt.2 (h.2.1 r' m' h'.1))
  · exact heq
  · exact absurd (h.2.2 r' m' hgt h'.1) (not_lt.2 (h'.2.1 r m h.1))

theorem nearestLoop_spec (t pre : List α) (m : α) (jmin : Nat) (h : IsFirstArgmin pre jmin m) :
    ∃ m', IsFirstArgmin (pre ++ t) (nearestLoop t pre.length (some m) jmin) m' := by
  induction t generalizing pre m jmin with
  | nil => exact ⟨m, by simpa [nearestLoop] using h⟩
  | cons x t ih =>
    obtain ⟨h1, h2, h3⟩ := h
    have hj : jmin < pre.length := by
      by_contra hge
      rw [List.getElem?_eq_none (by omega)] at h1
      cases h1
    have key : ∀ (k : Nat) (y : α), (pre ++ [x])[k]? = some y → (pre[k]? = some y ∧ k < pre.length) ∨ (k = pre.length ∧ y = x) := by
      intro k y hk
      by_cases hlt : k < pre.length
      · left
        rw [List.getElem?_append_left hlt] at hk
        exact ⟨hk, hlt⟩
      · right
        rw [List.getElem?_append_right (by omega)] at hk
        by_cases h0 : k - pre.length = 0
        · rw [h0] at hk
          simp at hk
          exact ⟨by omega, hk.symm⟩
        · rw [List.getElem?_eq_none (by simp; omega)] at hk
          cases hk
    unfold nearestLoop
    have e : pre ++ x :: t = (pre ++ [x]) ++ t := by simp
    have el : pre.length + 1 = (pre ++ [x]).length := by simp
    by_cases hx : x < m
    · rw [if_pos hx, e, el]
      apply ih
      refine ⟨by simp, ?_, ?_⟩
      · intro k y hk
        rcases key k y hk with ⟨a, -⟩ | ⟨-, rfl⟩
        · exact le_trans hx.le (h2 k y a)
        · exact le_refl _
      · intro k y hlt hk
        rcases key k y hk with ⟨a, -⟩ | ⟨b, -⟩
        · exact lt_of_lt_of_le hx (h2 k y a)
        · omega
    · rw [if_neg hx, e, el]
      apply ih
      refine ⟨by rw [List.getElem?_append_left hj]; exact h1, ?_, ?_⟩
      · intro k y hk
        rcases key k y hk with ⟨a, -⟩ | ⟨-, rfl⟩
        · exact h2 k y a
        · exact not_lt.1 hx
      · intro k y hlt hk
        rcases key k y hk with ⟨a, -⟩ | ⟨b, -⟩
        · exact h3 k y hlt a
        · omega

theorem nearest_spec {ds : List α} (h : ds ≠ []) : ∃ m, IsFirstArgmin ds (nearest ds) m := by
  cases ds with
  | nil => exact absurd rfl h
  | cons x t =>
    have := nearestLoop_spec (d := d) t [x] x 0 ⟨by simp, by
      intro k y hk
      cases k with
      | zero => simp at hk; exact hk.le
      | succ k => simp at hk, by intro k y hk; omega⟩
    simpa [nearest, nearestLoop] using this

theorem nearest_lt_length {ds : List α} (h : ds ≠ []) : nearest ds < ds.length := by
  obtain ⟨m, h1, -⟩ := nearest_spec (d := d) h
  by_contra hge
  rw [List.getElem?_eq_none (by omega)] at h1
  cases h1

theorem nearest_eq_iff {ds : List α} (h : ds ≠ []) (j : Nat) :
    nearest ds = j ↔ ∃ m, IsFirstArgmin ds j m := by
  constructor
  · rintro rfl; exact nearest_spec h
  · rintro ⟨m, hm⟩
    obtain ⟨m', hm'⟩ := nearest_spec (d := d) h
    exact hm'.unique hm

end Nearest

/-! ### the count vector of `c_voronoi` -/

section Counts
variable {α : Type} [Field α]

theorem incr_length (ws : List α) (j : Nat) : (incr ws j).length = ws.length := by
  induction ws generalizing j with
  | nil => rfl
  | cons w t ih => cases j <;> simp [incr, ih]

theorem incr_getElem? (ws : List α) (j i : Nat) :
    (incr ws j)[i]? = if i = j then ws[i]?.map (· + 1) else ws[i]? := by
  induction ws generalizing j i with
  | nil => simp [incr]
  | cons w t ih =>
    cases j with
    | zero =>
      cases i with
      | zero => simp [incr]
      | succ i => simp [incr]
    | succ j =>
      cases i with
      | zero => simp [incr]
      | succ i => simp [incr, ih]

theorem incr_sum (ws : List α) (j : Nat) (h : j < ws.length) : (incr ws j).sum = ws.sum + 1 := by
  induction ws generalizing j with
  | nil => simp at h
  | cons w t ih =>
    cases j with
    | zero => simp [incr]; ring
    | succ j =>
      simp only [incr, List.sum_cons]
      rw [ih j (by simpa using h)]; ring

theorem sum_map_div (l : List α) (n : α) : (l.map fun w => w / n).sum = l.sum / n := by
  induction l with
  | nil => simp
  | cons w t ih => simp only [List.map_cons, List.sum_cons, ih, add_div]

theorem foldl_incr_length (N : Int → Nat) (cells : List Int) (ws : List α) :
    (cells.foldl (fun ws c => incr ws (N c)) ws).length = ws.length := by
  induction cells generalizing ws with
  | nil => rfl
  | cons c t ih => rw [List.foldl_cons, ih, incr_length]

theorem foldl_incr_getElem? (N : Int → Nat) (cells : List Int) (ws : List α) (i : Nat) :
    (cells.foldl (fun ws c => incr ws (N c)) ws)[i]? =
      ws[i]?.map (· + ((cells.countP fun c => N c = i) : α)) := by
  induction cells generalizing ws with
  | nil => simp
  | cons c t ih =>
    rw [List.foldl_cons, ih, incr_getElem?, List.countP_cons]
    by_cases h : N c = i
    · have : i = N c := h.symm
      simp only [this, if_true, Option.map_map, decide_true]
      congr 1
      funext x
      simp only [Function.comp]
      push_cast; ring
    · have : ¬ i = N c := fun e => h e.symm
      simp [h, this]

theorem foldl_incr_sum (N : Int → Nat) (cells : List Int) (ws : List α)
    (h : ∀ c ∈ cells, N c < ws.length) :
    (cells.foldl (fun ws c => incr ws (N c)) ws).sum = ws.sum + (cells.length : α) := by
  induction cells generalizing ws with
  | nil => simp
  | cons c t ih =>
    rw [List.foldl_cons, ih, incr_sum _ _ (h c (by simp)), List.length_cons]
    · push_cast; ring
    · intro c' hc'
      rw [incr_length]
      exact h c' (by simp [hc'])

end Counts

/-! ### unfolding `Catchment.intersect` -/

section Unfold
variable {α : Type} [Field α] [LinearOrder α] [IsStrictOrderedRing α] [FloorRing α]

instance instDecidableInFootprint (g : Geom α) (c : Int) (x y : α) : Decidable (InFootprint g c x y) := by
  unfold InFootprint; infer_instance

instance instDecidableInExtent (g : Geom α) (x y : α) : Decidable (InExtent g x y) := by
  unfold InExtent; infer_instance

/-- entry `(i, j)` of the data array (rows from the top) -/
def AreaGrid.at (a : AreaGrid α) (i j : Nat) : Option α := (a.data[i]?).bind (·[j]?)

/-- row / column of a parent cell -/
abbrev prow (g : Geom α) (k : Int) : Int := (cell2rowcol g.nrows g.ncols k).1
abbrev pcol (g : Geom α) (k : Int) : Int := (cell2rowcol g.nrows g.ncols k).2

theorem AreaGrid.at_of_data {a : AreaGrid α} {nr nc : Nat} {f : Int → Int → α}
    (hd : a.data = (List.range nr).map fun (i : Nat) => (List.range nc).map fun (j : Nat) => f (i : Int) (j : Int))
    {i j : Nat} (hi : i < nr) (hj : j < nc) : a.at i j = some (f (i : Int) (j : Int)) := by
  unfold AreaGrid.at
  rw [hd]
  simp [hi, hj]

/-- the weight array passes the shape guards of the `Grid.data` setter -/
theorem setData_grid {β : Type} {nr nc : Int} (hr : 0 ≤ nr) (hc : 0 ≤ nc) (f : Nat → Nat → β) :
    setData nr nc ((List.range nr.toNat).map fun i => (List.range nc.toNat).map fun j => f i j) =
      .ok ((List.range nr.toNat).map fun i => (List.range nc.toNat).map fun j => f i j) := by
  unfold setData
  rw [if_neg, if_neg]
  · simp only [List.any_eq_true, List.mem_map, List.mem_range, decide_eq_true_eq, not_exists, not_and]
    rintro r ⟨i, -, rfl⟩
    simp only [List.length_map, List.length_range, ne_eq, not_not]
    omega
  · simp only [List.length_map, List.length_range, ne_eq, not_not]
    omega

theorem listMin_le_listMax {β : Type} [LinearOrder β] (x : β) (xs : List β) : listMin x xs ≤ listMax x xs :=
  le_trans (listMin_spec x xs).2.1 (listMax_spec x xs).2.1

/-- what `Catchment.intersect` builds from a non-empty kernel listing -/
def areaOf (coarse : Geom α) (kw0 : Int × α) (rest : List (Int × α)) : AreaGrid α :=
  let rowStart := listMin (prow coarse kw0.1) (rest.map fun kw => prow coarse kw.1)
  let rowEnd := listMax (prow coarse kw0.1) (rest.map fun kw => prow coarse kw.1)
  let colStart := listMin (pcol coarse kw0.1) (rest.map fun kw => pcol coarse kw.1)
  let colEnd := listMax (pcol coarse kw0.1) (rest.map fun kw => pcol coarse kw.1)
  { keys := (kw0 :: rest).map (·.1), weights := (kw0 :: rest).map (·.2),
    rowStart, rowEnd, colStart, colEnd,
    xll := listMin (getcoord coarse kw0.1).1 (rest.map fun kw => (getcoord coarse kw.1).1) - coarse.csz / (1 + 1),
    yll := listMin (getcoord coarse kw0.1).2 (rest.map fun kw => (getcoord coarse kw.1).2) - coarse.csz / (1 + 1),
    nrows := rowEnd - rowStart + 1, ncols := colEnd - colStart + 1,
    data := (List.range (rowEnd - rowStart + 1).toNat).map fun (i : Nat) =>
      (List.range (colEnd - colStart + 1).toNat).map fun (j : Nat) =>
        scatterFn coarse.nrows coarse.ncols rowStart colStart (kw0 :: rest) (i : Int) (j : Int),
    csz := coarse.csz, parent := coarse }

/-- `Catchment.intersect` with the guards that never fire removed: the kernel cannot overrun the buffers
(`cIntersect_length`) and the weight array always has the shape of the grid it is assigned to -/
theorem intersect_unfold (coarse fine : Geom α) (cells : List Int) :
    intersect coarse fine cells =
      if coarse.nrows * coarse.ncols < 0 then .error .badBuffer
      else match cIntersect coarse fine.csz (cells.map (cell2coord fine)) with
        | [] => .error .noOverlap
        | kw0 :: rest => .ok (areaOf coarse kw0 rest) := by
  by_cases hneg : coarse.nrows * coarse.ncols < 0
  · simp [intersect, hneg]
  · have hlen := cIntersect_length coarse fine.csz (cells.map (cell2coord fine))
    unfold intersect
    simp only [hneg, if_false, not_lt.2 hlen]
    cases hk : cIntersect coarse fine.csz (cells.map (cell2coord fine)) with
    | nil => rfl
    | cons kw0 rest =>
      simp only []
      have hr := listMin_le_listMax (cell2rowcol coarse.nrows coarse.ncols kw0.1).1
        (rest.map fun kw => (cell2rowcol coarse.nrows coarse.ncols kw.1).1)
      have hc := listMin_le_listMax (cell2rowcol coarse.nrows coarse.ncols kw0.1).2
        (rest.map fun kw => (cell2rowcol coarse.nrows coarse.ncols kw.1).2)
      rw [setData_grid (by omega) (by omega)]
      rfl

theorem intersect_eq_ok {coarse fine : Geom α} {cells : List Int} {a : AreaGrid α}
    (h : intersect coarse fine cells = .ok a) :
    ∃ kw0 rest, cIntersect coarse fine.csz (cells.map (cell2coord fine)) = kw0 :: rest ∧
      a.keys = (kw0 :: rest).map (·.1) ∧ a.weights = (kw0 :: rest).map (·.2) ∧
      a.rowStart = listMin (prow coarse kw0.1) (rest.map fun kw => prow coarse kw.1) ∧
      a.rowEnd = listMax (prow coarse kw0.1) (rest.map fun kw => prow coarse kw.1) ∧
      a.colStart = listMin (pcol coarse kw0.1) (rest.map fun kw => pcol coarse kw.1) ∧
      a.colEnd = listMax (pcol coarse kw0.1) (rest.map fun kw => pcol coarse kw.1) ∧
      a.xll = listMin (getcoord coarse kw0.1).1 (rest.map fun kw => (getcoord coarse kw.1).1) - coarse.csz / (1 + 1) ∧
      a.yll = listMin (getcoord coarse kw0.1).2 (rest.map fun kw => (getcoord coarse kw.1).2) - coarse.csz / (1 + 1) ∧
      a.nrows = a.rowEnd - a.rowStart + 1 ∧ a.ncols = a.colEnd - a.colStart + 1 ∧
      a.data = (List.range a.nrows.toNat).map fun (i : Nat) => (List.range a.ncols.toNat).map fun (j : Nat) =>
        scatterFn coarse.nrows coarse.ncols a.rowStart a.colStart (kw0 :: rest) (i : Int) (j : Int) := by
  rw [intersect_unfold] at h
  split at h
  · cases h
  · split at h
    · cases h
    · rename_i kw0 rest heq
      injection h with h
      subst h
      exact ⟨kw0, rest, heq, rfl, rfl, rfl, rfl, rfl, rfl, rfl, rfl, rfl, rfl, rfl⟩

/-- the cell size and the parent attributes of the weight grid are those of the intersected grid -/
theorem intersect_eq_ok_parent {coarse fine : Geom α} {cells : List Int} {a : AreaGrid α}
    (h : intersect coarse fine cells = .ok a) : a.csz = coarse.csz ∧ a.parent = coarse := by
  rw [intersect_unfold] at h
  split at h
  · cases h
  · split at h
    · cases h
    · injection h with h
      subst h
      exact ⟨rfl, rfl⟩

theorem intersect_eq_error {coarse fine : Geom α} {cells : List Int} {e : Err}
    (h : intersect coarse fine cells = .error e) :
    (e = .badBuffer ∧ coarse.nrows * coarse.ncols < 0) ∨
    (e = .noOverlap ∧ 0 ≤ coarse.nrows * coarse.ncols ∧
      cIntersect coarse fine.csz (cells.map (cell2coord fine)) = []) := by
  rw [intersect_unfold] at h
  split at h
  · rename_i hneg
    injection h with h
    exact Or.inl ⟨h.symm, hneg⟩
  · rename_i hneg
    split at h
    · rename_i heq
      injection h with h
      exact Or.inr ⟨h.symm, not_lt.1 hneg, heq⟩
    · cases h

/-! ### the executable statement of the property (`Model/C16.lean`, section Spec) says what the theorems say -/

theorem inFootprintB_iff (g : Geom α) (c : Int) (x y : α) :
    inFootprintB g c x y = true ↔ InFootprint g c x y := by
  unfold inFootprintB InFootprint cellLeft cellRight cellBottom cellTop rowUp
  simp only [ofInt_eq, Bool.and_eq_true, decide_eq_true_eq, and_assoc]

theorem inExtentB_iff (g : Geom α) (x y : α) : inExtentB g x y = true ↔ InExtent g x y := by
  unfold inExtentB InExtent
  simp only [ofInt_eq, Bool.and_eq_true, decide_eq_true_eq, and_assoc]

theorem specCount_eq (coarse fine : Geom α) (cells : List Int) (k : Int) :
    specCount coarse fine cells k = cells.countP fun c => validCell fine.nrows fine.ncols c &&
      decide (InFootprint coarse k (getcoord fine c).1 (getcoord fine c).2) := by
  unfold specCount
  apply List.countP_congr
  intro c _
  simp only [Bool.and_eq_true, decide_eq_true_eq, inFootprintB_iff]

theorem specInside_eq (coarse fine : Geom α) (cells : List Int) :
    specInside coarse fine cells = cells.countP fun c => validCell fine.nrows fine.ncols c &&
      decide (InExtent coarse (getcoord fine c).1 (getcoord fine c).2) := by
  unfold specInside
  apply List.countP_congr
  intro c _
  simp only [Bool.and_eq_true, decide_eq_true_eq, inExtentB_iff]

end Unfold

/-! ### guards of `c_voronoi` / `grid.voronoi` -/

section VoronoiGuards
variable {α : Type} [Field α] [LinearOrder α] [IsStrictOrderedRing α] [FloorRing α]

theorem cVoronoi_unfold (dist : α → α → α) (g : Geom α) (cells : List Int) (pts : List (α × α)) :
    cVoronoi dist g cells pts =
      if pts = [] then .error .noPoints
      else if g.nrows < 1 ∨ g.ncols < 1 then .error .badGrid
      else if cells = [] then .ok (pts.map fun _ => none)
      else .ok ((counts dist g cells pts).map fun w => some (w / (cells.length : α))) := by
  unfold cVoronoi
  have e1 : pts.length < 1 ↔ pts = [] := by
    cases pts <;> simp
  have e2 : cells.length = 0 ↔ cells = [] := List.length_eq_zero_iff
  simp only [e1, e2, ofInt_eq, Int.cast_natCast]

theorem rowsToPts_map (pts : List (α × α)) : rowsToPts (pts.map fun p => [p.1, p.2]) = pts := by
  induction pts with
  | nil => rfl
  | cons p t ih => simp [rowsToPts, ih]

end VoronoiGuards

end HydroVerif.C16
