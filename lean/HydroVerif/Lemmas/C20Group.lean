/- grouping lemmas for C20: `groupBy` puts every row in the bucket of its category, buckets in key order -/
import HydroVerif.Model.C20
import Mathlib.Data.List.Basic
import Mathlib.Tactic.Linarith

set_option linter.unusedSectionVars false
set_option linter.unusedVariables false
set_option linter.unusedSimpArgs false

namespace HydroVerif.C20

variable {β : Type}

/-- the rows of category `k`, in their original order: the group taken alone -/
def bucket (cats : List Int) (data : List β) (k : Int) : List β :=
  ((cats.zip data).filter fun kv => kv.1 = k).map fun kv => kv.2

def rowsBucket (rows : List (Int × β)) (k : Int) : List β :=
  (rows.filter fun kv => kv.1 = k).map fun kv => kv.2

theorem lookup_none_of_lt (g : List (Int × List β)) (k : Int) (h : ∀ kv ∈ g, k < kv.1) : g.lookup k = none := by
  induction g with
  | nil => rfl
  | cons a t ih =>
    have h1 := h a (by simp)
    have hne : (k == a.1) = false := by simpa using (ne_of_lt h1)
    rw [List.lookup_cons, hne]
    exact ih fun kv hkv => h kv (List.mem_cons_of_mem _ hkv)

theorem lookup_insertGroup (g : List (Int × List β)) (hs : (g.map fun kv => kv.1).Pairwise (· < ·)) (k : Int) (v : β)
    (k' : Int) :
    (insertGroup k v g).lookup k' = if k' = k then some ((g.lookup k).getD [] ++ [v]) else g.lookup k' := by
  induction g with
  | nil =>
    simp only [insertGroup, List.lookup_cons, List.lookup_nil, Option.getD_none, List.nil_append]
    by_cases h : k' = k
    · simp [h]
    · have hb : (k' == k) = false := by simpa using h
      simp [h, hb]
  | cons a t ih =>
    obtain ⟨k0, vs0⟩ := a
    simp only [List.map_cons, List.pairwise_cons] at hs
    simp only [insertGroup]
    by_cases h1 : k < k0
    · simp only [h1, if_true]
      have hnone : ((k0, vs0) :: t).lookup k = none := by
        apply lookup_none_of_lt
        intro kv hkv
        rcases List.mem_cons.mp hkv with rfl | hkv
        · exact h1
        · exact lt_trans h1 (hs.1 kv.1 (List.mem_map.mpr ⟨kv, hkv, rfl⟩))
      rw [hnone, List.lookup_cons]
      by_cases h : k' = k
      · simp [h]
      · have hb : (k' == k) = false := by simpa using h
        simp [h, hb]
    · simp only [h1, if_false]
      by_cases h2 : k = k0
      · subst h2
        simp only [if_true, List.lookup_cons, beq_self_eq_true, Option.getD_some]
        by_cases h : k' = k
        · simp [h]
        · have hb : (k' == k) = false := by simpa using h
          simp [h, hb]
      · simp only [h2, if_false]
        rw [List.lookup_cons, ih hs.2]
        have hkk : (k == k0) = false := by simpa using h2
        by_cases h : k' = k
        · subst h
          simp [List.lookup_cons, hkk]
        · simp only [h, if_false, List.lookup_cons]

theorem keys_insertGroup (g : List (Int × List β)) (k : Int) (v : β) :
    ∀ x ∈ (insertGroup k v g).map (fun kv => kv.1), x = k ∨ x ∈ g.map (fun kv => kv.1) := by
  induction g with
  | nil => simp [insertGroup]
  | cons a t ih =>
    obtain ⟨k0, vs0⟩ := a
    simp only [insertGroup]
    by_cases h1 : k < k0
    · simp [h1]
    · by_cases h2 : k = k0
      · simp [h1, h2]
      · simp only [h1, h2, if_false, List.map_cons, List.mem_cons]
        intro x hx
        rcases hx with rfl | hx
        · right; left; rfl
        · rcases ih x hx with h | h
          · left; exact h
          · right; right; exact h

theorem sorted_insertGroup (g : List (Int × List β)) (hs : (g.map fun kv => kv.1).Pairwise (· < ·)) (k : Int) (v : β) :
    ((insertGroup k v g).map fun kv => kv.1).Pairwise (· < ·) := by
  induction g with
  | nil => simp [insertGroup]
  | cons a t ih =>
    obtain ⟨k0, vs0⟩ := a
    simp only [List.map_cons, List.pairwise_cons] at hs
    simp only [insertGroup]
    by_cases h1 : k < k0
    · simp only [h1, if_true, List.map_cons, List.pairwise_cons]
      refine ⟨?_, hs⟩
      intro x hx
      rcases List.mem_cons.mp hx with rfl | hx
      · exact h1
      · exact lt_trans h1 (hs.1 x hx)
    · by_cases h2 : k = k0
      · subst h2
        simp only [h1, if_false, if_true, List.map_cons, List.pairwise_cons]
        exact hs
      · simp only [h1, h2, if_false, List.map_cons, List.pairwise_cons]
        refine ⟨?_, ih hs.2⟩
        intro x hx
        rcases keys_insertGroup t k v x hx with rfl | hx
        · omega
        · exact hs.1 x hx

theorem rowsBucket_append (rows : List (Int × β)) (k : Int) (v : β) (k' : Int) :
    rowsBucket (rows ++ [(k, v)]) k' = rowsBucket rows k' ++ (if k' = k then [v] else []) := by
  unfold rowsBucket
  rw [List.filter_append, List.map_append]
  congr 1
  by_cases h : k' = k
  · simp [h]
  · have : ¬ k = k' := fun h' => h h'.symm
    simp [h, this]

/-- the invariant of the scan: keys in increasing order, every key's bucket holds the rows seen so far
with that category, keys without rows are absent -/
theorem foldl_insertGroup_inv (rest done : List (Int × β)) (acc : List (Int × List β))
    (hs : (acc.map fun kv => kv.1).Pairwise (· < ·))
    (hl : ∀ k, acc.lookup k = if (rowsBucket done k).isEmpty then none else some (rowsBucket done k)) :
    ((rest.foldl (fun acc kv => insertGroup kv.1 kv.2 acc) acc).map fun kv => kv.1).Pairwise (· < ·) ∧
    ∀ k, (rest.foldl (fun acc kv => insertGroup kv.1 kv.2 acc) acc).lookup k =
      if (rowsBucket (done ++ rest) k).isEmpty then none else some (rowsBucket (done ++ rest) k) := by
  induction rest generalizing done acc with
  | nil =>
    simp only [List.foldl_nil, List.append_nil]
    exact ⟨hs, hl⟩
  | cons kv t ih =>
    obtain ⟨k, v⟩ := kv
    simp only [List.foldl_cons]
    have hs' := sorted_insertGroup acc hs k v
    have hl' : ∀ k', (insertGroup k v acc).lookup k' =
        if (rowsBucket (done ++ [(k, v)]) k').isEmpty then none else some (rowsBucket (done ++ [(k, v)]) k') := by
      intro k'
      rw [lookup_insertGroup acc hs k v k', rowsBucket_append]
      by_cases h : k' = k
      · subst h
        rw [hl k']
        cases hb : rowsBucket done k' with
        | nil => simp
        | cons x xs => simp
      · simp only [h, if_false, List.append_nil]
        exact hl k'
    have := ih (done ++ [(k, v)]) (insertGroup k v acc) hs' hl'
    rw [List.append_assoc, List.singleton_append] at this
    exact this

theorem groupBy_keys_sorted (cats : List Int) (data : List β) :
    ((groupBy cats data).map fun kv => kv.1).Pairwise (· < ·) := by
  have := foldl_insertGroup_inv (cats.zip data) [] [] (by simp) (by simp [rowsBucket])
  exact this.1

theorem groupBy_lookup (cats : List Int) (data : List β) (k : Int) :
    (groupBy cats data).lookup k = if (bucket cats data k).isEmpty then none else some (bucket cats data k) := by
  have := (foldl_insertGroup_inv (cats.zip data) [] [] (by simp) (by simp [rowsBucket])).2 k
  rw [List.nil_append] at this
  exact this

/-- membership form: the groups are exactly the non-empty buckets -/
theorem mem_groupBy_iff (cats : List Int) (data : List β) (k : Int) (vs : List β) :
    (k, vs) ∈ groupBy cats data ↔ vs = bucket cats data k ∧ vs ≠ [] := by
  have hs := groupBy_keys_sorted cats data
  have hl := groupBy_lookup cats data k
  have hnd : ((groupBy cats data).map fun kv => kv.1).Nodup := hs.imp (fun h => ne_of_lt h)
  have key : ∀ (g : List (Int × List β)), (g.map fun kv => kv.1).Nodup →
      ((k, vs) ∈ g ↔ g.lookup k = some vs) := by
    intro g hg
    induction g with
    | nil => simp
    | cons a t ih =>
      obtain ⟨k0, vs0⟩ := a
      simp only [List.map_cons, List.nodup_cons] at hg
      rw [List.lookup_cons]
      by_cases h : k = k0
      · subst h
        simp only [List.mem_cons, Prod.mk.injEq, true_and, beq_self_eq_true, Option.some.injEq]
        constructor
        · rintro (h | h)
          · exact h.symm
          · exact absurd (List.mem_map.mpr ⟨(k, vs), h, rfl⟩) hg.1
        · intro h; left; exact h.symm
      · have hb : (k == k0) = false := by simpa using h
        simp only [List.mem_cons, Prod.mk.injEq, h, false_and, false_or, hb]
        exact ih hg.2
  rw [key _ hnd, hl]
  cases hb : bucket cats data k with
  | nil =>
    simp only [List.isEmpty_nil, if_true]
    constructor
    · intro h; cases h
    · rintro ⟨h1, h2⟩; exact absurd h1 h2
  | cons x xs =>
    simp only [List.isEmpty_cons, Bool.false_eq_true, if_false, Option.some.injEq]
    constructor
    · intro h; subst h; exact ⟨rfl, by simp⟩
    · rintro ⟨h1, _⟩; exact h1.symm

end HydroVerif.C20
